(* Refinement of MVP-6.3 to the sequential machine on single-assignment register-only programs with FORWARD
   control flow - the execute units and the write units on the generalised back-end invariant BIq
   (the port of the last part of Mvp63RefInv.v and of Mvp63RefExec.v, with the new cases).

     head_entryq, tables_viewq, head_operandsq    the head of the execute bus is instruction xe and reads its
                                                  sequential operands;
     eu_head_gen       executeUnit.Cycle of an idle unit on the head of the execute bus, whatever the instruction
                       computes (exec_gen): used on the correct path and for the shadow of a taken branch;
     kout_cases        what instruction k of the segment reports: a jump (k = N), a conditional branch taken to
                       t >= k + 2, or nothing;
     eu_head_plainq / BIq_exec_plain   kout xe = euo_none: BIq with S xe (a conditional branch commits);
     eu_head_retq / BIq_exec_ret       the ret;
     eu_head_flushq                    the flushing instruction E: FIq (the back-end part of GF3);
     eu_shadowq                        the instruction behind a taken branch, on the wrong path;
     eus_main_q        the loop over the execute units of the main loop: j plain heads, then nothing / the ret /
                       the flushing instruction and at most one shadow;
     eus_drain_idleq   the loop of the drain loop over idle units;
     wu_take_gen, wus_okq, wus_okf     the write units on BIq and on FIq (before = -1 or the tag of E). *)
From Coq Require Import ZArith List Bool Lia Permutation.
From Maj Require Import Base.Outcome Base.GoInt Base.GoTypes Isa.Spec Isa.Embed Isa.Seq Isa.Refine.
From Maj Require Import Gen.Latency Gen.RiscTables Gen.Opcodes Comp.Cache Comp.Rat Comp.RatProofs.
From Maj Require Import Mvp.Mvp12 Mvp.Mvp12Proofs Mvp.Mvp3 Mvp.Mvp3Proofs Mvp.Mvp4Skel Mvp.Mvp4Inv Mvp.Mvp5 Mvp.Mvp60
     Mvp.Mvp60RefSem Mvp.Mvp60RefDefs Mvp.Mvp60RefFront Mvp.Mvp60RefBack Mvp.Mvp60RefStep Mvp.Mvp60RefStep2
     Mvp.Mvp63 Mvp.Mvp63RefDefs Mvp.Mvp63RefInv Mvp.Mvp63RefExec Mvp.Mvp63RefFwdDefs Mvp.Mvp63RefFwdRat.
Import ListNotations.
Open Scope Z_scope.

(* ------------------------------------------------------------------ *)
(* small facts that do not depend on the program                        *)

Lemma fwd_idx_pczq k : fwd_idx (pcz k) = k.
Proof. unfold fwd_idx. rewrite pcz_quot. apply Nat2Z.id. Qed.

Lemma chan_ltq x r v b : Forall (fun p => fst p < b) (x_chan x) -> (forall ch, q_fwder r = Some ch -> ch < b) ->
  Forall (fun p => fst p < b) (rchan x r) /\ Forall (fun p => fst p < b) (schan (rchan x r) r v).
Proof.
  intros H Hf. assert (H1 : Forall (fun p => fst p < b) (rchan x r)) by (unfold rchan; destruct (q_recv r); [apply Forall_filter3|]; exact H).
  split; [exact H1|]. unfold schan. destruct (q_fwder r) as [ch|]; [|exact H1].
  apply Forall_app. split; [exact H1|]. constructor; [cbn [fst]; apply Hf; reflexivity | constructor].
Qed.

Lemma wu_frame3q x wu before x' wu' : u_co wu = WNone -> wu_cycle3 x wu before = Ok (x', wu') -> WuFrame3 x x'.
Proof.
  intros Hco. unfold wu_cycle3. rewrite Hco. unfold bb_get.
  destruct (bb_q (m_wbus (x_m x))) as [|c q'].
  - intros H. injection H as <- <-. constructor; reflexivity.
  - destruct (negb (before =? -1) && (before <? w_seq c)); [intros H; injection H as <- <-; constructor; reflexivity|].
    destruct (RegisterChange (w_exe c)); [intros H; injection H as <- <-; constructor; reflexivity|].
    destruct (MemoryChange (w_exe c)); intros H; injection H as <- <-; constructor; reflexivity.
Qed.

Lemma wu_idle3q x wu before : u_co wu = WNone -> bb_q (m_wbus (x_m x)) = [] -> wu_cycle3 x wu before = Ok (x, wu).
Proof.
  intros Hco Hq. unfold wu_cycle3. rewrite Hco. unfold bb_get. rewrite Hq.
  rewrite set_wbus_same, set_m_same. reflexivity.
Qed.

Lemma eus_empty3q eus : Forall EuIdle eus -> forallb eu_empty3 eus = true.
Proof. intros H. apply forallb_forall. intros e Hin. rewrite Forall_forall in H. destruct (H e Hin) as [Hc _]. unfold eu_empty3. rewrite Hc. reflexivity. Qed.

Lemma wus_empty3q wus : Forall (fun u => u_co u = WNone) wus -> forallb wu_empty wus = true.
Proof. intros Hw. apply forallb_forall. intros u Hin. rewrite Forall_forall in Hw. unfold wu_empty. rewrite (Hw u Hin). reflexivity. Qed.

Lemma eus_drain_idleq labels ord cy x : forall eus, Forall EuIdle eus -> eus_drain3 labels ord cy x eus = (false, Ok (x, eus, None)).
Proof.
  induction 1 as [|e t [Hco _] _ IH]; [reflexivity|]. cbn [eus_drain3]. unfold eu_empty3. rewrite Hco, IH. reflexivity.
Qed.

Lemma StaleOK_mono b b' e : b <= b' -> StaleOK b e -> StaleOK b' e.
Proof. intros H Hs r Hr. specialize (Hs r Hr). lia. Qed.

Lemma StaleOK_seq b e s : StaleOK b e -> StaleOK b (mk_eu3 (g_co e) (g_memory e) (g_runner e) s).
Proof. intros H r Hr. apply H. exact Hr. Qed.

(* the Pre hook of a unit whose stale runner is older than the flushing instruction *)
Lemma eu_pre3_stale e b : StaleOK b e -> g_seq e = 0 \/ b <= g_seq e -> eu_pre3 e = false.
Proof.
  intros Hs Hg. unfold eu_pre3. destruct (Z.eqb_spec (g_seq e) 0) as [|Hnz]; [reflexivity|].
  destruct (g_runner e) as [r|] eqn:Er; [|reflexivity]. specialize (Hs r Er). apply Z.ltb_ge. lia.
Qed.

Section FwdExec.
  Variables (app : list instr) (labels : Z -> option Z) (regs0 mem0 : list Z) (base : nat) (sq : Z) (ord : Z -> Z -> list Z -> list Z).
  Hypothesis Happ : wf_app app.
  Hypothesis Hreg : reg_only app = true.
  Hypothesis Hssa : ssa app = true.
  Hypothesis Hrng : regs_ok app = true.
  Hypothesis Hlen0 : length regs0 = 32%nat.
  Hypothesis Hr32 : Forall int32 regs0.
  Hypothesis Hx0 : nth 0 regs0 0 = 0.
  Hypothesis Hbase : (base <= length app)%nat.
  Hypothesis Hsq : 0 <= sq /\ 1000 * sq + 4 * Z.of_nat (length app) + 4 < 2147483648.
  Let n := length app.
  Let N := stop_from app base.

  Notation sreg := (sreg app labels regs0 base).
  Notation eff := (eff app labels regs0 base).
  Notation ik := (ik app).
  Notation wsl := (wsl app).
  Notation rsl := (rsl app).
  Notation rds := (rds app).
  Notation wrs := (wrs app).
  Notation kout := (kout app labels regs0 base).
  Notation sid := (sid sq).
  Notation exeb := (exeb app labels regs0 base).
  Notation rnq := (rnq app sq).
  Notation wbq := (wbq app labels regs0 base sq).
  Notation vw := (vw app labels regs0 base).
  Notation TabOK := (TabOK app labels regs0 base sq).
  Notation BIq := (BIq app labels regs0 mem0 base sq).
  Notation RecvOKq := (RecvOKq app labels regs0 base).
  Notation ReadOK := (ReadOK app).

  Hypothesis Hsem : forall k, (base <= k <= N)%nat -> (k < n)%nat ->
    exec (sinstr_of (ik k)) (rget (sreg k)) labels (pcz k) [] = Ok (eff k) /\
    (forall a, etarget (eff k) = Some a -> exists t, a = pcz t /\ (k < t <= n)%nat).
  (* wrong-path execution cannot fail *)
  Hypothesis Htot : forall k rr, (k < n)%nat -> exists e, exec (sinstr_of (ik k)) rr labels (pcz k) [] = Ok e.

  Set Default Proof Using "All".

  (* ---------------------------------------------------------------- *)
  (* indices, tags, runners                                             *)

  Lemma N_len : (N <= n)%nat. Proof. apply stop_from_le. exact Hbase. Qed.
  Lemma base_N : (base <= N)%nat. Proof. apply stop_from_ge. Qed.

  Lemma kr_rnq k : kr (rnq k) = k.
  Proof. unfold kr, Mvp63RefFwdDefs.rnq. cbn [r_pc]. rewrite pcz_div. apply Nat2Z.id. Qed.

  Lemma kq_rnq r k : q_r r = rnq k -> kq r = k.
  Proof. intros H. unfold kq. rewrite H. apply kr_rnq. Qed.

  Lemma q_instr_rnq r k : q_r r = rnq k -> q_instr r = ik k.
  Proof. intros H. unfold q_instr. rewrite H. reflexivity. Qed.

  Lemma q_pc_rnq r k : q_r r = rnq k -> q_pc r = pcz k.
  Proof. intros H. unfold q_pc. rewrite H. reflexivity. Qed.

  Lemma q_seq_rnq r k : q_r r = rnq k -> q_seq r = sid k.
  Proof. intros H. unfold q_seq. rewrite H. reflexivity. Qed.

  Lemma sid_lt j k : (j < k)%nat -> sid j < sid k.
  Proof. unfold Mvp63RefFwdDefs.sid, sid3, pcz. lia. Qed.

  Lemma sid_le j k : (j <= k)%nat -> sid j <= sid k.
  Proof. unfold Mvp63RefFwdDefs.sid, sid3, pcz. lia. Qed.

  Lemma sid_nonneg k : 0 <= sid k.
  Proof. unfold Mvp63RefFwdDefs.sid, sid3, pcz. lia. Qed.

  Lemma sid_eq k : sid k = pcz k + 1000 * sq.
  Proof. reflexivity. Qed.

  Lemma map_rnq_in (l : list runner3) a len e : map q_r l = map rnq (seq a len) -> In e l ->
    exists k, (a <= k < a + len)%nat /\ q_r e = rnq k /\ kq e = k.
  Proof.
    intros H Hin. assert (Hq : In (q_r e) (map rnq (seq a len))) by (rewrite <- H; apply in_map; exact Hin).
    apply in_map_iff in Hq as (k & Ek & Hk). apply in_seq in Hk. exists k. split; [exact Hk|]. split; [auto|]. apply kq_rnq. auto.
  Qed.

  Lemma ebus_entryq dp d xe w pl pv x e : BIq dp d xe w pl pv x -> In e (flat (x_ebus x)) ->
    exists k, (xe <= k < d)%nat /\ q_r e = rnq k /\ kq e = k.
  Proof.
    intros HB Hin. destruct (map_rnq_in _ _ _ _ (bq_ebus _ _ _ _ _ _ _ _ _ _ _ _ _ HB) Hin) as (k & Hk & A & B).
    pose proof (bq_ord _ _ _ _ _ _ _ _ _ _ _ _ _ HB). exists k. split; [lia | auto].
  Qed.

  Lemma head_entryq dp d xe w pl pv x r E' : BIq dp d xe w pl pv x -> flat (x_ebus x) = r :: E' ->
    q_r r = rnq xe /\ kq r = xe /\ (xe < d)%nat.
  Proof.
    intros HB Hfl. pose proof (bq_ebus _ _ _ _ _ _ _ _ _ _ _ _ _ HB) as He. rewrite Hfl in He. cbn [map] in He.
    destruct (d - xe)%nat as [|m] eqn:Em; [discriminate|]. cbn [seq map] in He. injection He as He _.
    split; [exact He|]. split; [apply kq_rnq; exact He | lia].
  Qed.

  Lemma BIq_ext dp d xe w pl pv x x' :
    flat (x_ebus x') = flat (x_ebus x) -> flat (m_wbus (x_m x')) = flat (m_wbus (x_m x)) ->
    m_pw (x_m x') = m_pw (x_m x) -> m_pr (x_m x') = m_pr (x_m x) ->
    x_crat x' = x_crat x -> x_trat x' = x_trat x -> x_fwd x' = x_fwd x -> x_seq x' = x_seq x -> x_pcb x' = x_pcb x ->
    x_chan x' = x_chan x -> x_next x' = x_next x ->
    m_regs (x_m x') = m_regs (x_m x) -> m_mem (x_m x') = m_mem (x_m x) -> m_l3 (x_m x') = m_l3 (x_m x) -> x_os x' = x_os x ->
    BIq dp d xe w pl pv x -> BIq dp d xe w pl pv x'.
  Proof.
    intros E1 E2 E3 E4 E5 E6 E7 E8 E9 E10 E11 E14 E15 E16 E17 H. destruct H.
    constructor; rewrite ?E1, ?E2, ?E3, ?E4, ?E5, ?E6, ?E7, ?E8, ?E9, ?E10, ?E11, ?E14, ?E15, ?E16, ?E17; assumption.
  Qed.

  Lemma BIq_noprev dp d xe w pl pv x : BIq dp d xe w pl pv x -> BIq dp d xe w pl [] x.
  Proof. intros []. constructor; try assumption; [intros p [] | constructor]. Qed.

  (* ---------------------------------------------------------------- *)
  (* the instructions of the segment                                    *)

  Lemma stop_N k : (base <= k <= N)%nat -> (k < n)%nat -> (is_stop (ik k) = true <-> k = N).
  Proof.
    intros H1 H2. split.
    - intros Hs. destruct (Nat.eq_dec k N) as [|Hne]; [assumption|]. exfalso.
      pose proof (stop_from_before app dfl base k ltac:(fold N; lia)) as Hf. unfold Mvp60RefSem.ik in Hs. congruence.
    - intros ->. exact (stop_from_at app dfl base H2).
  Qed.

  Lemma ret_is_Nq k : (base <= k <= N)%nat -> (k < n)%nat -> is_ret (ik k) = true -> k = N.
  Proof. intros H1 H2 Hr. apply (stop_N k H1 H2). unfold is_stop. rewrite Hr. reflexivity. Qed.

  Lemma jump_is_Nq k : (base <= k <= N)%nat -> (k < n)%nat -> is_jump (ik k) = true -> k = N.
  Proof. intros H1 H2 Hr. apply (stop_N k H1 H2). unfold is_stop. rewrite Hr. apply orb_true_r. Qed.

  Lemma flagsq k : (base <= k <= N)%nat -> (k < n)%nat ->
    Return (exeb k) = is_ret (ik k) /\ MemoryChange (exeb k) = false /\
    PcChange (exeb k) = (match etarget (eff k) with Some _ => true | None => false end) /\
    (forall a, etarget (eff k) = Some a -> NextPc (exeb k) = a).
  Proof. exact (embed_flags app labels regs0 base Hreg Hsem k). Qed.

  Lemma addS_pczq k : (k < n)%nat -> addS 32 (pcz k) 4 = pcz (S k).
  Proof.
    intros Hk. rewrite pcz_S. unfold addS. apply wrapS_id; [lia|]. pose proof (n_small app Happ) as H. fold n in H.
    apply int32_bounds. unfold pcz. lia.
  Qed.

  Lemma pcz_inj j k : pcz j = pcz k -> j = k.
  Proof. unfold pcz. lia. Qed.

  (* what instruction k of the segment (not the ret) reports *)
  Lemma kout_cases k : (base <= k <= N)%nat -> (k < n)%nat -> is_ret (ik k) = false ->
    (is_jump (ik k) = true /\ k = N /\ exists t, (k < t <= n)%nat /\ PcChange (exeb k) = true /\ NextPc (exeb k) = pcz t /\
        kout k = mk_euo6 true (pcz k) (pcz t) false) \/
    (is_jump (ik k) = false /\ condbr (ik k) = true /\ exists t, (S k < t <= n)%nat /\ PcChange (exeb k) = true /\ NextPc (exeb k) = pcz t /\
        kout k = mk_euo6 true (pcz k) (pcz t) false) \/
    (is_jump (ik k) = false /\ kout k = euo_none /\ (k < N)%nat /\
     (PcChange (exeb k) = false \/ (condbr (ik k) = true /\ PcChange (exeb k) = true /\ NextPc (exeb k) = pcz (S k)))).
  Proof.
    intros H1 H2 Hnr. destruct (flagsq k H1 H2) as (_ & _ & Hpc & Hnp).
    pose proof (eff_kind app labels regs0 base Hsem k H1 H2) as Hkind. destruct (Hsem k H1 H2) as [He Htgt].
    pose proof (eff_ret app labels regs0 base Hsem k H1 H2) as Hr.
    assert (HkN : is_jump (ik k) = false -> (k < N)%nat).
    { intros Hj. destruct (Nat.eq_dec k N) as [E|NE]; [|lia]. exfalso.
      pose proof (proj2 (stop_N k H1 H2) E) as Hs. unfold is_stop in Hs. rewrite Hnr, Hj in Hs. discriminate. }
    unfold Mvp60RefBack.kout. rewrite Hnr.
    destruct (eff k) as [rd v|bs| |a|rd v a|] eqn:Ee; cbn [etarget] in *.
    - right. right. split; [exact Hkind|]. split; [reflexivity|]. split; [apply HkN; exact Hkind|]. left. exact Hpc.
    - exfalso. exact (eff_nostore app labels regs0 base Hreg Hsem k bs H1 H2 Ee).
    - right. right. split; [exact Hkind|]. split; [reflexivity|]. split; [apply HkN; exact Hkind|]. left. exact Hpc.
    - destruct (Htgt a eq_refl) as (t & -> & Ht). specialize (Hnp _ eq_refl).
      destruct Hkind as [Hj|[Hj Hc]].
      + left. split; [exact Hj|]. split; [apply jump_is_Nq; assumption|]. exists t. rewrite Hj. cbn [orb]. auto.
      + rewrite Hj. cbn [orb]. destruct (Z.eqb_spec (pcz (S k)) (pcz t)) as [E|NE]; cbn [negb].
        * right. right. split; [reflexivity|]. split; [reflexivity|]. split; [apply HkN; exact Hj|]. right. rewrite E. auto.
        * right. left. split; [reflexivity|]. split; [exact Hc|]. exists t. split; [|auto].
          assert (t <> S k) by (intros ->; apply NE; reflexivity). lia.
    - destruct (Htgt a eq_refl) as (t & -> & Ht). specialize (Hnp _ eq_refl).
      left. split; [exact Hkind|]. split; [apply jump_is_Nq; assumption|]. exists t. rewrite Hkind. cbn [orb]. auto.
    - exfalso. rewrite (proj1 Hr eq_refl) in Hnr. discriminate.
  Qed.

  Lemma kout_ret_q k : is_ret (ik k) = true -> kout k = mk_euo6 false 0 0 true.
  Proof. intros H. unfold Mvp60RefBack.kout. rewrite H. reflexivity. Qed.

  (* an instruction that reports nothing and is not the ret is before N *)
  Lemma kout_none_lt k : (base <= k <= N)%nat -> (k < n)%nat -> kout k = euo_none -> (k < N)%nat /\ is_ret (ik k) = false /\ is_jump (ik k) = false.
  Proof.
    intros H1 H2 Hk. destruct (is_ret (ik k)) eqn:Er; [rewrite (kout_ret_q k Er) in Hk; discriminate|].
    destruct (kout_cases k H1 H2 Er) as [(_ & _ & t & _ & _ & _ & E)|[(_ & _ & t & _ & _ & _ & E)|(Hj & _ & Hlt & _)]];
      [rewrite E in Hk; discriminate | rewrite E in Hk; discriminate | auto].
  Qed.
  (* ---------------------------------------------------------------- *)
  (* the instruction at the head of the execute bus reads its sequential operands *)

  Lemma tables_viewq dp d xe w pl pv x q : BIq dp d xe w pl pv x -> tview (x_crat x) (x_trat x) q = vw w q.
  Proof. intros HB. apply (tb_view _ _ _ _ _ _ _ _ (bq_tab _ _ _ _ _ _ _ _ _ _ _ _ _ HB)). Qed.

  Lemma tview_int32 w crat trat q : TabOK w crat trat -> int32 (tview crat trat q).
  Proof. intros H. rewrite (tb_view _ _ _ _ _ _ _ _ H). apply (vw_int32 app labels regs0 base Hr32). Qed.

  Lemma ik_imm_q k : (k < n)%nat -> int32 (imm_of (sinstr_of (ik k))).
  Proof. intros H. destruct Happ as [Hf _]. rewrite Forall_forall in Hf. apply Hf. apply nth_In. exact H. Qed.

  Theorem head_operandsq dp d xe w pl pv x r E' : BIq dp d xe w pl pv x -> flat (x_ebus x) = r :: E' ->
    (forall ch, q_recv r = Some ch -> exists v, aget ch (x_chan x) = Some v) /\
    (forall q, In q (rds xe) -> reg_read3 (head_fw x r) (x_crat x) (x_trat x) q = rget (sreg xe) q) /\
    (forall q, int32 (reg_read3 (head_fw x r) (x_crat x) (x_trat x) q)) /\
    instr_Run (ik xe) (reg_read3 (head_fw x r) (x_crat x) (x_trat x)) labels (pcz xe) [] 0 = Ok (exeb xe).
  Proof.
    intros HB Hfl. destruct (head_entryq _ _ _ _ _ _ _ _ _ HB Hfl) as (Hqr & Hkq & Hxd).
    pose proof (bq_ord _ _ _ _ _ _ _ _ _ _ _ _ _ HB) as [Hord Hxed]. pose proof (bq_xeN _ _ _ _ _ _ _ _ _ _ _ _ _ HB) as HxN.
    pose proof (bq_dn _ _ _ _ _ _ _ _ _ _ _ _ _ HB) as [Hdn _]. fold n in Hdn. fold N in HxN.
    assert (Hin : In r (flat (x_ebus x))) by (rewrite Hfl; left; reflexivity).
    pose proof (bq_recv _ _ _ _ _ _ _ _ _ _ _ _ _ HB) as Hrc. apply Forall_app in Hrc as [Hrc _]. rewrite Forall_forall in Hrc. specialize (Hrc r Hin).
    pose proof (bq_read _ _ _ _ _ _ _ _ _ _ _ _ _ HB) as Hrd. rewrite Forall_forall in Hrd. specialize (Hrd r Hin). unfold Mvp63RefInv.ReadOK in Hrd. rewrite Hkq in Hrd.
    pose proof (bq_tab _ _ _ _ _ _ _ _ _ _ _ _ _ HB) as Htab.
    (* the channel of the head holds the value of the writer *)
    assert (Hch : forall ch, q_recv r = Some ch -> q_freg r <> 0 /\ exists p, (base <= p < xe)%nat /\ In (q_freg r) (wrs p) /\
                    aget ch (x_chan x) = Some (RegisterValue (exeb p))).
    { intros ch Hc. destruct (Hrc ch Hc) as (A & p & B & C & D). rewrite Hkq in B. split; [exact A|]. exists p.
      destruct D as [(D1 & _)|(D1 & D2)]; [lia|]. auto. }
    assert (Hview : forall q, In q (rds xe) -> q <> 0 -> (forall j, (w <= j < xe)%nat -> ~ In q (wrs j)) -> vw w q = rget (sreg xe) q).
    { intros q Hq Hnz Hno. pose proof (rds_rng app Hrng xe q Hq) as Hr.
      apply (vw_stable app labels regs0 base Hrng Hlen0); [lia | lia | exact Hno]. }
    assert (Hreads : forall q, In q (rds xe) -> reg_read3 (head_fw x r) (x_crat x) (x_trat x) q = rget (sreg xe) q).
    { intros q Hq. rewrite reg_read3_tview. unfold head_fw. destruct (q_recv r) as [ch|] eqn:Erc.
      - destruct (Hch ch eq_refl) as (Hfz & p & Hp & Hw & Hv). rewrite Hv. cbn [fst snd].
        destruct (Z.eqb_spec q (q_freg r)) as [->|Hne].
        + symmetry. pose proof (wrs_rng app Hrng p _ Hw).
          apply (fwd_valueq app labels regs0 base Hrng Hlen0 p xe (q_freg r) Hssa); [lia | fold n; lia | exact Hw | lia|].
          destruct (Hsem p ltac:(lia) ltac:(lia)) as [He _]. eexists. exact He.
        + rewrite (tb_view _ _ _ _ _ _ _ _ Htab). destruct (Z.eq_dec q 0) as [->|Hqz].
          * rewrite (vw_zero app labels regs0 base Hrng Hlen0 Hx0). reflexivity.
          * destruct (Hrd q Hq Hqz) as [[_ A]|A]; [contradiction | apply Hview; assumption].
      - cbn [fst snd]. destruct (Z.eqb_spec q 0) as [->|Hqz]; [reflexivity|].
        rewrite (tb_view _ _ _ _ _ _ _ _ Htab). destruct (Hrd q Hq Hqz) as [[A _]|A]; [congruence | apply Hview; assumption]. }
    assert (H32 : forall q, int32 (reg_read3 (head_fw x r) (x_crat x) (x_trat x) q)).
    { intros q. rewrite reg_read3_tview. destruct (q =? fst (head_fw x r)).
      - unfold head_fw. destruct (q_recv r) as [ch|] eqn:Erc; [|apply int32_0].
        destruct (Hch ch eq_refl) as (_ & p & _ & _ & Hv). rewrite Hv. cbn [snd]. apply (exeb_val_int32 app labels regs0 base).
      - apply (tview_int32 w). exact Htab. }
    split; [intros ch Hc; destruct (Hch ch Hc) as (_ & p & _ & _ & Hv); eauto|]. split; [exact Hreads|]. split; [exact H32|].
    rewrite (run_refines_spec _ labels (pcz xe) [] 0 H32 (ik xe) (ik_imm_q xe ltac:(lia)) (nomem_mem_ok _ (ik_nomem app Hreg xe))).
    assert (Hex : exec (sinstr_of (ik xe)) (reg_read3 (head_fw x r) (x_crat x) (x_trat x)) labels (pcz xe) []
                  = exec (sinstr_of (ik xe)) (rget (sreg xe)) labels (pcz xe) []).
    { apply spec_reads_sound. intros q Hq. rewrite <- read_registers_exact in Hq. apply Hreads. exact Hq. }
    rewrite Hex. destruct (Hsem xe ltac:(lia) ltac:(lia)) as [He _]. rewrite He. reflexivity.
  Qed.

  (* on the wrong path: any int32 operands, the instruction cannot fail, does not store, is not the ret *)
  Lemma wrong_run k rr : (k < n)%nat -> (forall q, int32 (rr q)) -> is_ret (ik k) = false ->
    exists e, instr_Run (ik k) rr labels (pcz k) [] 0 = Ok (embed e) /\ Return (embed e) = false /\ MemoryChange (embed e) = false.
  Proof.
    intros Hk H32 Hnr. destruct (Htot k rr Hk) as (e & He). exists e.
    rewrite (run_refines_spec _ labels (pcz k) [] 0 H32 (ik k) (ik_imm_q k Hk) (nomem_mem_ok _ (ik_nomem app Hreg k))), He.
    split; [reflexivity|].
    pose proof (exec_return_is_ret _ _ _ _ _ _ He) as Hr. pose proof (fun bs => nomem_no_store _ rr labels (pcz k) [] bs (ik_nomem app Hreg k)) as Hs.
    destruct e as [rd v|bs| |a|rd v a|]; cbn [embed].
    - destruct (reg_pair rd v). split; reflexivity.
    - exfalso. exact (Hs bs He).
    - split; reflexivity.
    - split; reflexivity.
    - destruct (reg_pair rd v). split; reflexivity.
    - exfalso. rewrite (proj1 Hr eq_refl) in Hnr. discriminate.
  Qed.
  (* ---------------------------------------------------------------- *)
  (* executeUnit.Cycle of an idle unit on the head of the execute bus, whatever the instruction computes *)

  (* btbBranchUnit.assert when the BTB has no entry for the instruction *)
  Definition bu_as (b : bu6) (k : nat) : bu6 :=
    if is_jump (ik k) then mk_bu6 true (-1) (b_btb b)
    else if condbr (ik k) then mk_bu6 true (addS 32 (pcz k) 4) (b_btb b)
    else mk_bu6 false (b_expect b) (b_btb b).

  Lemma bu_assert3_none x k : btb_get (b_btb (m_bu (x_m x))) (pcz k) = None ->
    bu_assert3 x (rnq k) = set_m x (set_bu (x_m x) (bu_as (m_bu (x_m x)) k)).
  Proof.
    intros H. unfold bu_assert3, bu_as, is_jump, condbr. cbn [Mvp63RefFwdDefs.rnq r_instr r_pc].
    destruct (InstructionType_IsUnconditionalBranch _); [rewrite H; reflexivity|].
    destruct (InstructionType_IsConditionalBranch _); reflexivity.
  Qed.

  (* coRun of instruction k with execution record exe, from the state xc (forward field already cleared);
     fw = the Forwarder channel of the runner *)
  Definition run_gen (xc : mx) (cy : Z) (fw : option Z) (k : nat) (exe : execution) : mx * eu_out3 :=
    if Return exe then (xc, mk_euo3 false 0 0 true None) else
    let x1 := set_m xc (set_wbus (x_m xc) (bb_add (m_wbus (x_m xc))
                 (mk_wb6 (sid k) exe (instr_ReadRegisters (ik k)) (instr_WriteRegisters (ik k))) cy)) in
    match fw with
    | Some ch => (set_chan3 x1 (x_chan x1 ++ [(ch, RegisterValue exe)]), yo_none)
    | None =>
        let x2 := if is_jump (ik k) then bu_resolved3 x1 (pcz k) (NextPc exe) else x1 in
        let x3 := if condbr (ik k) then
                    if PcChange exe && negb (NextPc exe =? addS 32 (pcz k) 4)
                    then rat_rollback3 ord cy (set_pcb3 x2 false) (sid k)
                    else rat_commit3 ord cy (set_pcb3 x2 false)
                  else x2 in
        if PcChange exe then
          (set_m x3 (set_bu (x_m x3) (fst (bu_should_flush6 (m_bu (x_m x3)) (NextPc exe)))),
           if snd (bu_should_flush6 (m_bu (x_m x3)) (NextPc exe)) then mk_euo3 true (sid k) (NextPc exe) false None else yo_none)
        else (x3, yo_none)
    end.

  Lemma eu_run_gen cy k xb e r exe : g_runner e = Some r -> q_r r = rnq k -> g_memory e = [] ->
    instr_Run (ik k) (rr3 xb (pcz k)) labels (pcz k) [] 0 = Ok exe -> MemoryChange exe = false ->
    (forall ch, q_fwder r = Some ch -> aget ch (x_chan xb) = None /\ InstructionType_IsBranch (instr_InstructionType (ik k)) = false) ->
    eu_run3 labels ord cy xb e =
      (false, Ok (fst (run_gen (set_forward3 xb (pcz k) 0 0) cy (q_fwder r) k exe), mk_eu3 ENone [] (Some r) (g_seq e),
                  snd (run_gen (set_forward3 xb (pcz k) 0 0) cy (q_fwder r) k exe))).
  Proof.
    intros Hr Hqr Hmem Hrun Hmc Hfw.
    pose proof (q_instr_rnq r k Hqr) as Hi. pose proof (q_pc_rnq r k Hqr) as Hpc. pose proof (q_seq_rnq r k Hqr) as Hsq'.
    unfold eu_run3, run_gen. rewrite Hr. cbv zeta. rewrite Hi, Hpc, Hsq', Hmem, Hrun.
    destruct (Return exe); [reflexivity|].
    rewrite Hmc. cbn [andb bind]. cbv iota beta.
    destruct (q_fwder r) as [ch|] eqn:Ef.
    - destruct (Hfw ch eq_refl) as [Hn Hb]. cbn [x_chan set_m set_forward3 set_fwd3]. rewrite Hn, Hb. reflexivity.
    - unfold is_jump, condbr. destruct (PcChange exe); [|reflexivity].
      match goal with |- context [bu_should_flush6 ?b ?p] => destruct (bu_should_flush6 b p) as [b' fl] end. reflexivity.
  Qed.

  (* the state after the unit has taken the head r = instruction k, received, asserted *)
  Definition pre_run (x : mx) (r : runner3) (k : nat) : mx :=
    mk_mx (set_bu (x_m x) (bu_as (m_bu (x_m x)) k)) (ebus_tl (x_ebus x)) (x_pend x) (x_prev x) (x_pcb x) (x_seq x)
          (x_crat x) (x_trat x) (x_fwd x) (rchan x r) (x_next x) (x_os x).

  Definition exec_gen (x : mx) (cy : Z) (r : runner3) (k : nat) (exe : execution) : mx * eu_out3 :=
    run_gen (pre_run x r k) cy (q_fwder r) k exe.

  Lemma eu_head_gen cy x e r q' k exe :
    bb_q (x_ebus x) = r :: q' -> EuIdle e -> eu_pre3 e = false -> q_r r = rnq k -> (k < n)%nat ->
    x_fwd x = repeat (0, 0) n -> bb_canadd (m_wbus (x_m x)) = true ->
    btb_get (b_btb (m_bu (x_m x))) (pcz k) = None ->
    (forall ch, q_recv r = Some ch -> exists v, aget ch (x_chan x) = Some v) ->
    (forall ch, q_fwder r = Some ch -> aget ch (x_chan x) = None /\ InstructionType_IsBranch (instr_InstructionType (ik k)) = false) ->
    instr_Run (ik k) (reg_read3 (head_fw x r) (x_crat x) (x_trat x)) labels (pcz k) [] 0 = Ok exe -> MemoryChange exe = false ->
    eu_cycle3 labels ord cy x e =
      (false, Ok (fst (exec_gen x cy r k exe), mk_eu3 ENone [] (Some (recvd r)) (g_seq e), snd (exec_gen x cy r k exe))).
  Proof.
    intros Hq [Hco Hmem] Hpre Hqr Hkn Hfwd Hca Hbtb Hch Hfo Hrun Hmc.
    unfold eu_cycle3. rewrite Hpre, Hco. unfold bb_get. rewrite Hq.
    unfold eu_prepare3. cbn [x_m set_ebus3 g_runner g_co g_memory g_seq x_chan]. rewrite Hca. cbn [negb].
    set (xa := set_ebus3 x (mk_bb (bb_buf (x_ebus x)) q' (bb_ql (x_ebus x)) (bb_bl (x_ebus x)))).
    assert (Hnm : forall rr, instr_MemoryRead (ik k) rr 0 = []) by (intros rr; apply nomem_no_read; apply (ik_nomem app Hreg)).
    unfold exec_gen.
    destruct (q_recv r) as [ch|] eqn:Erc.
    - destruct (Hch ch eq_refl) as (v & Hv). cbn [x_chan xa set_ebus3]. rewrite Hv.
      unfold q_instr, q_pc. cbn [q_r]. rewrite Hqr. rewrite bu_assert3_none by exact Hbtb.
      cbn [Mvp63RefFwdDefs.rnq r_instr r_pc]. rewrite Hnm.
      match goal with |- eu_run3 _ _ _ ?x1 ?e1 = _ => set (xb := x1); set (eb := e1) end.
      rewrite (eu_run_gen cy k xb eb (mk_r3 (rnq k) (q_id r) (q_fwder r) None (q_freg r)) exe eq_refl eq_refl Hmem).
      + assert (Hxb : set_forward3 xb (pcz k) 0 0 = pre_run x r k).
        { apply mx_eq; unfold xb, xa, pre_run, rchan; rewrite ?Erc;
            cbn [x_m x_ebus x_pend x_prev x_pcb x_seq x_crat x_trat x_fwd x_chan x_next x_os set_m set_ebus3 set_forward3 set_fwd3 set_chan3];
            try reflexivity; try (unfold ebus_tl; rewrite Hq; reflexivity).
          rewrite !fwd_idx_pczq, upd3_upd, Hfwd. apply upd3_repeat. }
        rewrite Hxb. cbn [q_fwder g_seq eb]. unfold recvd. rewrite Erc, Hqr. reflexivity.
      + unfold rr3, xb, xa. cbn [x_m x_ebus x_crat x_trat x_fwd set_m set_ebus3 set_forward3 set_fwd3 set_chan3].
        rewrite !fwd_idx_pczq, supd_nth_eq by (rewrite Hfwd, repeat_length; exact Hkn).
        unfold head_fw in Hrun. rewrite Erc, Hv in Hrun. exact Hrun.
      + exact Hmc.
      + intros c Hc. cbn [q_fwder] in Hc. destruct (Hfo c Hc) as [A B]. split; [|exact B].
        unfold xb, xa. cbn [x_chan set_m set_ebus3 set_forward3 set_fwd3 set_chan3]. apply aget_filter_none. exact A.
    - unfold q_instr, q_pc. rewrite Hqr. rewrite bu_assert3_none by exact Hbtb.
      cbn [Mvp63RefFwdDefs.rnq r_instr r_pc]. rewrite Hnm.
      match goal with |- eu_run3 _ _ _ ?x1 ?e1 = _ => set (xb := x1); set (eb := e1) end.
      rewrite (eu_run_gen cy k xb eb r exe eq_refl Hqr Hmem).
      + assert (Hxb : set_forward3 xb (pcz k) 0 0 = pre_run x r k).
        { apply mx_eq; unfold xb, xa, pre_run, rchan; rewrite ?Erc;
            cbn [x_m x_ebus x_pend x_prev x_pcb x_seq x_crat x_trat x_fwd x_chan x_next x_os set_m set_ebus3 set_forward3 set_fwd3 set_chan3];
            try reflexivity; try (unfold ebus_tl; rewrite Hq; reflexivity).
          rewrite ?fwd_idx_pczq, Hfwd. apply upd3_repeat. }
        rewrite Hxb. cbn [g_seq eb]. unfold recvd. rewrite Erc. reflexivity.
      + unfold rr3, xb, xa. cbn [x_m x_ebus x_crat x_trat x_fwd set_m set_ebus3].
        rewrite Hfwd, nth_repeat_same. unfold head_fw in Hrun. rewrite Erc in Hrun. exact Hrun.
      + exact Hmc.
      + intros c Hc. unfold xb, xa. cbn [x_chan set_m set_ebus3]. apply (Hfo c Hc).
  Qed.
  (* ---------------------------------------------------------------- *)
  (* the head reports nothing (kout xe = euo_none): a plain instruction, a branch that is not taken or goes
     to the next instruction                                            *)

  Lemma jump_not_cond i : is_jump i = true -> condbr i = false.
  Proof. destruct i; try discriminate; reflexivity. Qed.

  Lemma notbranch_flags k : InstructionType_IsBranch (instr_InstructionType (ik k)) = false ->
    is_jump (ik k) = false /\ condbr (ik k) = false.
  Proof. unfold InstructionType_IsBranch, is_jump, condbr. intros H. apply orb_false_iff in H. exact H. Qed.

  Definition exec_plainq (x : mx) (cy : Z) (r : runner3) (k : nat) (bu' : bu6) : mx :=
    mk_mx (set_wbus (set_bu (x_m x) bu') (bb_add (m_wbus (x_m x)) (wbq k) cy))
          (ebus_tl (x_ebus x)) (x_pend x) (x_prev x) (if condbr (ik k) then false else x_pcb x) (x_seq x)
          (if condbr (ik k) then commit_vals ord cy (x_crat x) (rat_values tu0 (x_trat x)) else x_crat x)
          (if condbr (ik k) then rat_new ratLength else x_trat x) (x_fwd x)
          (schan (rchan x r) r (RegisterValue (exeb k))) (x_next x) (x_os x).

  Lemma exec_gen_plain x cy r k : (base <= k <= N)%nat -> (k < n)%nat -> kout k = euo_none ->
    (forall ch, q_fwder r = Some ch -> InstructionType_IsBranch (instr_InstructionType (ik k)) = false) ->
    exists bu', b_btb bu' = b_btb (m_bu (x_m x)) /\ exec_gen x cy r k (exeb k) = (exec_plainq x cy r k bu', yo_none).
  Proof.
    intros H1 H2 Hk Hfo. destruct (kout_none_lt k H1 H2 Hk) as (HkN & Hnr & Hj).
    destruct (flagsq k H1 H2) as (Hret & _). rewrite Hnr in Hret.
    destruct (kout_cases k H1 H2 Hnr) as [(_ & _ & t & _ & _ & _ & E)|[(_ & _ & t & _ & _ & _ & E)|(_ & _ & _ & Hpc)]];
      [rewrite E in Hk; discriminate | rewrite E in Hk; discriminate |].
    unfold exec_gen, run_gen. rewrite Hret. cbv zeta. unfold pre_run, bu_as. rewrite Hj.
    destruct (q_fwder r) as [ch|] eqn:Ef.
    - destruct (notbranch_flags k (Hfo ch eq_refl)) as [_ Hc].
      exists (mk_bu6 false (b_expect (m_bu (x_m x))) (b_btb (m_bu (x_m x)))). split; [reflexivity|].
      unfold exec_plainq, schan. rewrite Ef, Hc. reflexivity.
    - destruct (condbr (ik k)) eqn:Ec.
      + destruct Hpc as [Hp|(_ & Hp & Hnp)].
        * rewrite Hp. cbn [andb].
          exists (mk_bu6 true (addS 32 (pcz k) 4) (b_btb (m_bu (x_m x)))). split; [reflexivity|].
          unfold exec_plainq, schan. rewrite Ef, Ec. reflexivity.
        * rewrite Hp, Hnp, (addS_pczq k H2), Z.eqb_refl. cbn [negb andb].
          exists (mk_bu6 false (pcz (S k)) (b_btb (m_bu (x_m x)))). split; [reflexivity|].
          unfold exec_plainq, schan, bu_should_flush6, rat_commit3. rewrite Ef, Ec.
          cbn [x_m set_m set_wbus set_bu set_pcb3 set_rats3 m_bu b_check b_expect b_btb negb fst snd]. rewrite Z.eqb_refl. reflexivity.
      + destruct Hpc as [Hp|(Hc & _)]; [|congruence]. rewrite Hp.
        exists (mk_bu6 false (b_expect (m_bu (x_m x))) (b_btb (m_bu (x_m x)))). split; [reflexivity|].
        unfold exec_plainq, schan. rewrite Ef, Ec. reflexivity.
  Qed.
  Lemma BIq_exec_plain cy dp d xe w pl pv x r q' bu' :
    BIq dp d xe w pl pv x -> bb_q (x_ebus x) = r :: q' -> (forall p, In p pv -> (xe < kq p)%nat) -> kout xe = euo_none ->
    BIq dp d (S xe) w pl pv (exec_plainq x cy r xe bu').
  Proof.
    intros HB Hq Hpv Hko.
    set (E' := q' ++ map snd (bb_buf (x_ebus x))).
    assert (Hfl : flat (x_ebus x) = r :: E') by (unfold flat, E'; rewrite Hq; reflexivity).
    destruct (head_entryq _ _ _ _ _ _ _ _ _ HB Hfl) as (Hqr & Hkq & Hxd).
    pose proof HB as [[bi_ordw bi_ord0] bi_dn0 bi_xeN0 bi_ret0 bi_exec0 bi_ebus0 bi_wbus0 bi_pwlen0 bi_prlen0 bi_pw0 bi_pr0 bi_tab0 bi_fwd0 bi_seq0
      bi_pcb0 bi_chan0 bi_idnd0 bi_idlt0 bi_read0 bi_recv0 bi_fwder0 bi_rnd0 bi_rlt0 bi_pendr0 bi_pend10 bi_pendf0 bi_prev0 bi_prevnd0 bi_regs0 bi_mem0 bi_l30 bi_os0 bi_fnd0].
    rewrite Hfl in *. fold n N in bi_dn0, bi_xeN0, bi_ret0.
    assert (Hxn : (xe < n)%nat) by lia.
    destruct (kout_none_lt xe ltac:(lia) Hxn Hko) as (HxN & Hnr & Hj).
    assert (Hfl' : flat (ebus_tl (x_ebus x)) = E') by (unfold flat, ebus_tl, E'; cbn [bb_q bb_buf]; rewrite Hq; reflexivity).
    assert (HE' : map q_r E' = map rnq (seq (S xe) (d - S xe))).
    { replace (d - xe)%nat with (S (d - S xe)) in bi_ebus0 by lia. cbn [seq map] in bi_ebus0. injection bi_ebus0 as _ H. exact H. }
    assert (HE'k : forall a, In a E' -> (S xe <= kq a < d)%nat).
    { intros a Ha. destruct (map_rnq_in _ _ _ _ HE' Ha) as (k & Hk & _ & Ek). lia. }
    assert (Hfo : FwdOKq (x_chan x) (x_next x) r) by (inversion bi_fwder0; assumption).
    set (v := RegisterValue (exeb xe)).
    destruct (chan_ltq x r v (x_next x) bi_chan0 ltac:(intros c Hc; apply (Hfo c Hc))) as [Hcl1 Hcl2].
    assert (Hrc : forall a, In a (r :: E' ++ pl) -> RecvOKq xe (r :: E') (x_chan x) a).
    { rewrite Forall_forall in bi_recv0. exact bi_recv0. }
    (* channels after the step *)
    assert (Hget_old : forall a c val, In a (E' ++ pl) -> q_recv a = Some c -> aget c (x_chan x) = Some val ->
              aget c (schan (rchan x r) r v) = Some val).
    { intros a c val Ha Hc Hval.
      assert (H1 : aget c (rchan x r) = Some val).
      { unfold rchan. destruct (q_recv r) as [rch|] eqn:Er; [|exact Hval]. rewrite aget_filter_ne; [exact Hval|].
        eapply recvs_head_ne; [exact bi_rnd0 | exact Er | exact Ha | exact Hc]. }
      unfold schan. destruct (q_fwder r); [apply aget_app_some|]; exact H1. }
    constructor; unfold exec_plainq;
      cbn [x_ebus x_m x_crat x_trat x_fwd x_seq x_pcb x_chan x_next x_os set_bu set_wbus m_pw m_pr m_regs m_mem m_l3 m_wbus];
      rewrite ?Hfl', ?add_flat; try assumption.
    - lia.
    - fold N. intros Hlt Hret. specialize (bi_ret0 Hlt Hret). lia.
    - intros k Hk. destruct (Nat.eq_dec k xe) as [->|Hne]; [exact Hko | apply bi_exec0; lia].
    - rewrite bi_wbus0. replace (S xe - w)%nat with (S (xe - w)) by lia. rewrite seq_snoc, map_app. cbn [map].
      replace (w + (xe - w))%nat with xe by lia. reflexivity.
    - destruct (condbr (ik xe)); [apply (tab_commit app labels regs0 base Hlen0) | ]; exact bi_tab0.
    - destruct (condbr (ik xe)) eqn:Ec; [discriminate|]. intros Hp. destruct (bi_pcb0 Hp) as (r0 & [<-|Hin] & Hc0); [|eauto].
      rewrite Hkq in Hc0. congruence.
    - cbn [map] in bi_idnd0. inversion bi_idnd0; assumption.
    - inversion bi_idlt0; assumption.
    - inversion bi_read0; assumption.
    - apply Forall_forall. intros a Ha c Hc. destruct (Hrc a (or_intror Ha) c Hc) as (A & p & B & C & D).
      split; [exact A|]. exists p. split; [exact B|]. split; [exact C|].
      destruct D as [(D1 & rp & D2 & D3 & D4)|(D1 & D2)].
      + destruct (Nat.eq_dec p xe) as [->|Hne].
        * right. split; [lia|]. assert (rp = r).
          { destruct D2 as [<-|D2]; [reflexivity|]. exfalso. specialize (HE'k rp D2). lia. }
          subst rp. unfold schan. rewrite D4. apply aget_snoc_new. unfold rchan.
          destruct (q_recv r); [apply aget_filter_none|]; apply (Hfo c D4).
        * left. split; [lia|]. exists rp. split; [|auto]. destruct D2 as [<-|D2]; [lia | exact D2].
      + right. split; [lia|]. eapply Hget_old; eassumption.
    - apply Forall_forall. intros a Ha c Hc. rewrite Forall_forall in bi_fwder0. destruct (bi_fwder0 a (or_intror Ha) c Hc) as (G1 & G2 & G3).
      split; [|split; [exact G2 | exact G3]]. unfold schan.
      assert (H1 : aget c (rchan x r) = None) by (unfold rchan; destruct (q_recv r); [apply aget_filter_none|]; exact G1).
      destruct (q_fwder r) as [fch|] eqn:Ef; [|exact H1]. rewrite (aget_app_none _ _ _ H1). cbn [aget].
      destruct (Z.eqb_spec c fch) as [->|]; [|reflexivity]. exfalso.
      exact (fwds_head_ne r E' a fch fch bi_fnd0 Ef Ha Hc eq_refl).
    - change ((r :: E') ++ pl) with ([r] ++ (E' ++ pl)) in bi_rnd0. rewrite recvs_app in bi_rnd0. apply NoDup_app_right in bi_rnd0. exact bi_rnd0.
    - change ((r :: E') ++ pl) with ([r] ++ (E' ++ pl)) in bi_rlt0. rewrite recvs_app in bi_rlt0. apply Forall_app in bi_rlt0. apply bi_rlt0.
    - intros p Hp. destruct (bi_prev0 p Hp) as ([<-|A] & B & C); [specialize (Hpv _ Hp); lia | auto].
    - change (r :: E') with ([r] ++ E') in bi_fnd0. rewrite fwds_app in bi_fnd0. apply NoDup_app_right in bi_fnd0. exact bi_fnd0.
  Qed.
  (* ---------------------------------------------------------------- *)
  (* the head is the ret                                                *)

  Lemma exec_gen_ret x cy r k : (base <= k <= N)%nat -> (k < n)%nat -> is_ret (ik k) = true ->
    exec_gen x cy r k (exeb k) = (pre_run x r k, mk_euo3 false 0 0 true None).
  Proof.
    intros H1 H2 Hr. destruct (flagsq k H1 H2) as (Hret & _). rewrite Hr in Hret.
    unfold exec_gen, run_gen. rewrite Hret. reflexivity.
  Qed.

  Lemma BIq_exec_ret dp d xe w pv x r q' :
    BIq dp d xe w [] pv x -> bb_q (x_ebus x) = r :: q' -> is_ret (ik xe) = true ->
    xe = N /\ d = S N /\ (N < n)%nat /\ q' = [] /\ BIq dp xe xe w [] [] (pre_run x r xe).
  Proof.
    intros HB0 Hq Hret. pose proof (BIq_noprev _ _ _ _ _ _ _ HB0) as HB.
    set (E' := q' ++ map snd (bb_buf (x_ebus x))).
    assert (Hfl : flat (x_ebus x) = r :: E') by (unfold flat, E'; rewrite Hq; reflexivity).
    destruct (head_entryq _ _ _ _ _ _ _ _ _ HB Hfl) as (Hqr & Hkq & Hxd).
    pose proof HB as [[bi_ordw bi_ord0] bi_dn0 bi_xeN0 bi_ret0 bi_exec0 bi_ebus0 bi_wbus0 bi_pwlen0 bi_prlen0 bi_pw0 bi_pr0 bi_tab0 bi_fwd0 bi_seq0
      bi_pcb0 bi_chan0 bi_idnd0 bi_idlt0 bi_read0 bi_recv0 bi_fwder0 bi_rnd0 bi_rlt0 bi_pendr0 bi_pend10 bi_pendf0 bi_prev0 bi_prevnd0 bi_regs0 bi_mem0 bi_l30 bi_os0 bi_fnd0].
    rewrite Hfl in *. fold n N in bi_dn0, bi_xeN0, bi_ret0.
    assert (Hxn : (xe < n)%nat) by lia.
    assert (HxeN : xe = N) by (apply ret_is_Nq; [lia | exact Hxn | exact Hret]).
    assert (HdN : d = S N) by lia.
    assert (Hfl' : flat (ebus_tl (x_ebus x)) = E') by (unfold flat, ebus_tl, E'; cbn [bb_q bb_buf]; rewrite Hq; reflexivity).
    assert (HE' : map q_r E' = map rnq (seq (S xe) (d - S xe))).
    { replace (d - xe)%nat with (S (d - S xe)) in bi_ebus0 by lia. cbn [seq map] in bi_ebus0. injection bi_ebus0 as _ H. exact H. }
    assert (HE'nil : E' = []).
    { apply (f_equal (@length _)) in HE'. rewrite !map_length, seq_length in HE'. destruct E'; [reflexivity | cbn in HE'; lia]. }
    assert (Hq'nil : q' = []) by (unfold E' in HE'nil; apply app_eq_nil in HE'nil; apply HE'nil).
    split; [exact HxeN|]. split; [exact HdN|]. split; [lia|]. split; [exact Hq'nil|].
    destruct (ret_slots app xe Hret) as [Hrs Hws].
    assert (Hcnt : forall f, f xe = [] -> forall s, cnt f (seq w (d - w)) s = cnt f (seq w (xe - w)) s).
    { intros f Hf s. replace (d - w)%nat with (S (xe - w)) by lia. rewrite seq_snoc, cnt_app. cbn [cnt].
      replace (w + (xe - w))%nat with xe by lia. rewrite Hf. unfold cnt1. cbn. lia. }
    constructor; unfold pre_run;
      cbn [x_ebus x_m x_crat x_trat x_fwd x_seq x_pcb x_chan x_next x_os set_bu set_wbus m_pw m_pr m_regs m_mem m_l3 m_wbus];
      rewrite ?Hfl', ?HE'nil; cbn [List.app map recvs fwds flat_map length]; try assumption; try (constructor; fail).
    - lia.
    - split; [fold n; lia | fold N; lia].
    - intros; fold N; lia.
    - rewrite Nat.sub_diag. reflexivity.
    - intros s Hs. rewrite bi_pw0 by exact Hs. apply Hcnt. exact Hws.
    - intros s Hs. rewrite bi_pr0 by exact Hs. apply Hcnt. exact Hrs.
    - intros Hp. exfalso. destruct (bi_pcb0 Hp) as (r0 & Hin & Hc0). rewrite HE'nil in Hin. destruct Hin as [<-|[]].
      rewrite Hkq in Hc0. destruct (ret_not_branch _ Hret) as [_ Hc]. congruence.
    - unfold rchan. destruct (q_recv r); [apply Forall_filter3|]; exact bi_chan0.
    - intros p [].
  Qed.
  (* ---------------------------------------------------------------- *)
  (* what every execution leaves alone / does, whatever it computes     *)

  Record ExFrame (x x' : mx) : Prop := mkXF {
    xf_pend : x_pend x' = x_pend x; xf_prev : x_prev x' = x_prev x;
    xf_ebus : x_ebus x' = ebus_tl (x_ebus x);
    xf_fwd : x_fwd x' = x_fwd x; xf_next : x_next x' = x_next x; xf_os : x_os x' = x_os x;
    xf_regs : m_regs (x_m x') = m_regs (x_m x); xf_mem : m_mem (x_m x') = m_mem (x_m x);
    xf_pw : m_pw (x_m x') = m_pw (x_m x); xf_pr : m_pr (x_m x') = m_pr (x_m x);
    xf_l1i : m_l1i (x_m x') = m_l1i (x_m x); xf_l3 : m_l3 (x_m x') = m_l3 (x_m x); xf_mpend : m_pend (x_m x') = m_pend (x_m x);
    xf_dret : m_dret (x_m x') = m_dret (x_m x); xf_cu : m_cu (x_m x') = m_cu (x_m x);
    xf_dbus : m_dbus (x_m x') = m_dbus (x_m x); xf_cbus : m_cbus (x_m x') = m_cbus (x_m x); xf_mebus : m_ebus (x_m x') = m_ebus (x_m x);
    xf_wq : bb_q (m_wbus (x_m x')) = bb_q (m_wbus (x_m x)); xf_wql : bb_ql (m_wbus (x_m x')) = bb_ql (m_wbus (x_m x));
    xf_wbl : bb_bl (m_wbus (x_m x')) = bb_bl (m_wbus (x_m x)) }.

  Ltac eg_cases r k exe :=
    unfold exec_gen, run_gen, pre_run; cbv zeta;
    destruct (Return exe); [|destruct (q_fwder r); [|destruct (is_jump (ik k)), (condbr (ik k)), (PcChange exe); cbn [andb];
       try destruct (negb (NextPc exe =? addS 32 (pcz k) 4))]].

  Lemma exec_gen_frame x cy r k exe : ExFrame x (fst (exec_gen x cy r k exe)).
  Proof. eg_cases r k exe; constructor; reflexivity. Qed.

  Lemma exec_gen_wbuf x cy r k exe : Return exe = false ->
    bb_buf (m_wbus (x_m (fst (exec_gen x cy r k exe)))) =
    bb_buf (m_wbus (x_m x)) ++ [(cy + 1, mk_wb6 (sid k) exe (instr_ReadRegisters (ik k)) (instr_WriteRegisters (ik k)))].
  Proof. intros Hr. eg_cases r k exe; try discriminate Hr; reflexivity. Qed.

  Lemma exec_gen_chan x cy r k exe : Return exe = false ->
    x_chan (fst (exec_gen x cy r k exe)) = schan (rchan x r) r (RegisterValue exe).
  Proof. intros Hr. unfold schan. eg_cases r k exe; try discriminate Hr; reflexivity. Qed.

  Lemma exec_gen_tab x cy r k exe w : TabOK w (x_crat x) (x_trat x) -> sid w <= sid k ->
    TabOK w (x_crat (fst (exec_gen x cy r k exe))) (x_trat (fst (exec_gen x cy r k exe))).
  Proof.
    intros Ht Hs. eg_cases r k exe;
      cbn [fst x_crat x_trat set_m set_chan3 set_pcb3 rat_rollback3 rat_commit3 set_rats3 bu_resolved3 fu_reset3 inc_seq3 set_seq3 x_m];
      first [exact Ht | apply (tab_commit app labels regs0 base Hlen0); exact Ht | apply (tab_rollback app labels regs0 base Hlen0); [exact Ht | exact Hs]].
  Qed.

  Lemma exec_gen_seq x cy r k exe :
    x_seq (fst (exec_gen x cy r k exe)) = x_seq x \/
    (x_seq (fst (exec_gen x cy r k exe)) = addS 32 (x_seq x) 1 /\ is_jump (ik k) = true).
  Proof. destruct (is_jump (ik k)) eqn:Ej; eg_cases r k exe; try rewrite Ej; try (left; reflexivity); right; split; reflexivity. Qed.

  Lemma exec_gen_btb x cy r k exe :
    b_btb (m_bu (x_m (fst (exec_gen x cy r k exe)))) = b_btb (m_bu (x_m x)) \/
    b_btb (m_bu (x_m (fst (exec_gen x cy r k exe)))) = btb_add (b_btb (m_bu (x_m x))) (pcz k) (NextPc exe).
  Proof.
    unfold exec_gen, run_gen, pre_run, bu_as, bu_should_flush6; cbv zeta.
    destruct (is_jump (ik k)), (condbr (ik k));
      (destruct (Return exe); [|destruct (q_fwder r); [|destruct (PcChange exe); cbn [andb];
         try destruct (negb (NextPc exe =? addS 32 (pcz k) 4))]]);
      try (left; reflexivity); try (right; reflexivity).
  Qed.

  Lemma exec_gen_out x cy r k exe : let o := snd (exec_gen x cy r k exe) in
    y_err o = None /\ y_ret o = Return exe /\ (y_flush o = true -> y_seq o = sid k /\ y_pc o = NextPc exe).
  Proof.
    cbv zeta. eg_cases r k exe; cbn [snd];
      try match goal with |- context [if ?c then mk_euo3 _ _ _ _ _ else _] => destruct c end;
      cbn [y_err y_ret y_flush y_seq y_pc yo_none]; repeat split; try discriminate.
  Qed.
  (* ---------------------------------------------------------------- *)
  (* the head asks for a flush: the jump at N, or a conditional branch taken to t >= E + 2 *)

  Definition exec_flushq (x : mx) (cy : Z) (r : runner3) (k t : nat) : mx :=
    if is_jump (ik k) then
      mk_mx (set_du (set_fu (set_wbus (set_bu (x_m x) (mk_bu6 false (-1) (btb_add (b_btb (m_bu (x_m x))) (pcz k) (pcz t))))
                                      (bb_add (m_wbus (x_m x)) (wbq k) cy))
                            (fu_reset6 (m_fu (x_m x)) (pcz t)))
                    (m_dret (x_m x)) false)
            (ebus_tl (x_ebus x)) (x_pend x) (x_prev x) (x_pcb x) (addS 32 (x_seq x) 1) (x_crat x) (x_trat x) (x_fwd x)
            (rchan x r) (x_next x) (x_os x)
    else
      mk_mx (set_wbus (set_bu (x_m x) (mk_bu6 false (pcz (S k)) (b_btb (m_bu (x_m x))))) (bb_add (m_wbus (x_m x)) (wbq k) cy))
            (ebus_tl (x_ebus x)) (x_pend x) (x_prev x) false (x_seq x)
            (commit_vals ord cy (x_crat x) (rat_findvalues tu0 (x_trat x) (fun u => fst u <? sid k))) (rat_new ratLength) (x_fwd x)
            (rchan x r) (x_next x) (x_os x).

  Lemma exec_gen_flush x cy r k t : (base <= k <= N)%nat -> (k < n)%nat ->
    kout k = mk_euo6 true (pcz k) (pcz t) false -> q_fwder r = None ->
    exec_gen x cy r k (exeb k) = (exec_flushq x cy r k t, mk_euo3 true (sid k) (pcz t) false None) /\
    (k < t <= n)%nat /\ (is_jump (ik k) = true -> k = N) /\ (is_jump (ik k) = false -> condbr (ik k) = true /\ (S k < t)%nat).
  Proof.
    intros H1 H2 Hk Ef.
    assert (Hnr : is_ret (ik k) = false) by (destruct (is_ret (ik k)) eqn:Er; [rewrite (kout_ret_q k Er) in Hk; discriminate | reflexivity]).
    destruct (flagsq k H1 H2) as (Hret & _). rewrite Hnr in Hret.
    assert (Hneg : forall u, (-1 =? pcz u) = false) by (intros u; apply Z.eqb_neq; unfold pcz; lia).
    destruct (kout_cases k H1 H2 Hnr) as [(Hj & HkN & t' & Ht & Hp & Hnp & E)|[(Hj & Hc & t' & Ht & Hp & Hnp & E)|(_ & E & _)]].
    - rewrite E in Hk. injection Hk as Hk. apply pcz_inj in Hk. subst t'.
      split; [|split; [exact Ht|split; [intros _; exact HkN | congruence]]].
      unfold exec_gen, run_gen. rewrite Hret, Ef. cbv zeta. unfold pre_run, bu_as, exec_flushq. rewrite Hj, (jump_not_cond _ Hj), Hp, Hnp.
      unfold bu_should_flush6, bu_resolved3, fu_reset3, inc_seq3.
      cbn [x_m x_seq set_m set_wbus set_bu set_fu set_du set_seq3 m_bu m_fu m_dret b_check b_expect b_btb negb fst snd].
      rewrite Hneg. reflexivity.
    - rewrite E in Hk. injection Hk as Hk. apply pcz_inj in Hk. subst t'.
      split; [|split; [lia|split; [congruence | intros _; split; [exact Hc | lia]]]].
      unfold exec_gen, run_gen. rewrite Hret, Ef. cbv zeta. unfold pre_run, bu_as, exec_flushq. rewrite Hj, Hc, Hp, Hnp, (addS_pczq k H2).
      assert (Hne : (pcz t =? pcz (S k)) = false) by (apply Z.eqb_neq; unfold pcz; lia).
      assert (Hne' : (pcz (S k) =? pcz t) = false) by (apply Z.eqb_neq; unfold pcz; lia).
      rewrite Hne. cbn [negb andb]. unfold bu_should_flush6, rat_rollback3.
      cbn [x_m set_m set_wbus set_bu set_pcb3 set_rats3 m_bu b_check b_expect b_btb negb fst snd].
      rewrite Hne'. reflexivity.
    - rewrite E in Hk. discriminate.
  Qed.

  (* the back-end part of the invariant of the flush loops (Mvp63RefFwdDefs.GF3): the write bus holds the results
     w .. E (its queue: a prefix of them) and, behind them, results of the wrong path *)
  Record FIq (w E t : nat) (sqx : Z) (x : mx) : Prop := mkFIq {
    fi_E : (base <= w <= S E)%nat /\ (base <= E <= N)%nat /\ (E < n)%nat /\ (E < t <= n)%nat;
    fi_exec : forall k, (base <= k < E)%nat -> kout k = euo_none;
    fi_out : kout E = mk_euo6 true (pcz E) (pcz t) false;
    fi_wq : exists j junk, (w + j <= S E)%nat /\ bb_q (m_wbus (x_m x)) = map wbq (seq w j) /\
              map snd (bb_buf (m_wbus (x_m x))) = map wbq (seq (w + j) (S E - (w + j))) ++ junk /\
              Forall (fun c => sid E < w_seq c) junk;
    fi_tab : TabOK w (x_crat x) (x_trat x);
    fi_fwd : x_fwd x = repeat (0, 0) n;
    fi_seq : x_seq x = sqx /\ sq <= sqx <= sq + 1;
    fi_chan : Forall (fun p => fst p < x_next x) (x_chan x);
    fi_regs : length (m_regs (x_m x)) = 32%nat;
    fi_mem : m_mem (x_m x) = mem0;
    fi_l3 : lines (m_l3 (x_m x)) = [];
    fi_os : x_os x = false;
    fi_btb : Forall (fun en => fst en < pcz t) (b_btb (m_bu (x_m x))) }.

  Lemma addS_sq : addS 32 sq 1 = sq + 1.
  Proof. unfold addS. apply wrapS_id; [lia|]. apply int32_bounds. lia. Qed.

  Lemma rchan_lt x r b : Forall (fun p => fst p < b) (x_chan x) -> Forall (fun p => fst p < b) (rchan x r).
  Proof. intros H. unfold rchan. destruct (q_recv r); [apply Forall_filter3|]; exact H. Qed.

  Lemma btb_bound_mono btb a b : Forall (fun en : Z * Z => fst en < a) btb -> a <= b -> Forall (fun en : Z * Z => fst en < b) btb.
  Proof. intros H Hab. eapply Forall_impl; [|exact H]. cbn beta. intros en He. lia. Qed.

  Lemma FIq_exec_flush cy dp d xe w pl pv x r q' t :
    BIq dp d xe w pl pv x -> bb_q (x_ebus x) = r :: q' -> kout xe = mk_euo6 true (pcz xe) (pcz t) false -> (xe < t <= n)%nat ->
    (is_jump (ik xe) = false -> (S xe < t)%nat) ->
    Forall (fun en => fst en < pcz base) (b_btb (m_bu (x_m x))) ->
    FIq w xe t (if is_jump (ik xe) then sq + 1 else sq) (exec_flushq x cy r xe t).
  Proof.
    intros HB Hq Hko Ht Hjt Hbtb.
    pose proof HB as [[bi_ordw bi_ord0] bi_dn0 bi_xeN0 bi_ret0 bi_exec0 bi_ebus0 bi_wbus0 bi_pwlen0 bi_prlen0 bi_pw0 bi_pr0 bi_tab0 bi_fwd0 bi_seq0
      bi_pcb0 bi_chan0 bi_idnd0 bi_idlt0 bi_read0 bi_recv0 bi_fwder0 bi_rnd0 bi_rlt0 bi_pendr0 bi_pend10 bi_pendf0 bi_prev0 bi_prevnd0 bi_regs0 bi_mem0 bi_l30 bi_os0 bi_fnd0].
    fold n N in bi_dn0, bi_xeN0, bi_ret0.
    destruct (seq_split wbq (bb_q (m_wbus (x_m x))) (map snd (bb_buf (m_wbus (x_m x)))) w (xe - w) bi_wbus0) as (Q1 & Q2 & Q3).
    set (j := length (bb_q (m_wbus (x_m x)))) in *. rewrite map_length in Q2, Q3.
    assert (Hwq : exists j0 junk, (w + j0 <= S xe)%nat /\ bb_q (m_wbus (x_m x)) = map wbq (seq w j0) /\
              map snd (bb_buf (m_wbus (x_m x)) ++ [(cy + 1, wbq xe)]) = map wbq (seq (w + j0) (S xe - (w + j0))) ++ junk /\
              Forall (fun c => sid xe < w_seq c) junk).
    { exists j, []. split; [lia|]. split; [exact Q1|]. split; [|constructor]. rewrite map_app, Q2, app_nil_r. cbn [map snd].
      replace (S xe - (w + j))%nat with (S (length (bb_buf (m_wbus (x_m x))))) by lia. rewrite seq_snoc, map_app. cbn [map].
      replace (w + j + length (bb_buf (m_wbus (x_m x))))%nat with xe by lia. reflexivity. }
    assert (Hpb : pcz base <= pcz xe) by (unfold pcz; lia).
    assert (Hpt : pcz xe < pcz t) by (unfold pcz; lia).
    unfold exec_flushq. destruct (is_jump (ik xe)) eqn:Ej; constructor;
      cbn [x_m x_seq x_crat x_trat x_fwd x_chan x_next x_os set_du set_fu set_wbus set_bu m_wbus m_regs m_mem m_l3 m_bu b_btb bb_add bb_q bb_buf];
      try assumption; try (apply rchan_lt; assumption).
    - repeat split; try fold N; lia.
    - rewrite bi_seq0. split; [apply addS_sq | lia].
    - apply btb_add_bound; [eapply btb_bound_mono; [exact Hbtb | lia] | exact Hpt].
    - repeat split; try fold N; lia.
    - apply (tab_rollback app labels regs0 base Hlen0); [exact bi_tab0 | apply sid_le; lia].
    - split; [exact bi_seq0 | lia].
    - eapply btb_bound_mono; [exact Hbtb | lia].
  Qed.
  (* ---------------------------------------------------------------- *)
  (* the shadow: the instruction behind a taken conditional branch, executed on the wrong path *)

  Lemma FIq_shadow cy w E t x r k exe :
    FIq w E t sq x -> (E < k)%nat -> (k < t)%nat -> Return exe = false ->
    (forall ch, q_fwder r = Some ch -> ch < x_next x) ->
    exists sqx, FIq w E t sqx (fst (exec_gen x cy r k exe)).
  Proof.
    intros [F1 F2 F3 (j & junk & Fj & Fq & Fb & Fjk) F5 F6 [F7 F7'] F8 F9 F10 F11 F12 F13] HEk Hkt Hret Hfw.
    pose proof (exec_gen_frame x cy r k exe) as XF. set (x' := fst (exec_gen x cy r k exe)) in *.
    exists (x_seq x'). constructor; try assumption.
    - exists j, (junk ++ [mk_wb6 (sid k) exe (instr_ReadRegisters (ik k)) (instr_WriteRegisters (ik k))]).
      split; [exact Fj|]. split; [rewrite (xf_wq _ _ XF); exact Fq|]. split.
      + unfold x'. rewrite (exec_gen_wbuf x cy r k exe Hret), map_app, Fb, app_assoc. reflexivity.
      + apply Forall_app. split; [exact Fjk|]. constructor; [|constructor]. cbn [w_seq]. apply sid_lt. exact HEk.
    - apply exec_gen_tab; [exact F5 | apply sid_le; lia].
    - rewrite (xf_fwd _ _ XF). exact F6.
    - split; [reflexivity|]. destruct (exec_gen_seq x cy r k exe) as [E1|[E1 _]]; fold x' in E1; rewrite E1, F7; [lia | rewrite addS_sq; lia].
    - unfold x'. rewrite (exec_gen_chan x cy r k exe Hret). fold x'. rewrite (xf_next _ _ XF).
      apply (chan_ltq x r (RegisterValue exe) (x_next x) F8 Hfw).
    - rewrite (xf_regs _ _ XF). exact F9.
    - rewrite (xf_mem _ _ XF). exact F10.
    - rewrite (xf_l3 _ _ XF). exact F11.
    - rewrite (xf_os _ _ XF). exact F12.
    - destruct (exec_gen_btb x cy r k exe) as [E1|E1]; fold x' in E1; rewrite E1; [exact F13|].
      apply btb_add_bound; [exact F13 | unfold pcz; lia].
  Qed.

  Lemma eu_shadowq cy w E t x e r q' :
    FIq w E t sq x -> bb_q (x_ebus x) = r :: q' -> q_r r = rnq (S E) -> (S E < n)%nat -> (S E < t)%nat -> is_ret (ik (S E)) = false ->
    EuIdle e -> eu_pre3 e = false -> bb_canadd (m_wbus (x_m x)) = true ->
    btb_get (b_btb (m_bu (x_m x))) (pcz (S E)) = None ->
    (forall ch, q_recv r = Some ch -> exists v, aget ch (x_chan x) = Some v /\ int32 v) ->
    (forall ch, q_fwder r = Some ch -> aget ch (x_chan x) = None /\ ch < x_next x /\
                                       InstructionType_IsBranch (instr_InstructionType (ik (S E))) = false) ->
    exists x' o sqx, eu_cycle3 labels ord cy x e = (false, Ok (x', mk_eu3 ENone [] (Some (recvd r)) (g_seq e), o)) /\
      FIq w E t sqx x' /\ ExFrame x x' /\ (exists c, bb_buf (m_wbus (x_m x')) = bb_buf (m_wbus (x_m x)) ++ [(cy + 1, c)]) /\
      y_err o = None /\ y_ret o = false /\ (y_flush o = true -> y_seq o = sid (S E)).
  Proof.
    intros HF Hq Hqr HSn HSt Hnr He Hpre Hca Hbtb Hrc Hfo.
    assert (H32 : forall q, int32 (reg_read3 (head_fw x r) (x_crat x) (x_trat x) q)).
    { intros q. rewrite reg_read3_tview. destruct (q =? fst (head_fw x r)).
      - unfold head_fw. destruct (q_recv r) as [ch|] eqn:Erc; [|apply int32_0].
        destruct (Hrc ch eq_refl) as (v & Hv & Hv32). rewrite Hv. exact Hv32.
      - apply (tview_int32 w). exact (fi_tab _ _ _ _ _ HF). }
    destruct (wrong_run (S E) _ HSn H32 Hnr) as (e0 & Hrun & Hret & Hmc).
    exists (fst (exec_gen x cy r (S E) (embed e0))), (snd (exec_gen x cy r (S E) (embed e0))).
    destruct (FIq_shadow cy w E t x r (S E) (embed e0) HF ltac:(lia) HSt Hret ltac:(intros c Hc; apply (Hfo c Hc))) as (sqx & HF').
    exists sqx. split.
    - apply (eu_head_gen cy x e r q' (S E) (embed e0) Hq He Hpre Hqr HSn (fi_fwd _ _ _ _ _ HF) Hca Hbtb).
      + intros ch Hc. destruct (Hrc ch Hc) as (v & Hv & _). eauto.
      + intros ch Hc. destruct (Hfo ch Hc) as (A & _ & B). auto.
      + exact Hrun.
      + exact Hmc.
    - split; [exact HF'|]. split; [apply exec_gen_frame|]. split; [eexists; apply exec_gen_wbuf; exact Hret|].
      destruct (exec_gen_out x cy r (S E) (embed e0)) as (A & B & C). split; [exact A|]. split; [rewrite B; exact Hret|].
      intros Hf. apply (C Hf).
  Qed.
  (* ---------------------------------------------------------------- *)
  (* an idle unit takes the head of the execute bus (correct path)      *)

  Lemma head_ready dp d xe w pl pv x r q' : BIq dp d xe w pl pv x -> bb_q (x_ebus x) = r :: q' ->
    Forall (fun en => fst en < pcz base) (b_btb (m_bu (x_m x))) ->
    q_r r = rnq xe /\ (base <= xe <= N)%nat /\ (xe < n)%nat /\ (xe < d)%nat /\ x_fwd x = repeat (0, 0) n /\
    btb_get (b_btb (m_bu (x_m x))) (pcz xe) = None /\
    (forall ch, q_recv r = Some ch -> exists v, aget ch (x_chan x) = Some v) /\
    (forall ch, q_fwder r = Some ch -> aget ch (x_chan x) = None /\ InstructionType_IsBranch (instr_InstructionType (ik xe)) = false) /\
    instr_Run (ik xe) (reg_read3 (head_fw x r) (x_crat x) (x_trat x)) labels (pcz xe) [] 0 = Ok (exeb xe) /\
    MemoryChange (exeb xe) = false.
  Proof.
    intros HB Hq Hbtb.
    assert (Hfl : flat (x_ebus x) = r :: (q' ++ map snd (bb_buf (x_ebus x)))) by (unfold flat; rewrite Hq; reflexivity).
    destruct (head_entryq _ _ _ _ _ _ _ _ _ HB Hfl) as (Hqr & Hkq & Hxd).
    destruct (head_operandsq _ _ _ _ _ _ _ _ _ HB Hfl) as (Hch & _ & _ & Hrun).
    pose proof (bq_ord _ _ _ _ _ _ _ _ _ _ _ _ _ HB) as [Hord _]. pose proof (bq_xeN _ _ _ _ _ _ _ _ _ _ _ _ _ HB) as HxN.
    pose proof (bq_dn _ _ _ _ _ _ _ _ _ _ _ _ _ HB) as [Hdn _]. fold n in Hdn. fold N in HxN.
    assert (Hin : In r (flat (x_ebus x))) by (rewrite Hfl; left; reflexivity).
    pose proof (bq_fwder _ _ _ _ _ _ _ _ _ _ _ _ _ HB) as Hfo. rewrite Forall_forall in Hfo. specialize (Hfo r Hin).
    split; [exact Hqr|]. split; [lia|]. split; [lia|]. split; [exact Hxd|]. split; [exact (bq_fwd _ _ _ _ _ _ _ _ _ _ _ _ _ HB)|].
    split; [apply (btb_get_none _ _ _ Hbtb); unfold pcz; lia|]. split; [exact Hch|].
    split; [intros ch Hc; destruct (Hfo ch Hc) as (A & _ & B); rewrite (q_instr_rnq r xe Hqr) in B; auto|].
    split; [exact Hrun|]. destruct (flagsq xe ltac:(lia) ltac:(lia)) as (_ & Hm & _). exact Hm.
  Qed.

  Lemma eu_step_q cy dp d xe w pl pv x e r q' : BIq dp d xe w pl pv x -> bb_q (x_ebus x) = r :: q' ->
    Forall (fun en => fst en < pcz base) (b_btb (m_bu (x_m x))) ->
    EuIdle e -> eu_pre3 e = false -> bb_canadd (m_wbus (x_m x)) = true ->
    eu_cycle3 labels ord cy x e =
      (false, Ok (fst (exec_gen x cy r xe (exeb xe)), mk_eu3 ENone [] (Some (recvd r)) (g_seq e), snd (exec_gen x cy r xe (exeb xe)))).
  Proof.
    intros HB Hq Hbtb He Hpre Hca.
    destruct (head_ready _ _ _ _ _ _ _ _ _ HB Hq Hbtb) as (Hqr & _ & Hxn & _ & Hfwd & Hget & Hch & Hfo & Hrun & Hmc).
    exact (eu_head_gen cy x e r q' xe (exeb xe) Hq He Hpre Hqr Hxn Hfwd Hca Hget Hch Hfo Hrun Hmc).
  Qed.

  Lemma recvd_qr r : q_r (recvd r) = q_r r.
  Proof. unfold recvd. destruct (q_recv r); reflexivity. Qed.

  Lemma flush_is_branch k t : (base <= k <= N)%nat -> (k < n)%nat -> kout k = mk_euo6 true (pcz k) (pcz t) false ->
    InstructionType_IsBranch (instr_InstructionType (ik k)) = true.
  Proof.
    intros H1 H2 Hk.
    assert (Hnr : is_ret (ik k) = false) by (destruct (is_ret (ik k)) eqn:Er; [rewrite (kout_ret_q k Er) in Hk; discriminate | reflexivity]).
    unfold InstructionType_IsBranch. fold (is_jump (ik k)) (condbr (ik k)).
    destruct (kout_cases k H1 H2 Hnr) as [(Hj & _)|[(_ & Hc & _)|(_ & E & _)]].
    - rewrite Hj. reflexivity.
    - rewrite Hc. apply orb_true_r.
    - rewrite E in Hk. discriminate.
  Qed.

  (* the units between two ticks when nothing is left in the queue of the execute bus *)
  Lemma eu_idle_q cy x e : g_co e = ENone -> eu_pre3 e = false -> bb_q (x_ebus x) = [] ->
    eu_cycle3 labels ord cy x e = (false, Ok (x, e, yo_none)).
  Proof. intros Hco Hpre Hq. unfold eu_cycle3. rewrite Hpre, Hco. unfold bb_get. rewrite Hq. reflexivity. Qed.

  Lemma eus_main_idle_q cy x f s p rt b : forall eus, Forall EuIdle eus -> Forall (StaleOK b) eus -> s = 0 \/ b <= s ->
    bb_q (x_ebus x) = [] ->
    exists eus', eus_main3 labels ord cy x eus (mk_euo3 f s p rt None) = (false, Ok (x, eus', mk_euo3 f s p rt None)) /\
                 Forall EuIdle eus' /\ Forall (StaleOK b) eus' /\ length eus' = length eus.
  Proof.
    induction eus as [|e t IH]; intros He Hs Hsb Hq.
    - exists []. cbn [eus_main3]. repeat split; constructor.
    - inversion He as [|? ? [Hco Hmem] He2]; subst. inversion Hs as [|? ? Hs1 Hs2]; subst.
      destruct (IH He2 Hs2 Hsb Hq) as (t' & E & A1 & A2 & A3).
      cbn [eus_main3 y_seq].
      assert (Hpre : eu_pre3 (mk_eu3 (g_co e) (g_memory e) (g_runner e) s) = false).
      { apply (eu_pre3_stale _ b); [apply StaleOK_seq; exact Hs1 | exact Hsb]. }
      rewrite (eu_idle_q cy x (mk_eu3 (g_co e) (g_memory e) (g_runner e) s) Hco Hpre Hq).
      cbn [yo_none y_err y_flush y_seq y_pc y_ret andb orb]. rewrite !orb_false_r. rewrite E. cbn [bind orb].
      eexists. split; [reflexivity|].
      split; [constructor; [split; assumption | exact A1]|]. split; [constructor; [apply StaleOK_seq; exact Hs1 | exact A2]|]. cbn [length]; lia.
  Qed.

  (* what the units leave alone even when one of them asks for a flush *)
  Record EuFrameF (x x' : mx) : Prop := mkEFF {
    ff_ebuf : bb_buf (x_ebus x') = bb_buf (x_ebus x); ff_eql : bb_ql (x_ebus x') = bb_ql (x_ebus x);
    ff_ebl : bb_bl (x_ebus x') = bb_bl (x_ebus x);
    ff_l1i : m_l1i (x_m x') = m_l1i (x_m x); ff_dret : m_dret (x_m x') = m_dret (x_m x); ff_cu : m_cu (x_m x') = m_cu (x_m x);
    ff_dbus : m_dbus (x_m x') = m_dbus (x_m x); ff_cbus : m_cbus (x_m x') = m_cbus (x_m x); ff_mebus : m_ebus (x_m x') = m_ebus (x_m x);
    ff_wq : bb_q (m_wbus (x_m x')) = bb_q (m_wbus (x_m x)); ff_wql : bb_ql (m_wbus (x_m x')) = bb_ql (m_wbus (x_m x));
    ff_wbl : bb_bl (m_wbus (x_m x')) = bb_bl (m_wbus (x_m x)) }.

  Lemma EuFrameF_refl x : EuFrameF x x.
  Proof. constructor; reflexivity. Qed.
  Lemma EuFrameF_trans a b c : EuFrameF a b -> EuFrameF b c -> EuFrameF a c.
  Proof. intros [] []. constructor; congruence. Qed.
  Lemma EuFrame3_F x x' : EuFrame3 x x' -> EuFrameF x x'.
  Proof. intros []. constructor; assumption. Qed.
  Lemma ExFrame_F x x' : ExFrame x x' -> EuFrameF x x'.
  Proof. intros []. constructor; try assumption; rewrite xf_ebus0; reflexivity. Qed.
  Lemma ExFrame_3 x x' : ExFrame x x' -> m_fu (x_m x') = m_fu (x_m x) -> m_dpbr (x_m x') = m_dpbr (x_m x) ->
    b_btb (m_bu (x_m x')) = b_btb (m_bu (x_m x)) -> EuFrame3 x x'.
  Proof. intros [] H1 H2 H3. constructor; try assumption; rewrite xf_ebus0; reflexivity. Qed.

  Lemma exec_flushq_frame x cy r k t : ExFrame x (exec_flushq x cy r k t).
  Proof. unfold exec_flushq. destruct (is_jump (ik k)); constructor; reflexivity. Qed.

  Lemma exec_plainq_frame x cy r k bu' : b_btb bu' = b_btb (m_bu (x_m x)) -> EuFrame3 x (exec_plainq x cy r k bu').
  Proof. intros H. constructor; try reflexivity. exact H. Qed.

  Lemma pre_run_frame x r k : EuFrame3 x (pre_run x r k).
  Proof. constructor; try reflexivity. unfold pre_run, bu_as. cbn [x_m set_bu m_bu]. destruct (is_jump (ik k)); [reflexivity|]. destruct (condbr (ik k)); reflexivity. Qed.
  Lemma exec_flushq_wbus x cy r k t : m_wbus (x_m (exec_flushq x cy r k t)) = bb_add (m_wbus (x_m x)) (wbq k) cy.
  Proof. unfold exec_flushq. destruct (is_jump (ik k)); reflexivity. Qed.

  Lemma exec_flushq_btb x cy r k t : is_jump (ik k) = false -> b_btb (m_bu (x_m (exec_flushq x cy r k t))) = b_btb (m_bu (x_m x)).
  Proof. intros H. unfold exec_flushq. rewrite H. reflexivity. Qed.

  Lemma exec_flushq_chan x cy r k t : x_chan (exec_flushq x cy r k t) = rchan x r.
  Proof. unfold exec_flushq. destruct (is_jump (ik k)); reflexivity. Qed.

  Lemma busok_snoc {T} cy (b b' : bbus T) c : BusOK cy b -> bb_buf b' = bb_buf b ++ [(cy + 1, c)] -> bb_q b' = bb_q b ->
    bb_ql b' = bb_ql b -> bb_bl b' = bb_bl b -> BusOK cy b'.
  Proof.
    intros [H1 H2 H3 H4] E1 E2 E3 E4. constructor; rewrite ?E3, ?E4; auto.
    - unfold qlen. rewrite E2. exact H3.
    - rewrite E1. apply Forall_app. split; [exact H4|]. constructor; [cbn [fst]; lia | constructor].
  Qed.

  (* the rest of the loop once the head has asked for a flush: at most one more instruction, the shadow *)
  Lemma eus_after_flush cy dp d xe w pl pv x r q' t : forall eus,
    BIq dp d xe w pl pv x -> bb_q (x_ebus x) = r :: q' ->
    Forall (fun en => fst en < pcz base) (b_btb (m_bu (x_m x))) ->
    kout xe = mk_euo6 true (pcz xe) (pcz t) false ->
    Forall EuIdle eus -> Forall (StaleOK (sid xe)) eus ->
    BusOK cy (m_wbus (x_m x)) -> BusOK cy (x_ebus x) ->
    blen (m_wbus (x_m x)) + Z.of_nat (Nat.min (S (length eus)) (S (length q'))) <= 2 ->
    exists x' eus' sqx,
      eus_main3 labels ord cy (exec_flushq x cy r xe t) eus (mk_euo3 true (sid xe) (pcz t) false None)
        = (false, Ok (x', eus', mk_euo3 true (sid xe) (pcz t) false None)) /\
      Forall EuIdle eus' /\ length eus' = length eus /\ Forall (StaleOK (sid (S (S xe)))) eus' /\
      FIq w xe t sqx x' /\ EuFrameF x x' /\ BusOK cy (m_wbus (x_m x')) /\
      blen (m_wbus (x_m x')) <= blen (m_wbus (x_m x)) + Z.of_nat (Nat.min (S (length eus)) (S (length q'))).
  Proof.
    intros eus HB Hq Hbtb Hko He Hst HW HE Hcap.
    destruct (head_ready _ _ _ _ _ _ _ _ _ HB Hq Hbtb) as (Hqr & Hrg & Hxn & Hxd & Hfwd & Hget & Hch & Hfo & Hrun & Hmc).
    pose proof (flush_is_branch xe t Hrg Hxn Hko) as Hbr.
    assert (Ef : q_fwder r = None).
    { destruct (q_fwder r) as [ch|] eqn:E; [|reflexivity]. destruct (Hfo ch eq_refl) as [_ B]. congruence. }
    destruct (exec_gen_flush x cy r xe t Hrg Hxn Hko Ef) as (_ & Ht & HjN & Hjc).
    pose proof (FIq_exec_flush cy _ _ _ _ _ _ _ r q' t HB Hq Hko Ht ltac:(intros Hj; apply (Hjc Hj)) Hbtb) as HF1.
    set (x1 := exec_flushq x cy r xe t) in *.
    pose proof (exec_flushq_frame x cy r xe t) as XF1. fold x1 in XF1.
    assert (Hw1 : m_wbus (x_m x1) = bb_add (m_wbus (x_m x)) (wbq xe) cy) by apply exec_flushq_wbus.
    assert (HW1 : BusOK cy (m_wbus (x_m x1))) by (rewrite Hw1; apply add_ok; exact HW).
    assert (Hb1 : blen (m_wbus (x_m x1)) = blen (m_wbus (x_m x)) + 1).
    { rewrite Hw1. unfold blen, bb_add. cbn [bb_buf]. rewrite zlen_app, zlen_cons, zlen_nil. lia. }
    assert (Hq1 : bb_q (x_ebus x1) = q') by (rewrite (xf_ebus _ _ XF1); unfold ebus_tl; cbn [bb_q]; rewrite Hq; reflexivity).
    assert (Hmono : forall e, StaleOK (sid xe) e -> StaleOK (sid (S (S xe))) e).
    { intros e. apply StaleOK_mono. apply sid_le. lia. }
    destruct eus as [|e t'].
    - exists x1, [], (if is_jump (ik xe) then sq + 1 else sq). cbn [eus_main3 length Nat.min]. split; [reflexivity|].
      split; [constructor|]. split; [reflexivity|]. split; [constructor|]. split; [exact HF1|]. split; [apply ExFrame_F; exact XF1|].
      split; [exact HW1|]. rewrite Hb1. lia.
    - destruct q' as [|r2 q''].
      + destruct (eus_main_idle_q cy x1 true (sid xe) (pcz t) false (sid xe) (e :: t') He Hst ltac:(right; lia) Hq1) as (eus' & E & A1 & A2 & A3).
        exists x1, eus', (if is_jump (ik xe) then sq + 1 else sq). split; [exact E|]. split; [exact A1|]. split; [exact A3|].
        split; [eapply Forall_impl; [|exact A2]; exact Hmono|]. split; [exact HF1|]. split; [apply ExFrame_F; exact XF1|].
        split; [exact HW1|]. rewrite Hb1. cbn [length Nat.min]. lia.
      + (* the shadow *)
        inversion He as [|? ? He1 He2]; subst. inversion Hst as [|? ? Hs1 Hs2]; subst.
        pose proof HB as [[bi_ordw bi_ord0] bi_dn0 bi_xeN0 bi_ret0 bi_exec0 bi_ebus0 bi_wbus0 bi_pwlen0 bi_prlen0 bi_pw0 bi_pr0 bi_tab0 bi_fwd0 bi_seq0
          bi_pcb0 bi_chan0 bi_idnd0 bi_idlt0 bi_read0 bi_recv0 bi_fwder0 bi_rnd0 bi_rlt0 bi_pendr0 bi_pend10 bi_pendf0 bi_prev0 bi_prevnd0 bi_regs0 bi_mem0 bi_l30 bi_os0 bi_fnd0].
        fold n N in bi_dn0, bi_xeN0, bi_ret0.
        set (E' := q'' ++ map snd (bb_buf (x_ebus x))).
        assert (Hfl : flat (x_ebus x) = r :: r2 :: E') by (unfold flat, E'; rewrite Hq; reflexivity).
        rewrite Hfl in *.
        assert (Hd2 : (S (S xe) <= d)%nat).
        { apply (f_equal (@length _)) in bi_ebus0. rewrite !map_length, seq_length in bi_ebus0. cbn [length] in bi_ebus0. lia. }
        assert (Hqr2 : q_r r2 = rnq (S xe)).
        { replace (d - xe)%nat with (S (S (d - S (S xe)))) in bi_ebus0 by lia. cbn [seq map] in bi_ebus0. injection bi_ebus0 as _ Hx2 _. exact Hx2. }
        assert (Ej : is_jump (ik xe) = false).
        { destruct (is_jump (ik xe)) eqn:Ej; [|reflexivity]. exfalso. specialize (HjN eq_refl). lia. }
        destruct (Hjc Ej) as [Hc HSt].
        rewrite Ej in HF1.
        assert (Hq''nil : q'' = []).
        { pose proof (bus_q _ _ HE) as Hql. unfold qlen in Hql. rewrite Hq, !zlen_cons in Hql. apply zlen_zero. pose proof (zlen_ge0 q''). lia. }
        subst q''.
        assert (HSn : (S xe < n)%nat) by lia.
        assert (Hnr2 : is_ret (ik (S xe)) = false).
        { destruct (is_ret (ik (S xe))) eqn:Er; [|reflexivity]. exfalso.
          assert (HSN : S xe = N) by (apply ret_is_Nq; [lia | exact HSn | exact Er]).
          assert (N <= xe)%nat by (apply bi_ret0; [lia | rewrite <- HSN; exact Er]). lia. }
        assert (Hpre2 : eu_pre3 (mk_eu3 (g_co e) (g_memory e) (g_runner e) (sid xe)) = false).
        { apply (eu_pre3_stale _ (sid xe)); [apply StaleOK_seq; exact Hs1 | right; cbn [g_seq]; lia]. }
        assert (Hca1 : bb_canadd (m_wbus (x_m x1)) = true).
        { apply canadd_lt3; [apply (bus_bl _ _ HW1)|]. rewrite Hb1. cbn [length Nat.min] in Hcap. lia. }
        assert (Hget1 : btb_get (b_btb (m_bu (x_m x1))) (pcz (S xe)) = None).
        { unfold x1. rewrite (exec_flushq_btb x cy r xe t Ej). apply (btb_get_none _ _ _ Hbtb). unfold pcz. lia. }
        assert (Hchan1 : x_chan x1 = rchan x r) by apply exec_flushq_chan.
        assert (Hin2 : In r2 (r :: r2 :: E')) by (right; left; reflexivity).
        assert (Hrc2 : forall ch, q_recv r2 = Some ch -> exists v, aget ch (x_chan x1) = Some v /\ int32 v).
        { intros ch Hc2. rewrite Forall_forall in bi_recv0. destruct (bi_recv0 r2 ltac:(apply in_or_app; left; exact Hin2) ch Hc2) as (_ & p & Hp & _ & D).
          rewrite (kq_rnq r2 (S xe) Hqr2) in Hp.
          destruct D as [(D1 & rp & D2 & D3 & D4)|(D1 & D2)].
          - exfalso. assert (p = xe) by lia. subst p.
            assert (rp = r).
            { destruct D2 as [<-|D2]; [reflexivity|]. exfalso.
              assert (HE'2 : map q_r (r2 :: E') = map rnq (seq (S xe) (d - S xe))).
              { replace (d - xe)%nat with (S (d - S xe)) in bi_ebus0 by lia. cbn [seq map] in bi_ebus0. injection bi_ebus0 as _ Hx3. exact Hx3. }
              destruct (map_rnq_in _ _ _ _ HE'2 D2) as (k & Hk & _ & Ek). lia. }
            subst rp. congruence.
          - exists (RegisterValue (exeb p)). split; [|apply (exeb_val_int32 app labels regs0 base)].
            rewrite Hchan1. unfold rchan. destruct (q_recv r) as [rch|] eqn:Er; [|exact D2]. rewrite aget_filter_ne; [exact D2|].
            eapply recvs_head_ne; [exact bi_rnd0 | exact Er | left; reflexivity | exact Hc2]. }
        assert (Hfo2 : forall ch, q_fwder r2 = Some ch -> aget ch (x_chan x1) = None /\ ch < x_next x1 /\
                          InstructionType_IsBranch (instr_InstructionType (ik (S xe))) = false).
        { intros ch Hc2. rewrite Forall_forall in bi_fwder0. destruct (bi_fwder0 r2 Hin2 ch Hc2) as (A & B & C).
          rewrite (q_instr_rnq r2 (S xe) Hqr2) in C. rewrite Hchan1, (xf_next _ _ XF1). split; [|auto].
          unfold rchan. destruct (q_recv r); [apply aget_filter_none|]; exact A. }
        destruct (eu_shadowq cy w xe t x1 (mk_eu3 (g_co e) (g_memory e) (g_runner e) (sid xe)) r2 [] HF1 Hq1 Hqr2 HSn HSt Hnr2 He1 Hpre2 Hca1 Hget1 Hrc2 Hfo2)
          as (x2 & o & sqx & Ecy & HF2 & XF2 & (c & Hbuf2) & Herr & Hret & Hfl2).
        assert (Htake : y_flush o && (negb true || (y_seq o <? sid xe)) = false).
        { destruct (y_flush o) eqn:Efl; [|reflexivity]. rewrite (Hfl2 eq_refl). cbn [negb orb andb]. apply Z.ltb_ge. apply sid_le. lia. }
        assert (Hq2 : bb_q (x_ebus x2) = []) by (rewrite (xf_ebus _ _ XF2); unfold ebus_tl; cbn [bb_q]; rewrite Hq1; reflexivity).
        destruct (eus_main_idle_q cy x2 true (sid xe) (pcz t) false (sid xe) t' He2 Hs2 ltac:(right; lia) Hq2) as (eus' & E & A1 & A2 & A3).
        cbn [eus_main3 y_seq]. rewrite Ecy, Herr. cbn [y_flush y_seq y_pc y_ret]. rewrite Htake, Hret. cbn [orb]. rewrite E. cbn [bind orb].
        eexists x2, _, sqx. split; [reflexivity|].
        split; [constructor; [split; reflexivity | exact A1]|]. split; [cbn [length]; lia|].
        split.
        { constructor; [|eapply Forall_impl; [|exact A2]; exact Hmono].
          intros rr Hrr. cbn [g_runner] in Hrr. injection Hrr as <-. unfold q_seq. rewrite recvd_qr, Hqr2. cbn [Mvp63RefFwdDefs.rnq r_seq]. apply sid_lt. lia. }
        split; [exact HF2|]. split; [eapply EuFrameF_trans; apply ExFrame_F; eassumption|].
        split.
        { eapply (busok_snoc cy _ _ c HW1 Hbuf2); [exact (xf_wq _ _ XF2) | exact (xf_wql _ _ XF2) | exact (xf_wbl _ _ XF2)]. }
        unfold blen at 1. rewrite Hbuf2, zlen_app, zlen_cons, zlen_nil. fold (blen (m_wbus (x_m x1))). rewrite Hb1. cbn [length Nat.min]. lia.
  Qed.
  (* ---------------------------------------------------------------- *)
  (* the loop over the execute units of the main loop                   *)

  Notation acc_of b := (mk_euo3 false 0 0 b None).

  Lemma EuFrame3_reflq x : EuFrame3 x x.
  Proof. constructor; reflexivity. Qed.
  Lemma EuFrame3_transq a b c : EuFrame3 a b -> EuFrame3 b c -> EuFrame3 a c.
  Proof. intros [] []. constructor; congruence. Qed.

  (* j heads were executed, none of them reported anything *)
  Record EuPlain (cy : Z) (dp d xe w : nat) (pl pv : list runner3) (x x' : mx) (eus' : list eu3) (j : nat) : Prop := mkEuPlain {
    up_stale : Forall (StaleOK (sid (xe + j))) eus';
    up_bi : BIq dp d (xe + j) w pl pv x';
    up_frame : EuFrame3 x x';
    up_q : bb_q (x_ebus x') = skipn j (bb_q (x_ebus x));
    up_bw : BusOK cy (m_wbus (x_m x'));
    up_buf : bb_buf (m_wbus (x_m x')) = bb_buf (m_wbus (x_m x)) ++ map (fun k => (cy + 1, wbq k)) (seq xe j) }.

  Lemma eus_main_q cy dp d w pl pv : forall eus x xe,
    Forall EuIdle eus -> Forall (StaleOK (sid xe)) eus -> BIq dp d xe w pl pv x ->
    (xe + length (bb_q (x_ebus x)) <= dp)%nat -> (d + length pl <= S N)%nat ->
    Forall (fun en => fst en < pcz base) (b_btb (m_bu (x_m x))) ->
    BusOK cy (m_wbus (x_m x)) -> BusOK cy (x_ebus x) ->
    blen (m_wbus (x_m x)) + Z.of_nat (Nat.min (length eus) (length (bb_q (x_ebus x)))) <= 2 ->
    exists x' eus' o, eus_main3 labels ord cy x eus (acc_of false) = (false, Ok (x', eus', o)) /\
      Forall EuIdle eus' /\ length eus' = length eus /\
      ((o = acc_of false /\ EuPlain cy dp d xe w pl pv x x' eus' (Nat.min (length eus) (length (bb_q (x_ebus x))))) \/
       (o = acc_of true /\ exists j, (xe + j)%nat = N /\ d = S N /\ (N < n)%nat /\ is_ret (ik N) = true /\ pl = [] /\
           BIq dp N N w [] [] x' /\ EuFrame3 x x' /\ bb_q (x_ebus x') = [] /\ BusOK cy (m_wbus (x_m x')) /\
           bb_buf (m_wbus (x_m x')) = bb_buf (m_wbus (x_m x)) ++ map (fun k => (cy + 1, wbq k)) (seq xe j) /\
           (j < Nat.min (length eus) (length (bb_q (x_ebus x))))%nat) \/
       (exists j t sqx, o = mk_euo3 true (sid (xe + j)) (pcz t) false None /\ FIq w (xe + j) t sqx x' /\ EuFrameF x x' /\
           Forall (StaleOK (sid (S (S (xe + j))))) eus' /\ BusOK cy (m_wbus (x_m x')) /\
           blen (m_wbus (x_m x')) <= blen (m_wbus (x_m x)) + Z.of_nat (Nat.min (length eus) (length (bb_q (x_ebus x)))))).
  Proof.
    induction eus as [|e t IH]; intros x xe He Hst HB Hdp Hpl Hbtb HW HE Hcap.
    - exists x, [], (acc_of false). cbn [eus_main3 length Nat.min]. split; [reflexivity|]. split; [constructor|]. split; [reflexivity|].
      left. split; [reflexivity|]. constructor; rewrite ?Nat.add_0_r; cbn [seq map skipn]; rewrite ?app_nil_r; auto. apply EuFrame3_reflq.
    - inversion He as [|? ? He1 He2]; subst. inversion Hst as [|? ? Hs1 Hs2]; subst.
      destruct (bb_q (x_ebus x)) as [|r q'] eqn:Eq.
      + destruct (eus_main_idle_q cy x false 0 0 false (sid xe) (e :: t) He Hst ltac:(left; reflexivity) Eq) as (eus' & E & A1 & A2 & A3).
        exists x, eus', (acc_of false). split; [exact E|]. split; [exact A1|]. split; [exact A3|].
        left. split; [reflexivity|]. cbn [length]. rewrite Nat.min_0_r.
        constructor; rewrite ?Nat.add_0_r; cbn [seq map skipn]; rewrite ?app_nil_r; auto. apply EuFrame3_reflq.
      + cbn [length] in Hdp, Hcap |- *. cbn [Nat.min] in Hcap |- *.
        destruct (head_ready _ _ _ _ _ _ _ _ _ HB Eq Hbtb) as (Hqr & Hrg & Hxn & Hxd & Hfwd & Hget & Hch & Hfo & Hrun & Hmc).
        assert (Hca : bb_canadd (m_wbus (x_m x)) = true) by (apply canadd_lt3; [apply (bus_bl _ _ HW) | lia]).
        assert (Hpre : eu_pre3 (mk_eu3 (g_co e) (g_memory e) (g_runner e) 0) = false).
        { apply (eu_pre3_stale _ (sid xe)); [apply StaleOK_seq; exact Hs1 | left; reflexivity]. }
        pose proof (eu_step_q cy _ _ _ _ _ _ x (mk_eu3 (g_co e) (g_memory e) (g_runner e) 0) r q' HB Eq Hbtb He1 Hpre Hca) as Ecy.
        cbn [g_seq] in Ecy.
        assert (Hrst : forall b, (xe < b)%nat -> StaleOK (sid b) (mk_eu3 ENone [] (Some (recvd r)) 0)).
        { intros b Hb rr Hrr. cbn [g_runner] in Hrr. injection Hrr as <-. unfold q_seq. rewrite recvd_qr, Hqr. cbn [Mvp63RefFwdDefs.rnq r_seq]. apply sid_lt. exact Hb. }
        assert (Hpvk : forall p, In p pv -> (xe < kq p)%nat).
        { intros p Hp. destruct (bq_prev _ _ _ _ _ _ _ _ _ _ _ _ _ HB p Hp) as (_ & _ & C). lia. }
        destruct (is_ret (ik xe)) eqn:Eret.
        * (* the ret *)
          assert (HxeN : xe = N) by (apply ret_is_Nq; assumption).
          pose proof (bq_dn _ _ _ _ _ _ _ _ _ _ _ _ _ HB) as [_ HdN]. fold N in HdN.
          destruct pl as [|p0 pl0]; [|exfalso; cbn [length] in Hpl; lia].
          destruct (BIq_exec_ret _ _ _ _ _ _ _ _ HB Eq Eret) as (_ & HdSN & HNn & Hq'nil & HB1). subst q'.
          rewrite (exec_gen_ret x cy r xe Hrg Hxn Eret) in Ecy. cbn [fst snd] in Ecy.
          set (x1 := pre_run x r xe) in *.
          assert (Hq1 : bb_q (x_ebus x1) = []) by (unfold x1, pre_run, ebus_tl; cbn [x_ebus bb_q]; rewrite Eq; reflexivity).
          destruct (eus_main_idle_q cy x1 false 0 0 true (sid xe) t He2 Hs2 ltac:(left; reflexivity) Hq1) as (t' & E & A1 & A2 & A3).
          cbn [eus_main3 y_seq]. rewrite Ecy. cbn [y_err y_flush y_seq y_pc y_ret andb orb]. rewrite E. cbn [bind orb].
          eexists x1, _, (acc_of true). split; [reflexivity|]. split; [constructor; [split; reflexivity | exact A1]|]. split; [cbn [length]; lia|].
          right. left. split; [reflexivity|]. exists O. rewrite Nat.add_0_r. split; [exact HxeN|]. split; [exact HdSN|]. split; [exact HNn|].
          split; [rewrite <- HxeN; exact Eret|]. split; [reflexivity|]. rewrite <- HxeN. split; [exact HB1|]. split; [apply pre_run_frame|].
          split; [exact Hq1|]. split; [exact HW|]. split; [cbn [seq map]; rewrite app_nil_r; reflexivity | lia].
        * assert (Hko : kout xe = euo_none \/ exists t0, kout xe = mk_euo6 true (pcz xe) (pcz t0) false).
          { destruct (kout_cases xe Hrg Hxn Eret) as [(_ & _ & t0 & _ & _ & _ & E)|[(_ & _ & t0 & _ & _ & _ & E)|(_ & E & _)]]; eauto. }
          destruct Hko as [Hko|(t0 & Hko)].
          -- (* nothing reported *)
             destruct (exec_gen_plain x cy r xe Hrg Hxn Hko ltac:(intros ch Hc; apply (Hfo ch Hc))) as (bu' & Hbu & Heq).
             rewrite Heq in Ecy. cbn [fst snd] in Ecy.
             pose proof (BIq_exec_plain cy _ _ _ _ _ _ x r q' bu' HB Eq Hpvk Hko) as HB1.
             set (x1 := exec_plainq x cy r xe bu') in *.
             assert (Hq1 : bb_q (x_ebus x1) = q') by (unfold x1, exec_plainq, ebus_tl; cbn [x_ebus bb_q]; rewrite Eq; reflexivity).
             assert (Hw1 : m_wbus (x_m x1) = bb_add (m_wbus (x_m x)) (wbq xe) cy) by reflexivity.
             assert (HW1 : BusOK cy (m_wbus (x_m x1))) by (rewrite Hw1; apply add_ok; exact HW).
             assert (Hb1 : blen (m_wbus (x_m x1)) = blen (m_wbus (x_m x)) + 1).
             { rewrite Hw1. unfold blen, bb_add. cbn [bb_buf]. rewrite zlen_app, zlen_cons, zlen_nil. lia. }
             assert (HE1 : BusOK cy (x_ebus x1)).
             { eapply (BusOK_frame cy (x_ebus x)); [reflexivity | reflexivity | reflexivity | | exact HE].
               unfold qlen. rewrite Hq1, Eq, zlen_cons. lia. }
             pose proof (exec_plainq_frame x cy r xe bu' Hbu) as EF1. fold x1 in EF1.
             destruct (IH x1 (S xe) He2 ltac:(eapply Forall_impl; [|exact Hs2]; intros e0; apply StaleOK_mono; apply sid_le; lia) HB1
                          ltac:(rewrite Hq1; lia) Hpl ltac:(rewrite (e3_btb _ _ EF1); exact Hbtb) HW1 HE1 ltac:(rewrite Hq1, Hb1; lia))
               as (x' & t' & o & E & A1 & A2 & Hout).
             cbn [eus_main3 y_seq]. rewrite Ecy. cbn [yo_none y_err y_flush y_seq y_pc y_ret andb orb]. rewrite E. cbn [bind orb].
             eexists x', _, o. split; [reflexivity|]. split; [constructor; [split; reflexivity | exact A1]|]. split; [cbn [length]; lia|].
             rewrite Hq1 in Hout.
             destruct Hout as [(Ho & [P1 P2 P3 P4 P5 P6])|[(Ho & j & R1 & R2 & R3 & R4 & R5 & R6 & R7 & R8 & R9 & R10 & R11)|(j & t1 & sqx & F1 & F2 & F3 & F4 & F5 & F6)]].
             ++ left. split; [exact Ho|]. set (j := Nat.min (length t) (length q')) in *.
                constructor; rewrite ?Nat.add_succ_r.
                ** constructor; [apply Hrst; lia | exact P1].
                ** exact P2.
                ** eapply EuFrame3_transq; eassumption.
                ** rewrite P4, Hq1, Eq. reflexivity.
                ** exact P5.
                ** rewrite P6. unfold x1, exec_plainq, bb_add. cbn [x_m set_wbus m_wbus bb_buf seq map]. rewrite <- app_assoc. reflexivity.
             ++ right. left. split; [exact Ho|]. exists (S j). rewrite Nat.add_succ_r. split; [exact R1|]. split; [exact R2|]. split; [exact R3|].
                split; [exact R4|]. split; [exact R5|]. split; [exact R6|]. split; [eapply EuFrame3_transq; eassumption|]. split; [exact R8|].
                split; [exact R9|]. split; [|lia].
                rewrite R10. unfold x1, exec_plainq, bb_add. cbn [x_m set_wbus m_wbus bb_buf seq map]. rewrite <- app_assoc. reflexivity.
             ++ right. right. exists (S j), t1, sqx. rewrite Nat.add_succ_r. split; [exact F1|]. split; [exact F2|].
                split; [eapply EuFrameF_trans; [apply EuFrame3_F; exact EF1 | exact F3]|].
                split; [constructor; [apply Hrst; lia | exact F4]|]. split; [exact F5|]. rewrite Hb1 in F6. lia.
          -- (* a flush *)
             assert (Ef : q_fwder r = None).
             { destruct (q_fwder r) as [ch|] eqn:E0; [|reflexivity]. destruct (Hfo ch eq_refl) as [_ B].
               rewrite (flush_is_branch xe t0 Hrg Hxn Hko) in B. discriminate. }
             destruct (exec_gen_flush x cy r xe t0 Hrg Hxn Hko Ef) as (Heq & _).
             rewrite Heq in Ecy. cbn [fst snd] in Ecy.
             destruct (eus_after_flush cy _ _ _ _ _ _ x r q' t0 t HB Eq Hbtb Hko He2 Hs2 HW HE Hcap)
               as (x' & t' & sqx & E & A1 & A2 & A3 & A4 & A5 & A6 & A7).
             cbn [eus_main3 y_seq]. rewrite Ecy. cbn [y_err y_flush y_seq y_pc y_ret andb orb negb]. rewrite E. cbn [bind orb].
             eexists x', _, _. split; [reflexivity|]. split; [constructor; [split; reflexivity | exact A1]|]. split; [cbn [length]; lia|].
             right. right. exists O, t0, sqx. rewrite Nat.add_0_r. split; [reflexivity|]. split; [exact A4|]. split; [exact A5|].
             split; [constructor; [apply Hrst; lia | exact A3]|]. split; [exact A6 | exact A7].
  Qed.
  (* ---------------------------------------------------------------- *)
  (* the write units                                                    *)

  (* a write unit has taken the result of instruction k from the queue of the write bus *)
  Definition wu_took (x : mx) (k : nat) (q' : list wb6) : mx :=
    let m := set_wbus (x_m x) (mk_bb (bb_buf (m_wbus (x_m x))) q' (bb_ql (m_wbus (x_m x))) (bb_bl (m_wbus (x_m x)))) in
    let x1 := if RegisterChange (exeb k)
              then set_rats3 x (x_crat x) (rat_write tu0 (x_trat x) (Register (exeb k)) (sid k, RegisterValue (exeb k)))
              else x in
    set_m x1 (del_pending6 m (instr_ReadRegisters (ik k)) (instr_WriteRegisters (ik k))).

  Lemma wu_take_gen x wu k q' before : u_co wu = WNone -> bb_q (m_wbus (x_m x)) = wbq k :: q' ->
    (base <= k <= N)%nat -> (k < n)%nat -> before = -1 \/ sid k <= before ->
    wu_cycle3 x wu before = Ok (wu_took x k q', wu).
  Proof.
    intros Hco Hq H1 H2 Hb. destruct (flagsq k H1 H2) as (_ & Hm & _).
    unfold wu_cycle3, wu_took. rewrite Hco. unfold bb_get. rewrite Hq. cbn [Mvp63RefFwdDefs.wbq w_seq w_exe w_reads w_writes].
    assert (Hd : negb (before =? -1) && (before <? sid k) = false).
    { destruct Hb as [->|Hb]; [reflexivity|]. apply andb_false_iff. right. apply Z.ltb_ge. exact Hb. }
    rewrite Hd. destruct (RegisterChange (exeb k)); [reflexivity|]. rewrite Hm. reflexivity.
  Qed.

  Lemma WuFrame3_reflq x : WuFrame3 x x.
  Proof. constructor; reflexivity. Qed.
  Lemma WuFrame3_transq a b c : WuFrame3 a b -> WuFrame3 b c -> WuFrame3 a c.
  Proof. intros [] []. constructor; congruence. Qed.

  Lemma wu_took_frame x k q' : WuFrame3 x (wu_took x k q').
  Proof. unfold wu_took. destruct (RegisterChange (exeb k)); constructor; reflexivity. Qed.

  Lemma wu_took_q x k q' : bb_q (m_wbus (x_m (wu_took x k q'))) = q'.
  Proof. unfold wu_took. destruct (RegisterChange (exeb k)); reflexivity. Qed.

  Lemma TabOK_wb w crat trat : TabOK w crat trat -> (base <= w)%nat ->
    TabOK (S w) crat (if RegisterChange (exeb w) then rat_write tu0 trat (Register (exeb w)) (sid w, RegisterValue (exeb w)) else trat).
  Proof.
    intros H Hb. destruct (RegisterChange (exeb w)) eqn:E.
    - apply (tab_write app labels regs0 base Hrng Hlen0 Hx0); assumption.
    - apply (tab_nowrite app labels regs0 base); assumption.
  Qed.

  Theorem wu_take_okq dp d xe w pl pv x c q' : BIq dp d xe w pl pv x -> bb_q (m_wbus (x_m x)) = c :: q' ->
    c = wbq w /\ (base <= w <= N)%nat /\ (w < n)%nat /\ (w < xe)%nat /\ BIq dp d xe (S w) pl pv (wu_took x w q').
  Proof.
    intros HB Hq. pose proof HB as [[bi_ordw bi_ord0] bi_dn0 bi_xeN0 bi_ret0 bi_exec0 bi_ebus0 bi_wbus0 bi_pwlen0 bi_prlen0 bi_pw0 bi_pr0 bi_tab0 bi_fwd0 bi_seq0
      bi_pcb0 bi_chan0 bi_idnd0 bi_idlt0 bi_read0 bi_recv0 bi_fwder0 bi_rnd0 bi_rlt0 bi_pendr0 bi_pend10 bi_pendf0 bi_prev0 bi_prevnd0 bi_regs0 bi_mem0 bi_l30 bi_os0 bi_fnd0].
    fold n N in bi_dn0, bi_xeN0, bi_ret0.
    assert (Hfl : flat (m_wbus (x_m x)) = c :: q' ++ map snd (bb_buf (m_wbus (x_m x)))) by (unfold flat; rewrite Hq; reflexivity).
    rewrite bi_wbus0 in Hfl. destruct (xe - w)%nat as [|m] eqn:Em; [discriminate|]. cbn [seq map] in Hfl. injection Hfl as Hc Hrest.
    assert (Hwx : (w < xe)%nat) by lia.
    split; [symmetry; exact Hc|]. split; [lia|]. split; [lia|]. split; [exact Hwx|].
    (* the scoreboards *)
    assert (Hpw : forall p', p' = sb_decr (m_pw (x_m x)) (wrs w) -> length p' = 32%nat /\
               forall s, (s < 32)%nat -> nth s p' 0 = cnt wsl (seq (S w) (d - S w)) s).
    { intros p' ->. split; [rewrite sb_decr_length; exact bi_pwlen0|]. intros s Hs.
      replace (d - w)%nat with (S (d - S w)) in bi_pw0 by lia. cbn [seq cnt] in bi_pw0.
      rewrite sb_decr_nth; [rewrite bi_pw0 by exact Hs; unfold Mvp60RefSem.wsl, Mvp63RefDefs.wrs; lia | rewrite bi_pwlen0; exact Hs|].
      intros s' Hs'. rewrite bi_pwlen0 in Hs'. rewrite bi_pw0 by exact Hs'. pose proof (cnt_nonneg wsl (seq (S w) (d - S w)) s') as Hnn.
      unfold Mvp60RefSem.wsl, Mvp63RefDefs.wrs in Hnn |- *. lia. }
    assert (Hpr : forall p', p' = sb_decr (m_pr (x_m x)) (rds w) -> length p' = 32%nat /\
               forall s, (s < 32)%nat -> nth s p' 0 = cnt rsl (seq (S w) (d - S w)) s).
    { intros p' ->. split; [rewrite sb_decr_length; exact bi_prlen0|]. intros s Hs.
      replace (d - w)%nat with (S (d - S w)) in bi_pr0 by lia. cbn [seq cnt] in bi_pr0.
      rewrite sb_decr_nth; [rewrite bi_pr0 by exact Hs; unfold Mvp60RefSem.rsl, Mvp63RefDefs.rds; lia | rewrite bi_prlen0; exact Hs|].
      intros s' Hs'. rewrite bi_prlen0 in Hs'. rewrite bi_pr0 by exact Hs'. pose proof (cnt_nonneg rsl (seq (S w) (d - S w)) s') as Hnn.
      unfold Mvp60RefSem.rsl, Mvp63RefDefs.rds in Hnn |- *. lia. }
    destruct (Hpw _ eq_refl) as [Lw Cw]. destruct (Hpr _ eq_refl) as [Lr Cr].
    assert (Hread' : Forall (ReadOK (S w)) (flat (x_ebus x))).
    { eapply Forall_impl; [|exact bi_read0]. intros a Ha q Hq' Hqz. destruct (Ha q Hq' Hqz) as [A|A]; [left; exact A | right; intros j Hj; apply A; lia]. }
    assert (Hwb' : q' ++ map snd (bb_buf (m_wbus (x_m x))) = map wbq (seq (S w) (xe - S w))).
    { rewrite <- Hrest. f_equal. f_equal. lia. }
    pose proof (TabOK_wb w _ _ bi_tab0 ltac:(lia)) as Htab'.
    unfold wu_took. destruct (RegisterChange (exeb w)) eqn:Erc;
      constructor; cbn [x_ebus x_m x_crat x_trat x_fwd x_seq x_pcb x_chan x_next x_os set_rats3 set_m del_pending6 set_sb set_wbus
                        m_pw m_pr m_regs m_mem m_l3 m_wbus]; try assumption; try lia.
  Qed.

  Lemma wus_ok3q dp d xe pl pv : forall wus x w, Forall (fun u => u_co u = WNone) wus -> BIq dp d xe w pl pv x ->
    exists x', wus_cycle3 x wus (-1) = Ok (x', wus) /\
      BIq dp d xe (w + Nat.min (length wus) (length (bb_q (m_wbus (x_m x))))) pl pv x' /\ WuFrame3 x x' /\
      bb_q (m_wbus (x_m x')) = skipn (length wus) (bb_q (m_wbus (x_m x))).
  Proof.
    induction wus as [|u t IH]; intros x w Hw HB.
    - exists x. cbn [wus_cycle3 length Nat.min skipn]. rewrite Nat.add_0_r. split; [reflexivity|]. split; [exact HB|]. split; [constructor; reflexivity | reflexivity].
    - inversion Hw as [|? ? Hu Ht]; subst. cbn [wus_cycle3].
      destruct (bb_q (m_wbus (x_m x))) as [|c q'] eqn:Eq.
      + rewrite (wu_idle3q x u (-1) Hu Eq). cbn [bind fst snd].
        destruct (IH x w Ht HB) as (x' & E & A1 & A2 & A3). rewrite E. cbn [bind fst snd]. exists x'.
        rewrite Eq in *. cbn [length] in *. rewrite Nat.min_0_r in *. split; [reflexivity|]. split; [exact A1|]. split; [exact A2|].
        rewrite A3. destruct (length t); reflexivity.
      + destruct (wu_take_okq _ _ _ _ _ _ _ c q' HB Eq) as (Hc & Hr1 & Hr2 & Hr3 & HB1). subst c.
        rewrite (wu_take_gen x u w q' (-1) Hu Eq Hr1 Hr2 ltac:(left; reflexivity)). cbn [bind fst snd].
        destruct (IH (wu_took x w q') (S w) Ht HB1) as (x' & E & A1 & A2 & A3). rewrite E. cbn [bind fst snd]. exists x'.
        split; [reflexivity|]. rewrite wu_took_q in A1, A3. cbn [length Nat.min skipn].
        split; [replace (w + S (Nat.min (length t) (length q')))%nat with (S w + Nat.min (length t) (length q'))%nat by lia; exact A1|].
        split; [eapply WuFrame3_transq; [apply wu_took_frame | exact A2] | exact A3].
  Qed.
  (* the write units in the tick in which instruction E asked for a flush (before = the tag of E) *)
  Lemma wu_take_okf w E t sqx x c q' : FIq w E t sqx x -> bb_q (m_wbus (x_m x)) = c :: q' ->
    c = wbq w /\ (base <= w <= N)%nat /\ (w < n)%nat /\ (w <= E)%nat /\ FIq (S w) E t sqx (wu_took x w q').
  Proof.
    intros [(F1a & F1b & F1c & F1d) F2 F3 (j & junk & Fj & Fq & Fb & Fjk) F5 F6 F7 F8 F9 F10 F11 F12 F13] Hq.
    rewrite Hq in Fq. destruct j as [|j]; [discriminate|]. cbn [seq map] in Fq. injection Fq as Hc Hq'.
    split; [exact Hc|]. split; [lia|]. split; [lia|]. split; [lia|].
    pose proof (TabOK_wb w _ _ F5 ltac:(lia)) as Htab'.
    unfold wu_took. destruct (RegisterChange (exeb w)) eqn:Erc;
      constructor; cbn [x_ebus x_m x_crat x_trat x_fwd x_seq x_pcb x_chan x_next x_os set_rats3 set_m del_pending6 set_sb set_wbus
                        m_pw m_pr m_regs m_mem m_l3 m_wbus m_bu bb_q bb_buf]; try assumption; try lia;
      exists j, junk; (split; [lia|]); (split; [exact Hq'|]); (split; [|exact Fjk]);
      rewrite Fb; replace (S w + j)%nat with (w + S j)%nat by lia; reflexivity.
  Qed.

  Lemma wus_okf E t sqx : forall wus x w, Forall (fun u => u_co u = WNone) wus -> FIq w E t sqx x ->
    exists x', wus_cycle3 x wus (sid E) = Ok (x', wus) /\
      FIq (w + Nat.min (length wus) (length (bb_q (m_wbus (x_m x))))) E t sqx x' /\ WuFrame3 x x' /\
      bb_q (m_wbus (x_m x')) = skipn (length wus) (bb_q (m_wbus (x_m x))).
  Proof.
    induction wus as [|u t0 IH]; intros x w Hw HF.
    - exists x. cbn [wus_cycle3 length Nat.min skipn]. rewrite Nat.add_0_r. split; [reflexivity|]. split; [exact HF|]. split; [constructor; reflexivity | reflexivity].
    - inversion Hw as [|? ? Hu Ht]; subst. cbn [wus_cycle3].
      destruct (bb_q (m_wbus (x_m x))) as [|c q'] eqn:Eq.
      + rewrite (wu_idle3q x u (sid E) Hu Eq). cbn [bind fst snd].
        destruct (IH x w Ht HF) as (x' & E0 & A1 & A2 & A3). rewrite E0. cbn [bind fst snd]. exists x'.
        rewrite Eq in *. cbn [length] in *. rewrite Nat.min_0_r in *. split; [reflexivity|]. split; [exact A1|]. split; [exact A2|].
        rewrite A3. destruct (length t0); reflexivity.
      + destruct (wu_take_okf _ _ _ _ _ c q' HF Eq) as (Hc & Hr1 & Hr2 & Hr3 & HF1). subst c.
        rewrite (wu_take_gen x u w q' (sid E) Hu Eq Hr1 Hr2 ltac:(right; apply sid_le; exact Hr3)). cbn [bind fst snd].
        destruct (IH (wu_took x w q') (S w) Ht HF1) as (x' & E0 & A1 & A2 & A3). rewrite E0. cbn [bind fst snd]. exists x'.
        split; [reflexivity|]. rewrite wu_took_q in A1, A3. cbn [length Nat.min skipn].
        split; [replace (w + S (Nat.min (length t0) (length q')))%nat with (S w + Nat.min (length t0) (length q'))%nat by lia; exact A1|].
        split; [eapply WuFrame3_transq; [apply wu_took_frame | exact A2] | exact A3].
  Qed.
End FwdExec.

Print Assumptions head_operandsq.
Print Assumptions eu_head_gen.
Print Assumptions BIq_exec_plain.
Print Assumptions BIq_exec_ret.
Print Assumptions FIq_exec_flush.
Print Assumptions eu_shadowq.
Print Assumptions eus_after_flush.
Print Assumptions eus_main_q.
Print Assumptions wu_take_okq.
Print Assumptions wus_ok3q.
Print Assumptions wus_okf.
Print Assumptions eus_drain_idleq.
