(* MVP-7.1 (hooks71 of Mvp71.v) = MVP-7.0 (hooks70 of Mvp70.v), tick by tick, on SINGLE-ASSIGNMENT, register-only,
   straight-line programs (straight, reg_only, ssa, regs_ok of Mvp60RefDefs.v / Mvp63RefDefs.v) whose sequential
   run ends: every number of cores >= 1, every iteration order of Go's maps, every state with 32 int32 registers
   and x0 = 0, EVERY fuel.

   This closes THE GAP of Mvp70Sim63Mvp71.v.  The run invariant is the conjunction of
     SI   (Mvp70Sim63Loops.v)   the memory system of MVP-7.0 is idle, every runner is neither a load nor a store,
     SInv3 (Mvp63RefStep.v)     on the projected state st3_of s of MVP-6.3: the in-order pipeline invariant BI
                                (w <= xe <= d; transactionRAT = tv w: every tag is the pc of one of the first w
                                instructions; the execute bus holds the runners xe .. d-1; every unit is idle
                                between two ticks),
   kept along the run by step_sim (7.0 against 6.3) and step_normal3 / step_ret3 (6.3).  Per tick:
     front     front71_sim; the runners the control unit pushed are on the execute bus (bi_prev), hence NM;
     units     inside the loop over the execute units the invariant WB B is kept (eu_cycle70_WB): transactionRAT
               does not change (no conditional branch), no unit asks for a flush (PcChange = false: run_nobranch_pc),
               every tag of transactionRAT is <= B <= the sequence id of every queued runner (B = pc of instruction
               xe; sequenceID = 0, so SequenceID(pc) = pc); rd_agree71_newest then gives eu_cond71 for each unit;
     drain     after ret every unit is idle and is skipped whatever the hooks;
     final     the final loop finds nothing to do whatever the hooks.

   mvp71_ssa_straight_sim_mvp70     mvp71_run_os par ord fuel app labels st = mvp70_run_os par ord fuel app labels st
   mvp71_run_ssa_straight           transport of mvp70_run_ssa_straight (sequential registers and memory, ghost flag
                                    clear, fuel bound, one cycle more than MVP-6.3) *)
From Coq Require Import ZArith List Bool Lia.
From Maj Require Import Base.Outcome Base.GoInt Base.GoTypes Isa.Spec Isa.Embed Isa.Seq Isa.Refine.
From Maj Require Import Gen.Latency Gen.RiscTables Gen.Opcodes Comp.Cache Comp.Rat Comp.RatProofs.
From Maj Require Import Mvp.Mvp12 Mvp.Mvp12Proofs Mvp.Mvp3 Mvp.Mvp3Proofs Mvp.Mvp4Skel Mvp.Mvp4Inv Mvp.Mvp5 Mvp.Mvp60
     Mvp.Mvp60RefSem Mvp.Mvp60RefDefs Mvp.Mvp60RefFront Mvp.Mvp60RefBack Mvp.Mvp60RefStep Mvp.Mvp63 Mvp.Mvp70 Mvp.Mvp71.
From Maj Require Import Mvp.Mvp60Proofs Mvp.Mvp63Proofs Mvp.Mvp70Proofs Mvp.Mvp70Sim63Defs Mvp.Mvp70Sim63Loops Mvp.Mvp70Sim63Proofs
     Mvp.Mvp70Sim63Mvp71.
From Maj Require Import Mvp.Mvp63RefDefs Mvp.Mvp63RefInv Mvp.Mvp63RefExec Mvp.Mvp63RefStep Mvp.Mvp63RefProofs.
From Maj Require Mvp.Mvp62RefRel.
Import ListNotations.
Open Scope Z_scope.

(* ------------------------------------------------------------------ *)
(* 1. an instruction that is not a branch does not change the pc        *)
(* ------------------------------------------------------------------ *)

Lemma run_nobranch_pc : forall i rr labels pc mem sq exe,
  nomem i = true -> nobranch i = true -> instr_Run i rr labels pc mem sq = Ok exe -> PcChange exe = false.
Proof.
  intros i rr labels pc mem sq exe Hm Hn E. destruct i; try discriminate Hn; try discriminate Hm;
    cbv beta iota zeta delta [instr_Run] in E; autounfold with opcodes in E; cbv beta zeta in E;
    unfold IsRegisterChange in E;
    repeat match type of E with
           | context [if ?c then _ else _] => destruct c eqn:?
           | context [match ?x with _ => _ end] => destruct x eqn:?
           end; try discriminate E; inversion E; subst; reflexivity.
Qed.

Lemma trat_bu_assert3 : forall x r, x_trat (bu_assert3 x r) = x_trat x /\ x_ebus (bu_assert3 x r) = x_ebus x.
Proof.
  intros x r. unfold bu_assert3. cbv zeta.
  destruct (InstructionType_IsUnconditionalBranch _).
  - destruct (btb_get _ _); split; reflexivity.
  - destruct (InstructionType_IsConditionalBranch _); split; reflexivity.
Qed.

(* ------------------------------------------------------------------ *)
(* 2. the loop over the execute units                                   *)
(* ------------------------------------------------------------------ *)

Section Units.
  Variable NN : Prop.
  Variable app : list instr.
  Hypothesis Happ : reg_only app = true.
  Hypothesis Hnn : NN -> wregs_nonneg app = true.

  Notation NM := (NM NN).
  Notation INV := (INV NN).
  Notation EU := (EU NN).

  (* a queued runner: not older than B, not a branch *)
  Definition QR (B : Z) (r : runner3) : Prop := B <= q_seq r /\ nobranch (q_instr r) = true.

  (* no preference; every tag of transactionRAT <= B <= the sequence id of every runner in the queue of the execute bus *)
  Definition WB (B : Z) (w : w7) : Prop :=
    w_pref w = [] /\
    (forall reg v, rat_read tu0 (x_trat (w_x w)) reg = Some v -> fst v <= B) /\
    Forall (QR B) (bb_q (x_ebus (w_x w))).

  Lemma eu_run70_fr : forall labels ord cycle id w e w' e' o r,
    eu_run7 hooks70 labels ord cycle id w e = Ok (w', e', o) -> h_runner e = Some r -> NM r -> nobranch (q_instr r) = true ->
    w_pref w' = w_pref w /\ x_trat (w_x w') = x_trat (w_x w) /\ x_ebus (w_x w') = x_ebus (w_x w) /\ y_flush o = false.
  Proof.
    intros labels ord cycle id w e w' e' o r H ER HN HB. unfold eu_run7 in H. cbn [hooks70 k_rr] in H. cbv zeta in H. cbv beta iota in H.
    rewrite ER in H.
    destruct (instr_Run _ _ _ _ _ _) as [exe|er|] eqn:EX; [| |discriminate].
    2: { inversion H; subst. repeat split; reflexivity. }
    rewrite (nomem_no_change _ _ _ _ _ _ _ (proj1 HN) EX) in H.
    rewrite (run_nobranch_pc _ _ _ _ _ _ _ (proj1 HN) HB EX) in H.
    destruct (Return exe); [inversion H; subst; repeat split; reflexivity|].
    destruct (q_fwder r) as [ch|].
    - destruct (aget ch _); [discriminate|]. destruct (InstructionType_IsBranch _); [discriminate|].
      inversion H; subst. repeat split; reflexivity.
    - rewrite (nobranch_uncond _ HB), (nobranch_cond _ HB) in H. inversion H; subst. repeat split; reflexivity.
  Qed.

  Lemma eu_prepare70_fr : forall labels ord cycle id w e w' e' o r,
    eu_prepare7 hooks70 labels ord cycle id w e = Ok (w', e', o) -> h_runner e = Some r -> NM r -> nobranch (q_instr r) = true ->
    w_pref w' = w_pref w /\ x_trat (w_x w') = x_trat (w_x w) /\ x_ebus (w_x w') = x_ebus (w_x w) /\ y_flush o = false.
  Proof.
    intros labels ord cycle id w e w' e' o r H ER HN HB. unfold eu_prepare7 in H. cbv zeta in H.
    destruct (negb _); [inversion H; subst; repeat split; reflexivity|].
    rewrite ER in H. cbn [hooks70 k_rr] in H.
    destruct (q_recv r) as [ch|].
    - destruct (aget ch (x_chan (w_x w))) as [v|]; [|inversion H; subst; repeat split; reflexivity].
      cbv beta iota zeta in H. rewrite nomem_no_read in H by exact (proj1 HN).
      eapply eu_run70_fr in H; [|cbn [set_hco h_runner]; reflexivity|exact HN|exact HB].
      destruct H as (A & B & C & D). cbn [set_wx w_x w_pref] in A, B, C.
      destruct (trat_bu_assert3 (set_forward3 (set_chan3 (w_x w) (filter (fun p => negb (fst p =? ch)) (x_chan (w_x w)))) (q_pc r) (q_freg r) v)
                                (q_r r)) as [T1 T2].
      cbn [q_r] in B, C. rewrite T1 in B. rewrite T2 in C. repeat split; assumption.
    - cbv beta iota zeta in H. rewrite nomem_no_read in H by exact (proj1 HN).
      eapply eu_run70_fr in H; [|cbn [set_hco h_runner]; reflexivity|exact HN|exact HB].
      destruct H as (A & B & C & D). cbn [set_wx w_x w_pref] in A, B, C.
      destruct (trat_bu_assert3 (w_x w) (q_r r)) as [T1 T2].
      rewrite T1 in B. rewrite T2 in C. repeat split; assumption.
  Qed.

  (* an idle unit with sequence id 0 *)
  Lemma eu_cycle70_WB : forall labels ord cycle id B w e w' e' o,
    eu_cycle7 hooks70 labels ord cycle id w e = Ok (w', e', o) -> h_co e = HNone -> h_seq e = 0 -> INV w -> WB B w ->
    WB B w' /\ y_flush o = false.
  Proof.
    intros labels ord cycle id B w e w' e' o H HC HS HI (W1 & W2 & W3). unfold eu_cycle7 in H.
    assert (EP : eu_pre7 e = false) by (unfold eu_pre7; rewrite HS; reflexivity).
    rewrite EP, HC in H. cbn [hooks70 k_take] in H. unfold bb_get in H.
    destruct (bb_q (x_ebus (w_x w))) as [|r q'] eqn:EQ.
    - inversion H; subst. split; [|reflexivity]. split; [exact W1|]. split; [exact W2|]. rewrite EQ. exact W3.
    - assert (HN : NM r). { destruct HI as [_ (_ & _ & [_ P3] & _)]. rewrite EQ in P3. inversion P3; assumption. }
      inversion W3 as [|? ? [Q1 Q2] W3']; subst.
      eapply eu_prepare70_fr in H; [|cbn [h_runner]; reflexivity|exact HN|exact Q2].
      destruct H as (A & B' & C & D). cbn [set_wx w_x w_pref set_ebus3 x_trat x_ebus] in A, B', C.
      split; [|exact D]. split; [rewrite A; exact W1|]. split; [rewrite B'; exact W2|]. rewrite C. cbn [bb_q]. exact W3'.
  Qed.

  (* the conditions of eu_cycle71_sim *)
  Lemma WB_cond71 : forall B w e, INV w -> WB B w -> h_co e = HNone -> h_seq e = 0 -> eu_cond71 NN w e.
  Proof.
    intros B w e HI (W1 & W2 & W3) HC HS.
    assert (EP : eu_pre7 e = false) by (unfold eu_pre7; rewrite HS; reflexivity).
    split; [exact W1|]. split; [intros HP; rewrite EP in HP; discriminate HP|]. intros _. rewrite HC.
    intros r b' HG. unfold bb_get in HG. destruct (bb_q (x_ebus (w_x w))) as [|r0 q'] eqn:EQ; inversion HG; subst.
    assert (HN : NM r). { destruct HI as [_ (_ & _ & [_ P3] & _)]. rewrite EQ in P3. inversion P3; assumption. }
    split; [exact HN|]. inversion W3 as [|? ? [Q1 Q2] W3']; subst.
    intros x0 r1 EV. unfold recv3 in EV.
    destruct (q_recv r) as [ch|].
    - destruct (aget ch _) as [v|]; [|discriminate]. inversion EV; subst. apply rd_agree71_newest. intros reg v0 HV.
      rewrite (proj1 (trat_bu_assert3 _ _)) in HV. cbn [set_forward3 set_fwd3 set_chan3 set_ebus3 x_trat] in HV.
      unfold q_seq. cbn [q_r]. fold (q_seq r). specialize (W2 reg v0 HV). clear - W2 Q1. lia.
    - inversion EV; subst. apply rd_agree71_newest. intros reg v0 HV.
      rewrite (proj1 (trat_bu_assert3 _ _)) in HV. cbn [set_ebus3 x_trat] in HV.
      specialize (W2 reg v0 HV). clear - W2 Q1. lia.
  Qed.

  Lemma eus_main71_eq : forall labels ord cycle B eus id w acc,
    INV w -> WB B w -> Forall EU eus -> Forall (fun e => h_co e = HNone) eus -> y_seq acc = 0 ->
    eus_main7 hooks71 labels ord cycle id w eus acc = eus_main7 hooks70 labels ord cycle id w eus acc.
  Proof.
    intros labels ord cycle B. induction eus as [|e t IH]; intros id w acc HI HW HE HC HA; [reflexivity|].
    cbn [eus_main7]. cbv zeta. inversion HE as [|? ? HE1 HET]; subst. inversion HC as [|? ? HC1 HCT]; subst.
    rewrite HA.
    set (e0 := mk_eu7 (h_co e) (h_memory e) (h_runner e) 0 (h_cc e)).
    assert (HE0 : EU e0) by exact HE1.
    rewrite (eu_cycle71_sim NN labels ord cycle id w e0 (WB_cond71 B w e0 HI HW HC1 eq_refl)).
    destruct (eu_cycle7 hooks70 labels ord cycle id w e0) as [[[w1 e1] o]|er|] eqn:E1; [|reflexivity|reflexivity].
    cbn [bind].
    destruct (eu_cycle7_inv NN app Hnn _ _ _ _ _ _ _ _ _ E1 HI HE0) as [HI1 _].
    destruct (eu_cycle70_WB _ _ _ _ B _ _ _ _ _ E1 HC1 eq_refl HI HW) as [HW1 HF].
    destruct (y_err o); [reflexivity|].
    rewrite HF. cbn [andb]. match goal with
    | |- context [eus_main7 hooks71 labels ord cycle (id + 1) w1 t ?a] => rewrite (IH (id + 1) w1 a HI1 HW1 HET HCT eq_refl)
    end. reflexivity.
  Qed.

  (* the drain loop after ret and the final loop skip idle units whatever the hooks *)
  Lemma eus_drain7_idle_hk : forall hk labels ord cycle eus id w,
    Forall (fun e => h_co e = HNone) eus -> eus_drain7 hk labels ord cycle id w eus = Ok (w, eus, None).
  Proof.
    intros hk labels ord cycle. induction eus as [|e t IH]; intros id w HC; [reflexivity|].
    inversion HC as [|? ? HC1 HCT]; subst. cbn [eus_drain7]. unfold eu_empty7. rewrite HC1. rewrite (IH (id + 1) w HCT). reflexivity.
  Qed.
  Lemma eus_main70_WB : forall labels ord cycle B eus id w acc w' eus' o,
    eus_main7 hooks70 labels ord cycle id w eus acc = Ok (w', eus', o) ->
    INV w -> WB B w -> Forall EU eus -> Forall (fun e => h_co e = HNone) eus -> y_seq acc = 0 -> WB B w'.
  Proof.
    intros labels ord cycle B. induction eus as [|e t IH]; intros id w acc w' eus' o H HI HW HE HC HA; cbn [eus_main7] in H.
    - inversion H; subst. exact HW.
    - cbv zeta in H. inversion HE as [|? ? HE1 HET]; subst. inversion HC as [|? ? HC1 HCT]; subst.
      rewrite HA in H.
      set (e0 := mk_eu7 (h_co e) (h_memory e) (h_runner e) 0 (h_cc e)) in *.
      assert (HE0 : EU e0) by exact HE1.
      apply bind_ok in H as ([[w1 e1] o1] & E1 & H).
      destruct (eu_cycle7_inv NN app Hnn _ _ _ _ _ _ _ _ _ E1 HI HE0) as [HI1 _].
      destruct (eu_cycle70_WB _ _ _ _ B _ _ _ _ _ E1 HC1 eq_refl HI HW) as [HW1 HF].
      destruct (y_err o1).
      + inversion H; subst. exact HW1.
      + rewrite HF in H. cbn [andb] in H. apply bind_ok in H as ([[w2 t'] acc2] & E2 & H). inversion H; subst.
        eapply IH; [exact E2|exact HI1|exact HW1|exact HET|exact HCT|reflexivity].
  Qed.
End Units.

(* ------------------------------------------------------------------ *)
(* 3. one tick under the run invariant                                  *)
(* ------------------------------------------------------------------ *)

Lemma back7_pref : forall s cycle w eus1 o s', back7 s cycle (w, eus1, o) = UCont s' -> w_pref (v_w s') = w_pref w.
Proof.
  intros s cycle w eus1 o s'. unfold back7. destruct (y_err o); [discriminate|].
  destruct (wus_cycle7 _ _ _) as [[x wus1]|er|]; cbn [res_of7]; try discriminate.
  destruct (y_ret o).
  - unfold ret_check7. cbn [v_eus v_wus v_w v_cycle]. destruct (_ && _); intros H; inversion H; subst; reflexivity.
  - destruct (y_flush o); [intros H; inversion H; subst; reflexivity|].
    destruct (is_empty7 _ _ _); intros H; inversion H; subst; reflexivity.
Qed.

(* the final loop finds nothing to do whatever the hooks (step_final of Mvp70Sim63Loops.v with any hooks) *)
Lemma step_final_hk : forall NN hk app labels ord s, SI NN s -> v_mode s = QFinal ->
  step7 hk app labels ord s = UDone (finish7 ord (v_w s) (v_eus s) (v_cycle s + 1)) (v_os (v_w s)).
Proof.
  intros NN hk app labels ord s (HI & HE & HW & HF) HM. unfold step7. rewrite HM. cbv zeta.
  rewrite (snoops7_idle NN hk (v_eus s) 0 (v_w s) (proj1 HI) HE). cbn [res_of7 fst snd].
  rewrite (eus_final7_idle NN hk labels ord (v_cycle s + 1) (v_eus s) 0 (v_w s) HE (HF HM)). cbn [res_of7].
  assert (HQ : forallb (fun e => match c_snoop (h_cc e) with [] => true | _ => false end) (v_eus s) = true).
  { apply forallb_forall. intros e HIn. rewrite Forall_forall in HE. destruct (HE e HIn) as (_ & _ & (_ & _ & C & _)).
    rewrite C. reflexivity. }
  rewrite HQ. reflexivity.
Qed.

Section Tick.
  Variables (app : list instr) (labels : Z -> option Z) (regs0 mem0 : list Z) (ord : Z -> Z -> list Z -> list Z).
  Hypothesis Happ : wf_app app.
  Hypothesis Hstr : straight app = true.
  Hypothesis Hreg : reg_only app = true.
  Hypothesis Hssa : ssa app = true.
  Hypothesis Hrng : regs_ok app = true.
  Hypothesis Hlen0 : length regs0 = 32%nat.
  Hypothesis Hr32 : Forall int32 regs0.
  Hypothesis Hx0 : nth 0 regs0 0 = 0.
  Hypothesis Hsem : forall k, (0 <= k <= stop_from app 0)%nat -> (k < length app)%nat ->
    exec (sinstr_of (ik app k)) (rget (sreg app labels regs0 0 k)) labels (pcz k) [] = Ok (eff app labels regs0 0 k) /\
    (forall a, etarget (eff app labels regs0 0 k) = Some a -> exists t, a = pcz t /\ (k < t <= length app)%nat).

  Notation "'IE' L" := (L app labels regs0 mem0 ord Happ Hstr Hreg Hssa Hrng Hlen0 Hr32 Hx0 Hsem) (at level 10, L at level 9, only parsing).
  Notation BI := (BI app labels regs0 mem0).
  Notation G3 := (G3 app labels regs0 mem0).
  Notation GR3 := (GR3 app labels regs0 mem0).
  Notation SInv3 := (SInv3 app labels regs0 mem0).
  Notation SI := (SI True).
  Notation INV := (INV True).
  Notation EU := (EU True).

  Lemma Hnn71 : True -> wregs_nonneg app = true.
  Proof. intros _. exact (regs_ok_wregs_nonneg app Hrng). Qed.

  (* the invariant of MVP-6.3 is kept by a step that goes on *)
  Lemma SInv3_step : forall s s', SInv3 s -> step3 app labels ord s = TCont s' -> SInv3 s'.
  Proof.
    intros s s' [dp d c f xe w HG|w HG] E.
    - destruct (IE step_normal3 dp d c f xe w s HG) as [(s1 & dp' & d' & c' & f' & xe' & w' & Es & HG' & _)|[(r & Es & _)|(s1 & w' & Es & HG')]].
      + rewrite Es in E. inversion E; subst. eapply SI3_n. exact HG'.
      + rewrite Es in E. discriminate E.
      + rewrite Es in E. inversion E; subst. eapply SI3_r. exact HG'.
    - destruct (IE step_ret3 w s HG) as [(s1 & w' & Es & HG' & _)|(r & Es & _)].
      + rewrite Es in E. inversion E; subst. eapply SI3_r. exact HG'.
      + rewrite Es in E. discriminate E.
  Qed.

  (* the front end of a tick of the main loop: fetch, decode, control unit (first part of step_normal3) *)
  Lemma front_BI : forall dp d c f xe w s, G3 dp d c f xe w s ->
    exists fu1 l1i1 dbus1 x3 lp,
      let x0 := t_x s in let cy := t_cycle s + 1 in
      fu_cycle6 app cy (m_fu (x_m (connected3 x0 cy))) (m_l1i (x_m (connected3 x0 cy))) (m_dbus (x_m (connected3 x0 cy))) = Ok (fu1, l1i1, dbus1) /\
      du_cycle3 app cy (set_m (connected3 x0 cy) (set_dbus (set_l1i (set_fu (x_m (connected3 x0 cy)) fu1) l1i1) dbus1)) = Ok x3 /\
      BI d (d + lp) xe w (x_pend (cu_cycle3 ord cy x3)) (x_prev (cu_cycle3 ord cy x3)) (cu_cycle3 ord cy x3).
  Proof.
    intros dp d c f xe w s [GF Gcu GB Gbe Geb Ge Gw Gwne Glen Gwq Gwb Gwb2 Gcyc Gmode].
    set (x0 := t_x s) in *. set (cyc := t_cycle s) in *.
    set (D := (d + length (x_pend x0))%nat) in *.
    destruct (IE conn3_ok D c f cyc x0 GF Gbe) as (C1 & CE & C3 & C4 & C5 & C6 & C6' & C7 & _).
    set (x1 := connected3 x0 (cyc + 1)) in *.
    assert (HB1 : BI dp d xe w (x_pend x0) (x_prev x0) x1).
    { eapply BI_ext; [| | | | | | | | | | | | | | |exact GB]; try reflexivity; assumption. }
    destruct (IE fd_ok3 D c f cyc x1 C1 (bi_seq _ _ _ _ _ _ _ _ _ _ _ HB1) (bi_fwd _ _ _ _ _ _ _ _ _ _ _ HB1))
      as (fu1 & l1i1 & dbus1 & m3 & c' & f' & Efu & Efd & F3 & R1 & R2 & R3 & R4 & R5 & R6 & R7 & R8 & R9 & _).
    set (x3 := set_m x1 m3) in *.
    assert (HB3 : BI dp d xe w (x_pend x3) (x_prev x3) x3).
    { eapply BI_ext; [| | | | | | | | | | | | | | |exact HB1]; try reflexivity; cbn [x3 x_m set_m]; congruence. }
    assert (Hcu3 : m_cu (x_m x3) = []) by (cbn [x3 x_m set_m]; rewrite R8, C7; exact Gcu).
    assert (HE3 : BusOK (cyc + 1) (x_ebus x3)) by (eapply busok_mono; [|exact CE]; lia).
    destruct (cu_cycle_ok app labels regs0 mem0 ord Hstr Hssa Hrng Hlen0 Hsem (cyc + 1) dp d xe w c' f' x3 HB3 F3 Hcu3 HE3)
      as (lp & HB4 & _).
    exists fu1, l1i1, dbus1, x3, lp. cbv zeta. split; [exact Efu|]. split; [exact Efd|]. exact HB4.
  Qed.

  (* BI gives the invariant of the loop over the units with B = the pc of the oldest instruction not yet executed *)
  Lemma BI_WB : forall dp d xe w pl pv x wv, BI dp d xe w pl pv x -> w_x wv = x -> w_pref wv = [] -> WB (pcz xe) wv.
  Proof.
    intros dp d xe w pl pv x wv HB Ex Ep. subst x. split; [exact Ep|]. split.
    - intros reg v HV. rewrite (bi_trat _ _ _ _ _ _ _ _ _ _ _ HB) in HV.
      assert (HJ : exists j, (j < w)%nat /\ fst v = pcz j).
      { clear - HV. induction w as [|k IH]; cbn [tv] in HV; [discriminate|].
        destruct (_ && _); [inversion HV; subst; exists k; split; [lia|reflexivity]|].
        destruct (IH HV) as (j & A & B). exists j. split; [lia|exact B]. }
      destruct HJ as (j & A & B). rewrite B. pose proof (bi_ord _ _ _ _ _ _ _ _ _ _ _ HB) as Ho. unfold pcz. clear - A Ho. lia.
    - apply Forall_forall. intros r Hr.
      assert (Hin : In r (flat (x_ebus (w_x wv)))) by (unfold flat; apply in_or_app; left; exact Hr).
      pose proof (bi_ebus _ _ _ _ _ _ _ _ _ _ _ HB) as HE. apply (in_map q_r) in Hin. rewrite HE in Hin.
      apply in_map_iff in Hin as (k & Ek & Hk). apply in_seq in Hk.
      split.
      + unfold q_seq. rewrite <- Ek. cbn [Mvp60RefFront.rn r_seq]. unfold pcz. clear - Hk. lia.
      + unfold q_instr. rewrite <- Ek. cbn [Mvp60RefFront.rn r_instr]. apply (ik_nobr app Hstr).
  Qed.

  Lemma idle_of : forall eus, Forall EU eus -> Forall EuIdle (map eu_of eus) -> Forall (fun e => h_co e = HNone) eus.
  Proof.
    intros eus HE Ge. apply Forall_forall. intros e He. rewrite Forall_forall in Ge.
    destruct (Ge (eu_of e) (in_map eu_of _ _ He)) as [Hco _].
    rewrite Forall_forall in HE. destruct (HE e He) as ([A|A] & _); [exact A|].
    unfold eu_of in Hco. cbn [g_co] in Hco. rewrite A in Hco. discriminate Hco.
  Qed.

  (* the main loop *)
  Lemma tick_normal : forall dp d c f xe wb w eus wus cyc,
    SI (mk_st7 w eus wus cyc QNormal) -> w_pref w = [] -> G3 dp d c f xe wb (st3_of (mk_st7 w eus wus cyc QNormal)) ->
    step7 hooks71 app labels ord (mk_st7 w eus wus cyc QNormal) = step7 hooks70 app labels ord (mk_st7 w eus wus cyc QNormal) /\
    (forall s', step7 hooks70 app labels ord (mk_st7 w eus wus cyc QNormal) = UCont s' -> w_pref (v_w s') = []).
  Proof.
    intros dp d c f xe wb w eus wus cyc (HI & HE & HW & _) HP HG. cbn [v_w v_eus v_wus] in HI, HE, HW.
    destruct (front_BI _ _ _ _ _ _ _ HG) as (fu1 & l1i1 & dbus1 & x3 & lp & Efu & Efd & HB4). cbv zeta in Efu, Efd, HB4.
    cbn [st3_of t_x t_cycle v_w v_cycle] in Efu, Efd, HB4.
    set (x4 := cu_cycle3 ord (cyc + 1) x3) in *.
    assert (Efront : front3 app ord (cyc + 1) (w_x w) = Ok x4) by (rewrite front3_eq, Efu, Efd; reflexivity).
    assert (HP4 : PX True x4) by (eapply (front3_px True app Hreg Hnn71); [exact Efront|exact (proj2 HI)]).
    assert (HI4 : INV (set_wx w x4)) by (apply INV_set_wx; assumption).
    assert (HW4 : WB (pcz xe) (set_wx w x4)) by (eapply BI_WB; [exact HB4|reflexivity|exact HP]).
    assert (HC : Forall (fun e => h_co e = HNone) eus).
    { apply idle_of; [exact HE|]. exact (g3_eus _ _ _ _ _ _ _ _ _ _ _ HG). }
    assert (EK0 : k_front hooks70 app ord (cyc + 1) w = Ok (set_wx w x4)) by (cbn [hooks70 k_front]; rewrite Efront; reflexivity).
    assert (EK : k_front hooks71 app ord (cyc + 1) w = Ok (set_wx w x4)).
    { rewrite (front71_sim True app ord (cyc + 1) w); [exact EK0| |].
      - rewrite (proj1 HI). reflexivity.
      - intros fu1' l1i1' dbus1' x1' EF ED. rewrite Efu in EF. inversion EF; subst fu1' l1i1' dbus1'.
        rewrite Efd in ED. inversion ED; subst x1'. fold x4.
        apply Forall_forall. intros p Hp. destruct (bi_prev _ _ _ _ _ _ _ _ _ _ _ HB4 p Hp) as (Hin & _).
        destruct HP4 as (_ & _ & [P3a P3b] & _). unfold flat in Hin. apply in_app_or in Hin as [Hin|Hin].
        + rewrite Forall_forall in P3b. apply P3b. exact Hin.
        + apply in_map_iff in Hin as (y & Ey & Hy). subst p. rewrite Forall_forall in P3a. exact (P3a y Hy). }
    assert (E70 : step7 hooks70 app labels ord (mk_st7 w eus wus cyc QNormal) =
                  res_of7 (v_os (set_wx w x4)) (eus_main7 hooks70 labels ord (cyc + 1) 0 (set_wx w x4) eus yo_none)
                          (back7 (mk_st7 w eus wus cyc QNormal) (cyc + 1))).
    { unfold step7. cbn [v_w v_eus v_wus v_cycle v_mode]. cbv zeta. rewrite EK0. cbn [res_of7].
      rewrite (snoops7_idle True hooks70 eus 0 (set_wx w x4) (proj1 HI4) HE). reflexivity. }
    assert (E71 : step7 hooks71 app labels ord (mk_st7 w eus wus cyc QNormal) =
                  res_of7 (v_os (set_wx w x4)) (eus_main7 hooks71 labels ord (cyc + 1) 0 (set_wx w x4) eus yo_none)
                          (back7 (mk_st7 w eus wus cyc QNormal) (cyc + 1))).
    { unfold step7. cbn [v_w v_eus v_wus v_cycle v_mode]. cbv zeta. rewrite EK. cbn [res_of7].
      rewrite (snoops7_idle True hooks71 eus 0 (set_wx w x4) (proj1 HI4) HE). reflexivity. }
    split.
    - rewrite E70, E71.
      rewrite (eus_main71_eq True app Hnn71 labels ord (cyc + 1) (pcz xe) eus 0 (set_wx w x4) yo_none HI4 HW4 HE HC eq_refl). reflexivity.
    - intros s' H. rewrite E70 in H.
      destruct (eus_main7 hooks70 labels ord (cyc + 1) 0 (set_wx w x4) eus yo_none) as [[[w2 eus1] o]|er|] eqn:EM;
        cbn [res_of7] in H; try discriminate H.
      apply back7_pref in H. rewrite H.
      exact (proj1 (eus_main70_WB True app Hnn71 _ _ _ _ _ _ _ _ _ _ _ EM HI4 HW4 HE HC eq_refl)).
  Qed.

  (* the drain loop after ret *)
  Lemma tick_ret : forall wb w eus wus cyc,
    SI (mk_st7 w eus wus cyc QRet) -> w_pref w = [] -> GR3 wb (st3_of (mk_st7 w eus wus cyc QRet)) ->
    step7 hooks71 app labels ord (mk_st7 w eus wus cyc QRet) = step7 hooks70 app labels ord (mk_st7 w eus wus cyc QRet) /\
    (forall s', step7 hooks70 app labels ord (mk_st7 w eus wus cyc QRet) = UCont s' -> w_pref (v_w s') = []).
  Proof.
    intros wb w eus wus cyc (HI & HE & HW & _) HP HG. cbn [v_w v_eus v_wus] in HI, HE, HW.
    assert (HC : Forall (fun e => h_co e = HNone) eus).
    { apply idle_of; [exact HE|]. exact (r3_eus _ _ _ _ _ _ HG). }
    assert (EH : forall hk, step7 hk app labels ord (mk_st7 w eus wus cyc QRet) =
                   res_of7 (v_os w) (wus_cycle7 (w_x w) wus (-1)) (fun r =>
                     let '(x2, wus1) := r in
                     ret_check7 (mk_st7 (w_connect7 (set_wx w x2) (cyc + 1)) eus wus1 (cyc + 1) QRet))).
    { intros hk. unfold step7. cbn [v_w v_eus v_wus v_cycle v_mode]. cbv zeta.
      rewrite (snoops7_idle True hk eus 0 w (proj1 HI) HE). cbn [res_of7 fst snd].
      rewrite (eus_drain7_idle_hk hk labels ord cyc eus 0 w HC). cbn [res_of7]. reflexivity. }
    split; [rewrite !EH; reflexivity|].
    intros s' H. rewrite EH in H.
    destruct (wus_cycle7 (w_x w) wus (-1)) as [[x2 wus1]|er|]; cbn [res_of7] in H; try discriminate H.
    unfold ret_check7 in H. cbn [v_eus v_wus v_w v_cycle] in H.
    destruct (_ && _) in H; inversion H; subst; exact HP.
  Qed.

  (* the run invariant *)
  Definition CI (s : st7) : Prop :=
    SI s /\ w_pref (v_w s) = [] /\ (v_mode s = QFinal \/ SInv3 (st3_of s)).

  Theorem tick71 : forall s, CI s ->
    step7 hooks71 app labels ord s = step7 hooks70 app labels ord s /\
    (forall s', step7 hooks70 app labels ord s = UCont s' -> CI s').
  Proof.
    intros s (HS & HP & HM).
    destruct (v_mode s) eqn:EM.
    5: { rewrite (step_final_hk True hooks71 app labels ord s HS EM), (step_final_hk True hooks70 app labels ord s HS EM).
         split; [reflexivity|intros s' H; discriminate H]. }
    all: destruct HM as [HM|HM]; [discriminate HM|].
    all: assert (HNF : v_mode s <> QFinal) by (rewrite EM; discriminate).
    all: destruct (step_sim True app Hreg Hnn71 labels ord s HS HNF) as [E3 HR].
    all: assert (HCI : forall s', step7 hooks70 app labels ord s = UCont s' -> w_pref (v_w s') = [] -> CI s')
           by (intros s' H HP'; rewrite H in E3, HR; cbn [proj_res res_SI] in E3, HR;
               split; [exact HR|]; split; [exact HP'|];
               destruct (v_mode s') eqn:EM'; [right| right| right| right| left; reflexivity];
               exact (SInv3_step _ _ HM E3)).
    - destruct s as [w eus wus cyc md]. cbn [v_mode] in EM. subst md.
      destruct HM as [dp d c f xe wb HG|wb HG]; [|pose proof (r3_mode _ _ _ _ _ _ HG) as X; discriminate X].
      destruct (tick_normal dp d c f xe wb w eus wus cyc HS HP HG) as [A B].
      split; [exact A|]. intros s' H. apply HCI; [exact H|exact (B s' H)].
    - destruct s as [w eus wus cyc md]. cbn [v_mode] in EM. subst md.
      destruct HM as [dp d c f xe wb HG|wb HG]; [pose proof (g3_mode _ _ _ _ _ _ _ _ _ _ _ HG) as X; discriminate X|].
      destruct (tick_ret wb w eus wus cyc HS HP HG) as [A B].
      split; [exact A|]. intros s' H. apply HCI; [exact H|exact (B s' H)].
    - exfalso. destruct HM as [dp d c f xe wb HG|wb HG].
      + pose proof (g3_mode _ _ _ _ _ _ _ _ _ _ _ HG) as X. unfold st3_of in X. cbn [t_mode] in X. rewrite EM in X. discriminate X.
      + pose proof (r3_mode _ _ _ _ _ _ HG) as X. unfold st3_of in X. cbn [t_mode] in X. rewrite EM in X. discriminate X.
    - exfalso. destruct HM as [dp d c f xe wb HG|wb HG].
      + pose proof (g3_mode _ _ _ _ _ _ _ _ _ _ _ HG) as X. unfold st3_of in X. cbn [t_mode] in X. rewrite EM in X. discriminate X.
      + pose proof (r3_mode _ _ _ _ _ _ HG) as X. unfold st3_of in X. cbn [t_mode] in X. rewrite EM in X. discriminate X.
  Qed.

  (* the two runs coincide from every state of the invariant, for every fuel *)
  Theorem run71_eq : forall fuel s, CI s -> run7_st hooks71 fuel app labels ord s = run7_st hooks70 fuel app labels ord s.
  Proof.
    induction fuel as [|f IH]; intros s HC; [reflexivity|].
    cbn [run7_st]. destruct (tick71 s HC) as [E HN]. rewrite E.
    destruct (step7 hooks70 app labels ord s) as [r os|s1]; [reflexivity|]. apply IH. apply HN. reflexivity.
  Qed.
End Tick.

(* ------------------------------------------------------------------ *)
(* 4. the theorems                                                      *)
(* ------------------------------------------------------------------ *)

Section Straight71.
  Variables (app : list instr) (labels : Z -> option Z).
  Hypothesis Happ : wf_app app.
  Hypothesis Hstr : straight app = true.
  Hypothesis Hreg : reg_only app = true.
  Hypothesis Hssa : ssa app = true.
  Hypothesis Hrng : regs_ok app = true.

  Variables (par : nat) (fuel : nat) (st st' : arch) (tr : list Z).
  Hypothesis Hpar : (1 <= par)%nat.
  Hypothesis Hr32 : Forall int32 (regs st).
  Hypothesis Hlen : length (regs st) = 32%nat.
  Hypothesis Hx0 : nth 0 (regs st) 0 = 0.
  Hypothesis Hrun : seq_run fuel (map sinstr_of app) labels st = Done st' tr.

  (* NewCPU establishes the run invariant *)
  Lemma init71_CI : forall ord s7, init7 par ord app st = Ok s7 -> CI app labels (regs st) (mem st) s7.
  Proof.
    intros ord s7 E7. destruct (init_sim True _ _ _ _ _ E7) as (E3 & HS & HM).
    destruct (init3_G3 app labels ord par st Hpar Hlen Hr32) as (s0 & E0 & HG & _).
    rewrite E0 in E3. inversion E3; subst s0.
    split; [exact HS|]. split; [|right; eapply SI3_n; exact HG].
    unfold init7 in E7. destruct (init3 par ord app st) as [s3| |]; try discriminate E7.
    destruct (new_cache l1LineSize l1Size) as [l1d| |]; try discriminate E7. inversion E7; subst. reflexivity.
  Qed.

  (* MVP-7.1 = MVP-7.0 on single-assignment register-only straight-line programs whose sequential run ends: every
     number of cores, every order of Go's maps, EVERY fuel (results, cycle counts, ghost flags; also the runs that
     exhaust their fuel) *)
  Theorem mvp71_ssa_straight_sim_mvp70 : forall ord fuel',
    mvp71_run_os par ord fuel' app labels st = mvp70_run_os par ord fuel' app labels st.
  Proof.
    intros ord fuel'. unfold mvp71_run_os, mvp70_run_os.
    destruct (init7 par ord app st) as [s7| |] eqn:E7; [|reflexivity|reflexivity].
    rewrite (run71_eq app labels (regs st) (mem st) ord Happ Hstr Hreg Hssa Hrng Hlen Hr32 Hx0
               (hsem63 app labels Hstr Hreg par fuel st st' tr Hpar Hr32 Hlen Hrun) fuel' s7 (init71_CI ord s7 E7)).
    reflexivity.
  Qed.

  (* transport of mvp70_run_ssa_straight *)
  Theorem mvp71_run_ssa_straight ord :
    exists c, (forall fuel', (fuel_bound70 (length app) <= fuel')%nat -> mvp71_run_os par ord fuel' app labels st = (MDone c st', false)) /\
              Z.of_nat (length tr) + 2 <= 2 * c /\
              (forall fuel', (fuel_bound70 (length app) <= fuel')%nat -> mvp70_run_os par ord fuel' app labels st = (MDone c st', false)) /\
              (forall fuel', (fuel_bound63 (length app) <= fuel')%nat -> mvp63_run_os par ord fuel' app labels st = (MDone (c - 1) st', false)).
  Proof.
    destruct (mvp70_run_ssa_straight app labels Happ Hstr Hreg Hssa Hrng par fuel st st' tr Hpar Hr32 Hlen Hx0 Hrun ord) as (c & H & Hb & H3).
    exists c. split; [|split; [exact Hb|split; [exact H|exact H3]]].
    intros fuel' Hf. rewrite mvp71_ssa_straight_sim_mvp70. apply H. exact Hf.
  Qed.

  Theorem mvp71_refines_seq_ssa_straight ord :
    exists c, forall fuel', (fuel_bound70 (length app) <= fuel')%nat -> mvp71_run par ord fuel' app labels st = MDone c st'.
  Proof. destruct (mvp71_run_ssa_straight ord) as (c & H & _). exists c. intros fuel' Hf. unfold mvp71_run. rewrite (H fuel' Hf). reflexivity. Qed.

  Theorem mvp71_ghost_clear_ssa_straight ord fuel' : (fuel_bound70 (length app) <= fuel')%nat ->
    snd (mvp71_run_os par ord fuel' app labels st) = false.
  Proof. intros Hf. destruct (mvp71_run_ssa_straight ord) as (c & H & _). rewrite (H fuel' Hf). reflexivity. Qed.

  Theorem mvp71_terminates_ssa_straight ord :
    exists c, mvp71_run par ord (fuel_bound70 (length app)) app labels st = MDone c st' /\ (Z.of_nat (length tr) + 1) / 2 + 1 <= c.
  Proof.
    destruct (mvp71_run_ssa_straight ord) as (c & H1 & H2 & _). exists c. unfold mvp71_run. rewrite (H1 _ (le_n _)). split; [reflexivity|].
    clear - H2. lia.
  Qed.

  Corollary mvp71_no_panic_ssa_straight ord fuel' : (fuel_bound70 (length app) <= fuel')%nat ->
    mvp71_run par ord fuel' app labels st <> MPanic /\ mvp71_run par ord fuel' app labels st <> MOutOfFuel /\
    (forall e, mvp71_run par ord fuel' app labels st <> MErr e).
  Proof.
    intros Hf. destruct (mvp71_refines_seq_ssa_straight ord) as (c & Hc). rewrite (Hc fuel' Hf). repeat split; try discriminate.
  Qed.
End Straight71.

(* the 14-instruction example of Mvp63RefProofs.v: at every number of cores, for EVERY order function, every fuel *)
Corollary mvp71_ssa_example_sim par ord fuel : (1 <= par)%nat ->
  mvp71_run_os par ord fuel (map instr_of ex63_prog) no_labels zero32 =
  mvp70_run_os par ord fuel (map instr_of ex63_prog) no_labels zero32.
Proof.
  intros Hpar. destruct (mvp70_ssa_example_any par ord Hpar) as (c & st' & Hs & _).
  assert (Hwf : wf_app (map instr_of ex63_prog)) by (split; [|vm_compute; reflexivity]; unfold ex63_prog; cbn [map]; repeat constructor; vm_compute; discriminate).
  assert (H1 : straight (map instr_of ex63_prog) = true) by (vm_compute; reflexivity).
  assert (H2 : reg_only (map instr_of ex63_prog) = true) by (vm_compute; reflexivity).
  assert (H3 : ssa (map instr_of ex63_prog) = true) by (vm_compute; reflexivity).
  assert (H4 : regs_ok (map instr_of ex63_prog) = true) by (vm_compute; reflexivity).
  assert (H5 : Forall int32 (regs zero32)) by (unfold zero32; cbn [regs repeat]; repeat constructor; vm_compute; discriminate).
  assert (H6 : length (regs zero32) = 32%nat) by reflexivity.
  assert (H7 : nth 0 (regs zero32) 0 = 0) by reflexivity.
  exact (mvp71_ssa_straight_sim_mvp70 (map instr_of ex63_prog) no_labels Hwf H1 H2 H3 H4 par 100%nat zero32 st' _ Hpar H5 H6 H7 Hs ord fuel).
Qed.

Corollary mvp71_ssa_example_any par ord : (1 <= par)%nat ->
  exists c st', seq_run 100 (map sinstr_of (map instr_of ex63_prog)) no_labels zero32 = Done st' (rev (map (fun k => 4 * Z.of_nat k) (seq 0 14))) /\
    (forall fuel, (fuel_bound70 14 <= fuel)%nat -> mvp71_run_os par ord fuel (map instr_of ex63_prog) no_labels zero32 = (MDone c st', false)) /\
    rget (regs st') 18 = 251 /\ 8 <= c.
Proof.
  intros Hpar. destruct (mvp70_ssa_example_any par ord Hpar) as (c & st' & Hs & Hc & R18 & Hb).
  exists c, st'. split; [exact Hs|]. split; [|split; [exact R18|exact Hb]].
  intros fuel Hf. rewrite (mvp71_ssa_example_sim par ord fuel Hpar). apply Hc. exact Hf.
Qed.

(* the same example by computation, 1..4 cores, both orders *)
Example mvp71_ssa_example : forall par, In par [1; 2; 3; 4]%nat ->
  mvp71_run_os par ord_asc 3001 (map instr_of ex63_prog) no_labels zero32 =
  mvp70_run_os par ord_asc 3001 (map instr_of ex63_prog) no_labels zero32 /\
  mvp71_run_os par ord_desc 3001 (map instr_of ex63_prog) no_labels zero32 =
  mvp70_run_os par ord_desc 3001 (map instr_of ex63_prog) no_labels zero32 /\
  fst (mvp71_run_os par ord_asc 3001 (map instr_of ex63_prog) no_labels zero32) <> MOutOfFuel.
Proof. intros par [<-|[<-|[<-|[<-|[]]]]]; (split; [vm_compute; reflexivity|split; [vm_compute; reflexivity|vm_compute; discriminate]]). Qed.

Print Assumptions run_nobranch_pc.
Print Assumptions eus_main71_eq.
Print Assumptions tick71.
Print Assumptions run71_eq.
Print Assumptions mvp71_ssa_straight_sim_mvp70.
Print Assumptions mvp71_run_ssa_straight.
Print Assumptions mvp71_terminates_ssa_straight.
Print Assumptions mvp71_no_panic_ssa_straight.
Print Assumptions mvp71_ssa_example_sim.
Print Assumptions mvp71_ssa_example_any.
Print Assumptions mvp71_ssa_example.
