(* Soundness of the ghost flag of the model of MVP-8.0, part 3: cache operations of snoop closures on different lines
   commute (a piece of step (ii) of Mvp80OrdSnoop.v, section 5).

   evict_evict_comm: EvictCacheLine(a) and EvictCacheLine(b) on one cache commute - the same cache, the same two
   results, a panic in one order is a panic in the other - provided no line of the cache covers both a and b (true of the
   L1s and of the L3 of MVP-8.0 for two different aligned addresses: their lines are aligned and disjoint).  This is
   what two l1Evict closures (on the L1 of their core), and two l3Evict closures (on the L3), do to the caches. *)
From Coq Require Import ZArith List Bool Lia.
From Maj Require Import Base.Outcome Base.GoInt Base.GoTypes Comp.Cache.
Import ListNotations.
Open Scope Z_scope.

Definition covers (l : line) (a : Z) : bool := (lo l <=? a) && (a <? hi l).

(* EvictCacheLine on the list of lines *)
Definition evl (ls : list line) (a : Z) : outcome (list line * option (list Z)) :=
  r <- find_line ls a ;;
  match r with
  | Some (_, l, rest) => Ok (rest, Some (data l))
  | None => Ok (ls, None)
  end.

Lemma evict_cache_line_evl : forall c a,
  evict_cache_line c a = r <- evl (lines c) a ;; Ok (set_lines c (fst r), snd r).
Proof.
  intros [n ll ls] a. unfold evict_cache_line, evl. cbn [lines].
  destruct (find_line ls a) as [[[[v l] rest]|]| |]; reflexivity.
Qed.

Lemma evl_cons : forall l t a,
  evl (l :: t) a =
  if covers l a then v <- idx_get (data l) (subS 32 a (lo l)) ;; Ok (t, Some (data l))
  else r <- evl t a ;; Ok (l :: fst r, snd r).
Proof.
  intros l t a. unfold evl. cbn [find_line]. unfold line_get. fold (covers l a).
  destruct (covers l a).
  - destruct (idx_get _ _); reflexivity.
  - cbn [bind]. destruct (find_line t a) as [[[[v l'] rest]|]| |]; reflexivity.
Qed.

Lemma idx_get_no_err : forall d i e, idx_get d i <> Err e.
Proof. intros d i e. unfold idx_get. destruct (_ && _); discriminate. Qed.

Lemma evl_no_err : forall ls a e, evl ls a <> Err e.
Proof.
  induction ls as [|l t IH]; intros a e; [discriminate|].
  rewrite evl_cons. destruct (covers l a).
  - destruct (idx_get _ _) eqn:E; try discriminate. exfalso. eapply idx_get_no_err; eauto.
  - destruct (evl t a) eqn:E; try discriminate. exfalso. eapply IH; eauto.
Qed.

(* evict a then b: the lines left, what a returned, what b returned *)
Definition ev2 (ls : list line) (a b : Z) : outcome (list line * option (list Z) * option (list Z)) :=
  r1 <- evl ls a ;; r2 <- evl (fst r1) b ;; Ok (fst r2, snd r1, snd r2).

Definition swap23 {A B C} (r : A * B * C) : A * C * B := (fst (fst r), snd r, snd (fst r)).

Theorem evl_evl_comm : forall ls a b,
  (forall l, In l ls -> covers l a && covers l b = false) ->
  ev2 ls a b = omap swap23 (ev2 ls b a).
Proof.
  induction ls as [|l t IH]; intros a b H; [reflexivity|].
  assert (Ht : forall l0, In l0 t -> covers l0 a && covers l0 b = false) by (intros; apply H; right; assumption).
  specialize (IH a b Ht). pose proof (H l (or_introl eq_refl)) as Hl.
  unfold ev2 in *. rewrite !evl_cons.
  destruct (covers l a) eqn:Ca, (covers l b) eqn:Cb; cbn [andb] in Hl; try discriminate.
  - (* the head covers a only *)
    destruct (idx_get (data l) (subS 32 a (lo l))) as [v| e |] eqn:EI; cbn [bind fst snd].
    + destruct (evl t b) as [[t' o]| e |] eqn:EB; cbn [bind fst snd omap]; try reflexivity.
      rewrite evl_cons, Ca, EI. reflexivity.
    + exfalso. eapply idx_get_no_err; eauto.
    + destruct (evl t b) as [[t' o]| e |] eqn:EB; cbn [bind fst snd omap]; try reflexivity.
      * rewrite evl_cons, Ca, EI. reflexivity.
      * exfalso. eapply evl_no_err; eauto.
  - (* the head covers b only *)
    destruct (idx_get (data l) (subS 32 b (lo l))) as [v| e |] eqn:EI; cbn [bind fst snd].
    + destruct (evl t a) as [[t' o]| e |] eqn:EA; cbn [bind fst snd omap]; try reflexivity.
      rewrite evl_cons, Cb, EI. reflexivity.
    + exfalso. eapply idx_get_no_err; eauto.
    + destruct (evl t a) as [[t' o]| e |] eqn:EA; cbn [bind fst snd omap]; try reflexivity.
      * rewrite evl_cons, Cb, EI. reflexivity.
      * exfalso. eapply evl_no_err; eauto.
  - (* the head covers neither *)
    destruct (evl t a) as [[ta oa]| e |] eqn:EA; cbn [bind fst snd] in *.
    + rewrite evl_cons, Cb.
      destruct (evl t b) as [[tb ob]| e |] eqn:EB; cbn [bind fst snd omap] in *.
      * rewrite evl_cons, Ca.
        destruct (evl ta b) as [[tab ob']| e |] eqn:EAB; cbn [bind fst snd omap] in *;
        destruct (evl tb a) as [[tba oa']| e' |] eqn:EBA; cbn [bind fst snd omap] in *;
          try discriminate IH; try reflexivity; inversion IH; subst; reflexivity.
      * exfalso. eapply evl_no_err; eauto.
      * destruct (evl ta b) as [[tab ob']| e |] eqn:EAB; cbn [bind fst snd omap] in *; try discriminate IH; try reflexivity; inversion IH; subst; reflexivity.
    + exfalso. eapply evl_no_err; eauto.
    + destruct (evl t b) as [[tb ob]| e |] eqn:EB; cbn [bind fst snd omap] in *; try reflexivity.
      * rewrite evl_cons, Ca.
        destruct (evl tb a) as [[tba oa']| e' |] eqn:EBA; cbn [bind fst snd omap] in *; try discriminate IH; try reflexivity; inversion IH; subst; reflexivity.
      * exfalso. eapply evl_no_err; eauto.
Qed.

(* EvictCacheLine(a); EvictCacheLine(b) on a cache *)
Definition evict2 (c : cache) (a b : Z) : outcome (cache * option (list Z) * option (list Z)) :=
  r1 <- evict_cache_line c a ;; r2 <- evict_cache_line (fst r1) b ;; Ok (fst r2, snd r1, snd r2).

Theorem evict_evict_comm : forall c a b,
  (forall l, In l (lines c) -> covers l a && covers l b = false) ->
  evict2 c a b = omap swap23 (evict2 c b a).
Proof.
  intros c a b H. pose proof (evl_evl_comm (lines c) a b H) as E. unfold ev2, evict2 in *.
  rewrite !evict_cache_line_evl.
  destruct (evl (lines c) a) as [[ta oa]| e |] eqn:EA; cbn [bind fst snd] in *;
  destruct (evl (lines c) b) as [[tb ob]| e' |] eqn:EB; cbn [bind fst snd omap] in *;
    rewrite ?evict_cache_line_evl; cbn [lines set_lines];
    try (exfalso; eapply evl_no_err; eauto; fail).
  - destruct (evl ta b) as [[tab ob']| e |] eqn:EAB; cbn [bind fst snd omap] in *;
    destruct (evl tb a) as [[tba oa']| e' |] eqn:EBA; cbn [bind fst snd omap] in *; try discriminate E; try reflexivity; inversion E; subst; reflexivity.
  - destruct (evl ta b) as [[tab ob']| e |] eqn:EAB; cbn [bind fst snd omap] in *; try discriminate E; try reflexivity; inversion E; subst; reflexivity.
  - destruct (evl tb a) as [[tba oa']| e |] eqn:EBA; cbn [bind fst snd omap] in *; try discriminate E; try reflexivity; inversion E; subst; reflexivity.
  - reflexivity.
Qed.

Print Assumptions evict_evict_comm.
