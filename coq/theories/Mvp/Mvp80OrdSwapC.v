(* Soundness of the ghost flag of the model of MVP-8.0, part 6 (C): an l1WriteBack closure of address a and an L3
   closure (l3Evict / l3WriteBack) of address b on a DIFFERENT L3 line commute (sn_swap_stmt of Mvp80OrdCommDefs.v).

   Plan: on well-formed caches find_line is a pure function (fc: the first covering line, rm: the list without it);
   the closures are rewritten into a closed form over fc / rm / wpure (write_to_memory at a non-negative address);
   frame lemmas: fc / rm for b are not disturbed by removing, moving to the front or rewriting the line of a when no
   line covers both; two write_to_memory on disjoint ranges commute; the directory: cmd_done commutes literally with
   the updates of l3Lock / l3Write, two cmd_done by cmd_done_comm, two updates of l3Write at different keys up to aget. *)
From Coq Require Import ZArith List Bool Lia.
From Maj Require Import Base.Outcome Base.GoInt Base.GoTypes Isa.Spec Isa.Seq.
From Maj Require Import Gen.Latency Gen.RiscTables Gen.Opcodes Comp.Cache Comp.Rat Mvp.Mvp12 Mvp.Mvp3 Mvp.Mvp5 Mvp.Mvp60 Mvp.Mvp63 Mvp.Mvp80.
From Maj Require Import Mvp.Mvp80OrdSnoop Mvp.Mvp80OrdCache Mvp.Mvp80OrdInvDefs Mvp.Mvp80OrdCommDefs.
Import ListNotations.
Open Scope Z_scope.

(* ------------------------------------------------------------------ *)
(* 1. find_line on a well-formed list of lines                          *)
(* ------------------------------------------------------------------ *)

Lemma p31 : 2^31 = 2147483648. Proof. reflexivity. Qed.
Lemma p32 : 2^32 = 4294967296. Proof. reflexivity. Qed.

Lemma wrapS32 : forall x, wrapS 32 x = (x + 2147483648) mod 4294967296 - 2147483648.
Proof. intros x. unfold wrapS. change (32 - 1) with 31. rewrite p31, p32. reflexivity. Qed.

(* a covering line of a well-formed cache really contains the address *)
Lemma covers_range : forall n l a, 0 < n < 2^31 -> wf_line n l -> covers l a = true ->
  lo l <= a < lo l + n /\ 0 <= a < 2^31.
Proof.
  intros n l a Hn (L & R & H & D) C. unfold covers in C. apply andb_true_iff in C. destruct C as [C1 C2].
  apply Z.leb_le in C1. apply Z.ltb_lt in C2. rewrite H in C2. unfold addS in C2. rewrite wrapS32 in C2.
  rewrite p31 in *. lia.
Qed.

Definition fv (l : line) (a : Z) : Z := nth (Z.to_nat (subS 32 a (lo l))) (data l) 0.

Lemma line_get_wf : forall n l a, 0 < n < 2^31 -> wf_line n l ->
  line_get l a = Ok (if covers l a then Some (fv l a) else None).
Proof.
  intros n l a Hn W. unfold line_get. fold (covers l a). destruct (covers l a) eqn:C; [|reflexivity].
  destruct (covers_range n l a Hn W C) as [R1 R2]. destruct W as (L & R & H & D).
  unfold idx_get. rewrite D.
  assert (E : subS 32 a (lo l) = a - lo l).
  { unfold subS. rewrite wrapS32. rewrite p31 in *. lia. }
  rewrite E.
  assert (B : (0 <=? a - lo l) && (a - lo l <? n) = true).
  { apply andb_true_iff. split; [apply Z.leb_le | apply Z.ltb_lt]; lia. }
  rewrite B. cbn [bind]. unfold fv. rewrite E. reflexivity.
Qed.

(* the first line covering a; the list without it *)
Fixpoint fc (ls : list line) (a : Z) : option line :=
  match ls with [] => None | l :: t => if covers l a then Some l else fc t a end.
Fixpoint rm (ls : list line) (a : Z) : list line :=
  match ls with [] => [] | l :: t => if covers l a then t else l :: rm t a end.

Lemma find_line_wf : forall n ls a, 0 < n < 2^31 -> Forall (wf_line n) ls ->
  find_line ls a = Ok (match fc ls a with Some l => Some (fv l a, l, rm ls a) | None => None end).
Proof.
  intros n ls a Hn. induction ls as [|l t IH]; intros W; [reflexivity|].
  inversion W as [|? ? W1 W2]; subst. cbn [find_line fc rm].
  rewrite (line_get_wf n l a Hn W1). destruct (covers l a); cbn [bind]; [reflexivity|].
  rewrite (IH W2). cbn [bind]. destruct (fc t a); reflexivity.
Qed.

Lemma fc_In : forall ls a l, fc ls a = Some l -> In l ls /\ covers l a = true.
Proof.
  induction ls as [|x t IH]; intros a l H; [discriminate|]. cbn [fc] in H.
  destruct (covers x a) eqn:C.
  - inversion H; subst. split; [left; reflexivity | exact C].
  - destruct (IH a l H) as [I1 I2]. split; [right; exact I1 | exact I2].
Qed.

Lemma rm_incl : forall ls a l, In l (rm ls a) -> In l ls.
Proof.
  induction ls as [|x t IH]; intros a l H; [exact H|]. cbn [rm] in H. destruct (covers x a).
  - right; exact H.
  - destruct H as [H|H]; [left; exact H | right; eapply IH; eauto].
Qed.

Lemma Forall_rm : forall (P : line -> Prop) ls a, Forall P ls -> Forall P (rm ls a).
Proof. intros P ls a H. rewrite Forall_forall in *. intros l I. apply H. eapply rm_incl; eauto. Qed.

Lemma Forall_fc : forall (P : line -> Prop) ls a l, Forall P ls -> fc ls a = Some l -> P l.
Proof. intros P ls a l H E. rewrite Forall_forall in H. apply H. eapply fc_In; eauto. Qed.

(* frame: no line covers both a and b *)
Definition nb (ls : list line) (a b : Z) : Prop := forall l, In l ls -> covers l a && covers l b = false.

Lemma nb_sym : forall ls a b, nb ls a b -> nb ls b a.
Proof. intros ls a b H l I. rewrite andb_comm. apply H; exact I. Qed.

Lemma nb_tail : forall l t a b, nb (l :: t) a b -> nb t a b.
Proof. intros l t a b H x I. apply H. right; exact I. Qed.

Lemma fc_rm : forall ls a b, nb ls a b -> fc (rm ls b) a = fc ls a.
Proof.
  induction ls as [|l t IH]; intros a b H; [reflexivity|].
  pose proof (H l (or_introl eq_refl)) as Hl. cbn [rm fc].
  destruct (covers l b) eqn:Cb.
  - destruct (covers l a); [discriminate Hl | reflexivity].
  - cbn [fc]. destruct (covers l a); [reflexivity|]. apply IH. eapply nb_tail; eauto.
Qed.

Lemma rm_rm : forall ls a b, nb ls a b -> rm (rm ls b) a = rm (rm ls a) b.
Proof.
  induction ls as [|l t IH]; intros a b H; [reflexivity|].
  pose proof (H l (or_introl eq_refl)) as Hl. cbn [rm].
  destruct (covers l b) eqn:Cb, (covers l a) eqn:Ca; cbn [andb] in Hl; try discriminate Hl; cbn [rm]; rewrite ?Ca, ?Cb; try reflexivity.
  f_equal. apply IH. eapply nb_tail; eauto.
Qed.

Lemma fc_cons_nc : forall l t b, covers l b = false -> fc (l :: t) b = fc t b.
Proof. intros l t b C. cbn [fc]. rewrite C. reflexivity. Qed.

Lemma rm_cons_nc : forall l t b, covers l b = false -> rm (l :: t) b = l :: rm t b.
Proof. intros l t b C. cbn [rm]. rewrite C. reflexivity. Qed.

Lemma fc_nb_nc : forall ls a b l, nb ls a b -> fc ls a = Some l -> covers l b = false.
Proof.
  intros ls a b l H E. destruct (fc_In ls a l E) as [I C]. specialize (H l I). rewrite C in H. exact H.
Qed.

(* ------------------------------------------------------------------ *)
(* 2. the cache operations in closed form                               *)
(* ------------------------------------------------------------------ *)

Lemma get_wf : forall n c a, 0 < n < 2^31 -> Forall (wf_line n) (lines c) ->
  get c a = Ok (match fc (lines c) a with
                | Some l => (set_lines c (l :: rm (lines c) a), Some (fv l a))
                | None => (c, None) end).
Proof. intros n c a Hn W. unfold get. rewrite (find_line_wf n _ a Hn W). cbn [bind]. destruct (fc _ _); reflexivity. Qed.

Lemma get_cache_line_wf : forall n c a, 0 < n < 2^31 -> Forall (wf_line n) (lines c) ->
  get_cache_line c a = Ok (match fc (lines c) a with Some l => Some (data l) | None => None end).
Proof. intros n c a Hn W. unfold get_cache_line. rewrite (find_line_wf n _ a Hn W). cbn [bind]. destruct (fc _ _); reflexivity. Qed.

Lemma evict_cache_line_wf : forall n c a, 0 < n < 2^31 -> Forall (wf_line n) (lines c) ->
  evict_cache_line c a = Ok (match fc (lines c) a with
                             | Some l => (set_lines c (rm (lines c) a), Some (data l))
                             | None => (c, None) end).
Proof. intros n c a Hn W. unfold evict_cache_line. rewrite (find_line_wf n _ a Hn W). cbn [bind]. destruct (fc _ _); reflexivity. Qed.

Lemma write_front_wf : forall n c l t a vs, 0 < n < 2^31 -> wf_line n l -> covers l a = true -> lines c = l :: t ->
  write c a vs = d <- set_bytes (data l) (lo l) a 0 vs ;; Ok (set_lines c (mkLine (lo l) (hi l) d :: t)).
Proof.
  intros n c l t a vs Hn W C E. unfold write. rewrite E. cbn [write_lines].
  rewrite (line_get_wf n l a Hn W), C. cbn [bind].
  destruct (set_bytes _ _ _ _ _); reflexivity.
Qed.

Lemma upd_length : forall d n v, length (Cache.upd d n v) = length d.
Proof. induction d as [|x t IH]; intros [|n] v; cbn [Cache.upd length]; auto. Qed.

Lemma set_bytes_len : forall vs d lo_ a i d', set_bytes d lo_ a i vs = Ok d' -> zlen d' = zlen d.
Proof.
  induction vs as [|v t IH]; intros d lo_ a i d' H; cbn [set_bytes] in H.
  - inversion H; reflexivity.
  - unfold idx_set in H. destruct (_ && _); [|discriminate H]. cbn [bind] in H.
    rewrite (IH _ _ _ _ _ H). unfold zlen. rewrite upd_length. reflexivity.
Qed.

Lemma set_bytes_no_err : forall vs d lo_ a i e, set_bytes d lo_ a i vs <> Err e.
Proof.
  induction vs as [|v t IH]; intros d lo_ a i e; cbn [set_bytes]; [discriminate|].
  unfold idx_set. destruct (_ && _); cbn [bind]; [apply IH | discriminate].
Qed.

Lemma wf_line_mod : forall n l d, wf_line n l -> zlen d = zlen (data l) -> wf_line n (mkLine (lo l) (hi l) d).
Proof. intros n l d (A & B & C & D) E. unfold wf_line. cbn [lo hi data]. rewrite E. auto. Qed.

(* ------------------------------------------------------------------ *)
(* 3. write_to_memory                                                   *)
(* ------------------------------------------------------------------ *)

Fixpoint wpure (mem : list Z) (addr : Z) (d : list Z) : list Z :=
  match d with
  | [] => mem
  | v :: t => if Z.of_nat (length mem) <=? addr then mem else wpure (mset mem addr v) (addr + 1) t
  end.

Lemma write_to_memory_wpure : forall d mem a, 0 <= a -> write_to_memory mem a d = Ok (wpure mem a d).
Proof.
  induction d as [|v t IH]; intros mem a Ha; [reflexivity|]. cbn [write_to_memory wpure].
  destruct (Z.of_nat (length mem) <=? a); [reflexivity|].
  assert (E : a <? 0 = false) by (apply Z.ltb_ge; lia). rewrite E. apply IH. lia.
Qed.

Lemma supd_len : forall (l : list Z) n v, length (Seq.upd l n v) = length l.
Proof. induction l as [|x t IH]; intros [|n] v; cbn [Seq.upd length]; auto. Qed.

Lemma supd_comm : forall (l : list Z) n m v u, n <> m -> Seq.upd (Seq.upd l n v) m u = Seq.upd (Seq.upd l m u) n v.
Proof.
  induction l as [|x t IH]; intros [|n] [|m] v u H; cbn [Seq.upd]; try reflexivity; try congruence.
  f_equal. apply IH. congruence.
Qed.

Lemma mset_len : forall m a v, length (mset m a v) = length m.
Proof. intros. apply supd_len. Qed.

Lemma mset_comm : forall m a b v u, 0 <= a -> 0 <= b -> a <> b -> mset (mset m a v) b u = mset (mset m b u) a v.
Proof. intros m a b v u Ha Hb H. unfold mset. apply supd_comm. lia. Qed.

Lemma wpure_len : forall d m a, length (wpure m a d) = length m.
Proof.
  induction d as [|v t IH]; intros m a; [reflexivity|]. cbn [wpure].
  destruct (_ <=? _); [reflexivity|]. rewrite IH. apply mset_len.
Qed.

Lemma mset_wpure : forall e m a v b, 0 <= a -> 0 <= b -> (a < b \/ b + zlen e <= a) ->
  mset (wpure m b e) a v = wpure (mset m a v) b e.
Proof.
  induction e as [|u t IH]; intros m a v b Ha Hb H; [reflexivity|]. cbn [wpure]. rewrite mset_len.
  destruct (Z.of_nat (length m) <=? b); [reflexivity|].
  assert (Z : zlen (u :: t) = zlen t + 1) by (unfold zlen; cbn [length]; lia).
  assert (Zt : 0 <= zlen t) by (unfold zlen; lia).
  rewrite IH; [|lia|lia|lia]. rewrite (mset_comm m a b v u); [reflexivity|lia|lia|lia].
Qed.

Lemma wpure_comm_lt : forall d m a e b, 0 <= a -> 0 <= b -> a + zlen d <= b ->
  wpure (wpure m a d) b e = wpure (wpure m b e) a d.
Proof.
  induction d as [|v t IH]; intros m a e b Ha Hb H; [reflexivity|]. cbn [wpure]. rewrite wpure_len.
  destruct (Z.of_nat (length m) <=? a); [reflexivity|].
  assert (Z : zlen (v :: t) = zlen t + 1) by (unfold zlen; cbn [length]; lia).
  assert (Zt : 0 <= zlen t) by (unfold zlen; lia).
  rewrite IH; [|lia|lia|lia]. rewrite mset_wpure; [reflexivity|lia|lia|lia].
Qed.

Lemma wpure_comm : forall d m a e b, 0 <= a -> 0 <= b -> (a + zlen d <= b \/ b + zlen e <= a) ->
  wpure (wpure m a d) b e = wpure (wpure m b e) a d.
Proof.
  intros d m a e b Ha Hb [H|H]; [apply wpure_comm_lt; assumption|].
  symmetry. apply wpure_comm_lt; assumption.
Qed.

(* ------------------------------------------------------------------ *)
(* 4. alignment                                                         *)
(* ------------------------------------------------------------------ *)

Lemma covers_l3_align : forall l a, wf_line 128 l -> covers l a = true -> l3_align a = lo l.
Proof.
  intros l a W C. assert (Hn : 0 < 128 < 2^31) by (rewrite p31; lia).
  destruct (covers_range 128 l a Hn W C) as [R1 R2]. destruct W as (L & R & H & D).
  unfold l3_align, align8, l3LineSize8, subS, remS. rewrite wrapS32. rewrite p31 in *.
  rewrite Z.rem_mod_nonneg in * by lia. lia.
Qed.

Lemma nb_l3 : forall ls a b, Forall (wf_line 128) ls -> l3_align a <> l3_align b -> nb ls a b.
Proof.
  intros ls a b W H l I. rewrite Forall_forall in W. specialize (W l I).
  destruct (covers l a) eqn:Ca, (covers l b) eqn:Cb; try reflexivity.
  exfalso. apply H. rewrite (covers_l3_align l a W Ca), (covers_l3_align l b W Cb). reflexivity.
Qed.

Lemma ranges_disj : forall a b, 0 <= a < 2^31 -> 0 <= b < 2^31 ->
  l1_align a = a -> l3_align b = b -> l3_align a <> l3_align b -> a + 64 <= b \/ b + 128 <= a.
Proof.
  intros a b Ha Hb. unfold l1_align, l3_align, align8, l1dLineSize, l3LineSize8, subS, remS.
  rewrite !wrapS32. rewrite p31 in *. rewrite !Z.rem_mod_nonneg by lia. intros A B N. lia.
Qed.

(* ------------------------------------------------------------------ *)
(* 5. the directory                                                     *)
(* ------------------------------------------------------------------ *)

Lemma aget_aset : forall (A : Type) (m : list (Z * A)) x y v,
  aget x (aset y v m) = if x =? y then Some v else aget x m.
Proof.
  induction m as [|[k' a'] t IH]; intros x y v; [reflexivity|]. cbn [aset aget].
  destruct (y =? k') eqn:E; cbn [aget].
  - apply Z.eqb_eq in E. subst k'. destruct (x =? y); reflexivity.
  - rewrite IH. destruct (x =? k') eqn:E2; [|reflexivity].
    apply Z.eqb_eq in E2. subst k'. rewrite Z.eqb_sym, E. reflexivity.
Qed.

Lemma cmd_done_setlock : forall k b v key cid, cmd_done (l3_setlock k b v) key cid = l3_setlock (cmd_done k key cid) b v.
Proof. intros. unfold cmd_done, l3_setlock. destruct (_ || _); reflexivity. Qed.

Lemma cmd_done_setwrite : forall k m key cid, cmd_done (set_l3write k m) key cid = set_l3write (cmd_done k key cid) m.
Proof. intros. unfold cmd_done. destruct (_ || _); reflexivity. Qed.

Lemma setwrite_setlock : forall k b v m, set_l3write (l3_setlock k b v) m = l3_setlock (set_l3write k m) b v.
Proof. reflexivity. Qed.

Lemma setwrite_setwrite : forall k m m', set_l3write (set_l3write k m) m' = set_l3write k m'.
Proof. reflexivity. Qed.

Lemma l3write_setlock : forall k b v, k_l3write (l3_setlock k b v) = k_l3write k.
Proof. reflexivity. Qed.

Lemma l3write_cmd_done : forall k key cid, k_l3write (cmd_done k key cid) = k_l3write k.
Proof. intros. unfold cmd_done. destruct (_ || _); reflexivity. Qed.

Lemma l3write_setwrite : forall k m, k_l3write (set_l3write k m) = m.
Proof. reflexivity. Qed.

Lemma l3_locked_cmd_done : forall k key cid b, l3_locked (cmd_done k key cid) b = l3_locked k b.
Proof. intros. unfold cmd_done, l3_locked. destruct (_ || _); reflexivity. Qed.

Lemma l3_locked_setwrite : forall k m b, l3_locked (set_l3write k m) b = l3_locked k b.
Proof. reflexivity. Qed.

Global Hint Rewrite cmd_done_setlock cmd_done_setwrite setwrite_setlock setwrite_setwrite
  l3write_setlock l3write_cmd_done l3write_setwrite : msin.

Lemma msi_cong : forall K K' M M' b v,
  msi_equiv K K' -> (forall x, aget x M = aget x M') ->
  msi_equiv (l3_setlock (set_l3write K M) b v) (l3_setlock (set_l3write K' M') b v).
Proof.
  intros K K' M M' b v (A & B & C & D & E & F & G & H) HM. unfold msi_equiv, l3_setlock.
  cbn [set_l3lock set_l3write k_sems k_states k_stale k_cmds k_done k_next k_l3lock k_l3write].
  repeat split; auto.
  intros x. rewrite !aget_aset. destruct (x =? l3_align b); auto.
Qed.

Lemma aset_swap : forall (m : list (Z * bool)) p q u v x, p <> q ->
  aget x (aset p u (aset q v m)) = aget x (aset q v (aset p u m)).
Proof.
  intros m p q u v x H. rewrite !aget_aset.
  destruct (x =? p) eqn:E1, (x =? q) eqn:E2; try reflexivity.
  apply Z.eqb_eq in E1. apply Z.eqb_eq in E2. congruence.
Qed.

(* ------------------------------------------------------------------ *)
(* 6. the closures in closed form                                       *)
(* ------------------------------------------------------------------ *)

Lemma n64 : 0 < 64 < 2^31. Proof. rewrite p31; lia. Qed.
Lemma n128 : 0 < 128 < 2^31. Proof. rewrite p31; lia. Qed.

Lemma sn_step_W1 : forall mem l3 k c key cid c1 c2 c3,
  Forall (wf_line 64) (lines (c_l1d c)) -> Forall (wf_line 128) (lines l3) ->
  sn_step (mk_mw mem l3 k) c (SnL1WriteBack key cid c1 c2 c3) =
  if 0 <? c1 then Ok (mk_mw mem l3 k, c, Some (SnL1WriteBack key cid (c1 - 1) c2 c3)) else
  match fc (lines (c_l1d c)) (ck_addr key) with
  | None => Panic
  | Some l1 =>
    match fc (lines l3) (ck_addr key) with
    | None =>
        if 0 <? c2 then Ok (mk_mw mem l3 k, c, Some (SnL1WriteBack key cid c1 (c2 - 1) c3)) else
        Ok (mk_mw (wpure mem (ck_addr key) (data l1)) l3 (cmd_done k key cid),
            set_l1d c (set_lines (c_l1d c) (rm (lines (c_l1d c)) (ck_addr key))), None)
    | Some l =>
        if 0 <? c3 then Ok (mk_mw mem (set_lines l3 (l :: rm (lines l3) (ck_addr key))) k, c,
                            Some (SnL1WriteBack key cid c1 c2 (c3 - 1))) else
        d <- set_bytes (data l) (lo l) (ck_addr key) 0 (data l1) ;;
        Ok (mk_mw mem (set_lines l3 (mkLine (lo l) (hi l) d :: rm (lines l3) (ck_addr key)))
                  (cmd_done (set_l3write k (aset (l3_align (ck_addr key)) true (k_l3write k))) key cid),
            set_l1d c (set_lines (c_l1d c) (rm (lines (c_l1d c)) (ck_addr key))), None)
    end
  end.
Proof.
  intros mem l3 k c key cid c1 c2 c3 W1 W3. unfold sn_step. cbn [w_mem w_l3 w_msi].
  destruct (0 <? c1); [reflexivity|].
  rewrite (get_cache_line_wf 64 _ _ n64 W1).
  destruct (fc (lines (c_l1d c)) (ck_addr key)) as [l1|] eqn:F1; cbn [bind]; [|reflexivity].
  destruct (fc_In _ _ _ F1) as [I1 C1].
  assert (WL1 : wf_line 64 l1) by (eapply Forall_fc; eauto).
  destruct (covers_range 64 l1 _ n64 WL1 C1) as [_ [A0 _]].
  rewrite (get_wf 128 _ _ n128 W3).
  destruct (fc (lines l3) (ck_addr key)) as [l|] eqn:F3; cbn [bind].
  - destruct (0 <? c3); [reflexivity|].
    destruct (fc_In _ _ _ F3) as [I3 C3].
    assert (WL : wf_line 128 l) by (eapply Forall_fc; eauto).
    unfold cc_write_l3. cbn [set_wl3 w_mem w_l3 w_msi].
    rewrite (write_front_wf 128 (set_lines l3 (l :: rm (lines l3) (ck_addr key))) l (rm (lines l3) (ck_addr key)) _ _ n128 WL C3 eq_refl).
    destruct (set_bytes _ _ _ _ _) as [d| |]; cbn [bind]; try reflexivity.
    rewrite (evict_cache_line_wf 64 _ _ n64 W1), F1. cbn [bind snd fst]. reflexivity.
  - destruct (0 <? c2); [reflexivity|].
    rewrite (write_to_memory_wpure _ _ _ A0). cbn [bind].
    rewrite (evict_cache_line_wf 64 _ _ n64 W1), F1. cbn [bind snd fst]. reflexivity.
Qed.

Lemma sn_step_E3 : forall mem l3 k c key cid,
  Forall (wf_line 128) (lines l3) ->
  sn_step (mk_mw mem l3 k) c (SnL3Evict key cid) =
  if negb (l3_locked k (ck_addr key))
  then Ok (mk_mw mem l3 (l3_setlock k (ck_addr key) true), c, Some (SnL3Evict key cid)) else
  Ok (mk_mw mem (match fc (lines l3) (ck_addr key) with
                 | Some _ => set_lines l3 (rm (lines l3) (ck_addr key)) | None => l3 end)
            (l3_setlock (cmd_done (set_l3write k (aset (ck_addr key) false (k_l3write k))) key cid) (ck_addr key) false),
      c, None).
Proof.
  intros mem l3 k c key cid W3. unfold sn_step. cbn [w_mem w_l3 w_msi set_wmsi].
  destruct (negb _); [reflexivity|].
  rewrite (evict_cache_line_wf 128 _ _ n128 W3). cbn [bind]. destruct (fc _ _); reflexivity.
Qed.

Lemma sn_step_W3 : forall mem l3 k c key cid n,
  Forall (wf_line 128) (lines l3) ->
  sn_step (mk_mw mem l3 k) c (SnL3WriteBack key cid n) =
  if 0 <? n then Ok (mk_mw mem l3 k, c, Some (SnL3WriteBack key cid (n - 1))) else
  if negb (l3_locked k (ck_addr key))
  then Ok (mk_mw mem l3 (l3_setlock k (ck_addr key) true), c, Some (SnL3WriteBack key cid n)) else
  match fc (lines l3) (ck_addr key) with
  | None => Panic
  | Some l' =>
      Ok (mk_mw (wpure mem (ck_addr key) (data l')) (set_lines l3 (rm (lines l3) (ck_addr key)))
                (l3_setlock (cmd_done (set_l3write k (aset (ck_addr key) false (k_l3write k))) key cid) (ck_addr key) false),
          c, None)
  end.
Proof.
  intros mem l3 k c key cid n W3. unfold sn_step. cbn [w_mem w_l3 w_msi set_wmsi].
  destruct (0 <? n); [reflexivity|]. destruct (negb _); [reflexivity|].
  rewrite (get_cache_line_wf 128 _ _ n128 W3).
  destruct (fc (lines l3) (ck_addr key)) as [l'|] eqn:F; cbn [bind]; [|reflexivity].
  destruct (fc_In _ _ _ F) as [I C].
  assert (WL : wf_line 128 l') by (eapply Forall_fc; eauto).
  destruct (covers_range 128 l' _ n128 WL C) as [_ [A0 _]].
  rewrite (write_to_memory_wpure _ _ _ A0). cbn [bind].
  rewrite (evict_cache_line_wf 128 _ _ n128 W3), F. cbn [bind snd fst]. reflexivity.
Qed.

(* ------------------------------------------------------------------ *)
(* 7. the two pairs                                                     *)
(* ------------------------------------------------------------------ *)

Lemma conflict_W1_L3 : forall k1 k2,
  ck_req k1 = rq_l1WriteBack -> (ck_req k2 = rq_l3Evict \/ ck_req k2 = rq_l3WriteBack) ->
  sn_conflict k1 k2 = false -> l3_align (ck_addr k1) <> l3_align (ck_addr k2).
Proof.
  intros k1 k2 H1 H2 H. unfold sn_conflict in H. rewrite H1 in H.
  destruct H2 as [H2|H2]; rewrite H2 in H.
  - change ((rq_l1WriteBack =? rq_l1Evict) || (rq_l3Evict =? rq_l1Evict)) with false in H.
    change ((rq_l1WriteBack =? rq_l1WriteBack) && (rq_l3Evict =? rq_l1WriteBack)) with false in H.
    cbv iota in H. apply Z.eqb_neq. exact H.
  - change ((rq_l1WriteBack =? rq_l1Evict) || (rq_l3WriteBack =? rq_l1Evict)) with false in H.
    change ((rq_l1WriteBack =? rq_l1WriteBack) && (rq_l3WriteBack =? rq_l1WriteBack)) with false in H.
    cbv iota in H. apply Z.eqb_neq. exact H.
Qed.

Lemma aligned_l1 : forall k, ck_req k = rq_l1WriteBack -> key_aligned k -> l1_align (ck_addr k) = ck_addr k.
Proof. intros k H A. unfold key_aligned, is_l1_req in A. rewrite H in A. exact A. Qed.

Lemma aligned_l3 : forall k, (ck_req k = rq_l3Evict \/ ck_req k = rq_l3WriteBack) -> key_aligned k -> l3_align (ck_addr k) = ck_addr k.
Proof. intros k [H|H] A; unfold key_aligned, is_l1_req in A; rewrite H in A; exact A. Qed.

Lemma not_l1 : forall k, (ck_req k = rq_l3Evict \/ ck_req k = rq_l3WriteBack) -> is_l1_req k = false.
Proof. intros k [H|H]; unfold is_l1_req; rewrite H; reflexivity. Qed.

Ltac wfs := cbn [lines set_lines c_l1d set_l1d]; repeat (first [assumption | apply Forall_cons | apply Forall_rm]).

Ltac rw := repeat match goal with
  | H : (0 <? _) = _ |- _ => rewrite H
  | H : fc _ _ = _ |- _ => rewrite H
  | H : negb _ = _ |- _ => rewrite H
  | H : set_bytes _ _ _ _ _ = _ |- _ => rewrite H
  end.


Ltac go NB NB' := repeat (
  first [ progress cbn [bind fst snd lines set_lines nlines llen]
        | rewrite sn_step_W1 by wfs | rewrite sn_step_E3 by wfs | rewrite sn_step_W3 by wfs
        | rewrite l3_locked_cmd_done | rewrite l3_locked_setwrite
        | rewrite fc_cons_nc by assumption | rewrite rm_cons_nc by assumption
        | rewrite (fc_rm _ _ _ NB) | rewrite (fc_rm _ _ _ NB')
        | progress rw ]).

Ltac fin := cbn [orel_sw]; first [exact I | reflexivity | unfold sn2_swapped; cbn [fst snd w_mem w_l3 w_msi];
  split; [|split; [|split; [|split; [|split]]]]; try reflexivity].

Ltac msi := autorewrite with msin;
  first [ apply msi_equiv_refl
        | apply msi_cong; [apply cmd_done_comm; assumption | intros; first [reflexivity | apply aset_swap; assumption]] ].

Theorem swap_W1_E3 : forall k1 c1 x y z k2 c2, sn_swap_stmt (SnL1WriteBack k1 c1 x y z) (SnL3Evict k2 c2).
Proof.
  intros k1 i1 n1 n2 n3 k2 i2 w c MW CC Ux Uy Cxy.
  destruct w as [mem l3 k]. destruct l3 as [nl ll ls]. cbn [w_msi] in *.
  destruct MW as [[_ W3L] _]. destruct CC as [[_ W1L] _]. cbn [w_l3 lines] in W3L.
  change l3LineSize8 with 128 in W3L. change l1dLineSize with 64 in W1L.
  destruct Ux as (Kx & Ix & Ax & Sx). destruct Uy as (Ky & Iy & Ay & _). destruct Cxy as [Cf _].
  cbn [sn_kind_ok sn_key sn_isl1] in *.
  assert (Ky' : ck_req k2 = rq_l3Evict \/ ck_req k2 = rq_l3WriteBack) by (left; exact Ky).
  pose proof (aligned_l1 k1 Kx Ax) as A1. pose proof (aligned_l3 k2 Ky' Ay) as B3.
  pose proof (conflict_W1_L3 k1 k2 Kx Ky' Cf) as NE.
  pose proof (nb_l3 ls _ _ W3L NE) as NB. pose proof (nb_sym _ _ _ NB) as NB'.
  assert (NE' : ck_addr k2 <> l3_align (ck_addr k1)) by (rewrite <- B3; congruence).
  assert (P1 : is_l1_req k1 = true -> pget zz_eqb (ck_id k1, ck_addr k1) (k_states k) <> None)
    by (intros _; rewrite Ix; apply Sx; reflexivity).
  assert (P2 : is_l1_req k2 = true -> pget zz_eqb (ck_id k2, ck_addr k2) (k_states k) <> None)
    by (intros H; rewrite (not_l1 k2 Ky') in H; discriminate H).
  unfold sn2. rewrite sn_step_W1 by wfs. rewrite sn_step_E3 by wfs. cbn [lines].
  destruct (negb (l3_locked k (ck_addr k2))) eqn:LK;
  destruct (fc ls (ck_addr k2)) as [l'|] eqn:F3b;
  (destruct (0 <? n1) eqn:E1; [go NB NB'; fin; apply msi_equiv_refl|]);
  (destruct (fc (lines (c_l1d c)) (ck_addr k1)) as [l1|] eqn:F1; [|go NB NB'; fin]).
  all: destruct (fc ls (ck_addr k1)) as [l|] eqn:F3a.
  all: try (pose proof (fc_nb_nc _ _ _ _ NB F3a) as Cl; pose proof (Forall_fc _ _ _ _ W3L F3a) as WL).
  all: try (destruct (0 <? n3) eqn:E3; [go NB NB'; fin; try (rewrite (rm_rm _ _ _ NB); reflexivity); try apply msi_equiv_refl|]).
  all: try (destruct (0 <? n2) eqn:E2; [go NB NB'; fin; try (rewrite (rm_rm _ _ _ NB); reflexivity); try apply msi_equiv_refl|]).
  all: try (destruct (set_bytes (data l) (lo l) (ck_addr k1) 0 (data l1)) as [d|e|] eqn:SB;
            [pose proof (wf_line_mod 128 l d WL (set_bytes_len _ _ _ _ _ _ SB)) as WLM;
             assert (Clm : covers (mkLine (lo l) (hi l) d) (ck_addr k2) = false) by exact Cl
            | exfalso; eapply set_bytes_no_err; eassumption |]).
  all: go NB NB'; fin; try (rewrite (rm_rm _ _ _ NB); reflexivity); try msi.
Qed.

Theorem swap_W1_W3 : forall k1 c1 x y z k2 c2 n, sn_swap_stmt (SnL1WriteBack k1 c1 x y z) (SnL3WriteBack k2 c2 n).
Proof.
  intros k1 i1 n1 n2 n3 k2 i2 m w c MW CC Ux Uy Cxy.
  destruct w as [mem l3 k]. destruct l3 as [nl ll ls]. cbn [w_msi] in *.
  destruct MW as [[_ W3L] _]. destruct CC as [[_ W1L] _]. cbn [w_l3 lines] in W3L.
  change l3LineSize8 with 128 in W3L. change l1dLineSize with 64 in W1L.
  destruct Ux as (Kx & Ix & Ax & Sx). destruct Uy as (Ky & Iy & Ay & _). destruct Cxy as [Cf _].
  cbn [sn_kind_ok sn_key sn_isl1] in *.
  assert (Ky' : ck_req k2 = rq_l3Evict \/ ck_req k2 = rq_l3WriteBack) by (right; exact Ky).
  pose proof (aligned_l1 k1 Kx Ax) as A1. pose proof (aligned_l3 k2 Ky' Ay) as B3.
  pose proof (conflict_W1_L3 k1 k2 Kx Ky' Cf) as NE.
  pose proof (nb_l3 ls _ _ W3L NE) as NB. pose proof (nb_sym _ _ _ NB) as NB'.
  assert (NE' : ck_addr k2 <> l3_align (ck_addr k1)) by (rewrite <- B3; congruence).
  assert (P1 : is_l1_req k1 = true -> pget zz_eqb (ck_id k1, ck_addr k1) (k_states k) <> None)
    by (intros _; rewrite Ix; apply Sx; reflexivity).
  assert (P2 : is_l1_req k2 = true -> pget zz_eqb (ck_id k2, ck_addr k2) (k_states k) <> None)
    by (intros H; rewrite (not_l1 k2 Ky') in H; discriminate H).
  unfold sn2. rewrite sn_step_W1 by wfs. rewrite sn_step_W3 by wfs. cbn [lines].
  destruct (0 <? m) eqn:En;
  destruct (negb (l3_locked k (ck_addr k2))) eqn:LK;
  destruct (fc ls (ck_addr k2)) as [l'|] eqn:F3b;
  (destruct (0 <? n1) eqn:E1; [go NB NB'; fin; apply msi_equiv_refl|]);
  (destruct (fc (lines (c_l1d c)) (ck_addr k1)) as [l1|] eqn:F1; [|go NB NB'; fin]).
  all: destruct (fc ls (ck_addr k1)) as [l|] eqn:F3a.
  all: try (pose proof (fc_nb_nc _ _ _ _ NB F3a) as Cl; pose proof (Forall_fc _ _ _ _ W3L F3a) as WL).
  all: try (destruct (0 <? n3) eqn:E3; [go NB NB'; fin; try (rewrite (rm_rm _ _ _ NB); reflexivity); try apply msi_equiv_refl|]).
  all: try (destruct (0 <? n2) eqn:E2; [go NB NB'; fin; try (rewrite (rm_rm _ _ _ NB); reflexivity); try apply msi_equiv_refl|]).
  all: try (destruct (set_bytes (data l) (lo l) (ck_addr k1) 0 (data l1)) as [d|e|] eqn:SB;
            [pose proof (wf_line_mod 128 l d WL (set_bytes_len _ _ _ _ _ _ SB)) as WLM;
             assert (Clm : covers (mkLine (lo l) (hi l) d) (ck_addr k2) = false) by exact Cl
            | exfalso; eapply set_bytes_no_err; eassumption |]).
  all: go NB NB'; fin; try (rewrite (rm_rm _ _ _ NB); reflexivity); try msi.
  (* the two write-backs to memory: 64 bytes at a, 128 bytes at b, disjoint *)
  destruct (fc_In _ _ _ F1) as [_ C1]. pose proof (Forall_fc _ _ _ _ W1L F1) as WL1.
  destruct (fc_In _ _ _ F3b) as [_ C'']. pose proof (Forall_fc _ _ _ _ W3L F3b) as WL'.
  destruct (covers_range 64 l1 _ n64 WL1 C1) as [_ RA].
  destruct (covers_range 128 l' _ n128 WL' C'') as [_ RB].
  pose proof (ranges_disj _ _ RA RB A1 B3 NE) as DJ.
  destruct WL1 as (_ & _ & _ & D1). destruct WL' as (_ & _ & _ & D').
  apply wpure_comm; [lia | lia | rewrite D1, D'; exact DJ].
Qed.

Print Assumptions swap_W1_E3.
Print Assumptions swap_W1_W3.
