(* Refinement of MVP-6.2 to the sequential machine on register-only programs - part 2: the front half
   of an iteration of the main loop of Mvp62.v follows the one of Mvp61.v: the four Connect calls, the
   fetch unit (the same function), the decode unit, the control unit (handleRunner, hazards,
   shouldUseForwarding: a new channel extends sg by the identity of the sender). *)
From Coq Require Import ZArith List Bool Lia.
From Maj Require Import Base.Outcome Base.GoInt Base.GoTypes Isa.Spec Isa.Embed Isa.Seq Isa.Refine.
From Maj Require Import Gen.Latency Gen.RiscTables Gen.Opcodes Comp.Cache Comp.Rat Comp.RatProofs Comp.Tx Comp.TxProofs.
From Maj Require Import Mvp.Mvp12 Mvp.Mvp12Proofs Mvp.Mvp3 Mvp.Mvp3Proofs Mvp.Mvp4Skel Mvp.Mvp4Inv Mvp.Mvp4Sim Mvp.Mvp5 Mvp.Mvp60 Mvp.Mvp60RefSem Mvp.Mvp60RefDefs Mvp.Mvp61 Mvp.Mvp62
     Mvp.Mvp62RefRel.
Import ListNotations.
Open Scope Z_scope.

Ltac s2 := cbn [n_ctx n_mem n_pw n_pr n_l1i n_l3 n_pend n_fu n_dret n_dpbr n_cu n_prev n_pcb n_bu n_dbus n_cbus n_ebus n_wbus n_seq n_nid n_chan n_fw
  set_n_ctx set_n_mem set_n_pw set_n_pr set_n_l1i set_n_l3 set_n_pend set_n_fu set_n_dret set_n_dpbr set_n_cu set_n_prev set_n_pcb set_n_bu
  set_n_dbus set_n_cbus set_n_ebus set_n_wbus set_n_seq set_n_nid set_n_chan set_n_fw add_pending62 del_pending62 fw_set fu_reset62 fu_flush62] in *.
Ltac s1 := cbn [y_m y_x set_m set_x xs_seq xs_fwd xs_cu xs_prev xs_pcb xs_cbus xs_ebus xs_ch xs_nch xs_nid
  Mvp61.x_seq x_fwd x_cu x_prev x_pcb x_cbus x_ebus x_ch x_nch x_nid inc_seq set_fwd
  m_regs m_mem m_pw m_pr m_l1i m_l3 m_pend m_fu m_dret m_dpbr m_cu m_bu m_dbus m_cbus m_ebus m_wbus
  set_regs set_mem set_sb set_l1i set_l3 set_fu set_du set_cu set_bu set_dbus set_cbus set_ebus set_wbus add_pending6 del_pending6] in *.
Ltac ss := s1; s2.

Definition fwg (fw : list (Z * (Z * Z))) (idx : Z) : Z * Z := match aget idx fw with Some f => f | None => (0, 0) end.
Lemma fw_get_fwg m idx : fw_get m idx = fwg (n_fw m) idx. Proof. reflexivity. Qed.

Lemma fwg_clear fw i idx : (forall j, fwg fw j = (0, 0)) -> fwg (aset i (0, 0) fw) idx = (0, 0).
Proof. intros H. unfold fwg. rewrite aget_aset. destruct (idx =? i); [reflexivity | apply H]. Qed.

Lemma upd_repeat {A} (x : A) n i : Seq.upd (repeat x n) i x = repeat x n.
Proof. revert i. induction n as [|n IH]; intros [|i]; cbn; try reflexivity. rewrite IH. reflexivity. Qed.

Lemma upd_upd_repeat {A} (x y : A) n i : Seq.upd (Seq.upd (repeat x n) i y) i x = repeat x n.
Proof. revert i. induction n as [|n IH]; intros [|i]; cbn; try reflexivity. rewrite IH. reflexivity. Qed.

(* ------------------------------------------------------------------ *)
(* decode unit                                                          *)

Section Front.
  Variable app : list instr.
  Hypothesis Hro : reg_only app = true.
  Let nap := length app.

  Lemma du_loop_sim sg nch cyc sq x : Mvp61.x_seq x = sq -> forall q ret pbr cb2 cb1 fw2,
    RBus (RRu nap sg nch) cb2 cb1 -> (forall j, fwg fw2 j = (0, 0)) ->
    match du_loop1 q app cyc ret pbr x (repeat no_fwd nap) cb1 with
    | Ok (ret', pbr', q', fwd', cb1') =>
        exists cb2' fw2', du_loop62 q app cyc sq ret pbr cb2 fw2 = Ok (ret', pbr', q', cb2', fw2') /\
          RBus (RRu nap sg nch) cb2' cb1' /\ fwd' = repeat no_fwd nap /\ (forall j, fwg fw2' j = (0, 0))
    | Err e => du_loop62 q app cyc sq ret pbr cb2 fw2 = Err e
    | Panic => du_loop62 q app cyc sq ret pbr cb2 fw2 = Panic
    end.
  Proof.
    intros Hsq. induction q as [|pc q IH]; intros ret pbr cb2 cb1 fw2 Hcb Hfw; cbn [du_loop1 du_loop62].
    - eexists _, _. split; [reflexivity|]. auto.
    - destruct (nlen6 app <=? Z.quot pc 4) eqn:E1.
      { eexists _, _. split; [reflexivity|]. auto. }
      destruct (Z.quot pc 4 <? 0) eqn:E2; [reflexivity|].
      unfold iidx. destruct (nth_error app (Z.to_nat (Z.quot pc 4))) as [i|] eqn:Ei; [|reflexivity].
      rewrite upd_repeat.
      assert (Hrng : (iidx pc < nap)%nat).
      { unfold iidx, nap. apply Z.leb_gt in E1. apply Z.ltb_ge in E2. unfold nlen6 in E1. lia. }
      assert (Hr : RRu nap sg nch (mk_r2 i pc (addS 32 pc (mulS 32 sq 1000)) 0 false None 0)
                                  (mk_r1 (mk_runner i pc (Mvp61.seq_id x pc)) 0 None None Zero)).
      { split; [|split; reflexivity]. constructor; cbn [q_instr q_pc q_seq q_freg q_recv r_b r_instr r_pc r_seq r_freg r_rc]; auto.
        - unfold Mvp61.seq_id. rewrite Hsq. reflexivity.
        - pose proof Hro as Hro'. unfold reg_only in Hro'. rewrite forallb_forall in Hro'. apply Hro'. eapply nth_error_In. exact Ei. }
      pose proof (RBus_add _ _ _ _ _ cyc Hcb Hr) as Hcb'.
      pose proof (fun j => fwg_clear fw2 (idx_of pc) j Hfw) as Hfw'.
      destruct (InstructionType_IsUnconditionalBranch (instr_InstructionType i)).
      { eexists _, _. split; [reflexivity|]. auto. }
      destruct (instr_InstructionType i =? Ret).
      { eexists _, _. split; [reflexivity|]. auto. }
      apply IH; assumption.
  Qed.

  (* ---------------------------------------------------------------- *)
  (* control unit                                                      *)

  Lemma RM_ext sg sg' m2 m1 : RM nap sg m2 m1 -> (forall c, c < x_nch (y_x m1) -> sg' c = sg c) -> RM nap sg' m2 m1.
  Proof.
    intros [H1 H2 H3 H4 H5 H6 H7 H8 H9 H10 H11 H12 H13 H14 H15 H16 H17 H18 H19 H20 H21 H22 H23 H24 H25] He.
    constructor; auto.
    - eapply Forall2_impl; [|exact H14]. intros a b. apply RRu_ext; [exact He | lia].
    - eapply Forall2_impl; [|exact H15]. intros a b. apply RRp_ext; [exact He | lia].
    - eapply RBus_impl; [|exact H17]. intros a b. apply RRu_ext; [exact He | lia].
    - eapply RBus_impl; [|exact H18]. intros a b. apply RRp_ext; [exact He | lia].
    - rewrite H21. apply map_ext_in. intros [c v] Hin. rewrite Forall_forall in H22. specialize (H22 _ Hin). cbn [fst snd] in *. rewrite (He c H22). reflexivity.
    - destruct H25 as [A B]. constructor.
      + intros c c' Hc Hc'. rewrite !He by lia. apply A; assumption.
      + intros c Hc. rewrite He by lia. apply B. exact Hc.
  Qed.

  (* pushRunner *)
  Definition pobj2 (m : mach2) (r : runner2) : runner2 := mk_r2 (q_instr r) (q_pc r) (q_seq r) (n_nid m) (q_fwd r) (q_recv r) (q_freg r).
  Definition push2 (m : mach2) (cy : Z) (r : runner2) : mach2 :=
    add_pending62 (set_n_nid (set_n_ebus m (bb_add (n_ebus m) (pobj2 m r) cy)) (n_nid m + 1)) (Rd r) (Wr r).
  Definition pobj1 (m : mach1) (r : runner1) : runner1 := mk_r1 (r_b r) (x_nid (y_x m)) (r_fw r) (r_rc r) (r_freg r).
  Definition push1 (m : mach1) (cy : Z) (r : runner1) : mach1 :=
    let x := y_x m in
    let i := r_instr (r_b r) in
    mk_m1 (add_pending6 (y_m m) (instr_ReadRegisters i) (instr_WriteRegisters i))
          (xs_nid (xs_ebus x (bb_add (x_ebus x) (pobj1 m r) cy)) (x_nid x + 1)).

  Lemma push_runner62_eq m cy r : push_runner62 m cy r = if negb (bb_canadd (n_ebus m)) then None else Some (push2 m cy r, pobj2 m r).
  Proof. reflexivity. Qed.
  Lemma push_runner1_eq m cy r : push_runner1 m cy r = if negb (bb_canadd (x_ebus (y_x m))) then (false, r, m) else (true, pobj1 m r, push1 m cy r).
  Proof. reflexivity. Qed.

  Lemma pobj_rel sg m2 m1 r2 r1 : RM nap sg m2 m1 -> RRu nap sg (x_nch (y_x m1)) r2 r1 ->
    RRp nap sg (x_nch (y_x m1)) (pobj2 m2 r2) (pobj1 m1 r1).
  Proof.
    intros HR ([C1 C2 C3 C4 C5 C6 C7] & Hf1 & Hf2). unfold pobj2, pobj1. split; [|split].
    - constructor; cbn [q_instr q_pc q_seq q_freg q_recv r_b r_rc r_freg]; auto.
    - cbn [q_id r_id]. apply (rm_nid _ _ _ _ HR).
    - cbn [r_fw q_fwd]. rewrite Hf1. exact Hf2.
  Qed.

  Lemma push_sim sg m2 m1 cy r2 r1 : RM nap sg m2 m1 -> RRu nap sg (x_nch (y_x m1)) r2 r1 ->
    RM nap sg (push2 m2 cy r2) (push1 m1 cy r1).
  Proof.
    intros HR Hr. pose proof (pobj_rel sg m2 m1 r2 r1 HR Hr) as Hp.
    destruct Hr as ([C1 C2 C3 C4 C5 C6 C7] & Hf1 & Hf2).
    destruct HR as [H1 H2 H3 H4 H5 H6 H7 H8 H9 H10 H11 H12 H13 H14 H15 H16 H17 H18 H19 H20 H21 H22 H23 H24 H25].
    unfold push2, push1. constructor; ss; auto.
    - unfold Wr. rewrite C1, H3. reflexivity.
    - unfold Rd. rewrite C1, H4. reflexivity.
    - apply RBus_add; assumption.
    - lia.
    - destruct H25 as [A B]. constructor; [exact A|]. intros c Hc. specialize (B c Hc). lia.
  Qed.

  (* previousRunner.Forwarder = ch *)
  Definition setf1 (m : mach1) (id : Z) : mach1 :=
    set_x m (xs_nch (xs_ebus (y_x m) (set_forwarder (x_ebus (y_x m)) id (x_nch (y_x m)))) (x_nch (y_x m) + 1)).
  Definition setf2 (m : mach2) (id : Z) : mach2 := set_n_ebus m (bb_map (mark_fwd id) (n_ebus m)).
  Definition sg_ext (sg : Z -> Z) (ch id : Z) : Z -> Z := fun c => if c =? ch then id else sg c.

  Lemma setf_rr sg nch id1 id2 r2 r1 : id2 = id1 + 1 -> RRp nap sg nch r2 r1 ->
    RRp nap (sg_ext sg nch id2) (nch + 1) (mark_fwd id2 r2)
        (if r_id r1 =? id1 then mk_r1 (r_b r1) (r_id r1) (Some nch) (r_rc r1) (r_freg r1) else r1).
  Proof.
    intros Hid Hr. assert (He : forall c, c < nch -> sg_ext sg nch id2 c = sg c).
    { intros c Hc. unfold sg_ext. destruct (Z.eqb_spec c nch); [lia | reflexivity]. }
    pose proof (RRp_ext nap sg _ nch (nch + 1) r2 r1 He ltac:(lia) Hr) as Hr'.
    destruct Hr' as (C & Hi & Hf). unfold mark_fwd.
    destruct (Z.eqb_spec (q_id r2) id2) as [E2|E2], (Z.eqb_spec (r_id r1) id1) as [E|E]; try lia.
    2:{ split; [exact C | split; [exact Hi | exact Hf]]. }
    destruct C as [C1 C2 C3 C4 C5 C6 C7]. split; [|split].
    - constructor; cbn [q_instr q_pc q_seq q_freg q_recv r_b r_rc r_freg]; auto.
    - cbn [q_id r_id]. exact Hi.
    - cbn [r_fw q_fwd q_id]. split; [reflexivity|]. split; [lia|]. unfold sg_ext. rewrite Z.eqb_refl. lia.
  Qed.

  Lemma setf_sim sg m2 m1 id1 id2 : RM nap sg m2 m1 -> id2 = id1 + 1 -> id2 < n_nid m2 ->
    (forall c, c < x_nch (y_x m1) -> sg c < id2) ->
    RM nap (sg_ext sg (x_nch (y_x m1)) id2) (setf2 m2 id2) (setf1 m1 id1).
  Proof.
    intros HR Hid Hlt Hsg. set (nch := x_nch (y_x m1)). set (sg' := sg_ext sg nch id2).
    assert (He : forall c, c < nch -> sg' c = sg c).
    { intros c Hc. unfold sg', sg_ext. destruct (Z.eqb_spec c nch); [lia | reflexivity]. }
    pose proof (RM_ext sg sg' m2 m1 HR He) as [H1 H2 H3 H4 H5 H6 H7 H8 H9 H10 H11 H12 H13 H14 H15 H16 H17 H18 H19 H20 H21 H22 H23 H24 H25].
    fold nch in H14, H15, H17, H18, H22, H25.
    assert (Hu : forall a b, RRu nap sg' nch a b -> RRu nap sg' (nch + 1) a b) by (intros a b; apply RRu_ext; [auto | lia]).
    assert (Hp : forall a b, RRp nap sg' nch a b -> RRp nap sg' (nch + 1) a b) by (intros a b; apply RRp_ext; [auto | lia]).
    unfold setf2, setf1. constructor; ss; auto.
    - eapply Forall2_impl; [exact Hu | exact H14].
    - eapply Forall2_impl; [exact Hp | exact H15].
    - eapply RBus_impl; [exact Hu | exact H17].
    - destruct (rm_ebus _ _ _ _ HR) as (B1 & B2 & B3 & B4). fold nch in B1, B2.
      unfold bb_map, set_forwarder. split; [|split; [|split]]; cbn [bb_buf bb_q bb_ql bb_bl]; auto.
      + clear - B1 Hid. induction B1 as [|[a x] [a' y] l2 l1 [Ea Hr] _ IH]; cbn [map]; constructor; [|exact IH].
        cbn [fst snd] in *. split; [exact Ea|]. apply setf_rr; assumption.
      + clear - B2 Hid. induction B2 as [|x y l2 l1 Hr _ IH]; cbn [map]; constructor; [|exact IH]. apply setf_rr; assumption.
    - eapply Forall_impl; [|exact H22]. cbv beta. intros a Ha. lia.
    - destruct H25 as [A B]. constructor.
      + intros c c' Hc Hc'. destruct (Z.eq_dec c' nch) as [->|Hne].
        * rewrite (He c Hc). unfold sg', sg_ext. rewrite Z.eqb_refl. apply Hsg. exact Hc.
        * apply A; lia.
      + intros c Hc. destruct (Z.eq_dec c nch) as [->|Hne]; [unfold sg', sg_ext; rewrite Z.eqb_refl; exact Hlt | apply B; lia].
  Qed.

  (* the hazard list of Mvp61.v and the hazard counts of Mvp62.v *)
  Lemma hz_L1 (c : Z -> bool) reads :
    let L := flat_map (fun r => if c r then [(HRaw, r)] else []) reads in
    zlen L = zlen (filter c reads) /\ Forall (fun p => fst p = HRaw) L.
  Proof.
    cbv zeta. induction reads as [|r t [IH1 IH2]]; [split; [reflexivity | constructor]|].
    cbn [flat_map filter]. destruct (c r); cbn [List.app]; [|split; assumption].
    split; [rewrite !zlen_cons, IH1; reflexivity | constructor; [reflexivity | exact IH2]].
  Qed.

  Lemma hz_L2 (a b : Z -> bool) writes :
    let L := flat_map (fun w => if w =? 0 then [] else (if a w then [(HWaw, w)] else []) ++ (if b w then [(HWar, w)] else [])) writes in
    zlen L = zlen (filter (fun x => negb (x =? 0) && a x) writes) + zlen (filter (fun x => negb (x =? 0) && b x) writes) /\
    Forall (fun p => fst p <> HRaw) L.
  Proof.
    cbv zeta. induction writes as [|w t [IH1 IH2]]; [split; [reflexivity | constructor]|].
    cbn [flat_map filter]. destruct (w =? 0); cbn [negb andb List.app]; [split; assumption|].
    destruct (a w), (b w); cbn [List.app]; rewrite ?zlen_cons; (split; [lia | repeat (constructor; [discriminate|]); exact IH2]).
  Qed.

  Lemma hz_cases (b : mach) m2 r2 reads writes : n_pw m2 = m_pw b -> n_pr m2 = m_pr b -> Rd r2 = reads -> Wr r2 = writes ->
    match hazards3 b reads writes with
    | [] => hz_raw m2 r2 + hz_waw m2 r2 + hz_war m2 r2 = 0
    | [(t, _)] => hz_raw m2 r2 + hz_waw m2 r2 + hz_war m2 r2 = 1 /\ (if t =? HRaw then hz_raw m2 r2 = 1 else hz_raw m2 r2 = 0)
    | _ :: _ :: _ => 2 <= hz_raw m2 r2 + hz_waw m2 r2 + hz_war m2 r2
    end.
  Proof.
    intros Hpw Hpr Hrd Hwr. unfold hazards3, hz_raw, hz_waw, hz_war. rewrite Hpw, Hpr, Hrd, Hwr.
    destruct (hz_L1 (fun r => negb (r =? 0) && (0 <? sb_get (m_pw b) r)) reads) as [A1 A2].
    destruct (hz_L2 (fun w => 0 <? sb_get (m_pw b) w) (fun w => 0 <? sb_get (m_pr b) w) writes) as [B1 B2].
    cbv beta zeta in A1, A2, B1, B2.
    set (R1 := zlen (filter _ reads)) in *. set (W1 := zlen (filter (fun x => negb (x =? 0) && (0 <? sb_get (m_pw b) x)) writes)) in *.
    set (W2 := zlen (filter (fun x => negb (x =? 0) && (0 <? sb_get (m_pr b) x)) writes)) in *.
    set (L1 := flat_map _ reads) in *. set (L2 := flat_map _ writes) in *.
    pose proof (zlen_ge0 L1). pose proof (zlen_ge0 L2).
    destruct L1 as [|[t1 x1] [|y1 L1]]; cbn [List.app].
    - destruct L2 as [|[t2 x2] [|y2 L2]]; rewrite ?zlen_cons, ?zlen_nil in *.
      + lia.
      + split; [lia|]. inversion B2 as [|? ? Hne _]. cbn [fst] in Hne. unfold HRaw in *. destruct (Z.eqb_spec t2 0); [contradiction | lia].
      + pose proof (zlen_ge0 L2). lia.
    - inversion A2 as [|? ? He _]. cbn [fst] in He. subst t1.
      destruct L2 as [|y2 L2]; rewrite ?zlen_cons, ?zlen_nil in *.
      + split; [lia|]. cbn. lia.
      + pose proof (zlen_ge0 L2). lia.
    - rewrite ?zlen_cons in *. pose proof (zlen_ge0 L1). lia.
  Qed.

  Lemma fwd_match_eq p reads : Mvp61.fwd_match p reads = Mvp62.fwd_match (instr_WriteRegisters (r_instr (r_b p))) reads.
  Proof.
    unfold Mvp61.fwd_match. induction (instr_WriteRegisters (r_instr (r_b p))) as [|w t IH]; [reflexivity|].
    cbn [Mvp62.fwd_match]. destruct (find _ reads); [reflexivity | exact IH].
  Qed.

  Lemma cands_rel sg nch reads : forall pv2 pv1, Forall2 (RRp nap sg nch) pv2 pv1 ->
    Forall2 (fun a b => RRp nap sg nch (fst a) (fst b) /\ snd a = snd b /\ In (fst a) pv2)
      (flat_map (fun p => match Mvp62.fwd_match (Wr p) reads with Some reg => [(p, reg)] | None => [] end) pv2)
      (flat_map (fun p => match Mvp61.fwd_match p reads with Some rd => [(p, rd)] | None => [] end) pv1).
  Proof.
    induction 1 as [|p2 p1 l2 l1 Hp _ IH]; [constructor|]. cbn [flat_map]. rewrite fwd_match_eq. unfold Wr at 1.
    rewrite (rc_i _ _ _ _ _ (proj1 Hp)).
    assert (IH' : Forall2 (fun a b => RRp nap sg nch (fst a) (fst b) /\ snd a = snd b /\ In (fst a) (p2 :: l2))
      (flat_map (fun p => match Mvp62.fwd_match (Wr p) reads with Some reg => [(p, reg)] | None => [] end) l2)
      (flat_map (fun p => match Mvp61.fwd_match p reads with Some rd => [(p, rd)] | None => [] end) l1)).
    { eapply Forall2_impl; [|exact IH]. cbv beta. intros a b (A & B & C). split; [exact A|]. split; [exact B | right; exact C]. }
    destruct (Mvp62.fwd_match _ reads); cbn [List.app]; [|exact IH'].
    constructor; [|exact IH']. cbn [fst snd]. split; [exact Hp|]. split; [reflexivity | left; reflexivity].
  Qed.

  Definition pord0 : Z -> Z -> Z := fun _ _ => 0.

  Record CUI (sg : Z -> Z) (nid0 : Z) (m2 : mach2) (m1 : mach1) (l : cu_loc) (cur : list runner1) : Prop := mkCUI {
    ci_rm : RM nap sg m2 m1;
    ci_cur : Forall2 (RRp nap sg (x_nch (y_x m1))) (c_cur l) cur;
    ci_ids : forall p, In p (c_cur l) -> nid0 <= q_id p < n_nid m2;
    ci_sg0 : forall c, c < x_nch (y_x m1) -> sg c < nid0;
    ci_nid : nid0 <= n_nid m2 }.

  Definition PrevOK0 (sg : Z -> Z) (m2 : mach2) (nch nid0 : Z) : Prop :=
    forall p, In p (n_prev m2) -> q_id p < nid0 /\ forall c, c < nch -> sg c < q_id p.

  (* a push keeps CUI *)
  Lemma CUI_push sg nid0 m2 m1 l cur cy r2 r1 : CUI sg nid0 m2 m1 l cur -> RRu nap sg (x_nch (y_x m1)) r2 r1 ->
    CUI sg nid0 (push2 m2 cy r2) (push1 m1 cy r1) (mk_cul (c_cur l ++ [pobj2 m2 r2]) (c_skip l) (c_pb l)) (cur ++ [pobj1 m1 r1]).
  Proof.
    intros [H1 H2 H3 H4 H5] Hr. constructor.
    - apply push_sim; assumption.
    - cbn [c_cur]. unfold push1. ss. apply Forall2_app; [exact H2|]. constructor; [|constructor]. apply pobj_rel; assumption.
    - cbn [c_cur]. unfold push2. ss. intros p Hp. apply in_app_or in Hp as [Hp|[<-|[]]].
      + specialize (H3 p Hp). lia.
      + cbn [pobj2 q_id]. lia.
    - unfold push1. ss. exact H4.
    - unfold push2. ss. lia.
  Qed.

  Ltac blocked sg m2 l r2 HC Hr :=
    exists sg, false, m2, l, r2; split; [reflexivity|]; split; [auto|]; split; [lia|]; split; [reflexivity|]; split; [reflexivity|];
    split; [reflexivity|]; split; [|discriminate]; split; [exact HC|]; split; [reflexivity|]; split; [exact Hr | reflexivity].

  Lemma handle_sim sg nid0 cyc m2 m1 l cur pb r2 r1 :
    CUI sg nid0 m2 m1 l cur -> c_skip l = [] -> c_pb l = pb -> PrevOK0 sg m2 (x_nch (y_x m1)) nid0 ->
    RRu nap sg (x_nch (y_x m1)) r2 r1 ->
    forall os push stop r1' obj1 m1', handle_runner1 pord0 m1 cyc pb [] r1 = (os, push, stop, r1', obj1, m1') ->
    exists sg' g m2' l' r2', handle_runner62 m2 cyc l r2 = (push, stop, g, m2', l', r2') /\
      (forall c, c < x_nch (y_x m1) -> sg' c = sg c) /\ x_nch (y_x m1) <= x_nch (y_x m1') /\
      n_prev m2' = n_prev m2 /\ x_prev (y_x m1') = x_prev (y_x m1) /\
      r_instr (r_b r1') = r_instr (r_b r1) /\
      (if push then CUI sg' nid0 m2' m1' l' (cur ++ [obj1]) /\ l' = mk_cul (c_cur l ++ [r2']) (c_skip l) (c_pb l) /\
                    q_instr r2' = r_instr (r_b r1)
       else CUI sg' nid0 m2' m1' l cur /\ l' = l /\ RRu nap sg' (x_nch (y_x m1')) r2' r1' /\ stop = true) /\
      (stop = false -> sg' = sg /\ x_nch (y_x m1') = x_nch (y_x m1)).
  Proof.
    intros HC Hsk Hpb HP Hr os push stop r1' obj1 m1' Eh.
    pose proof (ci_rm _ _ _ _ _ _ HC) as HR.
    pose proof Hr as ([C1 C2 C3 C4 C5 C6 C7] & Hf1 & Hf2).
    unfold handle_runner1 in Eh. cbv zeta in Eh. unfold handle_runner62. cbv zeta. subst pb.
    replace (skip_hazard (c_skip l) r2) with false by (rewrite Hsk; reflexivity). unfold Ty. rewrite C1.
    cbn [existsb skipped_hazard] in Eh.
    rewrite (RBus_isempty _ _ _ (rm_ebus _ _ _ _ HR)), (rm_pcb _ _ _ _ HR).
    set (ty := instr_InstructionType (r_instr (r_b r1))) in *.
    destruct (InstructionType_IsBranch ty && c_pb l).
    { inversion Eh; subst os push stop r1' obj1 m1'; clear Eh. blocked sg m2 l r2 HC Hr. }
    destruct ((ty =? Ret) && (negb (bb_isempty (x_ebus (y_x m1))) || x_pcb (y_x m1))).
    { inversion Eh; subst os push stop r1' obj1 m1'; clear Eh. blocked sg m2 l r2 HC Hr. }
    pose proof (hz_cases (y_m m1) m2 r2 (instr_ReadRegisters (r_instr (r_b r1))) (instr_WriteRegisters (r_instr (r_b r1)))
                  (rm_pw _ _ _ _ HR) (rm_pr _ _ _ _ HR) ltac:(unfold Rd; rewrite C1; reflexivity) ltac:(unfold Wr; rewrite C1; reflexivity)) as Hhz.
    destruct (hazards3 (y_m m1) (instr_ReadRegisters (r_instr (r_b r1))) (instr_WriteRegisters (r_instr (r_b r1)))) as [|[t hr] [|h2 hz]] eqn:Ehz.
    - (* no hazard *)
      rewrite Hhz. cbn [Z.eqb]. rewrite push_runner62_eq. rewrite push_runner1_eq in Eh.
      rewrite (RBus_canadd _ _ _ (rm_ebus _ _ _ _ HR)). destruct (bb_canadd (x_ebus (y_x m1))); cbn [negb] in Eh |- *.
      + inversion Eh; subst os push stop r1' obj1 m1'; clear Eh. exists sg, false, (push2 m2 cyc r2), (mk_cul (c_cur l ++ [pobj2 m2 r2]) (c_skip l) (c_pb l)), (pobj2 m2 r2).
        split; [reflexivity|]. split; [auto|]. split; [unfold push1; ss; lia|]. split; [reflexivity|]. split; [reflexivity|]. split; [reflexivity|].
        split; [|intros _; split; reflexivity]. split; [apply CUI_push; assumption|]. split; [reflexivity | exact C1].
      + inversion Eh; subst os push stop r1' obj1 m1'; clear Eh. blocked sg m2 l r2 HC Hr.
    - (* one hazard *)
      destruct Hhz as [Htot Hraw]. rewrite Htot. cbn [Z.eqb andb]. unfold should_forward in Eh.
      destruct (t =? HRaw) eqn:Et; cbn [negb] in Eh.
      2:{ rewrite Hraw. cbn [Z.eqb]. inversion Eh; subst os push stop r1' obj1 m1'; clear Eh. blocked sg m2 l r2 HC Hr. }
      rewrite Hraw. cbn [Z.eqb]. unfold fwd_candidates.
      pose proof (cands_rel sg (x_nch (y_x m1)) (instr_ReadRegisters (r_instr (r_b r1))) _ _ (rm_prev _ _ _ _ HR)) as Hcd.
      unfold Rd. rewrite C1.
      destruct Hcd as [|[p2 reg2] [p1 reg1] cd2 cd1 (Hp & Hreg & Hin) Hcd']; cbn [fst snd] in *.
      { cbn in Eh. inversion Eh; subst os push stop r1' obj1 m1'; clear Eh. blocked sg m2 l r2 HC Hr. }
      subst reg2. rewrite zlen_cons in Eh.
      assert (Hz : (zlen cd1 + 1 =? 0) = false) by (pose proof (zlen_ge0 cd1); apply Z.eqb_neq; lia). rewrite Hz in Eh.
      unfold pord0 in Eh. rewrite Z.mod_0_l in Eh by (pose proof (zlen_ge0 cd1); lia). cbn [Z.to_nat nth_error] in Eh.
      fold (setf1 m1 (r_id p1)) in Eh. fold (setf2 m2 (q_id p2)).
      destruct (HP p2 Hin) as [Hp2a Hp2b]. destruct Hp as (Cp & Hidp & Hfp).
      pose proof (setf_sim sg m2 m1 (r_id p1) (q_id p2) HR Hidp ltac:(pose proof (ci_nid _ _ _ _ _ _ HC); lia) Hp2b) as HR'.
      set (nch := x_nch (y_x m1)) in *. set (sg' := sg_ext sg nch (q_id p2)) in *.
      assert (He : forall c, c < nch -> sg' c = sg c).
      { intros c Hc. unfold sg', sg_ext. destruct (Z.eqb_spec c nch); [lia | reflexivity]. }
      assert (Hnch' : x_nch (y_x (setf1 m1 (r_id p1))) = nch + 1) by (unfold setf1; ss; reflexivity).
      assert (HC' : CUI sg' nid0 (setf2 m2 (q_id p2)) (setf1 m1 (r_id p1)) l cur).
      { destruct HC as [K1 K2 K3 K4 K5]. constructor; auto.
        - rewrite Hnch'. eapply Forall2_impl; [|exact K2]. intros a b. apply RRp_ext; [exact He | lia].
        - rewrite Hnch'. intros c Hc. destruct (Z.eq_dec c nch) as [->|Hne]; [unfold sg', sg_ext; rewrite Z.eqb_refl; exact Hp2a | rewrite He by lia; apply K4; lia]. }
      set (r1n := mk_r1 (r_b r1) (r_id r1) (r_fw r1) (Some nch) reg1) in *.
      set (r2n := mk_r2 (r_instr (r_b r1)) (q_pc r2) (q_seq r2) (q_id r2) (q_fwd r2) (Some (q_id p2)) reg1).
      assert (Hrn : RRu nap sg' (x_nch (y_x (setf1 m1 (r_id p1)))) r2n r1n).
      { rewrite Hnch'. split; [|split; [exact Hf1 | exact Hf2]].
        constructor; cbn [q_instr q_pc q_seq q_freg q_recv r_b r_rc r_freg r1n r2n]; auto.
        - split; [|lia]. unfold sg', sg_ext. rewrite Z.eqb_refl. reflexivity.
        - rewrite <- C1. exact C7. }
      rewrite push_runner62_eq. rewrite push_runner1_eq in Eh.
      rewrite (RBus_canadd _ _ _ (rm_ebus _ _ _ _ HR')). destruct (bb_canadd (x_ebus (y_x (setf1 m1 (r_id p1))))); cbn [negb] in Eh |- *.
      + inversion Eh; subst os push stop r1' obj1 m1'; clear Eh. eexists sg', _, (push2 (setf2 m2 (q_id p2)) cyc r2n), _, (pobj2 (setf2 m2 (q_id p2)) r2n).
        split; [reflexivity|]. split; [exact He|]. split; [unfold push1; ss; lia|]. split; [reflexivity|]. split; [reflexivity|]. split; [reflexivity|].
        split; [|discriminate]. split; [apply CUI_push; assumption|]. split; reflexivity.
      + inversion Eh; subst os push stop r1' obj1 m1'; clear Eh. eexists sg', _, (setf2 m2 (q_id p2)), l, r2n.
        split; [reflexivity|]. split; [exact He|]. split; [rewrite Hnch'; lia|]. split; [reflexivity|]. split; [reflexivity|]. split; [reflexivity|].
        split; [|discriminate]. split; [exact HC'|]. split; [reflexivity|]. split; [exact Hrn | reflexivity].
    - (* two or more hazards *)
      assert (E0 : (hz_raw m2 r2 + hz_waw m2 r2 + hz_war m2 r2 =? 0) = false) by (apply Z.eqb_neq; lia).
      assert (E1 : (hz_raw m2 r2 + hz_waw m2 r2 + hz_war m2 r2 =? 1) = false) by (apply Z.eqb_neq; lia).
      rewrite E0, E1. cbn [andb]. cbn [should_forward] in Eh.
      inversion Eh; subst os push stop r1' obj1 m1'; clear Eh. blocked sg m2 l r2 HC Hr.
  Qed.

  Lemma CUI_ext_rel sg sg' nch nch' (l2 : list runner2) (l1 : list runner1) :
    (forall c, c < nch -> sg' c = sg c) -> nch <= nch' -> Forall2 (RRu nap sg nch) l2 l1 -> Forall2 (RRu nap sg' nch') l2 l1.
  Proof. intros He Hn. apply Forall2_impl. intros a b. apply RRu_ext; assumption. Qed.

  Lemma after_push_sim sg nid0 m2 m1 l cur pb r2 r1' : CUI sg nid0 m2 m1 l cur -> q_instr r2 = r_instr (r_b r1') -> c_pb l = pb ->
    CUI sg nid0 (fst (cu_after_push m2 l r2)) (snd (after_push m1 pb true r1')) (snd (cu_after_push m2 l r2)) cur /\
    c_pb (snd (cu_after_push m2 l r2)) = fst (after_push m1 pb true r1') /\
    c_skip (snd (cu_after_push m2 l r2)) = c_skip l /\
    n_prev (fst (cu_after_push m2 l r2)) = n_prev m2 /\ x_prev (y_x (snd (after_push m1 pb true r1'))) = x_prev (y_x m1) /\
    x_nch (y_x (snd (after_push m1 pb true r1'))) = x_nch (y_x m1).
  Proof.
    intros [K1 K2 K3 K4 K5] Hi Hpb. unfold cu_after_push, after_push, Ty. rewrite Hi. cbn [fst snd andb].
    set (ty := instr_InstructionType (r_instr (r_b r1'))).
    assert (HCp : forall b, CUI sg nid0 (set_n_pcb m2 b) (set_x m1 (xs_pcb (y_x m1) b)) l cur).
    { intros b. constructor; ss; auto.
      destruct K1 as [H1 H2 H3 H4 H5 H6 H7 H8 H9 H10 H11 H12 H13 H14 H15 H16 H17 H18 H19 H20 H21 H22 H23 H24 H25]. constructor; ss; auto. }
    assert (HCl : forall m2' m1' b, CUI sg nid0 m2' m1' l cur -> CUI sg nid0 m2' m1' (mk_cul (c_cur l) (c_skip l) b) cur).
    { intros m2' m1' b [J1 J2 J3 J4 J5]. constructor; auto. }
    destruct (InstructionType_IsConditionalBranch ty), (InstructionType_IsBranch ty); cbn [c_pb c_skip c_cur]; ss;
      (split; [try apply HCl; try apply HCp; constructor; assumption|]); repeat split; try reflexivity; rewrite ?Hpb, ?orb_true_r, ?orb_false_r; reflexivity.
  Qed.

  Lemma rev_rel sg nch (k2 : list runner2) (k1 : list runner1) : Forall2 (RRu nap sg nch) k2 k1 -> Forall2 (RRu nap sg nch) (rev k2) (rev k1).
  Proof. induction 1; cbn [rev]; [constructor|]. apply Forall2_app; [assumption|]. constructor; [assumption | constructor]. Qed.

  Lemma cu_pending_sim nid0 cyc : forall ps2 ps1 kept2 kept1 sg m2 m1 l cur g,
    Forall2 (RRu nap sg (x_nch (y_x m1))) ps2 ps1 -> Forall2 (RRu nap sg (x_nch (y_x m1))) kept2 kept1 ->
    CUI sg nid0 m2 m1 l cur -> c_skip l = [] -> PrevOK0 sg m2 (x_nch (y_x m1)) nid0 ->
    forall os stopped q1 pb' sk' cur' m1', cu_pending1 pord0 ps1 kept1 m1 cyc (c_pb l) [] cur = (os, stopped, q1, pb', sk', cur', m1') ->
    exists sg' q2 m2' l' g', cu_pending62 ps2 kept2 m2 cyc l g = (stopped, q2, m2', l', g') /\
      (forall c, c < x_nch (y_x m1) -> sg' c = sg c) /\ x_nch (y_x m1) <= x_nch (y_x m1') /\
      n_prev m2' = n_prev m2 /\ x_prev (y_x m1') = x_prev (y_x m1) /\
      Forall2 (RRu nap sg' (x_nch (y_x m1'))) q2 q1 /\ CUI sg' nid0 m2' m1' l' cur' /\
      (stopped = false -> sk' = [] /\ c_skip l' = [] /\ c_pb l' = pb' /\ PrevOK0 sg' m2' (x_nch (y_x m1')) nid0).
  Proof.
    induction ps2 as [|r2 t2 IH]; intros ps1 kept2 kept1 sg m2 m1 l cur g Hps Hk HC Hsk HP os stopped q1 pb' sk' cur' m1' E;
      destruct ps1 as [|r1 t1]; try (inversion Hps; fail).
    - cbn [cu_pending1] in E. inversion E; subst os stopped q1 pb' sk' cur' m1'. cbn [cu_pending62]. exists sg. eexists _, _, _, _. split; [reflexivity|].
      split; [auto|]. split; [lia|]. split; [reflexivity|]. split; [reflexivity|].
      split; [apply rev_rel; exact Hk|]. split; [exact HC|]. intros _. auto.
    - assert (Hr : RRu nap sg (x_nch (y_x m1)) r2 r1) by (inversion Hps; assumption).
      assert (Ht : Forall2 (RRu nap sg (x_nch (y_x m1))) t2 t1) by (inversion Hps; assumption).
      cbn [cu_pending1] in E. cbn [cu_pending62].
      destruct (handle_runner1 pord0 m1 cyc (c_pb l) [] r1) as [[[[[os1 push] stop] r1'] obj1] m1a] eqn:Eh.
      destruct (handle_sim sg nid0 cyc m2 m1 l cur (c_pb l) r2 r1 HC Hsk eq_refl HP Hr _ _ _ _ _ _ Eh)
        as (sg1 & g1 & m2a & l1 & r2' & Eh2 & He1 & Hn1 & Hpv2 & Hpv1 & Hins & Hcase & Hns).
      rewrite Eh2. destruct push.
      + destruct Hcase as (HC1 & El1 & Hi2).
        assert (Hi2' : q_instr r2' = r_instr (r_b r1')) by (rewrite Hi2, Hins; reflexivity).
        assert (Hpb1 : c_pb l1 = c_pb l) by (rewrite El1; reflexivity).
        destruct (after_push_sim sg1 nid0 m2a m1a l1 (cur ++ [obj1]) (c_pb l) r2' r1' HC1 Hi2' Hpb1) as (HC2 & Hpb2 & Hsk2 & Hq2 & Hq1 & Hnch2).
        destruct (after_push m1a (c_pb l) true r1') as [pbn m1b] eqn:Eap. destruct (cu_after_push m2a l1 r2') as [m2b l2] eqn:Ecp. cbn [fst snd] in *.
        destruct stop.
        * inversion E; subst os stopped q1 pb' sk' cur' m1'. exists sg1. eexists _, _, _, _. split; [reflexivity|]. split; [exact He1|]. split; [lia|].
          split; [congruence|]. split; [congruence|].
          split; [|split; [exact HC2 | discriminate]]. rewrite Hnch2.
          apply Forall2_app; [|eapply CUI_ext_rel; [exact He1 | exact Hn1 | exact Ht]].
          apply rev_rel. eapply CUI_ext_rel; eassumption.
        * destruct (Hns eq_refl) as [-> Enc].
          assert (Enb : x_nch (y_x m1b) = x_nch (y_x m1)) by lia.
          subst pbn.
          destruct (cu_pending1 pord0 t1 kept1 m1b cyc (c_pb l2) [] (cur ++ [obj1])) as [[[[[[os2 st2] qq] pb2] sk2] cur2] m1c] eqn:Erec.
          inversion E; subst os stopped q1 pb' sk' cur' m1'.
          destruct (IH t1 kept2 kept1 sg m2b m1b l2 (cur ++ [obj1]) (g || g1) ltac:(rewrite Enb; exact Ht) ltac:(rewrite Enb; exact Hk) HC2
                      ltac:(rewrite Hsk2, El1; exact Hsk) ltac:(rewrite Enb; intros p Hp; apply HP; rewrite <- Hpv2, <- Hq2; exact Hp)
                      _ _ _ _ _ _ _ Erec) as (sg3 & q2 & m2c & l3 & g3 & E3 & He3 & Hn3 & Hp3 & Hp3' & Hq3 & HC3 & Hst3).
          exists sg3, q2, m2c, l3, g3. split; [exact E3|]. rewrite Enb in He3, Hn3. split; [exact He3|]. split; [exact Hn3|].
          split; [congruence|]. split; [congruence|]. split; [exact Hq3|]. split; [exact HC3 | exact Hst3].
      + destruct Hcase as (HC1 & -> & Hr' & ->). cbn [after_push andb] in E. rewrite orb_false_r in E. inversion E; subst os stopped q1 pb' sk' cur' m1'.
        exists sg1. eexists _, _, _, _. split; [reflexivity|]. split; [exact He1|]. split; [exact Hn1|]. split; [exact Hpv2|]. split; [exact Hpv1|].
        split; [|split; [|discriminate]].
        * cbn [rev]. rewrite <- !app_assoc. cbn [List.app].
          apply Forall2_app; [apply rev_rel; eapply CUI_ext_rel; eassumption|].
          constructor; [eapply RRu_ext; eassumption | eapply CUI_ext_rel; eassumption].
        * destruct HC1 as [J1 J2 J3 J4 J5]. constructor; auto.
  Qed.

  Lemma cu_incoming_sim nid0 cyc : forall q2 q1 pend2 pend1 sg m2 m1 l cur g,
    Forall2 (RRu nap sg (x_nch (y_x m1))) q2 q1 -> Forall2 (RRu nap sg (x_nch (y_x m1))) pend2 pend1 ->
    CUI sg nid0 m2 m1 l cur -> c_skip l = [] -> PrevOK0 sg m2 (x_nch (y_x m1)) nid0 ->
    forall os q1' pend1' cur' m1', cu_incoming1 pord0 q1 pend1 m1 cyc (c_pb l) [] cur = (os, q1', pend1', cur', m1') ->
    exists sg' q2' pend2' m2' l' g', cu_incoming62 q2 pend2 m2 cyc l g = (q2', pend2', m2', l', g') /\
      (forall c, c < x_nch (y_x m1) -> sg' c = sg c) /\ x_nch (y_x m1) <= x_nch (y_x m1') /\
      Forall2 (RRu nap sg' (x_nch (y_x m1'))) q2' q1' /\ Forall2 (RRu nap sg' (x_nch (y_x m1'))) pend2' pend1' /\
      CUI sg' nid0 m2' m1' l' cur'.
  Proof.
    induction q2 as [|r2 t2 IH]; intros q1 pend2 pend1 sg m2 m1 l cur g Hq Hpd HC Hsk HP os q1' pend1' cur' m1' E;
      destruct q1 as [|r1 t1]; try (inversion Hq; fail).
    - exists sg. destruct (pendingLength <=? zlen pend1) eqn:El;
        [cbn [cu_incoming1] in E; rewrite El in E | cbn [cu_incoming1] in E; rewrite El in E];
        inversion E; subst os q1' pend1' cur' m1'; cbn [cu_incoming62]; rewrite (F2_len' _ _ _ Hpd), El;
        (eexists _, _, _, _, _; split; [reflexivity|]; split; [auto|]; split; [lia|]; split; [exact Hq|]; split; [exact Hpd | exact HC]).
    - assert (Hr : RRu nap sg (x_nch (y_x m1)) r2 r1) by (inversion Hq; assumption).
      assert (Ht : Forall2 (RRu nap sg (x_nch (y_x m1))) t2 t1) by (inversion Hq; assumption).
      cbn [cu_incoming1] in E. cbn [cu_incoming62]. rewrite (F2_len' _ _ _ Hpd).
      destruct (pendingLength <=? zlen pend1) eqn:El.
      { inversion E; subst os q1' pend1' cur' m1'. exists sg. eexists _, _, _, _, _. split; [reflexivity|]. split; [auto|]. split; [lia|]. split; [exact Hq|]. split; [exact Hpd | exact HC]. }
      destruct (handle_runner1 pord0 m1 cyc (c_pb l) [] r1) as [[[[[os1 push] stop] r1'] obj1] m1a] eqn:Eh.
      destruct (handle_sim sg nid0 cyc m2 m1 l cur (c_pb l) r2 r1 HC Hsk eq_refl HP Hr _ _ _ _ _ _ Eh)
        as (sg1 & g1 & m2a & l1 & r2' & Eh2 & He1 & Hn1 & Hpv2 & Hpv1 & Hins & Hcase & Hns).
      rewrite Eh2. destruct push.
      + destruct Hcase as (HC1 & El1 & Hi2).
        assert (Hi2' : q_instr r2' = r_instr (r_b r1')) by (rewrite Hi2, Hins; reflexivity).
        assert (Hpb1 : c_pb l1 = c_pb l) by (rewrite El1; reflexivity).
        destruct (after_push_sim sg1 nid0 m2a m1a l1 (cur ++ [obj1]) (c_pb l) r2' r1' HC1 Hi2' Hpb1) as (HC2 & Hpb2 & Hsk2 & Hq2 & Hq1 & Hnch2).
        destruct (after_push m1a (c_pb l) true r1') as [pbn m1b] eqn:Eap. destruct (cu_after_push m2a l1 r2') as [m2b l2] eqn:Ecp. cbn [fst snd] in *.
        destruct stop.
        * inversion E; subst os q1' pend1' cur' m1'. exists sg1. eexists _, _, _, _, _. split; [reflexivity|]. split; [exact He1|]. split; [lia|].
          rewrite Hnch2. split; [eapply CUI_ext_rel; eassumption|]. split; [eapply CUI_ext_rel; eassumption | exact HC2].
        * destruct (Hns eq_refl) as [-> Enc].
          assert (Enb : x_nch (y_x m1b) = x_nch (y_x m1)) by lia.
          subst pbn.
          destruct (cu_incoming1 pord0 t1 pend1 m1b cyc (c_pb l2) [] (cur ++ [obj1])) as [[[[os2 qq] pd2] cur2] m1c] eqn:Erec.
          inversion E; subst os q1' pend1' cur' m1'.
          destruct (IH t1 pend2 pend1 sg m2b m1b l2 (cur ++ [obj1]) (g || g1) ltac:(rewrite Enb; exact Ht) ltac:(rewrite Enb; exact Hpd) HC2
                      ltac:(rewrite Hsk2, El1; exact Hsk) ltac:(rewrite Enb; intros p Hp; apply HP; rewrite <- Hpv2, <- Hq2; exact Hp)
                      _ _ _ _ _ Erec) as (sg3 & q2' & pd2' & m2c & l3 & g3 & E3 & He3 & Hn3 & Hq3 & Hpd3 & HC3).
          exists sg3, q2', pd2', m2c, l3, g3. split; [exact E3|]. rewrite Enb in He3, Hn3. split; [exact He3|]. split; [exact Hn3|].
          split; [exact Hq3|]. split; [exact Hpd3 | exact HC3].
      + destruct Hcase as (HC1 & -> & Hr' & ->). cbn [after_push andb] in E. rewrite ?orb_false_r in E. inversion E; subst os q1' pend1' cur' m1'.
        exists sg1. eexists _, _, _, _, _. split; [reflexivity|]. split; [exact He1|]. split; [exact Hn1|].
        split; [eapply CUI_ext_rel; eassumption|]. split.
        * apply Forall2_app; [eapply CUI_ext_rel; eassumption | constructor; [exact Hr' | constructor]].
        * destruct HC1 as [J1 J2 J3 J4 J5]. constructor; auto.
  Qed.

  (* controlUnit.cycle *)
  Lemma cu_cycle_sim sg cyc m2 m1 : RM nap sg m2 m1 -> PrevOK sg m2 (x_nch (y_x m1)) ->
    exists sg', RM nap sg' (fst (cu_cycle62 cyc m2)) (snd (cu_cycle1 pord0 cyc m1)) /\
      PrevOK sg' (fst (cu_cycle62 cyc m2)) (x_nch (y_x (snd (cu_cycle1 pord0 cyc m1)))) /\
      (forall c, c < x_nch (y_x m1) -> sg' c = sg c) /\ x_nch (y_x m1) <= x_nch (y_x (snd (cu_cycle1 pord0 cyc m1))).
  Proof.
    intros HR HP. unfold cu_cycle62, cu_cycle1. rewrite (RBus_canadd _ _ _ (rm_ebus _ _ _ _ HR)).
    destruct (bb_canadd (x_ebus (y_x m1))); cbn [negb fst snd].
    2:{ exists sg. split; [|split; [intros p Hp; ss; destruct Hp|split; [auto | ss; lia]]].
        destruct HR as [H1 H2 H3 H4 H5 H6 H7 H8 H9 H10 H11 H12 H13 H14 H15 H16 H17 H18 H19 H20 H21 H22 H23 H24 H25]. constructor; ss; auto. }
    set (nid0 := n_nid m2).
    assert (HC0 : CUI sg nid0 m2 m1 (mk_cul [] [] false) []).
    { constructor; cbn [c_cur]; [exact HR | constructor | intros p [] | | unfold nid0; lia]. intros c Hc. apply (sg_lt _ _ _ (rm_sg _ _ _ _ HR)). exact Hc. }
    assert (HP0 : PrevOK0 sg m2 (x_nch (y_x m1)) nid0) by (intros p Hp; apply HP; exact Hp).
    destruct (cu_pending1 pord0 (x_cu (y_x m1)) [] m1 cyc false [] []) as [[[[[[os1 stopped] pend1] pb1] sk1] cur1] m1a] eqn:E1.
    destruct (cu_pending_sim nid0 cyc (n_cu m2) (x_cu (y_x m1)) [] [] sg m2 m1 (mk_cul [] [] false) [] false (rm_cu _ _ _ _ HR) (Forall2_nil _) HC0 eq_refl HP0
                _ _ _ _ _ _ _ E1) as (sg1 & q2 & m2a & l1 & g1 & E2 & He1 & Hn1 & Hpv2 & Hpv1 & Hq & HC1 & Hst).
    rewrite E2.
    assert (Hfin : forall sg' m2' m1' l' cur' pd2 pd1, CUI sg' nid0 m2' m1' l' cur' -> Forall2 (RRu nap sg' (x_nch (y_x m1'))) pd2 pd1 ->
              RM nap sg' (set_n_prev (set_n_cu m2' pd2) (c_cur l')) (set_x m1' (xs_prev (xs_cu (y_x m1') pd1) cur')) /\
              PrevOK sg' (set_n_prev (set_n_cu m2' pd2) (c_cur l')) (x_nch (y_x m1'))).
    { intros sg' m2' m1' l' cur' pd2 pd1 [[H1 H2 H3 H4 H5 H6 H7 H8 H9 H10 H11 H12 H13 H14 H15 H16 H17 H18 H19 H20 H21 H22 H23 H24 H25] J2 J3 J4 J5] Hpd. split.
      - constructor; ss; auto.
      - intros p Hp. ss. specialize (J3 p Hp). split; [lia|]. intros c Hc. specialize (J4 c Hc). lia. }
    destruct stopped; cbn [fst snd].
    - destruct (Hfin _ _ _ _ _ _ _ HC1 Hq) as [A B]. exists sg1. split; [exact A|]. split; [exact B|]. split; [exact He1 | ss; exact Hn1].
    - destruct (Hst eq_refl) as (-> & Hsk1 & Hpb1 & HP1). subst pb1.
      destruct (cu_incoming1 pord0 (bb_q (x_cbus (y_x m1a))) pend1 m1a cyc (c_pb l1) [] cur1) as [[[[os2 q1'] pend2] cur2] m1b] eqn:E3.
      destruct (rm_cbus _ _ _ _ (ci_rm _ _ _ _ _ _ HC1)) as (B1 & B2 & B3 & B4).
      destruct (cu_incoming_sim nid0 cyc _ _ q2 pend1 sg1 m2a m1a l1 cur1 g1 B2 Hq HC1 Hsk1 HP1 _ _ _ _ _ E3)
        as (sg2 & q2' & pd2' & m2b & l2 & g2 & E4 & He2 & Hn2 & Hq2 & Hpd2 & HC2).
      rewrite E4. cbn [fst snd].
      assert (HC2' : CUI sg2 nid0 (set_n_cbus m2b (mk_bb (bb_buf (n_cbus m2b)) q2' (bb_ql (n_cbus m2b)) (bb_bl (n_cbus m2b)))) 
                        (set_x m1b (xs_cbus (y_x m1b) (mk_bb (bb_buf (x_cbus (y_x m1b))) q1' (bb_ql (x_cbus (y_x m1b))) (bb_bl (x_cbus (y_x m1b)))))) l2 cur2).
      { destruct HC2 as [[H1 H2 H3 H4 H5 H6 H7 H8 H9 H10 H11 H12 H13 H14 H15 H16 H17 H18 H19 H20 H21 H22 H23 H24 H25] J2 J3 J4 J5].
        constructor; ss; auto. constructor; ss; auto. destruct H17 as (K1 & K2 & K3 & K4). split; [|split; [|split]]; cbn [bb_buf bb_q bb_ql bb_bl]; auto. }
      destruct (Hfin _ _ _ _ _ _ _ HC2' Hpd2) as [A B]. exists sg2. split; [exact A|]. split; [exact B|].
      split; [intros c Hc; rewrite He2 by lia; apply He1; exact Hc | ss; lia].
  Qed.

  (* decodeUnit.cycle *)
  Lemma du_cycle_sim sg cyc m2 m1 : RM nap sg m2 m1 ->
    match du_cycle1 app cyc m1 with
    | Ok m1' => exists m2', du_cycle62 app cyc m2 = Ok m2' /\ RM nap sg m2' m1' /\ n_prev m2' = n_prev m2 /\ n_nid m2' = n_nid m2 /\
                            x_nch (y_x m1') = x_nch (y_x m1)
    | Err e => du_cycle62 app cyc m2 = Err e
    | Panic => du_cycle62 app cyc m2 = Panic
    end.
  Proof.
    intros HR. unfold du_cycle1, du_cycle62. rewrite (rm_dret _ _ _ _ HR), (rm_dpbr _ _ _ _ HR).
    destruct (m_dret (y_m m1)); [exists m2; auto|]. destruct (m_dpbr (y_m m1)); [exists m2; auto|].
    rewrite (rm_dbus _ _ _ _ HR), (rm_fwd _ _ _ _ HR).
    pose proof (du_loop_sim sg (x_nch (y_x m1)) cyc (n_seq m2) (y_x m1) (eq_sym (rm_seq _ _ _ _ HR)) (bb_q (m_dbus (y_m m1))) false false
                  (n_cbus m2) (x_cbus (y_x m1)) (n_fw m2) (rm_cbus _ _ _ _ HR) (rm_fw _ _ _ _ HR)) as Hl.
    destruct (du_loop1 (bb_q (m_dbus (y_m m1))) app cyc false false (y_x m1) (repeat no_fwd nap) (x_cbus (y_x m1))) as [[[[[ret pbr] q'] fwd'] cb1']|e|]; cbn [bind].
    - destruct Hl as (cb2' & fw2' & El & Hcb & -> & Hfw). fold nap. rewrite El. cbn [bind]. eexists. split; [reflexivity|].
      destruct HR as [H1 H2 H3 H4 H5 H6 H7 H8 H9 H10 H11 H12 H13 H14 H15 H16 H17 H18 H19 H20 H21 H22 H23 H24 H25].
      split; [|ss; auto]. constructor; ss; auto.
    - fold nap. rewrite Hl. reflexivity.
    - fold nap. rewrite Hl. reflexivity.
  Qed.

  (* the four Connect calls *)
  Definition conn2 (m : mach2) (c : Z) : mach2 :=
    set_n_wbus (set_n_ebus (set_n_cbus (set_n_dbus m (bb_connect (n_dbus m) c)) (bb_connect (n_cbus m) c)) (bb_connect (n_ebus m) c)) (bb_connect (n_wbus m) c).
  Definition conn1 (m : mach1) (c : Z) : mach1 :=
    mk_m1 (set_wbus (set_dbus (y_m m) (bb_connect (m_dbus (y_m m)) c)) (bb_connect (m_wbus (y_m m)) c))
          (xs_ebus (xs_cbus (y_x m) (bb_connect (x_cbus (y_x m)) c)) (bb_connect (x_ebus (y_x m)) c)).

  Lemma conn_sim sg c m2 m1 : RM nap sg m2 m1 -> RM nap sg (conn2 m2 c) (conn1 m1 c).
  Proof.
    intros [H1 H2 H3 H4 H5 H6 H7 H8 H9 H10 H11 H12 H13 H14 H15 H16 H17 H18 H19 H20 H21 H22 H23 H24 H25].
    unfold conn2, conn1. constructor; ss; auto; try (apply RBus_connect; assumption); congruence.
  Qed.

  Lemma front_sim sg cyc m2 m1 : RM nap sg m2 m1 -> PrevOK sg m2 (x_nch (y_x m1)) ->
    forall os0 m4, front1 app pord0 cyc m1 = Ok (os0, m4) ->
    exists sg' m2' g, front62 app cyc m2 = Ok (m2', g) /\ RM nap sg' m2' m4 /\ PrevOK sg' m2' (x_nch (y_x m4)) /\
      (forall c, c < x_nch (y_x m1) -> sg' c = sg c) /\ x_nch (y_x m1) <= x_nch (y_x m4).
  Proof.
    intros HR HP os0 m4 E. unfold front1 in E. unfold front62. cbv zeta in E |- *. fold (conn2 m2 cyc).
    change (mk_m1 ?a ?b) with (mk_m1 a b) in E.
    pose proof (conn_sim sg cyc m2 m1 HR) as HRc. unfold conn1 in HRc.
    set (m1c := mk_m1 (set_wbus (set_dbus (y_m m1) (bb_connect (m_dbus (y_m m1)) cyc)) (bb_connect (m_wbus (y_m m1)) cyc))
                      (xs_ebus (xs_cbus (y_x m1) (bb_connect (x_cbus (y_x m1)) cyc)) (bb_connect (x_ebus (y_x m1)) cyc))) in *.
    change (set_wbus (set_dbus (y_m m1) (bb_connect (m_dbus (y_m m1)) cyc)) (bb_connect (m_wbus (y_m m1)) cyc)) with (y_m m1c) in E.
    change (xs_ebus (xs_cbus (y_x m1) (bb_connect (x_cbus (y_x m1)) cyc)) (bb_connect (x_ebus (y_x m1)) cyc)) with (y_x m1c) in E.
    rewrite (rm_fu _ _ _ _ HRc), (rm_l1i _ _ _ _ HRc), (rm_dbus _ _ _ _ HRc).
    destruct (fu_cycle6 app cyc (m_fu (y_m m1c)) (m_l1i (y_m m1c)) (m_dbus (y_m m1c))) as [[[fu1 l1i1] dbus1]|e|]; cbn [bind] in E |- *; try discriminate.
    set (m1d := mk_m1 (set_dbus (set_l1i (set_fu (y_m m1c) fu1) l1i1) dbus1) (y_x m1c)) in *.
    set (m2d := set_n_dbus (set_n_l1i (set_n_fu (conn2 m2 cyc) fu1) l1i1) dbus1).
    assert (HRd : RM nap sg m2d m1d).
    { destruct HRc as [H1 H2 H3 H4 H5 H6 H7 H8 H9 H10 H11 H12 H13 H14 H15 H16 H17 H18 H19 H20 H21 H22 H23 H24 H25].
      unfold m2d, m1d. constructor; ss; auto. }
    pose proof (du_cycle_sim sg cyc m2d m1d HRd) as Hdu.
    destruct (du_cycle1 app cyc m1d) as [m1e|e|]; cbn [bind] in E; try discriminate.
    destruct Hdu as (m2e & Edu & HRe & Hpv & Hnid & Hnch). rewrite Edu. cbn [bind].
    assert (HPe : PrevOK sg m2e (x_nch (y_x m1e))).
    { rewrite Hnch. intros p Hp. rewrite Hpv in Hp. rewrite Hnid. unfold m2d, conn2 in Hp |- *. ss. apply HP. exact Hp. }
    destruct (cu_cycle_sim sg cyc m2e m1e HRe HPe) as (sg' & HR' & HP' & He & Hn).
    injection E as E. rewrite E in HR', HP', Hn. cbn [snd] in HR', HP', Hn.
    exists sg'. destruct (cu_cycle62 cyc m2e) as [m2f g]. cbn [fst snd] in *. exists m2f, g. split; [reflexivity|].
    split; [exact HR'|]. split; [exact HP'|].
    assert (Hnc : x_nch (y_x m1e) = x_nch (y_x m1)) by (rewrite Hnch; reflexivity).
    rewrite Hnc in He, Hn. split; [exact He | exact Hn].
  Qed.
End Front.

(* the front half of an iteration does not touch the context *)
Lemma handle_runner62_ctx m cyc l r : n_ctx (snd (fst (fst (handle_runner62 m cyc l r)))) = n_ctx m.
Proof.
  unfold handle_runner62, push_runner62.
  repeat match goal with
         | |- context [if ?c then _ else _] => destruct c
         | |- context [match fwd_candidates ?a ?b with _ => _ end] => destruct (fwd_candidates a b) as [|[? ?] ?]
         end; cbn [fst snd]; ss; reflexivity.
Qed.

Lemma cu_after_push_ctx m l r : n_ctx (fst (cu_after_push m l r)) = n_ctx m.
Proof. unfold cu_after_push. cbn [fst]. destruct (InstructionType_IsConditionalBranch (Ty r)); reflexivity. Qed.

Lemma cu_pending62_ctx cyc : forall ps kept m l g, n_ctx (snd (fst (fst (cu_pending62 ps kept m cyc l g)))) = n_ctx m.
Proof.
  induction ps as [|r t IH]; intros kept m l g; cbn [cu_pending62]; [reflexivity|].
  pose proof (handle_runner62_ctx m cyc l r) as Hh. destruct (handle_runner62 m cyc l r) as [[[[[push stop] g1] m1] l1] r1]. cbn [fst snd] in Hh.
  pose proof (cu_after_push_ctx m1 l1 r1) as Ha.
  destruct push.
  - destruct (cu_after_push m1 l1 r1) as [m2 l2]. cbn [fst] in Ha. destruct stop; [cbn [fst snd]; congruence | rewrite IH; congruence].
  - destruct stop; [cbn [fst snd]; congruence | rewrite IH; congruence].
Qed.

Lemma cu_incoming62_ctx cyc : forall q pend m l g, n_ctx (snd (fst (fst (cu_incoming62 q pend m cyc l g)))) = n_ctx m.
Proof.
  induction q as [|r t IH]; intros pend m l g; cbn [cu_incoming62]; destruct (pendingLength <=? zlen pend); try reflexivity.
  pose proof (handle_runner62_ctx m cyc l r) as Hh. destruct (handle_runner62 m cyc l r) as [[[[[push stop] g1] m1] l1] r1]. cbn [fst snd] in Hh.
  pose proof (cu_after_push_ctx m1 l1 r1) as Ha.
  destruct push.
  - destruct (cu_after_push m1 l1 r1) as [m2 l2]. cbn [fst] in Ha. destruct stop; [cbn [fst snd]; congruence | rewrite IH; congruence].
  - destruct stop; [cbn [fst snd]; congruence | rewrite IH; congruence].
Qed.

Lemma cu_cycle62_ctx cyc m : n_ctx (fst (cu_cycle62 cyc m)) = n_ctx m.
Proof.
  unfold cu_cycle62. destruct (negb (bb_canadd (n_ebus m))); [reflexivity|].
  pose proof (cu_pending62_ctx cyc (n_cu m) [] m (mk_cul [] [] false) false) as H1.
  destruct (cu_pending62 (n_cu m) [] m cyc (mk_cul [] [] false) false) as [[[[stopped pend1] m1] l1] g1]. cbn [fst snd] in H1.
  destruct stopped; [cbn [fst]; ss; exact H1|].
  pose proof (cu_incoming62_ctx cyc (bb_q (n_cbus m1)) pend1 m1 l1 g1) as H2.
  destruct (cu_incoming62 (bb_q (n_cbus m1)) pend1 m1 cyc l1 g1) as [[[[q' pend2] m2] l2] g2]. cbn [fst snd] in H2 |- *. ss. congruence.
Qed.

Lemma du_cycle62_ctx app cyc m m' : du_cycle62 app cyc m = Ok m' -> n_ctx m' = n_ctx m.
Proof.
  unfold du_cycle62. destruct (n_dret m); [intros E; injection E as <-; reflexivity|]. destruct (n_dpbr m); [intros E; injection E as <-; reflexivity|].
  destruct (du_loop62 _ _ _ _ _ _ _ _) as [[[[[ret pbr] q'] cb] fw]| |]; cbn [bind]; try discriminate. intros E. injection E as <-. reflexivity.
Qed.

Lemma front_ctx app cyc m m' g : front62 app cyc m = Ok (m', g) -> n_ctx m' = n_ctx m.
Proof.
  unfold front62. cbv zeta. destruct (fu_cycle6 _ _ _ _ _) as [[[fu1 l1i1] dbus1]| |]; cbn [bind]; try discriminate.
  destruct (du_cycle62 _ _ _) as [m1| |] eqn:Ed; cbn [bind]; try discriminate. intros E. injection E as E.
  pose proof (cu_cycle62_ctx cyc m1) as Hc. rewrite E in Hc. cbn [fst] in Hc. rewrite Hc, (du_cycle62_ctx _ _ _ _ Ed). reflexivity.
Qed.
