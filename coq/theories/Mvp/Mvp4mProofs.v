(* MVP-4 on programs WITH loads and stores, under the hypothesis that every store
   hits in the L1D (its line was loaded before and is still resident): the pipeline
   computes the sequential registers and memory, in a number of cycles that is a
   function of the program and of the events (pc, loaded addresses, stored
   addresses) of the sequential run.  See Mvp4Proofs.v for register-only programs
   and for the refutation of the statement without the hypothesis
   (mvp4_cold_store_then_load_refuted). *)
From Coq Require Import ZArith List Bool Lia.
From Maj Require Import Base.Outcome Base.GoInt Base.GoTypes Isa.Spec Isa.Embed Isa.Seq Isa.Refine.
From Maj Require Import Gen.Latency Gen.RiscTables Gen.Opcodes Comp.Cache Comp.CacheSpec Comp.CacheProofs.
From Maj Require Import Mvp.Mvp12 Mvp.Mvp12Proofs Mvp.Mvp3 Mvp.Mvp3Proofs Mvp.Mvp4 Mvp.Mvp4Skel Mvp.Mvp4Inv Mvp.Mvp4Units
     Mvp.Mvp4Front Mvp.Mvp4Sim Mvp.Mvp4Proofs Mvp.Mvp4mSkel Mvp.Mvp4mInv Mvp.Mvp4mFront Mvp.Mvp4mSim.
Import ListNotations.
Open Scope Z_scope.

Definition evs_below (evs : list event) : bool := forallb (fun ev => ev_pc ev <? 2147483644) evs.

Lemma skm_run_more app : forall fuel k a path cyc c,
  skm_run fuel app a path cyc = Some c -> skm_run (fuel + k) app a path cyc = Some c.
Proof.
  induction fuel as [|f IH]; intros k a path cyc c H; [discriminate|]. cbn [skm_run Nat.add] in *.
  destruct (skm_cycle app a path) as [a' path' dc|dc dt|]; auto.
Qed.

Section Top4m.
  Variables (app : list instr) (labels : Z -> option Z).
  Hypothesis Happ : wf_app app.
  Hypothesis Hlab : wf_labels labels.
  Let sp := map sinstr_of app.

  Lemma in_text_count pc : 0 <= pc ->
    (if pc / 4 <? nlen app then 1%nat else 0%nat) =
    (match nth_error sp (Z.to_nat (pc / 4)) with Some _ => 1%nat | None => 0%nat end).
  Proof.
    intros Hpc. pose proof (Z.div_pos pc 4 Hpc ltac:(lia)).
    destruct (Z.ltb_spec (pc / 4) (nlen app)) as [Hlt|Hge]; unfold nlen in *.
    - destruct (nth_error sp (Z.to_nat (pc / 4))) eqn:E; [reflexivity|].
      apply nth_error_None in E. unfold sp in E. rewrite map_length in E. lia.
    - destruct (nth_error sp (Z.to_nat (pc / 4))) eqn:E; [|reflexivity].
      assert ((Z.to_nat (pc / 4) < length sp)%nat) by (apply nth_error_Some; congruence).
      unfold sp in *. rewrite map_length in *. lia.
  Qed.

  Lemma run_sexecm : forall fuel st pc tr st' tr',
    Seq.run fuel sp labels st pc tr = Done st' tr' -> accesses_ok fuel sp labels st pc ->
    exists rest, seq_evs fuel sp labels st pc = ev_of app st pc :: rest /\
      sexecm app labels st (ev_of app st pc :: rest) st' /\
      (length tr + length rest <= length tr')%nat /\
      length tr' = (length tr + exec_count app (ev_of app st pc :: rest))%nat.
  Proof.
    induction fuel as [|f IH]; intros st pc tr st' tr' H Hacc; [discriminate|].
    cbn [Seq.run seq_evs accesses_ok] in *. destruct Hacc as [Hsl Hacc].
    assert (Hpc : 0 <= pc).
    { unfold Seq.step in H. destruct (Z.ltb_spec pc 0); [discriminate | assumption]. }
    assert (Hsl' : same_line (ev_la (ev_of app st pc)) = true /\ same_line (ev_sa (ev_of app st pc)) = true).
    { unfold ev_of, ev_la, ev_sa. cbn [fst snd]. fold sp. destruct (nth_error sp (Z.to_nat (pc / 4))); [exact Hsl | split; reflexivity]. }
    assert (Hcnt : forall rest, exec_count app (ev_of app st pc :: rest) =
              Nat.add (match nth_error sp (Z.to_nat (pc / 4)) with Some _ => 1%nat | None => 0%nat end) (exec_count app rest)).
    { intros rest. rewrite (exec_count_cons app). cbn [ev_pc ev_of fst]. rewrite (in_text_count pc Hpc). reflexivity. }
    destruct (Seq.step sp labels st pc) as [st1 pc1|st1|e] eqn:Es; [| |discriminate].
    - destruct (IH _ _ _ _ _ H Hacc) as (rest & Hp & Hs & Hl & Hc). rewrite Hp.
      exists (ev_of app st1 pc1 :: rest). split; [reflexivity|].
      split; [eapply SM_next; [exact Es | apply Hsl' | apply Hsl' | exact Hs]|].
      assert (Hin : nth_error sp (Z.to_nat (pc / 4)) <> None).
      { unfold Seq.step in Es. destruct (pc <? 0); [discriminate|]. destruct (nth_error sp (Z.to_nat (pc / 4))); [discriminate | discriminate]. }
      rewrite Hcnt. destruct (nth_error sp (Z.to_nat (pc / 4))); [|congruence]. cbn [length] in *. lia.
    - unfold fetch in H. destruct (Z.ltb_spec pc 0); [lia|].
      exists []. split; [reflexivity|]. rewrite Hcnt.
      destruct (nth_error sp (Z.to_nat (pc / 4))); injection H as <- <-;
        (split; [apply SM_halt; exact Es|]); unfold exec_count; cbn [filter length]; lia.
  Qed.

  Lemma step_class_m st pc : 0 <= pc ->
    match Seq.step sp labels st pc with
    | Halt _ => match nth_error app (Z.to_nat (pc / 4)) with Some i => is_ret i = true | None => True end
    | Next _ pc' => exists i, nth_error app (Z.to_nat (pc / 4)) = Some i /\ is_ret i = false /\
                              (ev_sa (ev_of app st pc) <> [] -> pc' = pc + 4)
    | Fail _ => True
    end.
  Proof.
    intros Hpc. unfold sp. destruct (nth_error app (Z.to_nat (pc / 4))) as [i|] eqn:Hi.
    - rewrite (step_at app labels st pc i Hpc Hi). cbv zeta.
      rewrite (ev_of_at app st pc i Hi). cbn [ev_sa snd].
      destruct (negb _); [exact I|].
      destruct (exec (sinstr_of i) (rget (regs st)) labels pc _) as [e|err|] eqn:Ee; try exact I.
      pose proof (exec_return_is_ret _ _ _ _ _ _ Ee) as Hret.
      pose proof (store_addrs_effect _ _ _ _ _ _ Ee) as Hse.
      assert (Hnr : e <> EReturn -> is_ret i = false).
      { intros Hne. destruct (is_ret i); [|reflexivity]. exfalso. apply Hne, Hret. reflexivity. }
      destruct e; try (exists i; split; [reflexivity|]; split; [apply Hnr; discriminate|]; intros Hs; congruence).
      + destruct (negb _); [exact I|]. exists i. split; [reflexivity|]. split; [apply Hnr; discriminate | reflexivity].
      + apply Hret. reflexivity.
    - assert (Hout : nlen app <= pc / 4).
      { apply nth_error_None in Hi. unfold nlen. pose proof (Z.div_pos pc 4 Hpc ltac:(lia)). lia. }
      rewrite (step_out_m app labels st pc Hpc Hout). exact I.
  Qed.

  Lemma sexecm_evs_wf st path stf : sexecm app labels st path stf -> evs_below path = true -> evs_wf app path.
  Proof.
    induction 1 as [st pc st' Hs | st pc st' pc' rest stf Hs Hsl1 Hsl2 HS IH]; intros Hb;
      cbn [evs_below forallb] in Hb; apply andb_prop in Hb as [Hb1 Hb2]; apply Z.ltb_lt in Hb1; cbn [ev_pc ev_of fst] in Hb1.
    - assert (Hpc : 0 <= pc) by (unfold Seq.step in Hs; destruct (Z.ltb_spec pc 0); [discriminate | assumption]).
      pose proof (step_class_m st pc Hpc) as Hc. unfold sp in Hc. rewrite Hs in Hc.
      cbn [evs_wf ev_pc ev_of fst]. split; [lia | exact Hc].
    - assert (Hpc : 0 <= pc) by (unfold Seq.step in Hs; destruct (Z.ltb_spec pc 0); [discriminate | assumption]).
      pose proof (step_class_m st pc Hpc) as Hc. unfold sp in Hc. rewrite Hs in Hc.
      destruct Hc as (i & Hi & Hr & Hst).
      cbn [evs_wf]. cbn [ev_pc ev_of fst]. split; [lia|]. split; [eauto|]. split; [exact Hst|].
      apply IH. exact Hb2.
  Qed.

  Lemma init_finvm c0 hev : IInv c0 -> 0 <= ev_pc hev < 2147483644 -> ev_pc hev = 0 -> FInvM app hev (skm_init c0).
  Proof.
    intros HI Hh H0. constructor; cbn [skm_init m_fu m_l1i m_dbus m_ebus m_eu m_pw m_wb m_dt fu_processing eu_processing eu_pending_read eu_memory];
      auto; try discriminate; try lia.
    - exists O. rewrite H0. constructor; cbn [fu_complete fu_pc]; try discriminate; try lia; reflexivity.
    - constructor.
  Qed.

  Definition fuel_bound_m (n : nat) : nat := ((n + 1) * Kstepm)%nat.

  Theorem mvp4_run_events fuel st st' tr :
    inv (regs st) (mem st) -> (length (regs st) <= 32)%nat -> mem_small st ->
    accesses_ok fuel sp labels st 0 ->
    seq_run fuel sp labels st = Done st' tr ->
    evs_below (seq_evs fuel sp labels st 0) = true ->
    stores_hit [] (seq_evs fuel sp labels st 0) = true ->
    exists c, (forall fuel', (fuel_bound_m (length tr) <= fuel')%nat ->
                 mvp4_run fuel' app labels st = MDone c st' /\
                 mvp4_cost_mem fuel' app (seq_evs fuel sp labels st 0) = Some c) /\
              Z.of_nat (length tr) <= c <= 2 * Z.of_nat (fuel_bound_m (length tr)) + MemoryAccess * 16.
  Proof.
    intros [Hri Hm8] Hlen Hsm Hacc Hrun Hb Hsh. unfold seq_run in Hrun.
    destruct (run_sexecm fuel st 0 [] st' tr Hrun Hacc) as (rest & Hp & HS & Hl & Hcnt).
    rewrite Hp in *. pose proof (sexecm_evs_wf _ _ _ HS Hb) as Hwf.
    destruct init_caches as (c0 & E0 & HI0 & HD0 & Hl0).
    assert (Hh0 : 0 <= ev_pc (ev_of app st 0) < 2147483644) by (cbn; lia).
    pose proof (init_finvm c0 (ev_of app st 0) HI0 Hh0 eq_refl) as HF0.
    assert (Hsh0 : sh_inv (skm_init c0) (ev_of app st 0 :: rest)).
    { cbn [sh_inv]. unfold dt_after_load. cbn [skm_init m_eu m_dt eu_pending_read].
      cbn [stores_hit] in Hsh. apply andb_prop in Hsh. exact Hsh. }
    cbn [length] in Hl, Hcnt.
    set (m := (Z.to_nat (phim (skm_init c0)) + length rest * Kstepm)%nat).
    pose proof (phim_bounds app _ _ HF0) as Hphi.
    assert (Hm : (m < fuel_bound_m (length tr))%nat).
    { unfold m, fuel_bound_m, Kstepm in *.
      assert ((length rest * S (Z.to_nat phim_max) <= length tr * S (Z.to_nat phim_max))%nat) by (apply Nat.mul_le_mono_r; lia).
      lia. }
    destruct (skm_run_term app Happ m rest (skm_init c0) _ 0 (fuel_bound_m (length tr)) HF0 Hwf Hsh0 ltac:(lia) Hm) as (c & Hc & Hcb).
    exists c. split; [|lia].
    intros fuel' Hf'. replace fuel' with (fuel_bound_m (length tr) + (fuel' - fuel_bound_m (length tr)))%nat by lia.
    pose proof (skm_run_more app _ (fuel' - fuel_bound_m (length tr)) _ _ _ _ Hc) as Hc'.
    split.
    - unfold mvp4_run. rewrite E0.
      eapply (sim_run_m app labels Happ Hlab); [| exact HF0 | exact Hwf | exact Hsh0 | exact HS | exact Hc'].
      destruct st as [rg mm]. cbn [regs mem] in *.
      apply (RM_intro (ev_la (ev_of app (mk_arch rg mm) 0)) (skm_init c0) rg mm c0 (s_new 64 1024) 0 (mk_bu false 0) None
                      (mk_eu false false [] None 0 None) (mk_arch rg mm)); auto; try discriminate.
      apply init_VInv; assumption.
    - unfold mvp4_cost_mem. rewrite E0. exact Hc'.
  Qed.

  (* C01 / C05 (MVP-4): loads and stores, every store hits in the L1D *)
  Theorem mvp4_refines_seq_storehit fuel st st' tr :
    inv (regs st) (mem st) -> (length (regs st) <= 32)%nat -> mem_small st ->
    accesses_ok fuel sp labels st 0 ->
    seq_run fuel sp labels st = Done st' tr ->
    evs_below (seq_evs fuel sp labels st 0) = true ->
    stores_hit [] (seq_evs fuel sp labels st 0) = true ->
    exists c, (forall fuel', (fuel_bound_m (length tr) <= fuel')%nat -> mvp4_run fuel' app labels st = MDone c st') /\
              Z.of_nat (length tr) <= c <= 2 * Z.of_nat (fuel_bound_m (length tr)) + MemoryAccess * 16.
  Proof.
    intros Hinv Hlen Hsm Hacc Hrun Hb Hsh.
    destruct (mvp4_run_events fuel st st' tr Hinv Hlen Hsm Hacc Hrun Hb Hsh) as (c & Hc & Hlb).
    exists c. split; [|exact Hlb]. intros fuel' Hf. apply Hc. exact Hf.
  Qed.

  (* C07 (MVP-4): no panic, no error, no divergence *)
  Corollary mvp4_no_panic_mem fuel st st' tr fuel' :
    inv (regs st) (mem st) -> (length (regs st) <= 32)%nat -> mem_small st ->
    accesses_ok fuel sp labels st 0 ->
    seq_run fuel sp labels st = Done st' tr ->
    evs_below (seq_evs fuel sp labels st 0) = true ->
    stores_hit [] (seq_evs fuel sp labels st 0) = true ->
    (fuel_bound_m (length tr) <= fuel')%nat ->
    mvp4_run fuel' app labels st <> MPanic /\ mvp4_run fuel' app labels st <> MOutOfFuel /\
    (forall e, mvp4_run fuel' app labels st <> MErr e).
  Proof.
    intros Hinv Hlen Hsm Hacc Hrun Hb Hsh Hf.
    destruct (mvp4_refines_seq_storehit fuel st st' tr Hinv Hlen Hsm Hacc Hrun Hb Hsh) as (c & Hc & _).
    rewrite (Hc fuel' Hf). repeat split; try discriminate.
  Qed.

  (* C12 (MVP-4): same events, same cycle count *)
  Theorem mvp4_value_independent_mem fuel st1 st2 st1' st2' tr1 tr2 :
    inv (regs st1) (mem st1) -> (length (regs st1) <= 32)%nat -> mem_small st1 -> accesses_ok fuel sp labels st1 0 ->
    inv (regs st2) (mem st2) -> (length (regs st2) <= 32)%nat -> mem_small st2 -> accesses_ok fuel sp labels st2 0 ->
    seq_run fuel sp labels st1 = Done st1' tr1 ->
    seq_run fuel sp labels st2 = Done st2' tr2 ->
    seq_evs fuel sp labels st1 0 = seq_evs fuel sp labels st2 0 ->
    evs_below (seq_evs fuel sp labels st1 0) = true ->
    stores_hit [] (seq_evs fuel sp labels st1 0) = true ->
    exists c, forall fuel', (fuel_bound_m (Nat.max (length tr1) (length tr2)) <= fuel')%nat ->
      mvp4_run fuel' app labels st1 = MDone c st1' /\ mvp4_run fuel' app labels st2 = MDone c st2'.
  Proof.
    intros I1 L1 S1 A1 I2 L2 S2 A2 R1 R2 Hp Hb Hsh.
    destruct (mvp4_run_events fuel st1 st1' tr1 I1 L1 S1 A1 R1 Hb Hsh) as (c1 & Hc1 & _).
    rewrite Hp in Hb, Hsh. destruct (mvp4_run_events fuel st2 st2' tr2 I2 L2 S2 A2 R2 Hb Hsh) as (c2 & Hc2 & _).
    exists c1. intros fuel' Hf.
    assert (Hf1 : (fuel_bound_m (length tr1) <= fuel')%nat).
    { unfold fuel_bound_m in *. pose proof (Nat.le_max_l (length tr1) (length tr2)).
      assert (((length tr1 + 1) * Kstepm <= (Nat.max (length tr1) (length tr2) + 1) * Kstepm)%nat) by (apply Nat.mul_le_mono_r; lia). lia. }
    assert (Hf2 : (fuel_bound_m (length tr2) <= fuel')%nat).
    { unfold fuel_bound_m in *. pose proof (Nat.le_max_r (length tr1) (length tr2)).
      assert (((length tr2 + 1) * Kstepm <= (Nat.max (length tr1) (length tr2) + 1) * Kstepm)%nat) by (apply Nat.mul_le_mono_r; lia). lia. }
    destruct (Hc1 fuel' Hf1) as [H1 K1]. destruct (Hc2 fuel' Hf2) as [H2 K2].
    rewrite Hp in K1. rewrite K1 in K2. injection K2 as <-. auto.
  Qed.
End Top4m.

Lemma fuel_bound_m_value n : fuel_bound_m n = ((n + 1) * 1035)%nat.
Proof. reflexivity. Qed.
