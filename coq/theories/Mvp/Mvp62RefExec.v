(* Refinement of MVP-6.2 to the sequential machine on register-only programs - part 3: an execute unit of
   Mvp62.v that takes an instruction from the execute bus and runs it in the same call follows the
   execute unit of Mvp61.v (Receiver, branch unit, Runner.Run through registerRead = the view, write bus,
   Forwarder, flush request); a conditional branch commits or rolls back the transaction map: the view
   is unchanged because every entry is older than the branch (TxB).  The write units: a write to the
   transaction map is a write to the view. *)
From Coq Require Import ZArith List Bool Lia.
From Maj Require Import Base.Outcome Base.GoInt Base.GoTypes Isa.Spec Isa.Embed Isa.Seq Isa.Refine.
From Maj Require Import Gen.Latency Gen.RiscTables Gen.Opcodes Comp.Cache Comp.Rat Comp.RatProofs Comp.Tx Comp.TxProofs.
From Maj Require Import Mvp.Mvp12 Mvp.Mvp12Proofs Mvp.Mvp3 Mvp.Mvp3Proofs Mvp.Mvp4Skel Mvp.Mvp4Inv Mvp.Mvp4Sim Mvp.Mvp5 Mvp.Mvp60 Mvp.Mvp60RefSem Mvp.Mvp60RefDefs Mvp.Mvp61 Mvp.Mvp62
     Mvp.Mvp62RefRel Mvp.Mvp62RefFront.
Import ListNotations.
Open Scope Z_scope.

(* the response of an execute unit *)
Definition OutR (o : eu_out62) (p : resp1) : Prop :=
  Mvp62.p_flush o = Mvp61.p_flush p /\ Mvp62.p_seq o = Mvp61.p_seq p /\ Mvp62.p_pc o = Mvp61.p_pc p /\ Mvp62.p_ret o = Mvp61.p_ret p.

Lemma pre_eq e2 e1 : REi e2 e1 -> pre_flush e2 = eu_pre1 e1.
Proof.
  intros [H1 H2 H3 H4 H5]. unfold pre_flush, eu_pre1. rewrite H4. destruct (u_sid e1 =? 0); [reflexivity|]. cbn [negb andb].
  destruct (x_runner e2) as [r2|], (e_runner (u_e e1)) as [r1|]; cbn [option_map] in H5; try discriminate; [|reflexivity].
  injection H5 as ->. reflexivity.
Qed.

Lemma take_sim sg nch : (forall c c', c < c' -> c' < nch -> sg c < sg c') -> forall chs ch,
  Forall (fun cv : Z * Z => fst cv < nch) chs -> ch < nch ->
  match ch_take chs ch with
  | None => chan_take (map (fun cv => (sg (fst cv), snd cv)) chs) (sg ch) = None
  | Some (v, chs') => chan_take (map (fun cv => (sg (fst cv), snd cv)) chs) (sg ch) = Some (v, map (fun cv => (sg (fst cv), snd cv)) chs') /\
                      Forall (fun cv : Z * Z => fst cv < nch) chs'
  end.
Proof.
  intros Hm. assert (Hinj : forall c c', c < nch -> c' < nch -> sg c = sg c' -> c = c').
  { intros c c' Hc Hc' E. destruct (Z.lt_trichotomy c c') as [H|[H|H]]; [|exact H|].
    - specialize (Hm c c' H Hc'). lia.
    - specialize (Hm c' c H Hc). lia. }
  induction chs as [|[c v] t IH]; intros ch Hall Hch; [reflexivity|]. cbn [ch_take chan_take map fst snd].
  inversion Hall as [|? ? Hc Ht]; subst. cbn [fst] in Hc.
  destruct (Z.eqb_spec c ch) as [->|Hne].
  - rewrite Z.eqb_refl. split; [reflexivity | exact Ht].
  - destruct (Z.eqb_spec (sg c) (sg ch)) as [E|_]; [exfalso; apply Hne; apply Hinj; assumption|].
    specialize (IH ch Ht Hch). destruct (ch_take t ch) as [[w t']|].
    + destruct IH as [E Ht']. rewrite E. split; [reflexivity | constructor; assumption].
    + rewrite IH. reflexivity.
Qed.

Section Exec.
  Variable app : list instr.
  Hypothesis Hro : reg_only app = true.
  Let nap := length app.
  Variable labels : Z -> option Z.

  (* RM without the Forward table *)
  Record RMc (sg : Z -> Z) (m2 : mach2) (m1 : mach1) : Prop := mkRMc {
    rk_vw : Vw (n_ctx m2) (m_regs (y_m m1));
    rk_mem : n_mem m2 = m_mem (y_m m1);
    rk_pw : n_pw m2 = m_pw (y_m m1);
    rk_pr : n_pr m2 = m_pr (y_m m1);
    rk_l1i : n_l1i m2 = m_l1i (y_m m1);
    rk_l3 : n_l3 m2 = m_l3 (y_m m1);
    rk_pend : n_pend m2 = m_pend (y_m m1);
    rk_fu : n_fu m2 = m_fu (y_m m1);
    rk_dret : n_dret m2 = m_dret (y_m m1);
    rk_dpbr : n_dpbr m2 = m_dpbr (y_m m1);
    rk_bu : n_bu m2 = m_bu (y_m m1);
    rk_dbus : n_dbus m2 = m_dbus (y_m m1);
    rk_wbus : n_wbus m2 = m_wbus (y_m m1);
    rk_cu : Forall2 (RRu nap sg (x_nch (y_x m1))) (n_cu m2) (x_cu (y_x m1));
    rk_prev : Forall2 (RRp nap sg (x_nch (y_x m1))) (n_prev m2) (x_prev (y_x m1));
    rk_pcb : n_pcb m2 = x_pcb (y_x m1);
    rk_cbus : RBus (RRu nap sg (x_nch (y_x m1))) (n_cbus m2) (x_cbus (y_x m1));
    rk_ebus : RBus (RRp nap sg (x_nch (y_x m1))) (n_ebus m2) (x_ebus (y_x m1));
    rk_seq : n_seq m2 = Mvp61.x_seq (y_x m1);
    rk_nid : n_nid m2 = x_nid (y_x m1) + 1;
    rk_chan : n_chan m2 = map (fun cv => (sg (fst cv), snd cv)) (x_ch (y_x m1));
    rk_chlt : Forall (fun cv => fst cv < x_nch (y_x m1)) (x_ch (y_x m1));
    rk_sg : SgOK sg (x_nch (y_x m1)) (n_nid m2) }.

  Lemma RM_split sg m2 m1 : RM nap sg m2 m1 -> RMc sg m2 m1.
  Proof. intros [H1 H2 H3 H4 H5 H6 H7 H8 H9 H10 H11 H12 H13 H14 H15 H16 H17 H18 H19 H20 H21 H22 H23 H24 H25]. constructor; assumption. Qed.

  Lemma RM_join sg m2 m1 : RMc sg m2 m1 -> x_fwd (y_x m1) = repeat no_fwd nap -> (forall idx, fw_get m2 idx = (0, 0)) -> RM nap sg m2 m1.
  Proof. intros [H1 H2 H3 H4 H5 H6 H7 H8 H9 H10 H11 H12 H13 H14 H15 H16 H17 H18 H19 H20 H21 H22 H23] A B. constructor; assumption. Qed.

  (* btbBranchUnit.assert *)
  Lemma assert_sim sg m2 m1 r2 rb : RMc sg m2 m1 -> q_instr r2 = r_instr rb -> q_pc r2 = r_pc rb ->
    RMc sg (bu_assert62 m2 r2) (bu_assert1 m1 rb) /\
    x_fwd (y_x (bu_assert1 m1 rb)) = x_fwd (y_x m1) /\ n_fw (bu_assert62 m2 r2) = n_fw m2 /\
    n_ctx (bu_assert62 m2 r2) = n_ctx m2 /\ x_nch (y_x (bu_assert1 m1 rb)) = x_nch (y_x m1) /\
    n_prev (bu_assert62 m2 r2) = n_prev m2 /\ n_nid (bu_assert62 m2 r2) = n_nid m2 /\ n_ebus (bu_assert62 m2 r2) = n_ebus m2 /\
    n_wbus (bu_assert62 m2 r2) = n_wbus m2.
  Proof.
    intros [H1 H2 H3 H4 H5 H6 H7 H8 H9 H10 H11 H12 H13 H14 H15 H16 H17 H18 H19 H20 H21 H22 H23] Hi Hpc.
    unfold bu_assert62, bu_assert1, bu_assert6, Ty. rewrite Hi, Hpc, H11.
    destruct (InstructionType_IsUnconditionalBranch (instr_InstructionType (r_instr rb))); cbn [andb].
    - destruct (btb_get (b_btb (m_bu (y_m m1))) (r_pc rb)); (split; [constructor; ss; auto; congruence | ss; repeat split; reflexivity]).
    - destruct (InstructionType_IsConditionalBranch (instr_InstructionType (r_instr rb))); (split; [constructor; ss; auto | ss; repeat split; reflexivity]).
  Qed.

  (* the steps of run after Runner.Run *)
  Lemma RM_wbus sg m2 m1 x cy : RM nap sg m2 m1 ->
    RM nap sg (set_n_wbus m2 (bb_add (n_wbus m2) x cy)) (set_m m1 (set_wbus (y_m m1) (bb_add (m_wbus (y_m m1)) x cy))).
  Proof.
    intros [H1 H2 H3 H4 H5 H6 H7 H8 H9 H10 H11 H12 H13 H14 H15 H16 H17 H18 H19 H20 H21 H22 H23 H24 H25]. constructor; ss; auto. rewrite H13. reflexivity.
  Qed.

  Lemma RM_resolved sg m2 m1 pc pcTo : RM nap sg m2 m1 -> RM nap sg (bu_resolved62 m2 pc pcTo) (bu_resolved1 m1 pc pcTo).
  Proof.
    intros [H1 H2 H3 H4 H5 H6 H7 H8 H9 H10 H11 H12 H13 H14 H15 H16 H17 H18 H19 H20 H21 H22 H23 H24 H25].
    unfold bu_resolved62, bu_resolved1, bu_resolved6. constructor; ss; auto; congruence.
  Qed.

  Lemma RM_ctx sg m2 m1 c : RM nap sg m2 m1 -> Vw c (m_regs (y_m m1)) ->
    RM nap sg (set_n_ctx (set_n_pcb m2 false) c) (set_x m1 (xs_pcb (y_x m1) false)).
  Proof.
    intros [H1 H2 H3 H4 H5 H6 H7 H8 H9 H10 H11 H12 H13 H14 H15 H16 H17 H18 H19 H20 H21 H22 H23 H24 H25] Hv. constructor; ss; auto.
  Qed.

  Lemma RM_bu sg m2 m1 b : RM nap sg m2 m1 -> RM nap sg (set_n_bu m2 b) (set_m m1 (set_bu (y_m m1) b)).
  Proof.
    intros [H1 H2 H3 H4 H5 H6 H7 H8 H9 H10 H11 H12 H13 H14 H15 H16 H17 H18 H19 H20 H21 H22 H23 H24 H25]. constructor; ss; auto.
  Qed.

  Lemma RM_send sg m2 m1 ch v : RM nap sg m2 m1 -> ch < x_nch (y_x m1) ->
    RM nap sg (set_n_chan m2 (n_chan m2 ++ [(sg ch, v)])) (set_x m1 (xs_ch (y_x m1) (x_ch (y_x m1) ++ [(ch, v)]))).
  Proof.
    intros [H1 H2 H3 H4 H5 H6 H7 H8 H9 H10 H11 H12 H13 H14 H15 H16 H17 H18 H19 H20 H21 H22 H23 H24 H25] Hc. constructor; ss; auto.
    - rewrite H21, map_app. reflexivity.
    - apply Forall_app. split; [exact H22 | constructor; [exact Hc | constructor]].
  Qed.

  (* executeUnit.run: e1 / e2 hold the instruction; f = the Forward of the instruction object *)
  Lemma run_sim sg ord cyc b m2 m1 e2 e1 r2 rb :
    RMc sg m2 m1 ->
    e_runner (u_e e1) = Some rb -> x_runner e2 = Some r2 -> x_memory e2 = e_memory (u_e e1) -> Mvp62.x_seq e2 = u_sid e1 ->
    q_instr r2 = r_instr rb -> q_pc r2 = r_pc rb -> q_seq r2 = r_seq rb -> nomem (q_instr r2) = true ->
    match u_fw e1 with None => q_fwd r2 = false | Some c => q_fwd r2 = true /\ c < x_nch (y_x m1) /\ sg c = q_id r2 end ->
    fw_get m2 (idx_of (q_pc r2)) = get_fwd m1 (r_pc rb) ->
    Seq.upd (x_fwd (y_x m1)) (iidx (r_pc rb)) no_fwd = repeat no_fwd nap ->
    (forall idx, fwg (aset (idx_of (q_pc r2)) (0, 0) (n_fw m2)) idx = (0, 0)) ->
    TxB (n_ctx m2) b -> b <= q_seq r2 ->
    forall os1 m1' e1' p, eu_run1 labels ord cyc m1 e1 = (os1, Ok (m1', e1', p)) -> p_err p = None ->
    exists os2 m2' e2' o, eu_run62 labels ord cyc m2 e2 = (os2, Ok (m2', e2', o)) /\
      RM nap sg m2' m1' /\ REi e2' e1' /\ OutR o p /\ TxB (n_ctx m2') b /\
      x_nch (y_x m1') = x_nch (y_x m1) /\ n_prev m2' = n_prev m2 /\ n_nid m2' = n_nid m2 /\ n_ebus m2' = n_ebus m2 /\
      bb_q (n_wbus m2') = bb_q (n_wbus m2).
  Proof.
    intros HK Er1 Er2 Hmem Hsid Hi Hpc Hsq Hnm Hfw F2 F3 F4 HT Hb os1 m1' e1' p E Hperr.
    unfold eu_run1 in E. rewrite Er1 in E. cbv zeta in E. unfold eu_run62. rewrite Er2.
    assert (Erun : instr_Run (q_instr r2) (rr62 m2 r2) labels (q_pc r2) (x_memory e2) 0 =
                   instr_Run (r_instr rb) (rr1 (get_fwd m1 (r_pc rb)) (m_regs (y_m m1))) labels (r_pc rb) (e_memory (u_e e1)) 0).
    { rewrite Hi, Hpc, Hmem. apply instr_Run_ext. intros r. unfold rr62. rewrite (register_read_view _ _ _ r (rk_vw _ _ _ HK)).
      rewrite <- Hpc, F2, Hpc. reflexivity. }
    rewrite Erun. destruct (instr_Run (r_instr rb) _ labels (r_pc rb) (e_memory (u_e e1)) 0) as [exe|er|] eqn:Ex.
    2:{ unfold quiet1 in E. injection E as _ _ _ <-. discriminate Hperr. }
    2:{ discriminate E. }
    assert (Hmc : MemoryChange exe = false) by (eapply nomem_nochange; [|exact Ex]; rewrite <- Hi; exact Hnm).
    (* the Forward is cleared *)
    set (m1c := set_fwd m1 (r_pc rb) no_fwd) in *. set (m2c := fw_set m2 (idx_of (q_pc r2)) (0, 0)).
    assert (HR : RM nap sg m2c m1c).
    { apply RM_join.
      - destruct HK as [H1 H2 H3 H4 H5 H6 H7 H8 H9 H10 H11 H12 H13 H14 H15 H16 H17 H18 H19 H20 H21 H22 H23]. unfold m2c, m1c. constructor; ss; auto.
      - unfold m1c. ss. exact F3.
      - intros idx. unfold m2c. rewrite fw_get_fwg. ss. apply F4. }
    assert (Hc2 : n_ctx m2c = n_ctx m2) by reflexivity.
    set (e1o := eu_co_set e1 ENone) in *. set (e2o := mk_eu62 ENone (x_memory e2) (x_runner e2) (Mvp62.x_seq e2)).
    assert (HE : REi e2o e1o).
    { unfold e2o, e1o, eu_co_set. constructor; cbn [x_co x_memory Mvp62.x_seq x_runner u_e e_co e_memory e_runner u_sid]; auto.
      rewrite Er1, Er2. cbn [option_map]. rewrite Hsq. reflexivity. }
    unfold eu_run_exe62. fold e2o. cbv zeta.
    destruct (Return exe).
    { unfold quiet1 in E. injection E as <- <- <- <-. eexists _, m2c, e2o, _. split; [reflexivity|].
      split; [exact HR|]. split; [exact HE|]. split; [repeat split|]. split; [rewrite Hc2; exact HT|]. repeat split. }
    rewrite Hmc in E |- *. cbn [andb bind] in E |- *.
    rewrite <- Hi, <- Hsq in E.
    set (wx := mk_wb6 (q_seq r2) exe (instr_ReadRegisters (q_instr r2)) (instr_WriteRegisters (q_instr r2))) in *.
    set (m1w := set_m m1c (set_wbus (y_m m1) (bb_add (m_wbus (y_m m1)) wx cyc))) in *.
    set (m2w := set_n_wbus m2c (bb_add (n_wbus m2c) wx cyc)) in *.
    assert (HRw : RM nap sg m2w m1w) by exact (RM_wbus sg m2c m1c wx cyc HR).
    assert (Hcw : n_ctx m2w = n_ctx m2) by reflexivity.
    destruct (u_fw e1) as [ch|].
    - (* Forwarder *)
      destruct Hfw as (Hq & Hch & Hsg). rewrite Hq. cbn [negb].
      destruct (existsb (fun c => fst c =? ch) (x_ch (y_x m1w))); [discriminate E|].
      rewrite Hi in E |- *. destruct (InstructionType_IsBranch (instr_InstructionType (r_instr rb))); [discriminate E|].
      injection E as <- <- <- <-. eexists _, _, e2o, _. split; [reflexivity|].
      rewrite <- Hsg. split.
      { change (RM nap sg (set_n_chan m2w (n_chan m2w ++ [(sg ch, RegisterValue exe)])) (set_x m1w (xs_ch (y_x m1w) (x_ch (y_x m1w) ++ [(ch, RegisterValue exe)])))).
        apply RM_send; [exact HRw | exact Hch]. }
      split; [exact HE|]. split; [repeat split|]. split; [ss; exact HT|]. repeat split.
    - rewrite Hfw. cbn [negb]. rewrite Hi in E |- *.
      set (ty := instr_InstructionType (r_instr rb)) in *.
      set (m13 := if InstructionType_IsUnconditionalBranch ty then bu_resolved1 m1w (r_pc rb) (NextPc exe) else m1w) in *.
      set (m23 := if InstructionType_IsUnconditionalBranch ty then bu_resolved62 m2w (q_pc r2) (NextPc exe) else m2w).
      assert (HR3 : RM nap sg m23 m13).
      { unfold m23, m13. rewrite Hpc. destruct (InstructionType_IsUnconditionalBranch ty); [apply RM_resolved|]; exact HRw. }
      assert (Hc3 : n_ctx m23 = n_ctx m2) by (unfold m23; destruct (InstructionType_IsUnconditionalBranch ty); reflexivity).
      set (m14 := if InstructionType_IsConditionalBranch ty then set_x m13 (xs_pcb (y_x m13) false) else m13) in *.
      set (m24 := if InstructionType_IsConditionalBranch ty
                  then if PcChange exe && negb (NextPc exe =? addS 32 (q_pc r2) 4) then bu_taken62 m23 (q_seq r2) else bu_nottaken62 m23
                  else m23).
      assert (HR4 : RM nap sg m24 m14 /\ TxB (n_ctx m24) b).
      { unfold m24, m14. destruct (InstructionType_IsConditionalBranch ty); [|split; [exact HR3 | rewrite Hc3; exact HT]].
        destruct (PcChange exe && negb (NextPc exe =? addS 32 (q_pc r2) 4)).
        - unfold bu_taken62. split; [|ss; apply TxB_rollback]. apply RM_ctx; [exact HR3|].
          apply Vw_rollback; [rewrite Hc3; eapply TxB_mono; [exact Hb | exact HT] | exact (rm_vw _ _ _ _ HR3)].
        - unfold bu_nottaken62. split; [|ss; apply TxB_commit]. apply RM_ctx; [exact HR3|]. apply Vw_commit. exact (rm_vw _ _ _ _ HR3). }
      destruct HR4 as [HR4 HT4].
      assert (Hfr : x_nch (y_x m14) = x_nch (y_x m1) /\ n_prev m24 = n_prev m2 /\ n_nid m24 = n_nid m2 /\ n_ebus m24 = n_ebus m2 /\ bb_q (n_wbus m24) = bb_q (n_wbus m2)).
      { unfold m14, m24, m13, m23, bu_taken62, bu_nottaken62, bu_resolved1, bu_resolved62, bu_resolved6.
        destruct (InstructionType_IsConditionalBranch ty), (InstructionType_IsUnconditionalBranch ty),
          (PcChange exe && negb (NextPc exe =? addS 32 (q_pc r2) 4)); ss; repeat split; reflexivity. }
      destruct Hfr as (Hf1 & Hf2 & Hf3 & Hf4 & Hf5).
      destruct (PcChange exe).
      + rewrite <- (rm_bu _ _ _ _ HR4) in E.
        destruct (bu_should_flush6 (n_bu m24) (NextPc exe)) as [b' fl].
        injection E as <- <- <- <-. eexists _, _, e2o, _. split; [reflexivity|].
        split; [apply RM_bu; exact HR4|]. split; [exact HE|].
        split; [destruct fl; repeat split; cbn [Mvp62.p_seq Mvp61.p_seq]; auto|]. split; [ss; exact HT4|]. ss. auto.
      + injection E as <- <- <- <-. eexists _, _, e2o, _. split; [reflexivity|].
        split; [exact HR4|]. split; [exact HE|]. split; [repeat split|]. split; [exact HT4|]. auto.
  Qed.

  Lemma get_fwd_set m pc f : (iidx pc < length (x_fwd (y_x m)))%nat -> get_fwd (set_fwd m pc f) pc = f.
  Proof. intros H. unfold get_fwd, set_fwd. ss. apply supd_nth_eq. exact H. Qed.

  (* executeUnit.Cycle of an idle unit that is idle again afterwards *)
  Lemma eu_cycle_sim sg ord cyc b m2 m1 e2 e1 :
    RM nap sg m2 m1 -> REi e2 e1 -> TxB (n_ctx m2) b -> (forall r, In r (bb_q (n_ebus m2)) -> b <= q_seq r) ->
    forall os1 m1' e1' p, eu_cycle1 labels ord cyc m1 e1 = (os1, Ok (m1', e1', p)) -> p_err p = None -> e_co (u_e e1') = ENone ->
    exists os2 m2' e2' o, eu_cycle62 labels ord cyc m2 e2 = (os2, Ok (m2', e2', o)) /\
      RM nap sg m2' m1' /\ REi e2' e1' /\ OutR o p /\ TxB (n_ctx m2') b /\
      x_nch (y_x m1') = x_nch (y_x m1) /\ n_prev m2' = n_prev m2 /\ n_nid m2' = n_nid m2 /\
      (forall r, In r (bb_q (n_ebus m2')) -> In r (bb_q (n_ebus m2))) /\ bb_q (n_wbus m2') = bb_q (n_wbus m2).
  Proof.
    intros HR HE HT Hq os1 m1' e1' p E Hperr Hidle. unfold eu_cycle1 in E. unfold eu_cycle62. rewrite (pre_eq _ _ HE).
    destruct (eu_pre1 e1).
    { unfold quiet1 in E. injection E as <- <- <- <-. unfold quiet62. eexists _, m2, _, _. split; [reflexivity|]. split; [exact HR|].
      destruct HE as [A1 A2 A3 A4 A5]. split; [|split; [repeat split | auto 10]].
      unfold eu_flush1, eu_sid_set, eu_co_set. constructor; cbn [x_co x_memory Mvp62.x_seq x_runner u_e e_co e_memory e_runner u_sid]; auto. }
    rewrite (re_co1 _ _ HE) in E. rewrite (re_co2 _ _ HE).
    pose proof (RBus_get _ _ _ (rm_ebus _ _ _ _ HR)) as Hget.
    destruct (bb_get (x_ebus (y_x m1))) as [b1' [r1|]].
    2:{ destruct Hget as [Eg _]. rewrite Eg. unfold quiet1 in E. injection E as <- <- <- <-. unfold quiet62. eexists _, m2, e2, _. split; [reflexivity|].
        split; [exact HR|]. split; [exact HE|]. split; [repeat split | auto 10]. }
    destruct Hget as (b2' & r2 & Eg & Hr & Hb').
    assert (Hin2 : In r2 (bb_q (n_ebus m2))).
    { unfold bb_get in Eg. destruct (bb_q (n_ebus m2)) as [|x q]; [discriminate|]. injection Eg as _ <-. left. reflexivity. }
    assert (Hq2 : bb_q b2' = tl (bb_q (n_ebus m2))).
    { unfold bb_get in Eg. destruct (bb_q (n_ebus m2)) as [|x q]; [discriminate|]. injection Eg as <- _. reflexivity. }
    rewrite Eg.
    set (m1g := set_x m1 (xs_ebus (y_x m1) b1')) in *. set (m2g := set_n_ebus m2 b2').
    assert (HRg : RM nap sg m2g m1g).
    { destruct HR as [H1 H2 H3 H4 H5 H6 H7 H8 H9 H10 H11 H12 H13 H14 H15 H16 H17 H18 H19 H20 H21 H22 H23 H24 H25]. unfold m2g, m1g. constructor; ss; auto. }
    destruct Hr as ([C1 C2 C3 C4 C5 C6 C7] & Hid & Hfw).
    unfold eu_prepare1 in E. unfold eu_prepare62.
    change (m_wbus (y_m m1g)) with (m_wbus (y_m m1)) in E. change (n_wbus m2g) with (n_wbus m2). rewrite (rm_wbus _ _ _ _ HR).
    destruct (bb_canadd (m_wbus (y_m m1))); cbn [negb] in E |- *.
    2:{ unfold quiet1 in E. injection E as _ _ <- _. cbn in Hidle. discriminate Hidle. }
    cbn [u_e e_runner x_runner u_rc u_freg u_fw u_sid e_memory] in E |- *.
    (* Receiver *)
    assert (Hrecv : exists m2p m1p r2p e1p f,
      (match q_recv r2 with
       | None => Some (m2g, r2)
       | Some id => match chan_take (n_chan m2g) id with
                    | None => None
                    | Some (v, ch') => Some (fw_set (set_n_chan m2g ch') (idx_of (q_pc r2)) (q_freg r2, v),
                                             mk_r2 (q_instr r2) (q_pc r2) (q_seq r2) (q_id r2) (q_fwd r2) None (q_freg r2))
                    end
       end) = Some (m2p, r2p) /\
      (match r_rc r1 with
       | None => Some (m1g, mk_eu1 (mk_eu6 EPrepare (e_memory (u_e e1)) (Some (r_b r1))) (r_fw r1) (r_rc r1) (r_freg r1) (u_sid e1))
       | Some ch => match ch_take (x_ch (y_x m1g)) ch with
                    | None => None
                    | Some (v, chs) => Some (set_fwd (set_x m1g (xs_ch (y_x m1g) chs)) (r_pc (r_b r1)) (r_freg r1, v),
                                             mk_eu1 (mk_eu6 EPrepare (e_memory (u_e e1)) (Some (r_b r1))) (r_fw r1) None (r_freg r1) (u_sid e1))
                    end
       end) = Some (m1p, e1p) /\
      RMc sg m2p m1p /\ e_runner (u_e e1p) = Some (r_b r1) /\ u_fw e1p = r_fw r1 /\ e_memory (u_e e1p) = e_memory (u_e e1) /\ u_sid e1p = u_sid e1 /\
      q_instr r2p = q_instr r2 /\ q_pc r2p = q_pc r2 /\ q_seq r2p = q_seq r2 /\ q_fwd r2p = q_fwd r2 /\ q_id r2p = q_id r2 /\
      fw_get m2p (idx_of (q_pc r2)) = f /\ get_fwd m1p (r_pc (r_b r1)) = f /\
      Seq.upd (x_fwd (y_x m1p)) (iidx (r_pc (r_b r1))) no_fwd = repeat no_fwd nap /\
      (forall idx, fwg (aset (idx_of (q_pc r2)) (0, 0) (n_fw m2p)) idx = (0, 0)) /\
      n_ctx m2p = n_ctx m2 /\ x_nch (y_x m1p) = x_nch (y_x m1) /\ n_prev m2p = n_prev m2 /\ n_nid m2p = n_nid m2 /\ n_ebus m2p = b2' /\ n_wbus m2p = n_wbus m2).
    { destruct (r_rc r1) as [ch|] eqn:Erc.
      - destruct C5 as [Eq Hch]. rewrite Eq.
        pose proof (take_sim sg (x_nch (y_x m1)) (sg_mono _ _ _ (rm_sg _ _ _ _ HR)) (x_ch (y_x m1)) ch (rm_chlt _ _ _ _ HR) Hch) as Htk.
        change (x_ch (y_x m1g)) with (x_ch (y_x m1)) in E |- *. change (n_chan m2g) with (n_chan m2). rewrite (rm_chan _ _ _ _ HR).
        destruct (ch_take (x_ch (y_x m1)) ch) as [[v chs]|].
        2:{ exfalso. unfold quiet1 in E. injection E as _ _ <- _. cbn in Hidle. discriminate Hidle. }
        destruct Htk as [Etk Hlt]. rewrite Etk. eexists _, _, _, _, (r_freg r1, v). split; [reflexivity|]. split; [reflexivity|].
        split.
        { destruct HRg as [H1 H2 H3 H4 H5 H6 H7 H8 H9 H10 H11 H12 H13 H14 H15 H16 H17 H18 H19 H20 H21 H22 H23 H24 H25]. constructor; ss; auto. }
        rewrite C4. repeat split; ss; auto.
        + rewrite fw_get_fwg. ss. unfold fwg. rewrite aget_aset, Z.eqb_refl. reflexivity.
        + rewrite <- C2. unfold get_fwd. ss. rewrite (rm_fwd _ _ _ _ HRg). apply supd_nth_eq. rewrite repeat_length. exact C6.
        + rewrite (rm_fwd _ _ _ _ HRg). rewrite <- C2. apply upd_upd_repeat.
        + intros idx. unfold fwg. rewrite !aget_aset. destruct (idx =? idx_of (q_pc r2)); [reflexivity|]. apply (rm_fw _ _ _ _ HRg).
      - rewrite C5. eexists _, _, _, _, (0, 0). split; [reflexivity|]. split; [reflexivity|]. split; [apply RM_split; exact HRg|].
        repeat split; ss; auto.
        + apply (rm_fw _ _ _ _ HRg).
        + unfold get_fwd. ss. rewrite (rm_fwd _ _ _ _ HRg). rewrite <- C2.
          apply nth_repeat.
        + rewrite (rm_fwd _ _ _ _ HRg). apply upd_repeat.
        + intros idx. apply fwg_clear. intros j. rewrite <- fw_get_fwg. apply (rm_fw _ _ _ _ HRg). }
    destruct Hrecv as (m2p & m1p & r2p & e1p & f & Ercv2 & Ercv1 & HKp & Ep1 & Ep2 & Ep3 & Ep4 & Ei & Epc & Esq & Efw & Eid & F2 & F1 & F3 & F4 & Ec & En & Epv & Eni & Eeb & Ewb).
    rewrite Ercv2. rewrite Ercv1 in E. clear Ercv1 Ercv2.
    (* branch unit *)
    destruct (assert_sim sg m2p m1p r2p (r_b r1) HKp ltac:(rewrite Ei; exact C1) ltac:(rewrite Epc; exact C2))
      as (HKa & Ga1 & Ga2 & Ga3 & Ga4 & Ga5 & Ga6 & Ga7 & Ga8).
    cbn [x_memory x_runner x_co Mvp62.x_seq].
    rewrite (nomem_no_read (q_instr r2p)) by (rewrite Ei; exact C7).
    rewrite (nomem_no_read (r_instr (r_b r1))) in E by (rewrite <- C1; exact C7).
    set (e2r := mk_eu62 ENone (x_memory e2) (Some r2p) (Mvp62.x_seq e2)).
    destruct (run_sim sg ord cyc b (bu_assert62 m2p r2p) (bu_assert1 m1p (r_b r1)) e2r e1p r2p (r_b r1) HKa Ep1 eq_refl
                ltac:(cbn [e2r x_memory]; rewrite Ep3; exact (re_mem _ _ HE)) ltac:(cbn [e2r Mvp62.x_seq]; rewrite Ep4; exact (re_seq _ _ HE))
                ltac:(rewrite Ei; exact C1) ltac:(rewrite Epc; exact C2) ltac:(rewrite Esq; exact C3) ltac:(rewrite Ei; exact C7)
                ltac:(rewrite Ep2, Ga4, En, Efw, Eid; exact Hfw)
                ltac:(rewrite Epc; unfold fw_get, get_fwd; rewrite Ga2, Ga1; fold (fw_get m2p (idx_of (q_pc r2))); fold (get_fwd m1p (r_pc (r_b r1))); congruence)
                ltac:(rewrite Ga1; exact F3) ltac:(rewrite Epc, Ga2; exact F4)
                ltac:(rewrite Ga3, Ec; exact HT) ltac:(rewrite Esq; apply Hq; exact Hin2)
                _ _ _ _ E Hperr) as (os2 & m2' & e2' & o & E2 & HR' & HE' & HO & HT' & G1 & G2 & G3 & G4 & G5).
    exists os2, m2', e2', o. split; [exact E2|]. split; [exact HR'|]. split; [exact HE'|]. split; [exact HO|]. split; [exact HT'|].
    split; [rewrite G1, Ga4, En; reflexivity|]. split; [rewrite G2, Ga5, Epv; reflexivity|]. split; [rewrite G3, Ga6, Eni; reflexivity|].
    split; [|rewrite G5, Ga8, Ewb, ?(rm_wbus _ _ _ _ HR); reflexivity].
    intros r Hin. rewrite G4, Ga7, Eeb, Hq2 in Hin. destruct (bb_q (n_ebus m2)); [destruct Hin | right; exact Hin].
  Qed.

  (* the loop over the execute units of the main loop *)
  Definition AccR (a2 : eu_out62) (a1 : eu_out6) : Prop :=
    Mvp62.p_flush a2 = o_flush a1 /\ Mvp62.p_seq a2 = o_from a1 /\ Mvp62.p_pc a2 = o_pc a1 /\ Mvp62.p_ret a2 = o_ret a1.

  Lemma eus_main_sim sg ord cyc b : forall eus2 eus1, Forall2 REi eus2 eus1 -> forall m2 m1 a2 a1,
    RM nap sg m2 m1 -> TxB (n_ctx m2) b -> (forall r, In r (bb_q (n_ebus m2)) -> b <= q_seq r) -> AccR a2 a1 ->
    forall os m1' eus1' out ae, eus_main labels ord cyc m1 eus1 a1 = (os, EAll m1' eus1' out ae) ->
    Forall (fun e => e_co (u_e e) = ENone) eus1' ->
    exists os2 m2' eus2' out2, eus_main62 labels ord cyc m2 eus2 a2 = (os2, Ok (m2', eus2', out2)) /\
      RM nap sg m2' m1' /\ Forall2 REi eus2' eus1' /\ AccR out2 out /\ TxB (n_ctx m2') b /\
      x_nch (y_x m1') = x_nch (y_x m1) /\ n_prev m2' = n_prev m2 /\ n_nid m2' = n_nid m2 /\ bb_q (n_wbus m2') = bb_q (n_wbus m2).
  Proof.
    induction 1 as [|e2 e1 t2 t1 He Ht IH]; intros m2 m1 a2 a1 HR HT Hq Ha os m1' eus1' out ae E Hidle.
    - cbn [eus_main] in E. injection E as <- <- <- <- <-. cbn [eus_main62]. eexists _, _, _, _. split; [reflexivity|]. auto 10.
    - cbn [eus_main] in E. cbn [eus_main62]. destruct Ha as (A1 & A2 & A3 & A4).
      assert (He' : REi (eu_set_seq (Mvp62.p_seq a2) e2) (eu_sid_set e1 (o_from a1))).
      { destruct He as [B1 B2 B3 B4 B5]. unfold eu_set_seq, eu_sid_set. constructor; cbn [x_co x_memory Mvp62.x_seq x_runner u_e u_sid]; auto. }
      destruct (eu_cycle1 labels ord cyc m1 (eu_sid_set e1 (o_from a1))) as [os1 [[[m1a e1a] p]|er|]] eqn:Ec; try discriminate E.
      destruct (p_err p) eqn:Ep; [discriminate E|].
      destruct (eus_main labels ord cyc m1a t1 _) as [os2 r] eqn:Er.
      destruct r as [m1b t1' acc2 ae2| |]; try discriminate E. injection E as <- <- <- <- <-.
      inversion Hidle as [|? ? Hi1 Hi2]; subst.
      destruct (eu_cycle_sim sg ord cyc b m2 m1 _ _ HR He' HT Hq _ _ _ _ Ec Ep Hi1) as (os2' & m2a & e2a & o & E2 & HRa & HEa & HO & HTa & G1 & G2 & G3 & G4 & G5).
      rewrite E2. destruct HO as (O1 & O2 & O3 & O4).
      assert (Ha' : AccR (acc_step a2 o)
                (mk_euo6 (o_flush a1 || Mvp61.p_flush p)
                   (if Mvp61.p_flush p && (negb (o_flush a1) || (Mvp61.p_seq p <? o_from a1)) then Mvp61.p_seq p else o_from a1)
                   (if Mvp61.p_flush p && (negb (o_flush a1) || (Mvp61.p_seq p <? o_from a1)) then Mvp61.p_pc p else o_pc a1)
                   (o_ret a1 || Mvp61.p_ret p))).
      { unfold acc_step, AccR; cbn [Mvp62.p_flush Mvp62.p_seq Mvp62.p_pc Mvp62.p_ret o_flush o_from o_pc o_ret]; rewrite A1, A2, A3, A4, O1, O2, O3, O4; repeat split; reflexivity. }
      destruct (IH m2a m1a (acc_step a2 o) _ HRa HTa ltac:(intros r Hr; apply Hq; apply G4; exact Hr) Ha'
                  _ _ _ _ _ Er Hi2) as (os3 & m2b & t2' & out2 & E3 & HRb & Htb & Hob & HTb & K1 & K2 & K3 & K4).
      rewrite E3. cbn [bind]. eexists _, _, _, _. split; [reflexivity|]. split; [exact HRb|]. split; [constructor; assumption|].
      split; [exact Hob|]. split; [exact HTb|]. split; [congruence|]. split; [congruence|]. split; congruence.
  Qed.

  (* write units *)
  Definition WbFine (x : wb6) : Prop :=
    RegisterChange (w_exe x) = true -> 0 <= Register (w_exe x) < 32 /\ (Register (w_exe x) = 0 -> RegisterValue (w_exe x) = 0).
  Definition dropped (before : Z) (x : wb6) : bool := negb (before =? -1) && (before <? w_seq x).

  Lemma wu_sim sg m2 m1 w bf2 bf1 bn : RM nap sg m2 m1 -> u_co w = WNone -> TxB (n_ctx m2) bn ->
    (forall x, In x (bb_q (m_wbus (y_m m1))) -> WbFine x /\ (dropped bf1 x = false -> w_seq x < bn) /\ dropped bf2 x = dropped bf1 x) ->
    forall b1' w', wu_cycle6 (y_m m1) w bf1 = Ok (b1', w') ->
    exists m2', wu_cycle62 m2 w bf2 = Ok (m2', w') /\ RM nap sg m2' (set_m m1 b1') /\ TxB (n_ctx m2') bn /\
      n_prev m2' = n_prev m2 /\ n_nid m2' = n_nid m2 /\
      (forall x, In x (bb_q (m_wbus b1')) -> In x (bb_q (m_wbus (y_m m1)))).
  Proof.
    intros HR Hw HT Hq b1' w' E. unfold wu_cycle6 in E. unfold wu_cycle62. rewrite Hw in E |- *.
    rewrite (rm_wbus _ _ _ _ HR). unfold bb_get in E |- *.
    pose proof HR as [H1 H2 H3 H4 H5 H6 H7 H8 H9 H10 H11 H12 H13 H14 H15 H16 H17 H18 H19 H20 H21 H22 H23 H24 H25].
    destruct (bb_q (m_wbus (y_m m1))) as [|x q] eqn:Eq.
    { injection E as <- <-. eexists. split; [reflexivity|]. split; [constructor; ss; auto|]. split; [exact HT|]. ss. rewrite Eq. auto. }
    destruct (Hq x (or_introl eq_refl)) as (Hf & Hs & Hd). fold (dropped bf2 x). fold (dropped bf1 x) in E. rewrite Hd.
    assert (Hin : forall y, In y q -> In y (x :: q)) by (intros y Hy; right; exact Hy).
    destruct (dropped bf1 x).
    { injection E as <- <-. eexists. split; [reflexivity|]. split; [constructor; ss; auto|]. split; [exact HT|]. ss. auto. }
    specialize (Hs eq_refl).
    destruct (RegisterChange (w_exe x)) eqn:Erc.
    { injection E as <- <-. destruct (Hf Erc) as [Hr0 Hv0]. eexists. split; [reflexivity|].
      split; [constructor; ss; auto; try congruence; apply Vw_write; assumption|]. split; [ss; apply TxB_write; assumption|]. ss. auto. }
    destruct (MemoryChange (w_exe x)).
    { injection E as <- <-. eexists. split; [reflexivity|]. split; [constructor; ss; auto|]. split; [exact HT|]. ss. auto. }
    injection E as <- <-. eexists. split; [reflexivity|]. split; [constructor; ss; auto; congruence|]. split; [exact HT|]. ss. auto.
  Qed.

  Lemma wus_sim sg bf2 bf1 bn : forall wus m2 m1, Forall (fun w => u_co w = WNone) wus -> RM nap sg m2 m1 -> TxB (n_ctx m2) bn ->
    (forall x, In x (bb_q (m_wbus (y_m m1))) -> WbFine x /\ (dropped bf1 x = false -> w_seq x < bn) /\ dropped bf2 x = dropped bf1 x) ->
    forall b1' wus', wus_cycle (y_m m1) wus bf1 = Ok (b1', wus') ->
    exists m2', wus_cycle62 m2 wus bf2 = Ok (m2', wus') /\ RM nap sg m2' (set_m m1 b1') /\ TxB (n_ctx m2') bn /\
      n_prev m2' = n_prev m2 /\ n_nid m2' = n_nid m2.
  Proof.
    induction wus as [|w t IH]; intros m2 m1 Hw HR HT Hq b1' wus' E.
    - cbn [wus_cycle] in E. injection E as <- <-. cbn [wus_cycle62]. exists m2. split; [reflexivity|]. split; [destruct m1; exact HR | auto].
    - cbn [wus_cycle] in E. cbn [wus_cycle62]. inversion Hw as [|? ? Hw1 Hw2]; subst.
      destruct (wu_cycle6 (y_m m1) w bf1) as [[b1a wa]| |] eqn:E1; try discriminate E. cbn [bind fst snd] in E.
      destruct (wu_sim sg m2 m1 w bf2 bf1 bn HR Hw1 HT Hq _ _ E1) as (m2a & E2 & HRa & HTa & G1 & G2 & G3).
      rewrite E2. cbn [bind fst snd].
      destruct (wus_cycle b1a t bf1) as [[b1b wb]| |] eqn:E3; try discriminate E. cbn [bind fst snd] in E. injection E as <- <-.
      destruct (IH m2a (set_m m1 b1a) Hw2 HRa HTa ltac:(intros x Hx; apply Hq; apply G3; exact Hx) _ _ E3) as (m2b & E4 & HRb & HTb & K1 & K2).
      rewrite E4. cbn [bind fst snd]. exists m2b. split; [reflexivity|]. split; [exact HRb|]. split; [exact HTb|]. split; congruence.
  Qed.
End Exec.
