(* Soundness of the ghost flag of the model of MVP-8.0, part 5: statement of the commutation of two compatible snoop
   closures (definitions only; the proofs per pair of kinds are in Mvp80OrdSwap*.v, the use in Mvp80OrdComm.v). *)
From Coq Require Import ZArith List Bool Lia.
From Maj Require Import Base.Outcome Base.GoInt Base.GoTypes Isa.Spec Isa.Seq.
From Maj Require Import Gen.Latency Gen.RiscTables Gen.Opcodes Comp.Cache Comp.Rat Mvp.Mvp12 Mvp.Mvp3 Mvp.Mvp5 Mvp.Mvp60 Mvp.Mvp63 Mvp.Mvp80.
From Maj Require Import Mvp.Mvp80OrdSnoop Mvp.Mvp80OrdCache Mvp.Mvp80OrdInvDefs.
Import ListNotations.
Open Scope Z_scope.

(* two closures of one snoop list called one after the other (two consecutive iterations of slices.DeleteFunc):
   the shared part, the controller, what is left of the first closure, what is left of the second *)
Definition sn2 (w : mw) (c : cc8) (x y : snoop_cl) : outcome (mw * cc8 * option snoop_cl * option snoop_cl) :=
  r1 <- sn_step w c x ;;
  r2 <- sn_step (fst (fst r1)) (snd (fst r1)) y ;;
  Ok (fst (fst r2), snd (fst r2), snd r1, snd r2).

(* the result of "x then y" against the result of "y then x" *)
Definition sn2_swapped (r1 r2 : mw * cc8 * option snoop_cl * option snoop_cl) : Prop :=
  w_mem (fst (fst (fst r1))) = w_mem (fst (fst (fst r2))) /\
  w_l3 (fst (fst (fst r1))) = w_l3 (fst (fst (fst r2))) /\
  msi_equiv (w_msi (fst (fst (fst r1)))) (w_msi (fst (fst (fst r2)))) /\
  snd (fst (fst r1)) = snd (fst (fst r2)) /\
  snd (fst r1) = snd r2 /\
  snd r1 = snd (fst r2).

(* outcomes related by R (a panic is a panic, an error the same error) *)
Definition orel_sw {A} (R : A -> A -> Prop) (o1 o2 : outcome A) : Prop :=
  match o1, o2 with Ok a, Ok b => R a b | Err e1, Err e2 => e1 = e2 | Panic, Panic => True | _, _ => False end.

(* calling two compatible closures in either order: a panic in both orders, or the same memory system up to
   msi_equiv, the same controller, the same remaining closures *)
Definition sn_swap_stmt (x y : snoop_cl) : Prop :=
  forall w c,
  mw_ok w -> cc_ok c ->
  sn_unary (w_msi w) (c_id c) x -> sn_unary (w_msi w) (c_id c) y -> sn_compat x y ->
  orel_sw sn2_swapped (sn2 w c x y) (sn2 w c y x).
