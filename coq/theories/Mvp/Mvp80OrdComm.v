(* Soundness of the ghost flag of the model of MVP-8.0, part 6: from the commutation of two compatible snoop closures
   (sn_swap_stmt, Mvp80OrdSwap*.v) and the invariants (Mvp80OrdInv.v) to: the snoop list of a controller can be run
   in any order (sn_run_perm), one call of cc.snoop.Cycle and the loop over the controllers under two order functions
   (cc_snoop_cycle_rel, snoops_cycle_rel). *)
From Coq Require Import ZArith List Bool Lia Permutation.
From Maj Require Import Base.Outcome Base.GoInt Base.GoTypes Isa.Spec Isa.Seq.
From Maj Require Import Gen.Latency Gen.RiscTables Gen.Opcodes Comp.Cache Comp.Rat Comp.RatProofs Mvp.Mvp12 Mvp.Mvp3 Mvp.Mvp5 Mvp.Mvp60 Mvp.Mvp63 Mvp.Mvp80.
From Maj Require Import Mvp.Mvp60Proofs Mvp.Mvp63Proofs Mvp.Mvp80Proofs Mvp.Mvp80OrdIds Mvp.Mvp80OrdProofs.
From Maj Require Import Mvp.Mvp80OrdSnoop Mvp.Mvp80OrdCache Mvp.Mvp80OrdInvDefs Mvp.Mvp80OrdCommDefs Mvp.Mvp80OrdCong.
Import ListNotations.
Open Scope Z_scope.

(* ------------------------------------------------------------------ *)
(* 0. relations                                                         *)
(* ------------------------------------------------------------------ *)

Lemma mw_equiv_sym : forall w1 w2, mw_equiv w1 w2 -> mw_equiv w2 w1.
Proof. intros w1 w2 (A & B & C). unfold mw_equiv. split; [auto|]. split; [auto|]. apply msi_equiv_sym; exact C. Qed.

Lemma mw_equiv_trans : forall w1 w2 w3, mw_equiv w1 w2 -> mw_equiv w2 w3 -> mw_equiv w1 w3.
Proof.
  intros w1 w2 w3 (A & B & C) (A' & B' & C'). unfold mw_equiv.
  split; [congruence|]. split; [congruence|]. eapply msi_equiv_trans; eauto.
Qed.

Lemma orel_trans : forall A (R : A -> A -> Prop) o1 o2 o3,
  (forall a b c, R a b -> R b c -> R a c) -> orel R o1 o2 -> orel R o2 o3 -> orel R o1 o3.
Proof.
  intros A R [a|e|] [b|e'|] [c|e''|] T H1 H2; cbn [orel] in *; try contradiction; eauto. congruence.
Qed.

Lemma orel_sw_orel : forall A (R : A -> A -> Prop) o1 o2, orel_sw R o1 o2 <-> orel R o1 o2.
Proof. intros. reflexivity. Qed.

(* the result of running a snoop list: related memory systems, equal controllers, the remaining closures permuted *)
Definition run_rel (r1 r2 : mw * cc8 * list snoop_cl) : Prop :=
  mw_equiv (fst (fst r1)) (fst (fst r2)) /\ snd (fst r1) = snd (fst r2) /\ Permutation (snd r1) (snd r2).

Lemma run_rel_trans : forall a b c, run_rel a b -> run_rel b c -> run_rel a c.
Proof.
  intros a b c (A1 & A2 & A3) (B1 & B2 & B3). unfold run_rel.
  split; [eapply mw_equiv_trans; eauto|]. split; [congruence|]. eapply Permutation_trans; eauto.
Qed.

(* ------------------------------------------------------------------ *)
(* 1. invariants of snoop lists                                         *)
(* ------------------------------------------------------------------ *)

Lemma sn_compat_sym : forall a b, sn_compat a b -> sn_compat b a.
Proof.
  intros a b [H1 H2]. split; [rewrite sn_conflict_sym; exact H1|].
  intros Hb Ha E. apply (H2 Ha Hb). symmetry. exact E.
Qed.

Lemma ForallOrdPairs_perm : forall A (R : A -> A -> Prop) l1 l2,
  (forall a b, R a b -> R b a) -> Permutation l1 l2 -> ForallOrdPairs R l1 -> ForallOrdPairs R l2.
Proof.
  intros A R l1 l2 S P. induction P; intros H.
  - constructor.
  - inversion H as [|? ? H1 H2]; subst. constructor; [|apply IHP; exact H2].
    eapply Permutation_Forall; eauto.
  - inversion H as [|? ? H1 H2]; subst. inversion H2 as [|? ? H3 H4]; subst.
    inversion H1 as [|? ? H5 H6]; subst.
    constructor; [constructor; [apply S; exact H5 | exact H3]|].
    constructor; [exact H6 | exact H4].
  - auto.
Qed.

Lemma sn_list_ok_perm : forall k id l1 l2, Permutation l1 l2 -> sn_list_ok k id l1 -> sn_list_ok k id l2.
Proof.
  intros k id l1 l2 P [U C]. split.
  - eapply Permutation_Forall; eauto.
  - eapply ForallOrdPairs_perm; eauto. exact sn_compat_sym.
Qed.

Lemma sn_list_ok_tail : forall k id x l, sn_list_ok k id (x :: l) -> sn_list_ok k id l.
Proof. intros k id x l [U C]. inversion U; subst. inversion C; subst. split; assumption. Qed.

Section Comm.

(* what the other files provide *)
Hypothesis SWAP : forall x y, sn_swap_stmt x y.
Hypothesis STEP_INV : forall w c s w' c' o, sn_step w c s = Ok (w', c', o) -> mw_ok w -> cc_ok c ->
  mw_ok w' /\ cc_ok c' /\ keys_le (w_msi w) (w_msi w') /\ c_snoop c' = c_snoop c /\
  (forall s', o = Some s' -> sn_key s' = sn_key s /\ sn_cid s' = sn_cid s /\ sn_isl1 s' = sn_isl1 s /\ (sn_kind_ok s -> sn_kind_ok s')).
Hypothesis LIST_KEYS_LE : forall k k' id l, keys_le k k' -> sn_list_ok k id l -> sn_list_ok k' id l.

(* ------------------------------------------------------------------ *)
(* 2. running a snoop list in two orders                                *)
(* ------------------------------------------------------------------ *)

Definition ocons {A} (o : option A) (l : list A) : list A := match o with Some a => a :: l | None => l end.

Lemma sn_run_cons : forall w c s t,
  sn_run w c (s :: t) =
  r <- sn_step w c s ;; r2 <- sn_run (fst (fst r)) (snd (fst r)) t ;;
  Ok (fst (fst r2), snd (fst r2), ocons (snd r) (snd r2)).
Proof.
  intros. cbn [sn_run]. destruct (sn_step w c s) as [[[w1 c1] o]| |]; cbn [bind fst snd]; try reflexivity.
  destruct (sn_run w1 c1 t) as [[[w2 c2] t']| |]; cbn [bind fst snd]; reflexivity.
Qed.

Lemma sn_run_cons2 : forall w c x y t,
  sn_run w c (x :: y :: t) =
  r <- sn2 w c x y ;; r2 <- sn_run (fst (fst (fst r))) (snd (fst (fst r))) t ;;
  Ok (fst (fst r2), snd (fst r2), ocons (snd (fst r)) (ocons (snd r) (snd r2))).
Proof.
  intros. rewrite sn_run_cons. unfold sn2.
  destruct (sn_step w c x) as [[[w1 c1] ox]| |]; cbn [bind fst snd]; try reflexivity.
  rewrite sn_run_cons.
  destruct (sn_step w1 c1 y) as [[[w2 c2] oy]| |]; cbn [bind fst snd]; try reflexivity.
  destruct (sn_run w2 c2 t) as [[[w3 c3] t']| |]; cbn [bind fst snd]; reflexivity.
Qed.

Lemma ocons_swap : forall A (a b : option A) l, Permutation (ocons a (ocons b l)) (ocons b (ocons a l)).
Proof. intros A [a|] [b|] l; cbn [ocons]; try apply Permutation_refl. apply perm_swap. Qed.

Lemma sn_run_equiv_rel : forall l w1 w2 c, mw_equiv w1 w2 -> orel run_rel (sn_run w1 c l) (sn_run w2 c l).
Proof.
  intros l w1 w2 c H. pose proof (sn_run_equiv l w1 w2 c H) as E.
  eapply orel_impl; [|exact E]. intros [[a1 a2] a3] [[b1 b2] b3] (X & Y & Z). cbn [fst snd] in *.
  unfold run_rel. cbn [fst snd]. subst. auto.
Qed.

Theorem sn_run_perm : forall l1 l2, Permutation l1 l2 -> forall w1 w2 c,
  mw_equiv w1 w2 -> mw_ok w1 -> cc_ok c -> sn_list_ok (w_msi w1) (c_id c) l1 ->
  orel run_rel (sn_run w1 c l1) (sn_run w2 c l2).
Proof.
  intros l1 l2 P. induction P as [|x l l' P IH|x y l|l l' l'' P1 IH1 P2 IH2]; intros w1 w2 c E MW CC OK.
  - apply sn_run_equiv_rel. exact E.
  - (* the same closure first *)
    rewrite !sn_run_cons.
    pose proof (sn_step_equiv w1 w2 c x E) as S.
    destruct (sn_step w1 c x) as [[[wa ca] oa]| |] eqn:E1, (sn_step w2 c x) as [[[wb cb] ob]| |];
      cbn [orel] in S; try contradiction; cbn [bind fst snd]; try exact I; try exact S.
    destruct S as (Sw & Sc & So). cbn [fst snd] in Sw, Sc, So. subst cb ob.
    destruct (STEP_INV _ _ _ _ _ _ E1 MW CC) as (MW' & CC' & KL & _ & _).
    assert (OK' : sn_list_ok (w_msi wa) (c_id ca) l).
    { rewrite (sn_step_id _ _ _ _ _ _ E1). eapply LIST_KEYS_LE; [exact KL|]. eapply sn_list_ok_tail; eauto. }
    specialize (IH wa wb ca Sw MW' CC' OK').
    destruct (sn_run wa ca l) as [[[wa' ca'] la]| |], (sn_run wb ca l') as [[[wb' cb'] lb]| |];
      cbn [orel] in IH; try contradiction; cbn [bind orel fst snd]; auto.
    destruct IH as (X & Y & Z). cbn [fst snd] in *. unfold run_rel. cbn [fst snd].
    split; [exact X|]. split; [exact Y|]. destruct oa; cbn [ocons]; [apply perm_skip|]; exact Z.
  - (* two closures swapped *)
    eapply orel_trans; [exact run_rel_trans | | apply sn_run_equiv_rel; exact E].
    rewrite !sn_run_cons2.
    destruct OK as [U C]. inversion U as [|? ? Uy U']; subst. inversion U' as [|? ? Ux U'']; subst.
    inversion C as [|? ? Cy C']; subst. inversion Cy as [|? ? Cyx _]; subst.
    pose proof (SWAP y x w1 c MW CC Uy Ux Cyx) as S. unfold orel_sw in S.
    destruct (sn2 w1 c y x) as [[[[wa ca] oy] ox]| |], (sn2 w1 c x y) as [[[[wb cb] ox'] oy']| |];
      try contradiction; cbn [bind fst snd orel]; auto.
    destruct S as (Sm & Sl & Sk & Sc & So1 & So2). cbn [fst snd] in *. subst cb ox' oy'.
    assert (Ew : mw_equiv wa wb) by (unfold mw_equiv; auto).
    pose proof (sn_run_equiv l wa wb ca Ew) as R.
    destruct (sn_run wa ca l) as [[[wa' ca'] la]| |], (sn_run wb ca l) as [[[wb' cb'] lb]| |];
      cbn [orel] in R; try contradiction; cbn [bind orel fst snd]; auto.
    destruct R as (X & Y & Z). cbn [fst snd] in *. subst. unfold run_rel. cbn [fst snd].
    split; [exact X|]. split; [reflexivity|]. apply ocons_swap.
  - eapply orel_trans; [exact run_rel_trans | apply (IH1 w1 w1 c (mw_equiv_refl w1) MW CC OK) |].
    apply IH2; auto. eapply sn_list_ok_perm; eauto.
Qed.


(* ------------------------------------------------------------------ *)
(* 3. one call of cc.snoop.Cycle under two order functions              *)
(* ------------------------------------------------------------------ *)

Lemma cc_perm_refl : forall c, cc_perm c c.
Proof. intros c. unfold cc_perm. repeat split; reflexivity. Qed.

Lemma cc_perm_trans : forall a b c, cc_perm a b -> cc_perm b c -> cc_perm a c.
Proof.
  intros a b c (A1 & A2 & A3 & A4 & A5 & A6 & A7 & A8) (B1 & B2 & B3 & B4 & B5 & B6 & B7 & B8).
  unfold cc_perm. repeat split; try congruence. eapply Permutation_trans; eauto.
Qed.

Lemma cc_perm_sym : forall a b, cc_perm a b -> cc_perm b a.
Proof.
  intros a b (A1 & A2 & A3 & A4 & A5 & A6 & A7 & A8). unfold cc_perm. repeat split; try congruence.
  apply Permutation_sym; exact A5.
Qed.

Lemma cc_perm_set_snoop : forall c1 c2 l1 l2, cc_perm c1 c2 -> Permutation l1 l2 -> cc_perm (set_snoop c1 l1) (set_snoop c2 l2).
Proof.
  intros c1 c2 l1 l2 (A1 & A2 & A3 & A4 & A5 & A6 & A7 & A8) P. unfold cc_perm, set_snoop.
  cbn [c_id c_l1d c_read c_write c_snoop c_rsems c_wsems c_post]. repeat split; auto.
Qed.

Lemma cc_perm_nil : forall c1 c2, cc_perm c1 c2 -> c_snoop c1 = [] -> c1 = c2.
Proof.
  intros [i1 l1 r1 w1 s1 rs1 ws1 p1] [i2 l2 r2 w2 s2 rs2 ws2 p2] (A1 & A2 & A3 & A4 & A5 & A6 & A7 & A8) E.
  cbn [c_id c_l1d c_read c_write c_snoop c_rsems c_wsems c_post] in *. subst.
  apply Permutation_nil in A5. subst. reflexivity.
Qed.

(* the controller result of a snoop step: only the L1 is read and written *)
Definition stepc_rel (r1 r2 : mw * cc8 * option snoop_cl) : Prop :=
  fst (fst r1) = fst (fst r2) /\ cc_perm (snd (fst r1)) (snd (fst r2)) /\ snd r1 = snd r2.

Lemma cc_perm_set_l1d : forall c1 c2 l, cc_perm c1 c2 -> cc_perm (set_l1d c1 l) (set_l1d c2 l).
Proof.
  intros c1 c2 l (A1 & A2 & A3 & A4 & A5 & A6 & A7 & A8). unfold cc_perm, set_l1d.
  cbn [c_id c_l1d c_read c_write c_snoop c_rsems c_wsems c_post]. repeat split; auto.
Qed.

Lemma sn_step_ccperm : forall w c1 c2 s, cc_perm c1 c2 -> orel stepc_rel (sn_step w c1 s) (sn_step w c2 s).
Proof.
  intros w c1 c2 s H. pose proof H as (A1 & A2 & A3 & A4 & A5 & A6 & A7 & A8).
  unfold sn_step. rewrite <- A2.
  destruct s; cbv zeta;
  repeat match goal with
         | |- orel _ (bind ?m _) (bind ?m _) => destruct m as [?x| |]; cbn [bind orel]; auto
         | |- orel _ (match ?e with _ => _ end) (match ?e with _ => _ end) => destruct e
         | |- orel _ (if ?e then _ else _) (if ?e then _ else _) => destruct e
         end;
  cbn [orel]; auto;
  unfold stepc_rel; cbn [fst snd]; repeat split; auto using cc_perm_set_l1d.
Qed.

Definition runc_rel (r1 r2 : mw * cc8 * list snoop_cl) : Prop :=
  fst (fst r1) = fst (fst r2) /\ cc_perm (snd (fst r1)) (snd (fst r2)) /\ snd r1 = snd r2.

Lemma sn_run_ccperm : forall l w c1 c2, cc_perm c1 c2 -> orel runc_rel (sn_run w c1 l) (sn_run w c2 l).
Proof.
  induction l as [|s t IH]; intros w c1 c2 H.
  - cbn [sn_run orel]. unfold runc_rel. cbn [fst snd]. auto.
  - rewrite !sn_run_cons. pose proof (sn_step_ccperm w c1 c2 s H) as S.
    destruct (sn_step w c1 s) as [[[wa ca] oa]| |], (sn_step w c2 s) as [[[wb cb] ob]| |];
      cbn [orel] in S; try contradiction; cbn [bind fst snd orel]; auto.
    destruct S as (X & Y & Z). cbn [fst snd] in *. subst.
    specialize (IH wb ca cb Y).
    destruct (sn_run wb ca t) as [[[wa' ca'] la]| |], (sn_run wb cb t) as [[[wb' cb'] lb]| |];
      cbn [orel] in IH; try contradiction; cbn [bind fst snd orel]; auto.
    destruct IH as (X' & Y' & Z'). cbn [fst snd] in *. subst. unfold runc_rel. cbn [fst snd]. auto.
Qed.

Lemma NoDup_map_filter : forall A B (f : A -> B) (p : A -> bool) l, NoDup (map f l) -> NoDup (map f (filter p l)).
Proof.
  intros A B f p l. induction l as [|a t IH]; intros N; [constructor|].
  cbn [map filter] in *. inversion N as [|? ? N1 N2]; subst.
  destruct (p a); [|apply IH; exact N2].
  cbn [map]. constructor; [|apply IH; exact N2].
  intros C. apply N1. apply in_map_iff in C. destruct C as [x [E I]]. apply filter_In in I.
  apply in_map_iff. exists x. tauto.
Qed.

(* the result of a call: related memory systems, controllers that differ by the order of their closures *)
Definition snoopc_rel (r1 r2 : mw * cc8) : Prop := mw_equiv (fst r1) (fst r2) /\ cc_perm (snd r1) (snd r2).

Theorem cc_snoop_cycle_rel : forall ord1 ord2 cycle w1 w2 c1 c2,
  mw_equiv w1 w2 -> cc_perm c1 c2 -> mw_ok w1 -> cc_ok c1 -> sn_list_ok (w_msi w1) (c_id c1) (c_snoop c1) ->
  fst (cc_snoop_cycle ord1 cycle w1 c1) = fst (cc_snoop_cycle ord2 cycle w2 c2) /\
  orel snoopc_rel (snd (cc_snoop_cycle ord1 cycle w1 c1)) (snd (cc_snoop_cycle ord2 cycle w2 c2)).
Proof.
  intros ord1 ord2 cycle w1 w2 c1 c2 E P MW CC OK.
  pose proof P as (A1 & A2 & A3 & A4 & A5 & A6 & A7 & A8).
  unfold cc_snoop_cycle.
  destruct (c_snoop c1) as [|s1 t1] eqn:S1.
  - (* coSnoop *)
    assert (c1 = c2) by (eapply cc_perm_nil; eauto). subst c2. rewrite S1.
    destruct E as (Em & El & Ek). pose proof Ek as (_ & _ & _ & Ecmds & _).
    rewrite <- Ecmds. cbn [fst snd]. split; [reflexivity|].
    set (reqs := filter (fun kc => ck_id (fst kc) =? c_id c1) (k_cmds (w_msi w1))).
    assert (N : NoDup (map snd reqs)).
    { apply NoDup_map_filter. destruct MW as (_ & N & _). exact N. }
    pose proof (snoop_sorted_perm ord1 cycle (- (3 + c_id c1)) reqs N) as P1.
    pose proof (snoop_sorted_perm ord2 cycle (- (3 + c_id c1)) reqs N) as P2.
    unfold snoop_sorted in P1, P2.
    assert (P12 : Permutation
              (flat_map (fun cid => filter (fun kc => snd kc =? cid) reqs) (map_order ord1 cycle (- (3 + c_id c1)) (map snd reqs)))
              (flat_map (fun cid => filter (fun kc => snd kc =? cid) reqs) (map_order ord2 cycle (- (3 + c_id c1)) (map snd reqs))))
      by (eapply Permutation_trans; [exact P1 | apply Permutation_sym; exact P2]).
    pose proof (sn_create_all_perm _ _ w1 c1 P12) as C.
    assert (Ew : mw_equiv w1 w2) by (unfold mw_equiv; auto).
    pose proof (sn_create_all_equiv
                  (flat_map (fun cid => filter (fun kc => snd kc =? cid) reqs) (map_order ord2 cycle (- (3 + c_id c1)) (map snd reqs)))
                  w1 w2 c1 Ew) as Q.
    destruct (sn_create_all w1 c1 (flat_map _ (map_order ord1 _ _ _))) as [[wa ca]| |],
             (sn_create_all w1 c1 (flat_map _ (map_order ord2 _ _ _))) as [[wb cb]| |],
             (sn_create_all w2 c1 (flat_map _ (map_order ord2 _ _ _))) as [[wc cc]| |];
      cbn [orel] in *; try contradiction; auto; try congruence.
    destruct C as [-> C]. destruct Q as [Q1 Q2]. cbn [fst snd] in *. subst.
    unfold snoopc_rel. cbn [fst snd]. auto.
  - (* the closures of the list *)
    destruct (c_snoop c2) as [|s2 t2] eqn:S2.
    { apply Permutation_sym, Permutation_nil in A5. discriminate. }
    cbn [fst snd]. split; [reflexivity|].
    pose proof (sn_run_perm (s1 :: t1) (s2 :: t2) A5 w1 w2 c1 E MW CC OK) as R1.
    pose proof (sn_run_ccperm (s2 :: t2) w2 c1 c2 P) as R2.
    destruct (sn_run w1 c1 (s1 :: t1)) as [[[wa ca] la]| |], (sn_run w2 c1 (s2 :: t2)) as [[[wb cb] lb]| |],
             (sn_run w2 c2 (s2 :: t2)) as [[[wc cc] lc]| |];
      cbn [orel] in *; try contradiction; cbn [bind orel]; auto; try congruence.
    destruct R1 as (X1 & Y1 & Z1). destruct R2 as (X2 & Y2 & Z2). cbn [fst snd] in *. subst.
    unfold snoopc_rel. cbn [fst snd]. split; [exact X1|]. apply cc_perm_set_snoop; auto.
Qed.


(* ------------------------------------------------------------------ *)
(* 4. the loop over the controllers, snoops8                            *)
(* ------------------------------------------------------------------ *)

Hypothesis CYCLE_INV : forall ord cycle w c w' c', snd (cc_snoop_cycle ord cycle w c) = Ok (w', c') ->
  mw_ok w -> cc_ok c -> sn_list_ok (w_msi w) (c_id c) (c_snoop c) ->
  mw_ok w' /\ cc_ok c' /\ keys_le (w_msi w) (w_msi w') /\ c_id c' = c_id c.

Definition snoops_rel (r1 r2 : mw * list cc8) : Prop := mw_equiv (fst r1) (fst r2) /\ Forall2 cc_perm (snd r1) (snd r2).

Theorem snoops_cycle_rel : forall ord1 ord2 cycle ccs1 ccs2, Forall2 cc_perm ccs1 ccs2 -> forall w1 w2,
  mw_equiv w1 w2 -> mw_ok w1 -> Forall cc_ok ccs1 ->
  Forall (fun c => sn_list_ok (w_msi w1) (c_id c) (c_snoop c)) ccs1 ->
  fst (snoops_cycle ord1 cycle w1 ccs1) = fst (snoops_cycle ord2 cycle w2 ccs2) /\
  orel snoops_rel (snd (snoops_cycle ord1 cycle w1 ccs1)) (snd (snoops_cycle ord2 cycle w2 ccs2)).
Proof.
  intros ord1 ord2 cycle ccs1 ccs2 F. induction F as [|c1 c2 t1 t2 P F IH]; intros w1 w2 E MW CCS OKS.
  - cbn [snoops_cycle fst snd orel]. split; [reflexivity|]. unfold snoops_rel. cbn [fst snd]. auto.
  - cbn [snoops_cycle].
    inversion CCS as [|? ? CC CCt]; subst. inversion OKS as [|? ? OK OKt]; subst.
    destruct (cc_snoop_cycle_rel ord1 ord2 cycle w1 w2 c1 c2 E P MW CC OK) as [EF ER].
    pose proof (CYCLE_INV ord1 cycle w1 c1) as CI.
    destruct (cc_snoop_cycle ord1 cycle w1 c1) as [osa ra], (cc_snoop_cycle ord2 cycle w2 c2) as [osb rb].
    cbn [fst snd] in *. subst osb.
    destruct ra as [[wa ca]| |], rb as [[wb cb]| |]; cbn [orel] in ER; try contradiction;
      cbn [fst snd orel]; auto.
    destruct ER as [Ew Ec]. cbn [fst snd] in Ew, Ec.
    destruct (CI wa ca eq_refl MW CC OK) as (MW' & CC' & KL & _).
    assert (OKt' : Forall (fun c => sn_list_ok (w_msi wa) (c_id c) (c_snoop c)) t1).
    { eapply Forall_impl; [|exact OKt]. intros c H. eapply LIST_KEYS_LE; eauto. }
    destruct (IH wa wb Ew MW' CCt OKt') as [EF2 ER2].
    destruct (snoops_cycle ord1 cycle wa t1) as [os2a r2a], (snoops_cycle ord2 cycle wb t2) as [os2b r2b].
    cbn [fst snd] in *. subst os2b. split; [reflexivity|].
    destruct r2a as [[wa' la]| |], r2b as [[wb' lb]| |]; cbn [orel] in ER2; try contradiction;
      cbn [bind orel fst snd]; auto.
    destruct ER2 as [X Y]. cbn [fst snd] in X, Y. unfold snoops_rel. cbn [fst snd]. split; [exact X|].
    constructor; assumption.
Qed.

(* two machines: the same pipeline, directories related by msi_equiv, controllers by cc_perm *)
Definition my_rel (y1 y2 : my) : Prop :=
  y_x y1 = y_x y2 /\ msi_equiv (y_msi y1) (y_msi y2) /\ y_copy y1 = y_copy y2 /\ y_pref y1 = y_pref y2 /\
  Forall2 cc_perm (y_ccs y1) (y_ccs y2).

Theorem snoops8_rel : forall ord1 ord2 cycle y1 y2, my_rel y1 y2 -> my_inv y1 ->
  orel my_rel (snoops8 ord1 cycle y1) (snoops8 ord2 cycle y2).
Proof.
  intros ord1 ord2 cycle y1 y2 (Rx & Rk & Rc & Rp & Rcc) (MW & CCS & OKS). unfold snoops8.
  assert (E : mw_equiv (mw_of y1) (mw_of y2)).
  { unfold mw_equiv, mw_of. cbn [w_mem w_l3 w_msi]. rewrite Rx. auto. }
  destruct (snoops_cycle_rel ord1 ord2 cycle _ _ Rcc _ _ E MW CCS OKS) as [EF ER].
  destruct (snoops_cycle ord1 cycle (mw_of y1) (y_ccs y1)) as [osa ra],
           (snoops_cycle ord2 cycle (mw_of y2) (y_ccs y2)) as [osb rb].
  cbn [fst snd] in *. subst osb.
  destruct ra as [[wa la]| |], rb as [[wb lb]| |]; cbn [orel] in ER; try contradiction; cbn [bind orel fst snd]; auto.
  destruct ER as [(Em & El & Ek) Ecc]. cbn [fst snd] in *.
  unfold my_rel, or_os8, set_ccs, put_mw, set_ymsi, set_x.
  cbn [y_x y_msi y_copy y_pref y_ccs].
  rewrite Rx, Em, El. auto.
Qed.

End Comm.
