(* Refinement of MVP-6.3 to the sequential machine on single-assignment, register-only,
   straight-line programs - part 5: one tick of Run.

   du_cycle3_eq     decodeUnit.cycle of MVP-6.3 is that of MVP-6.0 while ctx.sequenceID = 0 and all forward
                    fields are clear (the bridge to Mvp60RefStep.fd_ok);
   cu_cycle3_cbuf   controlUnit.cycle leaves the buffer of the control bus alone;
   G3 / GR3         the invariants of the main loop and of the drain loop after ret: FrontI of the
                    MVP-6.0 proof on the shared machine, BI, and the timing facts (idle execute units,
                    empty write-bus queue between ticks);
   phi3             the potential (every item moves downstream);
   step_normal3, step_ret3   one tick in either loop. *)
From Coq Require Import ZArith List Bool Lia Permutation.
From Maj Require Import Base.Outcome Base.GoInt Base.GoTypes Isa.Spec Isa.Embed Isa.Seq Isa.Refine.
From Maj Require Import Gen.Latency Gen.RiscTables Gen.Opcodes Comp.Cache Comp.Rat Comp.RatProofs.
From Maj Require Import Mvp.Mvp12 Mvp.Mvp12Proofs Mvp.Mvp3 Mvp.Mvp3Proofs Mvp.Mvp4Skel Mvp.Mvp4Inv Mvp.Mvp5 Mvp.Mvp60
     Mvp.Mvp60RefSem Mvp.Mvp60RefDefs Mvp.Mvp60RefFront Mvp.Mvp60RefBack Mvp.Mvp60RefStep Mvp.Mvp60RefStep2
     Mvp.Mvp63 Mvp.Mvp63Proofs Mvp.Mvp63RefDefs Mvp.Mvp63RefInv Mvp.Mvp63RefExec Mvp.Mvp63RefRat.
Import ListNotations.
Open Scope Z_scope.

(* ------------------------------------------------------------------ *)
(* controlUnit.cycle and the control bus                                *)

Lemma push_or_stop3_cbus x cy r stop p s r' x' : push_or_stop3 x cy r stop = (p, s, r', x') -> m_cbus (x_m x') = m_cbus (x_m x).
Proof.
  unfold push_or_stop3, push_runner3. destruct (negb (bb_canadd (x_ebus x))); intros H; injection H as _ _ _ <-; reflexivity.
Qed.

Lemma handle_runner3_cbus ord cy x sk pb r p s r' x' : handle_runner3 ord cy x sk pb r = (p, s, r', x') -> m_cbus (x_m x') = m_cbus (x_m x).
Proof.
  unfold handle_runner3.
  destruct (_ && pb); [intros H; injection H as _ _ _ <-; reflexivity|].
  destruct (_ && _); [intros H; injection H as _ _ _ <-; reflexivity|].
  destruct (skipped_hazard3 sk (q_instr r)); [intros H; injection H as _ _ _ <-; reflexivity|].
  destruct (zlen (hazards_of x (q_instr r)) =? 0); [apply push_or_stop3_cbus|].
  destruct (should_forward3 ord cy x r (hazards_of x (q_instr r))) as [[pr reg]|].
  - intros H. apply push_or_stop3_cbus in H. exact H.
  - destruct (should_rename3 _); [apply push_or_stop3_cbus|]. intros H; injection H as _ _ _ <-; reflexivity.
Qed.

Lemma after_push3_cbus x l r : m_cbus (x_m (fst (after_push3 x l r))) = m_cbus (x_m x).
Proof. unfold after_push3. cbn [fst]. destruct (InstructionType_IsConditionalBranch _); reflexivity. Qed.

Lemma cu_pending3_cbus ord cy : forall ps kept l x st pend l' x',
  cu_pending3 ord cy ps kept l x = (st, pend, l', x') -> m_cbus (x_m x') = m_cbus (x_m x).
Proof.
  induction ps as [|r t IH]; intros kept l x st pend l' x' H; cbn [cu_pending3] in H.
  - injection H as _ _ _ <-. reflexivity.
  - destruct (handle_runner3 ord cy x (l_skipped l) (l_pbranch l) r) as [[[p s] r1] x1] eqn:EH.
    apply handle_runner3_cbus in EH. destruct p.
    + pose proof (after_push3_cbus x1 l r1) as HA. destruct (after_push3 x1 l r1) as [x2 l2]. cbn [fst] in HA.
      destruct s; [injection H as _ _ _ <-; congruence|]. apply IH in H. congruence.
    + destruct s; [injection H as _ _ _ <-; exact EH|]. apply IH in H. congruence.
Qed.

Lemma cu_incoming3_cbus ord cy : forall q pend l x q' pend' l' x',
  cu_incoming3 ord cy q pend l x = (q', pend', l', x') -> m_cbus (x_m x') = m_cbus (x_m x).
Proof.
  induction q as [|r0 t IH]; intros pend l x q' pend' l' x' H; cbn [cu_incoming3] in H.
  - destruct (pendingLength <=? zlen pend); injection H as _ _ _ <-; reflexivity.
  - destruct (pendingLength <=? zlen pend); [injection H as _ _ _ <-; reflexivity|].
    destruct (handle_runner3 ord cy x (l_skipped l) (l_pbranch l) (r3_of r0)) as [[[p s] r1] x1] eqn:EH.
    apply handle_runner3_cbus in EH. destruct p.
    + pose proof (after_push3_cbus x1 l r1) as HA. destruct (after_push3 x1 l r1) as [x2 l2]. cbn [fst] in HA.
      destruct s; [injection H as _ _ _ <-; congruence|]. apply IH in H. congruence.
    + destruct s; [injection H as _ _ _ <-; exact EH|]. apply IH in H. congruence.
Qed.

Lemma cu_cycle3_cbuf ord cy x : bb_buf (m_cbus (x_m (cu_cycle3 ord cy x))) = bb_buf (m_cbus (x_m x)).
Proof.
  unfold cu_cycle3. destruct (negb (bb_canadd (x_ebus x))); [reflexivity|].
  destruct (cu_pending3 ord cy (x_pend x) [] (mk_cul [] [] false) x) as [[[st pend1] l1] x1] eqn:E1.
  apply cu_pending3_cbus in E1. destruct st; [cbn [x_m set_prev3 set_pend3]; rewrite E1; reflexivity|].
  destruct (cu_incoming3 ord cy (bb_q (m_cbus (x_m x1))) pend1 l1 x1) as [[[q' pend2] l2] x2] eqn:E2.
  apply cu_incoming3_cbus in E2. cbn [x_m set_prev3 set_pend3 set_m set_cbus m_cbus bb_buf]. congruence.
Qed.

(* ------------------------------------------------------------------ *)
(* the decode unit                                                      *)

Lemma set_fwd3_same x : set_fwd3 x (x_fwd x) = x. Proof. destruct x; reflexivity. Qed.
Lemma set_os3_same x : set_os3 x (x_os x) = x. Proof. destruct x; reflexivity. Qed.
Lemma or_os_false x : or_os x false = x.
Proof. unfold or_os. rewrite orb_false_r. apply set_os3_same. Qed.

Section Step3.
  Variables (app : list instr) (labels : Z -> option Z) (regs0 mem0 : list Z) (ord : Z -> Z -> list Z -> list Z).
  Hypothesis Happ : wf_app app.
  Hypothesis Hstr : straight app = true.
  Hypothesis Hreg : reg_only app = true.
  Hypothesis Hssa : ssa app = true.
  Hypothesis Hrng : regs_ok app = true.
  Hypothesis Hlen0 : length regs0 = 32%nat.
  Hypothesis Hr32 : Forall int32 regs0.
  Hypothesis Hx0 : nth 0 regs0 0 = 0.
  Let n := length app.
  Let N := stop_from app 0.

  Notation sreg := (sreg app labels regs0 0).
  Notation eff := (eff app labels regs0 0).
  Notation rn := (rn app).
  Notation ik := (ik app).
  Notation wbn := (wbn app labels regs0 0).
  Notation BI := (BI app labels regs0 mem0).
  Notation FrontI := (FrontI app 0).
  Notation phiF := (phiF app).
  Notation kout := (kout app labels regs0 0).

  Hypothesis Hsem : forall k, (0 <= k <= N)%nat -> (k < n)%nat ->
    exec (sinstr_of (ik k)) (rget (sreg k)) labels (pcz k) [] = Ok (eff k) /\
    (forall a, etarget (eff k) = Some a -> exists t, a = pcz t /\ (k < t <= n)%nat).

  Set Default Proof Using "All".
  Notation "'IE' L" := (L app labels regs0 mem0 ord Happ Hstr Hreg Hssa Hrng Hlen0 Hr32 Hx0 Hsem) (at level 10, L at level 9, only parsing).

  Lemma Hlen0le : (length regs0 <= 32)%nat. Proof. lia. Qed.

  Lemma set_forward3_id x pc : x_fwd x = repeat (0, 0) n -> set_forward3 x pc 0 0 = x.
  Proof. intros H. unfold set_forward3. rewrite H, upd3_repeat, <- H. apply set_fwd3_same. Qed.

  Lemma du_loop3_eq cycle : forall l ret pbr cbus x, x_seq x = 0 -> x_fwd x = repeat (0, 0) n ->
    du_loop3 (map pcz l) app cycle ret pbr cbus x =
    match du_loop (map pcz l) app cycle ret pbr cbus with
    | Ok (a, b, c, d) => Ok (a, b, c, d, x)
    | Err e => Err e
    | Panic => Panic
    end.
  Proof.
    induction l as [|k t IH]; intros ret pbr cbus x Hs Hf; cbn [map du_loop3 du_loop]; [reflexivity|].
    rewrite pcz_quot. unfold nlen6. fold n.
    destruct (Z.leb_spec (Z.of_nat n) (Z.of_nat k)) as [Hout|Hin]; [reflexivity|].
    destruct (Z.of_nat k <? 0); [reflexivity|]. destruct (nth_error app (Z.to_nat (Z.of_nat k))) as [i|]; [|reflexivity].
    cbv zeta. rewrite (set_forward3_id x (pcz k) Hf).
    rewrite (sequence_id_0 app labels regs0 Happ Hlen0 Hsem x k Hs ltac:(fold n; lia)).
    destruct (InstructionType_IsUnconditionalBranch (instr_InstructionType i)); [reflexivity|].
    destruct (instr_InstructionType i =? Ret); [reflexivity|]. apply IH; assumption.
  Qed.

  Lemma du_cycle3_eq cycle x l : x_seq x = 0 -> x_fwd x = repeat (0, 0) n -> bb_q (m_dbus (x_m x)) = map pcz l ->
    du_cycle3 app cycle x = match du_cycle6 app cycle (x_m x) with Ok m' => Ok (set_m x m') | Err e => Err e | Panic => Panic end.
  Proof.
    intros Hs Hf Hq. unfold du_cycle3, du_cycle6. destruct (m_dret (x_m x)); [rewrite set_m_same; reflexivity|].
    destruct (m_dpbr (x_m x)); [rewrite set_m_same; reflexivity|]. rewrite Hq, (du_loop3_eq cycle l _ _ _ x Hs Hf).
    destruct (du_loop (map pcz l) app cycle false false (m_cbus (x_m x))) as [[[[a b] c] d]| |]; reflexivity.
  Qed.

  (* fetchUnit.cycle ; decodeUnit.cycle *)
  Lemma fd_ok3 d c f cyc x : FrontI d c f cyc (x_m x) -> x_seq x = 0 -> x_fwd x = repeat (0, 0) n ->
    exists fu1 l1i1 dbus1 m3 c' f',
      fu_cycle6 app (cyc + 1) (m_fu (x_m x)) (m_l1i (x_m x)) (m_dbus (x_m x)) = Ok (fu1, l1i1, dbus1) /\
      du_cycle3 app (cyc + 1) (set_m x (set_dbus (set_l1i (set_fu (x_m x) fu1) l1i1) dbus1)) = Ok (set_m x m3) /\
      FrontI d c' f' (cyc + 1) m3 /\
      m_regs m3 = m_regs (x_m x) /\ m_mem m3 = m_mem (x_m x) /\ m_pw m3 = m_pw (x_m x) /\ m_pr m3 = m_pr (x_m x) /\ m_l3 m3 = m_l3 (x_m x) /\
      m_ebus m3 = m_ebus (x_m x) /\ m_wbus m3 = m_wbus (x_m x) /\ m_cu m3 = m_cu (x_m x) /\ bb_q (m_cbus m3) = bb_q (m_cbus (x_m x)) /\
      phiF (m_fu m3) + 10 * blen (m_dbus m3) + 9 * qlen (m_dbus m3) + 8 * blen (m_cbus m3)
        <= phiF (m_fu (x_m x)) + 10 * blen (m_dbus (x_m x)) + 9 * qlen (m_dbus (x_m x)) + 8 * blen (m_cbus (x_m x)) /\
      (phiF (m_fu m3) + 10 * blen (m_dbus m3) + 9 * qlen (m_dbus m3) + 8 * blen (m_cbus m3)
        < phiF (m_fu (x_m x)) + 10 * blen (m_dbus (x_m x)) + 9 * qlen (m_dbus (x_m x)) + 8 * blen (m_cbus (x_m x)) \/
       (((f_co (m_fu (x_m x)) = FDone /\ phiF (m_fu m3) = phiF (m_fu (x_m x)) /\ f_complete (m_fu m3) = f_complete (m_fu (x_m x))) \/
         (f_co (m_fu (x_m x)) = FNone /\ bb_canadd (m_dbus (x_m x)) = false)) /\
        (m_dret (x_m x) = true \/ m_dpbr (x_m x) = true \/ bb_q (m_dbus (x_m x)) = []))).
  Proof.
    intros HF Hs Hf. set (m := x_m x) in *.
    destruct (fd_ok app labels regs0 0 Happ Hlen0le (Nat.le_0_l _) Hsem d c f cyc m HF) as (m3 & c' & f' & E & Hrest).
    pose proof HF as [F1 Fc F2 F3 Fb F4 F5 F6 F7 F8 F9 Fbt F10 F11 F12 F13 F14].
    destruct (fu_ok app 0 Happ cyc f (m_fu m) (m_l1i m) (m_dbus m) F1 F10 Fc) as (fu' & l1i' & k & Efu & _).
    rewrite Efu in E. cbn [bind] in E.
    eexists _, _, _, m3, c', f'. split; [exact Efu|]. split; [|exact Hrest].
    destruct (seq_split pcz (bb_q (m_dbus m)) (map snd (bb_buf (m_dbus m))) c (f - c) F2) as (Q1 & _ & _).
    rewrite (du_cycle3_eq (cyc + 1) _ (seq c (length (bb_q (m_dbus m))))); [| exact Hs | exact Hf | exact Q1].
    cbn [x_m set_m]. rewrite E. reflexivity.
  Qed.

  (* ---------------------------------------------------------------- *)
  (* the four Connect calls                                             *)

  Lemma conn3_ok D c f cyc x : FrontI D c f cyc (x_m x) -> BusOK cyc (x_ebus x) ->
    let x1 := connected3 x (cyc + 1) in
    FrontI D c f cyc (x_m x1) /\ BusOK cyc (x_ebus x1) /\
    flat (x_ebus x1) = flat (x_ebus x) /\ flat (m_wbus (x_m x1)) = flat (m_wbus (x_m x)) /\
    m_fu (x_m x1) = m_fu (x_m x) /\ m_dret (x_m x1) = m_dret (x_m x) /\ m_dpbr (x_m x1) = m_dpbr (x_m x) /\ m_cu (x_m x1) = m_cu (x_m x) /\
    qlen (m_dbus (x_m x1)) + blen (m_dbus (x_m x1)) = qlen (m_dbus (x_m x)) + blen (m_dbus (x_m x)) /\ qlen (m_dbus (x_m x)) <= qlen (m_dbus (x_m x1)) /\
    qlen (m_cbus (x_m x1)) + blen (m_cbus (x_m x1)) = qlen (m_cbus (x_m x)) + blen (m_cbus (x_m x)) /\ qlen (m_cbus (x_m x)) <= qlen (m_cbus (x_m x1)) /\
    qlen (x_ebus x1) + blen (x_ebus x1) = qlen (x_ebus x) + blen (x_ebus x) /\ qlen (x_ebus x) <= qlen (x_ebus x1) /\
    (blen (m_dbus (x_m x1)) = 0 \/ qlen (m_dbus (x_m x1)) = 2) /\ (blen (m_cbus (x_m x1)) = 0 \/ qlen (m_cbus (x_m x1)) = 2) /\
    (blen (x_ebus x1) = 0 \/ qlen (x_ebus x1) = 2).
  Proof.
    intros HF HE. cbv zeta. pose proof HF as [F1 Fc F2 F3 Fb F4 F5 F6 F7 F8 F9 Fbt F10 F11 F12 F13 F14].
    set (m := x_m x) in *.
    destruct (connect_spec cyc (m_dbus m) F10) as (D1 & D2 & D3 & D4 & D5).
    destruct (connect_spec cyc (m_cbus m) F11) as (C1 & C2 & C3 & C4 & C5).
    destruct (connect_spec cyc (x_ebus x) HE) as (E1 & E2 & E3 & E4 & E5).
    destruct (connect_spec cyc (m_wbus m) F13) as (W1 & W2 & W3 & W4 & W5).
    assert (X : forall T (b : bbus T), bb_buf b = [] \/ qlen b = 2 -> blen b = 0 \/ qlen b = 2).
    { intros T b [A|A]; [left; unfold blen; rewrite A; reflexivity | right; exact A]. }
    unfold connected3. fold m. cbn [x_m x_ebus set_ebus3 set_m set_wbus set_cbus set_dbus m_fu m_dret m_dpbr m_cu m_dbus m_cbus m_wbus].
    split; [|split; [exact E2|split; [exact E1|split; [exact W1|]]]].
    - constructor; cbn [set_wbus set_cbus set_dbus m_fu m_l1i m_dret m_dpbr m_cu m_bu m_dbus m_cbus m_ebus m_wbus];
        rewrite ?D1, ?C1; auto.
      intros Hc. destruct (Fc Hc) as [A B]. assert (Hx : flat (bb_connect (m_dbus m) (cyc + 1)) = []) by (rewrite D1; unfold flat; rewrite A, B; reflexivity).
      apply flat_nil_inv in Hx. tauto.
    - repeat split; auto; lia.
  Qed.

  (* ---------------------------------------------------------------- *)
  (* invariants of the two loops, potential                             *)

  Record G3 (dp d c f xe w : nat) (s : st3) : Prop := mkG3 {
    g3_front : FrontI (d + length (x_pend (t_x s))) c f (t_cycle s) (x_m (t_x s));
    g3_cu : m_cu (x_m (t_x s)) = [];
    g3_bi : BI dp d xe w (x_pend (t_x s)) (x_prev (t_x s)) (t_x s);
    g3_be : BusOK (t_cycle s) (x_ebus (t_x s));
    g3_eb : blen (x_ebus (t_x s)) <= 2;
    g3_eus : Forall EuIdle (t_eus s);
    g3_wus : Forall (fun u => u_co u = WNone) (t_wus s);
    g3_wne : t_wus s <> [];
    g3_len : length (t_eus s) = length (t_wus s);
    g3_wq : bb_q (m_wbus (x_m (t_x s))) = [];
    g3_wb : blen (m_wbus (x_m (t_x s))) <= Z.of_nat (length (t_wus s));
    g3_wb2 : blen (m_wbus (x_m (t_x s))) <= 2;
    g3_cyc : Z.of_nat d <= 2 * t_cycle s;
    g3_mode : t_mode s = NNormal }.

  Record GR3 (w : nat) (s : st3) : Prop := mkGR3 {
    r3_bi : exists dp, BI dp N N w [] [] (t_x s);
    r3_N : (N < n)%nat /\ is_ret (ik N) = true;
    r3_eus : Forall EuIdle (t_eus s);
    r3_wus : Forall (fun u => u_co u = WNone) (t_wus s);
    r3_wne : t_wus s <> [];
    r3_wb : bb_buf (m_wbus (x_m (t_x s))) = [];
    r3_wq : bb_q (m_wbus (x_m (t_x s))) <> [];
    r3_bw : BusOK (t_cycle s) (m_wbus (x_m (t_x s)));
    r3_cyc : Z.of_nat (S N) <= 2 * t_cycle s;
    r3_mode : t_mode s = NRet }.

  Definition phiX (x : mx) : Z :=
    let m := x_m x in
    phiF (m_fu m) + 10 * blen (m_dbus m) + 9 * qlen (m_dbus m) + 8 * blen (m_cbus m) + 7 * qlen (m_cbus m) + 7 * zlen (x_pend x)
    + 5 * blen (x_ebus x) + 4 * qlen (x_ebus x) + 2 * blen (m_wbus m) + qlen (m_wbus m).
  Definition phi3 (s : st3) : Z := phiX (t_x s).

  Definition Fin3 (r : mres) : Prop := Fin app labels regs0 mem0 0 0 r.

  Lemma kout_plain k : (k < N)%nat -> kout k = euo_none.
  Proof.
    intros Hk. pose proof (N_le app labels regs0 Hlen0 Hsem) as HN. fold N n in HN.
    apply (plain_kout app labels regs0 0 Hsem k); [fold N; lia | fold n; lia|]. split.
    - destruct (is_ret (ik k)) eqn:E; [|reflexivity]. exfalso.
      assert (k = N) by (apply (is_ret_N app labels regs0 Hstr Hlen0 Hsem k); [fold N; lia | fold n; lia | exact E]). lia.
    - apply nobranch_branch. apply (ik_nobr app Hstr).
  Qed.

  (* the run ends at the end of the text: everything has been written back *)
  Lemma fin_end dp pl pv x cy : BI dp n n n pl pv x -> Z.of_nat n <= 2 * cy -> Fin3 (finish3 ord x cy).
  Proof.
    intros HB Hc. rewrite (finish3_ok app labels regs0 mem0 ord Hrng Hlen0 Hx0 _ _ _ _ _ _ _ cy HB).
    pose proof (bi_xeN _ _ _ _ _ _ _ _ _ _ _ HB) as HxN. fold N in HxN.
    exists cy, n. split; [reflexivity|]. split; [fold n; lia|]. split; [intros k Hk; apply kout_plain; lia|].
    left. split; [reflexivity | lia].
  Qed.

  (* ... or behind the ret *)
  Lemma fin_ret dp x cy : BI dp N N N [] [] x -> (N < n)%nat -> is_ret (ik N) = true -> Z.of_nat (S N) <= 2 * cy -> Fin3 (finish3 ord x cy).
  Proof.
    intros HB HNn Hret Hc. rewrite (finish3_ok app labels regs0 mem0 ord Hrng Hlen0 Hx0 _ _ _ _ _ _ _ cy HB).
    exists cy, N. split; [reflexivity|]. split; [fold n; lia|]. split; [intros k Hk; apply kout_plain; lia|].
    right. split; [exact HNn|]. split; [exact Hret | lia].
  Qed.

  (* ---------------------------------------------------------------- *)
  (* the drain loop after ret                                           *)

  Lemma wbus_nil_w dp d xe w pl pv x : BI dp d xe w pl pv x -> flat (m_wbus (x_m x)) = [] -> w = xe.
  Proof.
    intros HB Hfl. pose proof (bi_wbus _ _ _ _ _ _ _ _ _ _ _ HB) as Hw. rewrite Hfl in Hw. symmetry in Hw. apply map_eq_nil in Hw.
    apply (f_equal (@length nat)) in Hw. rewrite seq_length in Hw. cbn [length] in Hw.
    pose proof (bi_ord _ _ _ _ _ _ _ _ _ _ _ HB). lia.
  Qed.

  (* the drain loop is entered / continued: connect the write bus, then its condition *)
  Lemma ret_tail3 dp w cyc x6 eus wus : BI dp N N w [] [] x6 -> Forall EuIdle eus ->
    Forall (fun u => u_co u = WNone) wus -> wus <> [] -> (N < n)%nat /\ is_ret (ik N) = true ->
    (bb_q (m_wbus (x_m x6)) = [] /\ blen (m_wbus (x_m x6)) <= 2) \/ bb_buf (m_wbus (x_m x6)) = [] -> BusOK cyc (m_wbus (x_m x6)) ->
    Z.of_nat (S N) <= 2 * cyc ->
    let x7 := wbus_connect3 x6 (cyc + 1) in
    let s2 := mk_st3 x7 eus wus (cyc + 1) NRet in
    (ret_check3 ord s2 = TCont s2 /\ GR3 w s2 /\ qlen (m_wbus (x_m x7)) = qlen (m_wbus (x_m x6)) + blen (m_wbus (x_m x6))) \/
    (exists r, ret_check3 ord s2 = TDone r false /\ Fin3 r).
  Proof.
    intros HB He Hw Hwne HN Hqb HW Hcyc. cbv zeta.
    set (x7 := wbus_connect3 x6 (cyc + 1)).
    assert (Q2 : bb_buf (bb_connect (m_wbus (x_m x6)) (cyc + 1)) = []).
    { destruct Hqb as [[Hq Hb2]|Hb]; [apply (connect_allq cyc (m_wbus (x_m x6)) HW Hq Hb2) | apply (connect_nobuf cyc (m_wbus (x_m x6)) HW Hb)]. }
    destruct (connect_spec cyc (m_wbus (x_m x6)) HW) as (W1 & W2 & W3 & W4 & W5).
    assert (B7 : BI dp N N w [] [] x7).
    { eapply BI_ext; [| | | | | | | | | | | | | | |exact HB]; try reflexivity. exact W1. }
    unfold ret_check3. cbn [t_eus t_wus t_x t_cycle]. rewrite (IE eus_empty3 _ He), (IE wus_empty3 _ Hw). cbn [andb].
    rewrite (bi_os _ _ _ _ _ _ _ _ _ _ _ B7).
    destruct (bb_isempty (m_wbus (x_m x7))) eqn:Edone.
    - right. eexists. split; [reflexivity|]. destruct HN as (HNn & Hret).
      assert (HwN : w = N) by (eapply wbus_nil_w; [exact B7 | apply isempty_flat; exact Edone]). subst w.
      apply (fin_ret dp x7 (cyc + 1) B7 HNn Hret). lia.
    - left. split; [reflexivity|]. split.
      + constructor; cbn [t_x t_eus t_wus t_cycle t_mode]; auto.
        * exists dp. exact B7.
        * intros Hx. unfold bb_isempty in Edone. unfold x7, wbus_connect3 in Edone, Hx. cbn [x_m set_m set_wbus m_wbus] in Edone, Hx.
          rewrite Hx, Q2 in Edone. discriminate.
        * unfold x7, wbus_connect3. cbn [x_m set_m set_wbus m_wbus]. eapply busok_mono; [|exact W2]. lia.
        * lia.
      + unfold x7, wbus_connect3. cbn [x_m set_m set_wbus m_wbus].
        assert (blen (bb_connect (m_wbus (x_m x6)) (cyc + 1)) = 0) by (unfold blen; rewrite Q2; reflexivity). lia.
  Qed.

  Lemma step_ret3 w s : GR3 w s ->
    (exists s' w', step3 app labels ord s = TCont s' /\ GR3 w' s' /\ qlen (m_wbus (x_m (t_x s'))) < qlen (m_wbus (x_m (t_x s)))) \/
    (exists r, step3 app labels ord s = TDone r false /\ Fin3 r).
  Proof.
    intros [(dp & GB) GN GE GW GWne Gwb Gwq Gbw Gcyc Gmode].
    unfold step3. rewrite Gmode. rewrite (IE eus_drain_idle (t_cycle s) (t_x s) _ GE). cbn [orb res_of3].
    rewrite or_os_false.
    destruct (IE wus_ok3 dp N N [] [] (t_wus s) (t_x s) w GW GB) as (x2 & Ew & B2 & F2 & Q2).
    rewrite Ew. cbn [res_of3].
    set (w' := (w + Nat.min (length (t_wus s)) (length (bb_q (m_wbus (x_m (t_x s))))))%nat) in *.
    assert (Hq6 : qlen (m_wbus (x_m x2)) < qlen (m_wbus (x_m (t_x s)))).
    { unfold qlen, zlen. rewrite Q2, skipn_length. destruct (bb_q (m_wbus (x_m (t_x s)))); [contradiction|].
      destruct (t_wus s); [contradiction|]. cbn [length]. lia. }
    assert (HW2 : BusOK (t_cycle s) (m_wbus (x_m x2))).
    { destruct F2. eapply BusOK_frame; [eassumption | eassumption | eassumption | | exact Gbw]. lia. }
    destruct (ret_tail3 dp w' (t_cycle s) x2 (t_eus s) (t_wus s) B2 GE GW GWne GN
                ltac:(right; rewrite (w3_wbuf _ _ F2); exact Gwb) HW2 Gcyc) as [(E & G2 & P2)|(r & E & HF)].
    - left. eexists _, w'. split; [exact E|]. split; [exact G2|]. cbn [t_x].
      assert (blen (m_wbus (x_m x2)) = 0) by (unfold blen; rewrite (w3_wbuf _ _ F2), Gwb; reflexivity). lia.
    - right. exists r. split; [exact E | exact HF].
  Qed.

  (* ---------------------------------------------------------------- *)
  (* one tick of the main loop                                          *)

  Notation acc_of b := (mk_euo3 false 0 0 b None).

  Lemma FrontI_frame D c f cy m m' : FrontI D c f cy m ->
    m_fu m' = m_fu m -> m_l1i m' = m_l1i m -> m_dret m' = m_dret m -> m_dpbr m' = m_dpbr m -> m_cu m' = m_cu m ->
    m_dbus m' = m_dbus m -> m_cbus m' = m_cbus m -> m_ebus m' = m_ebus m -> b_btb (m_bu m') = b_btb (m_bu m) ->
    BusOK cy (m_wbus m') -> FrontI D c f cy m'.
  Proof.
    intros [F1 Fc F2 F3 Fb F4 F5 F6 F7 F8 F9 Fbt F10 F11 F12 F13 F14] E1 E2 E3 E4 E5 E6 E7 E8 E9 HW.
    constructor; rewrite ?E1, ?E2, ?E3, ?E4, ?E5, ?E6, ?E7, ?E8, ?E9; auto.
  Qed.

  Lemma BI_flat_len dp d xe w pl pv x : BI dp d xe w pl pv x -> qlen (x_ebus x) + blen (x_ebus x) = Z.of_nat (d - xe).
  Proof.
    intros HB. rewrite <- flat_len. pose proof (bi_ebus _ _ _ _ _ _ _ _ _ _ _ HB) as H. apply (f_equal (@length _)) in H.
    rewrite !map_length, seq_length in H. unfold zlen. rewrite H. reflexivity.
  Qed.

  Lemma BI_wflat_len dp d xe w pl pv x : BI dp d xe w pl pv x -> qlen (m_wbus (x_m x)) + blen (m_wbus (x_m x)) = Z.of_nat (xe - w).
  Proof.
    intros HB. rewrite <- flat_len. pose proof (bi_wbus _ _ _ _ _ _ _ _ _ _ _ HB) as H. apply (f_equal (@length _)) in H.
    rewrite !map_length, seq_length in H. unfold zlen. rewrite H. reflexivity.
  Qed.

  Lemma front_cl_len D c f cy m : FrontI D c f cy m -> m_cu m = [] -> qlen (m_cbus m) + blen (m_cbus m) = Z.of_nat (Nat.min c n - D) /\ (D <= Nat.min c n)%nat.
  Proof.
    intros H Hcu. pose proof (fr_cl _ _ _ _ _ _ _ H) as Hcl. rewrite Hcu in Hcl. cbn [List.app] in Hcl.
    apply (f_equal (@length _)) in Hcl. rewrite map_length, seq_length in Hcl. rewrite <- flat_len. unfold zlen. rewrite Hcl. fold n.
    split; [reflexivity | exact (fr_dc _ _ _ _ _ _ _ H)].
  Qed.

  Lemma front3_ok x c x3 fu1 l1i1 dbus1 :
    fu_cycle6 app c (m_fu (x_m (connected3 x c))) (m_l1i (x_m (connected3 x c))) (m_dbus (x_m (connected3 x c))) = Ok (fu1, l1i1, dbus1) ->
    du_cycle3 app c (set_m (connected3 x c) (set_dbus (set_l1i (set_fu (x_m (connected3 x c)) fu1) l1i1) dbus1)) = Ok x3 ->
    front3 app ord c x = Ok (cu_cycle3 ord c x3).
  Proof. intros H1 H2. rewrite front3_eq, H1, H2. reflexivity. Qed.

  Lemma step_normal3 dp d c f xe w s : G3 dp d c f xe w s ->
    (exists s' dp' d' c' f' xe' w', step3 app labels ord s = TCont s' /\ G3 dp' d' c' f' xe' w' s' /\ phi3 s' < phi3 s) \/
    (exists r, step3 app labels ord s = TDone r false /\ Fin3 r) \/
    (exists s' w', step3 app labels ord s = TCont s' /\ GR3 w' s').
  Proof.
    intros [GF Gcu GB Gbe Geb Ge Gw Gwne Glen Gwq Gwb Gwb2 Gcyc Gmode].
    set (x0 := t_x s) in *. set (cyc := t_cycle s) in *. set (eus := t_eus s) in *. set (wus := t_wus s) in *.
    set (D := (d + length (x_pend x0))%nat) in *.
    assert (GEne : eus <> []) by (intros E; apply Gwne; destruct wus; [reflexivity | rewrite E in Glen; discriminate]).
    (* 1. the four Connect calls *)
    destruct (conn3_ok D c f cyc x0 GF Gbe) as (C1 & CE & C3 & C4 & C5 & C6 & C6' & C7 & D1 & D2 & Cc1 & Cc2 & E1 & E2 & K1 & K2 & K3).
    set (x1 := connected3 x0 (cyc + 1)) in *.
    pose proof (fr_bw _ _ _ _ _ _ _ GF) as HW0.
    destruct (connect_allq cyc (m_wbus (x_m x0)) HW0 Gwq Gwb2) as (Wq1 & Wb1 & Wql & Wbl).
    assert (HB1 : BI dp d xe w (x_pend x0) (x_prev x0) x1).
    { eapply BI_ext; [| | | | | | | | | | | | | | |exact GB]; try reflexivity; assumption. }
    (* 2. fetch + decode *)
    destruct (fd_ok3 D c f cyc x1 C1 (bi_seq _ _ _ _ _ _ _ _ _ _ _ HB1) (bi_fwd _ _ _ _ _ _ _ _ _ _ _ HB1))
      as (fu1 & l1i1 & dbus1 & m3 & c' & f' & Efu & Efd & F3 & R1 & R2 & R3 & R4 & R5 & R6 & R7 & R8 & R9 & Pfd & Sfd).
    set (x3 := set_m x1 m3) in *.
    assert (HB3 : BI dp d xe w (x_pend x3) (x_prev x3) x3).
    { eapply BI_ext; [| | | | | | | | | | | | | | |exact HB1]; try reflexivity; cbn [x3 x_m set_m]; congruence. }
    (* 3. control unit *)
    assert (Hcu3 : m_cu (x_m x3) = []) by (cbn [x3 x_m set_m]; rewrite R8, C7; exact Gcu).
    assert (HE3 : BusOK (cyc + 1) (x_ebus x3)) by (eapply busok_mono; [|exact CE]; lia).
    destruct (cu_cycle_ok app labels regs0 mem0 ord Hstr Hssa Hrng Hlen0 Hsem (cyc + 1) dp d xe w c' f' x3 HB3 F3 Hcu3 HE3)
      as (lp & HB4 & F4 & Hcu4 & HE4 & Q1 & Q2 & Q3 & Q4 & Q5 & Hprog & Hlp0).
    set (x4 := cu_cycle3 ord (cyc + 1) x3) in *.
    assert (Efront : front3 app ord (cyc + 1) x0 = Ok x4) by exact (front3_ok x0 (cyc + 1) x3 fu1 l1i1 dbus1 Efu Efd).
    (* the execute bus and the write bus after the front end *)
    pose proof (BI_flat_len _ _ _ _ _ _ _ GB) as L0. pose proof (BI_flat_len _ _ _ _ _ _ _ HB3) as L3. pose proof (BI_flat_len _ _ _ _ _ _ _ HB4) as L4.
    pose proof (BI_wflat_len _ _ _ _ _ _ _ GB) as LW0.
    pose proof (bi_ord _ _ _ _ _ _ _ _ _ _ _ GB) as Hord0.
    assert (Hex31 : x_ebus x3 = x_ebus x1) by reflexivity. rewrite Hex31 in L3, Q1.
    pose proof (blen_ge0 (x_ebus x1)) as Gbe1. pose proof (qlen_ge0 (x_ebus x0)) as Gqe0.
    assert (Hbe1 : blen (x_ebus x1) <= 2) by lia.
    assert (Hbe4 : blen (x_ebus x4) <= 2).
    { apply (mvp63_dispatch_width ord (cyc + 1) x3); [apply (bus_bl _ _ HE3)|]. unfold ebus_ok. rewrite (bus_bl _ _ HE3), Hex31. exact Hbe1. }
    assert (Hlp2 : (lp <= 2)%nat) by lia.
    assert (Hw41 : m_wbus (x_m x4) = bb_connect (m_wbus (x_m x0)) (cyc + 1)) by (rewrite Q2; cbn [x3 x_m set_m]; rewrite R7; reflexivity).
    assert (HW4 : BusOK (cyc + 1) (m_wbus (x_m x4))) by exact (fr_bw _ _ _ _ _ _ _ F4).
    assert (Hwb4 : blen (m_wbus (x_m x4)) = 0) by (unfold blen; rewrite Hw41, Wb1; reflexivity).
    assert (Hwq4 : bb_q (m_wbus (x_m x4)) = map snd (bb_buf (m_wbus (x_m x0)))) by (rewrite Hw41; exact Wq1).
    set (nw := length (bb_buf (m_wbus (x_m x0)))).
    assert (Hnw : blen (m_wbus (x_m x0)) = Z.of_nat nw) by reflexivity.
    set (lq := length (bb_q (x_ebus x4))).
    assert (Hlq : Z.of_nat lq = qlen (x_ebus x1)) by (rewrite <- Q1; reflexivity).
    assert (Hlq2 : (lq <= 2)%nat) by (pose proof (bus_q _ _ HE4) as Hx; unfold qlen, zlen in Hx; fold lq in Hx; lia).
    assert (Hlqd : (xe + lq <= d)%nat) by lia.
    assert (Hcyc' : Z.of_nat (d + lp) <= 2 * (cyc + 1)) by lia.
    assert (HdN4 : (d + lp + length (x_pend x4) <= S N)%nat /\ (d + lp + length (x_pend x4) <= n)%nat).
    { exact (front_dN app labels regs0 0 Hlen0le (Nat.le_0_l _) Hsem _ _ _ _ _ F4). }
    (* the units executed j instructions, none of them the ret *)
    assert (Hcont : forall x5 eus' j,
      eus_main3 labels ord (cyc + 1) x4 eus (acc_of false) = (false, Ok (x5, eus', acc_of false)) ->
      Forall EuIdle eus' -> length eus' = length eus -> BI d (d + lp) (xe + j) w (x_pend x4) (x_prev x4) x5 -> EuFrame3 x4 x5 ->
      bb_q (x_ebus x5) = skipn j (bb_q (x_ebus x4)) -> BusOK (cyc + 1) (m_wbus (x_m x5)) -> blen (m_wbus (x_m x5)) = Z.of_nat j ->
      (j <= lq)%nat -> (j <= length eus)%nat -> (j = O -> lq = O) ->
      (exists s' dp' d' c' f' xe' w', step3 app labels ord s = TCont s' /\ G3 dp' d' c' f' xe' w' s' /\ phi3 s' < phi3 s) \/
      (exists r, step3 app labels ord s = TDone r false /\ Fin3 r) \/
      (exists s' w', step3 app labels ord s = TCont s' /\ GR3 w' s')).
    { intros x5 eus' j Ee A1 A2 HB5 EF5 Hq5 HW5 Hb5 Hjq Hje Hj0.
      unfold step3. rewrite Gmode. fold x0 cyc eus wus. rewrite Efront. cbn [res_of3]. change yo_none with (acc_of false). rewrite Ee. cbn [res_of3 orb].
      rewrite or_os_false. unfold back3. cbn [y_err y_flush y_ret].
      destruct (IE wus_ok3 d (d + lp)%nat (xe + j)%nat (x_pend x4) (x_prev x4) wus x5 w Gw HB5) as (x6 & Ew & HB6 & WF6 & Hq6).
      fold wus. rewrite Ew. cbn [res_of3].
      (* the write units take everything *)
      assert (Hq5w : bb_q (m_wbus (x_m x5)) = map snd (bb_buf (m_wbus (x_m x0)))) by (rewrite (e3_wq _ _ EF5); exact Hwq4).
      assert (Hlq5 : length (bb_q (m_wbus (x_m x5))) = nw) by (rewrite Hq5w, map_length; reflexivity).
      rewrite Hlq5 in HB6. replace (Nat.min (length wus) nw) with nw in HB6 by lia.
      assert (Hq6' : bb_q (m_wbus (x_m x6)) = []) by (rewrite Hq6; apply skipn_all2; lia).
      assert (Ypend : x_pend x6 = x_pend x4) by (rewrite (w3_pend _ _ WF6), (e3_pend _ _ EF5); reflexivity).
      assert (Yprev : x_prev x6 = x_prev x4) by (rewrite (w3_prev _ _ WF6), (e3_prev _ _ EF5); reflexivity).
      assert (HW6 : BusOK (cyc + 1) (m_wbus (x_m x6))).
      { eapply BusOK_frame; [exact (w3_wbuf _ _ WF6) | exact (w3_wql _ _ WF6) | exact (w3_wbl _ _ WF6) | | exact HW5].
        unfold qlen. rewrite Hq6'. apply zlen_ge0. }
      assert (HF6 : FrontI (d + lp + length (x_pend x6)) c' f' (cyc + 1) (x_m x6)).
      { rewrite Ypend. apply (FrontI_frame _ _ _ _ _ _ F4).
        - rewrite (w3_fu _ _ WF6), (e3_fu _ _ EF5); reflexivity.
        - rewrite (w3_l1i _ _ WF6), (e3_l1i _ _ EF5); reflexivity.
        - rewrite (w3_dret _ _ WF6), (e3_dret _ _ EF5); reflexivity.
        - rewrite (w3_dpbr _ _ WF6), (e3_dpbr _ _ EF5); reflexivity.
        - rewrite (w3_cu _ _ WF6), (e3_cu _ _ EF5); reflexivity.
        - rewrite (w3_dbus _ _ WF6), (e3_dbus _ _ EF5); reflexivity.
        - rewrite (w3_cbus _ _ WF6), (e3_cbus _ _ EF5); reflexivity.
        - rewrite (w3_mebus _ _ WF6), (e3_mebus _ _ EF5); reflexivity.
        - rewrite (w3_bu _ _ WF6), (e3_btb _ _ EF5); reflexivity.
        - exact HW6. }
      assert (HB6' : BI d (d + lp) (xe + j) (w + nw) (x_pend x6) (x_prev x6) x6) by (rewrite Ypend, Yprev; exact HB6).
      assert (Hcu6 : m_cu (x_m x6) = []) by (rewrite (w3_cu _ _ WF6), (e3_cu _ _ EF5); exact Hcu4).
      assert (Heb65 : x_ebus x6 = x_ebus x5) by exact (w3_ebus _ _ WF6).
      assert (HE6 : BusOK (cyc + 1) (x_ebus x6)).
      { rewrite Heb65. eapply BusOK_frame; [exact (e3_ebuf _ _ EF5) | exact (e3_eql _ _ EF5) | exact (e3_ebl _ _ EF5) | | exact HE4].
        unfold qlen, zlen. rewrite Hq5, skipn_length. lia. }
      (* lengths for the potential *)
      assert (Y1 : m_fu (x_m x6) = m_fu m3) by (rewrite (w3_fu _ _ WF6), (e3_fu _ _ EF5), Q4; reflexivity).
      assert (Y2 : m_dbus (x_m x6) = m_dbus m3) by (rewrite (w3_dbus _ _ WF6), (e3_dbus _ _ EF5), Q5; reflexivity).
      assert (Y3 : m_cbus (x_m x6) = m_cbus (x_m x4)) by (rewrite (w3_cbus _ _ WF6), (e3_cbus _ _ EF5); reflexivity).
      assert (Y3b : blen (m_cbus (x_m x4)) = blen (m_cbus m3)) by (unfold blen, x4; rewrite cu_cycle3_cbuf; reflexivity).
      assert (Y5 : blen (x_ebus x6) = blen (x_ebus x4)) by (rewrite Heb65; unfold blen; rewrite (e3_ebuf _ _ EF5); reflexivity).
      assert (Y6 : qlen (x_ebus x6) = Z.of_nat (lq - j)) by (rewrite Heb65; unfold qlen, zlen; rewrite Hq5, skipn_length; reflexivity).
      assert (Y7 : blen (m_wbus (x_m x6)) = Z.of_nat j) by (unfold blen; rewrite (w3_wbuf _ _ WF6); exact Hb5).
      assert (Y8 : qlen (m_wbus (x_m x6)) = 0) by (unfold qlen; rewrite Hq6'; reflexivity).
      destruct (front_cl_len _ _ _ _ _ F3 Hcu3) as [N3 N3'].
      destruct (front_cl_len _ _ _ _ _ F4 Hcu4) as [N4 N4'].
      assert (Y9 : qlen (m_cbus m3) = qlen (m_cbus (x_m x1))) by (unfold qlen; rewrite R9; reflexivity).
      assert (Y10 : phiF (m_fu (x_m x1)) = phiF (m_fu (x_m x0))) by (rewrite C5; reflexivity).
      assert (Yp4 : zlen (x_pend x4) = Z.of_nat (length (x_pend x4))) by reflexivity.
      assert (Yp0 : zlen (x_pend x0) = Z.of_nat (length (x_pend x0))) by reflexivity.
      assert (Gwq0 : qlen (m_wbus (x_m x0)) = 0) by (unfold qlen; rewrite Gwq; reflexivity).
      pose proof (blen_ge0 (m_dbus (x_m x1))) as P1. pose proof (qlen_ge0 (m_dbus (x_m x1))) as P2. pose proof (blen_ge0 (m_cbus (x_m x1))) as P3.
      pose proof (qlen_ge0 (m_cbus (x_m x1))) as P4. pose proof (blen_ge0 (m_dbus m3)) as P5. pose proof (qlen_ge0 (m_dbus m3)) as P6.
      pose proof (blen_ge0 (m_cbus m3)) as P7. pose proof (qlen_ge0 (m_cbus (x_m x4))) as P8. pose proof (blen_ge0 (x_ebus x4)) as P9.
      pose proof (blen_ge0 (m_wbus (x_m x0))) as P10. pose proof (blen_ge0 (m_dbus (x_m x0))) as P11. pose proof (qlen_ge0 (m_dbus (x_m x0))) as P12.
      pose proof (blen_ge0 (m_cbus (x_m x0))) as P13. pose proof (qlen_ge0 (m_cbus (x_m x0))) as P14. pose proof (blen_ge0 (x_ebus x0)) as P15.
      cbn [x3 x_m set_m] in N3, N3'. change (x_pend x3) with (x_pend x0) in *.
      assert (Hle : phiX x6 <= phiX x0).
      { unfold phiX. rewrite Y1, Y2, Y3, Y3b, Y5, Y6, Y7, Y8, Ypend, Yp4, Yp0, Gwq0. fold D in N3, N3'. lia. }
      assert (Hlt : phiX x6 < phiX x0 \/ is_empty3 x6 eus' wus = true).
      { destruct (Z.eq_dec (blen (m_wbus (x_m x0))) 0) as [Wz|Wnz].
        2:{ left. unfold phiX. rewrite Y1, Y2, Y3, Y3b, Y5, Y6, Y7, Y8, Ypend, Yp4, Yp0, Gwq0. fold D in N3, N3'. lia. }
        destruct (Nat.eq_dec j 0) as [Hjz|Hjz].
        2:{ left. unfold phiX. rewrite Y1, Y2, Y3, Y3b, Y5, Y6, Y7, Y8, Ypend, Yp4, Yp0, Gwq0. fold D in N3, N3'. lia. }
        destruct (Nat.eq_dec lp 0) as [Hlpz|Hlpz].
        2:{ left. unfold phiX. rewrite Y1, Y2, Y3, Y3b, Y5, Y6, Y7, Y8, Ypend, Yp4, Yp0, Gwq0. fold D in N3, N3'. lia. }
        destruct Sfd as [Hs|[Hfu Hdu]].
        { left. unfold phiX. rewrite Y1, Y2, Y3, Y3b, Y5, Y6, Y7, Y8, Ypend, Yp4, Yp0, Gwq0. fold D in N3, N3'. lia. }
        right. specialize (Hj0 Hjz).
        assert (Eq0 : qlen (x_ebus x1) = 0) by lia.
        assert (Eb0 : blen (x_ebus x1) = 0) by lia.
        assert (Hxd : xe = d) by lia.
        assert (Hwd : w = d) by lia.
        assert (Hfl3 : flat (x_ebus x3) = []) by (rewrite Hex31; apply flat_nil; assumption).
        assert (Hpq : x_pend x0 = [] /\ bb_q (m_cbus (x_m x3)) = []).
        { destruct (x_pend x0) as [|p0 pt] eqn:Ep; [destruct (bb_q (m_cbus (x_m x3))) as [|c0 ct] eqn:Ec; [auto|]|]; exfalso.
          - specialize (Hprog Hfl3 Hwd ltac:(right; discriminate)). lia.
          - specialize (Hprog Hfl3 Hwd ltac:(left; discriminate)). lia. }
        destruct Hpq as [Hp0 Hcq0]. cbn [x3 x_m set_m] in Hcq0.
        assert (Cq0 : qlen (m_cbus (x_m x1)) = 0) by (rewrite <- Y9; unfold qlen; rewrite Hcq0; reflexivity).
        assert (Cb0 : blen (m_cbus (x_m x1)) = 0) by lia.
        destruct (front_cl_len _ _ _ _ _ C1 ltac:(rewrite C7; exact Gcu)) as [N1 N1'].
        assert (Hdc : d = Nat.min c n) by (unfold D in *; rewrite Hp0 in *; cbn [length] in *; lia).
        assert (Hdq : bb_q (m_dbus (x_m x1)) = []).
        { destruct Hdu as [Hdr|[Hdp|Hdq]]; [| |exact Hdq]; exfalso.
          - destruct (fr_dret_t _ _ _ _ _ _ _ C1 Hdr) as (HNn & Hc & Hret). fold n N in HNn, Hc.
            pose proof (bi_xeN _ _ _ _ _ _ _ _ _ _ _ GB) as HxN. fold N in HxN. lia.
          - destruct (fr_dpbr_t _ _ _ _ _ _ _ C1 Hdp) as (HNn & Hc & Hjmp).
            pose proof (nobranch_uncond _ (ik_nobr app Hstr (stop_from app 0))) as Hnj. unfold is_jump in Hjmp. congruence. }
        assert (Dq0 : qlen (m_dbus (x_m x1)) = 0) by (unfold qlen; rewrite Hdq; reflexivity).
        assert (Db0 : blen (m_dbus (x_m x1)) = 0) by lia.
        destruct Hfu as [(Hco & Hfu & Hcomp)|[_ Hnadd]].
        2:{ exfalso. unfold bb_canadd in Hnadd. fold (blen (m_dbus (x_m x1))) in Hnadd. rewrite Db0, (bus_bl _ _ (fr_bsd _ _ _ _ _ _ _ C1)) in Hnadd. discriminate. }
        assert (Hcomp6 : f_complete (m_fu (x_m x6)) = true).
        { rewrite Y1, Hcomp, C5. destruct (f_complete (m_fu (x_m x0))) eqn:Ec; [reflexivity|].
          destruct (fi_nc _ _ _ _ (fr_fetch _ _ _ _ _ _ _ GF) Ec) as [_ Hx]. rewrite C5 in Hco. contradiction. }
        rewrite Hp0 in *. change (zlen (@nil runner3)) with 0 in *.
        unfold phiX in Hle. rewrite Y1, Y2, Y3, Y5, Y6, Y7, Y8, Ypend, Yp4, Yp0, Gwq0, Hfu, Y10 in Hle.
        pose proof (qlen_ge0 (x_ebus x0)).
        unfold is_empty3. rewrite Hcomp6, Ypend. replace (zlen (x_pend x4)) with 0 by lia. cbn [andb Z.eqb].
        rewrite (IE wus_empty3 _ Gw), (IE eus_empty3 _ A1).
        rewrite (isempty_intro (m_dbus (x_m x6))), (isempty_intro (m_cbus (x_m x6))), (isempty_intro (x_ebus x6)), (isempty_intro (m_wbus (x_m x6)));
          [reflexivity | | | | | | | |]; rewrite ?Y2, ?Y3, ?Y5, ?Y6, ?Y7, ?Y8; try lia. }
      destruct (is_empty3 x6 eus' wus) eqn:Eemp.
      - (* Run returns *)
        right. left. rewrite (bi_os _ _ _ _ _ _ _ _ _ _ _ HB6'). eexists. split; [reflexivity|].
        unfold is_empty3 in Eemp. repeat (apply andb_prop in Eemp as [Eemp ?]).
        assert (Hfd : flat (m_dbus (x_m x6)) = []) by (apply isempty_flat; assumption).
        assert (Hfc : flat (m_cbus (x_m x6)) = []) by (apply isempty_flat; assumption).
        assert (Hfe : flat (x_ebus x6) = []) by (apply isempty_flat; assumption).
        assert (Hfw : flat (m_wbus (x_m x6)) = []) by (apply isempty_flat; assumption).
        assert (Hpe : x_pend x6 = []) by (apply zlen_zero; apply Z.eqb_eq; assumption).
        pose proof (fr_dbus _ _ _ _ _ _ _ HF6) as Hdb. rewrite Hfd in Hdb. symmetry in Hdb. apply map_eq_nil in Hdb.
        apply (f_equal (@length nat)) in Hdb. rewrite seq_length in Hdb. cbn [length] in Hdb.
        pose proof (fr_cl _ _ _ _ _ _ _ HF6) as Hcl. rewrite Hcu6, Hfc in Hcl. cbn [List.app] in Hcl. symmetry in Hcl. apply map_eq_nil in Hcl.
        apply (f_equal (@length nat)) in Hcl. rewrite seq_length in Hcl. cbn [length] in Hcl.
        destruct (fi_c _ _ _ _ (fr_fetch _ _ _ _ _ _ _ HF6) Eemp) as (_ & HfM & _).
        pose proof (fr_cf _ _ _ _ _ _ _ HF6) as Hcf6. pose proof (fr_dc _ _ _ _ _ _ _ HF6) as Hdc6.
        rewrite Hpe in Hcl, Hdc6, HB6'. cbn [length] in Hcl, Hdc6. fold n in Hcl, Hdc6.
        assert (Hd'n : (d + lp)%nat = n) by (clear - Hcl Hdc6 Hdb Hcf6 HfM; fold n in HfM; lia).
        pose proof (BI_flat_len _ _ _ _ _ _ _ HB6') as L6. rewrite flat_len in Hfe || idtac.
        assert (Hxe : (xe + j)%nat = (d + lp)%nat).
        { pose proof (qlen_ge0 (x_ebus x6)). pose proof (blen_ge0 (x_ebus x6)).
          assert (Hz : zlen (flat (x_ebus x6)) = 0) by (rewrite Hfe; reflexivity). rewrite flat_len in Hz.
          pose proof (bi_ord _ _ _ _ _ _ _ _ _ _ _ HB6') as Ho6. clear - Hz L6 Ho6 H H0. lia. }
        assert (Hw6 : (w + nw)%nat = (xe + j)%nat) by (eapply wbus_nil_w; [exact HB6' | exact Hfw]).
        rewrite Hw6, Hxe, Hd'n in HB6'.
        apply (fin_end d [] (x_prev x6) x6 (cyc + 1) HB6'). clear - Hd'n Hcyc'. lia.
      - (* the loop goes on *)
        left. eexists _, d, (d + lp)%nat, c', f', (xe + j)%nat, (w + nw)%nat. split; [reflexivity|]. split.
        + constructor; cbn [t_x t_eus t_wus t_cycle t_mode].
          * exact HF6.
          * exact Hcu6.
          * exact HB6'.
          * exact HE6.
          * rewrite Y5. exact Hbe4.
          * exact A1.
          * exact Gw.
          * exact Gwne.
          * congruence.
          * exact Hq6'.
          * rewrite Y7. clear - Hje Glen. lia.
          * rewrite Y7. clear - Hjq Hlq2. lia.
          * exact Hcyc'.
          * reflexivity.
        + unfold phi3. cbn [t_x]. fold x0. destruct Hlt as [Hlt|Hx]; [exact Hlt | congruence]. }
    destruct (bb_q (x_ebus x4)) as [|r q'] eqn:Eq4.
    - (* nothing to execute *)
      destruct (IE eus_main_idle (cyc + 1) x4 false eus Ge Eq4) as (eus' & Ee & A1 & A2).
      apply (Hcont x4 eus' O Ee A1 A2).
      + rewrite Nat.add_0_r. exact HB4.
      + apply (IE EuFrame3_refl).
      + exact Eq4.
      + exact HW4.
      + exact Hwb4.
      + apply Nat.le_0_l.
      + apply Nat.le_0_l.
      + intros _. reflexivity.
    - assert (Hfl4 : flat (x_ebus x4) = r :: (q' ++ map snd (bb_buf (x_ebus x4)))) by (unfold flat; rewrite Eq4; reflexivity).
      destruct (head_entry app labels regs0 mem0 ord Hlen0 Hsem _ _ _ _ _ _ _ _ _ HB4 Hfl4) as (Hqr & Hkq & Hxd).
      pose proof (bi_xeN _ _ _ _ _ _ _ _ _ _ _ HB4) as HxN. fold N in HxN.
      pose proof (bi_ret _ _ _ _ _ _ _ _ _ _ _ HB4) as Hbr. fold N in Hbr.
      assert (Hxn : (xe < n)%nat) by (clear - HdN4 Hxd; lia).
      assert (Hadd4 : bb_canadd (m_wbus (x_m x4)) = true) by (apply canadd_lt3; [apply (bus_bl _ _ HW4) | clear - Hwb4; lia]).
      assert (Hlq1 : (1 <= lq)%nat) by (unfold lq; cbn [length]; clear; lia).
      destruct (is_ret (ik xe)) eqn:Eret.
      + (* the ret is executed: the drain loop is entered *)
        assert (HxeN : xe = N) by (apply (is_ret_N app labels regs0 Hstr Hlen0 Hsem xe HxN Hxn); exact Eret).
        assert (Hd4 : (d + lp)%nat = S N) by (clear - HdN4 Hxd HxeN; lia).
        assert (Hp4 : x_pend x4 = []) by (destruct (x_pend x4); [reflexivity | destruct HdN4 as [Hx _]; cbn [length] in Hx; clear - Hx Hd4; lia]).
        assert (Hq'b : q' = []).
        { assert (Hql : qlen (x_ebus x4) = Z.of_nat (S (length q'))) by (unfold qlen, zlen; rewrite Eq4; reflexivity).
          pose proof (blen_ge0 (x_ebus x4)) as Hbg. destruct q'; [reflexivity | cbn [length] in Hql; clear - Hql L4 Hbg Hd4 HxeN; lia]. }
        subst q'. rewrite Hp4, HxeN in HB4. rewrite HxeN in Eret.
        destruct (IE eus_main_ret (cyc + 1) d (d + lp)%nat w (x_prev x4) x4 r eus GEne Ge HB4 Eq4 Eret Hadd4)
          as (x5 & eus' & Ee & A1 & A2 & _ & HB5 & EF5 & Hq5 & Hw5).
        unfold step3. rewrite Gmode. fold x0 cyc eus wus. rewrite Efront. cbn [res_of3]. change yo_none with (acc_of false). rewrite Ee. cbn [res_of3 orb].
        rewrite or_os_false. unfold back3. cbn [y_err y_flush y_ret].
        destruct (IE wus_ok3 d N N [] [] wus x5 w Gw HB5) as (x6 & Ew & HB6 & WF6 & Hq6).
        fold wus. rewrite Ew. cbn [res_of3].
        assert (Hq5w : bb_q (m_wbus (x_m x5)) = map snd (bb_buf (m_wbus (x_m x0)))) by (rewrite Hw5; exact Hwq4).
        assert (Hq6' : bb_q (m_wbus (x_m x6)) = []) by (rewrite Hq6; apply skipn_all2; rewrite Hq5w, map_length; fold nw; clear - Gwb Hnw; lia).
        assert (Hb6 : blen (m_wbus (x_m x6)) = 0) by (unfold blen; rewrite (w3_wbuf _ _ WF6), Hw5; exact Hwb4).
        assert (HW6 : BusOK (cyc + 1) (m_wbus (x_m x6))).
        { eapply BusOK_frame; [exact (w3_wbuf _ _ WF6) | exact (w3_wql _ _ WF6) | exact (w3_wbl _ _ WF6) | | rewrite Hw5; exact HW4].
          unfold qlen. rewrite Hq6'. apply zlen_ge0. }
        assert (HNr : (N < n)%nat /\ is_ret (ik N) = true) by (split; [clear - Hxn HxeN; lia | exact Eret]).
        destruct (ret_tail3 d _ (cyc + 1) x6 eus' wus HB6 A1 Gw Gwne HNr ltac:(left; split; [exact Hq6' | clear - Hb6; lia]) HW6 ltac:(clear - Hd4 Hcyc'; lia))
          as [(E & G2 & _)|(r0 & E & HFin)].
        * right. right. eexists _, _. split; [exact E | exact G2].
        * right. left. exists r0. split; [exact E | exact HFin].
      + (* no ret in flight *)
        assert (HSx : (S xe <= N)%nat).
        { destruct (Nat.eq_dec xe N) as [E|NE]; [|clear - NE HxN; lia]. exfalso.
          rewrite (proj2 (is_ret_N app labels regs0 Hstr Hlen0 Hsem xe HxN Hxn) E) in Eret. discriminate. }
        assert (HdN' : (d + lp <= N)%nat) by (destruct (Nat.le_gt_cases (d + lp) N) as [Hx|Hx]; [exact Hx | specialize (Hbr Hx); clear - Hbr HSx; lia]).
        destruct (IE eus_main_plain (cyc + 1) d (d + lp)%nat w (x_pend x4) (x_prev x4) false eus x4 xe lq Ge HB4 HdN'
                    ltac:(rewrite Eq4; reflexivity) Hlqd HW4 ltac:(rewrite Hwb4; clear - Hlq2; lia))
          as (x5 & eus' & Ee & A1 & A2 & HB5 & EF5 & Hq5 & HW5 & Hb5).
        apply (Hcont x5 eus' (Nat.min (length eus) lq) Ee A1 A2 HB5 EF5).
        * rewrite Eq4 in Hq5. exact Hq5.
        * exact HW5.
        * unfold blen. rewrite Hb5, zlen_app. fold (blen (m_wbus (x_m x4))). rewrite Hwb4. unfold zlen. rewrite map_length, seq_length. clear. lia.
        * apply Nat.le_min_r.
        * apply Nat.le_min_l.
        * intros Hz. clear - Hz Hlq1 GEne. destruct eus; [contradiction | cbn [length] in Hz; lia].
  Qed.

  (* ---------------------------------------------------------------- *)
  (* the two loops together: a run from a state of either loop ends, with the sequential result *)

  Lemma run3_S s s' fuel : step3 app labels ord s = TCont s' -> run3_st (S fuel) app labels ord s = run3_st fuel app labels ord s'.
  Proof. intros H. cbn [run3_st]. rewrite H. reflexivity. Qed.

  Lemma run3_done s r os fuel : step3 app labels ord s = TDone r os -> run3_st (S fuel) app labels ord s = inl (r, os).
  Proof. intros H. cbn [run3_st]. rewrite H. reflexivity. Qed.

  Inductive SInv3 (s : st3) : Prop :=
  | SI3_n dp d c f xe w : G3 dp d c f xe w s -> SInv3 s
  | SI3_r w : GR3 w s -> SInv3 s.

  Definition mu3 (s : st3) : Z :=
    match t_mode s with
    | NNormal => phi3 s + 3
    | _ => qlen (m_wbus (x_m (t_x s)))
    end.

  Lemma phi3_nn dp d c f xe w s : G3 dp d c f xe w s -> 0 <= phi3 s.
  Proof.
    intros HG. unfold phi3, phiX.
    pose proof (fr_fetch _ _ _ _ _ _ _ (g3_front _ _ _ _ _ _ _ HG)) as HFt.
    pose proof (phiF_nonneg app 0 _ _ _ HFt).
    pose proof (blen_ge0 (m_dbus (x_m (t_x s)))). pose proof (qlen_ge0 (m_dbus (x_m (t_x s)))). pose proof (blen_ge0 (m_cbus (x_m (t_x s)))).
    pose proof (qlen_ge0 (m_cbus (x_m (t_x s)))). pose proof (zlen_ge0 (x_pend (t_x s))). pose proof (blen_ge0 (x_ebus (t_x s))).
    pose proof (qlen_ge0 (x_ebus (t_x s))). pose proof (blen_ge0 (m_wbus (x_m (t_x s)))). pose proof (qlen_ge0 (m_wbus (x_m (t_x s)))). lia.
  Qed.

  Lemma mu3_nonneg s : SInv3 s -> 0 <= mu3 s.
  Proof.
    intros [dp d c f xe w HG|w HG]; unfold mu3.
    - rewrite (g3_mode _ _ _ _ _ _ _ HG). pose proof (phi3_nn _ _ _ _ _ _ _ HG). lia.
    - rewrite (r3_mode _ _ HG). apply qlen_ge0.
  Qed.

  Lemma seg_run3 : forall (b : nat) s, SInv3 s -> mu3 s < Z.of_nat b ->
    exists k r, (1 <= k <= b)%nat /\ (forall extra, run3_st (k + extra) app labels ord s = inl (r, false)) /\ Fin3 r.
  Proof.
    induction b as [|b IH]; intros s HS Hmu.
    - pose proof (mu3_nonneg s HS). lia.
    - assert (Hnext : forall s', step3 app labels ord s = TCont s' -> SInv3 s' -> mu3 s' < mu3 s ->
                exists k r, (1 <= k <= S b)%nat /\ (forall extra, run3_st (k + extra) app labels ord s = inl (r, false)) /\ Fin3 r).
      { intros s' Es HS' Hlt. destruct (IH s' HS' ltac:(lia)) as (k & r & Hk & Hr & HF).
        exists (S k), r. split; [lia|]. split; [|exact HF]. intros extra. cbn [Nat.add]. rewrite (run3_S _ _ _ Es). apply Hr. }
      assert (Hdone : forall r, step3 app labels ord s = TDone r false -> Fin3 r ->
                exists k r, (1 <= k <= S b)%nat /\ (forall extra, run3_st (k + extra) app labels ord s = inl (r, false)) /\ Fin3 r).
      { intros r Es HF. exists 1%nat, r. split; [lia|]. split; [|exact HF]. intros extra. apply run3_done. exact Es. }
      destruct HS as [dp d c f xe w HG|w HG].
      + destruct (step_normal3 dp d c f xe w s HG) as [(s' & dp' & d' & c' & f' & xe' & w' & Es & HG' & Hlt)|[(r & Es & HF)|(s' & w' & Es & HG')]].
        * apply (Hnext s' Es (SI3_n s' dp' d' c' f' xe' w' HG')). unfold mu3. rewrite (g3_mode _ _ _ _ _ _ _ HG), (g3_mode _ _ _ _ _ _ _ HG'). lia.
        * apply (Hdone r Es HF).
        * apply (Hnext s' Es (SI3_r s' w' HG')). pose proof (phi3_nn _ _ _ _ _ _ _ HG) as H0.
          unfold mu3 in *. rewrite (g3_mode _ _ _ _ _ _ _ HG) in *. rewrite (r3_mode _ _ HG').
          pose proof (bus_q _ _ (r3_bw _ _ HG')). lia.
      + destruct (step_ret3 w s HG) as [(s' & w' & Es & HG' & Hlt)|(r & Es & HF)].
        * apply (Hnext s' Es (SI3_r s' w' HG')). unfold mu3. rewrite (r3_mode _ _ HG), (r3_mode _ _ HG'). exact Hlt.
        * apply (Hdone r Es HF).
  Qed.
End Step3.
