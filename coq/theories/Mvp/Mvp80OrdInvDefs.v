(* Soundness of the ghost flag of the model of MVP-8.0, part 4: the invariants of a run that the commutation of the
   snoop closures needs (definitions only; preservation in Mvp80OrdInv.v, use in Mvp80OrdComm.v). *)
From Coq Require Import ZArith List Bool Lia.
From Maj Require Import Base.Outcome Base.GoInt Base.GoTypes Isa.Spec Isa.Seq.
From Maj Require Import Gen.Latency Gen.RiscTables Gen.Opcodes Comp.Cache Comp.Rat Mvp.Mvp12 Mvp.Mvp3 Mvp.Mvp5 Mvp.Mvp60 Mvp.Mvp63 Mvp.Mvp80.
From Maj Require Import Mvp.Mvp80OrdSnoop Mvp.Mvp80OrdCache.
Import ListNotations.
Open Scope Z_scope.

(* ---------- caches ---------- *)

(* a line of a cache with lines of n bytes: at a non-negative int32 address, aligned, of full length *)
Definition wf_line (n : Z) (l : line) : Prop :=
  0 <= lo l < 2^31 /\ Z.rem (lo l) n = 0 /\ hi l = addS 32 (lo l) n /\ zlen (data l) = n.

Definition wf_cache (n : Z) (c : cache) : Prop := llen c = n /\ Forall (wf_line n) (lines c).

(* an address kept in the state of a coroutine across cycles (the base of a fetched L3 line, of an L1 sub line) *)
Definition addr_ok (a : Z) : Prop := 0 <= a < 2^31.

Definition rd_ok (r : rd_co) : Prop :=
  match r with
  | RdMemWait _ a _ | RdL3Lock a _ | RdL3Push _ a _ => addr_ok a
  | _ => True
  end.

Definition wr_ok (r : wr_co) : Prop :=
  match r with
  | WrL1Push _ a _ | WrMemWait _ a _ | WrL3Wait _ a _ => addr_ok a
  | _ => True
  end.

(* ---------- commands ---------- *)

Definition key_aligned (key : cmdk) : Prop :=
  if is_l1_req key then l1_align (ck_addr key) = ck_addr key else l3_align (ck_addr key) = ck_addr key.

(* the commands of the directory: identities pairwise different and below k_next, keys pairwise different, addresses aligned *)
Definition cmds_ok (k : msi8) : Prop :=
  NoDup (map snd (k_cmds k)) /\
  (forall key cid, In (key, cid) (k_cmds k) -> cid < k_next k) /\
  NoDup (map fst (k_cmds k)) /\
  (forall key cid, In (key, cid) (k_cmds k) -> key_aligned key).

(* ---------- snoop closures ---------- *)

Definition sn_key (s : snoop_cl) : cmdk :=
  match s with SnL1Evict k _ | SnL3Evict k _ | SnL1WriteBack k _ _ _ _ | SnL3WriteBack k _ _ => k end.

Definition sn_cid (s : snoop_cl) : Z :=
  match s with SnL1Evict _ c | SnL3Evict _ c | SnL1WriteBack _ c _ _ _ | SnL3WriteBack _ c _ => c end.

Definition sn_isl1 (s : snoop_cl) : bool :=
  match s with SnL1Evict _ _ | SnL1WriteBack _ _ _ _ _ => true | _ => false end.

(* the closure is the one coSnoop builds for a command of that kind *)
Definition sn_kind_ok (s : snoop_cl) : Prop :=
  match s with
  | SnL1Evict k _ => ck_req k = rq_l1Evict
  | SnL3Evict k _ => ck_req k = rq_l3Evict
  | SnL1WriteBack k _ _ _ _ => ck_req k = rq_l1WriteBack
  | SnL3WriteBack k _ _ => ck_req k = rq_l3WriteBack
  end.

(* one closure of the snoop list of core id, in directory k: an L1 closure's MSI entry exists *)
Definition sn_unary (k : msi8) (id : Z) (s : snoop_cl) : Prop :=
  sn_kind_ok s /\ ck_id (sn_key s) = id /\ key_aligned (sn_key s) /\
  (sn_isl1 s = true -> pget zz_eqb (id, ck_addr (sn_key s)) (k_states k) <> None).

(* two closures of one snoop list: no conflict in the sense of the ghost flag; two L1 closures are about different lines *)
Definition sn_compat (s1 s2 : snoop_cl) : Prop :=
  sn_conflict (sn_key s1) (sn_key s2) = false /\
  (sn_isl1 s1 = true -> sn_isl1 s2 = true -> ck_addr (sn_key s1) <> ck_addr (sn_key s2)).

Definition sn_list_ok (k : msi8) (id : Z) (l : list snoop_cl) : Prop :=
  Forall (sn_unary k id) l /\ ForallOrdPairs sn_compat l.

(* ---------- controllers, the whole memory system ---------- *)

(* what a controller needs by itself *)
Definition cc_ok (c : cc8) : Prop := wf_cache l1dLineSize (c_l1d c) /\ rd_ok (c_read c) /\ wr_ok (c_write c).

(* what the shared part needs by itself *)
Definition mw_ok (w : mw) : Prop := wf_cache l3LineSize8 (w_l3 w) /\ cmds_ok (w_msi w).

(* the invariant: shared part, every controller, every snoop list against the current directory *)
Definition mem_inv (w : mw) (ccs : list cc8) : Prop :=
  mw_ok w /\ Forall cc_ok ccs /\ Forall (fun c => sn_list_ok (w_msi w) (c_id c) (c_snoop c)) ccs.

Definition my_inv (y : my) : Prop := mem_inv (mw_of y) (y_ccs y).

(* entries of the MSI state map are never deleted *)
Definition keys_le (k k' : msi8) : Prop :=
  forall key, pget zz_eqb key (k_states k) <> None -> pget zz_eqb key (k_states k') <> None.
