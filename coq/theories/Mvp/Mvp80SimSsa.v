(* MVP-8.0 (Mvp80.v) against MVP-6.3 (Mvp63.v) on SINGLE-ASSIGNMENT, register-only, straight-line programs
   (straight, reg_only, ssa, regs_ok) whose sequential run ends: every number of cores >= 1, 32 int32 registers,
   x0 = 0.  Method of Mvp71Sim70.v: the run invariant CI8 is
     SI (Mvp80RegOnly.v)      the memory system of MVP-8.0 is idle, every runner is neither a load nor a store,
     y_pref = []              no runner has a preferred execute unit (no loads, no stores),
     SInv3 (Mvp63RefStep.v)   on the projected state st3_of s: the in-order pipeline invariant BI of MVP-6.3
                              (transactionRAT = tv w: every tag is the pc of one of the first w instructions),
   and per tick the conditions of Mvp80Sim63Defs.v / Loops.v are discharged from it: ids = pcs (sequenceID stays 0),
   every tag of transactionRAT <= pc of the oldest instruction not yet executed <= the id of every queued runner
   (rd_agree8_newest), the Pre hook never fires (h_seq = 0), no preference.  New simulation pieces: write units
   (wus_cycle8_eq: no memory change on the write bus), drain loop (every unit idle), final loop (final8), the end of
   Run (finish_sim).

   PROVED (closed under the global context), for EVERY order function
     tick8, final8                      one tick under CI8: step3 (st3_of s) = proj_res8 (step8 s), CI8 is kept, the
                                        step of MVP-6.3 does not depend on the empty L3 (L3OK); the final loop runs
                                        once and returns finish3 + one cycle
     run8_sim, run3_l3                  whole runs from a state of CI8
     mvp80_ssa_straight_sim_mvp63       mvp63_run_os par ord fuel .. = (r, os) -> r <> MOutOfFuel ->
                                        mvp80_run_os par ord (S fuel) .. = (plus_one_cycle r, os)
     mvp80_ssa_straight_sim_mvp63g, mvp63g_l3_80
                                        the two halves: MVP-8.0 against the pipeline of MVP-6.3 started with the (empty)
                                        L3 of MVP-8.0 (128-byte lines, 4096 bytes: st3_of of NewCPU of MVP-8.0), and the
                                        independence of that pipeline of the geometry of an L3 that is never used
                                        (Mvp63L3Indep.v: front end, units on non-memory non-branch runners, write units,
                                        end of Run commute with replacing the L3)
     mvp80_run_ssa_straight, mvp80_refines_seq_ssa_straight, mvp80_ghost_clear_ssa_straight,
     mvp80_terminates_ssa_straight, mvp80_no_panic_ssa_straight
                                        MVP-8.0 returns the sequential registers and memory, ghost flag clear, within
                                        fuel_bound80 (length app) ticks, 2 * c >= executed + 2, c = c63 + 1
     mvp80_ssa_example_any, mvp80_ssa_example_sim, mvp80_ssa_example
                                        the 14-instruction example ex63_prog: any number of cores, any order; and by
                                        computation at 1..4 cores, two orders
   RATCommit ; RATFlush at the end of Run ranges over the alias tables one cycle later in MVP-8.0; the tables are well
   formed and hold no negative key in the last state (RK, carried through the units and the write units; fin_indep of
   Mvp70Sim63Proofs.v), so the result does not depend on the order function.
   Not needed (and not proved): the flush loop (no flush on straight-line programs). *)
From Coq Require Import ZArith List Bool Lia.
From Maj Require Import Base.Outcome Base.GoInt Base.GoTypes Isa.Spec Isa.Embed Isa.Seq Isa.Refine.
From Maj Require Import Gen.Latency Gen.RiscTables Gen.Opcodes Comp.Cache Comp.Rat Comp.RatProofs.
From Maj Require Import Mvp.Mvp12 Mvp.Mvp12Proofs Mvp.Mvp3 Mvp.Mvp3Proofs Mvp.Mvp4Skel Mvp.Mvp4Inv Mvp.Mvp5 Mvp.Mvp60
     Mvp.Mvp60RefSem Mvp.Mvp60RefDefs Mvp.Mvp60RefFront Mvp.Mvp60RefBack Mvp.Mvp60RefStep Mvp.Mvp63.
From Maj Require Import Mvp.Mvp60Proofs Mvp.Mvp63Proofs.
From Maj Require Import Mvp.Mvp60RefStep2 Mvp.Mvp60RefSeg Mvp.Mvp60RefProofs Mvp.Mvp63RefDefs Mvp.Mvp63RefRat Mvp.Mvp63RefInv Mvp.Mvp63RefExec Mvp.Mvp63RefStep Mvp.Mvp63RefProofs.
From Maj Require Mvp.Mvp70Sim63Proofs Mvp.Mvp70Sim63Mvp71 Mvp.Mvp71Sim70.
From Maj Require Import Mvp.Mvp80 Mvp.Mvp80Proofs Mvp.Mvp80RegOnly Mvp.Mvp80RegOnly63 Mvp.Mvp80Sim63Defs Mvp.Mvp80Sim63Loops
     Mvp.Mvp80Sim63Finish Mvp.Mvp63L3Indep.
Import ListNotations.
Open Scope Z_scope.

(* ------------------------------------------------------------------ *)
(* 1. register reads by sequence id                                     *)
(* ------------------------------------------------------------------ *)

Lemma rd_agree8_newest : forall x r,
  (forall reg v, rat_read tu0 (x_trat x) reg = Some v -> fst v <= q_seq r) -> rd_agree x r.
Proof.
  intros x r H reg. unfold rd_agree, rr8, rr3, reg_read8, reg_read3.
  destruct (reg =? fst _); [reflexivity|].
  destruct (q_seq r =? 0); [reflexivity|].
  destruct (rat_read tu0 (x_trat x) reg) as [v|] eqn:ER.
  - rewrite (Mvp70Sim63Mvp71.rat_find_newest (x_trat x) reg _ v ER); [reflexivity|]. apply Z.leb_le. eapply H. exact ER.
  - rewrite (Mvp70Sim63Mvp71.rat_find_absent (x_trat x) reg _ ER). reflexivity.
Qed.

Lemma run_nobranch_pc8 : forall i rr labels pc mem sq exe,
  nomem i = true -> nobranch i = true -> instr_Run i rr labels pc mem sq = Ok exe -> PcChange exe = false.
Proof. intros i rr labels pc mem sq exe Hm Hn E. exact (Mvp71Sim70.run_nobranch_pc i rr labels pc mem sq exe Hm Hn E). Qed.

Lemma trat_bu_assert8 : forall x r, x_trat (bu_assert3 x r) = x_trat x /\ x_ebus (bu_assert3 x r) = x_ebus x /\
  m_wbus (x_m (bu_assert3 x r)) = m_wbus (x_m x) /\ x_crat (bu_assert3 x r) = x_crat x.
Proof.
  intros x r. unfold bu_assert3. cbv zeta.
  destruct (InstructionType_IsUnconditionalBranch _).
  - destruct (btb_get _ _); repeat split; reflexivity.
  - destruct (InstructionType_IsConditionalBranch _); repeat split; reflexivity.
Qed.

(* ------------------------------------------------------------------ *)
(* 2. the loop over the execute units                                   *)
(* ------------------------------------------------------------------ *)

(* no entry at the head part of the write bus carries a memory change *)
Definition WQ (c : wb6) : Prop :=
  MemoryChange (w_exe c) = false /\ (RegisterChange (w_exe c) = true -> 0 <= Register (w_exe c)).
Definition NMQ (x : mx) : Prop := Forall WQ (bb_q (m_wbus (x_m x))).

(* the alias tables are well formed and hold no negative key (what fin_indep of Mvp70Sim63Proofs.v needs) *)
Definition RK (x : mx) : Prop :=
  rat_ok (x_crat x) /\ rat_ok (x_trat x) /\
  (forall k v, rat_read 0 (x_crat x) k = Some v -> 0 <= k) /\
  (forall k v, rat_read tu0 (x_trat x) k = Some v -> 0 <= k).

Lemma RK_ext : forall x x', x_crat x' = x_crat x -> x_trat x' = x_trat x -> RK x -> RK x'.
Proof. intros x x' E1 E2 H. unfold RK. rewrite E1, E2. exact H. Qed.

Lemma RK_fin : forall ord x c, RK x ->
  rat_flush3 ord (c + 1) (rat_commit3 ord (c + 1) x) = rat_flush3 ord c (rat_commit3 ord c x).
Proof. intros ord x c (R1 & _ & R3 & R4). exact (Mvp70Sim63Proofs.fin_indep ord (c + 1) ord c x R1 R3 R4). Qed.

Definition QR (B : Z) (r : runner3) : Prop := B <= q_seq r /\ nobranch (q_instr r) = true.

Definition WB (B : Z) (y : my) : Prop :=
  y_pref y = [] /\
  (forall reg v, rat_read tu0 (x_trat (y_x y)) reg = Some v -> fst v <= B) /\
  Forall (QR B) (bb_q (x_ebus (y_x y))) /\
  NMQ (y_x y) /\ RK (y_x y).

Section Units.
  Variables (mem0 : list Z) (c3 : cache) (k0 : msi8) (ccs0 : list cc8).
  Hypothesis Hccs : Forall cc_idle ccs0.
  Hypothesis Hcmds : k_cmds k0 = [].
  Notation INV := (INV mem0 c3 k0 ccs0).

  Lemma eu_run8_fr : forall labels ord cycle y i e y' e' o r,
    eu_run8 labels ord cycle y i e = Ok (y', e', o) -> h_runner e = Some r -> NM r -> nobranch (q_instr r) = true ->
    y_pref y' = y_pref y /\ x_trat (y_x y') = x_trat (y_x y) /\ x_ebus (y_x y') = x_ebus (y_x y) /\
    bb_q (m_wbus (x_m (y_x y'))) = bb_q (m_wbus (x_m (y_x y))) /\ x_crat (y_x y') = x_crat (y_x y) /\ y_flush o = false.
  Proof.
    intros labels ord cycle y i e y' e' o r H ER HN HB. unfold eu_run8 in H. cbv zeta in H.
    rewrite ER in H.
    destruct (instr_Run _ _ _ _ _ _) as [exe|er|] eqn:EX; [| |discriminate].
    2: { inversion H; subst. repeat split; reflexivity. }
    rewrite (nomem_no_change _ _ _ _ _ _ _ HN EX) in H.
    rewrite (run_nobranch_pc8 _ _ _ _ _ _ _ HN HB EX) in H.
    destruct (Return exe); [inversion H; subst; repeat split; reflexivity|].
    destruct (q_fwder r) as [ch|].
    - destruct (aget ch _); [discriminate|]. destruct (InstructionType_IsBranch _); [discriminate|].
      inversion H; subst. repeat split; reflexivity.
    - rewrite (nobranch_uncond _ HB), (nobranch_cond _ HB) in H. inversion H; subst. repeat split; reflexivity.
  Qed.

  Lemma eu_prepare8_fr : forall labels ord cycle y i e y' e' o r,
    eu_prepare8 labels ord cycle y i e = Ok (y', e', o) -> h_runner e = Some r -> NM r -> nobranch (q_instr r) = true ->
    y_pref y' = y_pref y /\ x_trat (y_x y') = x_trat (y_x y) /\ x_ebus (y_x y') = x_ebus (y_x y) /\
    bb_q (m_wbus (x_m (y_x y'))) = bb_q (m_wbus (x_m (y_x y))) /\ x_crat (y_x y') = x_crat (y_x y) /\ y_flush o = false.
  Proof.
    intros labels ord cycle y i e y' e' o r H ER HN HB. unfold eu_prepare8 in H. cbv zeta in H.
    destruct (negb _); [inversion H; subst; repeat split; reflexivity|].
    rewrite ER in H.
    destruct (q_recv r) as [ch|].
    - destruct (aget ch (x_chan (y_x y))) as [v|]; [|inversion H; subst; repeat split; reflexivity].
      cbv beta iota zeta in H. rewrite nomem_no_read in H by exact HN.
      eapply eu_run8_fr in H; [|cbn [h_runner]; reflexivity|exact HN|exact HB].
      destruct H as (A & B & C & D & G & F). cbn [set_x y_x y_pref] in A, B, C, D, G.
      destruct (trat_bu_assert8 (set_forward3 (set_chan3 (y_x y) (filter (fun p => negb (fst p =? ch)) (x_chan (y_x y)))) (q_pc r) (q_freg r) v)
                                (q_r r)) as (T1 & T2 & T3 & T4).
      cbn [q_r] in B, C, D, G. rewrite T1 in B. rewrite T2 in C. rewrite T3 in D. rewrite T4 in G. repeat split; assumption.
    - cbv beta iota zeta in H. rewrite nomem_no_read in H by exact HN.
      eapply eu_run8_fr in H; [|cbn [h_runner]; reflexivity|exact HN|exact HB].
      destruct H as (A & B & C & D & G & F). cbn [set_x y_x y_pref] in A, B, C, D, G.
      destruct (trat_bu_assert8 (y_x y) (q_r r)) as (T1 & T2 & T3 & T4).
      rewrite T1 in B. rewrite T2 in C. rewrite T3 in D. rewrite T4 in G. repeat split; assumption.
  Qed.

  (* an idle unit with sequence id 0 *)
  Lemma eu_cycle8_WB : forall labels ord cycle i B y e y' e' o,
    eu_cycle8 labels ord cycle y i e = Ok (y', e', o) -> h_co e = HNone -> h_seq e = 0 -> INV y -> WB B y ->
    WB B y' /\ y_flush o = false.
  Proof.
    intros labels ord cycle i B y e y' e' o H HC HS HI (W1 & W2 & W3 & W4 & W5). unfold eu_cycle8 in H.
    rewrite HS in H. cbn [Z.eqb] in H. cbv beta iota zeta in H. rewrite HC, W1, pick8_nil in H.
    destruct (bb_q (x_ebus (y_x y))) as [|r q'] eqn:EQ.
    - inversion H; subst. split; [|reflexivity]. split; [exact W1|]. split; [exact W2|]. split; [rewrite EQ; exact W3|split; [exact W4|exact W5]].
    - assert (HN : NM r). { destruct HI as (_ & _ & (_ & _ & _ & [_ P4] & _)). rewrite EQ in P4. inversion P4; assumption. }
      inversion W3 as [|? ? [Q1 Q2] W3']; subst.
      eapply eu_prepare8_fr in H; [|cbn [h_runner]; reflexivity|exact HN|exact Q2].
      destruct H as (A & B' & C & D & G & F). cbn [set_x y_x y_pref set_ebus3 x_trat x_crat x_ebus x_m] in A, B', C, D, G.
      split; [|exact F]. split; [rewrite A; exact W1|]. split; [rewrite B'; exact W2|].
      split; [rewrite C; cbn [bb_q]; exact W3'|]. split; [unfold NMQ; rewrite D; exact W4|]. exact (RK_ext _ _ G B' W5).
  Qed.

  (* the conditions of eu_cycle_sim *)
  Lemma WB_cond : forall B y e, INV y -> WB B y -> h_co e = HNone -> h_seq e = 0 -> eu_cond y e.
  Proof.
    intros B y e HI (W1 & W2 & W3 & _) HC HS.
    assert (EP : pre8 e = false) by (unfold pre8; rewrite HS; reflexivity).
    split; [exact W1|]. split; [intros HP; rewrite EP in HP; discriminate HP|]. intros _. rewrite HC.
    intros r b' HG. unfold bb_get in HG. destruct (bb_q (x_ebus (y_x y))) as [|r0 q'] eqn:EQ; inversion HG; subst.
    inversion W3 as [|? ? [Q1 Q2] W3']; subst.
    intros x0 r1 EV. unfold recv3 in EV.
    destruct (q_recv r) as [ch|].
    - destruct (aget ch _) as [v|]; [|discriminate]. inversion EV; subst. apply rd_agree8_newest. intros reg v0 HV.
      rewrite (proj1 (trat_bu_assert8 _ _)) in HV. cbn [set_forward3 set_fwd3 set_chan3 set_ebus3 x_trat] in HV.
      unfold q_seq. cbn [q_r]. fold (q_seq r). specialize (W2 reg v0 HV). clear - W2 Q1. lia.
    - inversion EV; subst. apply rd_agree8_newest. intros reg v0 HV.
      rewrite (proj1 (trat_bu_assert8 _ _)) in HV. cbn [set_ebus3 x_trat] in HV.
      specialize (W2 reg v0 HV). clear - W2 Q1. lia.
  Qed.

  Lemma acc_next_seq : forall acc o, y_flush o = false -> y_seq (acc_next acc o) = y_seq acc.
  Proof. intros acc o H. unfold acc_next. rewrite H. reflexivity. Qed.

  Lemma main_cond_WB : forall labels ord cycle B eus y i acc,
    INV y -> WB B y -> Forall EU eus -> Forall (fun e => h_co e = HNone) eus -> y_seq acc = 0 ->
    main_cond labels ord cycle y i eus acc.
  Proof.
    intros labels ord cycle B. induction eus as [|e t IH]; intros y i acc HI HW HE HC HA; [exact I|].
    cbn [main_cond]. inversion HE as [|? ? HE1 HET]; subst. inversion HC as [|? ? HC1 HCT]; subst. rewrite HA.
    split; [exact (WB_cond B y (set_hseq e 0) HI HW HC1 eq_refl)|].
    intros y1 e1 o E1 EO.
    destruct (eu_cycle8_inv mem0 c3 k0 ccs0 Hccs _ _ _ _ _ _ _ _ _ E1 HI (EU_set_hseq e 0 HE1)) as [HI1 _].
    destruct (eu_cycle8_WB _ _ _ _ B _ _ _ _ _ E1 HC1 eq_refl HI HW) as [HW1 HF].
    apply IH; [exact HI1|exact HW1|exact HET|exact HCT|]. rewrite acc_next_seq by exact HF. exact HA.
  Qed.

  Lemma eus_main8_WB : forall labels ord cycle B eus y i acc y' eus' o,
    eus_main8 labels ord cycle y i eus acc = Ok (y', eus', o) ->
    INV y -> WB B y -> Forall EU eus -> Forall (fun e => h_co e = HNone) eus -> y_seq acc = 0 -> y_flush acc = false ->
    WB B y' /\ length eus' = length eus /\ y_flush o = false.
  Proof.
    intros labels ord cycle B. induction eus as [|e t IH]; intros y i acc y' eus' o H HI HW HE HC HA HFa; cbn [eus_main8] in H.
    - inversion H; subst. split; [exact HW|split; [reflexivity|exact HFa]].
    - inversion HE as [|? ? HE1 HET]; subst. inversion HC as [|? ? HC1 HCT]; subst.
      rewrite HA in H.
      apply bind_ok in H as ([[y1 e1] o1] & E1 & H).
      destruct (eu_cycle8_inv mem0 c3 k0 ccs0 Hccs _ _ _ _ _ _ _ _ _ E1 HI (EU_set_hseq e 0 HE1)) as [HI1 _].
      destruct (eu_cycle8_WB _ _ _ _ B _ _ _ _ _ E1 HC1 eq_refl HI HW) as [HW1 HF].
      destruct (y_err o1).
      + inversion H; subst. split; [exact HW1|split; [reflexivity|exact HFa]].
      + cbv zeta in H. rewrite HF, HFa in H. cbn [andb orb] in H.
        apply bind_ok in H as ([[y2 t'] acc2] & E2 & H). inversion H; subst.
        destruct (IH _ _ _ _ _ _ E2 HI1 HW1 HET HCT eq_refl eq_refl) as (A & B' & C).
        split; [exact A|split; [cbn [length]; rewrite B'; reflexivity|exact C]].
  Qed.

  (* the drain loop after ret skips idle units *)
  Lemma eus_drain8_idle : forall labels ord cycle eus i y,
    Forall (fun e => h_co e = HNone) eus -> eus_drain8 labels ord cycle y i eus = Ok (y, eus, None).
  Proof.
    intros labels ord cycle. induction eus as [|e t IH]; intros i y HC; [reflexivity|].
    inversion HC as [|? ? HC1 HCT]; subst. cbn [eus_drain8]. unfold eu_empty8. rewrite HC1. rewrite (IH (S i) y HCT). reflexivity.
  Qed.

  (* the final loop skips idle units whose controllers are idle *)
  Lemma eus_final8_idle : forall labels ord cycle eus i y, INV y -> (i + length eus <= length ccs0)%nat ->
    Forall (fun e => h_co e = HNone) eus -> eus_final8 labels ord cycle y i eus = Ok (y, eus, false).
  Proof.
    intros labels ord cycle. induction eus as [|e t IH]; intros i y HI Hi HC; [reflexivity|].
    inversion HC as [|? ? HC1 HCT]; subst. cbn [eus_final8]. cbn [length] in Hi. cbv zeta.
    pose proof HI as (I1 & I2 & I3).
    destruct (nth_error (y_ccs y) i) as [c|] eqn:EN.
    2: { exfalso. apply nth_error_None in EN. rewrite I2 in EN. clear - EN Hi. lia. }
    assert (HCI : cc_idle c).
    { rewrite I2 in EN. apply nth_error_In in EN. rewrite Forall_forall in Hccs. apply Hccs. exact EN. }
    destruct HCI as (C1 & C2 & _). unfold eu_empty8, cc_read_isstart, cc_write_isstart. rewrite HC1, C1, C2. cbn [andb].
    rewrite (IH (S i) y HI ltac:(clear - Hi; lia) HCT). reflexivity.
  Qed.
End Units.

(* ------------------------------------------------------------------ *)
(* 3. write units                                                       *)
(* ------------------------------------------------------------------ *)

Lemma wu_cycle8_eq : forall x w before, NMQ x -> wu_cycle8 x w before = wu_cycle3 x w before.
Proof.
  intros x w before H. unfold wu_cycle8, NMQ in *. destruct (bb_q (m_wbus (x_m x))) as [|c t]; [reflexivity|].
  inversion H as [|? ? [H1 _] _]; subst. rewrite H1. rewrite !andb_false_r. reflexivity.
Qed.

Lemma wu_cycle3_nmq : forall x w before x' w', wu_cycle3 x w before = Ok (x', w') -> u_co w = WNone -> NMQ x -> NMQ x'.
Proof.
  intros x w before x' w' H HW HQ. unfold wu_cycle3 in H. rewrite HW in H. cbv zeta in H. unfold bb_get in H. unfold NMQ in *.
  destruct (bb_q (m_wbus (x_m x))) as [|c t] eqn:EQ; cbv beta iota zeta in H.
  - inversion H; subst. destruct x as [m eb pe pr pcb sq cr tr fw ch nx os]. destruct m. cbn in *. rewrite EQ. constructor.
  - inversion HQ as [|? ? [H1 _] HT]; subst.
    destruct (negb (before =? -1) && (before <? w_seq c)).
    + inversion H; subst. destruct x as [m eb pe pr pcb sq cr tr fw ch nx os]. destruct m. cbn in *. exact HT.
    + destruct (RegisterChange (w_exe c)).
      * inversion H; subst. destruct x as [m eb pe pr pcb sq cr tr fw ch nx os]. destruct m. cbn in *. exact HT.
      * rewrite H1 in H. inversion H; subst. destruct x as [m eb pe pr pcb sq cr tr fw ch nx os]. destruct m. cbn in *. exact HT.
Qed.

Lemma wu_cycle3_rk : forall x w before x' w', wu_cycle3 x w before = Ok (x', w') -> u_co w = WNone -> NMQ x -> RK x -> RK x'.
Proof.
  intros x w before x' w' H HW HQ HR. unfold wu_cycle3 in H. rewrite HW in H. cbv zeta in H. unfold bb_get in H. unfold NMQ in HQ.
  destruct (bb_q (m_wbus (x_m x))) as [|c t] eqn:EQ; cbv beta iota zeta in H.
  - inversion H; subst. exact HR.
  - inversion HQ as [|? ? [H1 H2] HT]; subst.
    destruct (negb (before =? -1) && (before <? w_seq c)); [inversion H; subst; exact HR|].
    destruct (RegisterChange (w_exe c)) eqn:ERC.
    + inversion H; subst. destruct HR as (R1 & R2 & R3 & R4). unfold RK. cbn [set_m set_rats3 x_crat x_trat].
      split; [exact R1|]. split; [apply rat_write_ok; exact R2|]. split; [exact R3|].
      intros k v HV. rewrite (Mvp70Sim63Defs.rat_read_write_gen _ tu0 (x_trat x) _ _ k R2) in HV.
      destruct (Z.eqb_spec k (Register (w_exe c))) as [->|]; [exact (H2 eq_refl)|exact (R4 k v HV)].
    + rewrite H1 in H. inversion H; subst. exact HR.
Qed.

Lemma wus_cycle3_rk : forall wus x before x' wus', wus_cycle3 x wus before = Ok (x', wus') -> Forall WU wus -> NMQ x -> RK x -> RK x'.
Proof.
  induction wus as [|w t IH]; intros x before x' wus' H HW HQ HR; cbn [wus_cycle3] in H.
  - inversion H; subst. exact HR.
  - inversion HW as [|? ? HW1 HWT]; subst. apply bind_ok in H as ([x1 w1] & E1 & H). cbn [fst snd] in H.
    apply bind_ok in H as ([x2 t2] & E2 & H). cbn [fst snd] in H. inversion H; subst.
    exact (IH x1 before _ _ E2 HWT (wu_cycle3_nmq _ _ _ _ _ E1 HW1 HQ) (wu_cycle3_rk _ _ _ _ _ E1 HW1 HQ HR)).
Qed.

Lemma wus_cycle8_eq : forall wus x before, NMQ x -> Forall WU wus -> wus_cycle8 x wus before = wus_cycle3 x wus before.
Proof.
  induction wus as [|w t IH]; intros x before HQ HW; [reflexivity|].
  inversion HW as [|? ? HW1 HWT]; subst. cbn [wus_cycle8 wus_cycle3]. rewrite (wu_cycle8_eq x w before HQ).
  destruct (wu_cycle3 x w before) as [[x1 w1]|er|] eqn:E1; [|reflexivity|reflexivity].
  cbn [bind fst snd]. rewrite (IH x1 before (wu_cycle3_nmq _ _ _ _ _ E1 HW1 HQ) HWT). reflexivity.
Qed.

Lemma NMQ_MC : forall x, NMQ x -> MC x.
Proof. intros x H. unfold NMQ, MC in *. eapply Forall_impl; [|exact H]. intros a [A _]. exact A. Qed.

(* the write units leave the L3 alone *)
Lemma wus_l3_keep : forall wus x b x1 wus1, NMQ x -> Forall WU wus -> wus_cycle3 x wus b = Ok (x1, wus1) ->
  m_l3 (x_m x1) = m_l3 (x_m x).
Proof.
  intros wus x b x1 wus1 HQ HW H. rewrite <- (wus_cycle8_eq wus x b HQ HW) in H.
  destruct (wus_cycle8_px wus x b x1 wus1 H HW) as [EC _]. unfold core_of in EC. inversion EC. reflexivity.
Qed.

(* ------------------------------------------------------------------ *)
(* 4. projection of a step; small facts                                 *)
(* ------------------------------------------------------------------ *)

(* a step of MVP-8.0 seen from MVP-6.3: entering the final loop is the return of MVP-6.3 *)
Definition proj_res8 (ord : Z -> Z -> list Z -> list Z) (r : step_res8) : step_res3 :=
  match r with
  | VDone r os => TDone r os
  | VCont s' =>
      match v_mode s' with
      | PFinal => TDone (finish3 ord (y_x (v_y s')) (v_cycle s')) (y_os (v_y s'))
      | _ => TCont (st3_of s')
      end
  end.

Lemma or_os_false8 : forall x, or_os x false = x.
Proof. intros [m eb pe pr pcb sq cr tr fw ch nx os]. unfold or_os, set_os3. cbn. rewrite orb_false_r. reflexivity. Qed.

Lemma forallb_empty_of8 : forall eus, Forall EU eus ->
  forallb eu_empty3 (map eu_of eus) = forallb eu_empty8 eus.
Proof.
  induction eus as [|e t IH]; intros H; [reflexivity|]. inversion H as [|? ? H1 HT]; subst.
  cbn [map forallb]. rewrite (IH HT). f_equal. destruct H1 as [[A|A] _]; unfold eu_empty3, eu_empty8, eu_of; cbn [g_co]; rewrite A; reflexivity.
Qed.

Lemma nm_no_pref : forall y r, NM r -> eu_preference8 y r = None.
Proof.
  intros y r H. unfold NM, nomem in H. apply andb_true_iff in H as [A B]. apply negb_true_iff in A, B.
  unfold eu_preference8. cbv zeta. rewrite A, B. reflexivity.
Qed.

Lemma flat_map_nm : forall y l, (forall r, In r l -> NM r) ->
  flat_map (fun r => match eu_preference8 y r with Some v => [(q_id r, v)] | None => [] end) l = [].
Proof.
  intros y. induction l as [|a t IH]; intros H; [reflexivity|]. cbn [flat_map].
  rewrite (nm_no_pref y a (H a (or_introl eq_refl))). cbn [List.app]. apply IH. intros r Hr. apply H. right. exact Hr.
Qed.

(* the control unit computes no preference when the runners pushed in the cycle are neither loads nor stores *)
Lemma front8_pref : forall app ord cycle y, k_stale (y_msi y) = false ->
  match front8 app ord cycle y with
  | Ok y1 => (forall r, In r (x_prev (y_x y1)) -> NM r) -> y_pref y1 = y_pref y
  | _ => True
  end.
Proof.
  intros app ord cycle y HS. unfold front8. cbv zeta.
  destruct (fu_cycle6 _ _ _ _ _) as [[[fu1 l1i1] dbus1]|er|]; [|exact I|exact I].
  cbn [bind]. destruct (du_cycle3 _ _ _) as [x1|er|]; [|exact I|exact I].
  cbn [bind]. unfold cu_cycle8. cbn [set_x y_msi y_x y_pref]. rewrite HS. cbn [y_x y_pref].
  intros H. rewrite (flat_map_nm _ _ H). apply app_nil_r.
Qed.

Lemma snoops_pref : forall y, y_pref (or_os8 (set_ccs (put_mw y (mw_of y)) (y_ccs y)) false) = y_pref y.
Proof. intros y. reflexivity. Qed.

Lemma snoops_os : forall y, y_os (or_os8 (set_ccs (put_mw y (mw_of y)) (y_ccs y)) false) = y_os y.
Proof. intros y. unfold y_os. rewrite snoops_x. reflexivity. Qed.

(* what back8 returns when no unit asked for a flush *)
Lemma back8_props : forall s cyc y eus1 o s', y_flush o = false -> NMQ (y_x y) -> RK (y_x y) -> Forall WU (v_wus s) ->
  back8 s cyc (y, eus1, o) = VCont s' ->
  y_pref (v_y s') = y_pref y /\ v_eus s' = eus1 /\ (v_mode s' = PFinal -> forallb eu_empty8 eus1 = true) /\ RK (y_x (v_y s')).
Proof.
  intros s cyc y eus1 o s' HF HQ HR HW. unfold back8. destruct (y_err o); [discriminate|].
  rewrite (wus_cycle8_eq (v_wus s) (y_x y) _ HQ HW).
  destruct (wus_cycle3 _ _ _) as [[x1 wus1]|er|] eqn:EW; cbn [res_of8]; try discriminate. cbv zeta. cbn [fst snd].
  pose proof (wus_cycle3_rk _ _ _ _ _ EW HW HQ HR) as HR1.
  destruct (y_ret o).
  - unfold ret_check8. cbn [v_eus v_wus v_y v_cycle].
    destruct (forallb eu_empty8 eus1) eqn:EB; cbn [andb].
    + destruct (_ && _); intros H; inversion H; subst; cbn [v_y v_eus v_mode]; (split; [reflexivity|split; [reflexivity|split; [|exact HR1]]]);
        intros X; first [reflexivity|discriminate X].
    + intros H; inversion H; subst; cbn [v_y v_eus v_mode]. split; [reflexivity|split; [reflexivity|split; [|exact HR1]]]. intros X; discriminate X.
  - rewrite HF. destruct (is_empty8 _ _ _) eqn:EE; intros H; inversion H; subst; cbn [v_y v_eus v_mode];
      (split; [reflexivity|split; [reflexivity|split; [|exact HR1]]]).
    + intros _. unfold is_empty8 in EE. apply andb_true_iff in EE as [_ EE]. exact EE.
    + intros X; discriminate X.
Qed.

Lemma back8_nd : forall s cyc z r os, back8 s cyc z = VDone r os -> plus_one_cycle r = r.
Proof.
  intros s cyc [[y eus1] o] r os. unfold back8. destruct (y_err o); [intros H; inversion H; reflexivity|].
  destruct (wus_cycle8 _ _ _) as [[x1 wus1]|er|]; cbn [res_of8]; try (intros H; inversion H; reflexivity). cbv zeta.
  destruct (y_ret o).
  - unfold ret_check8. destruct (_ && _); discriminate.
  - destruct (y_flush o); [discriminate|]. destruct (is_empty8 _ _ _); discriminate.
Qed.

Lemma back_sim8 : forall ord s cycle y eus1 o,
  NMQ (y_x y) -> Forall EU eus1 -> Forall WU (v_wus s) -> y_flush o = false ->
  back3 ord (st3_of s) cycle (y_x y, map eu_of eus1, o) = proj_res8 ord (back8 s cycle (y, eus1, o)).
Proof.
  intros ord s cycle y eus1 o HQ HE HW HF. unfold back3, back8.
  destruct (y_err o); [reflexivity|].
  cbn [st3_of t_wus]. rewrite (wus_cycle8_eq (v_wus s) (y_x y) _ HQ HW). unfold y_os.
  destruct (wus_cycle3 (y_x y) (v_wus s) (if y_flush o then y_seq o else -1)) as [[x1 wus1]|er|];
    [|reflexivity|reflexivity].
  cbn [res_of3 res_of8 fst snd]. cbv zeta.
  destruct (y_ret o).
  - unfold ret_check3, ret_check8. cbn [t_eus t_wus t_x t_cycle v_eus v_wus v_y v_cycle wbus_connect8 set_x y_x].
    rewrite (forallb_empty_of8 eus1 HE).
    destruct (forallb eu_empty8 eus1 && forallb wu_empty wus1 && bb_isempty (m_wbus (x_m (wbus_connect3 x1 (cycle + 1))))); reflexivity.
  - rewrite HF. unfold is_empty3, is_empty8. cbn [set_x y_x]. rewrite (forallb_empty_of8 eus1 HE).
    match goal with |- (if ?c then _ else _) = _ => destruct c end; reflexivity.
Qed.

(* ------------------------------------------------------------------ *)
(* 5. one tick under the run invariant                                  *)
(* ------------------------------------------------------------------ *)

Section Tick.
  Variables (app : list instr) (labels : Z -> option Z) (regs0 mem0 : list Z) (ord : Z -> Z -> list Z -> list Z).
  Variables (c3 : cache) (ccs0 : list cc8).
  Hypothesis Happ : wf_app app.
  Hypothesis Hstr : straight app = true.
  Hypothesis Hreg : reg_only app = true.
  Hypothesis Hssa : ssa app = true.
  Hypothesis Hrng : regs_ok app = true.
  Hypothesis Hlen0 : length regs0 = 32%nat.
  Hypothesis Hr32 : Forall int32 regs0.
  Hypothesis Hx0 : nth 0 regs0 0 = 0.
  Hypothesis Hsem : forall k, (0 <= k <= stop_from app 0)%nat -> (k < length app)%nat ->
    exec (sinstr_of (ik app k)) (rget (sreg app labels regs0 0 k)) labels (pcz k) [] = Ok (eff app labels regs0 0 k) /\
    (forall a, etarget (eff app labels regs0 0 k) = Some a -> exists t, a = pcz t /\ (k < t <= length app)%nat).
  Hypothesis Hccs : Forall cc_idle ccs0.
  Hypothesis Hl3 : lines c3 = [].

  Notation "'IE' L" := (L app labels regs0 mem0 ord Happ Hstr Hreg Hssa Hrng Hlen0 Hr32 Hx0 Hsem) (at level 10, L at level 9, only parsing).
  Notation BI := (BI app labels regs0 mem0).
  Notation G3 := (G3 app labels regs0 mem0).
  Notation GR3 := (GR3 app labels regs0 mem0).
  Notation SInv3 := (SInv3 app labels regs0 mem0).
  Notation INV := (INV mem0 c3 msi_new ccs0).
  Notation SI := (SI mem0 c3 msi_new ccs0).

  Lemma Hro : regonly app = true.
  Proof. rewrite regonly_reg_only. exact Hreg. Qed.

  Lemma BI_NMQ : forall dp d xe w pl pv x, BI dp d xe w pl pv x -> NMQ x.
  Proof.
    intros dp d xe w pl pv x HB. unfold NMQ. apply Forall_forall. intros c Hc.
    assert (Hin : In c (flat (m_wbus (x_m x)))) by (unfold flat; apply in_or_app; left; exact Hc).
    rewrite (bi_wbus _ _ _ _ _ _ _ _ _ _ _ HB) in Hin. apply in_map_iff in Hin as (k & Ek & Hk). apply in_seq in Hk. subst c.
    pose proof (bi_xeN _ _ _ _ _ _ _ _ _ _ _ HB) as HxN. pose proof (bi_ord _ _ _ _ _ _ _ _ _ _ _ HB) as Ho.
    pose proof (stop_from_le app 0 ltac:(lia)) as HN.
    destruct (exe_flags app labels regs0 Hstr Hreg Hlen0 Hsem k ltac:(clear - Hk HxN Ho; lia) ltac:(clear - Hk HxN Ho HN; lia)) as (_ & B & _).
    split; [exact B|]. intros Erc. change (RegisterChange (exe app labels regs0 k) = true) in Erc.
    change (0 <= Register (exe app labels regs0 k)).
    destruct (exe_reg app labels regs0 k Erc) as [[E0 _]|(Hnz & v & He & Ev)]; [rewrite E0; apply Z.le_refl|].
    assert (Hw : wrs app k = [Register (exe app labels regs0 k)]) by (apply (eff_wrs app labels regs0); destruct He as [->|(a & ->)]; reflexivity).
    pose proof (wrs_rng app Hrng k (Register (exe app labels regs0 k)) ltac:(rewrite Hw; left; reflexivity)) as X. clear - X. lia.
  Qed.

  Lemma BI_RK : forall dp d xe w pl pv x, BI dp d xe w pl pv x -> RK x.
  Proof.
    intros dp d xe w pl pv x HB. split; [exact (bi_cok _ _ _ _ _ _ _ _ _ _ _ HB)|]. split; [exact (bi_tok _ _ _ _ _ _ _ _ _ _ _ HB)|]. split.
    - intros k v HV. rewrite (bi_crat _ _ _ _ _ _ _ _ _ _ _ HB) in HV. destruct (0 <=? k) eqn:E; cbn [andb] in HV; [apply Z.leb_le; exact E|discriminate HV].
    - intros k v HV. rewrite (bi_trat _ _ _ _ _ _ _ _ _ _ _ HB) in HV.
      assert (H : tv app labels regs0 w k <> None) by (rewrite HV; discriminate).
      exact (proj1 (tv_rng app labels regs0 Hrng Hlen0 w k H)).
  Qed.

  Lemma BI_WB8 : forall dp d xe w pl pv x y, BI dp d xe w pl pv x -> y_x y = x -> y_pref y = [] -> WB (pcz xe) y.
  Proof.
    intros dp d xe w pl pv x y HB Ex Ep. subst x. split; [exact Ep|]. split; [|split; [|split]].
    - intros reg v HV. rewrite (bi_trat _ _ _ _ _ _ _ _ _ _ _ HB) in HV.
      assert (HJ : exists j, (j < w)%nat /\ fst v = pcz j).
      { clear - HV. induction w as [|k IH]; cbn [tv] in HV; [discriminate|].
        destruct (_ && _); [inversion HV; subst; exists k; split; [lia|reflexivity]|].
        destruct (IH HV) as (j & A & B). exists j. split; [lia|exact B]. }
      destruct HJ as (j & A & B). rewrite B. pose proof (bi_ord _ _ _ _ _ _ _ _ _ _ _ HB) as Ho. unfold pcz. clear - A Ho. lia.
    - apply Forall_forall. intros r Hr.
      assert (Hin : In r (flat (x_ebus (y_x y)))) by (unfold flat; apply in_or_app; left; exact Hr).
      pose proof (bi_ebus _ _ _ _ _ _ _ _ _ _ _ HB) as HE. apply (in_map q_r) in Hin. rewrite HE in Hin.
      apply in_map_iff in Hin as (k & Ek & Hk). apply in_seq in Hk.
      split.
      + unfold q_seq. rewrite <- Ek. cbn [Mvp60RefFront.rn r_seq]. unfold pcz. clear - Hk. lia.
      + unfold q_instr. rewrite <- Ek. cbn [Mvp60RefFront.rn r_instr]. apply (ik_nobr app Hstr).
    - exact (BI_NMQ _ _ _ _ _ _ _ HB).
    - exact (BI_RK _ _ _ _ _ _ _ HB).
  Qed.

  Lemma idle_of8 : forall eus, Forall EU eus -> Forall EuIdle (map eu_of eus) -> Forall (fun e => h_co e = HNone) eus.
  Proof.
    intros eus HE Ge. apply Forall_forall. intros e He. rewrite Forall_forall in Ge.
    destruct (Ge (eu_of e) (in_map eu_of _ _ He)) as [Hco _].
    rewrite Forall_forall in HE. destruct (HE e He) as ([A|A] & _); [exact A|].
    unfold eu_of in Hco. cbn [g_co] in Hco. rewrite A in Hco. discriminate Hco.
  Qed.

  (* what a tick has to deliver besides the simulation equation *)
  Definition NextOK (s : st8) : Prop :=
    forall s', step8 app labels ord s = VCont s' ->
      y_pref (v_y s') = [] /\ length (v_eus s') = length ccs0 /\ (v_mode s' = PFinal -> forallb eu_empty8 (v_eus s') = true) /\
      RK (y_x (v_y s')).
  Definition DoneOK (s : st8) : Prop := forall r os, step8 app labels ord s = VDone r os -> plus_one_cycle r = r.
  (* the step of MVP-6.3 from the projected state does not depend on the (empty) L3 *)
  Definition L3OK (s : st8) : Prop := forall c, lines c = [] ->
    step3 app labels ord (sl3s c (st3_of s)) = lift_step c (step3 app labels ord (st3_of s)).

  (* the main loop *)
  Lemma tick_normal8 : forall dp d c f xe wb y eus wus cyc,
    SI (mk_st8 y eus wus cyc PNormal) -> length eus = length ccs0 -> y_pref y = [] ->
    G3 dp d c f xe wb (st3_of (mk_st8 y eus wus cyc PNormal)) ->
    step3 app labels ord (st3_of (mk_st8 y eus wus cyc PNormal)) = proj_res8 ord (step8 app labels ord (mk_st8 y eus wus cyc PNormal)) /\
    NextOK (mk_st8 y eus wus cyc PNormal) /\ DoneOK (mk_st8 y eus wus cyc PNormal) /\ L3OK (mk_st8 y eus wus cyc PNormal).
  Proof.
    intros dp d c f xe wb y eus wus cyc (HI & HE & HW) HL HP HG. cbn [v_y v_eus v_wus] in HI, HE, HW.
    destruct (IE Mvp71Sim70.front_BI _ _ _ _ _ _ _ HG) as (fu1 & l1i1 & dbus1 & x3 & lp & Efu & Efd & HB4). cbv zeta in Efu, Efd, HB4.
    cbn [st3_of t_x t_cycle v_y v_cycle] in Efu, Efd, HB4.
    set (x4 := cu_cycle3 ord (cyc + 1) x3) in *.
    assert (Efront : front3 app ord (cyc + 1) (y_x y) = Ok x4) by (rewrite front3_eq, Efu, Efd; reflexivity).
    assert (HST : k_stale (y_msi y) = false) by (rewrite (proj1 HI); reflexivity).
    pose proof (front_sim app ord (cyc + 1) y HST) as FS. rewrite Efront in FS.
    pose proof (front8_pref app ord (cyc + 1) y HST) as FP.
    destruct (front8 app ord (cyc + 1) y) as [y1| |] eqn:EF8; cbn [lift_y] in FS; try discriminate FS.
    injection FS as FS.
    assert (HI1 : INV y1) by (eapply (front8_inv mem0 c3 msi_new ccs0 app Hro eq_refl); [exact EF8|exact HI]).
    assert (HNMprev : forall r, In r (x_prev (y_x y1)) -> NM r).
    { rewrite <- FS. intros p Hp. destruct (bi_prev _ _ _ _ _ _ _ _ _ _ _ HB4 p Hp) as (Hin & _).
      destruct HI1 as (_ & _ & (_ & _ & _ & [P4a P4b] & _)). rewrite <- FS in P4a, P4b.
      unfold flat in Hin. apply in_app_or in Hin as [Hin|Hin].
      + rewrite Forall_forall in P4b. apply P4b. exact Hin.
      + apply in_map_iff in Hin as (z & Ez & Hz). subst p. rewrite Forall_forall in P4a. exact (P4a z Hz). }
    assert (HP1 : y_pref y1 = []) by (rewrite (FP HNMprev); exact HP).
    set (y2 := or_os8 (set_ccs (put_mw y1 (mw_of y1)) (y_ccs y1)) false).
    assert (ES : snoops8 ord (cyc + 1) y1 = Ok y2) by (apply (snoops8_idle mem0 c3 msi_new ccs0 eq_refl Hccs); exact HI1).
    assert (HI2 : INV y2) by (eapply (snoops8_inv mem0 c3 msi_new ccs0 eq_refl Hccs); [exact ES|exact HI1]).
    assert (EX2 : y_x y2 = x4) by (unfold y2; rewrite snoops_x; symmetry; exact FS).
    assert (HW2 : WB (pcz xe) y2) by (eapply BI_WB8; [exact HB4|exact EX2|unfold y2; rewrite snoops_pref; exact HP1]).
    assert (HC : Forall (fun e => h_co e = HNone) eus) by (apply idle_of8; [exact HE|exact (g3_eus _ _ _ _ _ _ _ _ _ _ _ HG)]).
    assert (HLi : (0 + length eus <= length ccs0)%nat) by (rewrite HL; apply le_n).
    pose proof (eus_main_sim mem0 c3 msi_new ccs0 Hccs labels ord (cyc + 1) eus y2 0%nat yo_none HI2 HE HLi
                  (main_cond_WB mem0 c3 msi_new ccs0 Hccs labels ord (cyc + 1) (pcz xe) eus y2 0%nat yo_none HI2 HW2 HE HC eq_refl)) as EM.
    rewrite EX2 in EM.
    assert (E8 : step8 app labels ord (mk_st8 y eus wus cyc PNormal) =
                 res_of8 (y_os y2) (eus_main8 labels ord (cyc + 1) y2 0 eus yo_none) (back8 (mk_st8 y eus wus cyc PNormal) (cyc + 1))).
    { unfold step8. cbn [v_y v_eus v_wus v_cycle v_mode]. cbv zeta. rewrite EF8. cbn [res_of8]. rewrite ES. cbn [res_of8]. reflexivity. }
    assert (E3 : step3 app labels ord (st3_of (mk_st8 y eus wus cyc PNormal)) =
                 (let '(os1, re) := eus_main3 labels ord (cyc + 1) x4 (map eu_of eus) yo_none in
                  res_of3 (x_os x4 || os1) re (fun z => let '(x1, eus1, o) := z in
                    back3 ord (st3_of (mk_st8 y eus wus cyc PNormal)) (cyc + 1) (or_os x1 os1, eus1, o)))).
    { unfold step3. cbn [st3_of t_x t_eus t_cycle t_mode v_y v_eus v_cycle v_mode mode_of]. cbv zeta. rewrite Efront. cbn [res_of3]. reflexivity. }
    assert (EOS : y_os y2 = x_os x4) by (unfold y_os; rewrite EX2; reflexivity).
    assert (HL3 : L3OK (mk_st8 y eus wus cyc PNormal)).
    { intros cc Hc. rewrite E3.
      assert (HEN : Forall (fun e => g_co e = ENone) (map eu_of eus)).
      { eapply Forall_impl; [|exact (g3_eus _ _ _ _ _ _ _ _ _ _ _ HG)]. intros a [A _]. exact A. }
      assert (HNMB : Forall NMB (bb_q (x_ebus x4))).
      { rewrite <- EX2. destruct HW2 as (_ & _ & W3 & _). destruct HI2 as (_ & _ & (_ & _ & _ & [_ P4] & _)).
        apply Forall_forall. intros r Hr. rewrite Forall_forall in W3, P4. split; [exact (P4 r Hr)|exact (proj2 (W3 r Hr))]. }
      unfold step3. cbn [sl3s st3_of t_x t_eus t_wus t_cycle t_mode v_y v_eus v_wus v_cycle v_mode mode_of]. cbv zeta.
      rewrite front3_l3, Efront. cbn [lo_x res_of3].
      rewrite (eus_main3_l3 cc labels ord (cyc + 1) (map eu_of eus) x4 yo_none HEN HNMB). rewrite EM. cbn [fst snd].
      destruct (eus_main8 labels ord (cyc + 1) y2 0 eus yo_none) as [[[y3 eus1] o]|er|] eqn:EM8; cbn [lift_eus lo_eus res_of3 lift_step];
        [|reflexivity|reflexivity].
      destruct (eus_main8_WB mem0 c3 msi_new ccs0 Hccs _ _ _ _ _ _ _ _ _ _ _ EM8 HI2 HW2 HE HC eq_refl eq_refl) as ((_ & _ & _ & W4 & _) & _ & _).
      destruct (eus_main8_inv mem0 c3 msi_new ccs0 Hccs _ _ _ _ _ _ _ _ _ _ EM8 HI2 HE) as [HI3 _].
      rewrite !or_os_false8.
      refine (back3_l3 cc ord (st3_of (mk_st8 y eus wus cyc PNormal)) (cyc + 1) (y_x y3) (map eu_of eus1) o Hc (NMQ_MC _ W4) HW _).
      intros b x1 wus1 EW. cbn [st3_of t_wus v_wus] in EW. rewrite (wus_l3_keep _ _ _ _ _ W4 HW EW).
      destruct HI3 as (_ & _ & (_ & P2 & _)). rewrite P2. exact Hl3. }
    unfold NextOK, DoneOK. rewrite E3, E8, EM. clear E3 E8 EM.
    destruct (eus_main8 labels ord (cyc + 1) y2 0 eus yo_none) as [[[y3 eus1] o]|er|] eqn:EM8; cbn [lift_eus res_of3 res_of8 proj_res8].
    - destruct (eus_main8_WB mem0 c3 msi_new ccs0 Hccs _ _ _ _ _ _ _ _ _ _ _ EM8 HI2 HW2 HE HC eq_refl eq_refl) as ((W1 & W2 & W3 & W4 & W5) & HL1 & HF).
      destruct (eus_main8_inv mem0 c3 msi_new ccs0 Hccs _ _ _ _ _ _ _ _ _ _ EM8 HI2 HE) as [HI3 HE3].
      split; [|split; [|split; [|exact HL3]]].
      + rewrite or_os_false8. exact (back_sim8 ord (mk_st8 y eus wus cyc PNormal) (cyc + 1) y3 eus1 o W4 HE3 HW HF).
      + intros s' H. destruct (back8_props (mk_st8 y eus wus cyc PNormal) _ _ _ _ _ HF W4 W5 HW H) as (A & B & C & D0). rewrite A, B.
        split; [exact W1|]. split; [rewrite HL1; exact HL|split; [exact C|exact D0]].
      + intros r os H. exact (back8_nd _ _ _ _ _ H).
    - rewrite orb_false_r, EOS. split; [reflexivity|]. split; [intros s' H; discriminate H|split; [intros r os H; inversion H; reflexivity|exact HL3]].
    - rewrite orb_false_r, EOS. split; [reflexivity|]. split; [intros s' H; discriminate H|split; [intros r os H; inversion H; reflexivity|exact HL3]].
  Qed.

  (* condition of the drain loop after ret *)
  Lemma ret_check_sim8 : forall y eus wus cyc, Forall EU eus ->
    ret_check3 ord (mk_st3 (y_x y) (map eu_of eus) wus cyc NRet) = proj_res8 ord (ret_check8 (mk_st8 y eus wus cyc PRet)).
  Proof.
    intros y eus wus cyc HE. unfold ret_check3, ret_check8. cbn [t_eus t_wus t_x t_cycle v_eus v_wus v_y v_cycle].
    rewrite (forallb_empty_of8 eus HE).
    destruct (forallb eu_empty8 eus && forallb wu_empty wus && bb_isempty (m_wbus (x_m (y_x y)))); reflexivity.
  Qed.

  Lemma ret_check8_props : forall y eus wus cyc s', ret_check8 (mk_st8 y eus wus cyc PRet) = VCont s' ->
    v_y s' = y /\ v_eus s' = eus /\ (v_mode s' = PFinal -> forallb eu_empty8 eus = true).
  Proof.
    intros y eus wus cyc s'. unfold ret_check8. cbn [v_eus v_wus v_y v_cycle].
    destruct (forallb eu_empty8 eus) eqn:EB; cbn [andb].
    - destruct (_ && _); intros H; inversion H; subst; cbn [v_y v_eus v_mode]; (split; [reflexivity|split; [reflexivity|]]); intros X; first [reflexivity|discriminate X].
    - intros H; inversion H; subst; cbn [v_y v_eus v_mode]. split; [reflexivity|split; [reflexivity|]]. intros X; discriminate X.
  Qed.

  (* the drain loop after ret *)
  Lemma tick_ret8 : forall wb y eus wus cyc,
    SI (mk_st8 y eus wus cyc PRet) -> length eus = length ccs0 -> y_pref y = [] ->
    GR3 wb (st3_of (mk_st8 y eus wus cyc PRet)) ->
    step3 app labels ord (st3_of (mk_st8 y eus wus cyc PRet)) = proj_res8 ord (step8 app labels ord (mk_st8 y eus wus cyc PRet)) /\
    NextOK (mk_st8 y eus wus cyc PRet) /\ DoneOK (mk_st8 y eus wus cyc PRet) /\ L3OK (mk_st8 y eus wus cyc PRet).
  Proof.
    intros wb y eus wus cyc (HI & HE & HW) HL HP HG. cbn [v_y v_eus v_wus] in HI, HE, HW.
    pose proof (r3_eus _ _ _ _ _ _ HG) as GE. cbn [st3_of t_eus v_eus] in GE.
    assert (HC : Forall (fun e => h_co e = HNone) eus) by (apply idle_of8; [exact HE|exact GE]).
    set (y2 := or_os8 (set_ccs (put_mw y (mw_of y)) (y_ccs y)) false).
    assert (ES : snoops8 ord cyc y = Ok y2) by (apply (snoops8_idle mem0 c3 msi_new ccs0 eq_refl Hccs); exact HI).
    assert (EX2 : y_x y2 = y_x y) by apply snoops_x.
    destruct (r3_bi _ _ _ _ _ _ HG) as (dp & HB). cbn [st3_of t_x v_y] in HB.
    assert (HQ : NMQ (y_x y2)) by (rewrite EX2; exact (BI_NMQ _ _ _ _ _ _ _ HB)).
    assert (HQ0 : NMQ (y_x y)) by exact (BI_NMQ _ _ _ _ _ _ _ HB).
    assert (HRK : RK (y_x y)) by exact (BI_RK _ _ _ _ _ _ _ HB).
    assert (E8 : step8 app labels ord (mk_st8 y eus wus cyc PRet) =
                 res_of8 (y_os y2) (wus_cycle8 (y_x y2) wus (-1)) (fun r =>
                   ret_check8 (mk_st8 (wbus_connect8 (set_x y2 (fst r)) (cyc + 1)) eus (snd r) (cyc + 1) PRet))).
    { unfold step8. cbn [v_y v_eus v_wus v_cycle v_mode]. cbv zeta. rewrite ES. cbn [res_of8].
      rewrite (eus_drain8_idle labels ord cyc eus 0%nat y2 HC). cbn [res_of8]. reflexivity. }
    assert (E3 : step3 app labels ord (st3_of (mk_st8 y eus wus cyc PRet)) =
                 res_of3 (x_os (y_x y)) (wus_cycle3 (y_x y) wus (-1)) (fun r => let '(x2, wus1) := r in
                   ret_check3 ord (mk_st3 (wbus_connect3 x2 (cyc + 1)) (map eu_of eus) wus1 (cyc + 1) NRet))).
    { unfold step3. cbn [st3_of t_x t_eus t_wus t_cycle t_mode v_y v_eus v_wus v_cycle v_mode mode_of]. cbv zeta.
      rewrite (IE eus_drain_idle cyc (y_x y) _ GE). cbn [orb res_of3]. rewrite !or_os_false8. reflexivity. }
    assert (EOS : y_os y2 = x_os (y_x y)) by (unfold y_os; rewrite EX2; reflexivity).
    assert (HL3 : L3OK (mk_st8 y eus wus cyc PRet)).
    { intros c Hc. rewrite E3.
      unfold step3. cbn [sl3s st3_of t_x t_eus t_wus t_cycle t_mode v_y v_eus v_wus v_cycle v_mode mode_of]. cbv zeta.
      rewrite (IE eus_drain_idle cyc (sl3 c (y_x y)) _ GE). cbn [orb res_of3]. rewrite !or_os_false8.
      rewrite (wus_cycle3_l3 c wus (y_x y) (-1) HW (NMQ_MC _ HQ0)).
      destruct (wus_cycle3 (y_x y) wus (-1)) as [[x2 wus1]|er|] eqn:EW; cbn [lo_w res_of3 lift_step]; [|reflexivity|reflexivity].
      rewrite wbus_connect3_sl3. apply ret_check3_l3; [exact Hc|].
      change (lines (m_l3 (x_m x2)) = []). rewrite (wus_l3_keep _ _ _ _ _ HQ0 HW EW).
      destruct HI as (_ & _ & (_ & P2 & _)). rewrite P2. exact Hl3. }
    unfold NextOK, DoneOK. rewrite E3, E8, (wus_cycle8_eq wus (y_x y2) (-1) HQ HW), EX2, EOS. clear E3 E8.
    destruct (wus_cycle3 (y_x y) wus (-1)) as [[x2 wus1]|er|] eqn:EW; cbn [res_of3 res_of8 proj_res8 fst snd].
    - pose proof (wus_cycle3_rk _ _ _ _ _ EW HW HQ0 HRK) as HR2.
      split; [|split; [|split; [|exact HL3]]].
      + exact (ret_check_sim8 (wbus_connect8 (set_x y2 x2) (cyc + 1)) eus wus1 (cyc + 1) HE).
      + intros s' H. destruct (ret_check8_props _ _ _ _ _ H) as (A & B & C). rewrite A, B.
        split; [exact HP|]. split; [exact HL|split; [exact C|exact HR2]].
      + intros r os H. unfold ret_check8 in H. destruct (_ && _) in H; discriminate H.
    - split; [reflexivity|]. split; [intros s' H; discriminate H|split; [intros r os H; inversion H; reflexivity|exact HL3]].
    - split; [reflexivity|]. split; [intros s' H; discriminate H|split; [intros r os H; inversion H; reflexivity|exact HL3]].
  Qed.

  (* the final loop of MVP-8.0 runs once, finds nothing to do, and Run returns what MVP-6.3 returned one cycle earlier *)
  Lemma final8 : forall s, SI s -> length (v_eus s) = length ccs0 -> v_mode s = PFinal -> forallb eu_empty8 (v_eus s) = true ->
    RK (y_x (v_y s)) ->
    step8 app labels ord s = VDone (plus_one_cycle (finish3 ord (y_x (v_y s)) (v_cycle s))) (y_os (v_y s)).
  Proof.
    intros s (HI & HE & HW) HL HM HF HRK. unfold step8. rewrite HM. cbv zeta.
    assert (HQ : forallb cc_snoop_isstart (y_ccs (v_y s)) = true).
    { rewrite (proj1 (proj2 HI)). apply forallb_forall. intros c Hc. rewrite Forall_forall in Hccs.
      destruct (Hccs c Hc) as (_ & _ & C & _). unfold cc_snoop_isstart. rewrite C. reflexivity. }
    rewrite HQ. rewrite (snoops8_idle mem0 c3 msi_new ccs0 eq_refl Hccs ord (v_cycle s + 1) (v_y s) HI). cbn [res_of8].
    set (y2 := or_os8 (set_ccs (put_mw (v_y s) (mw_of (v_y s))) (y_ccs (v_y s))) false).
    assert (HI2 : INV y2).
    { eapply (snoops8_inv mem0 c3 msi_new ccs0 eq_refl Hccs); [|exact HI].
      apply (snoops8_idle mem0 c3 msi_new ccs0 eq_refl Hccs ord (v_cycle s + 1)). exact HI. }
    assert (HC : Forall (fun e => h_co e = HNone) (v_eus s)).
    { apply Forall_forall. intros e He. rewrite forallb_forall in HF. specialize (HF e He). unfold eu_empty8 in HF.
      destruct (h_co e); try discriminate HF. reflexivity. }
    assert (HLi : (0 + length (v_eus s) <= length ccs0)%nat) by (rewrite HL; apply le_n).
    rewrite (eus_final8_idle mem0 c3 msi_new ccs0 Hccs labels ord (v_cycle s + 1) (v_eus s) 0%nat y2 HI2 HLi HC). cbn [res_of8 andb negb].
    rewrite (finish_sim mem0 c3 msi_new ccs0 ord y2 (v_cycle s) Hccs Hl3 HI2
               ltac:(unfold y2; rewrite snoops_x; apply RK_fin; exact HRK)).
    unfold y2. rewrite snoops_x, snoops_os. reflexivity.
  Qed.

  (* the run invariant *)
  Definition CI8 (s : st8) : Prop :=
    SI s /\ length (v_eus s) = length ccs0 /\ y_pref (v_y s) = [] /\
    match v_mode s with PFinal => forallb eu_empty8 (v_eus s) = true /\ RK (y_x (v_y s)) | _ => SInv3 (st3_of s) end.

  Theorem tick8 : forall s, CI8 s -> v_mode s <> PFinal ->
    step3 app labels ord (st3_of s) = proj_res8 ord (step8 app labels ord s) /\
    (forall s', step8 app labels ord s = VCont s' -> CI8 s') /\ DoneOK s /\ L3OK s.
  Proof.
    intros s (HS & HL & HP & HM) HNF.
    assert (HSI : SInv3 (st3_of s)) by (destruct (v_mode s); try exact HM; exfalso; apply HNF; reflexivity).
    assert (K : step3 app labels ord (st3_of s) = proj_res8 ord (step8 app labels ord s) /\ NextOK s /\ DoneOK s /\ L3OK s).
    { destruct s as [y eus wus cyc md]. cbn [v_mode v_eus v_y] in HL, HP, HNF.
      destruct HSI as [dp d c f xe wb HG|wb HG].
      - pose proof (g3_mode _ _ _ _ _ _ _ _ _ _ _ HG) as X. cbn [st3_of t_mode v_mode] in X.
        destruct md; cbn [mode_of] in X; try discriminate X; [|exfalso; apply HNF; reflexivity].
        exact (tick_normal8 dp d c f xe wb y eus wus cyc HS HL HP HG).
      - pose proof (r3_mode _ _ _ _ _ _ HG) as X. cbn [st3_of t_mode v_mode] in X.
        destruct md; cbn [mode_of] in X; try discriminate X.
        exact (tick_ret8 wb y eus wus cyc HS HL HP HG). }
    destruct K as (E & HN & HD & HL3). split; [exact E|split; [|split; [exact HD|exact HL3]]].
    intros s' H. destruct (HN s' H) as (A & B & C & D0).
    pose proof (step8_ok mem0 c3 msi_new ccs0 app Hro eq_refl eq_refl Hccs Hl3 labels ord s HS) as HR. rewrite H in HR. cbn [res_ok] in HR.
    split; [exact HR|]. split; [exact B|]. split; [exact A|].
    rewrite H in E. cbn [proj_res8] in E.
    destruct (v_mode s') eqn:EM'; try (exact (IE Mvp71Sim70.SInv3_step _ _ HSI E)). exact (conj (C eq_refl) D0).
  Qed.

  (* whole runs from a state of the invariant: one tick and one cycle more *)
  Theorem run8_sim : forall fuel s r os, CI8 s -> v_mode s <> PFinal ->
    run3_st fuel app labels ord (st3_of s) = inl (r, os) -> run8_st (S fuel) app labels ord s = inl (plus_one_cycle r, os).
  Proof.
    induction fuel as [|f IH]; intros s r os HC HNF H; [discriminate H|].
    cbn [run3_st] in H. destruct (tick8 s HC HNF) as (E & HN & HD & _). rewrite E in H.
    change (run8_st (S (S f)) app labels ord s) with
      (match step8 app labels ord s with VDone r os => inl (r, os) | VCont s' => run8_st (S f) app labels ord s' end).
    destruct (step8 app labels ord s) as [r1 os1|s1] eqn:ES; cbn [proj_res8] in H.
    - inversion H; subst. rewrite (HD _ _ ES). reflexivity.
    - pose proof (HN s1 eq_refl) as HC1.
      destruct (v_mode s1) eqn:EM1.
      5: { inversion H; subst. cbn [run8_st]. destruct HC1 as (S1 & L1 & P1 & M1). rewrite EM1 in M1.
           rewrite (final8 s1 S1 L1 EM1 (proj1 M1) (proj2 M1)). reflexivity. }
      all: apply IH; [exact HC1|rewrite EM1; discriminate|exact H].
  Qed.

  (* whole runs of the pipeline of MVP-6.3 from the projected state do not depend on the (empty) L3 *)
  Theorem run3_l3 : forall c, lines c = [] -> forall fuel s, CI8 s -> v_mode s <> PFinal ->
    run3_st fuel app labels ord (sl3s c (st3_of s)) =
    match run3_st fuel app labels ord (st3_of s) with inl r => inl r | inr s' => inr (sl3s c s') end.
  Proof.
    intros c Hc. induction fuel as [|f IH]; intros s HC HNF; [reflexivity|].
    cbn [run3_st]. destruct (tick8 s HC HNF) as (E & HN & _ & HL). rewrite (HL c Hc), E.
    destruct (step8 app labels ord s) as [r1 os1|s1] eqn:ES; cbn [proj_res8 lift_step]; [reflexivity|].
    pose proof (HN s1 eq_refl) as HC1.
    destruct (v_mode s1) eqn:EM1; cbn [lift_step]; try reflexivity; apply IH; try exact HC1; rewrite EM1; discriminate.
  Qed.
End Tick.

(* ------------------------------------------------------------------ *)
(* 6. the initial state                                                 *)
(* ------------------------------------------------------------------ *)

(* the pipeline of MVP-6.3 started with another L3 cache (init3 of Mvp63.v with the second new_cache as a parameter) *)
Definition init3g (oc3 : outcome cache) (par : nat) (ord : Z -> Z -> list Z -> list Z) (app : list instr) (st : arch) : outcome st3 :=
  match new_cache l1LineSize l1Size, oc3 with
  | Ok ci, Ok c3 =>
      let busSize := 2 in
      let m := mk_mach (regs st) (mem st) zero_sb zero_sb ci c3 []
                       (mk_fu6 0 false false FNone 0) false false [] (mk_bu6 false 0 [])
                       (bb_new busSize busSize) (bb_new busSize busSize) (bb_new busSize busSize) (bb_new busSize busSize) in
      let x := mk_mx m (bb_new busSize busSize) [] [] false 0 (init_rat3 ord (regs st)) (rat_new ratLength)
                     (repeat (0, 0) (length app)) [] 1 false in
      Ok (mk_st3 x (repeat (mk_eu3 ENone [] None 0) par) (repeat (mk_wu6 WNone None) par) 0 NNormal)
  | _, _ => Panic
  end.

Definition mvp63g_run_os (oc3 : outcome cache) (par : nat) (ord : Z -> Z -> list Z -> list Z) (fuel : nat) (app : list instr)
           (labels : Z -> option Z) (st : arch) : mres * bool :=
  match init3g oc3 par ord app st with
  | Ok s => match run3_st fuel app labels ord s with
            | inl r => r
            | inr s' => (MOutOfFuel, x_os (t_x s'))
            end
  | _ => (MPanic, false)
  end.

(* with its own L3 it is MVP-6.3 *)
Lemma mvp63g_own : forall par ord fuel app labels st,
  mvp63g_run_os (new_cache l3LineSize l3Size) par ord fuel app labels st = mvp63_run_os par ord fuel app labels st.
Proof. reflexivity. Qed.

(* the L3 of MVP-8.0 *)
Definition l3_80 : outcome cache := new_cache l3LineSize8 l3Size8.

Lemma init8_st3 : forall par ord app st s8, init8 par ord app st = Ok s8 -> init3g l3_80 par ord app st = Ok (st3_of s8).
Proof.
  intros par ord app st s8 H. unfold init8 in H. unfold init3g, l3_80.
  destruct (new_cache l1LineSize l1Size) as [ci| |]; try discriminate H.
  destruct (new_cache l3LineSize8 l3Size8) as [c3| |]; try discriminate H.
  destruct (new_cache l1dLineSize l1dSize) as [cd| |]; try discriminate H.
  cbv zeta in H. inversion H; subst. cbv zeta. unfold st3_of. cbn [v_y v_eus v_wus v_cycle v_mode y_x mode_of].
  rewrite (Mvp70Sim63Proofs.map_repeat7 eu_of). reflexivity.
Qed.

Lemma init8_ok : forall par ord app st, exists s8, init8 par ord app st = Ok s8.
Proof.
  intros par ord app st. unfold init8.
  destruct (new_cache l1LineSize l1Size) as [ci| |] eqn:E1; [|vm_compute in E1; discriminate E1|vm_compute in E1; discriminate E1].
  destruct (new_cache l3LineSize8 l3Size8) as [c3| |] eqn:E3; [|vm_compute in E3; discriminate E3|vm_compute in E3; discriminate E3].
  destruct (new_cache l1dLineSize l1dSize) as [cd| |] eqn:ED; [|vm_compute in ED; discriminate ED|vm_compute in ED; discriminate ED].
  eexists. reflexivity.
Qed.

Definition fuel_bound80 (n : nat) : nat := S (fuel_bound63 n).

Section Straight80.
  Variables (app : list instr) (labels : Z -> option Z).
  Hypothesis Happ : wf_app app.
  Hypothesis Hstr : straight app = true.
  Hypothesis Hreg : reg_only app = true.
  Hypothesis Hssa : ssa app = true.
  Hypothesis Hrng : regs_ok app = true.

  Variables (par : nat) (fuel : nat) (st st' : arch) (tr : list Z).
  Hypothesis Hpar : (1 <= par)%nat.
  Hypothesis Hr32 : Forall int32 (regs st).
  Hypothesis Hlen : length (regs st) = 32%nat.
  Hypothesis Hx0 : nth 0 (regs st) 0 = 0.
  Hypothesis Hrun : seq_run fuel (map sinstr_of app) labels st = Done st' tr.

  Let Hsem := hsem63 app labels Hstr Hreg par fuel st st' tr Hpar Hr32 Hlen Hrun.

  (* NewCPU ; InitRAT of MVP-8.0: the invariant of the main loop of MVP-6.3 with nothing dispatched, on the projection *)
  Lemma init8_G3 : forall ord s8, init8 par ord app st = Ok s8 ->
    G3 app labels (regs st) (mem st) 0 0 0 0 0 0 (st3_of s8) /\ mu3 app (st3_of s8) < Z.of_nat (fuel_bound63 (length app)) /\
    v_mode s8 = PNormal /\ length (v_eus s8) = length (y_ccs (v_y s8)) /\ y_pref (v_y s8) = [].
  Proof.
    intros ord s8 E8.
    destruct (init_fresh app par st Hpar) as (s6 & E6 & HF & Hc0).
    assert (Hle : (length (regs st) <= 32)%nat) by lia.
    pose proof (fresh_GI app labels (mem st) 0 (regs st) 0 s6 HF ltac:(lia) Hle Hr32 ltac:(rewrite Hc0; lia)) as HG.
    pose proof (gi_front _ _ _ _ _ _ _ _ _ _ _ HG) as HFr.
    unfold init6 in E6. unfold init8 in E8.
    destruct (new_cache l1LineSize l1Size) as [ci| |]; try discriminate E6.
    change (new_cache l3LineSize l3Size) with (Ok (mkCache 16 64 [])) in E6.
    destruct (new_cache l3LineSize8 l3Size8) as [c3| |] eqn:E3; try discriminate E8.
    destruct (new_cache l1dLineSize l1dSize) as [cd| |]; try discriminate E8.
    assert (H3 : lines c3 = []) by (vm_compute in E3; inversion E3; reflexivity).
    injection E6 as <-. cbv zeta in E8. inversion E8; subst s8. clear E8. cbn [s_m s_cycle] in HFr.
    destruct (init_rat_read ord (regs st)) as [Hcok Hcrd].
    unfold st3_of. cbn [v_y v_eus v_wus v_cycle v_mode y_x y_ccs y_pref mode_of].
    rewrite (Mvp70Sim63Proofs.map_repeat7 eu_of). unfold eu_of. cbn [h_co h_memory h_runner h_seq co_of].
    split; [|split; [|split; [reflexivity|split; [rewrite map_length, seq_length, repeat_length; reflexivity|reflexivity]]]].
    - constructor; cbn [t_x t_eus t_wus t_cycle t_mode x_m x_ebus x_pend x_prev length Nat.add].
      + eapply (FrontI_frame app labels (regs st) (mem st) ord Happ Hstr Hreg Hssa Hrng Hlen Hr32 Hx0 Hsem); [exact HFr|..]; try reflexivity.
        apply busok_new.
      + reflexivity.
      + constructor; cbn [x_m x_ebus x_pend x_prev x_pcb x_seq x_crat x_trat x_fwd x_chan x_next x_os m_pw m_pr m_regs m_mem m_l3 m_wbus
                          flat bb_new bb_q bb_buf map List.app recvs fwds flat_map seq Nat.sub length];
          try reflexivity; try (constructor; fail); try lia; try exact H3.
        * intros s Hs. unfold zero_sb. rewrite nth_repeat_same. reflexivity.
        * intros s Hs. unfold zero_sb. rewrite nth_repeat_same. reflexivity.
        * exact Hcok.
        * intros r. rewrite Hcrd, Hlen. reflexivity.
        * apply rat_new_ok. unfold ratLength. lia.
        * intros p [].
      + apply busok_new.
      + unfold blen, bb_new. cbn. lia.
      + apply Forall_forall. intros e He. apply repeat_spec in He. subst e. split; reflexivity.
      + apply Forall_forall. intros e He. apply repeat_spec in He. subst e. reflexivity.
      + destruct par; [lia | discriminate].
      + rewrite !repeat_length. reflexivity.
      + reflexivity.
      + unfold blen, bb_new. cbn. lia.
      + unfold blen, bb_new. cbn. lia.
      + lia.
      + reflexivity.
    - unfold mu3, phi3, phiX. cbn [t_mode t_x x_m x_ebus x_pend m_fu m_dbus m_cbus m_wbus].
      unfold phiF, phi_co. cbn [f_pc f_co]. unfold blen, qlen, zlen, bb_new. cbn [bb_buf bb_q length].
      unfold fuel_bound63, MemoryAccess. lia.
  Qed.

  Variable ord : Z -> Z -> list Z -> list Z.

  (* NewCPU establishes the run invariant *)
  Lemma init8_CI8 : forall s8, init8 par ord app st = Ok s8 ->
    exists c3 ccs0, Forall cc_idle ccs0 /\ lines c3 = [] /\ CI8 app labels (regs st) (mem st) c3 ccs0 s8 /\ v_mode s8 = PNormal /\
                    mu3 app (st3_of s8) < Z.of_nat (fuel_bound63 (length app)).
  Proof.
    intros s8 E8. destruct (init8_SI _ _ _ _ _ E8) as (c3 & ccs0 & H3 & HC & HS).
    destruct (init8_G3 ord s8 E8) as (HG & Hmu & HM & HL & HP).
    exists c3, ccs0. split; [exact HC|]. split; [exact H3|]. split; [|split; [exact HM|exact Hmu]].
    split; [exact HS|]. split; [rewrite HL; rewrite (proj1 (proj2 (proj1 HS))); reflexivity|]. split; [exact HP|].
    rewrite HM. eapply SI3_n. exact HG.
  Qed.

  (* MVP-8.0 = the pipeline of MVP-6.3 (started with the L3 of MVP-8.0) + one tick and one cycle: results, ghost flags,
     errors and panics, for every fuel with which that pipeline returns *)
  Theorem mvp80_ssa_straight_sim_mvp63g : forall fuel' r os,
    mvp63g_run_os l3_80 par ord fuel' app labels st = (r, os) -> r <> MOutOfFuel ->
    mvp80_run_os par ord (S fuel') app labels st = (plus_one_cycle r, os).
  Proof.
    intros fuel' r os H HN. destruct (init8_ok par ord app st) as (s8 & E8).
    unfold mvp63g_run_os in H. rewrite (init8_st3 _ _ _ _ _ E8) in H. unfold mvp80_run_os. rewrite E8.
    destruct (init8_CI8 s8 E8) as (c3 & ccs0 & HC & H3 & HCI & HM & _).
    destruct (run3_st fuel' app labels ord (st3_of s8)) as [[r1 os1]|s'] eqn:ER.
    - inversion H; subst.
      rewrite (run8_sim app labels (regs st) (mem st) ord c3 ccs0 Happ Hstr Hreg Hssa Hrng Hlen Hr32 Hx0 Hsem HC H3 fuel' s8 r os HCI
                 ltac:(rewrite HM; discriminate) ER). reflexivity.
    - inversion H; subst. exfalso. apply HN. reflexivity.
  Qed.

  (* the relation with MVP-6.3 itself, PARTIAL: under the independence of the pipeline of the L3 geometry *)
  Theorem mvp80_ssa_straight_sim_mvp63_partial :
    (forall fuel', mvp63g_run_os l3_80 par ord fuel' app labels st = mvp63_run_os par ord fuel' app labels st) ->
    forall fuel' r os, mvp63_run_os par ord fuel' app labels st = (r, os) -> r <> MOutOfFuel ->
    mvp80_run_os par ord (S fuel') app labels st = (plus_one_cycle r, os).
  Proof. intros HG fuel' r os H HN. apply mvp80_ssa_straight_sim_mvp63g; [rewrite HG; exact H|exact HN]. Qed.

  (* NewCPU of MVP-6.3 is the projection of NewCPU of MVP-8.0 with the L3 of MVP-6.3 *)
  Lemma init3_sl3 : forall s8, init8 par ord app st = Ok s8 -> init3 par ord app st = Ok (sl3s (mkCache 16 64 []) (st3_of s8)).
  Proof.
    intros s8 H. unfold init8 in H. unfold init3.
    destruct (new_cache l1LineSize l1Size) as [ci| |]; try discriminate H.
    change (new_cache l3LineSize l3Size) with (Ok (mkCache 16 64 [])).
    destruct (new_cache l3LineSize8 l3Size8) as [c3| |]; try discriminate H.
    destruct (new_cache l1dLineSize l1dSize) as [cd| |]; try discriminate H.
    cbv zeta in H. inversion H; subst. cbv zeta. unfold sl3s, st3_of.
    cbn [v_y v_eus v_wus v_cycle v_mode t_x t_eus t_wus t_cycle t_mode mode_of y_x].
    rewrite (Mvp70Sim63Proofs.map_repeat7 eu_of). reflexivity.
  Qed.

  (* independence of the L3 geometry: the pipeline of MVP-6.3 started with the L3 of MVP-8.0 IS MVP-6.3, every fuel *)
  Theorem mvp63g_l3_80 : forall fuel', mvp63g_run_os l3_80 par ord fuel' app labels st = mvp63_run_os par ord fuel' app labels st.
  Proof.
    intros fuel'. destruct (init8_ok par ord app st) as (s8 & E8).
    unfold mvp63g_run_os, mvp63_run_os. rewrite (init8_st3 _ _ _ _ _ E8), (init3_sl3 s8 E8).
    destruct (init8_CI8 s8 E8) as (c3 & ccs0 & HC & H3 & HCI & HM & _).
    rewrite (run3_l3 app labels (regs st) (mem st) ord c3 ccs0 Happ Hstr Hreg Hssa Hrng Hlen Hr32 Hx0 Hsem HC H3 (mkCache 16 64 []) eq_refl
               fuel' s8 HCI ltac:(rewrite HM; discriminate)).
    destruct (run3_st fuel' app labels ord (st3_of s8)) as [r|s']; reflexivity.
  Qed.

  (* THE THEOREM: MVP-8.0 = MVP-6.3 + one tick and one cycle: results, ghost flags, errors and panics, for every fuel with
     which MVP-6.3 returns *)
  Theorem mvp80_ssa_straight_sim_mvp63 : forall fuel' r os,
    mvp63_run_os par ord fuel' app labels st = (r, os) -> r <> MOutOfFuel ->
    mvp80_run_os par ord (S fuel') app labels st = (plus_one_cycle r, os).
  Proof. exact (mvp80_ssa_straight_sim_mvp63_partial mvp63g_l3_80). Qed.

  (* MVP-8.0 computes the sequential registers and memory: all fuels from fuel_bound80 (length app) on, ghost flag
     clear, at least (executed + 2) / 2 cycles *)
  Theorem mvp80_run_ssa_straight :
    exists c, (forall fuel', (fuel_bound80 (length app) <= fuel')%nat -> mvp80_run_os par ord fuel' app labels st = (MDone c st', false)) /\
              Z.of_nat (length tr) + 2 <= 2 * c /\
              (forall fuel', (fuel_bound63 (length app) <= fuel')%nat -> mvp63_run_os par ord fuel' app labels st = (MDone (c - 1) st', false)).
  Proof.
    destruct (init8_ok par ord app st) as (s8 & E8).
    destruct (init8_CI8 s8 E8) as (c3 & ccs0 & HC & H3 & HCI & HM & Hmu).
    assert (HSI : SInv3 app labels (regs st) (mem st) (st3_of s8)).
    { destruct HCI as (_ & _ & _ & X). rewrite HM in X. exact X. }
    destruct (seg_run3 app labels (regs st) (mem st) ord Happ Hstr Hreg Hssa Hrng Hlen Hr32 Hx0 Hsem (fuel_bound63 (length app)) (st3_of s8)
                HSI Hmu) as (k & r & Hk & Hr & HFin).
    pose proof Hrun as Hrun'. unfold seq_run in Hrun'. assert (Hst : st = mk_arch (regs st) (mem st)) by (destruct st; reflexivity).
    rewrite Hst in Hrun' at 1. change 0 with (pcz 0) in Hrun'.
    destruct (seg_seq_fin app labels (regs st) (mem st) 0 0 Hreg ltac:(lia) ltac:(lia) Hsem r fuel [] st' tr HFin Hrun') as (cf & -> & Hcf).
    assert (H63 : forall fuel', (fuel_bound63 (length app) <= fuel')%nat ->
                   mvp63g_run_os l3_80 par ord fuel' app labels st = (MDone cf st', false)).
    { intros fuel' Hf. unfold mvp63g_run_os. rewrite (init8_st3 _ _ _ _ _ E8).
      replace fuel' with (k + (fuel' - k))%nat by (clear - Hk Hf; lia). rewrite Hr. reflexivity. }
    exists (cf + 1). split; [|split].
    - intros fuel' Hf. unfold fuel_bound80 in Hf. destruct fuel' as [|f]; [clear - Hf; lia|].
      apply (mvp80_ssa_straight_sim_mvp63g f (MDone cf st') false); [|discriminate]. apply H63. clear - Hf. lia.
    - cbn [length] in Hcf. rewrite Nat.sub_0_r, Nat.add_0_r in Hcf. clear - Hcf. lia.
    - intros fuel' Hf. replace (cf + 1 - 1) with cf by (clear; lia). rewrite <- mvp63g_l3_80. apply H63. exact Hf.
  Qed.

  Theorem mvp80_refines_seq_ssa_straight :
    exists c, (forall fuel', (fuel_bound80 (length app) <= fuel')%nat ->
                 mvp80_run par ord fuel' app labels st = MDone c st' /\ snd (mvp80_run_os par ord fuel' app labels st) = false) /\
              (Z.of_nat (length tr) + 1) / 2 + 1 <= c.
  Proof.
    destruct mvp80_run_ssa_straight as (c & H & Hb & _). exists c. split.
    - intros fuel' Hf. unfold mvp80_run. rewrite (H fuel' Hf). split; reflexivity.
    - clear - Hb. lia.
  Qed.

  Theorem mvp80_ghost_clear_ssa_straight fuel' : (fuel_bound80 (length app) <= fuel')%nat ->
    snd (mvp80_run_os par ord fuel' app labels st) = false.
  Proof. intros Hf. destruct mvp80_run_ssa_straight as (c & H & _). rewrite (H fuel' Hf). reflexivity. Qed.

  Theorem mvp80_terminates_ssa_straight :
    exists c, mvp80_run par ord (fuel_bound80 (length app)) app labels st = MDone c st' /\ (Z.of_nat (length tr) + 1) / 2 + 1 <= c.
  Proof.
    destruct mvp80_refines_seq_ssa_straight as (c & H1 & H2). exists c. split; [exact (proj1 (H1 _ (le_n _)))|exact H2].
  Qed.

  Corollary mvp80_no_panic_ssa_straight fuel' : (fuel_bound80 (length app) <= fuel')%nat ->
    mvp80_run par ord fuel' app labels st <> MPanic /\ mvp80_run par ord fuel' app labels st <> MOutOfFuel /\
    (forall e, mvp80_run par ord fuel' app labels st <> MErr e).
  Proof.
    intros Hf. destruct mvp80_refines_seq_ssa_straight as (c & Hc & _). rewrite (proj1 (Hc fuel' Hf)). repeat split; try discriminate.
  Qed.
End Straight80.

(* ------------------------------------------------------------------ *)
(* 7. the 14-instruction example of Mvp63RefProofs.v                    *)
(* ------------------------------------------------------------------ *)

(* every number of cores, EVERY order function *)
Corollary mvp80_ssa_example_any par ord : (1 <= par)%nat ->
  exists c st', seq_run 100 (map sinstr_of (map instr_of ex63_prog)) no_labels zero32 = Done st' (rev (map (fun k => 4 * Z.of_nat k) (seq 0 14))) /\
    (forall fuel, (fuel_bound80 14 <= fuel)%nat -> mvp80_run_os par ord fuel (map instr_of ex63_prog) no_labels zero32 = (MDone c st', false)) /\
    rget (regs st') 18 = 251 /\ 8 <= c.
Proof.
  intros Hpar. destruct (mvp63_ssa_example_any par ord Hpar) as (c0 & st' & Hs & _ & R18 & _).
  assert (Hwf : wf_app (map instr_of ex63_prog)) by (split; [|vm_compute; reflexivity]; unfold ex63_prog; cbn [map]; repeat constructor; vm_compute; discriminate).
  assert (H1 : straight (map instr_of ex63_prog) = true) by (vm_compute; reflexivity).
  assert (H2 : reg_only (map instr_of ex63_prog) = true) by (vm_compute; reflexivity).
  assert (H3 : ssa (map instr_of ex63_prog) = true) by (vm_compute; reflexivity).
  assert (H4 : regs_ok (map instr_of ex63_prog) = true) by (vm_compute; reflexivity).
  assert (H5 : Forall int32 (regs zero32)) by (unfold zero32; cbn [regs repeat]; repeat constructor; vm_compute; discriminate).
  assert (H6 : length (regs zero32) = 32%nat) by reflexivity.
  assert (H7 : nth 0 (regs zero32) 0 = 0) by reflexivity.
  destruct (mvp80_run_ssa_straight (map instr_of ex63_prog) no_labels Hwf H1 H2 H3 H4 par 100%nat zero32 st' _ Hpar H5 H6 H7 Hs ord)
    as (c & Hc & Hb & _).
  exists c, st'. split; [exact Hs|]. split; [exact Hc|]. split; [exact R18|].
  rewrite rev_length, map_length, seq_length in Hb. clear - Hb. lia.
Qed.

Corollary mvp80_ssa_example_sim par ord fuel r os : (1 <= par)%nat ->
  mvp63_run_os par ord fuel (map instr_of ex63_prog) no_labels zero32 = (r, os) -> r <> MOutOfFuel ->
  mvp80_run_os par ord (S fuel) (map instr_of ex63_prog) no_labels zero32 = (plus_one_cycle r, os).
Proof.
  intros Hpar. destruct (mvp63_ssa_example_any par ord Hpar) as (c0 & st' & Hs & _).
  assert (Hwf : wf_app (map instr_of ex63_prog)) by (split; [|vm_compute; reflexivity]; unfold ex63_prog; cbn [map]; repeat constructor; vm_compute; discriminate).
  assert (H1 : straight (map instr_of ex63_prog) = true) by (vm_compute; reflexivity).
  assert (H2 : reg_only (map instr_of ex63_prog) = true) by (vm_compute; reflexivity).
  assert (H3 : ssa (map instr_of ex63_prog) = true) by (vm_compute; reflexivity).
  assert (H4 : regs_ok (map instr_of ex63_prog) = true) by (vm_compute; reflexivity).
  assert (H5 : Forall int32 (regs zero32)) by (unfold zero32; cbn [regs repeat]; repeat constructor; vm_compute; discriminate).
  assert (H6 : length (regs zero32) = 32%nat) by reflexivity.
  assert (H7 : nth 0 (regs zero32) 0 = 0) by reflexivity.
  exact (mvp80_ssa_straight_sim_mvp63 (map instr_of ex63_prog) no_labels Hwf H1 H2 H3 H4 par 100%nat zero32 st' _ Hpar H5 H6 H7 Hs ord fuel r os).
Qed.

(* by computation, 1..4 cores, two orders: the relation with MVP-6.3 ITSELF (its own L3): one tick and one cycle more *)
Example mvp80_ssa_example : forall par, In par [1; 2; 3; 4]%nat ->
  mvp80_run_os par ord_asc 3001 (map instr_of ex63_prog) no_labels zero32 =
    (plus_one_cycle (fst (mvp63_run_os par ord_asc 3000 (map instr_of ex63_prog) no_labels zero32)),
     snd (mvp63_run_os par ord_asc 3000 (map instr_of ex63_prog) no_labels zero32)) /\
  mvp80_run_os par ord_desc 3001 (map instr_of ex63_prog) no_labels zero32 =
    (plus_one_cycle (fst (mvp63_run_os par ord_desc 3000 (map instr_of ex63_prog) no_labels zero32)),
     snd (mvp63_run_os par ord_desc 3000 (map instr_of ex63_prog) no_labels zero32)) /\
  fst (mvp63_run_os par ord_asc 3000 (map instr_of ex63_prog) no_labels zero32) <> MOutOfFuel /\
  mvp63g_run_os l3_80 par ord_asc 3000 (map instr_of ex63_prog) no_labels zero32 =
    mvp63_run_os par ord_asc 3000 (map instr_of ex63_prog) no_labels zero32.
Proof.
  intros par [<-|[<-|[<-|[<-|[]]]]];
    (split; [vm_compute; reflexivity|split; [vm_compute; reflexivity|split; [vm_compute; discriminate|vm_compute; reflexivity]]]).
Qed.

Print Assumptions rd_agree8_newest.
Print Assumptions eus_main8_WB.
Print Assumptions wus_cycle8_eq.
Print Assumptions tick8.
Print Assumptions final8.
Print Assumptions run8_sim.
Print Assumptions mvp80_ssa_straight_sim_mvp63g.
Print Assumptions mvp80_ssa_straight_sim_mvp63_partial.
Print Assumptions run3_l3.
Print Assumptions mvp63g_l3_80.
Print Assumptions mvp80_ssa_straight_sim_mvp63.
Print Assumptions mvp80_run_ssa_straight.
Print Assumptions mvp80_refines_seq_ssa_straight.
Print Assumptions mvp80_terminates_ssa_straight.
Print Assumptions mvp80_no_panic_ssa_straight.
Print Assumptions mvp80_ssa_example_any.
Print Assumptions mvp80_ssa_example_sim.
Print Assumptions mvp80_ssa_example.
