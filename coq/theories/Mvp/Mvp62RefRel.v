(* Refinement of MVP-6.2 (Mvp62.v = MVP-6.1 + speculative register state: transaction map, commit on a
   not-taken conditional branch, rollback on a taken one) to the sequential machine on REGISTER-ONLY
   programs - part 1: the simulation relation between a state of Mvp62.v and a state of Mvp61.v.

   Method.  proc/mvp6-2 is proc/mvp6-1 plus the transaction map; the two Gallina models were written
   independently (different records, different naming of channels and pointers).  The proof of MVP-6.1
   (Mvp61Ref*.v) is NOT redone: the run of Mvp62.v is shown to follow the run of Mvp61.v tick by tick
   (same mode, same cycle counter, same buses, scoreboards, fetch / decode / branch units), where
     - the register file of MVP-6.1 is the VIEW of the context of MVP-6.2: Transaction entry if there
       is one, Registers otherwise (Vw);
     - a channel of Mvp61.v (numbered by x_nch) is the channel of Mvp62.v named by the identity of its
       sender: sg : channel -> identity, strictly increasing on the channels made so far (SgOK);
     - pointer identities differ by one (n_nid starts at 1, x_nid at 0).
   The invariant on the transaction map that makes Rollback harmless: every entry carries a sequence id
   BELOW the sequence id of every instruction that is still to execute (TxB); so a rollback keeps every
   entry (it commits them) and the view does not change.  Wrong-path results never reach the map: the
   write units drop them by their sequence ids exactly as in MVP-6.1. *)
From Coq Require Import ZArith List Bool Lia.
From Maj Require Import Base.Outcome Base.GoInt Base.GoTypes Isa.Spec Isa.Embed Isa.Seq Isa.Refine.
From Maj Require Import Gen.Latency Gen.RiscTables Gen.Opcodes Comp.Cache Comp.Rat Comp.RatProofs Comp.Tx Comp.TxProofs.
From Maj Require Import Mvp.Mvp12 Mvp.Mvp12Proofs Mvp.Mvp3 Mvp.Mvp3Proofs Mvp.Mvp4Skel Mvp.Mvp4Inv Mvp.Mvp4Sim Mvp.Mvp5 Mvp.Mvp60 Mvp.Mvp60RefSem Mvp.Mvp60RefDefs Mvp.Mvp61 Mvp.Mvp62.
Import ListNotations.
Open Scope Z_scope.

(* ------------------------------------------------------------------ *)
(* the view of a context                                                *)

Definition view (c : Tx.ctx) (r : Z) : Z :=
  match aget r (Tx.trans c) with Some u => snd u | None => Tx.reg_get c r end.

Record Vw (c : Tx.ctx) (rg : list Z) : Prop := mkVw {
  vw_rd : forall r, view c r = rget rg r;
  vw_0 : nth 0 rg 0 = 0;
  vw_len : length rg = 32%nat;
  vw_rat : Tx.ratflag c = false }.

(* every entry of the transaction map is older than b *)
Definition TxB (c : Tx.ctx) (b : Z) : Prop := forall r u, aget r (Tx.trans c) = Some u -> fst u < b.

Lemma TxB_mono c b b' : b <= b' -> TxB c b -> TxB c b'.
Proof. intros H HT r u E. specialize (HT r u E). lia. Qed.

Lemma register_read_view c f rg r : Vw c rg -> Tx.register_read c f r 0 = rr1 f rg r.
Proof.
  intros [H1 H2 H3 H4]. unfold Tx.register_read, rr1. rewrite H4. destruct (r =? fst f); [reflexivity|].
  rewrite <- H1. unfold view. destruct (aget r (Tx.trans c)); reflexivity.
Qed.

Lemma view_commit c r : view (Tx.commit [] c) r = view c r.
Proof.
  unfold view. cbn [Tx.trans Tx.commit aget]. unfold Tx.reg_get. rewrite (commit_regs [] c r).
  destruct (aget r (Tx.trans c)); reflexivity.
Qed.

Lemma view_rollback c s r : TxB c s -> view (Tx.rollback [] s c) r = view c r.
Proof.
  intros HT. unfold view. cbn [Tx.trans Tx.rollback aget]. unfold Tx.reg_get. rewrite (rollback_regs [] s c r).
  destruct (aget r (Tx.trans c)) as [u|] eqn:E; [|reflexivity].
  specialize (HT r u E). destruct (Z.ltb_spec (fst u) s); [reflexivity | lia].
Qed.

Lemma Vw_commit c rg : Vw c rg -> Vw (Tx.commit [] c) rg.
Proof. intros [H1 H2 H3 H4]. constructor; auto. intros r. rewrite view_commit. apply H1. Qed.

Lemma Vw_rollback c rg s : TxB c s -> Vw c rg -> Vw (Tx.rollback [] s c) rg.
Proof. intros HT [H1 H2 H3 H4]. constructor; auto. intros r. rewrite (view_rollback c s r HT). apply H1. Qed.

Lemma TxB_commit c b : TxB (Tx.commit [] c) b.
Proof. intros r u E. cbn in E. discriminate. Qed.
Lemma TxB_rollback c s b : TxB (Tx.rollback [] s c) b.
Proof. intros r u E. cbn in E. discriminate. Qed.

Lemma view_tx_write c r v s r' : view (Tx.tx_write c r v s) r' = if r' =? r then v else view c r'.
Proof.
  unfold view, Tx.tx_write, Tx.reg_get. cbn [Tx.trans Tx.regs]. rewrite aget_aset.
  destruct (r' =? r); reflexivity.
Qed.

Lemma rget_rset rg r v r' : 0 <= r < Z.of_nat (length rg) -> (r = 0 -> v = 0) -> nth 0 rg 0 = 0 ->
  rget (rset rg r v) r' = if r' =? r then v else rget rg r'.
Proof.
  intros Hr H0 Hz. unfold rget, rset. destruct (Z.eqb_spec r 0) as [->|Hnz].
  - destruct (Z.eqb_spec r' 0) as [->|Hne]; [symmetry; apply H0; reflexivity | reflexivity].
  - destruct (Z.eqb_spec r' r) as [->|Hne].
    + destruct (Z.eqb_spec r 0); [contradiction|]. apply supd_nth_eq. lia.
    + destruct (Z.eqb_spec r' 0) as [->|Hne0]; [reflexivity|].
      destruct (Z_lt_le_dec r' 0) as [Hneg|Hpos].
      * replace (Z.to_nat r') with 0%nat by lia. rewrite supd_nth_neq by lia. reflexivity.
      * apply supd_nth_neq. lia.
Qed.

Lemma Vw_write c rg r v s : Vw c rg -> 0 <= r < 32 -> (r = 0 -> v = 0) -> Vw (Tx.tx_write c r v s) (rset rg r v).
Proof.
  intros [H1 H2 H3 H4] Hr H0. constructor.
  - intros r'. rewrite view_tx_write, rget_rset; [|rewrite H3; exact Hr | exact H0 | exact H2].
    destruct (r' =? r); [reflexivity | apply H1].
  - unfold rset. destruct (Z.eqb_spec r 0); [exact H2|]. rewrite supd_nth_neq by lia. exact H2.
  - rewrite rset_length. exact H3.
  - exact H4.
Qed.

Lemma TxB_write c r v s b : TxB c b -> s < b -> TxB (Tx.tx_write c r v s) b.
Proof.
  intros HT Hs r' u E. unfold Tx.tx_write in E. cbn [Tx.trans] in E. rewrite aget_aset in E.
  destruct (r' =? r); [injection E as <-; exact Hs | exact (HT r' u E)].
Qed.

(* ctx.Registers after the final Commit *)
Lemma regs_of_commit c rg : Vw c rg -> regs_of (Tx.commit [] c) = rg.
Proof.
  intros [H1 H2 H3 H4]. unfold regs_of. apply (nth_ext _ _ 0 0).
  - rewrite map_length, seq_length. symmetry. exact H3.
  - intros i Hi. rewrite map_length, seq_length in Hi.
    set (f := fun i0 : nat => Tx.reg_get (Tx.commit [] c) (Z.of_nat i0)).
    rewrite (nth_indep _ 0 (f 0%nat)) by (rewrite map_length, seq_length; exact Hi).
    rewrite (map_nth f), seq_nth by exact Hi. cbn [Nat.add]. unfold f.
    assert (E : Tx.reg_get (Tx.commit [] c) (Z.of_nat i) = view (Tx.commit [] c) (Z.of_nat i)) by (unfold view; reflexivity).
    rewrite E, view_commit, H1. unfold rget. destruct (Z.eqb_spec (Z.of_nat i) 0) as [E0|E0].
    + assert (i = 0%nat) by lia. subst i. symmetry. exact H2.
    + rewrite Nat2Z.id. reflexivity.
Qed.

(* ------------------------------------------------------------------ *)
(* runners, buses                                                       *)

Section Rel.
  Variable nap : nat.         (* length of the text *)
  Variable sg : Z -> Z.       (* channel of Mvp61.v -> identity of its sender in Mvp62.v *)

  (* what does not depend on the pointer identity *)
  Record RC (nch : Z) (r2 : runner2) (r1 : runner1) : Prop := mkRC {
    rc_i : q_instr r2 = r_instr (r_b r1);
    rc_pc : q_pc r2 = r_pc (r_b r1);
    rc_sq : q_seq r2 = r_seq (r_b r1);
    rc_fr : q_freg r2 = r_freg r1;
    rc_rc : match r_rc r1 with None => q_recv r2 = None | Some c => q_recv r2 = Some (sg c) /\ c < nch end;
    rc_rng : (iidx (q_pc r2) < nap)%nat;
    rc_nm : nomem (q_instr r2) = true }.

  (* a runner that has not been pushed: no Forwarder *)
  Definition RRu (nch : Z) (r2 : runner2) (r1 : runner1) : Prop :=
    RC nch r2 r1 /\ r_fw r1 = None /\ q_fwd r2 = false.
  (* an object on the execute bus *)
  Definition RRp (nch : Z) (r2 : runner2) (r1 : runner1) : Prop :=
    RC nch r2 r1 /\ q_id r2 = r_id r1 + 1 /\
    match r_fw r1 with None => q_fwd r2 = false | Some c => q_fwd r2 = true /\ c < nch /\ sg c = q_id r2 end.

  Definition RBus {A B} (P : A -> B -> Prop) (b2 : bbus A) (b1 : bbus B) : Prop :=
    Forall2 (fun x y => fst x = fst y /\ P (snd x) (snd y)) (bb_buf b2) (bb_buf b1) /\
    Forall2 P (bb_q b2) (bb_q b1) /\ bb_ql b2 = bb_ql b1 /\ bb_bl b2 = bb_bl b1.

  (* the channels made so far: strictly increasing sender identities, all pushed *)
  Record SgOK (nch nid : Z) : Prop := mkSg {
    sg_mono : forall c c', c < c' -> c' < nch -> sg c < sg c';
    sg_lt : forall c, c < nch -> sg c < nid }.

  Record RM (m2 : mach2) (m1 : mach1) : Prop := mkRM {
    rm_vw : Vw (n_ctx m2) (m_regs (y_m m1));
    rm_mem : n_mem m2 = m_mem (y_m m1);
    rm_pw : n_pw m2 = m_pw (y_m m1);
    rm_pr : n_pr m2 = m_pr (y_m m1);
    rm_l1i : n_l1i m2 = m_l1i (y_m m1);
    rm_l3 : n_l3 m2 = m_l3 (y_m m1);
    rm_pend : n_pend m2 = m_pend (y_m m1);
    rm_fu : n_fu m2 = m_fu (y_m m1);
    rm_dret : n_dret m2 = m_dret (y_m m1);
    rm_dpbr : n_dpbr m2 = m_dpbr (y_m m1);
    rm_bu : n_bu m2 = m_bu (y_m m1);
    rm_dbus : n_dbus m2 = m_dbus (y_m m1);
    rm_wbus : n_wbus m2 = m_wbus (y_m m1);
    rm_cu : Forall2 (RRu (x_nch (y_x m1))) (n_cu m2) (x_cu (y_x m1));
    rm_prev : Forall2 (RRp (x_nch (y_x m1))) (n_prev m2) (x_prev (y_x m1));
    rm_pcb : n_pcb m2 = x_pcb (y_x m1);
    rm_cbus : RBus (RRu (x_nch (y_x m1))) (n_cbus m2) (x_cbus (y_x m1));
    rm_ebus : RBus (RRp (x_nch (y_x m1))) (n_ebus m2) (x_ebus (y_x m1));
    rm_seq : n_seq m2 = Mvp61.x_seq (y_x m1);
    rm_nid : n_nid m2 = x_nid (y_x m1) + 1;
    rm_chan : n_chan m2 = map (fun cv => (sg (fst cv), snd cv)) (x_ch (y_x m1));
    rm_chlt : Forall (fun cv => fst cv < x_nch (y_x m1)) (x_ch (y_x m1));
    rm_fwd : x_fwd (y_x m1) = repeat no_fwd nap;
    rm_fw : forall idx, fw_get m2 idx = (0, 0);
    rm_sg : SgOK (x_nch (y_x m1)) (n_nid m2) }.

  (* the runners pushed in the previous cycle are younger than every sender so far *)
  Definition PrevOK (m2 : mach2) (nch : Z) : Prop :=
    forall p, In p (n_prev m2) -> q_id p < n_nid m2 /\ forall c, c < nch -> sg c < q_id p.

  (* an idle execute unit (the runner it still holds only matters through its sequence id) *)
  Record REi (e2 : eu62) (e1 : eu1) : Prop := mkREi {
    re_co2 : x_co e2 = ENone;
    re_co1 : e_co (u_e e1) = ENone;
    re_mem : x_memory e2 = e_memory (u_e e1);
    re_seq : Mvp62.x_seq e2 = u_sid e1;
    re_run : option_map q_seq (x_runner e2) = option_map r_seq (e_runner (u_e e1)) }.
End Rel.

(* a newer channel does not disturb the relations *)
Lemma RC_ext nap sg sg' nch nch' r2 r1 : (forall c, c < nch -> sg' c = sg c) -> nch <= nch' ->
  RC nap sg nch r2 r1 -> RC nap sg' nch' r2 r1.
Proof.
  intros He Hn [H1 H2 H3 H4 H5 H6 H7]. constructor; auto.
  destruct (r_rc r1) as [c|]; [|exact H5]. destruct H5 as [A B]. rewrite (He c B). split; [exact A | lia].
Qed.

Lemma RRu_ext nap sg sg' nch nch' r2 r1 : (forall c, c < nch -> sg' c = sg c) -> nch <= nch' ->
  RRu nap sg nch r2 r1 -> RRu nap sg' nch' r2 r1.
Proof. intros He Hn (A & B & C). split; [eapply RC_ext; eassumption | auto]. Qed.

Lemma RRp_ext nap sg sg' nch nch' r2 r1 : (forall c, c < nch -> sg' c = sg c) -> nch <= nch' ->
  RRp nap sg nch r2 r1 -> RRp nap sg' nch' r2 r1.
Proof.
  intros He Hn (A & B & C). split; [eapply RC_ext; eassumption|]. split; [exact B|].
  destruct (r_fw r1) as [c|]; [|exact C]. destruct C as (C1 & C2 & C3). rewrite (He c C2). repeat split; auto; lia.
Qed.

Lemma Forall2_impl {A B} (P Q : A -> B -> Prop) l1 l2 : (forall a b, P a b -> Q a b) -> Forall2 P l1 l2 -> Forall2 Q l1 l2.
Proof. intros H. induction 1; constructor; auto. Qed.

Lemma F2_length {A B} (P : A -> B -> Prop) l2 l1 : Forall2 P l2 l1 -> length l2 = length l1.
Proof. induction 1; cbn; congruence. Qed.

Lemma RBus_impl {A B} (P Q : A -> B -> Prop) b2 b1 : (forall a b, P a b -> Q a b) -> RBus P b2 b1 -> RBus Q b2 b1.
Proof.
  intros H (H1 & H2 & H3 & H4). split; [|split; [|split]]; auto.
  - eapply Forall2_impl; [|exact H1]. cbv beta. intros a b [E Hp]. split; auto.
  - eapply Forall2_impl; eassumption.
Qed.

(* ------------------------------------------------------------------ *)
(* the bus operations respect RBus                                      *)

Section Bus.
  Context {A B : Type} (P : A -> B -> Prop).

  Lemma F2_len (l2 : list A) (l1 : list B) : Forall2 P l2 l1 -> zlen l2 = zlen l1.
  Proof. intros H. unfold zlen. rewrite (F2_length _ _ _ H). reflexivity. Qed.

  Lemma F2_len' {C D} (Q : C -> D -> Prop) (l2 : list C) (l1 : list D) : Forall2 Q l2 l1 -> zlen l2 = zlen l1.
  Proof. intros H. unfold zlen. rewrite (F2_length _ _ _ H). reflexivity. Qed.

  Lemma RBus_canadd b2 b1 : RBus P b2 b1 -> bb_canadd b2 = bb_canadd b1.
  Proof. intros (H1 & H2 & H3 & H4). unfold bb_canadd. rewrite (F2_len' _ _ _ H1), H4. reflexivity. Qed.

  Lemma RBus_isempty b2 b1 : RBus P b2 b1 -> bb_isempty b2 = bb_isempty b1.
  Proof. intros (H1 & H2 & H3 & H4). unfold bb_isempty. rewrite (F2_len' _ _ _ H1), (F2_len _ _ H2). reflexivity. Qed.

  Lemma RBus_add b2 b1 x y c : RBus P b2 b1 -> P x y -> RBus P (bb_add b2 x c) (bb_add b1 y c).
  Proof.
    intros (H1 & H2 & H3 & H4) Hp. unfold bb_add. split; [|split; [|split]]; cbn [bb_buf bb_q bb_ql bb_bl]; auto.
    apply Forall2_app; [exact H1|]. constructor; [|constructor]. split; [reflexivity | exact Hp].
  Qed.

  Lemma RBus_clean b2 b1 : RBus P b2 b1 -> RBus P (bb_clean b2) (bb_clean b1).
  Proof. intros (H1 & H2 & H3 & H4). unfold bb_clean. split; [|split; [|split]]; cbn [bb_buf bb_q bb_ql bb_bl]; auto. Qed.

  Lemma RBus_get b2 b1 : RBus P b2 b1 ->
    match bb_get b1 with
    | (b1', None) => bb_get b2 = (b2, None) /\ b1' = b1
    | (b1', Some y) => exists b2' x, bb_get b2 = (b2', Some x) /\ P x y /\ RBus P b2' b1'
    end.
  Proof.
    intros (H1 & H2 & H3 & H4). unfold bb_get. destruct H2 as [|x y q2 q1 Hp Hq].
    - split; reflexivity.
    - eexists _, x. split; [reflexivity|]. split; [exact Hp|].
      split; [|split; [|split]]; cbn [bb_buf bb_q bb_ql bb_bl]; auto.
  Qed.

  Lemma connect_loop_rel ql c : forall buf2 buf1 q2 q1,
    Forall2 (fun x y => fst x = fst y /\ P (snd x) (snd y)) buf2 buf1 -> Forall2 P q2 q1 ->
    Forall2 P (fst (bb_connect_loop ql c q2 buf2)) (fst (bb_connect_loop ql c q1 buf1)) /\
    Forall2 (fun x y => fst x = fst y /\ P (snd x) (snd y)) (snd (bb_connect_loop ql c q2 buf2)) (snd (bb_connect_loop ql c q1 buf1)).
  Proof.
    induction buf2 as [|[a x] buf2 IH]; intros buf1 q2 q1 Hb Hq; inversion Hb as [|? [a' y] ? buf1' [Ea Hp] Hb']; subst.
    - cbn. split; [exact Hq | constructor].
    - cbn [fst snd] in Ea, Hp. subst a'. cbn [bb_connect_loop]. rewrite (F2_len _ _ Hq).
      destruct (zlen q1 =? ql); [cbn [fst snd]; split; [exact Hq | exact Hb]|].
      destruct (a >? c); [cbn [fst snd]; split; [exact Hq | exact Hb]|].
      apply IH; [exact Hb'|]. apply Forall2_app; [exact Hq | constructor; [exact Hp | constructor]].
  Qed.

  Lemma RBus_connect b2 b1 c : RBus P b2 b1 -> RBus P (bb_connect b2 c) (bb_connect b1 c).
  Proof.
    intros (H1 & H2 & H3 & H4). unfold bb_connect. rewrite (F2_len _ _ H2), H3.
    destruct (zlen (bb_q b1) =? bb_ql b1); [split; [|split; [|split]]; auto|].
    destruct (connect_loop_rel (bb_ql b1) c _ _ _ _ H1 H2) as [Aq Bq].
    destruct (bb_connect_loop (bb_ql b1) c (bb_q b2) (bb_buf b2)) as [q2' buf2'].
    destruct (bb_connect_loop (bb_ql b1) c (bb_q b1) (bb_buf b1)) as [q1' buf1'].
    cbn [fst snd] in Aq, Bq. split; [|split; [|split]]; cbn [bb_buf bb_q bb_ql bb_bl]; auto.
  Qed.
End Bus.

(* instr_Run / MemoryRead only look at the register-read function pointwise *)
Lemma instr_Run_ext i f g labels pc mem sq : (forall r, f r = g r) -> instr_Run i f labels pc mem sq = instr_Run i g labels pc mem sq.
Proof.
  intros H. destruct i; cbv beta iota zeta delta [instr_Run]; autounfold with opcodes; cbv beta zeta; rewrite ?H; reflexivity.
Qed.

Lemma instr_MemoryRead_ext i f g sq : (forall r, f r = g r) -> instr_MemoryRead i f sq = instr_MemoryRead i g sq.
Proof. intros H. rewrite !memory_read_exact. destruct (sinstr_of i); cbn [load_addrs]; rewrite ?H; reflexivity. Qed.

(* a register-only instruction changes no memory *)
Lemma nomem_nochange i rr labels pc mem sq exe : nomem i = true -> instr_Run i rr labels pc mem sq = Ok exe -> MemoryChange exe = false.
Proof.
  intros Hn E. destruct i; try discriminate Hn; cbv beta iota zeta delta [instr_Run] in E; autounfold with opcodes in E; cbv beta zeta in E;
    repeat match type of E with
           | context [IsRegisterChange ?a ?b] => destruct (IsRegisterChange a b)
           | context [if ?c then _ else _] => destruct c
           | context [match ?x with _ => _ end] => destruct x
           end; try discriminate E; injection E as <-; reflexivity.
Qed.
