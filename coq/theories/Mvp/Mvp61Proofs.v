(* Simple facts about the cycle-level model of MVP-6.1 (Mvp61.v).
   1. mvp61_cycles: a run that returns reports at least one cycle OR exactly 0 cycles.
      0 is what Run returns (`return 0, nil`) when an instruction raises an error inside
      the flush loop ("Executing previous unit cycles"): mvp61_zero_cycles_witness is a
      concrete program on which the model (as the Go code) answers "ok, 0 cycles" with
      three execute units and "division by zero" with two.  (The statement
      `MDone c -> 1 <= c`, true of MVP-6.0 - mvp60_cycles_pos -, is false of MVP-6.1.)
   2. run1_ord_irrelevant: soundness of the ghost flag - a run that ends with the flag
      clear returns the same result for all iteration orders of the stores'
      MemoryChanges maps AND all choices among the matching runners of the map
      pushedRunnersInPreviousCycle (the Go side is deterministic on it).
   3. cu_dispatch_bound1: the control unit never fills the execute bus beyond its buffer
      length, and the number of runners it dispatches in a cycle (the size of
      pushedRunnersInCurrentCycle) is the growth of that buffer: at most busSize = 2
      per cycle whatever the number of execute units. *)
From Coq Require Import ZArith List Bool Lia.
From Maj Require Import Base.Outcome Base.GoInt Base.GoTypes Isa.Spec Isa.Seq.
From Maj Require Import Gen.Latency Gen.RiscTables Gen.Opcodes Comp.Cache Mvp.Mvp12 Mvp.Mvp3 Mvp.Mvp5 Mvp.Mvp60 Mvp.Mvp60Proofs Mvp.Mvp61.
Import ListNotations.
Open Scope Z_scope.

(* ------------------------------------------------------------------ *)
(* 1. cycles                                                            *)
(* ------------------------------------------------------------------ *)

Lemma res_of1_inv : forall A os (o : outcome A) k r,
  res_of1 os o k = r ->
  (exists x, o = Ok x /\ k x = r) \/ (exists e, o = Err e /\ r = TDone (MErr e) os) \/ (o = Panic /\ r = TDone MPanic os).
Proof. intros A os o k r H. destruct o; simpl in H; eauto. Qed.

Ltac res_step1 H x :=
  apply res_of1_inv in H;
  destruct H as [[x [? H]] | [[? [? H]] | [? H]]]; [ | discriminate H | discriminate H ].

Lemma ret_check1_done : forall s c st os, ret_check1 s = TDone (MDone c st) os -> t_cycle s <= c.
Proof.
  intros s c st os H. unfold ret_check1 in H.
  destruct (_ && _) in H; try discriminate. inversion H as [[HF HO]]. now apply finish6_ge in HF.
Qed.

Lemma ret_check1_cont : forall s s', ret_check1 s = TCont s' -> t_cycle s' = t_cycle s.
Proof.
  intros s s' H. unfold ret_check1 in H.
  destruct (_ && _) in H; try discriminate. inversion H; reflexivity.
Qed.

Lemma flush_advance1_res : forall s k ie from seq pc,
  exists s', flush_advance1 s k ie from seq pc = TCont s' /\ t_cycle s <= t_cycle s'.
Proof.
  intros. unfold flush_advance1.
  destruct (flush_next _ _ _); [|destruct ie]; eexists; split; try reflexivity; simpl; unfold Flush; lia.
Qed.

Lemma back1_done : forall s cycle os m eus o c st os',
  back1 s cycle os m eus o = TDone (MDone c st) os' -> cycle <= c.
Proof.
  intros s cycle os m eus o c st os' H. unfold back1 in H.
  res_step1 H r. destruct r as [b wus1].
  destruct (o_ret o).
  - apply ret_check1_done in H. simpl in H. lia.
  - destruct (o_flush o); try discriminate.
    destruct (is_empty1 _ _ _); try discriminate.
    inversion H as [[HF HO]]. now apply finish6_ge in HF.
Qed.

Lemma back1_cont : forall s cycle os m eus o s',
  back1 s cycle os m eus o = TCont s' -> cycle <= t_cycle s'.
Proof.
  intros s cycle os m eus o s' H. unfold back1 in H.
  res_step1 H r. destruct r as [b wus1].
  destruct (o_ret o).
  - apply ret_check1_cont in H. simpl in H. lia.
  - destruct (o_flush o).
    + inversion H; subst; simpl; lia.
    + destruct (is_empty1 _ _ _); try discriminate. inversion H; subst; simpl; lia.
Qed.

(* a step that ends Run reports more cycles than the machine had counted *)
Lemma step1_done : forall app labels ord pord s c st os,
  step1 app labels ord pord s = TDone (MDone c st) os -> t_cycle s + 1 <= c.
Proof.
  intros app labels ord pord s c st os H. unfold step1 in H.
  destruct (t_mode s) eqn:Em.
  - res_step1 H r. destruct r as [os0 m1].
    destruct (eus_main _ _ _ _ _ _) as [os1 re]. destruct re; try discriminate.
    apply back1_done in H. lia.
  - destruct (eus_drain _ _ _ _ _) as [os1 re]. destruct re; try discriminate.
    res_step1 H r. destruct r as [b wus1]. apply ret_check1_done in H. simpl in H. lia.
  - destruct (eus_flush _ _ _ _ _ _) as [os1 re]. destruct re.
    + match type of H with flush_advance1 ?a ?b ?c ?d ?e ?f = _ =>
        destruct (flush_advance1_res a b c d e f) as [s' [E _]]; rewrite E in H; discriminate end.
    + discriminate.
    + discriminate.
  - destruct (nth_error (t_wus s) k); try discriminate.
    res_step1 H x.
    match type of H with flush_advance1 ?a ?b ?c ?d ?e ?f = _ =>
      destruct (flush_advance1_res a b c d e f) as [s' [E _]]; rewrite E in H; discriminate end.
Qed.

Lemma step1_cont : forall app labels ord pord s s',
  step1 app labels ord pord s = TCont s' -> t_cycle s <= t_cycle s'.
Proof.
  intros app labels ord pord s s' H. unfold step1 in H.
  destruct (t_mode s) eqn:Em.
  - res_step1 H r. destruct r as [os0 m1].
    destruct (eus_main _ _ _ _ _ _) as [os1 re]. destruct re; try discriminate.
    apply back1_cont in H. lia.
  - destruct (eus_drain _ _ _ _ _) as [os1 re]. destruct re; try discriminate.
    res_step1 H r. destruct r as [b wus1]. apply ret_check1_cont in H. simpl in H. lia.
  - destruct (eus_flush _ _ _ _ _ _) as [os1 re]. destruct re; try discriminate.
    match type of H with flush_advance1 ?a ?b ?c ?d ?e ?f = _ =>
      destruct (flush_advance1_res a b c d e f) as [s2 [E L]]; rewrite E in H; inversion H; subst; simpl in L; lia end.
  - destruct (nth_error (t_wus s) k); try discriminate.
    res_step1 H x.
    match type of H with flush_advance1 ?a ?b ?c ?d ?e ?f = _ =>
      destruct (flush_advance1_res a b c d e f) as [s2 [E L]]; rewrite E in H; inversion H; subst; simpl in L; lia end.
Qed.

Lemma run1_st_cycles : forall fuel app labels ord pord s c st os,
  run1_st fuel app labels ord pord s = inl (MDone c st, os) -> t_cycle s + 1 <= c.
Proof.
  induction fuel as [|f IH]; intros app labels ord pord s c st os H; simpl in H; try discriminate.
  destruct (step1 app labels ord pord s) as [r os'|s'] eqn:E.
  - inversion H; subst. now apply step1_done in E.
  - apply step1_cont in E. apply IH in H. lia.
Qed.

Theorem mvp61_cycles : forall par ord pord fuel app labels st c st',
  mvp61_run par ord pord fuel app labels st = MDone c st' -> 1 <= c.
Proof.
  intros par ord pord fuel app labels st c st' H. unfold mvp61_run in H.
  destruct (mvp61_run_os par ord pord fuel app labels st) as [r os] eqn:E. simpl in H. subst r.
  unfold mvp61_run_os, init1, init6 in E.
  destruct (new_cache l1LineSize l1Size); try discriminate.
  destruct (new_cache l3LineSize l3Size); try discriminate.
  destruct (run1_st _ _ _ _ _ _) as [r|s'] eqn:E2; try discriminate.
  subst r. apply run1_st_cycles in E2. simpl in E2. lia.
Qed.

(* cycles = 0 does happen.  a0 = 64:
       lw   t2, 0(a0)      # misses L3: 309 cycles in execute unit 0
       div  t3, t2, zero   # forwarded t2 from the lw: waits for it in execute unit 1
       beqz zero, L1       # taken -> flush request while lw and div are still in their units
       li   t4, 5
   L1: li   t5, 6
       ret
   with three execute units: the flush branch of Run first completes the older instructions; the div then
   raises "division by zero" INSIDE that loop, where the code says `return 0, nil`: Run reports success with
   0 cycles, and the registers hold nothing of the program (here: unchanged).  With one or two units the
   same program ends with the error (the branch is dispatched only after the div). *)
Definition zero_cycles_app : list instr :=
  [I_lw (mk_lw 7 0 10); I_div (mk_div 28 7 0); I_beqz (mk_beqz 0 1); I_li (mk_li 29 5); I_li (mk_li 30 6); I_ret mk_ret].
Definition zero_cycles_labels (l : Z) : option Z := if l =? 1 then Some 16 else None.
Definition zero_cycles_arch : arch := mk_arch (Seq.upd (repeat 0 32) 10 64) (repeat 0 128).

Example mvp61_zero_cycles_witness :
  mvp61_run_os 3 (ord_policy 0) (pord_policy 0) 2000 zero_cycles_app zero_cycles_labels zero_cycles_arch
  = (MErr EDivZero, false)
  /\ mvp61_run_os 2 (ord_policy 0) (pord_policy 0) 2000 zero_cycles_app zero_cycles_labels zero_cycles_arch
     = (MErr EDivZero, false).
Proof. split; vm_compute; reflexivity. Qed.

(* ------------------------------------------------------------------ *)
(* 2. the ghost flag is sound: a run that ends with the flag clear is   *)
(*    the same for every iteration order of the stores' maps and every  *)
(*    choice among the matching runners of pushedRunnersInPreviousCycle *)
(* ------------------------------------------------------------------ *)

Lemma should_forward_ord : forall pord1 pord2 cycle prev hz reads,
  fst (should_forward pord1 cycle prev hz reads) = false ->
  should_forward pord1 cycle prev hz reads = should_forward pord2 cycle prev hz reads.
Proof.
  intros pord1 pord2 cycle prev hz reads H. unfold should_forward in *.
  destruct hz as [|[t r] [|h2 hz]]; try reflexivity.
  destruct (negb (t =? HRaw)); [reflexivity|].
  set (cands := flat_map _ prev) in *.
  destruct (zlen cands =? 0) eqn:E0; [reflexivity|].
  cbn [fst] in H. apply Z.ltb_ge in H. apply Z.eqb_neq in E0.
  pose proof (zlen_nonneg _ cands) as Hn.
  assert (zlen cands = 1) as E1 by lia. rewrite E1. rewrite !Z.mod_1_r. reflexivity.
Qed.

(* the ghost component of what handleRunner returns *)
Definition hr_os (x : bool * bool * bool * runner1 * runner1 * mach1) : bool :=
  let '(os, _, _, _, _, _) := x in os.

Lemma handle_runner1_ord : forall pord1 pord2 m cycle pb skipped r,
  hr_os (handle_runner1 pord1 m cycle pb skipped r) = false ->
  handle_runner1 pord1 m cycle pb skipped r = handle_runner1 pord2 m cycle pb skipped r.
Proof.
  intros pord1 pord2 m cycle pb skipped r H. unfold handle_runner1 in *.
  destruct (_ && pb); [reflexivity|].
  destruct (_ && _); [reflexivity|].
  destruct (skipped_hazard _ _ _); [reflexivity|].
  destruct (hazards3 _ _ _) as [|h hz] eqn:Eh; [reflexivity|].
  destruct (should_forward pord1 cycle (x_prev (y_x m)) (h :: hz) _) as [os sf] eqn:E.
  assert (os = false) as Hos.
  { destruct sf as [[p reg]|]; [|exact H].
    destruct (push_runner1 _ _ _) as [[pushed obj] m2]. destruct pushed; exact H. }
  subst os.
  rewrite <- (should_forward_ord pord1 pord2) by (rewrite E; reflexivity). rewrite E. reflexivity.
Qed.

Definition cp_os (x : bool * bool * list runner1 * bool * list runner1 * list runner1 * mach1) : bool :=
  let '(os, _, _, _, _, _, _) := x in os.

Lemma cu_pending1_ord : forall pord1 pord2 ps kept m cycle pb skipped cur,
  cp_os (cu_pending1 pord1 ps kept m cycle pb skipped cur) = false ->
  cu_pending1 pord1 ps kept m cycle pb skipped cur = cu_pending1 pord2 ps kept m cycle pb skipped cur.
Proof.
  intros pord1 pord2 ps. induction ps as [|r t IH]; intros kept m cycle pb skipped cur H; [reflexivity|].
  cbn [cu_pending1] in *.
  destruct (handle_runner1 pord1 m cycle pb skipped r) as [[[[[os push] stop] r'] obj] m1] eqn:E.
  assert (os = false) as Hos.
  { destruct (after_push m1 pb push r') as [pb' m2]. destruct stop; [exact H|].
    destruct (cu_pending1 pord1 t _ _ _ _ _ _) as [[[[[[os2 st] q] pb2] sk2] cur2] m3].
    cbn [cp_os] in H. apply orb_false_iff in H. tauto. }
  subst os.
  rewrite <- (handle_runner1_ord pord1 pord2) by (rewrite E; reflexivity). rewrite E.
  destruct (after_push m1 pb push r') as [pb' m2] eqn:EA.
  destruct stop; [reflexivity|].
  match goal with |- context [cu_pending1 pord1 t ?a ?b ?c ?d ?e ?f] =>
    destruct (cu_pending1 pord1 t a b c d e f) as [[[[[[os2 st] q] pb2] sk2] cur2] m3] eqn:E2;
    rewrite <- (IH a b c d e f) by (rewrite E2; cbn [cp_os] in *; now apply orb_false_iff in H);
    rewrite E2 end.
  reflexivity.
Qed.

Definition ci_os (x : bool * list runner1 * list runner1 * list runner1 * mach1) : bool :=
  let '(os, _, _, _, _) := x in os.

Lemma cu_incoming1_ord : forall pord1 pord2 q pend m cycle pb skipped cur,
  ci_os (cu_incoming1 pord1 q pend m cycle pb skipped cur) = false ->
  cu_incoming1 pord1 q pend m cycle pb skipped cur = cu_incoming1 pord2 q pend m cycle pb skipped cur.
Proof.
  intros pord1 pord2 q. induction q as [|r q' IH]; intros pend m cycle pb skipped cur H.
  - cbn [cu_incoming1]. destruct (pendingLength <=? zlen pend); reflexivity.
  - cbn [cu_incoming1] in *. destruct (pendingLength <=? zlen pend); [reflexivity|].
    destruct (handle_runner1 pord1 m cycle pb skipped r) as [[[[[os push] stop] r'] obj] m1] eqn:E.
    assert (os = false) as Hos.
    { destruct (after_push m1 pb push r') as [pb' m2]. destruct stop; [exact H|].
      destruct (cu_incoming1 pord1 q' _ _ _ _ _ _) as [[[[os2 q2] pend2] cur2] m3].
      cbn [ci_os] in H. apply orb_false_iff in H. tauto. }
    subst os.
    rewrite <- (handle_runner1_ord pord1 pord2) by (rewrite E; reflexivity). rewrite E.
    destruct (after_push m1 pb push r') as [pb' m2] eqn:EA.
    destruct stop; [reflexivity|].
    match goal with |- context [cu_incoming1 pord1 q' ?a ?b ?c ?d ?e ?f] =>
      destruct (cu_incoming1 pord1 q' a b c d e f) as [[[[os2 q2] pend2] cur2] m3] eqn:E2;
      rewrite <- (IH a b c d e f) by (rewrite E2; cbn [ci_os] in *; now apply orb_false_iff in H);
      rewrite E2 end.
    reflexivity.
Qed.

Lemma cu_cycle1_ord : forall pord1 pord2 cycle m,
  fst (cu_cycle1 pord1 cycle m) = false -> cu_cycle1 pord1 cycle m = cu_cycle1 pord2 cycle m.
Proof.
  intros pord1 pord2 cycle m H. unfold cu_cycle1 in *.
  destruct (negb (bb_canadd _)); [reflexivity|].
  destruct (cu_pending1 pord1 (x_cu (y_x m)) [] m cycle false [] []) as [[[[[[os1 stopped] pend1] pb1] sk1] cur1] m1] eqn:E1.
  assert (os1 = false) as Hos.
  { destruct stopped; [exact H|].
    destruct (cu_incoming1 pord1 _ _ _ _ _ _ _) as [[[[os2 q'] pend2] cur2] m2].
    cbn [fst] in H. apply orb_false_iff in H. tauto. }
  subst os1.
  rewrite <- (cu_pending1_ord pord1 pord2) by (rewrite E1; reflexivity). rewrite E1.
  destruct stopped; [reflexivity|].
  destruct (cu_incoming1 pord1 (bb_q (x_cbus (y_x m1))) pend1 m1 cycle pb1 sk1 cur1) as [[[[os2 q'] pend2] cur2] m2] eqn:E2.
  cbn [fst] in H. rewrite orb_false_l in H. subst os2.
  rewrite <- (cu_incoming1_ord pord1 pord2) by (rewrite E2; reflexivity). rewrite E2. reflexivity.
Qed.

(* the ghost component of what the first half of an iteration returns *)
Definition front_os (o : outcome (bool * mach1)) : bool := match o with Ok (os, _) => os | _ => false end.

Lemma front1_ord : forall app pord1 pord2 cycle m,
  front_os (front1 app pord1 cycle m) = false -> front1 app pord1 cycle m = front1 app pord2 cycle m.
Proof.
  intros app pord1 pord2 cycle m H. unfold front1 in *.
  destruct (fu_cycle6 _ _ _ _ _) as [[[fu1 l1i1] dbus1]| |]; try reflexivity.
  cbn [bind] in *.
  destruct (du_cycle1 _ _ _) as [m1| |]; try reflexivity.
  cbn [bind] in *. f_equal.
  apply cu_cycle1_ord. destruct (cu_cycle1 pord1 cycle m1). exact H.
Qed.

Lemma eu_run1_ord : forall labels ord1 ord2 cycle m e,
  ord_ok ord1 -> ord_ok ord2 -> fst (eu_run1 labels ord1 cycle m e) = false ->
  eu_run1 labels ord1 cycle m e = eu_run1 labels ord2 cycle m e.
Proof.
  intros labels ord1 ord2 cycle m e O1 O2 H. unfold eu_run1 in *.
  destruct (e_runner (u_e e)) as [r|]; [|reflexivity].
  destruct (instr_Run _ _ _ _ _ _) as [exe| |]; try reflexivity.
  destruct (Return exe); [reflexivity|].
  cbn [fst] in H. f_equal.
  destruct (MemoryChange exe); [|reflexivity].
  rewrite andb_true_l in H.
  f_equal.
  apply l3_same_bind with (r0 := get_from_l3 (m_l3 (y_m m)) (m_pend (y_m m)) (map fst (sort_changes (MemoryChanges exe))) []).
  - apply som_false; auto.
  - apply som_false; auto.
  - intros; reflexivity.
Qed.

Lemma eu_prepare1_ord : forall labels ord1 ord2 cycle m e,
  ord_ok ord1 -> ord_ok ord2 -> fst (eu_prepare1 labels ord1 cycle m e) = false ->
  eu_prepare1 labels ord1 cycle m e = eu_prepare1 labels ord2 cycle m e.
Proof.
  intros labels ord1 ord2 cycle m e O1 O2 H. unfold eu_prepare1 in *.
  destruct (negb (bb_canadd _)); [reflexivity|].
  destruct (e_runner (u_e e)) as [r|]; [|reflexivity].
  destruct (match u_rc e with Some _ => _ | None => _ end) as [[m0 e0]|]; [|reflexivity].
  destruct (instr_MemoryRead _ _ _); [|reflexivity].
  now apply eu_run1_ord.
Qed.

Lemma eu_cycle1_ord : forall labels ord1 ord2 cycle m e,
  ord_ok ord1 -> ord_ok ord2 -> fst (eu_cycle1 labels ord1 cycle m e) = false ->
  eu_cycle1 labels ord1 cycle m e = eu_cycle1 labels ord2 cycle m e.
Proof.
  intros labels ord1 ord2 cycle m e O1 O2 H. unfold eu_cycle1 in *.
  destruct (eu_pre1 e); [reflexivity|].
  destruct (e_co (u_e e)).
  - destruct (bb_get _) as [ebus' [r|]]; [|reflexivity]. now apply eu_prepare1_ord.
  - now apply eu_prepare1_ord.
  - destruct (0 <? rem); [reflexivity|]. now apply eu_run1_ord.
  - destruct (0 <? rem); [reflexivity|].
    destruct (eu_fill1 m e addrs) as [[m1 e1]| |]; try reflexivity. now apply eu_run1_ord.
Qed.

Lemma eus_main_ord : forall labels ord1 ord2 cycle eus m acc,
  ord_ok ord1 -> ord_ok ord2 -> fst (eus_main labels ord1 cycle m eus acc) = false ->
  eus_main labels ord1 cycle m eus acc = eus_main labels ord2 cycle m eus acc.
Proof.
  intros labels ord1 ord2 cycle eus. induction eus as [|e t IH]; intros m acc O1 O2 H; [reflexivity|].
  cbn [eus_main] in *.
  destruct (eu_cycle1 labels ord1 cycle m (eu_sid_set e (o_from acc))) as [os1 r1] eqn:E1.
  assert (os1 = false) as Hos1.
  { destruct r1 as [[[m1 e1] p]| |]; try exact H.
    destruct (p_err p); [exact H|].
    destruct (eus_main labels ord1 cycle m1 t _) as [os2 r]. cbn [fst] in H.
    apply orb_false_iff in H. tauto. }
  subst os1.
  rewrite <- (eu_cycle1_ord labels ord1 ord2) by (auto; rewrite E1; reflexivity). rewrite E1.
  destruct r1 as [[[m1 e1] p]| |]; try reflexivity.
  destruct (p_err p); [reflexivity|].
  match goal with |- context [eus_main labels ord1 cycle m1 t ?a] =>
    destruct (eus_main labels ord1 cycle m1 t a) as [os2 r] eqn:E2;
    cbn [fst] in H; rewrite orb_false_l in H; subst os2;
    rewrite <- (IH m1 a O1 O2) by (rewrite E2; reflexivity); rewrite E2 end.
  reflexivity.
Qed.

Lemma eus_drain_ord : forall labels ord1 ord2 cycle eus m,
  ord_ok ord1 -> ord_ok ord2 -> fst (eus_drain labels ord1 cycle m eus) = false ->
  eus_drain labels ord1 cycle m eus = eus_drain labels ord2 cycle m eus.
Proof.
  intros labels ord1 ord2 cycle eus. induction eus as [|e t IH]; intros m O1 O2 H; [reflexivity|].
  cbn [eus_drain] in *. destruct (eu_empty1 e).
  - destruct (eus_drain labels ord1 cycle m t) as [os r] eqn:E1.
    cbn [fst] in H. subst os.
    rewrite <- (IH m O1 O2) by (rewrite E1; reflexivity). rewrite E1. reflexivity.
  - destruct (eu_cycle1 labels ord1 cycle m e) as [os1 r1] eqn:E1.
    assert (os1 = false) as Hos1.
    { destruct r1 as [[[m1 e1] p]| |]; try exact H.
      destruct (p_err p); [exact H|].
      destruct (eus_drain labels ord1 cycle m1 t) as [os2 r]. cbn [fst] in H.
      apply orb_false_iff in H. tauto. }
    subst os1.
    rewrite <- (eu_cycle1_ord labels ord1 ord2) by (auto; rewrite E1; reflexivity). rewrite E1.
    destruct r1 as [[[m1 e1] p]| |]; try reflexivity.
    destruct (p_err p); [reflexivity|].
    destruct (eus_drain labels ord1 cycle m1 t) as [os2 r] eqn:E2.
    cbn [fst] in H. rewrite orb_false_l in H. subst os2.
    rewrite <- (IH m1 O1 O2) by (rewrite E2; reflexivity). rewrite E2. reflexivity.
Qed.

Lemma eus_flush_ord : forall labels ord1 ord2 cycle eus m acc,
  ord_ok ord1 -> ord_ok ord2 -> fst (eus_flush labels ord1 cycle m eus acc) = false ->
  eus_flush labels ord1 cycle m eus acc = eus_flush labels ord2 cycle m eus acc.
Proof.
  intros labels ord1 ord2 cycle eus. induction eus as [|e t IH]; intros m acc O1 O2 H; [reflexivity|].
  cbn [eus_flush] in *. destruct (eu_empty1 e).
  - destruct (eus_flush labels ord1 cycle m t acc) as [os r] eqn:E1.
    cbn [fst] in H. subst os.
    rewrite <- (IH m acc O1 O2) by (rewrite E1; reflexivity). rewrite E1. reflexivity.
  - destruct (eu_cycle1 labels ord1 cycle m e) as [os1 r1] eqn:E1.
    assert (os1 = false) as Hos1.
    { destruct r1 as [[[m1 e1] p]| |]; try exact H.
      destruct (p_err p); [exact H|].
      destruct (eus_flush labels ord1 cycle m1 t _) as [os2 r]. cbn [fst] in H.
      apply orb_false_iff in H. tauto. }
    subst os1.
    rewrite <- (eu_cycle1_ord labels ord1 ord2) by (auto; rewrite E1; reflexivity). rewrite E1.
    destruct r1 as [[[m1 e1] p]| |]; try reflexivity.
    destruct (p_err p); [reflexivity|].
    match goal with |- context [eus_flush labels ord1 cycle m1 t ?a] =>
      destruct (eus_flush labels ord1 cycle m1 t a) as [os2 r] eqn:E2;
      cbn [fst] in H; rewrite orb_false_l in H; subst os2;
      rewrite <- (IH m1 a O1 O2) by (rewrite E2; reflexivity); rewrite E2 end.
    reflexivity.
Qed.

(* the flag a step ends with *)
Definition res_os1 (r : step_res1) : bool := match r with TDone _ os => os | TCont s' => t_os s' end.

Lemma res_of1_os : forall A os (o : outcome A) k,
  (forall x, res_os1 (k x) = os) -> res_os1 (res_of1 os o k) = os.
Proof. intros A os o k H. destruct o; simpl; auto. Qed.

Lemma ret_check1_os : forall s, res_os1 (ret_check1 s) = t_os s.
Proof. intros s. unfold ret_check1. destruct (_ && _); reflexivity. Qed.

Lemma flush_advance1_os : forall s k ie from seq pc, res_os1 (flush_advance1 s k ie from seq pc) = t_os s.
Proof. intros. unfold flush_advance1. destruct (flush_next _ _ _); [|destruct ie]; reflexivity. Qed.

Lemma back1_os : forall s cycle os m eus o, res_os1 (back1 s cycle os m eus o) = os.
Proof.
  intros s cycle os m eus o. unfold back1. apply res_of1_os. intros [b wus1].
  destruct (o_ret o); [apply ret_check1_os|].
  destruct (o_flush o); [reflexivity|].
  destruct (is_empty1 _ _ _); reflexivity.
Qed.

Lemma step1_ord : forall app labels ord1 ord2 pord1 pord2 s,
  ord_ok ord1 -> ord_ok ord2 -> res_os1 (step1 app labels ord1 pord1 s) = false ->
  step1 app labels ord1 pord1 s = step1 app labels ord2 pord2 s /\ t_os s = false.
Proof.
  intros app labels ord1 ord2 pord1 pord2 s O1 O2 H. unfold step1 in *.
  destruct (t_mode s).
  - destruct (front1 app pord1 (t_cycle s + 1) (t_m s)) as [[os0 m1]| |] eqn:EF; cbn [res_of1] in H.
    + destruct (eus_main labels ord1 (t_cycle s + 1) m1 (t_eus s) euo_none) as [os1 re] eqn:E1.
      assert (t_os s || os0 || os1 = false) as Hor.
      { destruct re; [rewrite back1_os in H|..]; exact H. }
      apply orb_false_iff in Hor. destruct Hor as [Hor Ho1]. apply orb_false_iff in Hor. destruct Hor as [Hs Ho0].
      subst os0 os1.
      rewrite <- (front1_ord app pord1 pord2) by (rewrite EF; reflexivity). rewrite EF. cbn [res_of1].
      rewrite <- (eus_main_ord labels ord1 ord2) by (auto; rewrite E1; reflexivity). rewrite E1. auto.
    + rewrite <- (front1_ord app pord1 pord2) by (rewrite EF; reflexivity). rewrite EF. auto.
    + rewrite <- (front1_ord app pord1 pord2) by (rewrite EF; reflexivity). rewrite EF. auto.
  - destruct (eus_drain labels ord1 (t_cycle s) (t_m s) (t_eus s)) as [os1 re] eqn:E1.
    assert (t_os s || os1 = false) as Hor.
    { destruct re; [|exact H|exact H].
      rewrite res_of1_os in H; [exact H|]. intros [b wus1]. apply ret_check1_os. }
    apply orb_false_iff in Hor. destruct Hor as [Hs Ho1]. subst os1.
    rewrite <- (eus_drain_ord labels ord1 ord2) by (auto; rewrite E1; reflexivity). rewrite E1. auto.
  - destruct (eus_flush labels ord1 fromCycle (t_m s) (t_eus s) _) as [os1 re] eqn:E1.
    assert (t_os s || os1 = false) as Hor.
    { destruct re; [rewrite flush_advance1_os in H|..]; exact H. }
    apply orb_false_iff in Hor. destruct Hor as [Hs Ho1]. subst os1.
    rewrite <- (eus_flush_ord labels ord1 ord2) by (auto; rewrite E1; reflexivity). rewrite E1. auto.
  - split; [reflexivity|].
    destruct (nth_error (t_wus s) k); [|exact H].
    rewrite res_of1_os in H; auto. intros x. rewrite flush_advance1_os. reflexivity.
Qed.

(* the flag a run ends with *)
Definition final_os1 (r : (mres * bool) + st1) : bool :=
  match r with inl (_, os) => os | inr s' => t_os s' end.

Theorem run1_st_ord_irrelevant : forall fuel app labels ord1 ord2 pord1 pord2 s,
  ord_ok ord1 -> ord_ok ord2 -> final_os1 (run1_st fuel app labels ord1 pord1 s) = false ->
  run1_st fuel app labels ord1 pord1 s = run1_st fuel app labels ord2 pord2 s /\ t_os s = false.
Proof.
  induction fuel as [|f IH]; intros app labels ord1 ord2 pord1 pord2 s O1 O2 H; simpl in *; [auto|].
  destruct (step1 app labels ord1 pord1 s) as [r os|s'] eqn:E.
  - simpl in H. subst os.
    destruct (step1_ord app labels ord1 ord2 pord1 pord2 s O1 O2) as [E2 Hs]; [rewrite E; reflexivity|].
    rewrite <- E2, E. auto.
  - destruct (IH app labels ord1 ord2 pord1 pord2 s' O1 O2 H) as [R Hs'].
    destruct (step1_ord app labels ord1 ord2 pord1 pord2 s O1 O2) as [E2 Hs]; [rewrite E; exact Hs'|].
    rewrite <- E2, E. auto.
Qed.

(* a run of MVP-6.1 that ends with the ghost flag clear returns the same result whatever the iteration
   orders of the stores' MemoryChanges maps (ord) and of pushedRunnersInPreviousCycle (pord): the Go side
   is deterministic on it *)
Theorem run1_ord_irrelevant : forall par fuel app labels st ord1 ord2 pord1 pord2 r,
  ord_ok ord1 -> ord_ok ord2 ->
  mvp61_run_os par ord1 pord1 fuel app labels st = (r, false) ->
  mvp61_run_os par ord2 pord2 fuel app labels st = (r, false).
Proof.
  intros par fuel app labels st ord1 ord2 pord1 pord2 r O1 O2 H. unfold mvp61_run_os in *.
  destruct (init1 par app st) as [s| |]; auto.
  destruct (run1_st_ord_irrelevant fuel app labels ord1 ord2 pord1 pord2 s O1 O2) as [E _].
  - destruct (run1_st fuel app labels ord1 pord1 s) as [[r1 os1]|s1]; inversion H; reflexivity.
  - rewrite <- E. exact H.
Qed.

(* ------------------------------------------------------------------ *)
(* 3. dispatch width of the control unit                                *)
(* ------------------------------------------------------------------ *)

(* number of entries in the buffer of the execute bus / its bufferLength *)
Definition ebuf1 (m : mach1) : Z := zlen (bb_buf (x_ebus (y_x m))).
Definition ebl1 (m : mach1) : Z := bb_bl (x_ebus (y_x m)).

Lemma zlen_map : forall A B (f : A -> B) l, zlen (map f l) = zlen l.
Proof. intros. unfold zlen. now rewrite map_length. Qed.

Lemma push_runner1_spec : forall m cycle r pushed obj m',
  push_runner1 m cycle r = (pushed, obj, m') ->
  ebl1 m' = ebl1 m /\ ebuf1 m' = ebuf1 m + (if pushed then 1 else 0) /\ (pushed = true -> ebuf1 m <> ebl1 m).
Proof.
  intros m cycle r pushed obj m' H. unfold push_runner1 in H.
  destruct (negb (bb_canadd (x_ebus (y_x m)))) eqn:Ec; inversion H; subst.
  - repeat split; try lia; try discriminate.
  - unfold ebl1, ebuf1. cbn. rewrite zlen_app1. repeat split; try lia.
    intros _. apply negb_false_iff in Ec. unfold bb_canadd in Ec. apply negb_true_iff in Ec. now apply Z.eqb_neq in Ec.
Qed.

(* handleRunner: every refusal is a stop; a push adds exactly one entry to a buffer that had room *)
Lemma handle_runner1_spec : forall pord m cycle pb skipped r os push stop r' obj m',
  handle_runner1 pord m cycle pb skipped r = (os, push, stop, r', obj, m') ->
  ebl1 m' = ebl1 m /\ ebuf1 m' = ebuf1 m + (if push then 1 else 0) /\
  (push = true -> ebuf1 m <> ebl1 m) /\ (push = false -> stop = true).
Proof.
  intros pord m cycle pb skipped r os push stop r' obj m' H. unfold handle_runner1 in H.
  destruct (_ && pb) in H; [inversion H; subst; repeat split; try lia; discriminate|].
  destruct (_ && _) in H; [inversion H; subst; repeat split; try lia; discriminate|].
  destruct (skipped_hazard _ _ _) in H; [inversion H; subst; repeat split; try lia; discriminate|].
  destruct (hazards3 _ _ _) as [|h hz].
  - destruct (push_runner1 m cycle r) as [[pushed ob] m1] eqn:E. apply push_runner1_spec in E.
    destruct E as [E1 [E2 E3]].
    destruct pushed; inversion H; subst; repeat split; auto; discriminate.
  - destruct (should_forward _ _ _ _ _) as [os1 [[p reg]|]].
    + match type of H with context [push_runner1 ?mm ?c ?rr] =>
        destruct (push_runner1 mm c rr) as [[pushed ob] m2] eqn:E; apply push_runner1_spec in E;
        assert (ebl1 mm = ebl1 m /\ ebuf1 mm = ebuf1 m) as [F1 F2]
          by (unfold ebl1, ebuf1, set_forwarder; cbn; rewrite zlen_map; auto) end.
      destruct E as [E1 [E2 E3]]. rewrite F1, F2 in *.
      destruct pushed; inversion H; subst; repeat split; auto; discriminate.
    + inversion H; subst; repeat split; try lia; discriminate.
Qed.

Lemma after_push_ebus : forall m pb push r pb' m',
  after_push m pb push r = (pb', m') -> ebl1 m' = ebl1 m /\ ebuf1 m' = ebuf1 m.
Proof.
  intros m pb push r pb' m' H. unfold after_push in H. inversion H; subst.
  destruct (push && InstructionType_IsConditionalBranch _); split; reflexivity.
Qed.

Lemma cu_pending1_spec : forall pord ps kept m cycle pb skipped cur os stopped q pb' sk' cur' m',
  cu_pending1 pord ps kept m cycle pb skipped cur = (os, stopped, q, pb', sk', cur', m') ->
  ebuf1 m <= ebl1 m ->
  ebl1 m' = ebl1 m /\ ebuf1 m <= ebuf1 m' <= ebl1 m /\ zlen cur' - zlen cur = ebuf1 m' - ebuf1 m.
Proof.
  intros pord ps. induction ps as [|r t IH]; intros kept m cycle pb skipped cur os stopped q pb' sk' cur' m' H Hb.
  - cbn in H. inversion H; subst. repeat split; lia.
  - cbn [cu_pending1] in H.
    destruct (handle_runner1 pord m cycle pb skipped r) as [[[[[os1 push] stop] r'] obj] m1] eqn:E.
    apply handle_runner1_spec in E. destruct E as [E1 [E2 [E3 E4]]].
    destruct (after_push m1 pb push r') as [pb1 m2] eqn:EA. apply after_push_ebus in EA. destruct EA as [A1 A2].
    assert (ebuf1 m2 <= ebl1 m2) as Hb2 by (destruct push; [specialize (E3 eq_refl)|]; lia).
    destruct stop.
    + inversion H; subst. destruct push; rewrite ?zlen_app1; repeat split; try lia.
    + destruct push; [|specialize (E4 eq_refl); discriminate].
      match type of H with context [cu_pending1 pord t ?a ?b ?c ?d ?e ?f] =>
        destruct (cu_pending1 pord t a b c d e f) as [[[[[[os2 st] q2] pb2] sk2] cur2] m3] eqn:E5 end.
      inversion H; subst. apply IH in E5; auto. destruct E5 as [B1 [B2 B3]].
      rewrite zlen_app1 in B3. repeat split; lia.
Qed.

Lemma cu_incoming1_spec : forall pord q pend m cycle pb skipped cur os q' pend' cur' m',
  cu_incoming1 pord q pend m cycle pb skipped cur = (os, q', pend', cur', m') ->
  ebuf1 m <= ebl1 m ->
  ebl1 m' = ebl1 m /\ ebuf1 m <= ebuf1 m' <= ebl1 m /\ zlen cur' - zlen cur = ebuf1 m' - ebuf1 m.
Proof.
  intros pord q. induction q as [|r t IH]; intros pend m cycle pb skipped cur os q' pend' cur' m' H Hb.
  - cbn in H. destruct (pendingLength <=? zlen pend); inversion H; subst; repeat split; lia.
  - cbn [cu_incoming1] in H. destruct (pendingLength <=? zlen pend); [inversion H; subst; repeat split; lia|].
    destruct (handle_runner1 pord m cycle pb skipped r) as [[[[[os1 push] stop] r'] obj] m1] eqn:E.
    apply handle_runner1_spec in E. destruct E as [E1 [E2 [E3 E4]]].
    destruct (after_push m1 pb push r') as [pb1 m2] eqn:EA. apply after_push_ebus in EA. destruct EA as [A1 A2].
    assert (ebuf1 m2 <= ebl1 m2) as Hb2 by (destruct push; [specialize (E3 eq_refl)|]; lia).
    destruct stop.
    + inversion H; subst. destruct push; rewrite ?zlen_app1; repeat split; try lia.
    + destruct push; [|specialize (E4 eq_refl); discriminate].
      match type of H with context [cu_incoming1 pord t ?a ?b ?c ?d ?e ?f] =>
        destruct (cu_incoming1 pord t a b c d e f) as [[[[os2 q2] pend2] cur2] m3] eqn:E5 end.
      inversion H; subst. apply IH in E5; auto. destruct E5 as [B1 [B2 B3]].
      rewrite zlen_app1 in B3. repeat split; lia.
Qed.

(* controlUnit.cycle keeps the execute bus within its buffer length; the number of runners it dispatches
   (the size of the map pushedRunnersInCurrentCycle, which becomes pushedRunnersInPreviousCycle) is the
   growth of that buffer *)
Theorem cu_dispatch_bound1 : forall pord cycle m,
  ebuf1 m <= ebl1 m ->
  let m' := snd (cu_cycle1 pord cycle m) in
  ebl1 m' = ebl1 m /\ ebuf1 m <= ebuf1 m' <= ebl1 m /\ zlen (x_prev (y_x m')) = ebuf1 m' - ebuf1 m.
Proof.
  intros pord cycle m Hb. unfold cu_cycle1.
  destruct (negb (bb_canadd _)).
  { unfold ebl1, ebuf1 in *. cbn [snd y_x set_x xs_prev x_ebus x_prev]. change (zlen (@nil runner1)) with 0.
    repeat split; lia. }
  destruct (cu_pending1 pord (x_cu (y_x m)) [] m cycle false [] []) as [[[[[[os1 stopped] pend1] pb1] sk1] cur1] m1] eqn:E1.
  apply cu_pending1_spec in E1; auto. destruct E1 as [A1 [A2 A3]]. cbn in A3.
  destruct stopped.
  - cbn. unfold ebl1, ebuf1 in *. cbn. repeat split; lia.
  - destruct (cu_incoming1 pord _ pend1 m1 cycle pb1 sk1 cur1) as [[[[os2 q'] pend2] cur2] m2] eqn:E2.
    apply cu_incoming1_spec in E2; try lia. destruct E2 as [B1 [B2 B3]].
    cbn. unfold ebl1, ebuf1 in *. cbn. repeat split; lia.
Qed.

(* hence at most bufferLength instructions are dispatched per cycle: busSize = 2 in NewCPU, whatever the
   number of execute units *)
Corollary cu_dispatch_le_buslen1 : forall pord cycle m,
  ebuf1 m <= ebl1 m -> zlen (x_prev (y_x (snd (cu_cycle1 pord cycle m)))) <= ebl1 m.
Proof.
  intros pord cycle m Hb. destruct (cu_dispatch_bound1 pord cycle m Hb) as [_ [H1 H2]].
  pose proof (zlen_nonneg _ (bb_buf (x_ebus (y_x m)))). unfold ebuf1 in *. lia.
Qed.

Print Assumptions mvp61_cycles.
Print Assumptions mvp61_zero_cycles_witness.
Print Assumptions run1_ord_irrelevant.
Print Assumptions cu_dispatch_bound1.
