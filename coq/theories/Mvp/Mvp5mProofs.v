(* MVP-5 on programs WITH loads and stores, under the hypothesis that every store
   hits in the L1D (its line was loaded before and is still resident): the pipeline
   computes the sequential registers and memory, in a number of cycles that is a
   function of the program and of the events (pc, loaded addresses, stored
   addresses) of the sequential run.  See Mvp5Proofs.v for register-only programs
   and for the refutation of the statement without the hypothesis
   (mvp5_cold_store_then_load_refuted).  Hypotheses, events and fuel bound are those
   of MVP-4 (Mvp4mProofs.v). *)
From Coq Require Import ZArith List Bool Lia.
From Maj Require Import Base.Outcome Base.GoInt Base.GoTypes Isa.Spec Isa.Embed Isa.Seq Isa.Refine.
From Maj Require Import Gen.Latency Gen.RiscTables Gen.Opcodes Comp.Cache Comp.CacheSpec Comp.CacheProofs.
From Maj Require Import Mvp.Mvp12 Mvp.Mvp12Proofs Mvp.Mvp3 Mvp.Mvp3Proofs Mvp.Mvp4 Mvp.Mvp5
     Mvp.Mvp4Skel Mvp.Mvp4Inv Mvp.Mvp4Units Mvp.Mvp4Front Mvp.Mvp4Sim Mvp.Mvp4Proofs
     Mvp.Mvp4mSkel Mvp.Mvp4mInv Mvp.Mvp4mFront Mvp.Mvp4mSim Mvp.Mvp4mProofs
     Mvp.Mvp5Skel Mvp.Mvp5Inv Mvp.Mvp5Front Mvp.Mvp5Sim Mvp.Mvp5Proofs Mvp.Mvp5mSkel Mvp.Mvp5mFront Mvp.Mvp5mSim.
Import ListNotations.
Open Scope Z_scope.

Lemma skm5_run_more app : forall fuel k a path cyc c,
  skm5_run fuel app a path cyc = Some c -> skm5_run (fuel + k) app a path cyc = Some c.
Proof.
  induction fuel as [|f IH]; intros k a path cyc c H; [discriminate|]. cbn [skm5_run Nat.add] in *.
  destruct (skm5_cycle app a path) as [a' path' dc|dc dt|]; auto.
Qed.

(* an instruction that stores is not an unconditional jump *)
Lemma store_addrs_not_uncond i rr : store_addrs (sinstr_of i) rr <> [] -> uncond i = false.
Proof. destruct i; cbn [sinstr_of store_addrs]; intros H; try reflexivity; congruence. Qed.

Section Top5m.
  Variables (app : list instr) (labels : Z -> option Z).
  Hypothesis Happ : wf_app app.
  Hypothesis Hlab : wf_labels labels.
  Let sp := map sinstr_of app.

  Lemma ev_of_plain st pc : ev_sa (ev_of app st pc) <> [] ->
    forall i, nth_error app (Z.to_nat (ev_pc (ev_of app st pc) / 4)) = Some i -> uncond i = false.
  Proof.
    cbn [ev_pc ev_of fst]. intros Hs i Hi. rewrite (ev_of_at app st pc i Hi) in Hs. cbn [ev_sa snd] in Hs.
    eapply store_addrs_not_uncond. exact Hs.
  Qed.

  Lemma sexecm_stores_plain st path stf : sexecm app labels st path stf -> stores_plain app path.
  Proof.
    induction 1 as [st pc st' Hs | st pc st' pc' rest stf Hs Hsl1 Hsl2 HS IH].
    - constructor; [apply ev_of_plain | constructor].
    - constructor; [apply ev_of_plain | exact IH].
  Qed.

  Lemma init_fm5 c0 hev : IInv c0 -> ev_pc hev = 0 -> FM5 app hev (skm5_init c0).
  Proof.
    intros HI H0. constructor; cbn [skm5_init n_fu n_du n_l1i n_dbus n_ebus n_eu n_pw n_wb n_dt n_btb eu_pending_read];
      try discriminate.
    - rewrite H0. unfold rview. cbn [skm5_init n_fu n_du n_l1i n_dbus n_ebus n_eu n_pw n_wb n_dt n_btb].
      apply F5_build; auto; try discriminate; try lia.
      + cbn [q_eu eu_processing q_sb sbus_empty sb_current sb_pending olist List.app].
        apply mid_fresh; auto; lia.
      + constructor.
    - unfold eu_ok. cbn [eu_processing eu_pending_read eu_memory]. repeat split; discriminate.
  Qed.

  Theorem mvp5_run_events fuel st st' tr :
    inv (regs st) (mem st) -> (length (regs st) <= 32)%nat -> mem_small st ->
    accesses_ok fuel sp labels st 0 ->
    seq_run fuel sp labels st = Done st' tr ->
    evs_below (seq_evs fuel sp labels st 0) = true ->
    stores_hit [] (seq_evs fuel sp labels st 0) = true ->
    exists c, (forall fuel', (fuel_bound_m (length tr) <= fuel')%nat ->
                 mvp5_run fuel' app labels st = MDone c st' /\
                 mvp5_cost_mem fuel' app (seq_evs fuel sp labels st 0) = Some c) /\
              Z.of_nat (length tr) <= c <= 2 * Z.of_nat (fuel_bound_m (length tr)) + MemoryAccess * 16.
  Proof.
    intros [Hri Hm8] Hlen Hsm Hacc Hrun Hb Hsh. unfold seq_run in Hrun.
    destruct (run_sexecm app labels fuel st 0 [] st' tr Hrun Hacc) as (rest & Hp & HS & Hl & Hcnt).
    fold sp in Hp. rewrite Hp in *. pose proof (sexecm_evs_wf app labels _ _ _ HS Hb) as Hwf.
    pose proof (sexecm_stores_plain _ _ _ HS) as Hsp.
    destruct init_caches as (c0 & E0 & HI0 & HD0 & Hl0).
    pose proof (init_fm5 c0 (ev_of app st 0) HI0 eq_refl) as HF0.
    assert (Hsh0 : sh_inv5 (skm5_init c0) (ev_of app st 0 :: rest)).
    { cbn [sh_inv5]. unfold dtal. cbn [skm5_init n_eu n_dt eu_pending_read].
      cbn [stores_hit] in Hsh. apply andb_prop in Hsh. exact Hsh. }
    cbn [length] in Hl, Hcnt.
    set (m := (Z.to_nat (phim5 (skm5_init c0)) + length rest * Kstepm)%nat).
    pose proof (phim5_bounds app _ _ HF0) as Hphi.
    assert (Hm : (m < fuel_bound_m (length tr))%nat).
    { unfold m, fuel_bound_m, Kstepm in *.
      assert ((length rest * S (Z.to_nat phim_max) <= length tr * S (Z.to_nat phim_max))%nat) by (apply Nat.mul_le_mono_r; lia).
      lia. }
    destruct (skm5_run_term app Happ m rest (skm5_init c0) _ 0 (fuel_bound_m (length tr)) HF0 Hwf Hsp Hsh0 ltac:(lia) Hm) as (c & Hc & Hcb).
    exists c. split; [|lia].
    intros fuel' Hf'. replace fuel' with (fuel_bound_m (length tr) + (fuel' - fuel_bound_m (length tr)))%nat by lia.
    pose proof (skm5_run_more app _ (fuel' - fuel_bound_m (length tr)) _ _ _ _ Hc) as Hc'.
    split.
    - unfold mvp5_run. rewrite E0.
      eapply (sim_run_m5 app labels Happ Hlab); [| exact HF0 | exact Hwf | exact Hsp | exact Hsh0 | exact HS | exact Hc'].
      destruct st as [rg mm]. cbn [regs mem] in *.
      apply (RM5_intro (ev_la (ev_of app (mk_arch rg mm) 0)) (skm5_init c0) rg mm c0 (s_new 64 1024) 0 false 0 None
                       (mk_eu false false [] None 0 None) (mk_arch rg mm)); auto; try discriminate.
      apply init_VInv; assumption.
    - unfold mvp5_cost_mem. rewrite E0. exact Hc'.
  Qed.

  (* C01 / C05 (MVP-5): loads and stores, every store hits in the L1D *)
  Theorem mvp5_refines_seq_storehit fuel st st' tr :
    inv (regs st) (mem st) -> (length (regs st) <= 32)%nat -> mem_small st ->
    accesses_ok fuel sp labels st 0 ->
    seq_run fuel sp labels st = Done st' tr ->
    evs_below (seq_evs fuel sp labels st 0) = true ->
    stores_hit [] (seq_evs fuel sp labels st 0) = true ->
    exists c, (forall fuel', (fuel_bound_m (length tr) <= fuel')%nat -> mvp5_run fuel' app labels st = MDone c st') /\
              Z.of_nat (length tr) <= c <= 2 * Z.of_nat (fuel_bound_m (length tr)) + MemoryAccess * 16.
  Proof.
    intros Hinv Hlen Hsm Hacc Hrun Hb Hsh.
    destruct (mvp5_run_events fuel st st' tr Hinv Hlen Hsm Hacc Hrun Hb Hsh) as (c & Hc & Hlb).
    exists c. split; [|exact Hlb]. intros fuel' Hf. apply Hc. exact Hf.
  Qed.

  (* C07 (MVP-5): no panic, no error, no divergence *)
  Corollary mvp5_no_panic_mem fuel st st' tr fuel' :
    inv (regs st) (mem st) -> (length (regs st) <= 32)%nat -> mem_small st ->
    accesses_ok fuel sp labels st 0 ->
    seq_run fuel sp labels st = Done st' tr ->
    evs_below (seq_evs fuel sp labels st 0) = true ->
    stores_hit [] (seq_evs fuel sp labels st 0) = true ->
    (fuel_bound_m (length tr) <= fuel')%nat ->
    mvp5_run fuel' app labels st <> MPanic /\ mvp5_run fuel' app labels st <> MOutOfFuel /\
    (forall e, mvp5_run fuel' app labels st <> MErr e).
  Proof.
    intros Hinv Hlen Hsm Hacc Hrun Hb Hsh Hf.
    destruct (mvp5_refines_seq_storehit fuel st st' tr Hinv Hlen Hsm Hacc Hrun Hb Hsh) as (c & Hc & _).
    rewrite (Hc fuel' Hf). repeat split; try discriminate.
  Qed.

  (* C12 (MVP-5): same events, same cycle count *)
  Theorem mvp5_value_independent_mem fuel st1 st2 st1' st2' tr1 tr2 :
    inv (regs st1) (mem st1) -> (length (regs st1) <= 32)%nat -> mem_small st1 -> accesses_ok fuel sp labels st1 0 ->
    inv (regs st2) (mem st2) -> (length (regs st2) <= 32)%nat -> mem_small st2 -> accesses_ok fuel sp labels st2 0 ->
    seq_run fuel sp labels st1 = Done st1' tr1 ->
    seq_run fuel sp labels st2 = Done st2' tr2 ->
    seq_evs fuel sp labels st1 0 = seq_evs fuel sp labels st2 0 ->
    evs_below (seq_evs fuel sp labels st1 0) = true ->
    stores_hit [] (seq_evs fuel sp labels st1 0) = true ->
    exists c, forall fuel', (fuel_bound_m (Nat.max (length tr1) (length tr2)) <= fuel')%nat ->
      mvp5_run fuel' app labels st1 = MDone c st1' /\ mvp5_run fuel' app labels st2 = MDone c st2'.
  Proof.
    intros I1 L1 S1 A1 I2 L2 S2 A2 R1 R2 Hp Hb Hsh.
    destruct (mvp5_run_events fuel st1 st1' tr1 I1 L1 S1 A1 R1 Hb Hsh) as (c1 & Hc1 & _).
    rewrite Hp in Hb, Hsh. destruct (mvp5_run_events fuel st2 st2' tr2 I2 L2 S2 A2 R2 Hb Hsh) as (c2 & Hc2 & _).
    exists c1. intros fuel' Hf.
    assert (Hf1 : (fuel_bound_m (length tr1) <= fuel')%nat).
    { unfold fuel_bound_m in *. pose proof (Nat.le_max_l (length tr1) (length tr2)).
      assert (((length tr1 + 1) * Kstepm <= (Nat.max (length tr1) (length tr2) + 1) * Kstepm)%nat) by (apply Nat.mul_le_mono_r; lia). lia. }
    assert (Hf2 : (fuel_bound_m (length tr2) <= fuel')%nat).
    { unfold fuel_bound_m in *. pose proof (Nat.le_max_r (length tr1) (length tr2)).
      assert (((length tr2 + 1) * Kstepm <= (Nat.max (length tr1) (length tr2) + 1) * Kstepm)%nat) by (apply Nat.mul_le_mono_r; lia). lia. }
    destruct (Hc1 fuel' Hf1) as [H1 K1]. destruct (Hc2 fuel' Hf2) as [H2 K2].
    rewrite Hp in K1. rewrite K1 in K2. injection K2 as <-. auto.
  Qed.
End Top5m.
