(* Refinement of MVP-6.2 (proc/mvp6-2 = MVP-6.1 + SPECULATIVE REGISTER STATE: register results go to a
   transaction map with one slot per register, committed when a conditional branch resolves not taken,
   rolled back - entries at least as young as the branch dropped, the older ones committed - when it
   resolves taken; final Commit) to the sequential machine Isa/Seq.v on REGISTER-ONLY programs - part 5:
   the theorems.

   Method: the run of the faithful model Mvp62.v follows, tick by tick, the run of the faithful model
   Mvp61.v (Mvp62RefRel.v: the simulation relation; Mvp62RefFront.v, Mvp62RefExec.v, Mvp62RefStep.v: the
   units and one tick of Run), whose states satisfy the invariants of the proof of MVP-6.1
   (Mvp61Ref*.v).  The register file of MVP-6.1 is the view (Transaction entry, else Registers) of the
   context of MVP-6.2.  The invariant on the transaction map:
     on register-only programs with forward control flow an execute unit never waits, so instructions
     execute in program order, a branch executes in the cycle after its dispatch and everything
     written back before it executes is OLDER than it; hence every entry of the map is older than every
     instruction still to execute (TxB).  A rollback therefore commits every entry - it never drops
     one - and a commit on a not-taken branch never commits a wrong-path value: wrong-path results are
     dropped by the write units (sequence ids), exactly as in MVP-6.1, and never reach the map.  The
     one-slot defect (Mvp62Proofs.mvp62_one_slot_witness) needs a branch that resolves late (fed by a
     load); it cannot show on register-only programs.

   1. mvp62_refines_seq_straight, mvp62_run_straight, mvp62_cycles_lower_bound_straight,
      mvp62_terminates_straight, mvp62_no_panic_straight (straight-line programs);
   2. mvp62_refines_seq_forward (class fwd_ok of Mvp60RefProofs.v): wrong-path instructions leave no
      architectural trace; mvp62_agrees_mvp61_forward / _straight: the same cycle count as MVP-6.1;
   3. mvp62_x0_refuted: why (nth 0 (regs st) 0 = 0) is needed (registerRead returns ctx.Registers[zero]
      when the instruction object carries a Forward for another register). *)
From Coq Require Import ZArith List Bool Lia Permutation.
From Maj Require Import Base.Outcome Base.GoInt Base.GoTypes Isa.Spec Isa.Embed Isa.Seq Isa.Refine.
From Maj Require Import Gen.Latency Gen.RiscTables Gen.Opcodes Comp.Cache Comp.Rat Comp.RatProofs.
From Maj Require Comp.Tx Comp.TxProofs.
From Maj Require Import Mvp.Mvp12 Mvp.Mvp12Proofs Mvp.Mvp3 Mvp.Mvp3Proofs Mvp.Mvp4Skel Mvp.Mvp4Inv Mvp.Mvp4Sim Mvp.Mvp5 Mvp.Mvp60 Mvp.Mvp61
     Mvp.Mvp60RefSem Mvp.Mvp60RefDefs Mvp.Mvp60RefFront Mvp.Mvp60RefBack Mvp.Mvp60RefStep Mvp.Mvp60RefStep2 Mvp.Mvp60RefSeg Mvp.Mvp60RefProofs
     Mvp.Mvp61RefSem Mvp.Mvp61RefFront Mvp.Mvp61RefBack Mvp.Mvp61RefInv Mvp.Mvp61RefCu Mvp.Mvp61RefExec Mvp.Mvp61RefExec2
     Mvp.Mvp61RefStep Mvp.Mvp61RefStep2 Mvp.Mvp61RefStep3 Mvp.Mvp61RefProofs.
From Maj Require Import Mvp.Mvp62 Mvp.Mvp62RefRel Mvp.Mvp62RefFront Mvp.Mvp62RefExec Mvp.Mvp62RefStep.
Import ListNotations.
Open Scope Z_scope.

Lemma run62_S app labels ord s s' fuel : step62 app labels ord s = Mvp62.TCont s' ->
  run62_st (S fuel) app labels ord s = run62_st fuel app labels ord s'.
Proof. intros H. cbn [run62_st]. rewrite H. reflexivity. Qed.

Lemma run62_done app labels ord s r os fuel : step62 app labels ord s = Mvp62.TDone r os ->
  run62_st (S fuel) app labels ord s = inl (r, os).
Proof. intros H. cbn [run62_st]. rewrite H. reflexivity. Qed.

Lemma run62_more app labels ord : forall fuel k s r, run62_st fuel app labels ord s = inl r -> run62_st (fuel + k) app labels ord s = inl r.
Proof.
  induction fuel as [|fuel IH]; intros k s r H; [discriminate|]. cbn [run62_st Nat.add] in *.
  destruct (step62 app labels ord s); [exact H | apply IH; exact H].
Qed.

Lemma mvp62_run_more app labels par ord fuel k st c st' :
  mvp62_run par ord fuel app labels st = MDone c st' -> mvp62_run par ord (fuel + k) app labels st = MDone c st'.
Proof.
  unfold mvp62_run, mvp62_run_os. destruct (init62 par st) as [s0| |]; try discriminate.
  destruct (run62_st fuel app labels ord s0) as [r|s'] eqn:E; [|discriminate].
  intros H. rewrite (run62_more app labels ord _ k _ _ E). exact H.
Qed.

Section Run62.
  Variables (app : list instr) (labels : Z -> option Z) (regs0 mem0 : list Z) (base : nat) (sq : Z) (off : Z).
  Hypothesis Happ : wf_app app.
  Hypothesis Hreg : reg_only app = true.
  Hypothesis Hrng : regs_in_range app = true.
  Hypothesis Hlen32 : length regs0 = 32%nat.
  Hypothesis Hbase : (base <= length app)%nat.
  Let n := length app.
  Let N := stop_from app base.
  Hypothesis Hsq : 0 <= sq /\ 1000 * sq + 4 * Z.of_nat n < 2147483648.

  Notation sreg := (sreg app labels regs0 base).
  Notation eff := (eff app labels regs0 base).
  Notation ik := (ik app).
  Notation sid := (sid sq).
  Notation GI1 := (GI1 app labels regs0 mem0 base sq off).
  Notation GR1 := (GR1 app labels regs0 mem0 base sq off).
  Notation GF1 := (GF1 app labels regs0 mem0 base sq).
  Notation Fin1 := (Fin1 app labels regs0 mem0 base sq off).
  Notation bresp := (bresp app labels regs0 base sq).
  Notation SInv1 := (SInv1 app labels regs0 mem0 base sq off).

  Hypothesis Hsem : forall k, (base <= k <= N)%nat -> (k < n)%nat ->
    exec (sinstr_of (ik k)) (rget (sreg k)) labels (pcz k) [] = Ok (eff k) /\
    (forall a, etarget (eff k) = Some a -> exists t, a = pcz t /\ (k < t <= n)%nat).
  Hypothesis Hr32 : Forall int32 regs0.

  Set Default Proof Using "All".
  Notation "'IS' L" := (L app labels regs0 mem0 base sq off Happ Hreg Hrng Hlen32 Hbase Hsq Hsem Hr32) (at level 10, L at level 9, only parsing).

  (* the joint invariant: a related pair of states, the invariant of MVP-6.1, the bound on the transaction map *)
  Inductive JInv (s2 : st62) (s1 : st1) : Prop :=
  | JN sg d c f x : RS n sg s2 s1 -> GI1 d c f x s1 -> TxB (n_ctx (Mvp62.t_m s2)) (sid x) -> JInv s2 s1
  | JR sg d bn : RS n sg s2 s1 -> GR1 d s1 -> TxB (n_ctx (Mvp62.t_m s2)) bn -> sid d <= bn -> JInv s2 s1
  | JF sg d E t : RS n sg s2 s1 -> GF1 d E t s1 -> TxB (n_ctx (Mvp62.t_m s2)) (sid E + 1) -> JInv s2 s1.

  Lemma JInv_SInv s2 s1 : JInv s2 s1 -> SInv1 s1.
  Proof. intros [sg d c f x _ H _|sg d bn _ H _ _|sg d E t _ H _]; [eapply SI1_n | eapply SI1_r | eapply SI1_f]; exact H. Qed.

  Definition SegEnd62 (ord : Z -> Z -> list Z -> list Z) (s2 : st62) (s1 : st1) (bound : nat) : Prop :=
    (exists k r os2 os1, (1 <= k <= bound)%nat /\ (forall extra, run62_st (k + extra) app labels ord s2 = inl (r, os2)) /\
       (forall extra, run1_st (k + extra) app labels ord pord0 s1 = inl (r, os1)) /\ Fin1 r) \/
    (exists k s2' s1' sg' E t sq', (1 <= k <= bound)%nat /\ (forall extra, run62_st (k + extra) app labels ord s2 = run62_st extra app labels ord s2') /\
       (forall extra, run1_st (k + extra) app labels ord pord0 s1 = run1_st extra app labels ord pord0 s1') /\
       Fresh1 app mem0 sq' t (sreg (S E)) s1' /\ RS n sg' s2' s1' /\ TxB (n_ctx (Mvp62.t_m s2')) (pcz t + 1000 * sq') /\
       sq < sq' <= sq + 3 /\ (base <= E <= N)%nat /\ (E < t <= n)%nat /\
       (forall k', (base <= k' < E)%nat -> bresp k' = resp0) /\ bresp E = mk_resp1 true (sid E) (pcz t) false None).

  Lemma Fin1_done r : Fin1 r -> exists cf st, r = MDone cf st.
  Proof. intros (cf & xe & -> & _). eauto. Qed.

  Lemma seg_run62 ord : forall (b : nat) s2 s1, JInv s2 s1 -> mu1 app s1 < Z.of_nat b -> SegEnd62 ord s2 s1 b.
  Proof.
    induction b as [|b IH]; intros s2 s1 HJ Hmu.
    - pose proof ((IS mu1_nonneg) s1 (JInv_SInv _ _ HJ)). lia.
    - assert (Hnext : forall s2' s1', step62 app labels ord s2 = Mvp62.TCont s2' -> step1 app labels ord pord0 s1 = Mvp61.TCont s1' ->
                JInv s2' s1' -> mu1 app s1' < mu1 app s1 -> SegEnd62 ord s2 s1 (S b)).
      { intros s2' s1' Es Es1 HJ' Hlt. destruct (IH s2' s1' HJ' ltac:(lia)) as [(k & r & os2 & os1 & Hk & Hr & Hr1 & HF)|(k & s2'' & s1'' & sg' & E & t & sq' & Hk & Hr & Hr1 & Hrest)].
        - left. exists (S k), r, os2, os1. split; [lia|]. split; [|split; [|exact HF]]; intros extra; cbn [Nat.add].
          + rewrite (run62_S _ _ _ _ _ _ Es). apply Hr.
          + rewrite (run1_S _ _ _ _ _ _ _ Es1). apply Hr1.
        - right. exists (S k), s2'', s1'', sg', E, t, sq'. split; [lia|]. split; [|split; [|exact Hrest]]; intros extra; cbn [Nat.add].
          + rewrite (run62_S _ _ _ _ _ _ Es). apply Hr.
          + rewrite (run1_S _ _ _ _ _ _ _ Es1). apply Hr1. }
      assert (Hdone : forall r os os1, step1 app labels ord pord0 s1 = Mvp61.TDone r os1 -> StepR n os (step62 app labels ord s2) (step1 app labels ord pord0 s1) -> Fin1 r -> SegEnd62 ord s2 s1 (S b)).
      { intros r bn os1 Es HS HF. pose proof HS as HS'. rewrite Es in HS'. destruct (Fin1_done r HF) as (cf & st & Er). destruct (HS' cf st Er) as (os2 & Es2).
        left. exists 1%nat, r, os2, os1. split; [lia|]. split; [|split; [|exact HF]]; intros extra; [apply run62_done; exact Es2 | apply run1_done; exact Es]. }
      destruct HJ as [sg d c f x HRS HG HT|sg d bn HRS HG HT Hbn|sg d E t HRS HG HT].
      + destruct ((IS normal_core) sg ord d c f x s2 s1 HRS HG HT) as (HS & Hx & Hfl).
        destruct ((IS step_normal2) ord pord0 d c f x s1 HG)
          as [(s1' & d' & c' & f' & x' & Es & HG' & Hlt)|[(r & os & Es & HF)|[(s1' & d' & Es & HG')|(s1' & d' & E & t & Es & HG' & (fr & sq0 & pc0 & Em))]]].
        * pose proof HS as HS'. rewrite Es in HS'. destruct HS' as (sg' & s2' & Es2 & HRS' & HT').
          apply (Hnext s2' s1' Es2 Es).
          -- eapply JN; [exact HRS' | exact HG'|]. eapply TxB_mono; [|exact HT']. apply (IS sid_le). eapply Hx; eassumption.
          -- unfold mu1. rewrite (g1_mode _ _ _ _ _ _ _ _ _ _ _ _ HG), (g1_mode _ _ _ _ _ _ _ _ _ _ _ _ HG'). lia.
        * eapply Hdone; eassumption.
        * pose proof HS as HS'. rewrite Es in HS'. destruct HS' as (sg' & s2' & Es2 & HRS' & HT').
          apply (Hnext s2' s1' Es2 Es).
          -- eapply (JR _ _ sg' d' (Z.max (sid x) (sid d'))); [exact HRS' | exact HG' | eapply TxB_mono; [|exact HT']; lia | lia].
          -- pose proof ((IS phis1_nn) _ _ _ _ _ HG) as H0.
             unfold mu1 in *. rewrite (g1_mode _ _ _ _ _ _ _ _ _ _ _ _ HG) in *. rewrite (r1_mode _ _ _ _ _ _ _ _ _ HG').
             pose proof (bus_q _ _ (r1_bw _ _ _ _ _ _ _ _ _ HG')). lia.
        * pose proof HS as HS'. rewrite Es in HS'. destruct HS' as (sg' & s2' & Es2 & HRS' & HT').
          apply (Hnext s2' s1' Es2 Es).
          -- eapply (JF _ _ sg' d' E t); [exact HRS' | exact HG'|]. eapply TxB_mono; [|exact HT'].
             pose proof (Hfl _ _ _ _ Es Em) as Hle. pose proof (gf1_mode _ _ _ _ _ _ _ _ _ _ HG') as Hm. rewrite Em in Hm. destruct Hm as (-> & _). lia.
          -- pose proof ((IS phis1_nn) _ _ _ _ _ HG) as H0.
             unfold mu1 in *. rewrite (g1_mode _ _ _ _ _ _ _ _ _ _ _ _ HG) in *. rewrite Em. lia.
      + pose proof ((IS ret_core) sg ord d bn s2 s1 HRS HG HT Hbn) as HS.
        destruct ((IS step_ret1) ord pord0 d s1 HG) as [(s1' & Es & HG' & Hlt)|(r & os & Es & HF)].
        * pose proof HS as HS'. rewrite Es in HS'. destruct HS' as (sg' & s2' & Es2 & HRS' & HT').
          apply (Hnext s2' s1' Es2 Es).
          -- eapply JR; eassumption.
          -- unfold mu1. rewrite (r1_mode _ _ _ _ _ _ _ _ _ HG), (r1_mode _ _ _ _ _ _ _ _ _ HG'). exact Hlt.
        * eapply Hdone; eassumption.
      + pose proof ((IS flush_core) sg ord d E t s2 s1 HRS HG HT) as HS.
        destruct ((IS gf1_modes) d E t s1 HG) as [HmO|HmW].
        * destruct ((IS step_flushO) ord pord0 d E t s1 HG HmO) as (s1' & Es & HG' & (k0 & ie0 & fr0 & sq0 & pc0 & Em') & _).
          pose proof HS as HS'. rewrite Es in HS'. destruct HS' as (sg' & s2' & Es2 & HRS' & HT').
          apply (Hnext s2' s1' Es2 Es).
          -- eapply JF; eassumption.
          -- destruct HmO as (fr & sq1 & pc1 & Em). unfold mu1. rewrite Em, Em'.
             pose proof (bus_q _ _ (gf1_bw _ _ _ _ _ _ _ _ _ _ HG')). lia.
        * destruct ((IS step_flushW) ord pord0 d E t s1 HG HmW) as [(s1' & Es & HG' & (k0 & ie0 & fr0 & sq0 & pc0 & Em') & Hlt)|(s1' & sq' & Es & HFr & Hsq' & Hcyc)].
          -- pose proof HS as HS'. rewrite Es in HS'. destruct HS' as (sg' & s2' & Es2 & HRS' & HT').
             apply (Hnext s2' s1' Es2 Es).
             ++ eapply JF; eassumption.
             ++ destruct HmW as (k1 & ie1 & fr & sq1 & pc1 & Em). unfold mu1. rewrite Em, Em'. exact Hlt.
          -- pose proof HS as HS'. rewrite Es in HS'. destruct HS' as (sg' & s2' & Es2 & HRS' & HT').
             destruct (gf1_E _ _ _ _ _ _ _ _ _ _ HG) as (A1 & A2 & A3 & A4).
             right. exists 1%nat, s2', s1', sg', E, t, sq'. split; [lia|]. split; [intros extra; apply run62_S; exact Es2|]. split; [intros extra; apply run1_S; exact Es|].
             split; [exact HFr|]. split; [exact HRS'|].
             split; [eapply TxB_mono; [|exact HT']; unfold Mvp61RefFront.sid, pcz; lia|].
             split; [exact Hsq'|]. split; [fold N in A4; lia|]. split; [fold n in A2; lia|].
             split; [exact (gf1_exec _ _ _ _ _ _ _ _ _ _ HG) | exact (gf1_out _ _ _ _ _ _ _ _ _ _ HG)].
  Qed.
End Run62.

(* ------------------------------------------------------------------ *)
(* the initial state                                                    *)

Lemma aget_combine_seq : forall (l : list Z) off r,
  aget r (combine (map Z.of_nat (seq off (length l))) l) =
  if (Z.of_nat off <=? r) && (r <? Z.of_nat (off + length l)) then Some (nth (Z.to_nat r - off) l 0) else None.
Proof.
  induction l as [|a l IH]; intros off r; cbn [length seq map combine aget].
  - destruct (Z.leb_spec (Z.of_nat off) r), (Z.ltb_spec r (Z.of_nat (off + 0))); cbn [andb]; try reflexivity; lia.
  - destruct (Z.eqb_spec r (Z.of_nat off)) as [->|Hne].
    + destruct (Z.leb_spec (Z.of_nat off) (Z.of_nat off)), (Z.ltb_spec (Z.of_nat off) (Z.of_nat (off + S (length l)))); cbn [andb]; try lia.
      rewrite Nat2Z.id, Nat.sub_diag. reflexivity.
    + rewrite IH. destruct (Z.leb_spec (Z.of_nat (S off)) r), (Z.ltb_spec r (Z.of_nat (S off + length l))),
        (Z.leb_spec (Z.of_nat off) r), (Z.ltb_spec r (Z.of_nat (off + S (length l)))); cbn [andb]; try reflexivity; try lia.
      replace (Z.to_nat r - off)%nat with (S (Z.to_nat r - S off)) by lia. reflexivity.
Qed.

Lemma init_vw rg : length rg = 32%nat -> nth 0 rg 0 = 0 ->
  Vw (Tx.mkCtx (combine (map Z.of_nat (seq 0 (length rg))) rg) [] (Tx.crat (Tx.new_context false)) (Tx.trat (Tx.new_context false)) false) rg.
Proof.
  intros Hl H0. constructor; auto. intros r. unfold view, Tx.reg_get. cbn [Tx.trans Tx.regs aget]. rewrite aget_combine_seq, Hl. unfold rget.
  destruct (Z.leb_spec (Z.of_nat 0) r), (Z.ltb_spec r (Z.of_nat (0 + 32))); cbn [andb].
  - rewrite Nat.sub_0_r. destruct (Z.eqb_spec r 0) as [->|]; [exact H0 | reflexivity].
  - destruct (Z.eqb_spec r 0); [reflexivity|]. rewrite nth_overflow by lia. reflexivity.
  - destruct (Z.eqb_spec r 0); [reflexivity|]. replace (Z.to_nat r) with 0%nat by lia. symmetry. exact H0.
  - lia.
Qed.

Lemma init_rel app par (st : arch) : (1 <= par)%nat -> length (regs st) = 32%nat -> nth 0 (regs st) 0 = 0 ->
  exists s2 s1, init62 par st = Ok s2 /\ init1 par app st = Ok s1 /\ Fresh1 app (mem st) 0 0 (regs st) s1 /\ Mvp61.t_cycle s1 = 0 /\
    RS (length app) (fun c => c) s2 s1 /\ forall b, TxB (n_ctx (Mvp62.t_m s2)) b.
Proof.
  intros Hpar Hl H0. destruct (init_fresh1 app par st Hpar) as (s1 & E1 & HF & Hc).
  unfold init1, init6 in E1 |- *. unfold init62.
  destruct (new_cache l1LineSize l1Size) as [ci| |]; try discriminate E1. destruct (new_cache l3LineSize l3Size) as [c3| |]; try discriminate E1.
  injection E1 as <-. eexists _, _. split; [reflexivity|]. split; [reflexivity|]. split; [exact HF|]. split; [exact Hc|].
  split; [|intros b r u E; cbn in E; discriminate E].
  constructor; cbn [Mvp62.t_m Mvp62.t_eus Mvp62.t_wus Mvp62.t_cycle Mvp62.t_mode Mvp61.t_m Mvp61.t_eus Mvp61.t_wus Mvp61.t_cycle Mvp61.t_mode s_m s_wus].
  - constructor; ss; auto; try reflexivity; try (repeat split; constructor).
    + apply init_vw; assumption.
    + constructor; [intros c c' H1 H2; exact H1 | intros c Hc0; lia].
  - intros p Hp. destruct Hp.
  - clear. induction par as [|k IH]; cbn [repeat]; constructor; [|exact IH]. constructor; reflexivity.
  - reflexivity.
  - reflexivity.
  - exact I.
Qed.

(* a fresh pair of states satisfies the joint invariant of the main loop at base t *)
Lemma fresh_JInv app labels mem0 sq t R off sg s2 s1 : Fresh1 app mem0 sq t R s1 -> (t <= length app)%nat ->
  length R = 32%nat -> Forall int32 R -> Z.of_nat t <= 2 * Mvp61.t_cycle s1 + off ->
  RS (length app) sg s2 s1 -> TxB (n_ctx (Mvp62.t_m s2)) (pcz t + 1000 * sq) ->
  JInv app labels R mem0 t sq off s2 s1.
Proof.
  intros HF Ht HlR HR Hc HRS HT. eapply (JN _ _ _ _ _ _ _ _ _ sg t t t t); [exact HRS | apply fresh_GI1; assumption | exact HT].
Qed.

(* ------------------------------------------------------------------ *)
(* 2. forward control flow                                              *)

Section Fwd62.
  Variables (app : list instr) (labels : Z -> option Z).
  Hypothesis Happ : wf_app app.
  Hypothesis Hreg : reg_only app = true.
  Hypothesis Hrng : regs_in_range app = true.
  Hypothesis Hfwd : fwd_ok app labels = true.
  Hypothesis Hfit : seq_ids_fit app.
  Let n := length app.
  Let sp := map sinstr_of app.

  Lemma fwd_core62 ord mem0 : forall m t R sq sg s2 s1 fuel tr0 st' tr,
    (n - t <= m)%nat -> (t <= n)%nat -> Fresh1 app mem0 sq t R s1 -> RS n sg s2 s1 -> TxB (n_ctx (Mvp62.t_m s2)) (pcz t + 1000 * sq) ->
    length R = 32%nat -> Forall int32 R -> 0 <= sq <= 3 * Z.of_nat t ->
    Seq.run fuel sp labels (mk_arch R mem0) (pcz t) tr0 = Done st' tr ->
    exists K c os os1, (K <= (m + 1) * fuel_bound61 n)%nat /\
                   (forall extra, run62_st (K + extra) app labels ord s2 = inl (MDone c st', os)) /\
                   (forall extra, run1_st (K + extra) app labels ord pord0 s1 = inl (MDone c st', os1)).
  Proof.
    assert (Hsqb : forall t sq, (t <= n)%nat -> 0 <= sq <= 3 * Z.of_nat t -> 0 <= sq /\ 1000 * sq + 4 * Z.of_nat (length app) < 2147483648).
    { intros t sq Ht Hs. unfold seq_ids_fit in Hfit. fold n in Hfit |- *. lia. }
    induction m as [|m IH]; intros t R sq sg s2 s1 fuel tr0 st' tr Hm Htn HF HRS HT HlR HR Hsq Hrun.
    - set (off := Z.of_nat t - 2 * Mvp61.t_cycle s1).
      assert (HlR' : (length R <= 32)%nat) by (rewrite HlR; apply le_n).
      pose proof (fresh_JInv app labels mem0 sq t R off sg s2 s1 HF Htn HlR HR ltac:(unfold off; lia) HRS HT) as HJ.
      destruct (seg_run62 app labels R mem0 t sq off Happ Hreg Hrng HlR Htn (Hsqb t sq Htn Hsq) (hsem_all app labels Hfwd R t) HR ord (fuel_bound61 n) s2 s1
                  HJ (mu1_fresh _ _ _ _ _ _ HF))
        as [(k & r & os & os1 & Hk & Hr & Hr1 & HFin)|(k & s2' & s1' & sg' & E & t' & sq' & Hk & Hr & Hr1 & HFr & HRS' & HT' & Hsq' & HE & Ht' & _)]; [|fold n in Ht'; lia].
      pose proof (Fin1_Fin app labels R mem0 t sq off Happ Hreg Hrng HlR Htn (Hsqb t sq Htn Hsq) (hsem_all app labels Hfwd R t) HR r HFin) as HFin6.
      destruct (seg_seq_fin app labels R mem0 t off Hreg HlR' Htn (hsem_all app labels Hfwd R t) r fuel tr0 st' tr HFin6 Hrun) as (cf & -> & _).
      exists k, cf, os, os1. split; [lia|]. split; [exact Hr | exact Hr1].
    - set (off := Z.of_nat t - 2 * Mvp61.t_cycle s1).
      assert (HlR' : (length R <= 32)%nat) by (rewrite HlR; apply le_n).
      pose proof (fresh_JInv app labels mem0 sq t R off sg s2 s1 HF Htn HlR HR ltac:(unfold off; lia) HRS HT) as HJ.
      destruct (seg_run62 app labels R mem0 t sq off Happ Hreg Hrng HlR Htn (Hsqb t sq Htn Hsq) (hsem_all app labels Hfwd R t) HR ord (fuel_bound61 n) s2 s1
                  HJ (mu1_fresh _ _ _ _ _ _ HF))
        as [(k & r & os & os1 & Hk & Hr & Hr1 & HFin)|(k & s2' & s1' & sg' & E & t' & sq' & Hk & Hr & Hr1 & HFr & HRS' & HT' & Hsq' & HE & Ht' & Hex & Hout)].
      + pose proof (Fin1_Fin app labels R mem0 t sq off Happ Hreg Hrng HlR Htn (Hsqb t sq Htn Hsq) (hsem_all app labels Hfwd R t) HR r HFin) as HFin6.
        destruct (seg_seq_fin app labels R mem0 t off Hreg HlR' Htn (hsem_all app labels Hfwd R t) r fuel tr0 st' tr HFin6 Hrun) as (cf & -> & _).
        exists k, cf, os, os1. split; [lia|]. split; [exact Hr | exact Hr1].
      + fold n in Ht'.
        pose proof (bresp_flush_kout app labels R mem0 t sq off Happ Hreg Hrng HlR Htn (Hsqb t sq Htn Hsq) (hsem_all app labels Hfwd R t) HR E (pcz t') Hout) as Hout6.
        assert (Hex6 : forall k', (t <= k' < E)%nat -> kout app labels R t k' = euo_none).
        { intros k' Hk'. apply (bresp0_kout app labels R mem0 t sq off Happ Hreg Hrng HlR Htn (Hsqb t sq Htn Hsq) (hsem_all app labels Hfwd R t) HR). apply Hex. exact Hk'. }
        destruct (seg_seq_flush app labels R mem0 t Hreg HlR' Htn (hsem_all app labels Hfwd R t) E t' fuel tr0 st' tr HE Ht' Hex6 Hout6 Hrun) as (fuel' & tr1 & Hrun').
        destruct (IH t' (sreg app labels R t (S E)) sq' sg' s2' s1' fuel' tr1 st' tr ltac:(lia) ltac:(lia) HFr HRS' HT'
                    ltac:(rewrite sreg_length; exact HlR) (sreg_int32 app labels R t HR (S E)) ltac:(lia) Hrun') as (K' & c & os & os1 & HK' & Hr' & Hr1').
        exists (k + K')%nat, c, os, os1. split; [lia|]. split; intros extra; rewrite <- Nat.add_assoc; [rewrite Hr; apply Hr' | rewrite Hr1; apply Hr1'].
  Qed.

  (* forward control flow, no div / rem / jalr: the pipeline with operand forwarding AND the speculative
     register state computes the sequential result; wrong-path instructions leave no architectural trace *)
  (* ... and it takes exactly the cycles of MVP-6.1: the speculative register state costs nothing here *)
  Theorem mvp62_agrees_mvp61_forward par ord fuel st st' tr : (1 <= par)%nat ->
    Forall int32 (regs st) -> length (regs st) = 32%nat -> nth 0 (regs st) 0 = 0 ->
    seq_run fuel sp labels st = Done st' tr ->
    exists c, forall fuel', (fuel_bound61_fwd (length app) <= fuel')%nat ->
      mvp62_run par ord fuel' app labels st = MDone c st' /\ mvp61_run par ord (pord_policy 0) fuel' app labels st = MDone c st'.
  Proof.
    intros Hpar HR HlR H0 Hrun. destruct (init_rel app par st Hpar HlR H0) as (s2 & s1 & E2 & E1 & HF & Hc & HRS & HT).
    unfold seq_run in Hrun. assert (Hst : st = mk_arch (regs st) (mem st)) by (destruct st; reflexivity).
    rewrite Hst in Hrun at 1. change 0 with (pcz 0) in Hrun.
    destruct (fwd_core62 ord (mem st) n O (regs st) 0 (fun c => c) s2 s1 fuel [] st' tr ltac:(lia) ltac:(lia) HF HRS (HT _) HlR HR ltac:(lia) Hrun) as (K & c & os & os1 & HK & Hr & Hr1).
    exists c. intros fuel' Hf. unfold mvp62_run, mvp62_run_os, mvp61_run, mvp61_run_os. rewrite E2, E1.
    unfold fuel_bound61_fwd in Hf. fold n in Hf.
    replace fuel' with (K + (fuel' - K))%nat by lia. rewrite Hr. change (pord_policy 0) with pord0. rewrite Hr1. split; reflexivity.
  Qed.

  (* forward control flow, no div / rem / jalr: the pipeline with operand forwarding AND the speculative
     register state computes the sequential result; wrong-path instructions leave no architectural trace *)
  Theorem mvp62_refines_seq_forward par ord fuel st st' tr : (1 <= par)%nat ->
    Forall int32 (regs st) -> length (regs st) = 32%nat -> nth 0 (regs st) 0 = 0 ->
    seq_run fuel sp labels st = Done st' tr ->
    exists c, forall fuel', (fuel_bound61_fwd (length app) <= fuel')%nat -> mvp62_run par ord fuel' app labels st = MDone c st'.
  Proof.
    intros Hpar HR HlR H0 Hrun. destruct (mvp62_agrees_mvp61_forward par ord fuel st st' tr Hpar HR HlR H0 Hrun) as (c & Hc).
    exists c. intros fuel' Hf. apply (Hc fuel' Hf).
  Qed.
End Fwd62.

(* ------------------------------------------------------------------ *)
(* 1. straight-line programs                                            *)

Section Straight62.
  Variables (app : list instr) (labels : Z -> option Z).
  Hypothesis Happ : wf_app app.
  Hypothesis Hstr : straight app = true.
  Hypothesis Hreg : reg_only app = true.
  Hypothesis Hrng : regs_in_range app = true.
  Let n := length app.
  Let sp := map sinstr_of app.

  Variables (par : nat) (ord : Z -> Z -> list Z -> list Z) (fuel : nat) (st st' : arch) (tr : list Z).
  Hypothesis Hpar : (1 <= par)%nat.
  Hypothesis Hr32 : Forall int32 (regs st).
  Hypothesis Hlen : length (regs st) = 32%nat.
  Hypothesis Hx0 : nth 0 (regs st) 0 = 0.
  Hypothesis Hrun : seq_run fuel sp labels st = Done st' tr.

  Theorem mvp62_agrees_mvp61_straight :
    exists c, (forall fuel', (fuel_bound61 (length app) <= fuel')%nat ->
                 mvp62_run par ord fuel' app labels st = MDone c st' /\ mvp61_run par ord (pord_policy 0) fuel' app labels st = MDone c st') /\
              Z.of_nat (length tr) <= 2 * c.
  Proof.
    assert (hsq0' : 0 <= 0 /\ 1000 * 0 + 4 * Z.of_nat (length app) < 2147483648) by (destruct Happ as [_ H]; lia).
    destruct (init_rel app par st Hpar Hlen Hx0) as (s2 & s1 & E2 & E1 & HF & Hc0 & HRS & HT).
    assert (Hle : (length (regs st) <= 32)%nat) by (rewrite Hlen; apply le_n).
    pose proof (hsem_straight app labels Hstr Hreg par fuel st st' tr Hpar Hr32 Hle Hrun) as Hsem.
    pose proof (fresh_JInv app labels (mem st) 0 0%nat (regs st) 0 (fun c => c) s2 s1 HF ltac:(lia) Hlen Hr32 ltac:(rewrite Hc0; lia) HRS (HT _)) as HJ.
    destruct (seg_run62 app labels (regs st) (mem st) 0 0 0 Happ Hreg Hrng Hlen ltac:(lia) hsq0' Hsem Hr32 ord (fuel_bound61 n) s2 s1
                HJ (mu1_fresh _ _ _ _ _ _ HF))
      as [(k & r & os & os1 & Hk & Hr & Hr1 & HFin)|(k & s2' & s1' & sg' & E & t' & sq' & Hk & Hr & Hr1 & HFr & HRS' & HT' & Hsq' & HE & Ht' & Hex & Hout)].
    - pose proof Hrun as Hrun'. unfold seq_run in Hrun'. assert (Hst : st = mk_arch (regs st) (mem st)) by (destruct st; reflexivity).
      rewrite Hst in Hrun' at 1. change 0 with (pcz 0) in Hrun'.
      pose proof (Fin1_Fin app labels (regs st) (mem st) 0 0 0 Happ Hreg Hrng Hlen ltac:(lia) hsq0' Hsem Hr32 r HFin) as HFin6.
      destruct (seg_seq_fin app labels (regs st) (mem st) 0 0 Hreg Hle ltac:(lia) Hsem r fuel [] st' tr HFin6 Hrun') as (cf & -> & Hcf).
      exists cf. split.
      + intros fuel' Hf. unfold mvp62_run, mvp62_run_os, mvp61_run, mvp61_run_os. rewrite E2, E1. unfold fuel_bound61 in Hf. fold n in Hf.
        replace fuel' with (k + (fuel' - k))%nat by (unfold fuel_bound61 in Hk; lia). rewrite Hr. change (pord_policy 0) with pord0. rewrite Hr1. split; reflexivity.
      + cbn [length] in Hcf. rewrite Nat.sub_0_r, Nat.add_0_r in Hcf. lia.
    - (* no instruction of a straight-line program asks for a flush *)
      exfalso. fold n in Ht'.
      assert (HEn : (E < n)%nat) by lia.
      pose proof (eff_kind app labels (regs st) 0 Hsem E HE HEn) as Hkind.
      pose proof (nobranch_uncond _ (ik_nobranch app Hstr E)) as Hj. pose proof (nobranch_cond _ (ik_nobranch app Hstr E)) as Hcd.
      fold (is_jump (ik app E)) in Hj. fold (condbr (ik app E)) in Hcd.
      unfold bresp in Hout. destruct (is_ret (ik app E)); [discriminate|].
      destruct (eff app labels (regs st) 0 E); cbn [etarget] in Hout; try discriminate.
      + destruct Hkind as [Hx|[_ Hx]]; congruence.
      + congruence.
  Qed.

  Theorem mvp62_run_straight :
    exists c, (forall fuel', (fuel_bound61 (length app) <= fuel')%nat -> mvp62_run par ord fuel' app labels st = MDone c st') /\
              Z.of_nat (length tr) <= 2 * c.
  Proof. destruct mvp62_agrees_mvp61_straight as (c & H & Hc). exists c. split; [intros fuel' Hf; apply (H fuel' Hf) | exact Hc]. Qed.

  Theorem mvp62_refines_seq_straight :
    exists c, forall fuel', (fuel_bound61 (length app) <= fuel')%nat -> mvp62_run par ord fuel' app labels st = MDone c st'.
  Proof. destruct mvp62_run_straight as (c & H & _). exists c. exact H. Qed.

  Theorem mvp62_cycles_lower_bound_straight fuel' c st'' :
    mvp62_run par ord fuel' app labels st = MDone c st'' ->
    st'' = st' /\ Z.of_nat (length tr) <= 2 * c /\ (Z.of_nat (length tr) + 1) / 2 <= c.
  Proof.
    intros H. destruct mvp62_run_straight as (c0 & H1 & H2).
    pose proof (mvp62_run_more app labels par ord fuel' (fuel_bound61 (length app)) st c st'' H) as H'.
    rewrite (H1 (fuel' + fuel_bound61 (length app))%nat ltac:(lia)) in H'. injection H' as -> ->.
    split; [reflexivity|]. split; [exact H2|]. assert (Hd := Z.div_lt_upper_bound (Z.of_nat (length tr) + 1) 2 (c + 1)); lia.
  Qed.

  Theorem mvp62_terminates_straight :
    exists c, mvp62_run par ord (fuel_bound61 (length app)) app labels st = MDone c st' /\
              (Z.of_nat (length tr) + 1) / 2 <= c.
  Proof.
    destruct mvp62_run_straight as (c & H1 & H2). exists c. split; [apply H1; lia|]. assert (Hd := Z.div_lt_upper_bound (Z.of_nat (length tr) + 1) 2 (c + 1)); lia.
  Qed.

  Corollary mvp62_no_panic_straight fuel' : (fuel_bound61 (length app) <= fuel')%nat ->
    mvp62_run par ord fuel' app labels st <> MPanic /\ mvp62_run par ord fuel' app labels st <> MOutOfFuel /\
    (forall e, mvp62_run par ord fuel' app labels st <> MErr e).
  Proof.
    intros Hf. destruct mvp62_refines_seq_straight as (c & Hc). rewrite (Hc fuel' Hf). repeat split; try discriminate.
  Qed.
End Straight62.
