(* MVP-7.1 (hooks71 of Mvp71.v) against MVP-7.0 / MVP-6.3 on programs without loads and stores: PARTIAL.

   INTENDED STATEMENT (not proved): on straight-line programs without loads and stores - no jump, no branch, hence
   ctx.sequenceID = 0 for the whole run and SequenceID(pc) = pc, monotone in program order -
       mvp71_run_os par ord fuel app labels st = mvp70_run_os par ord fuel app labels st
   (and therefore = MVP-6.3 one cycle later, Mvp70Sim63Proofs.v).  No counterexample: the sampled straight-line
   programs (with write-after-read and write-after-write pairs) agree at 1..3 cores, and so does the
   14-instruction example at 1..4 cores (mvp71_instances below).

   PROVED here:
     mvp71_regonly_sim_mvp63_refuted   WITHOUT the straight-line hypothesis the statement "MVP-7.1 = MVP-6.3 + one
                                       cycle on programs without loads and stores" is FALSE, as for MVP-8.0
                                       (Mvp80Sim63Refute.v): the 504-instruction program with a jump back by more
                                       than 2000 bytes gives x7 = 77 on MVP-6.3 and MVP-7.0, x7 = 1 on MVP-7.1 (the
                                       reader's sequence id 4004 is smaller than the writer's 4008 although the
                                       writer is older).
     reg_read_tag_newest               registerRead with a sequence id (7.1) returns what the newest-slot read
                                       (6.3 / 7.0) returns for a register whose newest transactionRAT slot was
                                       written by an instruction with a sequence id not greater than the reader's;
     eu_run71_sim, eu_prepare71_sim    run / prepareRun of MVP-7.1 are those of MVP-7.0 when the two register
                                       readers agree for the runner (rd_agree71);
     take71_nil, eu_cycle71_sim        executeUnit.Cycle of MVP-7.1 is that of MVP-7.0 when no runner has a preferred
                                       unit, the Pre hook finds no pending older runner, the readers agree;
     front71_sim                       the first half of a tick: with msi.staleState clear and runners that are
                                       neither loads nor stores (no preference is computed) it is front3.

   THE GAP.  The hypothesis rd_agree71 has to come from an invariant of the run: "every slot of transactionRAT read
   by a runner was written by an OLDER instruction".  On straight-line programs dispatch is in program order, a
   unit reads its operands in the cycle it takes the runner (or, for a forwarded runner, one cycle after its source
   ran) and a result reaches transactionRAT two cycles after its instruction was taken, so a younger writer cannot
   overtake an older reader; this timing invariant (for single-assignment programs it is in BI of Mvp63RefInv.v:
   bi_trat, tv) is not threaded through the loops over the units here, and x_prev is not covered by PX
   (front71_sim takes the runners pushed in the cycle as a hypothesis). *)
From Coq Require Import ZArith List Bool Lia.
From Maj Require Import Base.Outcome Base.GoInt Base.GoTypes Isa.Spec Isa.Seq Isa.Refine.
From Maj Require Import Gen.Latency Gen.RiscTables Gen.Opcodes Comp.Cache Comp.Rat Comp.RatProofs Mvp.Mvp12 Mvp.Mvp3 Mvp.Mvp5 Mvp.Mvp60 Mvp.Mvp63 Mvp.Mvp70 Mvp.Mvp71.
From Maj Require Import Mvp.Mvp60Proofs Mvp.Mvp63Proofs Mvp.Mvp70Proofs Mvp.Mvp70Sim63Defs Mvp.Mvp70Sim63Loops Mvp.Mvp70Sim63Proofs.
From Maj Require Import Mvp.Mvp63RefDefs Mvp.Mvp63RefProofs.
From Maj Require Mvp.Mvp62RefRel.
Import ListNotations.
Open Scope Z_scope.

(* ------------------------------------------------------------------ *)
(* 1. refutation without the straight-line hypothesis                   *)
(* ------------------------------------------------------------------ *)

Definition cx71_prog : list instr :=
  [I_j (mk_j 1); I_add (mk_add 7 5 0); I_ret mk_ret] ++ repeat (I_nop mk_nop) 499 ++
  [I_li (mk_li 5 77); I_j (mk_j 2)].
Definition cx71_labels : Z -> option Z :=
  fun l => if l =? 1 then Some 2008 else if l =? 2 then Some 4 else None.
Definition cx71_st : arch := st_of [(5, 1)] [].

Lemma cx71_runs :
  reg_only cx71_prog = true /\ wregs_nonneg cx71_prog = true /\
  (exists s3, mvp63_run_os 2 ord_asc 3000 cx71_prog cx71_labels cx71_st = (MDone 638 s3, false) /\ nth 7 (regs s3) 0 = 77) /\
  (exists s0, mvp70_run_os 2 ord_asc 3001 cx71_prog cx71_labels cx71_st = (MDone 639 s0, false) /\ nth 7 (regs s0) 0 = 77) /\
  (exists s1, mvp71_run_os 2 ord_asc 3001 cx71_prog cx71_labels cx71_st = (MDone 639 s1, false) /\ nth 7 (regs s1) 0 = 1).
Proof.
  split; [vm_compute; reflexivity|]. split; [vm_compute; reflexivity|].
  split; [|split]; (eexists; split; [vm_compute; reflexivity | vm_compute; reflexivity]).
Qed.

Theorem mvp71_regonly_sim_mvp63_refuted :
  ~ (forall app, reg_only app = true -> wregs_nonneg app = true ->
     forall par ord fuel labels st r os,
     r <> MOutOfFuel ->
     mvp63_run_os par ord fuel app labels st = (r, os) ->
     mvp71_run_os par ord (S fuel) app labels st = (plus_one_cycle r, os)).
Proof.
  intros H. destruct cx71_runs as (HA & HW & (s3 & E3 & R3) & _ & (s1 & E1 & R1)).
  assert (NF : MDone 638 s3 <> MOutOfFuel) by discriminate.
  pose proof (H cx71_prog HA HW 2%nat ord_asc 3000%nat cx71_labels cx71_st (MDone 638 s3) false NF E3) as H1.
  change (S 3000) with 3001%nat in H1. rewrite E1 in H1. cbn [plus_one_cycle] in H1.
  assert (S13 : s1 = s3) by congruence. rewrite S13 in R1. rewrite R3 in R1. discriminate.
Qed.

(* instances of the intended statement: the 14-instruction single-assignment example, 1..4 cores *)
Example mvp71_instances : forall par, In par [1; 2; 3; 4]%nat ->
  mvp71_run_os par ord_asc 3001 (map instr_of ex63_prog) no_labels zero32 =
  mvp70_run_os par ord_asc 3001 (map instr_of ex63_prog) no_labels zero32.
Proof. intros par [<-|[<-|[<-|[<-|[]]]]]; vm_compute; reflexivity. Qed.

(* ------------------------------------------------------------------ *)
(* 2. the register reads                                                *)
(* ------------------------------------------------------------------ *)

Lemma rev_seq_S : forall n, rev (seq 0 (S n)) = n :: rev (seq 0 n).
Proof. intros n. rewrite seq_S, rev_app_distr. reflexivity. Qed.

(* RAT.Find looks at the newest slot first *)
Lemma rat_find_newest : forall (t : @rat (Z * Z)) k pred v,
  rat_read tu0 t k = Some v -> pred v = true -> rat_find tu0 t k pred = Some v.
Proof.
  intros t k pred v HR HP. unfold rat_read in HR. unfold rat_find.
  destruct (aget k (r_tab t)) as [e|]; [|discriminate]. inversion HR; subst.
  unfold e_find. rewrite rev_seq_S. cbn [first_at]. rewrite HP. reflexivity.
Qed.

Lemma rat_find_absent : forall (t : @rat (Z * Z)) k pred, rat_read tu0 t k = None -> rat_find tu0 t k pred = None.
Proof.
  intros t k pred HR. unfold rat_read in HR. unfold rat_find. destruct (aget k (r_tab t)); [discriminate|reflexivity].
Qed.

Lemma reg_read_tag_newest : forall fw crat trat sid reg,
  (forall v, rat_read tu0 trat reg = Some v -> fst v <= sid) ->
  reg_read_tag fw crat trat sid reg = reg_read3 fw crat trat reg.
Proof.
  intros fw crat trat sid reg H. unfold reg_read_tag, reg_read3.
  destruct (reg =? fst fw); [reflexivity|]. cbv zeta.
  destruct (sid =? 0); [reflexivity|].
  destruct (rat_read tu0 trat reg) as [v|] eqn:ER.
  - rewrite (rat_find_newest trat reg _ v ER); [reflexivity|]. apply Z.leb_le. apply H. reflexivity.
  - rewrite (rat_find_absent trat reg _ ER). reflexivity.
Qed.

(* the two register readers agree for this runner in this machine state *)
Definition rd_agree71 (x : mx) (r : runner3) : Prop :=
  forall reg, fst (rr71 x (q_pc r) (q_seq r)) reg = rr3 x (q_pc r) reg.

(* it is enough that every slot the runner can see as newest is not younger than the runner *)
Lemma rd_agree71_newest : forall x r,
  (forall reg v, rat_read tu0 (x_trat x) reg = Some v -> fst v <= q_seq r) -> rd_agree71 x r.
Proof. intros x r H reg. unfold rr71, rr3. cbn [fst]. apply reg_read_tag_newest. intros v HV. eapply H. exact HV. Qed.

(* the receive step of prepareRun *)
Definition recv3 (x : mx) (r : runner3) : option (mx * runner3) :=
  match q_recv r with
  | None => Some (x, r)
  | Some ch =>
      match aget ch (x_chan x) with
      | None => None
      | Some v =>
          Some (set_forward3 (set_chan3 x (filter (fun p => negb (fst p =? ch)) (x_chan x))) (q_pc r) (q_freg r) v,
                mk_r3 (q_r r) (q_id r) (q_fwder r) None (q_freg r))
      end
  end.

Definition prep_agree71 (x : mx) (r : runner3) : Prop :=
  forall x0 r1, recv3 x r = Some (x0, r1) -> rd_agree71 (bu_assert3 x0 (q_r r1)) r1.

(* ------------------------------------------------------------------ *)
(* 3. the execute units                                                 *)
(* ------------------------------------------------------------------ *)

Lemma instr_Run_seq0 : forall i f labels pc mem s, instr_Run i f labels pc mem s = instr_Run i f labels pc mem 0.
Proof. intros i f labels pc mem s. destruct i; reflexivity. Qed.

Lemma eu_run71_sim : forall labels ord cycle id w e,
  (forall r, h_runner e = Some r -> rd_agree71 (w_x w) r) ->
  eu_run7 hooks71 labels ord cycle id w e = eu_run7 hooks70 labels ord cycle id w e.
Proof.
  intros labels ord cycle id w e H. unfold eu_run7. cbn [hooks70 hooks71 k_rr].
  destruct (h_runner e) as [r|]; [|reflexivity].
  specialize (H r eq_refl). unfold rd_agree71 in H. unfold rr71 in *. cbn [fst] in H. cbv zeta. cbv beta iota.
  rewrite (instr_Run_seq0 _ _ _ _ _ (q_seq r)).
  rewrite (Mvp62RefRel.instr_Run_ext _ _ _ labels (q_pc r) (h_memory e) 0 H). reflexivity.
Qed.

Lemma eu_prepare71_sim : forall NN labels ord cycle id w e,
  (forall r, h_runner e = Some r -> NM NN r /\ prep_agree71 (w_x w) r) ->
  eu_prepare7 hooks71 labels ord cycle id w e = eu_prepare7 hooks70 labels ord cycle id w e.
Proof.
  intros NN labels ord cycle id w e H. unfold eu_prepare7. cbv zeta.
  destruct (negb (bb_canadd (m_wbus (x_m (w_x w))))); [reflexivity|].
  destruct (h_runner e) as [r|]; [|reflexivity].
  destruct (H r eq_refl) as [HN HA]. unfold prep_agree71 in HA. fold (recv3 (w_x w) r).
  destruct (recv3 (w_x w) r) as [[x0 r1]|] eqn:EV; [|reflexivity].
  assert (HN1 : NM NN r1).
  { unfold recv3 in EV. destruct (q_recv r) as [ch|].
    - destruct (aget ch _); [|discriminate]. inversion EV; subst. exact HN.
    - inversion EV; subst. exact HN. }
  cbn [hooks70 hooks71 k_rr]. unfold rr71 at 1. cbv beta iota.
  rewrite !nomem_no_read by exact (proj1 HN1).
  apply eu_run71_sim. intros r' Hr'. cbn [set_hco h_runner] in Hr'. inversion Hr'; subst r'.
  cbn [set_wx w_x]. apply HA. reflexivity.
Qed.

(* pick without preferences is Get *)
Lemma pick71_nil : forall w id q, w_pref w = [] ->
  pick71 w id q = match q with [] => ([], None) | r :: t => (t, Some r) end.
Proof. intros w id [|r t] H; cbn [pick71]; [reflexivity|]. unfold pref_of. rewrite H. reflexivity. Qed.

Lemma take71_nil : forall id w, w_pref w = [] -> k_take hooks71 id w = k_take hooks70 id w.
Proof.
  intros id w H. cbn [hooks70 hooks71 k_take]. unfold take71. cbv zeta. rewrite (pick71_nil w id _ H). unfold bb_get.
  destruct (bb_q (x_ebus (w_x w))); reflexivity.
Qed.

(* the conditions under which one call of executeUnit.Cycle of MVP-7.1 is the call of MVP-7.0 *)
Definition eu_cond71 (NN : Prop) (w : w7) (e : eu7) : Prop :=
  w_pref w = [] /\
  (eu_pre7 e = true -> pending71 w (h_seq e) = false) /\
  (eu_pre7 e = false ->
     match h_co e with
     | HNone => forall r b', bb_get (x_ebus (w_x w)) = (b', Some r) -> NM NN r /\ prep_agree71 (set_ebus3 (w_x w) b') r
     | HPrepare => forall r, h_runner e = Some r -> NM NN r /\ prep_agree71 (w_x w) r
     | HRead _ => False          (* never on a program without loads *)
     | HWrite _ _ => True
     end).

Lemma eu_cycle71_sim : forall NN labels ord cycle id w e, eu_cond71 NN w e ->
  eu_cycle7 hooks71 labels ord cycle id w e = eu_cycle7 hooks70 labels ord cycle id w e.
Proof.
  intros NN labels ord cycle id w e (C1 & C2 & C3). unfold eu_cycle7.
  destruct (eu_pre7 e) eqn:EP.
  - cbn [hooks70 hooks71 k_pending]. rewrite (C2 eq_refl). reflexivity.
  - specialize (C3 eq_refl). destruct (h_co e) eqn:EC.
    + rewrite (take71_nil id w C1). cbn [hooks70 k_take]. unfold bb_get in *.
      destruct (bb_q (x_ebus (w_x w))) as [|r q']; [reflexivity|].
      apply (eu_prepare71_sim NN). intros r' Hr'. cbn [h_runner] in Hr'. inversion Hr'; subst r'.
      cbn [set_wx w_x]. apply C3. reflexivity.
    + apply (eu_prepare71_sim NN). exact C3.
    + contradiction.
    + reflexivity.
Qed.

(* ------------------------------------------------------------------ *)
(* 4. the first half of a tick                                          *)
(* ------------------------------------------------------------------ *)

(* no preference is computed for an instruction that is neither a load nor a store *)
Lemma pref71_nomem : forall NN w r, NM NN r -> pref71 w r = Ok None.
Proof.
  intros NN w r [HN _]. unfold pref71. cbv zeta. unfold rr71. cbv beta iota.
  unfold Mvp4Skel.nomem in HN. apply andb_true_iff in HN as [H1 H2].
  apply negb_true_iff in H1. apply negb_true_iff in H2. rewrite H1, H2. reflexivity.
Qed.

Lemma add_prefs71_nomem : forall NN rs w, Forall (NM NN) rs -> add_prefs71 w rs = Ok w.
Proof.
  intros NN. induction rs as [|r t IH]; intros w H; cbn [add_prefs71]; [reflexivity|].
  inversion H as [|? ? H1 HT]; subst. rewrite (pref71_nomem NN w r H1). cbn [bind]. apply IH. exact HT.
Qed.

(* stated with the explicit equalities front3_eq / front71_eq (Mvp63Proofs.v, Mvp70Proofs.v): the hypothesis is about
   the runners the control unit pushed in this cycle, x_prev afterwards *)
Lemma front71_sim : forall NN app ord cycle w,
  i_stale (w_i w) = false ->
  (forall fu1 l1i1 dbus1 x1,
     fu_cycle6 app cycle (m_fu (x_m (connected3 (w_x w) cycle))) (m_l1i (x_m (connected3 (w_x w) cycle)))
               (m_dbus (x_m (connected3 (w_x w) cycle))) = Ok (fu1, l1i1, dbus1) ->
     du_cycle3 app cycle (set_m (connected3 (w_x w) cycle)
                                (set_dbus (set_l1i (set_fu (x_m (connected3 (w_x w) cycle)) fu1) l1i1) dbus1)) = Ok x1 ->
     Forall (NM NN) (x_prev (cu_cycle3 ord cycle x1))) ->
  k_front hooks71 app ord cycle w = k_front hooks70 app ord cycle w.
Proof.
  intros NN app ord cycle w HS HP. cbn [hooks70 hooks71 k_front]. rewrite front71_eq, front3_eq, HS.
  destruct (fu_cycle6 app cycle (m_fu (x_m (connected3 (w_x w) cycle))) (m_l1i (x_m (connected3 (w_x w) cycle)))
                      (m_dbus (x_m (connected3 (w_x w) cycle)))) as [[[fu1 l1i1] dbus1]|er|] eqn:EF; [|reflexivity|reflexivity].
  destruct (du_cycle3 app cycle (set_m (connected3 (w_x w) cycle)
              (set_dbus (set_l1i (set_fu (x_m (connected3 (w_x w) cycle)) fu1) l1i1) dbus1))) as [x1|er|] eqn:ED;
    [|reflexivity|reflexivity].
  cbn [bind]. apply (add_prefs71_nomem NN). exact (HP fu1 l1i1 dbus1 x1 eq_refl ED).
Qed.

Print Assumptions mvp71_regonly_sim_mvp63_refuted.
Print Assumptions mvp71_instances.
Print Assumptions reg_read_tag_newest.
Print Assumptions eu_cycle71_sim.
Print Assumptions front71_sim.
