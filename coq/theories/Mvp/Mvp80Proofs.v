(* Facts about the cycle-level model of MVP-8.0 (Mvp80.v).

   1. mvp80_cycles_pos: a run that returns reports at least one cycle.
   2. cu_dispatch_bound8 / mvp80_dispatch_width: the control unit never fills the execute bus beyond its buffer
      length (2): at most two instructions are dispatched per cycle whatever the number of cores.
   3. Witnesses, closed by vm_compute on the model (the Go code gives the same lines, bin/one_m80.py):
        wrong_path_store_panics  a mispredicted branch with a wrong-path store in flight: the stale key of l1LockSems
                                 (cacheController.flush deletes from the wrong map) is unlocked twice -> panic
        load_overtakes_store     no memory ordering between cores: a load returns the value from before an older store
        store_keeps_scoreboard   a store never removes its registers from the scoreboard: PendingReadRegisters of
                                 its registers stay at 1 for ever *)
From Coq Require Import ZArith List Bool Lia.
From Maj Require Import Base.Outcome Base.GoInt Base.GoTypes Isa.Spec Isa.Seq.
From Maj Require Import Gen.Latency Gen.RiscTables Gen.Opcodes Comp.Cache Comp.Rat Mvp.Mvp12 Mvp.Mvp3 Mvp.Mvp5 Mvp.Mvp60 Mvp.Mvp63 Mvp.Mvp80.
From Maj Require Import Mvp.Mvp60Proofs Mvp.Mvp63Proofs.
Import ListNotations.
Open Scope Z_scope.

(* ------------------------------------------------------------------ *)
(* 1. cycles                                                            *)
(* ------------------------------------------------------------------ *)

Lemma cc_writeback_lines_ge : forall ls w id cycles w' c,
  cc_writeback_lines ls w id cycles = Ok (w', c) -> cycles <= c.
Proof.
  induction ls as [|l t IH]; intros w id cycles w' c H; simpl in H.
  - inversion H; lia.
  - destruct (negb _) in H.
    + now apply IH in H.
    + destruct (get (w_l3 w) (lo l)) as [[l3 [v|]]| |]; simpl in H; try discriminate.
      * destruct (l3_locked _ _) in H; try discriminate.
        destruct (cc_write_l3 _ _ _) in H; simpl in H; try discriminate.
        apply IH in H. unfold L3Access in H. lia.
      * destruct (write_to_memory _ _ _) in H; simpl in H; try discriminate.
        apply IH in H. unfold MemoryAccess in H. lia.
Qed.

Lemma ccs_writeback_ge : forall ccs w cycles w' c,
  ccs_writeback w ccs cycles = Ok (w', c) -> cycles <= c.
Proof.
  induction ccs as [|cc t IH]; intros w cycles w' c H; simpl in H.
  - inversion H; lia.
  - destruct (cc_writeback w cc) as [[w1 c1]| |] eqn:E; simpl in H; try discriminate.
    apply IH in H. unfold cc_writeback in E.
    destruct (existing_lines (c_l1d cc)); simpl in E; try discriminate.
    apply cc_writeback_lines_ge in E. lia.
Qed.

Lemma l3_writeback_lines_ge : forall ls w cycles w' c,
  l3_writeback_lines ls w cycles = Ok (w', c) -> cycles <= c.
Proof.
  induction ls as [|l t IH]; intros w cycles w' c H; simpl in H.
  - inversion H; lia.
  - destruct (l3_locked _ _) in H; try discriminate.
    destruct (write_to_memory _ _ _) in H; simpl in H; try discriminate.
    apply IH in H. unfold MemoryAccess in H. lia.
Qed.

Lemma finish8_ge : forall ord y cycle c st, finish8 ord y cycle = MDone c st -> cycle <= c.
Proof.
  intros ord y cycle c st H. unfold finish8 in H.
  destruct (ccs_writeback (mw_of y) (y_ccs y) 0) as [[w1 c1]| |] eqn:E1; simpl in H; try discriminate.
  destruct (l3_writeback_lines (lines (w_l3 w1)) w1 0) as [[w2 c2]| |] eqn:E2; simpl in H; try discriminate.
  inversion H; subst. apply ccs_writeback_ge in E1. apply l3_writeback_lines_ge in E2. lia.
Qed.

Lemma ret_check8_res : forall s, exists s', ret_check8 s = VCont s' /\ v_cycle s' = v_cycle s.
Proof. intros s. unfold ret_check8. destruct (_ && _); eexists; split; reflexivity. Qed.

Definition not_done (r : step_res8) : Prop :=
  match r with VDone (MDone _ _) _ => False | _ => True end.
Definition cont_ge (n : Z) (r : step_res8) : Prop :=
  match r with VCont s' => n <= v_cycle s' | _ => True end.

Lemma res_of8_inv : forall A os (o : outcome A) k r,
  res_of8 os o k = r ->
  (exists x, o = Ok x /\ k x = r) \/ (exists e, o = Err e /\ r = VDone (MErr e) os) \/ (o = Panic /\ r = VDone MPanic os).
Proof. intros A os o k r H. destruct o; simpl in H; eauto. Qed.

Lemma res_of8_prop : forall A os (o : outcome A) k (P : step_res8 -> Prop),
  (forall x, P (k x)) -> (forall e, P (VDone (MErr e) os)) -> P (VDone MPanic os) -> P (res_of8 os o k).
Proof. intros A os o k P H1 H2 H3. destruct o; simpl; auto. Qed.

Lemma flush_advance8_res : forall s k seq pc from empty,
  not_done (flush_advance8 s k seq pc from empty) /\ cont_ge (v_cycle s) (flush_advance8 s k seq pc from empty).
Proof.
  intros. unfold flush_advance8.
  destruct (flush_next _ _ _); [simpl; split; [exact I | lia] |].
  destruct empty; [| simpl; split; [exact I | lia]].
  split; apply res_of8_prop; simpl; intros; auto; unfold Flush; lia.
Qed.

Lemma back8_res : forall s cycle z, not_done (back8 s cycle z) /\ cont_ge cycle (back8 s cycle z).
Proof.
  intros s cycle [[y eus1] o]. unfold back8.
  destruct (y_err o); [simpl; auto |].
  split; apply res_of8_prop; simpl; intros; auto.
  - destruct (y_ret o).
    + match goal with |- not_done (ret_check8 ?a) => destruct (ret_check8_res a) as [s' [E _]]; rewrite E; exact I end.
    + destruct (y_flush o); [exact I |]. destruct (is_empty8 _ _ _); exact I.
  - destruct (y_ret o).
    + match goal with |- cont_ge _ (ret_check8 ?a) => destruct (ret_check8_res a) as [s' [E L]]; rewrite E; simpl in *; lia end.
    + destruct (y_flush o); [simpl; lia |]. destruct (is_empty8 _ _ _); simpl; lia.
Qed.

(* how a step can end *)
Lemma step8_done : forall app labels ord s c st os,
  step8 app labels ord s = VDone (MDone c st) os -> v_cycle s + 1 <= c.
Proof.
  intros app labels ord s c st os H. unfold step8 in H.
  assert (ND : forall r, not_done r -> r = VDone (MDone c st) os -> False) by (intros r N E; subst r; exact N).
  destruct (v_mode s) as [| | seq pc from | k seq pc from empty |].
  - exfalso. revert H. apply ND. repeat (apply res_of8_prop; simpl; intros; auto). apply back8_res.
  - exfalso. revert H. apply ND. repeat (apply res_of8_prop; simpl; intros; auto).
    destruct x0 as [[y1 eus1] er]. destruct er; [exact I |].
    apply res_of8_prop; simpl; intros; auto.
    match goal with |- not_done (ret_check8 ?a) => destruct (ret_check8_res a) as [s' [E _]]; rewrite E; exact I end.
  - exfalso. revert H. apply ND. repeat (apply res_of8_prop; simpl; intros; auto).
    destruct x0 as [[y1 eus1] acc]. destruct (a_err acc); [exact I |]. apply flush_advance8_res.
  - exfalso. revert H. apply ND. destruct (nth_error (v_wus s) k); [| exact I].
    apply res_of8_prop; simpl; intros; auto. apply flush_advance8_res.
  - apply res_of8_inv in H. destruct H as [[y1 [_ H]] | [[? [_ H]] | [_ H]]]; try discriminate.
    apply res_of8_inv in H. destruct H as [[z [_ H]] | [[? [_ H]] | [_ H]]]; try discriminate.
    destruct z as [[y2 eus1] busy]. destruct (_ && _) in H; try discriminate.
    inversion H as [[HF HO]]. now apply finish8_ge in HF.
Qed.

Lemma step8_cont : forall app labels ord s s',
  step8 app labels ord s = VCont s' -> v_cycle s <= v_cycle s'.
Proof.
  intros app labels ord s s' H. unfold step8 in H.
  assert (CG : forall n r, cont_ge n r -> r = VCont s' -> n <= v_cycle s') by (intros n r N E; subst r; exact N).
  destruct (v_mode s) as [| | seq pc from | k seq pc from empty |].
  - cut (v_cycle s + 1 <= v_cycle s'); [lia |]. revert H. apply CG.
    repeat (apply res_of8_prop; simpl; intros; auto). apply back8_res.
  - revert H. apply CG. repeat (apply res_of8_prop; simpl; intros; auto).
    destruct x0 as [[y1 eus1] er]. destruct er; [exact I |].
    apply res_of8_prop; simpl; intros; auto.
    match goal with |- cont_ge _ (ret_check8 ?a) => destruct (ret_check8_res a) as [s2 [E L]]; rewrite E; simpl in *; lia end.
  - cut (v_cycle s + 1 <= v_cycle s'); [lia |]. revert H. apply CG.
    repeat (apply res_of8_prop; simpl; intros; auto).
    destruct x0 as [[y1 eus1] acc]. destruct (a_err acc); [exact I |].
    match goal with |- cont_ge _ (flush_advance8 ?a ?b ?c ?d ?e ?f) =>
      pose proof (proj2 (flush_advance8_res a b c d e f)) as L; simpl in L; exact L end.
  - revert H. apply CG. destruct (nth_error (v_wus s) k); [| exact I].
    apply res_of8_prop; simpl; intros; auto.
    match goal with |- cont_ge _ (flush_advance8 ?a ?b ?c ?d ?e ?f) =>
      pose proof (proj2 (flush_advance8_res a b c d e f)) as L; simpl in L; exact L end.
  - cut (v_cycle s + 1 <= v_cycle s'); [lia |]. revert H. apply CG.
    repeat (apply res_of8_prop; simpl; intros; auto).
    destruct x0 as [[y2 eus1] busy]. destruct (_ && _); simpl; [exact I | lia].
Qed.

Lemma run8_st_cycles : forall fuel app labels ord s c st os,
  0 <= v_cycle s ->
  run8_st fuel app labels ord s = inl (MDone c st, os) -> 1 <= c.
Proof.
  induction fuel as [|f IH]; intros app labels ord s c st os Hs H; simpl in H; try discriminate.
  destruct (step8 app labels ord s) as [r os'|s'] eqn:E.
  - inversion H; subst. apply step8_done in E. lia.
  - apply step8_cont in E. eapply IH; [|exact H]. lia.
Qed.

(* a run that returns reports at least one cycle *)
Theorem mvp80_cycles_pos : forall par ord fuel app labels st c st',
  mvp80_run par ord fuel app labels st = MDone c st' -> 1 <= c.
Proof.
  intros par ord fuel app labels st c st' H. unfold mvp80_run, mvp80_run_os in H.
  destruct (init8 par ord app st) as [s| |] eqn:EI; try discriminate.
  destruct (run8_st fuel app labels ord s) as [[r os]|s'] eqn:ER; simpl in H; try discriminate.
  subst r. eapply run8_st_cycles; [|exact ER].
  unfold init8 in EI.
  destruct (new_cache l1LineSize l1Size); try discriminate.
  destruct (new_cache l3LineSize8 l3Size8); try discriminate.
  destruct (new_cache l1dLineSize l1dSize); try discriminate.
  inversion EI; simpl; lia.
Qed.

(* ------------------------------------------------------------------ *)
(* 2. dispatch width                                                    *)
(* ------------------------------------------------------------------ *)

(* controlUnit.cycle keeps the buffer of the execute bus within its length *)
Theorem cu_dispatch_bound8 : forall ord cycle y,
  ebus_ok (y_x y) ->
  ebus_ok (y_x (cu_cycle8 ord cycle y)) /\ bb_bl (x_ebus (y_x (cu_cycle8 ord cycle y))) = bb_bl (x_ebus (y_x y)).
Proof.
  intros ord cycle y Hx. unfold cu_cycle8.
  destruct (k_stale (y_msi y)); simpl; [auto |].
  apply cu_dispatch_bound3; exact Hx.
Qed.

Corollary mvp80_dispatch_width : forall ord cycle y,
  bb_bl (x_ebus (y_x y)) = 2 -> ebus_ok (y_x y) ->
  zlen (bb_buf (x_ebus (y_x (cu_cycle8 ord cycle y)))) <= 2.
Proof.
  intros ord cycle y HB Hx. destruct (cu_dispatch_bound8 ord cycle y Hx) as [H1 H2].
  unfold ebus_ok in H1. rewrite H2, HB in H1. exact H1.
Qed.

(* ------------------------------------------------------------------ *)
(* 3. witnesses (the Go code gives the same lines: bin/one_m80.py)      *)
(* ------------------------------------------------------------------ *)

(* lw t1, 0(zero) ; beq zero, zero, L1 ; sw t0, 64(zero) ; L1: li a0, 9 ; ret
   The branch is mispredicted while the wrong-path store holds the write lock of its line.  With three cores the
   store's unit drops it in its Pre hook (executeUnit.flush -> cacheController.flush: Unlock, but the key is
   deleted from the WRONG map and stays in l1LockSems); CPU.flush then flushes every controller again and the
   semaphore is unlocked a second time: panic("write is negative").  With one or two cores the store has not
   started when the flush comes. *)
Definition wps_prog : list instr :=
  [I_lw (mk_lw 6 0 0); I_beq (mk_beq 0 0 1); I_sw (mk_sw 5 64 0); I_li (mk_li 10 9); I_ret mk_ret].
Example wrong_path_store_panics :
  reg_of (mvp80_run 2 ord_asc 4000 wps_prog (one_label 12) (st_of [(5, 7)] [])) 10 = Some 9 /\
  mvp80_run 3 ord_asc 4000 wps_prog (one_label 12) (st_of [(5, 7)] []) = MPanic.
Proof. vm_compute. split; reflexivity. Qed.

(* lw t1, 0(zero) ; lw t2, 4(zero) ; lw t3, 8(zero) ; sw t0, 12(zero) ; lw a0, 12(zero) ; ret     t0 = 7
   No memory ordering: with three cores the last load is served before the store of the same word is performed
   and returns the old value 0; with one core it returns 7. *)
Definition stale_prog : list instr :=
  [I_lw (mk_lw 6 0 0); I_lw (mk_lw 7 4 0); I_lw (mk_lw 28 8 0); I_sw (mk_sw 5 12 0); I_lw (mk_lw 10 12 0); I_ret mk_ret].
Example load_overtakes_store :
  reg_of (mvp80_run 1 ord_asc 4000 stale_prog no_labels (st_of [(5, 7)] [])) 10 = Some 7 /\
  reg_of (mvp80_run 3 ord_asc 4000 stale_prog no_labels (st_of [(5, 7)] [])) 10 = Some 0.
Proof. vm_compute. split; reflexivity. Qed.

(* li t0, 11 ; sw t0, 8(zero): a store is never put on the write bus and nothing else removes its registers from
   the scoreboard: in the snapshot after 600 ticks the store is done (its line is modified in L1; ctx.Memory is only
   written at the very end) and PendingReadRegisters[t0] is still 1 *)
Definition stsb_prog : list instr := [I_li (mk_li 5 11); I_sw (mk_sw 5 8 0); I_li (mk_li 6 1); I_ret mk_ret].
Example store_keeps_scoreboard :
  match mvp80_run_snap 1 ord_asc 600 stsb_prog no_labels (st_of [] []) with
  | inr (_, _, pw, pr, _, _) => (nth 5 pw 0, nth 5 pr 0)
  | inl _ => (-1, -1)
  end = (0, 1).
Proof. vm_compute. reflexivity. Qed.

Print Assumptions mvp80_cycles_pos.
Print Assumptions cu_dispatch_bound8.
Print Assumptions wrong_path_store_panics.
