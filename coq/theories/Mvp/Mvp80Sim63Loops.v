(* Lock-step simulation MVP-8.0 / MVP-6.3 on programs without loads and stores, continued: control unit, front half
   of a tick, snoops, and the main loop over the execute units, under the conditions of Mvp80Sim63Defs.v
   threaded along the loop (main_cond). *)
From Coq Require Import ZArith List Bool Lia.
From Maj Require Import Base.Outcome Base.GoInt Base.GoTypes Isa.Spec Isa.Seq.
From Maj Require Import Gen.Latency Gen.RiscTables Gen.Opcodes Comp.Cache Comp.Rat Mvp.Mvp12 Mvp.Mvp3 Mvp.Mvp5 Mvp.Mvp60 Mvp.Mvp63 Mvp.Mvp80.
From Maj Require Import Mvp.Mvp60Proofs Mvp.Mvp63Proofs Mvp.Mvp80Proofs Mvp.Mvp80RegOnly Mvp.Mvp80RegOnly63 Mvp.Mvp80Sim63Defs.
Import ListNotations.
Open Scope Z_scope.

(* controlUnit.cycle with a fresh copy of the MSI states is the control unit of MVP-6.3 *)
Lemma cu_cycle_sim : forall ord cycle y, k_stale (y_msi y) = false ->
  y_x (cu_cycle8 ord cycle y) = cu_cycle3 ord cycle (y_x y).
Proof. intros ord cycle y H. unfold cu_cycle8. rewrite H. reflexivity. Qed.

Definition lift_y (o : outcome my) : outcome mx :=
  match o with Ok y => Ok (y_x y) | Err e => Err e | Panic => Panic end.

(* the four Connect calls, fetch, decode, control *)
Lemma front_sim : forall app ord cycle y, k_stale (y_msi y) = false ->
  front3 app ord cycle (y_x y) = lift_y (front8 app ord cycle y).
Proof.
  intros app ord cycle y H. unfold front3, front8. cbv zeta.
  destruct (fu_cycle6 _ _ _ _ _) as [[[fu1 l1i1] dbus1]|er|]; [|reflexivity|reflexivity].
  cbn [bind]. destruct (du_cycle3 _ _ _) as [x1|er|]; [|reflexivity|reflexivity].
  cbn [bind lift_y]. rewrite cu_cycle_sim by exact H. reflexivity.
Qed.

(* the snoop coroutines of an idle memory system leave the pipeline state alone *)
Lemma snoops_x : forall y, y_x (or_os8 (set_ccs (put_mw y (mw_of y)) (y_ccs y)) false) = y_x y.
Proof.
  intros [[m eb pe pr pcb sq cr tr fw ch nx os] k cp pf cs]. destruct m.
  destruct os; reflexivity.
Qed.

Section Loops.
  Variables (mem0 : list Z) (c3 : cache) (k0 : msi8) (ccs0 : list cc8).
  Hypothesis Hccs : Forall cc_idle ccs0.
  Hypothesis Hcmds : k_cmds k0 = [].
  Notation INV := (INV mem0 c3 k0 ccs0).

  Lemma snoops_sim : forall ord cycle y, INV y -> exists y', snoops8 ord cycle y = Ok y' /\ y_x y' = y_x y /\ INV y'.
  Proof.
    intros ord cycle y HI. eexists. split; [apply (snoops8_idle mem0 c3 k0 ccs0 Hcmds Hccs); exact HI|].
    split; [apply snoops_x|].
    eapply (snoops8_inv mem0 c3 k0 ccs0 Hcmds Hccs ord cycle); [|exact HI].
    apply (snoops8_idle mem0 c3 k0 ccs0 Hcmds Hccs). exact HI.
  Qed.

  Definition acc_next (acc o : eu_out3) : eu_out3 :=
    let take := y_flush o && (negb (y_flush acc) || (y_seq o <? y_seq acc)) in
    mk_euo3 (y_flush acc || y_flush o) (if take then y_seq o else y_seq acc)
            (if take then y_pc o else y_pc acc) (y_ret acc || y_ret o) None.

  (* the conditions of Mvp80Sim63Defs.v at every call of executeUnit.Cycle of the main loop of one tick *)
  Fixpoint main_cond (labels : Z -> option Z) (ord : Z -> Z -> list Z -> list Z) (cycle : Z) (y : my) (i : nat)
           (eus : list eu8) (acc : eu_out3) : Prop :=
    match eus with
    | [] => True
    | e :: t =>
        eu_cond y (set_hseq e (y_seq acc)) /\
        forall y1 e1 o, eu_cycle8 labels ord cycle y i (set_hseq e (y_seq acc)) = Ok (y1, e1, o) -> y_err o = None ->
                        main_cond labels ord cycle y1 (S i) t (acc_next acc o)
    end.

  Definition lift_eus {A} (o : outcome (my * list eu8 * A)) : outcome (mx * list eu3 * A) :=
    match o with Ok (y', eus', a) => Ok (y_x y', map eu_of eus', a) | Err e => Err e | Panic => Panic end.

  Lemma eus_main_sim : forall labels ord cycle eus y i acc,
    INV y -> Forall EU eus -> (i + length eus <= length ccs0)%nat -> main_cond labels ord cycle y i eus acc ->
    eus_main3 labels ord cycle (y_x y) (map eu_of eus) acc = (false, lift_eus (eus_main8 labels ord cycle y i eus acc)).
  Proof.
    intros labels ord cycle. induction eus as [|e t IH]; intros y i acc HI HE Hi HC; [reflexivity|].
    cbn [map eus_main3 eus_main8]. cbn [length] in Hi. destruct HC as [HC1 HC2].
    inversion HE as [|? ? HE1 HET]; subst.
    change (mk_eu3 (g_co (eu_of e)) (g_memory (eu_of e)) (g_runner (eu_of e)) (y_seq acc)) with (eu_of (set_hseq e (y_seq acc))).
    rewrite (eu_cycle_sim mem0 c3 k0 ccs0 Hccs labels ord cycle y i (set_hseq e (y_seq acc)) HI HE1) by (lia || exact HC1).
    destruct (eu_cycle8 labels ord cycle y i (set_hseq e (y_seq acc))) as [[[y1 e1] o]|er|] eqn:E1;
      [|reflexivity|reflexivity].
    cbn [lift8 bind].
    destruct (eu_cycle8_inv mem0 c3 k0 ccs0 Hccs _ _ _ _ _ _ _ _ _ E1 HI HE1) as [HI1 HE1'].
    destruct (y_err o) eqn:EO; [reflexivity|].
    cbv zeta. fold (acc_next acc o).
    rewrite (IH y1 (S i) (acc_next acc o) HI1 HET) by (lia || exact (HC2 y1 e1 o eq_refl EO)).
    destruct (eus_main8 labels ord cycle y1 (S i) t (acc_next acc o)) as [[[y2 t'] a2]|er|]; reflexivity.
  Qed.
End Loops.

Print Assumptions front_sim.
Print Assumptions snoops_sim.
Print Assumptions eus_main_sim.
