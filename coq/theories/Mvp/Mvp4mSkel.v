(* The skeleton of MVP-4 for programs WITH loads and stores whose stores hit in the
   L1D (see Mvp4Skel.v for the register-only skeleton and the idea).  The skeleton
   is driven by the sequence of events (pc, loaded addresses, stored addresses) of
   the sequential run; of the L1D it keeps the recency list of line bases only. *)
From Coq Require Import ZArith List Bool Lia.
From Maj Require Import Base.Outcome Base.GoInt Base.GoTypes Isa.Spec Isa.Seq Isa.Refine.
From Maj Require Import Gen.Latency Gen.RiscTables Gen.Opcodes Comp.Cache.
From Maj Require Import Mvp.Mvp12 Mvp.Mvp3 Mvp.Mvp3Proofs Mvp.Mvp4 Mvp.Mvp4Skel.
Import ListNotations.
Open Scope Z_scope.

Definition ev_pc (e : event) : Z := fst (fst e).
Definition ev_la (e : event) : list Z := snd (fst e).
Definition ev_sa (e : event) : list Z := snd e.

(* the events of the sequential run INCLUDING the pc at which it halts *)
Fixpoint seq_evs (fuel : nat) (p : list sinstr) (labels : Z -> option Z) (st : arch) (pc : Z) : list event :=
  match fuel with
  | O => []
  | S f =>
      (pc,
       match nth_error p (Z.to_nat (pc / 4)) with Some i => load_addrs i (rget (regs st)) | None => [] end,
       match nth_error p (Z.to_nat (pc / 4)) with Some i => store_addrs i (rget (regs st)) | None => [] end)
      :: match Seq.step p labels st pc with
         | Next st' pc' => seq_evs f p labels st' pc'
         | _ => []
         end
  end.

(* every store of the run hits in the L1D (its line was loaded before and is still
   resident); [tg] is the recency list of the L1D *)
Fixpoint stores_hit (tg : list Z) (evs : list event) : bool :=
  match evs with
  | [] => true
  | ev :: t =>
      let r1 := fst (a_load tg (ev_la ev)) in
      snd (a_get_all r1 (ev_sa ev)) && stores_hit (fst (a_get_all r1 (ev_sa ev))) t
  end.

Record skm := mk_skm { m_fu : fu_t; m_l1i : cache; m_dbus : sbus Z; m_ebus : sbus (instr * Z);
                       m_eu : eu_t; m_pw : list Z; m_wb : option (list Z); m_dt : list Z }.

(* the execute unit; [la] are the load addresses of the instruction at the head of the path *)
Definition skm_eu (e : eu_t) (ebus : sbus (instr * Z)) (pw : list Z) (dt : list Z) (la : list Z)
  : eu_t * sbus (instr * Z) * list Z * eu_act :=
  if eu_pending_read e then
    let rem := eu_remaining e - 1 in
    if negb (rem =? 0) then (set_rem e rem, ebus, dt, ANone)
    else
      match eu_runner e with
      | None => (e, ebus, dt, AStuck)
      | Some (i, pc) =>
          let dt' := match eu_memory e with
                     | Some _ => dt
                     | None => fst (a_get_all (a_fill dt (hd 0 (eu_addrs e))) (eu_addrs e))
                     end in
          (eu_done (mk_eu (eu_processing e) false (eu_addrs e) None rem (eu_runner e)), ebus, dt', AExec i pc)
      end
  else
  let '(e1, ebus1, have) := eu_intake e ebus in
  if negb have then (e1, ebus1, dt, ANone) else
  let rem := eu_remaining e1 - 1 in
  if negb (rem =? 0) then (set_rem e1 rem, ebus1, dt, ANone) else
  match eu_runner e1 with
  | None => (e1, ebus1, dt, AStuck)
  | Some (i, pc) =>
      if pw_hazard pw (instr_ReadRegisters i) then (set_rem e1 1, ebus1, dt, ANone)
      else
        match la with
        | _ :: _ =>
            if snd (a_get_all dt la)
            then (mk_eu (eu_processing e1) true (eu_addrs e1) (Some []) L1Access (eu_runner e1), ebus1,
                  fst (a_get_all dt la), ANone)
            else (mk_eu (eu_processing e1) true la (eu_memory e1) MemoryAccess (eu_runner e1), ebus1,
                  fst (a_get_all dt la), ANone)
        | [] => (eu_done (set_rem e1 rem), ebus1, dt, AExec i pc)
        end
  end.

Definition skm_complete (a : skm) : bool :=
  fu_complete (m_fu a) && negb (eu_processing (m_eu a)) &&
  sbus_is_empty (m_dbus a) && sbus_is_empty (m_ebus a) &&
  match m_wb a with None => true | Some _ => false end.

Inductive skm_res :=
| MStep (a : skm) (path : list event) (dc : Z)
| MFin (dc : Z) (dt : list Z)       (* the run ends; dt: the L1D lines the final flush writes back *)
| MStuck.

(* one iteration of the Run loop, before the test "is the pipeline empty" *)
Definition skm_pre (app : list instr) (a : skm) (path : list event) : skm_res :=
  match fu_cycle app (m_fu a) (m_l1i a) (m_dbus a) with
  | Ok (fu1, l1i1, dbus1) =>
      match du_cycle app dbus1 (m_ebus a) with
      | Ok (dbus2, ebus1) =>
          let '(e1, ebus2, dt1, act) :=
            skm_eu (m_eu a) ebus1 (m_pw a) (m_dt a) (match path with ev :: _ => ev_la ev | [] => [] end) in
          match act with
          | AStuck => MStuck
          | ANone =>
              MStep (mk_skm fu1 l1i1 dbus2 ebus2 e1 (wdel (m_pw a) (m_wb a)) None dt1) path 1
          | AExec i pc =>
              match path with
              | [] => MStuck
              | ev :: rest =>
                  if negb (ev_pc ev =? pc) then MStuck
                  else if is_ret i then match rest with [] => MFin 1 dt1 | _ :: _ => MStuck end
                  else match rest with
                       | [] => MStuck
                       | nxt :: _ =>
                           match ev_sa ev with
                           | _ :: _ =>
                               (* a store: it must hit; it does not go through the write bus *)
                               if snd (a_get_all dt1 (ev_sa ev)) && (ev_pc nxt =? addS 32 pc 4) then
                                 MStep (mk_skm fu1 l1i1 dbus2 ebus2 e1 (wdel (m_pw a) (m_wb a)) None
                                               (fst (a_get_all dt1 (ev_sa ev)))) rest 1
                               else MStuck
                           | [] =>
                               let wr := instr_WriteRegisters i in
                               if sk_flush i pc (ev_pc nxt) then
                                 MStep (mk_skm (mk_fu (ev_pc nxt) (fu_remaining fu1) false false) l1i1 sbus_empty sbus_empty
                                               e1 zero_pw None dt1) rest 2
                               else
                                 MStep (mk_skm fu1 l1i1 dbus2 ebus2 e1 (wdel (pw_add (m_pw a) wr) (m_wb a)) (Some wr) dt1) rest 1
                           end
                       end
              end
          end
      | _ => MStuck
      end
  | _ => MStuck
  end.

(* m.isComplete(): after a cycle without ret and without flush *)
Definition skm_cycle (app : list instr) (a : skm) (path : list event) : skm_res :=
  match skm_pre app a path with
  | MStep a2 p dc => if skm_complete a2 then MFin dc (m_dt a2) else MStep a2 p dc
  | r => r
  end.

Fixpoint skm_run (fuel : nat) (app : list instr) (a : skm) (path : list event) (cycle : Z) : option Z :=
  match fuel with
  | O => None
  | S f =>
      match skm_cycle app a path with
      | MStep a' path' dc => skm_run f app a' path' (cycle + dc)
      | MFin dc dt => Some (cycle + dc + MemoryAccess * zlen dt)
      | MStuck => None
      end
  end.

Definition skm_init (ci : cache) : skm :=
  mk_skm (mk_fu 0 0 false false) ci sbus_empty sbus_empty (mk_eu false false [] None 0 None) zero_pw None [].

(* the cycle count of MVP-4 as a function of the program and the events only *)
Definition mvp4_cost_mem (fuel : nat) (app : list instr) (evs : list event) : option Z :=
  match new_cache l1LineSize l1Size with
  | Ok ci => skm_run fuel app (skm_init ci) evs 0
  | _ => None
  end.
