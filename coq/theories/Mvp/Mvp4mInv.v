(* The invariant of the MVP-4 skeleton with loads and store hits (Mvp4mSkel.v). *)
From Coq Require Import ZArith List Bool Lia.
From Maj Require Import Base.Outcome Base.GoInt Base.GoTypes Isa.Spec Isa.Embed Isa.Seq Isa.Refine.
From Maj Require Import Gen.Latency Gen.RiscTables Gen.Opcodes Comp.Cache.
From Maj Require Import Mvp.Mvp12 Mvp.Mvp12Proofs Mvp.Mvp3 Mvp.Mvp3Proofs Mvp.Mvp4 Mvp.Mvp4Skel Mvp.Mvp4Inv Mvp.Mvp4mSkel.
Import ListNotations.
Open Scope Z_scope.

Definition qlistm (a : skm) : list Z := q_parts (m_eu a) (m_ebus a) (m_dbus a).

Definition Rmax : Z := MemoryAccess.

Record FInvM (app : list instr) (hev : event) (a : skm) : Prop := mkFM {
  fm_head : 0 <= ev_pc hev < 2147483644;
  fm_q : exists n, FQ app (ev_pc hev) n (qlistm a) (m_fu a);
  fm_ent : Forall (entry_ok app) (q_eu (m_eu a) ++ q_sb (m_ebus a));
  fm_fu : fu_processing (m_fu a) = true -> 1 <= fu_remaining (m_fu a) <= MemoryAccess;
  fm_eu : eu_processing (m_eu a) = true ->
          1 <= eu_remaining (m_eu a) <= (if eu_pending_read (m_eu a) then Rmax else Cmax) /\ eu_runner (m_eu a) <> None;
  fm_pr : eu_pending_read (m_eu a) = true -> eu_processing (m_eu a) = true /\ m_wb a = None;
  fm_mem : eu_pending_read (m_eu a) = false -> eu_memory (m_eu a) = None;
  fm_miss : eu_pending_read (m_eu a) = true ->
            ev_la hev <> [] /\ (eu_memory (m_eu a) = None -> eu_addrs (m_eu a) = ev_la hev);
  fm_l1i : IInv (m_l1i a);
  fm_pw : m_pw a = pwof (m_wb a);
  fm_wb : forall wr, m_wb a = Some wr -> (length wr <= 1)%nat;
  fm_dt : zlen (m_dt a) <= 16 }.

(* what a sequence of events must look like for the skeleton: as path_wf on the pcs,
   and the load addresses of an instruction that does not load are empty *)
Fixpoint evs_wf (app : list instr) (path : list event) : Prop :=
  match path with
  | [] => False
  | ev :: rest =>
      0 <= ev_pc ev < 2147483644 /\
      match rest with
      | [] => match nth_error app (Z.to_nat (ev_pc ev / 4)) with Some i => is_ret i = true | None => True end
      | nxt :: _ => (exists i, nth_error app (Z.to_nat (ev_pc ev / 4)) = Some i /\ is_ret i = false) /\
                    (ev_sa ev <> [] -> ev_pc nxt = ev_pc ev + 4) /\ evs_wf app rest
      end
  end.

(* number of events inside the program text (= executed instructions) *)
Definition exec_count (app : list instr) (path : list event) : nat :=
  length (filter (fun ev => ev_pc ev / 4 <? nlen app) path).

(* the L1D tags once the load of the head event is complete *)
Definition dt_after_load (a : skm) (hev : event) : list Z :=
  if eu_pending_read (m_eu a) then
    match eu_memory (m_eu a) with
    | Some _ => m_dt a
    | None => fst (a_get_all (a_fill (m_dt a) (hd 0 (ev_la hev))) (ev_la hev))
    end
  else fst (a_load (m_dt a) (ev_la hev)).

(* every store of the remaining path will hit *)
Definition sh_inv (a : skm) (path : list event) : Prop :=
  match path with
  | [] => True
  | hev :: rest =>
      snd (a_get_all (dt_after_load a hev) (ev_sa hev)) = true /\
      stores_hit (fst (a_get_all (dt_after_load a hev) (ev_sa hev))) rest = true
  end.
