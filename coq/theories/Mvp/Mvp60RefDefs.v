(* Refinement of MVP-6.0 to the sequential machine on register-only
   programs - part 2: the program class, the canonical contents of the pipeline
   (which runner / write-back record stands for instruction k), the flat view of
   the buffered buses, the potential function, and elementary facts about the
   buses and the scoreboard operations. *)
From Coq Require Import ZArith List Bool Lia Permutation.
From Maj Require Import Base.Outcome Base.GoInt Base.GoTypes Isa.Spec Isa.Embed Isa.Seq Isa.Refine.
From Maj Require Import Gen.Latency Gen.RiscTables Gen.Opcodes Comp.Cache.
From Maj Require Import Mvp.Mvp12 Mvp.Mvp12Proofs Mvp.Mvp3 Mvp.Mvp3Proofs Mvp.Mvp4Skel Mvp.Mvp5 Mvp.Mvp60 Mvp.Mvp60RefSem.
Import ListNotations.
Open Scope Z_scope.

(* ------------------------------------------------------------------ *)
(* the program class                                                    *)

(* no branch and no jump in the text (ret is neither) *)
Definition nobranch (i : instr) : bool := negb (InstructionType_IsBranch (instr_InstructionType i)).
Definition straight (app : list instr) : bool := forallb nobranch app.

(* position of the first ret, or the length of the text *)
Fixpoint first_ret (l : list instr) : nat :=
  match l with
  | [] => O
  | i :: t => if is_ret i then O else S (first_ret t)
  end.

Lemma first_ret_le l : (first_ret l <= length l)%nat.
Proof. induction l as [|i t IH]; cbn [first_ret length]; [lia|]. destruct (is_ret i); lia. Qed.

Lemma first_ret_before l d k : (k < first_ret l)%nat -> is_ret (nth k l d) = false.
Proof.
  revert k. induction l as [|i t IH]; intros k H; cbn [first_ret] in H; [lia|].
  destruct (is_ret i) eqn:E; [lia|]. destruct k as [|k]; cbn [nth]; [exact E | apply IH; lia].
Qed.

Lemma first_ret_at l d : (first_ret l < length l)%nat -> is_ret (nth (first_ret l) l d) = true.
Proof.
  induction l as [|i t IH]; cbn [first_ret length]; [lia|].
  destruct (is_ret i) eqn:E; cbn [nth]; [auto | intros H; apply IH; lia].
Qed.

Lemma is_ret_type i : (instr_InstructionType i =? Ret) = is_ret i.
Proof. destruct i; reflexivity. Qed.

Lemma is_ret_regs i : is_ret i = true -> instr_ReadRegisters i = [] /\ instr_WriteRegisters i = [].
Proof. destruct i; try discriminate. auto. Qed.

Lemma is_ret_exec i rr labels pc m : is_ret i = true -> exec (sinstr_of i) rr labels pc m = Ok EReturn.
Proof. destruct i; try discriminate. reflexivity. Qed.

Lemma nobranch_uncond i : nobranch i = true -> InstructionType_IsUnconditionalBranch (instr_InstructionType i) = false.
Proof. unfold nobranch, InstructionType_IsBranch. intros H. apply negb_true_iff, orb_false_iff in H. apply H. Qed.

Lemma nobranch_branch i : nobranch i = true -> InstructionType_IsBranch (instr_InstructionType i) = false.
Proof. unfold nobranch. intros H. apply negb_true_iff in H. exact H. Qed.

Lemma nobranch_cond i : nobranch i = true -> InstructionType_IsConditionalBranch (instr_InstructionType i) = false.
Proof. unfold nobranch, InstructionType_IsBranch. intros H. apply negb_true_iff, orb_false_iff in H. apply H. Qed.

(* what a register-only non-branch instruction can do *)
Lemma class_exec i rr labels pc e : nomem i = true -> nobranch i = true ->
  exec (sinstr_of i) rr labels pc [] = Ok e ->
  (is_ret i = true /\ e = EReturn) \/ (is_ret i = false /\ (e = EFall \/ exists rd v, e = EReg rd v)).
Proof.
  intros Hm Hb H. destruct i; try (vm_compute in Hm; discriminate Hm); try (vm_compute in Hb; discriminate Hb);
    cbn [sinstr_of exec] in H;
    repeat match type of H with context [if ?c then _ else _] => destruct c end;
    try discriminate; injection H as <-;
    solve [left; split; reflexivity | right; split; [reflexivity|]; solve [left; reflexivity | right; eauto]].
Qed.

Lemma dfl_class : nomem dfl = true /\ nobranch dfl = true /\ is_ret dfl = false.
Proof. repeat split. Qed.

(* ------------------------------------------------------------------ *)
(* where the decode unit stops: the first ret or unconditional jump at or after b *)

Definition is_jump (i : instr) : bool := InstructionType_IsUnconditionalBranch (instr_InstructionType i).
Definition is_stop (i : instr) : bool := is_ret i || is_jump i.

Fixpoint first_stop (l : list instr) : nat :=
  match l with
  | [] => O
  | i :: t => if is_stop i then O else S (first_stop t)
  end.

Definition stop_from (app : list instr) (b : nat) : nat := (b + first_stop (skipn b app))%nat.

Lemma first_stop_le l : (first_stop l <= length l)%nat.
Proof. induction l as [|i t IH]; cbn [first_stop length]; [lia|]. destruct (is_stop i); lia. Qed.

Lemma first_stop_before l d k : (k < first_stop l)%nat -> is_stop (nth k l d) = false.
Proof.
  revert k. induction l as [|i t IH]; intros k H; cbn [first_stop] in H; [lia|].
  destruct (is_stop i) eqn:E; [lia|]. destruct k as [|k]; cbn [nth]; [exact E | apply IH; lia].
Qed.

Lemma first_stop_at l d : (first_stop l < length l)%nat -> is_stop (nth (first_stop l) l d) = true.
Proof.
  induction l as [|i t IH]; cbn [first_stop length]; [lia|].
  destruct (is_stop i) eqn:E; cbn [nth]; [auto | intros H; apply IH; lia].
Qed.

Lemma nth_skipn {A} (l : list A) b i d : nth i (skipn b l) d = nth (b + i) l d.
Proof.
  revert l. induction b as [|b IH]; intros l; [reflexivity|]. destruct l as [|x l]; cbn [skipn Nat.add nth].
  - destruct i; reflexivity.
  - apply IH.
Qed.

Lemma stop_from_ge app b : (b <= stop_from app b)%nat.
Proof. unfold stop_from. lia. Qed.

Lemma stop_from_le app b : (b <= length app)%nat -> (stop_from app b <= length app)%nat.
Proof. intros H. unfold stop_from. pose proof (first_stop_le (skipn b app)). rewrite skipn_length in H0. lia. Qed.

Lemma stop_from_before app d b k : (b <= k < stop_from app b)%nat -> is_stop (nth k app d) = false.
Proof.
  intros H. unfold stop_from in H. replace k with (b + (k - b))%nat by lia. rewrite <- nth_skipn.
  apply first_stop_before. lia.
Qed.

Lemma stop_from_at app d b : (stop_from app b < length app)%nat -> is_stop (nth (stop_from app b) app d) = true.
Proof.
  intros H. unfold stop_from in *. rewrite <- nth_skipn. apply first_stop_at. rewrite skipn_length. lia.
Qed.

Lemma first_stop_straight app : straight app = true -> first_stop app = first_ret app.
Proof.
  induction app as [|i t IH]; [reflexivity|]. cbn [straight forallb first_stop first_ret]. intros H.
  apply andb_prop in H as [A B]. unfold is_stop, is_jump. rewrite (nobranch_uncond _ A), orb_false_r.
  destruct (is_ret i); [reflexivity|]. f_equal. apply IH. exact B.
Qed.

Lemma stop_from_0 app : stop_from app 0 = first_stop app.
Proof. reflexivity. Qed.

(* ------------------------------------------------------------------ *)
(* flat view of a buffered bus, lengths                                 *)

Definition flat {T} (b : bbus T) : list T := bb_q b ++ map snd (bb_buf b).
Definition qlen {T} (b : bbus T) : Z := zlen (bb_q b).
Definition blen {T} (b : bbus T) : Z := zlen (bb_buf b).

Record BusOK {T} (cyc : Z) (b : bbus T) : Prop := mkBus {
  bus_ql : bb_ql b = 2;
  bus_bl : bb_bl b = 2;
  bus_q : qlen b <= 2;
  bus_st : Forall (fun x => fst x <= cyc + 1) (bb_buf b) }.

Lemma zlen_nil {A} : zlen (@nil A) = 0. Proof. reflexivity. Qed.
Lemma zlen_cons {A} (x : A) l : zlen (x :: l) = zlen l + 1.
Proof. unfold zlen. cbn [length]. lia. Qed.
Lemma zlen_app {A} (l l' : list A) : zlen (l ++ l') = zlen l + zlen l'.
Proof. unfold zlen. rewrite app_length. lia. Qed.
Lemma zlen_ge0 {A} (l : list A) : 0 <= zlen l.
Proof. unfold zlen. lia. Qed.
Lemma zlen_zero {A} (l : list A) : zlen l = 0 -> l = [].
Proof. destruct l; [reflexivity|]. rewrite zlen_cons. pose proof (zlen_ge0 l). lia. Qed.

Lemma connect_loop_spec {T} ql c : forall (buf : list (Z * T)) q q' buf',
  bb_connect_loop ql c q buf = (q', buf') ->
  q' ++ map snd buf' = q ++ map snd buf /\
  zlen q' + zlen buf' = zlen q + zlen buf /\ zlen q <= zlen q' /\
  (exists pre, buf = pre ++ buf') /\
  (zlen q <= ql -> zlen q' <= ql) /\
  (Forall (fun x => fst x <= c) buf -> buf' = [] \/ zlen q' = ql).
Proof.
  induction buf as [|[a t] buf IH]; intros q q' buf' H; cbn [bb_connect_loop] in H.
  - injection H as <- <-. split; [reflexivity|]. split; [lia|]. split; [lia|]. split; [exists []; reflexivity|].
    split; [auto|]. intros _. left. reflexivity.
  - destruct (Z.eqb_spec (zlen q) ql) as [Eq|Nq].
    { injection H as <- <-. split; [reflexivity|]. split; [lia|]. split; [lia|]. split; [exists []; reflexivity|].
      split; [auto|]. intros _. right. exact Eq. }
    destruct (Z.gtb_spec a c) as [Hgt|Hle].
    { injection H as <- <-. split; [reflexivity|]. split; [lia|]. split; [lia|]. split; [exists []; reflexivity|].
      split; [auto|]. intros Hf. inversion Hf as [|x l Hx _]; subst. cbn [fst] in Hx. lia. }
    apply IH in H as (H1 & H2 & H3 & (pre & H4) & H5 & H6). rewrite ?zlen_app, ?zlen_cons, ?zlen_nil in *.
    split; [|split; [|split; [|split; [|split]]]].
    + rewrite H1, <- app_assoc. reflexivity.
    + lia.
    + lia.
    + exists ((a, t) :: pre). rewrite H4. reflexivity.
    + intros Hq. apply H5. lia.
    + intros Hf. apply H6. inversion Hf; assumption.
Qed.

Lemma connect_spec {T} cyc (b : bbus T) : BusOK cyc b ->
  let b' := bb_connect b (cyc + 1) in
  flat b' = flat b /\ BusOK cyc b' /\ qlen b' + blen b' = qlen b + blen b /\ qlen b <= qlen b' /\
  (bb_buf b' = [] \/ qlen b' = 2).
Proof.
  intros [Hql Hbl Hq Hst]. cbv zeta. unfold bb_connect. rewrite Hql.
  destruct (Z.eqb_spec (zlen (bb_q b)) 2) as [E|E].
  { repeat split; auto; try lia. }
  destruct (bb_connect_loop 2 (cyc + 1) (bb_q b) (bb_buf b)) as [q' buf'] eqn:EL.
  apply connect_loop_spec in EL as (H1 & H2 & H3 & (pre & H4) & H5 & H6).
  unfold flat, qlen, blen in *. cbn [bb_q bb_buf bb_ql bb_bl].
  split; [exact H1|]. split; [|split; [lia|split; [lia|]]].
  - constructor; cbn [bb_q bb_buf bb_ql bb_bl];
      [reflexivity | exact Hbl | unfold qlen; cbn [bb_q]; apply H5; exact Hq
      | rewrite H4 in Hst; apply Forall_app in Hst; apply Hst].
  - apply H6. exact Hst.
Qed.

Lemma add_flat {T} (b : bbus T) t c : flat (bb_add b t c) = flat b ++ [t].
Proof. unfold flat, bb_add. cbn [bb_q bb_buf]. rewrite map_app, app_assoc. reflexivity. Qed.

Lemma add_ok {T} cyc (b : bbus T) t : BusOK cyc b -> BusOK cyc (bb_add b t cyc).
Proof.
  intros [H1 H2 H3 H4]. constructor; cbn [bb_add bb_ql bb_bl bb_buf]; auto.
  apply Forall_app. split; [exact H4|]. constructor; [cbn [fst]; lia | constructor].
Qed.

Lemma busok_mono {T} cyc cyc' (b : bbus T) : cyc <= cyc' -> BusOK cyc b -> BusOK cyc' b.
Proof.
  intros Hc [H1 H2 H3 H4]. constructor; auto. eapply Forall_impl; [|exact H4]. cbn beta. intros x Hx. lia.
Qed.

(* ------------------------------------------------------------------ *)
(* scoreboard operations on slots                                       *)

Lemma sb_set_nth p r v s : nth s (sb_set p r v) 0 =
  if Nat.eqb (Z.to_nat r) s && Nat.ltb s (length p) then v else nth s p 0.
Proof.
  unfold sb_set. destruct (Nat.eqb_spec (Z.to_nat r) s) as [<-|Hne]; cbn [andb].
  - destruct (Nat.ltb_spec (Z.to_nat r) (length p)) as [Hlt|Hge].
    + apply supd_nth_eq. exact Hlt.
    + rewrite nth_overflow; [|rewrite supd_length; exact Hge]. rewrite nth_overflow by exact Hge. reflexivity.
  - apply supd_nth_neq. exact Hne.
Qed.

Lemma sb_set_length p r v : length (sb_set p r v) = length p.
Proof. apply supd_length. Qed.

Lemma sb_incr_length rs : forall p, length (sb_incr p rs) = length p.
Proof. induction rs as [|r t IH]; intros p; cbn [sb_incr]; [reflexivity|]. destruct (r =? 0); rewrite IH; [|rewrite sb_set_length]; reflexivity. Qed.

Lemma sb_decr_length rs : forall p, length (sb_decr p rs) = length p.
Proof. induction rs as [|r t IH]; intros p; cbn [sb_decr]; [reflexivity|]. destruct (r =? 0); rewrite IH; [|rewrite sb_set_length]; reflexivity. Qed.

Lemma cnt1_slots_cons r t s : cnt1 (slots (r :: t)) s =
  (if negb (r =? 0) && Nat.eqb (Z.to_nat r) s then 1 else 0) + cnt1 (slots t) s.
Proof.
  unfold slots, cnt1. cbn [filter]. destruct (r =? 0); cbn [negb andb map]; [lia|].
  cbn [count_occ]. destruct (Nat.eq_dec (Z.to_nat r) s) as [E|E].
  - apply Nat.eqb_eq in E. rewrite E. lia.
  - apply Nat.eqb_neq in E. rewrite E. lia.
Qed.

Lemma sb_incr_nth rs : forall p s, (s < length p)%nat -> nth s (sb_incr p rs) 0 = nth s p 0 + cnt1 (slots rs) s.
Proof.
  induction rs as [|r t IH]; intros p s Hs; cbn [sb_incr].
  - unfold cnt1, slots. cbn. lia.
  - rewrite cnt1_slots_cons. destruct (r =? 0) eqn:E0; cbn [negb andb].
    + rewrite IH by exact Hs. lia.
    + rewrite IH by (rewrite sb_set_length; exact Hs). rewrite sb_set_nth. unfold sb_get.
      destruct (Nat.eqb_spec (Z.to_nat r) s) as [<-|]; cbn [andb].
      * destruct (Nat.ltb_spec (Z.to_nat r) (length p)); [lia | lia].
      * lia.
Qed.

(* the decrement never reaches the clamp when the counter covers the registers removed *)
Lemma sb_decr_nth rs : forall p s, (s < length p)%nat ->
  (forall s', (s' < length p)%nat -> cnt1 (slots rs) s' <= nth s' p 0) ->
  nth s (sb_decr p rs) 0 = nth s p 0 - cnt1 (slots rs) s.
Proof.
  induction rs as [|r t IH]; intros p s Hs Hc; cbn [sb_decr].
  - unfold cnt1, slots. cbn. lia.
  - rewrite cnt1_slots_cons. destruct (r =? 0) eqn:E0; cbn [negb andb].
    + rewrite IH; [lia | exact Hs|]. intros s' Hs'. specialize (Hc s' Hs'). rewrite cnt1_slots_cons, E0 in Hc.
      cbn [negb andb] in Hc. lia.
    + assert (Hx : forall s', (s' < length p)%nat ->
                nth s' (sb_set p r (if sb_get p r - 1 <=? 0 then 0 else sb_get p r - 1)) 0
                = nth s' p 0 - (if Nat.eqb (Z.to_nat r) s' then 1 else 0)).
      { intros s' Hs'. rewrite sb_set_nth. unfold sb_get.
        destruct (Nat.eqb_spec (Z.to_nat r) s') as [<-|]; cbn [andb]; [|lia].
        destruct (Nat.ltb_spec (Z.to_nat r) (length p)); [|lia].
        specialize (Hc _ Hs'). rewrite cnt1_slots_cons, E0, Nat.eqb_refl in Hc. cbn [negb andb] in Hc.
        pose proof (cnt1_nonneg (slots t) (Z.to_nat r)).
        destruct (Z.leb_spec (nth (Z.to_nat r) p 0 - 1) 0); lia. }
      rewrite IH.
      * rewrite Hx by exact Hs. lia.
      * rewrite sb_set_length. exact Hs.
      * intros s' Hs'. rewrite sb_set_length in Hs'. rewrite Hx by exact Hs'. specialize (Hc s' Hs').
        rewrite cnt1_slots_cons, E0 in Hc. cbn [negb andb] in Hc. lia.
Qed.

(* has_hazard6 = false, on slots *)
Lemma no_hazard_slots m reads writes : length (m_pw m) = 32%nat -> length (m_pr m) = 32%nat ->
  has_hazard6 m reads writes = false ->
  forall s, (s < 32)%nat ->
    (In s (slots reads) -> nth s (m_pw m) 0 <= 0) /\
    (In s (slots writes) -> nth s (m_pw m) 0 <= 0 /\ nth s (m_pr m) 0 <= 0).
Proof.
  intros Hl1 Hl2 H s Hs. unfold has_hazard6 in H. apply orb_false_iff in H as [Hr Hw]. split.
  - intros Hin. apply slots_in in Hin as (r & Hin & Hnz & <-).
    assert (Hx : negb (r =? 0) && (0 <? sb_get (m_pw m) r) = false).
    { destruct (negb (r =? 0) && (0 <? sb_get (m_pw m) r)) eqn:E; [|reflexivity].
      rewrite <- Hr. symmetry. apply existsb_exists. exists r. auto. }
    destruct (Z.eqb_spec r 0); [contradiction|]. cbn [negb andb] in Hx. apply Z.ltb_ge in Hx. exact Hx.
  - intros Hin. apply slots_in in Hin as (w & Hin & Hnz & <-).
    assert (Hx : negb (w =? 0) && ((0 <? sb_get (m_pw m) w) || (0 <? sb_get (m_pr m) w)) = false).
    { destruct (negb (w =? 0) && ((0 <? sb_get (m_pw m) w) || (0 <? sb_get (m_pr m) w))) eqn:E; [|reflexivity].
      rewrite <- Hw. symmetry. apply existsb_exists. exists w. auto. }
    destruct (Z.eqb_spec w 0); [contradiction|]. cbn [negb andb] in Hx. apply orb_false_iff in Hx as [H1 H2].
    apply Z.ltb_ge in H1, H2. auto.
Qed.

(* and the converse: zero counters mean no hazard *)
Lemma no_hazard_intro m reads writes :
  (forall s, nth s (m_pw m) 0 <= 0) -> (forall s, nth s (m_pr m) 0 <= 0) -> has_hazard6 m reads writes = false.
Proof.
  intros H1 H2. unfold has_hazard6, sb_get. apply orb_false_iff. split.
  - apply not_true_is_false. intros H. apply existsb_exists in H as (r & _ & H). apply andb_prop in H as [_ H].
    apply Z.ltb_lt in H. specialize (H1 (Z.to_nat r)). lia.
  - apply not_true_is_false. intros H. apply existsb_exists in H as (r & _ & H). apply andb_prop in H as [_ H].
    apply orb_prop in H as [H|H]; apply Z.ltb_lt in H; [specialize (H1 (Z.to_nat r)) | specialize (H2 (Z.to_nat r))]; lia.
Qed.
