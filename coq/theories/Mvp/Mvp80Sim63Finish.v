(* The end of Run: finish8 one tick later against finish3, on an idle memory system.  The RAT value maps are ranged
   over with ord at DIFFERENT cycles in the two variants (ord cycle (-1) vs ord (cycle + 1) (-1)): the equality of
   the flushed registers is an explicit hypothesis here (true semantically: every key is written once). *)
From Coq Require Import ZArith List Bool Lia.
From Maj Require Import Base.Outcome Base.GoInt Base.GoTypes Isa.Spec Isa.Seq.
From Maj Require Import Gen.Latency Gen.RiscTables Gen.Opcodes Comp.Cache Comp.Rat Mvp.Mvp12 Mvp.Mvp3 Mvp.Mvp5 Mvp.Mvp60 Mvp.Mvp63 Mvp.Mvp80.
From Maj Require Import Mvp.Mvp60Proofs Mvp.Mvp63Proofs Mvp.Mvp80Proofs Mvp.Mvp80RegOnly Mvp.Mvp80RegOnly63 Mvp.Mvp80Sim63Defs.
Import ListNotations.
Open Scope Z_scope.

Lemma put_mw_x : forall y, y_x (put_mw y (mw_of y)) = y_x y.
Proof. intros [[m eb pe pr pcb sq cr tr fw ch nx os] k cp pf cs]. destruct m. reflexivity. Qed.

Lemma finish_sim : forall mem0 c3 k0 ccs0 ord y cycle,
  Forall cc_idle ccs0 -> lines c3 = [] -> INV mem0 c3 k0 ccs0 y ->
  rat_flush3 ord (cycle + 1) (rat_commit3 ord (cycle + 1) (y_x y)) = rat_flush3 ord cycle (rat_commit3 ord cycle (y_x y)) ->
  finish8 ord y (cycle + 1) = plus_one_cycle (finish3 ord (y_x y) cycle).
Proof.
  intros mem0 c3 k0 ccs0 ord y cycle Hccs Hl3 HI HR.
  rewrite (finish8_idle mem0 c3 k0 ccs0 Hccs Hl3 ord y (cycle + 1) HI).
  destruct HI as (I1 & I2 & (P1 & P2 & _)).
  unfold finish3. rewrite P2, Hl3. cbn [flush_lines plus_one_cycle]. rewrite P1, put_mw_x, HR.
  f_equal. lia.
Qed.

Print Assumptions finish_sim.
