(* Refinement of MVP-6.1 to the sequential machine on register-only programs - part 4:
   the invariant of the back end and the control unit.
     ChI    the channels: a consumer's Receiver will deliver the sequential value of its
            forwarded register; its producer is ahead of it in the execute bus (FIFO) or
            has already sent; channels are used once
     CoreI  execute bus / write bus / register file / scoreboards (BackSemF), the Forward
            table of the instruction objects (all cleared between two unit cycles),
            identities of the objects on the execute bus
     handle_ok   one call of handleRunner: blocked, pushed, or pushed with forwarding. *)
From Coq Require Import ZArith List Bool Lia Permutation.
From Maj Require Import Base.Outcome Base.GoInt Base.GoTypes Isa.Spec Isa.Embed Isa.Seq Isa.Refine.
From Maj Require Import Gen.Latency Gen.RiscTables Gen.Opcodes Comp.Cache.
From Maj Require Import Mvp.Mvp12 Mvp.Mvp12Proofs Mvp.Mvp3 Mvp.Mvp3Proofs Mvp.Mvp4Skel Mvp.Mvp4Inv Mvp.Mvp5 Mvp.Mvp60 Mvp.Mvp61
     Mvp.Mvp60RefSem Mvp.Mvp60RefDefs Mvp.Mvp60RefFront Mvp.Mvp60RefBack Mvp.Mvp61RefSem Mvp.Mvp61RefFront Mvp.Mvp61RefBack.
Import ListNotations.
Open Scope Z_scope.

Definition kr1 (r : runner1) : nat := Z.to_nat (r_pc (r_b r) / 4).
Definition rcreg (r : runner1) : option Z := match r_rc r with Some _ => Some (r_freg r) | None => None end.

(* projections of a machine *)
Definition EB (m : mach1) : list runner1 := flat (x_ebus (y_x m)).
Definition WB (m : mach1) : list wb6 := flat (m_wbus (y_m m)).

(* pushRunner when the execute bus has room: the object pushed and the machine afterwards *)
Definition pobj (m : mach1) (r : runner1) : runner1 := mk_r1 (r_b r) (x_nid (y_x m)) (r_fw r) (r_rc r) (r_freg r).
Definition push1 (m : mach1) (cy : Z) (r : runner1) : mach1 :=
  let x := y_x m in
  let i := r_instr (r_b r) in
  mk_m1 (add_pending6 (y_m m) (instr_ReadRegisters i) (instr_WriteRegisters i))
        (xs_nid (xs_ebus x (bb_add (x_ebus x) (pobj m r) cy)) (x_nid x + 1)).
(* ch := make(chan); previousRunner.Forwarder = ch *)
Definition setf (m : mach1) (id : Z) : mach1 :=
  set_x m (xs_nch (xs_ebus (y_x m) (set_forwarder (x_ebus (y_x m)) id (x_nch (y_x m)))) (x_nch (y_x m) + 1)).

Lemma push_runner1_eq m cy r :
  push_runner1 m cy r = if negb (bb_canadd (x_ebus (y_x m))) then (false, r, m) else (true, pobj m r, push1 m cy r).
Proof. reflexivity. Qed.

Lemma EB_push1 m cy r : EB (push1 m cy r) = EB m ++ [pobj m r].
Proof. unfold EB, push1. cbn [y_x xs_nid xs_ebus x_ebus]. apply add_flat. Qed.

Lemma EB_setf m id : EB (setf m id) = map (setfw id (x_nch (y_x m))) (EB m).
Proof. unfold EB, setf. cbn [y_x set_x xs_nch xs_ebus x_ebus]. apply set_forwarder_flat. Qed.

Lemma condbr_no_write i : InstructionType_IsConditionalBranch (instr_InstructionType i) = true -> instr_WriteRegisters i = [].
Proof. destruct i; try reflexivity; intros H; vm_compute in H; discriminate H. Qed.

Section Inv.
  Variables (app : list instr) (labels : Z -> option Z) (regs0 mem0 : list Z) (base : nat) (sq : Z).
  Hypothesis Happ : wf_app app.
  Hypothesis Hreg : reg_only app = true.
  Hypothesis Hrng : regs_in_range app = true.
  Hypothesis Hlen32 : length regs0 = 32%nat.
  Hypothesis Hbase : (base <= length app)%nat.
  Let n := length app.
  Let N := stop_from app base.
  Hypothesis Hsq : 0 <= sq /\ 1000 * sq + 4 * Z.of_nat n < 2147483648.

  Notation sreg := (sreg app labels regs0 base).
  Notation eff := (eff app labels regs0 base).
  Notation ik := (ik app).
  Notation wsl := (wsl app).
  Notation rsl := (rsl app).
  Notation rnq := (rnq app sq).
  Notation sid := (sid sq).
  Notation BackSemF := (BackSemF app labels regs0 base).

  Hypothesis Hsem : forall k, (base <= k <= N)%nat -> (k < n)%nat ->
    exec (sinstr_of (ik k)) (rget (sreg k)) labels (pcz k) [] = Ok (eff k) /\
    (forall a, etarget (eff k) = Some a -> exists t, a = pcz t /\ (k < t <= n)%nat).

  (* every lemma of the section takes all its hypotheses, in this order:
     app labels regs0 mem0 base sq Happ Hreg Hrng Hlen32 Hbase Hsq Hsem *)
  Set Default Proof Using "All".

  Lemma Hlen0 : (length regs0 <= 32)%nat. Proof. rewrite Hlen32. apply le_n. Qed.

  Definition kw1 (x : wb6) : nat := Z.to_nat ((w_seq x - 1000 * sq) / 4).
  Definition wbq (k : nat) : wb6 :=
    mk_wb6 (sid k) (embed (eff k)) (instr_ReadRegisters (ik k)) (instr_WriteRegisters (ik k)).
  Definition regval (k : nat) : Z := RegisterValue (embed (eff k)).

  Lemma kr1_rnq r k : r_b r = rnq k -> kr1 r = k.
  Proof. intros H. unfold kr1. rewrite H. cbn [Mvp61RefFront.rnq r_pc]. rewrite pcz_div. apply Nat2Z.id. Qed.
  Lemma kw1_wbq k : kw1 (wbq k) = k.
  Proof. unfold kw1, wbq, Mvp61RefFront.sid. cbn [w_seq]. replace (pcz k + 1000 * sq - 1000 * sq) with (pcz k) by lia. rewrite pcz_div. apply Nat2Z.id. Qed.

  Definition FL1 (m : mach1) : list nat := map kr1 (EB m) ++ map kw1 (WB m).

  (* registers in range *)
  Lemma ik_regs k : regs_ok (ik k) = true.
  Proof.
    unfold Mvp60RefSem.ik. destruct (Nat.lt_ge_cases k n) as [H|H].
    - unfold regs_in_range in Hrng. rewrite forallb_forall in Hrng. apply Hrng. apply nth_In. exact H.
    - rewrite nth_overflow by exact H. reflexivity.
  Qed.
  Lemma ik_read_ok k r : In r (instr_ReadRegisters (ik k)) -> reg_ok r = true.
  Proof. pose proof (ik_regs k) as H. unfold regs_ok in H. apply andb_prop in H as [A _]. rewrite forallb_forall in A. apply A. Qed.
  Lemma ik_write_ok k r : In r (instr_WriteRegisters (ik k)) -> reg_ok r = true.
  Proof. pose proof (ik_regs k) as H. unfold regs_ok in H. apply andb_prop in H as [_ A]. rewrite forallb_forall in A. apply A. Qed.

  (* ---------------------------------------------------------------- *)
  (* the channel invariant; P = the runners waiting in the pending queue of the control unit *)

  Record ChI (P : list runner1) (m : mach1) : Prop := mkChI {
    ch_lt : Forall (fun c => c < x_nch (y_x m)) (keys (x_ch (y_x m)) ++ fws (EB m) ++ rcs (P ++ EB m));
    ch_nd : NoDup (fws (EB m) ++ keys (x_ch (y_x m)));
    ch_rnd : NoDup (rcs (P ++ EB m));
    ch_val : forall r c, In r (P ++ EB m) -> r_rc r = Some c ->
               (forall v, In (c, v) (x_ch (y_x m)) -> v = rget (sreg (kr1 r)) (r_freg r)) /\
               (forall p, In p (EB m) -> r_fw p = Some c -> regval (kr1 p) = rget (sreg (kr1 r)) (r_freg r));
    ch_avE : AvE (keys (x_ch (y_x m))) (EB m);
    ch_avP : forall r c, In r P -> r_rc r = Some c -> In c (keys (x_ch (y_x m))) \/ In c (fws (EB m)) }.

  Definition RunOK1 (d : nat) (r : runner1) : Prop :=
    exists k, (base <= k < d)%nat /\ (k <= N)%nat /\ (k < n)%nat /\ r_b r = rnq k.
  Definition WbOK1 (d : nat) (x : wb6) : Prop :=
    exists k, (base <= k < d)%nat /\ (k <= N)%nat /\ (k < n)%nat /\ is_ret (ik k) = false /\ x = wbq k.

  Record CoreI (d : nat) (P : list runner1) (m : mach1) : Prop := mkCoreI {
    c_e : Forall (RunOK1 d) (EB m);
    c_P : Forall (fun r => r_b r = rnq d /\ r_fw r = None /\ one_read app d (rcreg r)) P;
    c_w : Forall (WbOK1 d) (WB m);
    c_sem : exists fs, BackSemF d (m_regs (y_m m)) (m_pw (y_m m)) (m_pr (y_m m)) (FL1 m) fs /\
                       (forall r, In r (EB m) -> fs (kr1 r) = rcreg r);
    c_mem : m_mem (y_m m) = mem0;
    c_l3 : lines (m_l3 (y_m m)) = [];
    c_rete : d = S N -> is_ret (ik N) = true -> map r_b (EB m) = [] \/ map r_b (EB m) = [rnq N];
    c_fwd : x_fwd (y_x m) = repeat no_fwd n;
    c_seq : True;   (* (ctx.sequenceID is part of FrontI1) *)
    c_pcb : x_pcb (y_x m) = true -> exists r, In r (EB m) /\ condbr (r_instr (r_b r)) = true;
    c_ch : ChI P m;
    c_idnd : NoDup (map r_id (EB m));
    c_idlt : Forall (fun r => r_id r < x_nid (y_x m)) (EB m);
    c_fwr : forall p c, In p (EB m) -> r_fw p = Some c ->
              is_ret (ik (kr1 p)) = false /\ InstructionType_IsBranch (instr_InstructionType (ik (kr1 p))) = false }.

  (* CoreI depends on the machine through these components only *)
  Lemma ChI_ext P m m' : EB m' = EB m -> x_ch (y_x m') = x_ch (y_x m) -> x_nch (y_x m') = x_nch (y_x m) -> ChI P m -> ChI P m'.
  Proof. intros E1 E2 E3 [H1 H2 H3 H4 H5 H6]. constructor; rewrite ?E1, ?E2, ?E3; assumption. Qed.

  Lemma CoreI_ext d P m m' : EB m' = EB m -> WB m' = WB m ->
    m_regs (y_m m') = m_regs (y_m m) -> m_pw (y_m m') = m_pw (y_m m) -> m_pr (y_m m') = m_pr (y_m m) ->
    m_mem (y_m m') = m_mem (y_m m) -> m_l3 (y_m m') = m_l3 (y_m m) ->
    x_fwd (y_x m') = x_fwd (y_x m) -> x_seq (y_x m') = x_seq (y_x m) -> x_pcb (y_x m') = x_pcb (y_x m) ->
    x_ch (y_x m') = x_ch (y_x m) -> x_nch (y_x m') = x_nch (y_x m) -> x_nid (y_x m') = x_nid (y_x m) ->
    CoreI d P m -> CoreI d P m'.
  Proof.
    intros E1 E2 E3 E4 E5 E6 E7 E8 E9 E10 E11 E12 E13 [H1 H2 H3 H4 H5 H6 H7 H8 H9 H10 H11 H12 H13 H14].
    constructor; unfold FL1 in *; rewrite ?E1, ?E2, ?E3, ?E4, ?E5, ?E6, ?E7, ?E8, ?E9, ?E10, ?E13; try assumption.
    eapply ChI_ext; eassumption.
  Qed.

  Lemma CoreI_ext2 d P m m' : EB m' = EB m -> WB m' = WB m ->
    m_regs (y_m m') = m_regs (y_m m) -> m_pw (y_m m') = m_pw (y_m m) -> m_pr (y_m m') = m_pr (y_m m) ->
    m_mem (y_m m') = m_mem (y_m m) -> m_l3 (y_m m') = m_l3 (y_m m) ->
    x_fwd (y_x m') = x_fwd (y_x m) -> (x_pcb (y_x m') = true -> x_pcb (y_x m) = true) ->
    x_ch (y_x m') = x_ch (y_x m) -> x_nch (y_x m') = x_nch (y_x m) -> x_nid (y_x m') = x_nid (y_x m) ->
    CoreI d P m -> CoreI d P m'.
  Proof.
    intros E1 E2 E3 E4 E5 E6 E7 E8 E10 E11 E12 E13 [H1 H2 H3 H4 H5 H6 H7 H8 H9 H10 H11 H12 H13 H14].
    constructor; unfold FL1 in *; rewrite ?E1, ?E2, ?E3, ?E4, ?E5, ?E6, ?E7, ?E8, ?E13; try assumption.
    - intros Hp. apply H10. apply E10. exact Hp.
    - eapply ChI_ext; eassumption.
  Qed.

  Lemma RunOK1_mono d d' r : (d <= d')%nat -> RunOK1 d r -> RunOK1 d' r.
  Proof. intros H (k & A & B). exists k. split; [lia | exact B]. Qed.
  Lemma WbOK1_mono d d' x : (d <= d')%nat -> WbOK1 d x -> WbOK1 d' x.
  Proof. intros H (k & A & B). exists k. split; [lia | exact B]. Qed.

  Lemma RunOK1_kr d r : RunOK1 d r -> (base <= kr1 r < d)%nat /\ (kr1 r <= N)%nat /\ (kr1 r < n)%nat /\ r_b r = rnq (kr1 r).
  Proof. intros (k & A & B & C & E). rewrite (kr1_rnq r k E). auto. Qed.

  (* facts about the instructions of the segment (from the development of MVP-6.0) *)
  Lemma ik_nomem1 k : nomem (ik k) = true.
  Proof. exact (ik_nomem app Hreg k). Qed.

  Lemma eff_writes1 k s : (base <= k <= N)%nat -> (k < n)%nat -> In s (wsl k) -> eff_writes_reg (eff k).
  Proof. exact (eff_writes app labels regs0 base Hsem k s). Qed.

  (* the value an instruction in flight sends to its Forwarder is the one the consumer needs:
     the sequential value of the register at the dispatch point *)
  Lemma fwd_value d rg pw pr F fs j rd : BackSemF d rg pw pr F fs -> In j F -> (j <= N)%nat -> (j < n)%nat ->
    In rd (instr_WriteRegisters (ik j)) -> rd <> 0 -> regval j = rget (sreg d) rd.
  Proof.
    intros HB Hj HjN Hjn Hw Hnz. pose proof (bf_lt _ _ _ _ _ _ _ _ _ _ HB j Hj) as Hjd.
    pose proof (ik_write_ok j rd Hw) as Hok. pose proof (reg_ok_slot rd Hok) as Hs.
    assert (Hsl : In (Z.to_nat rd) (wsl j)) by (apply slots_in; exists rd; auto).
    rewrite rget_nth. destruct (Z.eqb_spec rd 0); [contradiction|].
    rewrite (bf_stable app labels regs0 base Hlen0 d rg pw pr F fs j (Z.to_nat rd) HB Hj Hs Hsl).
    rewrite (sreg_S app labels regs0 base Hlen0) by lia.
    destruct (Hsem j ltac:(lia) Hjn) as [He _]. pose proof (spec_writes_sound _ _ _ _ _ _ He) as Hws.
    rewrite <- write_registers_exact in Hws. unfold regval.
    assert (Hfin : forall rd' v, rd = rd' -> RegisterValue (let '(r, x) := reg_pair rd' v in mk_execution true r x false [] 0 false false) =
                     nth (Z.to_nat rd) (rset (sreg j) rd' v) 0 /\
                   forall a, RegisterValue (let '(r, x) := reg_pair rd' v in mk_execution true r x false [] a true false) =
                     nth (Z.to_nat rd) (rset (sreg j) rd' v) 0).
    { intros rd' v <-. unfold reg_pair. destruct (Z.eqb_spec rd 0); [contradiction|]. cbn [RegisterValue].
      rewrite nth_rset, (sreg_length app labels regs0 base), Hlen32.
      destruct (Z.eqb_spec rd 0); [contradiction|]. cbn [negb andb]. rewrite Nat.eqb_refl. cbn [andb].
      destruct (Nat.ltb_spec (Z.to_nat rd) 32); [split; reflexivity | lia]. }
    destruct (eff j) as [rd' v|bs| |a|rd' v a|]; rewrite Hws in Hw; try (destruct Hw; fail); destruct Hw as [<-|[]]; cbn [embed apply_eff];
      apply (Hfin rd' v eq_refl).
  Qed.

  (* ---------------------------------------------------------------- *)
  (* the pending queue                                                 *)

  Lemma one_read_in d reg : In reg (instr_ReadRegisters (ik d)) -> one_read app d (Some reg).
  Proof.
    intros Hin reg' r0 E Hr0 _ Hsl. injection E as <-. apply reg_ok_inj; [eapply ik_read_ok; exact Hr0 | eapply ik_read_ok; exact Hin | exact Hsl].
  Qed.

  Lemma one_read_none d : one_read app d None.
  Proof. intros reg r0 E. discriminate E. Qed.

  (* a runner that comes from the control bus (no Receiver) joins the pending queue *)
  Lemma ChI_P_none m r : ChI [] m -> r_rc r = None -> ChI [r] m.
  Proof.
    intros [H1 H2 H3 H4 H5 H6] Hr.
    assert (E : rcs ([r] ++ EB m) = rcs ([] ++ EB m)) by (cbn [List.app]; rewrite rcs_cons; unfold rcl; rewrite Hr; reflexivity).
    constructor; rewrite ?E; auto.
    - intros r0 c [<-|Hin] Hc; [congruence|]. apply H4; [exact Hin | exact Hc].
    - intros r0 c [<-|[]] Hc. congruence.
  Qed.

  Lemma core_P_none d m r : CoreI d [] m -> r_b r = rnq d -> r_fw r = None -> r_rc r = None -> CoreI d [r] m.
  Proof.
    intros [H1 H2 H3 H4 H5 H6 H7 H8 H9 H10 H11 H12 H13 H14] Hb Hf Hr. constructor; auto.
    - constructor; [|constructor]. split; [exact Hb|]. split; [exact Hf|]. unfold rcreg. rewrite Hr. apply one_read_none.
    - apply ChI_P_none; assumption.
  Qed.

  Lemma core_P_drop d m P : CoreI d P m -> CoreI d [] m.
  Proof.
    intros [H1 H2 H3 H4 H5 H6 H7 H8 H9 H10 [C1 C2 C3 C4 C5 C6] H12 H13 H14]. constructor; auto.
    constructor; auto.
    - rewrite Forall_forall in *. intros c Hc. apply C1. rewrite !in_app_iff in *. rewrite rcs_app. rewrite in_app_iff. tauto.
    - rewrite rcs_app in C3. exact (nodup_app_r _ _ C3).
    - intros r c Hin. apply C4. apply in_or_app. right. exact Hin.
    - intros r c [].
  Qed.

  (* ---------------------------------------------------------------- *)
  (* hazards                                                           *)

  Lemma haz_nil d m fs o : BackSemF d (m_regs (y_m m)) (m_pw (y_m m)) (m_pr (y_m m)) (FL1 m) fs ->
    hazards3 (y_m m) (instr_ReadRegisters (ik d)) (instr_WriteRegisters (ik d)) = [] -> hazardF app (FL1 m) d o.
  Proof.
    intros HS Hz. destruct (hazards3_nil _ _ _ Hz) as [Hr Hw]. intros s Hs.
    pose proof (cnt_nonneg wsl (FL1 m) s). pose proof (cnt_nonneg rsl (FL1 m) s).
    pose proof (bf_pw _ _ _ _ _ _ _ _ _ _ HS s Hs) as Epw. pose proof (bf_pr _ _ _ _ _ _ _ _ _ _ HS s Hs) as Epr. split.
    - intros Hin. left. apply slots_in in Hin as (r & Hin & Hnz & <-). specialize (Hr r Hin Hnz). unfold sb_get in Hr. lia.
    - intros Hin. apply slots_in in Hin as (w & Hin & Hnz & <-). destruct (Hw w Hin Hnz) as [A B]. unfold sb_get in A, B. lia.
  Qed.

  Lemma haz_single d m fs r0 reg : BackSemF d (m_regs (y_m m)) (m_pw (y_m m)) (m_pr (y_m m)) (FL1 m) fs ->
    hazards3 (y_m m) (instr_ReadRegisters (ik d)) (instr_WriteRegisters (ik d)) = [(HRaw, r0)] ->
    In reg (instr_ReadRegisters (ik d)) -> reg <> 0 -> 0 < cnt wsl (FL1 m) (Z.to_nat reg) ->
    hazardF app (FL1 m) d (Some reg).
  Proof.
    intros HS Hz Hreg0 Hnz0 Hcnt. destruct (hazards3_single _ _ _ _ Hz) as [Hr Hw].
    assert (Hs0 : (Z.to_nat reg < 32)%nat) by (apply reg_ok_slot; eapply ik_read_ok; exact Hreg0).
    assert (Er0 : reg = r0).
    { apply Hr; [exact Hreg0 | exact Hnz0|]. unfold sb_get. rewrite (bf_pw _ _ _ _ _ _ _ _ _ _ HS _ Hs0). exact Hcnt. }
    subst r0. intros s Hs.
    pose proof (cnt_nonneg wsl (FL1 m) s). pose proof (cnt_nonneg rsl (FL1 m) s).
    pose proof (bf_pw _ _ _ _ _ _ _ _ _ _ HS s Hs) as Epw. pose proof (bf_pr _ _ _ _ _ _ _ _ _ _ HS s Hs) as Epr. split.
    - intros Hin. apply slots_in in Hin as (r & Hin & Hnz & <-).
      destruct (Z_le_gt_dec (sb_get (m_pw (y_m m)) r) 0) as [Hle|Hgt].
      + left. unfold sb_get in Hle. lia.
      + right. exists reg. split; [reflexivity|]. split; [exact Hnz0|]. f_equal. symmetry. apply Hr; [exact Hin | exact Hnz | lia].
    - intros Hin. apply slots_in in Hin as (w & Hin & Hnz & <-). destruct (Hw w Hin Hnz) as [A B]. unfold sb_get in A, B. lia.
  Qed.
  (* ---------------------------------------------------------------- *)
  (* pushRunner                                                        *)

  Lemma rcreg_pobj m r : rcreg (pobj m r) = rcreg r. Proof. reflexivity. Qed.

  Lemma push_core d m r cy : CoreI d [r] m -> (base <= d)%nat -> (d < n)%nat -> (d <= N)%nat ->
    hazardF app (FL1 m) d (rcreg r) -> (is_ret (ik d) = true -> EB m = []) ->
    CoreI (S d) [] (push1 m cy r).
  Proof.
    intros [H1 H2 H3 (fs & HS & Hlk) H5 H6 H7 H8 H9 H10 H11 H12 H13 H14] Hbd Hdn HdN Hhz Hret.
    inversion H2 as [|? ? (Hrb & Hrf & Hone) _]; subst.
    set (o := pobj m r).
    assert (Hko : kr1 o = d) by (apply kr1_rnq; exact Hrb).
    assert (HE : EB (push1 m cy r) = EB m ++ [o]) by apply EB_push1.
    assert (HW : WB (push1 m cy r) = WB m) by reflexivity.
    assert (HFL : Permutation (d :: FL1 m) (FL1 (push1 m cy r))).
    { unfold FL1. rewrite HE, HW, map_app. cbn [map]. rewrite Hko. perm_nat. }
    assert (Hri : r_instr (r_b r) = ik d) by (rewrite Hrb; reflexivity).
    constructor.
    - rewrite HE. apply Forall_app. split.
      + eapply Forall_impl; [|exact H1]. intros r0. apply RunOK1_mono. lia.
      + constructor; [|constructor]. exists d. repeat split; auto; lia.
    - constructor.
    - rewrite HW. eapply Forall_impl; [|exact H3]. intros x0. apply WbOK1_mono. lia.
    - exists (fun k => if Nat.eqb k d then rcreg r else fs k). split.
      + eapply bf_perm; [exact HFL|]. cbn [push1 y_m add_pending6 set_sb m_regs m_pw m_pr]. rewrite Hri.
        pose proof (bf_pwlen _ _ _ _ _ _ _ _ _ _ HS) as Lw. pose proof (bf_prlen _ _ _ _ _ _ _ _ _ _ HS) as Lr.
        apply (bf_dispatch app labels regs0 base Hlen0 d (m_regs (y_m m)) (m_pw (y_m m)) (m_pr (y_m m)) _ _ (FL1 m) fs _ (rcreg r)); auto.
        * intros k Hk. destruct (Nat.eqb_spec k d) as [->|]; [|reflexivity]. apply (bf_lt _ _ _ _ _ _ _ _ _ _ HS) in Hk. lia.
        * rewrite Nat.eqb_refl. reflexivity.
        * rewrite sb_incr_length. exact Lw.
        * rewrite sb_incr_length. exact Lr.
        * intros s Hs. apply sb_incr_nth. lia.
        * intros s Hs. apply sb_incr_nth. lia.
      + intros r0 Hin. rewrite HE in Hin. apply in_app_or in Hin as [Hin|[<-|[]]].
        * rewrite Forall_forall in H1. destruct (RunOK1_kr d r0 (H1 r0 Hin)) as (A & _).
          destruct (Nat.eqb_spec (kr1 r0) d); [lia|]. apply Hlk. exact Hin.
        * rewrite Hko, Nat.eqb_refl. reflexivity.
    - exact H5.
    - exact H6.
    - intros Ed Hr. assert (EdN : d = N) by lia. right. rewrite HE, Hret by (rewrite EdN; exact Hr). cbn [List.app map]. unfold o, pobj. cbn [r_b]. rewrite Hrb, EdN. reflexivity.
    - exact H8.
    - exact H9.
    - intros Hp. destruct (H10 Hp) as (r0 & Hin & Hc). exists r0. split; [rewrite HE; apply in_or_app; left; exact Hin | exact Hc].
    - destruct H11 as [C1 C2 C3 C4 C5 C6].
      assert (Xch : x_ch (y_x (push1 m cy r)) = x_ch (y_x m)) by reflexivity.
      assert (Xn : x_nch (y_x (push1 m cy r)) = x_nch (y_x m)) by reflexivity.
      assert (Ef : fws (EB m ++ [o]) = fws (EB m)).
      { rewrite fws_app. unfold fws at 2. cbn [flat_map]. unfold o, pobj. cbn [r_fw]. rewrite Hrf. rewrite app_nil_r. reflexivity. }
      assert (Er : Permutation (rcs ([r] ++ EB m)) (rcs ([] ++ EB m ++ [o]))).
      { cbn [List.app]. rewrite rcs_cons, rcs_app. change (rcs [o]) with (rcl o ++ []). rewrite app_nil_r.
        change (rcl o) with (rcl r). apply Permutation_app_comm. }
      constructor; rewrite ?Xch, ?Xn, ?HE, ?Ef.
      + rewrite Forall_forall in *. intros c Hc. apply C1. rewrite !in_app_iff in *.
        destruct Hc as [Hc|[Hc|Hc]]; auto. right. right. eapply Permutation_in; [apply Permutation_sym; exact Er|]. exact Hc.
      + exact C2.
      + eapply Permutation_NoDup; [exact Er | exact C3].
      + intros r0 c Hin Hc. cbn [List.app] in Hin.
        assert (Hprod : forall (P0 : nat -> Prop), (forall p, In p (EB m) -> r_fw p = Some c -> P0 (kr1 p)) ->
                          forall p, In p (EB m ++ [o]) -> r_fw p = Some c -> P0 (kr1 p)).
        { intros P0 Hold p Hp Hf. apply in_app_or in Hp as [Hp|[<-|[]]]; [apply Hold; assumption|]. unfold o, pobj in Hf. cbn [r_fw] in Hf. congruence. }
        apply in_app_or in Hin as [Hin|[<-|[]]].
        * destruct (C4 r0 c (or_intror Hin) Hc) as [A B]. split; [exact A|].
          apply (Hprod (fun k => regval k = rget (sreg (kr1 r0)) (r_freg r0))). exact B.
        * destruct (C4 r c (or_introl eq_refl) Hc) as [A B]. change (kr1 o) with (kr1 r). change (r_freg o) with (r_freg r). split; [exact A|].
          apply (Hprod (fun k => regval k = rget (sreg (kr1 r)) (r_freg r))). exact B.
      + apply AvE_app. split; [exact C5|]. cbn [AvE]. split; [|exact I]. intros c Hc.
        apply in_or_app. destruct (C6 r c (or_introl eq_refl) Hc) as [A|A]; [left | right]; exact A.
      + intros r0 c [].
    - rewrite HE, map_app. cbn [map]. apply nodup_app_intro; [exact H12 | constructor; [intros [] | constructor]|].
      intros x0 Hx [<-|[]]. apply in_map_iff in Hx as (r0 & E0 & Hin). rewrite Forall_forall in H13. specialize (H13 r0 Hin).
      unfold o, pobj in E0. cbn [r_id] in E0. lia.
    - rewrite HE. apply Forall_app. split.
      + eapply Forall_impl; [|exact H13]. cbn beta. intros r0 Hr0. cbn [push1 y_x xs_nid x_nid]. lia.
      + constructor; [|constructor]. cbn [push1 y_x xs_nid x_nid o pobj r_id]. lia.
    - intros p0 c Hin Hf. rewrite HE in Hin. apply in_app_or in Hin as [Hin|[<-|[]]]; [eapply H14; eassumption|].
      unfold o, pobj in Hf. cbn [r_fw] in Hf. congruence.
  Qed.
  (* ---------------------------------------------------------------- *)
  (* shouldUseForwarding succeeded: a channel is made, the producer p (pushed in the previous
     cycle, still in the execute bus) gets it as Forwarder, the runner r as Receiver *)

  Lemma NoDup_ids_eq (l : list runner1) p q : NoDup (map r_id l) -> In p l -> In q l -> r_id p = r_id q -> p = q.
  Proof.
    induction l as [|a t IH]; intros Hnd Hp Hq E; [destruct Hp|]. cbn [map] in Hnd. inversion Hnd as [|? ? Hno Hnd']; subst.
    destruct Hp as [<-|Hp], Hq as [<-|Hq]; auto.
    - exfalso. apply Hno. rewrite E. apply in_map. exact Hq.
    - exfalso. apply Hno. rewrite <- E. apply in_map. exact Hp.
  Qed.

  Lemma setf_core d m r p reg : CoreI d [r] m -> (d <= N)%nat -> (d < n)%nat ->
    In p (EB m) -> r_fw p = None -> In reg (instr_WriteRegisters (r_instr (r_b p))) -> reg <> 0 ->
    In reg (instr_ReadRegisters (ik d)) ->
    let m1 := setf m (r_id p) in
    let r1 := mk_r1 (r_b r) (r_id r) (r_fw r) (Some (x_nch (y_x m))) reg in
    CoreI d [r] m1 /\ CoreI d [r1] m1.
  Proof.
    intros [H1 H2 H3 (fs & HS & Hlk) H5 H6 H7 H8 H9 H10 H11 H12 H13 H14] HdN Hdn Hp Hpf Hregw Hnz Hregr. cbv zeta.
    inversion H2 as [|? ? (Hrb & Hrf & Hone) _]; subst.
    set (ch := x_nch (y_x m)). set (m1 := setf m (r_id p)).
    set (r1 := mk_r1 (r_b r) (r_id r) (r_fw r) (Some ch) reg).
    assert (HE : EB m1 = map (setfw (r_id p) ch) (EB m)) by apply EB_setf.
    assert (HW : WB m1 = WB m) by reflexivity.
    destruct (map_setfw_b (r_id p) ch (EB m)) as [Mb Mi].
    assert (Mk : map kr1 (EB m1) = map kr1 (EB m)).
    { rewrite HE, map_map. apply map_ext. intros r0. unfold kr1. destruct (setfw_b (r_id p) ch r0) as (E & _). rewrite E. reflexivity. }
    assert (HFL : FL1 m1 = FL1 m) by (unfold FL1; rewrite Mk, HW; reflexivity).
    assert (Hpn : forall p0, In p0 (EB m) -> r_id p0 = r_id p -> r_fw p0 = None).
    { intros p0 Hp0 E0. rewrite (NoDup_ids_eq (EB m) p0 p H12 Hp0 Hp E0). exact Hpf. }
    rewrite Forall_forall in H1. destruct (RunOK1_kr d p (H1 p Hp)) as (Pj1 & Pj2 & Pj3 & Pj4). set (j := kr1 p) in *.
    assert (HjF : In j (FL1 m)) by (unfold FL1; apply in_or_app; left; apply in_map; exact Hp).
    assert (Hval : regval j = rget (sreg d) reg).
    { eapply fwd_value; try eassumption. rewrite Pj4 in Hregw. exact Hregw. }
    destruct H11 as [C1 C2 C3 C4 C5 C6]. rewrite Forall_forall in C1.
    assert (Hfresh : forall c, In c (keys (x_ch (y_x m)) ++ fws (EB m) ++ rcs ([r] ++ EB m)) -> c <> ch).
    { intros c Hc. specialize (C1 c Hc). fold ch in C1. lia. }
    assert (Xch : x_ch (y_x m1) = x_ch (y_x m)) by reflexivity.
    assert (Xn : x_nch (y_x m1) = ch + 1) by reflexivity.
    (* the parts that do not depend on the pending queue *)
    assert (Hcommon : forall P', Forall (fun r0 => r_b r0 = rnq d /\ r_fw r0 = None /\ one_read app d (rcreg r0)) P' -> ChI P' m1 -> CoreI d P' m1).
    { intros P' HP' HC. constructor; rewrite ?HFL, ?HW; auto.
      - rewrite HE. apply Forall_forall. intros r0 Hr0. apply in_map_iff in Hr0 as (r0' & <- & Hr0').
        destruct (H1 r0' Hr0') as (k & A & B & C & E). exists k. destruct (setfw_b (r_id p) ch r0') as (Eb & _). rewrite Eb. auto.
      - exists fs. split; [exact HS|]. intros r0 Hr0. rewrite HE in Hr0. apply in_map_iff in Hr0 as (r0' & <- & Hr0').
        destruct (setfw_b (r_id p) ch r0') as (Eb & _ & Erc & Efr). unfold kr1, rcreg. rewrite Eb, Erc, Efr. apply (Hlk r0' Hr0').
      - intros Ed Hr. rewrite HE, Mb. apply H7; assumption.
      - intros Hpc. destruct (H10 Hpc) as (r0 & Hin & Hc). exists (setfw (r_id p) ch r0). split; [rewrite HE; apply in_map; exact Hin|].
        destruct (setfw_b (r_id p) ch r0) as (Eb & _). rewrite Eb. exact Hc.
      - rewrite HE, Mi. exact H12.
      - rewrite HE. apply Forall_forall. intros r0 Hr0. apply in_map_iff in Hr0 as (r0' & <- & Hr0').
        destruct (setfw_b (r_id p) ch r0') as (_ & Ei & _). rewrite Ei. rewrite Forall_forall in H13. apply (H13 r0' Hr0').
      - intros p0 c Hin Hf. rewrite HE in Hin. apply in_map_iff in Hin as (p0' & <- & Hp0').
        replace (kr1 (setfw (r_id p) ch p0')) with (kr1 p0') by (unfold kr1; destruct (setfw_b (r_id p) ch p0') as (Eb & _); rewrite Eb; reflexivity).
        unfold setfw in Hf. destruct (Z.eqb_spec (r_id p0') (r_id p)) as [Ei|Ei]; [|eapply H14; eassumption].
        rewrite (NoDup_ids_eq (EB m) p0' p H12 Hp0' Hp Ei). fold j.
        rewrite Pj4 in Hregw. cbn [Mvp61RefFront.rnq r_instr] in Hregw. split.
        + destruct (is_ret (ik j)) eqn:Er; [|reflexivity]. exfalso. destruct (is_ret_regs _ Er) as [_ Ew].
          rewrite Ew in Hregw. destruct Hregw.
        + (* a producer writes a register: it is not a conditional branch; it is older than an instruction
             of the segment: it is not the jump at which decoding stops *)
          unfold InstructionType_IsBranch. apply orb_false_iff. split.
          * assert (HjN : (base <= j < N)%nat) by lia.
            pose proof (stop_from_before app dfl base j HjN) as Hs. unfold is_stop in Hs. apply orb_false_iff in Hs as [_ Hs]. exact Hs.
          * destruct (InstructionType_IsConditionalBranch (instr_InstructionType (ik j))) eqn:Ec; [|reflexivity]. exfalso.
            rewrite (condbr_no_write _ Ec) in Hregw. destruct Hregw. }
    (* the channel invariant for a pending runner that keeps its Receiver, or gets the new channel *)
    assert (HCh : forall r', kr1 r' = kr1 r ->
              (r_rc r' = r_rc r /\ r_freg r' = r_freg r) \/ (r_rc r' = Some ch /\ r_freg r' = reg) -> ChI [r'] m1).
    { intros r' Hk' Hcase.
      assert (Hrcs : forall c, In c (rcs ([r'] ++ EB m1)) -> In c (rcs ([r] ++ EB m)) \/ c = ch).
      { intros c Hc. rewrite rcs_app, HE, rcs_setfw in Hc. rewrite rcs_app. apply in_app_or in Hc as [Hc|Hc]; [|left; apply in_or_app; right; exact Hc].
        unfold rcs in Hc. cbn [flat_map] in Hc. rewrite app_nil_r in Hc.
        destruct Hcase as [[E _]|[E _]]; rewrite E in Hc.
        - left. apply in_or_app. left. unfold rcs. cbn [flat_map]. rewrite app_nil_r. exact Hc.
        - destruct Hc as [<-|[]]. right. reflexivity. }
      constructor; rewrite ?Xch, ?Xn.
      - apply Forall_forall. intros c Hc. apply in_app_or in Hc as [Hc|Hc]; [specialize (C1 c ltac:(apply in_or_app; left; exact Hc)); fold ch in C1; lia|].
        apply in_app_or in Hc as [Hc|Hc].
        + rewrite HE in Hc. apply fws_setfw_in in Hc as [Hc| ->]; [|lia].
          specialize (C1 c ltac:(apply in_or_app; right; apply in_or_app; left; exact Hc)). fold ch in C1. lia.
        + destruct (Hrcs c Hc) as [Hc'| ->]; [|lia].
          specialize (C1 c ltac:(apply in_or_app; right; apply in_or_app; right; exact Hc')). fold ch in C1. lia.
      - destruct (setfw_split (r_id p) ch (EB m) H12 p Hp eq_refl) as (a & b & Ea & Eb).
        rewrite HE, Eb. rewrite Ea in C2. rewrite fws_app, fws_cons in C2 |- *. unfold fwl in C2 |- *. cbn [r_fw] in *. rewrite Hpf in C2. cbn [List.app] in C2 |- *.
        rewrite <- app_assoc in C2 |- *. cbn [List.app].
        eapply Permutation_NoDup; [apply Permutation_middle|]. constructor; [|exact C2].
        intros Hin. apply (Hfresh ch); [|reflexivity]. rewrite Ea, fws_app, fws_cons. unfold fwl. rewrite Hpf. cbn [List.app].
        rewrite !in_app_iff in *. tauto.
      - rewrite rcs_app, HE, rcs_setfw. rewrite rcs_app in C3. unfold rcs at 1. cbn [flat_map]. rewrite app_nil_r.
        destruct Hcase as [[E _]|[E _]]; rewrite E.
        + unfold rcs at 1 in C3. cbn [flat_map] in C3. rewrite app_nil_r in C3. exact C3.
        + cbn [List.app]. constructor; [|exact (nodup_app_r _ _ C3)].
          intros Hin. apply (Hfresh ch); [|reflexivity]. rewrite rcs_app. rewrite !in_app_iff. tauto.
      - intros r0 c Hin Hc.
        assert (Hold : forall r0', (r0' = r \/ In r0' (EB m)) -> r_rc r0' = Some c ->
                  (forall v, In (c, v) (x_ch (y_x m)) -> v = rget (sreg (kr1 r0')) (r_freg r0')) /\
                  (forall p0, In p0 (EB m1) -> r_fw p0 = Some c -> regval (kr1 p0) = rget (sreg (kr1 r0')) (r_freg r0'))).
        { intros r0' Hin' Hc'. destruct (C4 r0' c ltac:(destruct Hin' as [->|Hx]; [left; reflexivity | right; exact Hx]) Hc') as [A B].
          split; [exact A|]. intros p0 Hp0 Hf0. rewrite HE in Hp0. apply in_map_iff in Hp0 as (p0' & <- & Hp0').
          assert (Hcne : c <> ch).
          { apply Hfresh. apply in_or_app. right. apply in_or_app. right. apply rcs_in. exists r0'. split; [|exact Hc'].
            destruct Hin' as [->|Hx]; [left; reflexivity | right; exact Hx]. }
          unfold setfw in Hf0 |- *. destruct (r_id p0' =? r_id p); [cbn [r_fw] in Hf0; congruence|]. apply B; assumption. }
        destruct Hin as [<-|Hin].
        + destruct Hcase as [[E1 E2]|[E1 E2]].
          * rewrite Hk', E2. apply (Hold r (or_introl eq_refl)). rewrite <- E1. exact Hc.
          * rewrite E1 in Hc. injection Hc as <-. rewrite Hk', E2. split.
            -- intros v Hv. exfalso. apply (Hfresh ch); [|reflexivity]. apply in_or_app. left. apply in_map_iff. exists (ch, v). auto.
            -- intros p0 Hp0 Hf0. rewrite HE in Hp0. apply in_map_iff in Hp0 as (p0' & <- & Hp0').
               assert (Hid : r_id p0' = r_id p).
               { unfold setfw in Hf0. destruct (Z.eqb_spec (r_id p0') (r_id p)) as [Ei|Ei]; [exact Ei|]. exfalso.
                 apply (Hfresh ch); [|reflexivity]. apply in_or_app. right. apply in_or_app. left. apply fws_in. exists p0'. auto. }
               rewrite (NoDup_ids_eq (EB m) p0' p H12 Hp0' Hp Hid).
               replace (kr1 (setfw (r_id p) ch p)) with j by (unfold j, kr1; destruct (setfw_b (r_id p) ch p) as (Eb & _); rewrite Eb; reflexivity).
               rewrite (kr1_rnq r d Hrb). exact Hval.
        + rewrite HE in Hin. apply in_map_iff in Hin as (r0' & <- & Hin').
          destruct (setfw_b (r_id p) ch r0') as (Eb & _ & Erc & Efr). rewrite Erc in Hc.
          replace (kr1 (setfw (r_id p) ch r0')) with (kr1 r0') by (unfold kr1; rewrite Eb; reflexivity). rewrite Efr.
          apply (Hold r0' (or_intror Hin') Hc).
      - rewrite HE. apply AvE_setfw; assumption.
      - intros r0 c [<-|[]] Hc. destruct Hcase as [[E1 E2]|[E1 E2]].
        + rewrite E1 in Hc. destruct (C6 r c (or_introl eq_refl) Hc) as [A|A]; [left; exact A | right].
          rewrite HE. apply fws_setfw_sub; assumption.
        + rewrite E1 in Hc. injection Hc as <-. right. rewrite HE. apply fws_in. exists (setfw (r_id p) ch p).
          split; [apply in_map; exact Hp|]. unfold setfw. rewrite Z.eqb_refl. reflexivity. }
    split.
    - apply Hcommon; [exact H2|]. apply HCh; [reflexivity | left; split; reflexivity].
    - apply Hcommon.
      + constructor; [|constructor]. split; [exact Hrb|]. split; [exact Hrf|]. unfold rcreg, r1. cbn [r_rc r_freg]. apply one_read_in. exact Hregr.
      + apply HCh; [reflexivity | right; split; reflexivity].
  Qed.
  (* ---------------------------------------------------------------- *)
  (* facts about the instructions of the segment, with the signature of this section *)

  Lemma embed_flags1 k : (base <= k <= N)%nat -> (k < n)%nat ->
    Return (embed (eff k)) = is_ret (ik k) /\ MemoryChange (embed (eff k)) = false /\
    PcChange (embed (eff k)) = (match etarget (eff k) with Some _ => true | None => false end) /\
    (forall a, etarget (eff k) = Some a -> NextPc (embed (eff k)) = a).
  Proof. exact (embed_flags app labels regs0 base Hreg Hsem k). Qed.

  Lemma eff_ret1 k : (base <= k <= N)%nat -> (k < n)%nat -> (eff k = EReturn <-> is_ret (ik k) = true).
  Proof. exact (eff_ret app labels regs0 base Hsem k). Qed.

  Lemma eff_plain k : (base <= k <= N)%nat -> (k < n)%nat -> is_ret (ik k) = false ->
    InstructionType_IsBranch (instr_InstructionType (ik k)) = false -> etarget (eff k) = None.
  Proof.
    intros H1 H2 Hr Hb. unfold InstructionType_IsBranch in Hb. apply orb_false_iff in Hb as [Hj Hc].
    pose proof (eff_kind app labels regs0 base Hsem k H1 H2) as Hk. fold (is_jump (ik k)) in Hj. fold (condbr (ik k)) in Hc.
    destruct (eff k); cbn [etarget]; try reflexivity; exfalso; [destruct Hk as [Hx|[_ Hx]]|]; congruence.
  Qed.

  Lemma sreg_int32_1 k : Forall int32 regs0 -> Forall int32 (sreg k).
  Proof. intros H. apply sreg_int32. exact H. Qed.
End Inv.
