(* Refinement of MVP-6.0 (proc/mvp6-0, the first superscalar variant: dispatch of up
   to two instructions per cycle to 1..4 execute units under the RAW / WAW / WAR
   checks of the scoreboard, out-of-order write-back) to the sequential machine
   Isa/Seq.v on REGISTER-ONLY programs - part 6b: the theorems.

   1. Straight-line programs (no branch, no jump; ret anywhere): mvp60_refines_seq_straight,
      with the cycle bound mvp60_cycles_lower_bound_straight.
   2. Programs with FORWARD control flow - conditional branches, j, jal to defined,
      4-aligned labels strictly ahead of the instruction and at most at the end of the
      text - without div / rem / jalr (class fwd_ok): mvp60_refines_seq_forward.  The
      run is cut into straight-line segments at every flush; the wrong path (instructions
      dispatched behind a taken branch, executed or not) is squashed because all of it is
      still in the execute bus / write bus when the branch executes, and the flush loop
      drops it (Mvp60RefSem.bw_squash).  div and rem are excluded because a wrong-path
      division by zero aborts the run (Mvp60RefBranch.v).

   Structure of the proof
     Mvp60RefSem.v    the invariant BackSem on (dispatched count, in-flight list, register
                      file, scoreboards), all schedules; BackSemW / bw_squash for flushes
     Mvp60RefDefs.v   program classes, buses, scoreboard operations
     Mvp60RefFront.v  fetch unit (L1I, coroutine states), decode unit
     Mvp60RefBack.v   control unit, execute units (never kept waiting), write units
     Mvp60RefStep.v   invariants FrontI / TI / GI, potential phi, one iteration of the main loop
     Mvp60RefStep2.v  one tick in each of the three loops of Run
     Mvp60RefSeg.v    one segment: machine and sequential machine
     this file        initial state, segments put together, theorems. *)
From Coq Require Import ZArith List Bool Lia Permutation.
From Maj Require Import Base.Outcome Base.GoInt Base.GoTypes Isa.Spec Isa.Embed Isa.Seq Isa.Refine.
From Maj Require Import Gen.Latency Gen.RiscTables Gen.Opcodes Comp.Cache.
From Maj Require Import Mvp.Mvp12 Mvp.Mvp12Proofs Mvp.Mvp3 Mvp.Mvp3Proofs Mvp.Mvp4Skel Mvp.Mvp4Inv Mvp.Mvp4Sim Mvp.Mvp5 Mvp.Mvp60
     Mvp.Mvp60RefSem Mvp.Mvp60RefDefs Mvp.Mvp60RefFront Mvp.Mvp60RefBack Mvp.Mvp60RefStep Mvp.Mvp60RefStep2 Mvp.Mvp60RefSeg.
Import ListNotations.
Open Scope Z_scope.

(* ticks of Run that suffice for one straight-line segment / for a whole run *)
Definition seg_bound60 (n : nat) : nat := (400 * n + 1600)%nat.
Definition fuel_bound60 (n : nat) : nat := seg_bound60 n.
Definition fuel_bound60_fwd (n : nat) : nat := ((n + 1) * seg_bound60 n)%nat.

Lemma busok_new {T} cyc : BusOK cyc (@bb_new T 2 2).
Proof. constructor; try reflexivity. unfold qlen, bb_new. cbn. lia. constructor. Qed.

(* a fresh state satisfies the invariant of the main loop at base t *)
Lemma fresh_GI app labels mem0 t R off s : Fresh app mem0 t R s -> (t <= length app)%nat ->
  (length R <= 32)%nat -> Forall int32 R -> Z.of_nat t <= 2 * s_cycle s + off ->
  GI app labels R mem0 t off t t t t s.
Proof.
  intros [H1 H2 H3 H4 H5 H6 H7 H8 H9 H10 H11 H12 H13 H14 H15 H16 H17 H18 H19 H20 H21 H22] Ht HlR HR Hc.
  assert (Heul : eul (s_eus s) = []) by (apply eul_none; exact H18).
  constructor; auto.
  - constructor; rewrite ?H14, ?H15, ?H16, ?H17, ?H12; try apply busok_new; auto; try lia.
    + constructor; auto.
      * rewrite H8. discriminate.
      * intros _. split; [lia | rewrite H8; discriminate].
      * rewrite H7. discriminate.
    + rewrite Nat.sub_diag. reflexivity.
    + replace (Nat.min t (length app) - t)%nat with O by lia. reflexivity.
    + intros _ _. pose proof (stop_from_ge app t). lia.
    + rewrite H10. discriminate.
    + rewrite H11. discriminate.
    + unfold blen, bb_new. cbn. lia.
  - constructor; rewrite ?H16, ?H17; try (constructor; fail); auto.
    + eapply Forall_impl; [|exact H18]. intros e. apply EuNone_ok.
    + unfold FL. rewrite H16, H17, Heul. cbn [flat bb_new bb_q bb_buf map List.app]. rewrite H1, H3, H4.
      apply bs_init; [exact HlR | exact HR | reflexivity | reflexivity].
  - constructor; rewrite ?H16, ?H17; auto; try reflexivity; try lia;
      try (unfold blen, bb_new; cbn; lia); try (rewrite Nat.sub_diag; reflexivity);
      try (intros _; split; [reflexivity|]; unfold blen, bb_new; cbn; discriminate); try (intros k Hk; lia).
Qed.

(* NewCPU builds a fresh state at 0 *)
Lemma init_fresh app par st : (1 <= par)%nat ->
  exists s0, init6 par st = Ok s0 /\ Fresh app (mem st) 0 (regs st) s0 /\ s_cycle s0 = 0.
Proof.
  intros Hpar. destruct init_caches as (c0 & E0 & HI0 & _ & _). unfold init6. rewrite E0.
  change (new_cache l3LineSize l3Size) with (Ok (mkCache 16 64 [])). eexists. split; [reflexivity|]. split; [|reflexivity].
  constructor; cbn [s_m s_eus s_wus s_mode m_regs m_mem m_pw m_pr m_l3 m_fu m_l1i m_dret m_dpbr m_cu m_bu m_dbus m_cbus m_ebus m_wbus
                    f_pc f_complete f_co b_btb lines]; auto; try reflexivity;
    try (apply Forall_forall; intros e He; apply repeat_spec in He; subst e; try split; reflexivity);
    try (destruct par; [lia | discriminate]); try (rewrite !repeat_length; reflexivity).
Qed.

Lemma run6_more app labels ord : forall fuel k s r, run6_st fuel app labels ord s = inl r -> run6_st (fuel + k) app labels ord s = inl r.
Proof.
  induction fuel as [|fuel IH]; intros k s r H; [discriminate|]. cbn [run6_st Nat.add] in *.
  destruct (step6 app labels ord s); [exact H | apply IH; exact H].
Qed.

Lemma mvp60_run_more app labels par ord fuel k st c st' :
  mvp60_run par ord fuel app labels st = MDone c st' -> mvp60_run par ord (fuel + k) app labels st = MDone c st'.
Proof.
  unfold mvp60_run, mvp60_run_os. destruct (init6 par st) as [s0| |]; try discriminate. unfold run6.
  destruct (run6_st fuel app labels ord s0) as [r|s'] eqn:E; [|discriminate].
  intros H. rewrite (run6_more app labels ord _ k _ _ E). exact H.
Qed.

(* the potential of a fresh state *)
Lemma mu_fresh app mem0 t R s : Fresh app mem0 t R s -> mu app s < Z.of_nat (seg_bound60 (length app)).
Proof.
  intros [H1 H2 H3 H4 H5 H6 H7 H8 H9 H10 H11 H12 H13 H14 H15 H16 H17 H18 H19 H20 H21 H22].
  unfold mu. rewrite H22. unfold phis, phi, phiR, phiM. rewrite (eul_none _ H18), H14, H15, H16, H17, H12.
  unfold phiF, phi_co. rewrite H6, H8. unfold blen, qlen, zlen, bb_new. cbn [bb_buf bb_q length].
  unfold seg_bound60, MemoryAccess, pcz. lia.
Qed.

(* ------------------------------------------------------------------ *)
(* 2. forward control flow                                              *)

(* instruction k may transfer control only forward, to a defined 4-aligned label inside
   the text or just behind it; it cannot fail (no div, rem) and its target does not
   depend on a register (no jalr) *)
Definition label_fwd (n : nat) (labels : Z -> option Z) (k : nat) (l : Z) : bool :=
  match labels l with
  | Some a => (pcz k <? a) && (a <=? pcz n) && (a mod 4 =? 0)
  | None => false
  end.
Definition instr_fwd (n : nat) (labels : Z -> option Z) (k : nat) (i : instr) : bool :=
  match sinstr_of i with
  | SDiv _ _ _ | SRem _ _ _ | SJalr _ _ _ => false
  | SBeq _ _ l | SBne _ _ l | SBlt _ _ l | SBge _ _ l | SBle _ _ l | SBltu _ _ l | SBgeu _ _ l
  | SBeqz _ l | SBnez _ l | SJ l | SJal _ l => label_fwd n labels k l
  | _ => true
  end.
Definition fwd_ok (app : list instr) (labels : Z -> option Z) : bool :=
  forallb (fun ki => instr_fwd (length app) labels (fst ki) (snd ki)) (combine (seq 0 (length app)) app).

Lemma label_fwd_target n labels k l : label_fwd n labels k l = true ->
  exists t, labels l = Some (pcz t) /\ (k < t <= n)%nat.
Proof.
  unfold label_fwd. destruct (labels l) as [a|]; [|discriminate]. intros H.
  apply andb_prop in H as [H H3]. apply andb_prop in H as [H1 H2].
  apply Z.ltb_lt in H1. apply Z.leb_le in H2. apply Z.eqb_eq in H3. unfold pcz in *.
  exists (Z.to_nat (a / 4)). assert (a = 4 * (a / 4)) by (rewrite (Z.div_mod a 4) at 1 by lia; lia).
  assert (0 <= a / 4) by (apply Z.div_pos; lia).
  split; [f_equal; rewrite Z2Nat.id by lia; exact H | lia].
Qed.

Lemma fwd_total app labels k rr : fwd_ok app labels = true -> (k < length app)%nat ->
  exists e, exec (sinstr_of (ik app k)) rr labels (pcz k) [] = Ok e /\
            (forall a, etarget e = Some a -> exists t, a = pcz t /\ (k < t <= length app)%nat).
Proof.
  intros Hf Hk. unfold fwd_ok in Hf. rewrite forallb_forall in Hf.
  assert (Hin : In (k, ik app k) (combine (seq 0 (length app)) app)).
  { unfold ik. assert (Hs : nth k (seq 0 (length app)) O = k) by (rewrite seq_nth by exact Hk; reflexivity).
    rewrite <- Hs at 1. rewrite <- combine_nth by (rewrite seq_length; reflexivity).
    apply nth_In. rewrite combine_length, seq_length. lia. }
  specialize (Hf _ Hin). cbn [fst snd] in Hf. unfold instr_fwd in Hf.
  destruct (sinstr_of (ik app k)); try discriminate Hf; cbn [exec]; unfold branch;
    try (eexists; split; [reflexivity | intros a Ha; discriminate Ha]);
    try (destruct (label_fwd_target _ _ _ _ Hf) as (t & -> & Ht);
         match goal with
         | |- context [if ?c then _ else _] => destruct c
         | _ => idtac
         end;
         eexists; (split; [reflexivity|]); cbn [etarget]; intros a Ha; try discriminate Ha; injection Ha as <-; eauto).
Qed.

Section Fwd.
  Variables (app : list instr) (labels : Z -> option Z).
  Hypothesis Happ : wf_app app.
  Hypothesis Hreg : reg_only app = true.
  Hypothesis Hfwd : fwd_ok app labels = true.
  Let n := length app.
  Let sp := map sinstr_of app.

  (* in this class no instruction fails, whatever the registers: the hypothesis of a
     segment holds for every base and every register file *)
  Lemma hsem_all regs0 base : forall k, (base <= k <= stop_from app base)%nat -> (k < n)%nat ->
    exec (sinstr_of (ik app k)) (rget (sreg app labels regs0 base k)) labels (pcz k) [] = Ok (eff app labels regs0 base k) /\
    (forall a, etarget (eff app labels regs0 base k) = Some a -> exists t, a = pcz t /\ (k < t <= n)%nat).
  Proof.
    intros k _ Hk. destruct (fwd_total app labels k (rget (sreg app labels regs0 base k)) Hfwd Hk) as (e & He & Ht).
    unfold eff, eff_at. rewrite He. split; [reflexivity | exact Ht].
  Qed.

  Lemma fwd_core ord mem0 : forall m t R s fuel tr0 st' tr,
    (n - t <= m)%nat -> (t <= n)%nat -> Fresh app mem0 t R s -> (length R <= 32)%nat -> Forall int32 R ->
    Seq.run fuel sp labels (mk_arch R mem0) (pcz t) tr0 = Done st' tr ->
    exists K c os, (K <= (m + 1) * seg_bound60 n)%nat /\
                   forall extra, run6_st (K + extra) app labels ord s = inl (MDone c st', os).
  Proof.
    induction m as [|m IH]; intros t R s fuel tr0 st' tr Hm Htn HF HlR HR Hrun.
    - (* t = n: the segment cannot end in a flush *)
      set (off := Z.of_nat t - 2 * s_cycle s).
      pose proof (fresh_GI app labels mem0 t R off s HF Htn HlR HR ltac:(unfold off; lia)) as HG.
      destruct (seg_run app labels R mem0 t off Happ Hreg HlR Htn (hsem_all R t) ord (seg_bound60 n) s (SI_n _ _ _ _ _ _ _ _ _ _ _ HG) (mu_fresh _ _ _ _ _ HF))
        as [(k & r & os & Hk & Hr & HFin)|(k & s' & E & t' & Hk & Hr & HFr & HE & Ht' & _)]; [|fold n in Ht'; lia].
      destruct (seg_seq_fin app labels R mem0 t off Hreg HlR Htn (hsem_all R t) r fuel tr0 st' tr HFin Hrun) as (cf & -> & _).
      exists k, cf, os. split; [lia | exact Hr].
    - set (off := Z.of_nat t - 2 * s_cycle s).
      pose proof (fresh_GI app labels mem0 t R off s HF Htn HlR HR ltac:(unfold off; lia)) as HG.
      destruct (seg_run app labels R mem0 t off Happ Hreg HlR Htn (hsem_all R t) ord (seg_bound60 n) s (SI_n _ _ _ _ _ _ _ _ _ _ _ HG) (mu_fresh _ _ _ _ _ HF))
        as [(k & r & os & Hk & Hr & HFin)|(k & s' & E & t' & Hk & Hr & HFr & HE & Ht' & Hex & Hout)].
      + destruct (seg_seq_fin app labels R mem0 t off Hreg HlR Htn (hsem_all R t) r fuel tr0 st' tr HFin Hrun) as (cf & -> & _).
        exists k, cf, os. split; [lia | exact Hr].
      + fold n in Ht'.
        destruct (seg_seq_flush app labels R mem0 t Hreg HlR Htn (hsem_all R t) E t' fuel tr0 st' tr HE Ht' Hex Hout Hrun) as (fuel' & tr1 & Hrun').
        destruct (IH t' (sreg app labels R t (S E)) s' fuel' tr1 st' tr ltac:(lia) ltac:(lia) HFr
                    ltac:(rewrite sreg_length; exact HlR) (sreg_int32 app labels R t HR (S E)) Hrun') as (K' & c & os & HK' & Hr').
        exists (k + K')%nat, c, os. split; [lia|]. intros extra. rewrite <- Nat.add_assoc, Hr. apply Hr'.
  Qed.

  (* 2. forward control flow without div / rem / jalr: the pipeline computes the sequential result *)
  Theorem mvp60_refines_seq_forward par ord fuel st st' tr : (1 <= par)%nat ->
    Forall int32 (regs st) -> (length (regs st) <= 32)%nat ->
    seq_run fuel sp labels st = Done st' tr ->
    exists c, forall fuel', (fuel_bound60_fwd (length app) <= fuel')%nat -> mvp60_run par ord fuel' app labels st = MDone c st'.
  Proof.
    intros Hpar HR HlR Hrun. destruct (init_fresh app par st Hpar) as (s0 & E0 & HF & _).
    unfold seq_run in Hrun. assert (Hst : st = mk_arch (regs st) (mem st)) by (destruct st; reflexivity).
    rewrite Hst in Hrun at 1. change 0 with (pcz 0) in Hrun.
    destruct (fwd_core ord (mem st) n O (regs st) s0 fuel [] st' tr ltac:(lia) ltac:(lia) HF HlR HR Hrun) as (K & c & os & HK & Hr).
    exists c. intros fuel' Hf. unfold mvp60_run, mvp60_run_os. rewrite E0. unfold run6.
    unfold fuel_bound60_fwd in Hf. fold n in Hf.
    replace fuel' with (K + (fuel' - K))%nat by lia. rewrite Hr. reflexivity.
  Qed.
End Fwd.

(* ------------------------------------------------------------------ *)
(* 1. straight-line programs                                            *)

Section Straight.
  Variables (app : list instr) (labels : Z -> option Z).
  Hypothesis Happ : wf_app app.
  Hypothesis Hstr : straight app = true.
  Hypothesis Hreg : reg_only app = true.
  Let n := length app.
  Let N := stop_from app 0.
  Let sp := map sinstr_of app.

  Lemma ik_nobranch k : nobranch (ik app k) = true.
  Proof.
    unfold ik. destruct (Nat.lt_ge_cases k n) as [H|H].
    - unfold straight in Hstr. rewrite forallb_forall in Hstr. apply Hstr. apply nth_In. exact H.
    - rewrite nth_overflow by exact H. reflexivity.
  Qed.

  Lemma ik_nomem' k : nomem (ik app k) = true.
  Proof.
    unfold ik. destruct (Nat.lt_ge_cases k n) as [H|H].
    - unfold reg_only in Hreg. rewrite forallb_forall in Hreg. apply Hreg. apply nth_In. exact H.
    - rewrite nth_overflow by exact H. reflexivity.
  Qed.

  Lemma N_first_ret : N = first_ret app.
  Proof. unfold N. rewrite stop_from_0. apply first_stop_straight. exact Hstr. Qed.

  (* the sequential machine runs straight up to the first ret: every instruction before it
     executes without error and writes at most a register *)
  Lemma seq_straight regs0 mem0 : (length regs0 <= 32)%nat -> forall fuel k tr0 st' tr, (k <= N)%nat ->
    Seq.run fuel sp labels (mk_arch (sreg app labels regs0 0 k) mem0) (pcz k) tr0 = Done st' tr ->
    forall j, (k <= j < N)%nat ->
      exec (sinstr_of (ik app j)) (rget (sreg app labels regs0 0 j)) labels (pcz j) [] = Ok (eff app labels regs0 0 j) /\
      (eff app labels regs0 0 j = EFall \/ exists rd v, eff app labels regs0 0 j = EReg rd v).
  Proof.
    intros Hl0. induction fuel as [|fuel IH]; intros k tr0 st' tr HkN H; [discriminate|]. cbn [Seq.run] in H.
    assert (HNn : (N <= n)%nat) by (rewrite N_first_ret; apply first_ret_le).
    intros j Hj. assert (Hkn : (k < n)%nat) by lia.
    assert (Hi : nth_error app (Z.to_nat (pcz k / 4)) = Some (ik app k)).
    { rewrite pcz_div, Nat2Z.id. apply ik_nth. exact Hkn. }
    unfold sp in H. rewrite (step_nomem app labels Hreg _ (pcz k) (ik app k) (pcz_nonneg k) Hi) in H. cbn [regs Seq.mem] in H.
    destruct (exec (sinstr_of (ik app k)) (rget (sreg app labels regs0 0 k)) labels (pcz k) []) as [e|err|] eqn:Ee; [|discriminate|discriminate].
    assert (Heff : eff app labels regs0 0 k = e) by (unfold eff, eff_at; rewrite Ee; reflexivity).
    assert (Hnr : is_ret (ik app k) = false).
    { rewrite N_first_ret in Hj. apply (first_ret_before app dfl k). lia. }
    destruct (class_exec _ _ _ _ _ (ik_nomem' k) (ik_nobranch k) Ee) as [[Hret _]|[_ Hcl]]; [congruence|].
    destruct (Nat.eq_dec j k) as [->|Hjk]; [rewrite Heff; split; [exact Ee | exact Hcl]|].
    assert (Hstep : Seq.run fuel sp labels (mk_arch (sreg app labels regs0 0 (S k)) mem0) (pcz (S k)) (pcz k :: tr0) = Done st' tr).
    { rewrite sreg_S by (assumption || lia). rewrite Heff, pcz_S. destruct Hcl as [->|(rd & v & ->)]; cbn [apply_eff]; exact H. }
    apply (IH (S k) (pcz k :: tr0) st' tr ltac:(lia) Hstep). lia.
  Qed.

  Section Thm.
    Variables (par : nat) (ord : Z -> Z -> list Z -> list Z) (fuel : nat) (st st' : arch) (tr : list Z).
    Hypothesis Hpar : (1 <= par)%nat.
    Hypothesis Hr32 : Forall int32 (regs st).
    Hypothesis Hlen : (length (regs st) <= 32)%nat.
    Hypothesis Hrun : seq_run fuel sp labels st = Done st' tr.

    Lemma hsem_straight : forall k, (0 <= k <= N)%nat -> (k < n)%nat ->
      exec (sinstr_of (ik app k)) (rget (sreg app labels (regs st) 0 k)) labels (pcz k) [] = Ok (eff app labels (regs st) 0 k) /\
      (forall a, etarget (eff app labels (regs st) 0 k) = Some a -> exists t, a = pcz t /\ (k < t <= n)%nat).
    Proof.
      intros k Hk Hkn. pose proof Hrun as Hrun'. unfold seq_run in Hrun'.
      assert (Hst : st = mk_arch (sreg app labels (regs st) 0 0) (mem st)) by (destruct st; reflexivity).
      rewrite Hst in Hrun' at 1. change 0 with (pcz 0) in Hrun'.
      destruct (Nat.eq_dec k N) as [->|Hne].
      - (* the first ret *)
        assert (Hret : is_ret (ik app N) = true) by (rewrite N_first_ret; apply (first_ret_at app dfl); rewrite <- N_first_ret; exact Hkn).
        unfold eff, eff_at. rewrite (is_ret_exec _ _ _ _ _ Hret). split; [reflexivity | intros a Ha; discriminate Ha].
      - destruct (seq_straight (regs st) (mem st) Hlen fuel 0 [] st' tr ltac:(lia) Hrun' k ltac:(lia)) as [He Hcl].
        split; [exact He|]. intros a Ha. destruct Hcl as [Hc|(rd & v & Hc)]; rewrite Hc in Ha; discriminate Ha.
    Qed.

    (* 1. the superscalar pipeline computes the sequential registers and memory, without error
          or panic, for every number of execute / write units, every iteration order, all fuels
          from fuel_bound60 (length app) on; the cycle count is at least half the number of
          executed instructions (issue width two) *)
    Theorem mvp60_run_straight :
      exists c, (forall fuel', (fuel_bound60 (length app) <= fuel')%nat -> mvp60_run par ord fuel' app labels st = MDone c st') /\
                Z.of_nat (length tr) <= 2 * c.
    Proof.
      destruct (init_fresh app par st Hpar) as (s0 & E0 & HF & Hc0).
      pose proof (fresh_GI app labels (mem st) 0 (regs st) 0 s0 HF ltac:(lia) Hlen Hr32 ltac:(rewrite Hc0; lia)) as HG.
      destruct (seg_run app labels (regs st) (mem st) 0 0 Happ Hreg Hlen ltac:(lia) hsem_straight ord (seg_bound60 n) s0
                  (SI_n _ _ _ _ _ _ _ _ _ _ _ HG) (mu_fresh _ _ _ _ _ HF))
        as [(k & r & os & Hk & Hr & HFin)|(k & s' & E & t' & Hk & Hr & HFr & HE & Ht' & Hex & Hout)].
      - pose proof Hrun as Hrun'. unfold seq_run in Hrun'. assert (Hst : st = mk_arch (regs st) (mem st)) by (destruct st; reflexivity).
        rewrite Hst in Hrun' at 1. change 0 with (pcz 0) in Hrun'.
        destruct (seg_seq_fin app labels (regs st) (mem st) 0 0 Hreg Hlen ltac:(lia) hsem_straight r fuel [] st' tr HFin Hrun') as (cf & -> & Hcf).
        exists cf. split.
        + intros fuel' Hf. unfold mvp60_run, mvp60_run_os. rewrite E0. unfold run6. unfold fuel_bound60 in Hf. fold n in Hf.
          replace fuel' with (k + (fuel' - k))%nat by lia. rewrite Hr. reflexivity.
        + cbn [length] in Hcf. rewrite Nat.sub_0_r, Nat.add_0_r in Hcf. lia.
      - (* no instruction of a straight-line program asks for a flush *)
        exfalso. fold N in HE. fold n in Ht'.
        assert (HEn : (E < n)%nat) by lia.
        pose proof (eff_kind app labels (regs st) 0 hsem_straight E HE HEn) as Hkind.
        pose proof (nobranch_uncond _ (ik_nobranch E)) as Hj. pose proof (nobranch_cond _ (ik_nobranch E)) as Hcd.
        fold (is_jump (ik app E)) in Hj. fold (condbr (ik app E)) in Hcd.
        unfold kout in Hout. destruct (is_ret (ik app E)); [discriminate|].
        destruct (eff app labels (regs st) 0 E); cbn [etarget] in Hout; try discriminate.
        + destruct Hkind as [Hx|[_ Hx]]; congruence.
        + congruence.
    Qed.

    Theorem mvp60_refines_seq_straight :
      exists c, forall fuel', (fuel_bound60 (length app) <= fuel')%nat -> mvp60_run par ord fuel' app labels st = MDone c st'.
    Proof. destruct mvp60_run_straight as (c & H & _). exists c. exact H. Qed.

    (* 3. whenever the model finishes, with whatever fuel, it returns the sequential state and
          has counted at least ceil(executed / 2) cycles *)
    Theorem mvp60_cycles_lower_bound_straight fuel' c st'' :
      mvp60_run par ord fuel' app labels st = MDone c st'' ->
      st'' = st' /\ Z.of_nat (length tr) <= 2 * c /\ (Z.of_nat (length tr) + 1) / 2 <= c.
    Proof.
      intros H. destruct mvp60_run_straight as (c0 & H1 & H2).
      pose proof (mvp60_run_more app labels par ord fuel' (fuel_bound60 (length app)) st c st'' H) as H'.
      rewrite (H1 (fuel' + fuel_bound60 (length app))%nat ltac:(lia)) in H'. injection H' as -> ->.
      split; [reflexivity|]. split; [exact H2|]. assert (Hd := Z.div_lt_upper_bound (Z.of_nat (length tr) + 1) 2 (c + 1)); lia.
    Qed.

    Theorem mvp60_terminates_straight :
      exists c, mvp60_run par ord (fuel_bound60 (length app)) app labels st = MDone c st' /\
                (Z.of_nat (length tr) + 1) / 2 <= c.
    Proof.
      destruct mvp60_run_straight as (c & H1 & H2). exists c. split; [apply H1; lia|]. assert (Hd := Z.div_lt_upper_bound (Z.of_nat (length tr) + 1) 2 (c + 1)); lia.
    Qed.

    Corollary mvp60_no_panic_straight fuel' : (fuel_bound60 (length app) <= fuel')%nat ->
      mvp60_run par ord fuel' app labels st <> MPanic /\ mvp60_run par ord fuel' app labels st <> MOutOfFuel /\
      (forall e, mvp60_run par ord fuel' app labels st <> MErr e).
    Proof.
      intros Hf. destruct mvp60_refines_seq_straight as (c & Hc). rewrite (Hc fuel' Hf). repeat split; try discriminate.
    Qed.
  End Thm.
End Straight.
