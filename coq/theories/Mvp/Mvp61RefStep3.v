(* Refinement of MVP-6.1 to the sequential machine on register-only programs - part 9: one
   tick of Run in each of its loops: the main loop (step_normal2), the drain loop after ret
   (step_ret1), and the flush branch - `for {` with the execute units (step_flushO: every unit
   is idle, so it only connects the write bus) and the write-back loop of a write unit
   (step_flushW: entries younger than the flushing instruction are dropped by their sequence
   id), after which CPU.flush leaves a fresh machine at the target (Fresh1). *)
From Coq Require Import ZArith List Bool Lia Permutation.
From Maj Require Import Base.Outcome Base.GoInt Base.GoTypes Isa.Spec Isa.Embed Isa.Seq Isa.Refine.
From Maj Require Import Gen.Latency Gen.RiscTables Gen.Opcodes Comp.Cache.
From Maj Require Import Mvp.Mvp12 Mvp.Mvp12Proofs Mvp.Mvp3 Mvp.Mvp3Proofs Mvp.Mvp4Skel Mvp.Mvp4Inv Mvp.Mvp5 Mvp.Mvp60 Mvp.Mvp61
     Mvp.Mvp60RefSem Mvp.Mvp60RefDefs Mvp.Mvp60RefFront Mvp.Mvp60RefBack Mvp.Mvp60RefStep Mvp.Mvp60RefStep2
     Mvp.Mvp61RefSem Mvp.Mvp61RefFront Mvp.Mvp61RefBack Mvp.Mvp61RefInv Mvp.Mvp61RefCu Mvp.Mvp61RefExec Mvp.Mvp61RefExec2
     Mvp.Mvp61RefStep Mvp.Mvp61RefStep2.
Import ListNotations.
Open Scope Z_scope.

Lemma run1_S app labels ord pord s s' fuel : step1 app labels ord pord s = TCont s' ->
  run1_st (S fuel) app labels ord pord s = run1_st fuel app labels ord pord s'.
Proof. intros H. cbn [run1_st]. rewrite H. reflexivity. Qed.

Lemma run1_done app labels ord pord s r os fuel : step1 app labels ord pord s = TDone r os ->
  run1_st (S fuel) app labels ord pord s = inl (r, os).
Proof. intros H. cbn [run1_st]. rewrite H. reflexivity. Qed.

(* the machine right after a flush to instruction t (or at start: t = 0): empty pipeline,
   fetch unit at 4t, registers R, ctx.sequenceID = sq; the runners the execute units still hold
   are older than every instruction of the new segment *)
Record Fresh1 (app : list instr) (mem0 : list Z) (sq : Z) (t : nat) (R : list Z) (s : st1) : Prop := mkFresh1 {
  h_regs : m_regs (y_m (t_m s)) = R;
  h_mem : m_mem (y_m (t_m s)) = mem0;
  h_pw : m_pw (y_m (t_m s)) = zero_sb;
  h_pr : m_pr (y_m (t_m s)) = zero_sb;
  h_l3 : lines (m_l3 (y_m (t_m s))) = [];
  h_pc : f_pc (m_fu (y_m (t_m s))) = pcz t;
  h_comp : f_complete (m_fu (y_m (t_m s))) = false;
  h_co : f_co (m_fu (y_m (t_m s))) = FNone;
  h_l1i : IInv (m_l1i (y_m (t_m s)));
  h_dret : m_dret (y_m (t_m s)) = false;
  h_dpbr : m_dpbr (y_m (t_m s)) = false;
  h_cu : m_cu (y_m (t_m s)) = [];
  h_btb : Forall (fun en => fst en < pcz t) (b_btb (m_bu (y_m (t_m s))));
  h_dbus : m_dbus (y_m (t_m s)) = bb_new 2 2;
  h_cbus6 : bb_isempty (m_cbus (y_m (t_m s))) = true;
  h_ebus6 : bb_isempty (m_ebus (y_m (t_m s))) = true;
  h_wbus : m_wbus (y_m (t_m s)) = bb_new 2 2;
  h_seq : x_seq (y_x (t_m s)) = sq;
  h_fwd : x_fwd (y_x (t_m s)) = repeat no_fwd (length app);
  h_xcu : x_cu (y_x (t_m s)) = [];
  h_prev : x_prev (y_x (t_m s)) = [];
  h_pcb : x_pcb (y_x (t_m s)) = false;
  h_xcbus : x_cbus (y_x (t_m s)) = bb_new 2 2;
  h_xebus : x_ebus (y_x (t_m s)) = bb_new 2 2;
  h_ch : NoDup (keys (x_ch (y_x (t_m s)))) /\ Forall (fun c => c < x_nch (y_x (t_m s))) (keys (x_ch (y_x (t_m s))));
  h_eus : Forall EuNone1 (t_eus s);
  h_wus : Forall (fun w => u_co w = WNone) (t_wus s);
  h_wne : t_wus s <> [];
  h_len : length (t_eus s) = length (t_wus s);
  h_mode : t_mode s = NNormal;
  h_stale : Forall (StaleLt (pcz t + 1000 * sq)) (t_eus s) }.

Section Step3.
  Variables (app : list instr) (labels : Z -> option Z) (regs0 mem0 : list Z) (base : nat) (sq : Z) (off : Z).
  Hypothesis Happ : wf_app app.
  Hypothesis Hreg : reg_only app = true.
  Hypothesis Hrng : regs_in_range app = true.
  Hypothesis Hlen32 : length regs0 = 32%nat.
  Hypothesis Hbase : (base <= length app)%nat.
  Let n := length app.
  Let N := stop_from app base.
  Hypothesis Hsq : 0 <= sq /\ 1000 * sq + 4 * Z.of_nat n < 2147483648.

  Notation sreg := (sreg app labels regs0 base).
  Notation eff := (eff app labels regs0 base).
  Notation ik := (ik app).
  Notation rnq := (rnq app sq).
  Notation sid := (sid sq).
  Notation CoreI := (CoreI app labels regs0 mem0 base sq).
  Notation FL1 := (FL1 sq).
  Notation FrontI1 := (FrontI1 app base sq).
  Notation phi1 := (phi1 app).
  Notation GI1 := (GI1 app labels regs0 mem0 base sq off).
  Notation TI1 := (TI1 app labels regs0 base sq).
  Notation bresp := (bresp app labels regs0 base sq).
  Notation wbq := (wbq app labels regs0 base sq).
  Notation WbOK1 := (WbOK1 app labels regs0 base sq).
  Notation BackSemV := (BackSemV app labels regs0 base).
  Notation kw1 := (kw1 sq).

  Hypothesis Hsem : forall k, (base <= k <= N)%nat -> (k < n)%nat ->
    exec (sinstr_of (ik k)) (rget (sreg k)) labels (pcz k) [] = Ok (eff k) /\
    (forall a, etarget (eff k) = Some a -> exists t, a = pcz t /\ (k < t <= n)%nat).
  Hypothesis Hr32 : Forall int32 regs0.

  Set Default Proof Using "All".
  Notation "'IA' L" := (L app labels regs0 mem0 base sq Happ Hreg Hrng Hlen32 Hbase Hsq Hsem) (at level 10, L at level 9, only parsing).
  Notation "'IE' L" := (L app labels regs0 mem0 base sq Happ Hreg Hrng Hlen32 Hbase Hsq Hsem Hr32) (at level 10, L at level 9, only parsing).
  Notation "'IS' L" := (L app labels regs0 mem0 base sq off Happ Hreg Hrng Hlen32 Hbase Hsq Hsem Hr32) (at level 10, L at level 9, only parsing).

  (* what a finished run looks like *)
  Definition Fin1 (r : mres) : Prop :=
    exists cf xe, r = MDone cf (mk_arch (sreg xe) mem0) /\ (base <= xe <= n)%nat /\
      (forall k, (base <= k < xe)%nat -> bresp k = resp0) /\
      ((xe = n /\ Z.of_nat xe <= 2 * cf + off) \/
       ((xe < n)%nat /\ is_ret (ik xe) = true /\ Z.of_nat (S xe) <= 2 * cf + off)).

  (* drain loop after ret *)
  Record GR1 (d : nat) (s : st1) : Prop := mkGR1 {
    r1_core : CoreI d (x_cu (y_x (t_m s))) (t_m s);
    r1_eus : Forall EuNone1 (t_eus s);
    r1_wus : Forall (fun w => u_co w = WNone) (t_wus s);
    r1_wne : t_wus s <> [];
    r1_N : (N < n)%nat /\ d = S N /\ is_ret (ik N) = true;
    r1_ebus : EB (t_m s) = [];
    r1_wb : bb_buf (m_wbus (y_m (t_m s))) = [];
    r1_wq : bb_q (m_wbus (y_m (t_m s))) <> [];
    r1_bw : BusOK (t_cycle s) (m_wbus (y_m (t_m s)));
    r1_exec : forall k, (base <= k < N)%nat -> bresp k = resp0;
    r1_cyc : Z.of_nat d <= 2 * t_cycle s + off;
    r1_mode : t_mode s = NRet }.

  Lemma sreg_ret1 k : (base <= k)%nat -> is_ret (ik k) = true -> sreg (S k) = sreg k.
  Proof.
    intros Hb H. rewrite (sreg_S app labels regs0 base (IA Hlen0)) by assumption. unfold Mvp60RefSem.eff, eff_at. rewrite (is_ret_exec _ _ _ _ _ H). reflexivity.
  Qed.

  Lemma eus_drain_skip ord cy m : forall eus, Forall EuNone1 eus -> eus_drain labels ord cy m eus = (false, EAll m eus euo_none true).
  Proof.
    induction 1 as [|e t [_ Hc] _ IH]; [reflexivity|]. cbn [eus_drain]. unfold eu_empty1, eu_empty. rewrite Hc. rewrite IH. reflexivity.
  Qed.

  Lemma eus_flush_skip ord cy m acc : forall eus, Forall EuNone1 eus -> eus_flush labels ord cy m eus acc = (false, EAll m eus acc true).
  Proof.
    induction 1 as [|e t [_ Hc] _ IH]; [reflexivity|]. cbn [eus_flush]. unfold eu_empty1, eu_empty. rewrite Hc. rewrite IH. reflexivity.
  Qed.

  (* the drain loop is entered / continued: connect the write bus, then its condition *)
  Lemma ret_tail1 d cyc m6 eus wus os : CoreI d (x_cu (y_x m6)) m6 -> Forall EuNone1 eus ->
    Forall (fun w => u_co w = WNone) wus -> wus <> [] ->
    (N < n)%nat /\ d = S N /\ is_ret (ik N) = true -> EB m6 = [] ->
    (bb_q (m_wbus (y_m m6)) = [] /\ blen (m_wbus (y_m m6)) <= 2) \/ bb_buf (m_wbus (y_m m6)) = [] -> BusOK cyc (m_wbus (y_m m6)) ->
    (forall k, (base <= k < N)%nat -> bresp k = resp0) -> Z.of_nat d <= 2 * cyc + off ->
    let m7 := on_wbus m6 (fun w => bb_connect w (cyc + 1)) in
    let s2 := mk_st1 m7 eus wus (cyc + 1) NRet os in
    (ret_check1 s2 = TCont s2 /\ GR1 d s2 /\ qlen (m_wbus (y_m m7)) = qlen (m_wbus (y_m m6)) + blen (m_wbus (y_m m6))) \/
    (exists r, ret_check1 s2 = TDone r os /\ Fin1 r).
  Proof.
    intros HB He Hw Hwne HN Hebus Hqb HW Hex Hcyc. cbv zeta.
    set (m7 := on_wbus m6 (fun w => bb_connect w (cyc + 1))).
    assert (Q2 : bb_buf (bb_connect (m_wbus (y_m m6)) (cyc + 1)) = []).
    { destruct Hqb as [[Hq Hb2]|Hb]; [apply (connect_allq cyc (m_wbus (y_m m6)) HW Hq Hb2) | apply (connect_nobuf cyc (m_wbus (y_m m6)) HW Hb)]. }
    destruct (connect_spec cyc (m_wbus (y_m m6)) HW) as (W1 & W2 & W3 & W4 & W5).
    assert (B7 : CoreI d (x_cu (y_x m7)) m7).
    { eapply (IA CoreI_ext); [| | | | | | | | | | | | |exact HB]; try reflexivity. exact W1. }
    unfold ret_check1. cbn [t_eus t_wus t_m t_cycle t_os]. rewrite (IS eus_empty1' _ He), (wus_empty _ Hw). cbn [andb].
    destruct (bb_isempty (m_wbus (y_m m7))) eqn:Edone.
    - right. eexists. split; [reflexivity|]. destruct HN as (HNn & HdN & Hret).
      rewrite (finish_ok (y_m m7) (cyc + 1) (c_l3 _ _ _ _ _ _ _ _ _ B7)). exists (cyc + 1), N.
      assert (HFL : FL1 m7 = []).
      { unfold Mvp61RefInv.FL1. change (EB m7) with (EB m6). rewrite Hebus. unfold WB. rewrite (isempty_flat _ Edone). reflexivity. }
      destruct (c_sem _ _ _ _ _ _ _ _ _ B7) as (fs & HS & _). rewrite HFL in HS. apply (bf_empty app labels regs0 base) in HS.
      pose proof (stop_from_ge app base) as HbN. fold N in HbN.
      rewrite HS, (c_mem _ _ _ _ _ _ _ _ _ B7), HdN, (sreg_ret1 N HbN Hret). split; [reflexivity|].
      split; [lia|]. split; [exact Hex|]. right. split; [exact HNn|]. split; [exact Hret | lia].
    - left. split; [reflexivity|]. split.
      + constructor; cbn [t_m t_eus t_wus t_cycle t_mode]; auto.
        * unfold m7, on_wbus. cbn [set_m y_m set_wbus m_wbus]. intros Hx. unfold bb_isempty in Edone. unfold m7, on_wbus in Edone. cbn [set_m y_m set_wbus m_wbus] in Edone.
          rewrite Hx, Q2 in Edone. discriminate.
        * unfold m7, on_wbus. cbn [set_m y_m set_wbus m_wbus]. eapply busok_mono; [|exact W2]. lia.
        * lia.
      + unfold m7, on_wbus. cbn [set_m y_m set_wbus m_wbus].
        assert (blen (bb_connect (m_wbus (y_m m6)) (cyc + 1)) = 0) by (unfold blen; rewrite Q2; reflexivity). lia.
  Qed.

  Lemma step_ret1 ord pord d s : GR1 d s ->
    (exists s', step1 app labels ord pord s = TCont s' /\ GR1 d s' /\ qlen (m_wbus (y_m (t_m s'))) < qlen (m_wbus (y_m (t_m s)))) \/
    (exists r os, step1 app labels ord pord s = TDone r os /\ Fin1 r).
  Proof.
    intros [GB GE GW GWne GN Geb Gwb Gwq Gbw Gex Gcyc Gmode].
    unfold step1. rewrite Gmode. rewrite (eus_drain_skip ord (t_cycle s) (t_m s) (t_eus s) GE).
    destruct ((IE wus_ok1) d (x_cu (y_x (t_m s))) (t_wus s) (t_m s) GB GW)
      as (b6 & Ew & B6 & V1 & V2 & V3 & V4 & V5 & V6 & V7 & V8 & V9 & V10 & V11 & V12 & V13 & V14 & V15 & V16 & V17 & V18).
    rewrite Ew. cbn [res_of1].
    set (m6 := set_m (t_m s) b6) in *.
    assert (Hq6 : qlen (m_wbus (y_m m6)) < qlen (m_wbus (y_m (t_m s)))).
    { change (y_m m6) with b6. unfold qlen, zlen. rewrite V16, skipn_length. destruct (bb_q (m_wbus (y_m (t_m s)))); [contradiction|].
      destruct (t_wus s); [contradiction|]. cbn [length]. lia. }
    destruct (ret_tail1 d (t_cycle s) m6 (t_eus s) (t_wus s) (t_os s || false) B6 GE GW GWne GN Geb
                ltac:(right; change (y_m m6) with b6; rewrite V13; exact Gwb) (V18 _ Gbw) Gex Gcyc) as [(E & G2 & P2)|(r & E & HF)].
    - left. eexists. split; [exact E|]. split; [exact G2|]. cbn [t_m].
      assert (blen (m_wbus (y_m m6)) = 0) by (change (y_m m6) with b6; unfold blen; rewrite V13, Gwb; reflexivity). lia.
    - right. exists r, (t_os s || false). split; [exact E | exact HF].
  Qed.

  (* ---------------------------------------------------------------- *)
  (* the flush branch                                                  *)

  (* draining the write bus before CPU.flush: entries younger than E are dropped *)
  Record FlushI1 (d E : nat) (m : mach1) (D : list nat) : Prop := mkFL1 {
    fl1_w : Forall (WbOK1 d) (WB m);
    fl1_sem : BackSemV d (m_regs (y_m m)) (map kw1 (WB m) ++ D);
    fl1_mem : m_mem (y_m m) = mem0;
    fl1_l3 : lines (m_l3 (y_m m)) = [];
    fl1_D : forall k, In k D -> (E < k)%nat;
    fl1_all : forall k, (E < k < d)%nat -> In k (map kw1 (WB m) ++ D) }.

  (* the state in the flush branch requested by instruction E (target: instruction t) *)
  Record GF1 (d E t : nat) (s : st1) : Prop := mkGF1 {
    gf1_fl : exists D, FlushI1 d E (t_m s) D;
    gf1_eus : Forall EuNone1 (t_eus s);
    gf1_stale : Forall (StaleLt (pcz t + 1000 * sq)) (t_eus s);
    gf1_len : length (t_eus s) = length (t_wus s);
    gf1_wus : Forall (fun w => u_co w = WNone) (t_wus s);
    gf1_wne : t_wus s <> [];
    gf1_l1i : IInv (m_l1i (y_m (t_m s)));
    gf1_btb : Forall (fun en => fst en < pcz t) (b_btb (m_bu (y_m (t_m s))));
    gf1_E : (base <= E < d)%nat /\ (E < t <= n)%nat /\ (d <= n)%nat /\ (E <= N)%nat;
    gf1_exec : forall k, (base <= k < E)%nat -> bresp k = resp0;
    gf1_out : bresp E = mk_resp1 true (sid E) (pcz t) false None;
    gf1_bw : BusOK (t_cycle s) (m_wbus (y_m (t_m s)));
    gf1_par : bb_ql (m_dbus (y_m (t_m s))) = 2 /\ bb_bl (m_dbus (y_m (t_m s))) = 2 /\ bb_ql (x_cbus (y_x (t_m s))) = 2 /\ bb_bl (x_cbus (y_x (t_m s))) = 2 /\
              bb_ql (x_ebus (y_x (t_m s))) = 2 /\ bb_bl (x_ebus (y_x (t_m s))) = 2;
    gf1_x : x_fwd (y_x (t_m s)) = repeat no_fwd n /\ NoDup (keys (x_ch (y_x (t_m s)))) /\
            Forall (fun c => c < x_nch (y_x (t_m s))) (keys (x_ch (y_x (t_m s)))) /\ sq <= x_seq (y_x (t_m s)) <= sq + 2;
    gf1_mode : match t_mode s with
               | NFlushO from seq pc => seq = sid E /\ pc = pcz t /\ bb_q (m_wbus (y_m (t_m s))) = [] /\ 0 < blen (m_wbus (y_m (t_m s))) <= 2
               | NFlushW k ie from seq pc => k = O /\ ie = true /\ seq = sid E /\ pc = pcz t /\
                                             bb_buf (m_wbus (y_m (t_m s))) = [] /\ bb_q (m_wbus (y_m (t_m s))) <> []
               | _ => False
               end }.

  Lemma sid_inj_lt a b : sid a < sid b <-> (a < b)%nat.
  Proof. unfold Mvp61RefFront.sid, pcz. lia. Qed.

  Lemma wu_flush_step1 d E m D w : FlushI1 d E m D -> u_co w = WNone ->
    exists b1 D', wu_cycle6 (y_m m) w (sid E) = Ok (b1, w) /\ FlushI1 d E (set_m m b1) D' /\
      m_mem b1 = m_mem (y_m m) /\ m_l1i b1 = m_l1i (y_m m) /\ m_l3 b1 = m_l3 (y_m m) /\ m_pend b1 = m_pend (y_m m) /\ m_fu b1 = m_fu (y_m m) /\
      m_bu b1 = m_bu (y_m m) /\ bb_buf (m_wbus b1) = bb_buf (m_wbus (y_m m)) /\ bb_ql (m_wbus b1) = bb_ql (m_wbus (y_m m)) /\
      bb_bl (m_wbus b1) = bb_bl (m_wbus (y_m m)) /\ bb_q (m_wbus b1) = tl (bb_q (m_wbus (y_m m))) /\
      m_dbus b1 = m_dbus (y_m m) /\ m_cbus b1 = m_cbus (y_m m) /\ m_ebus b1 = m_ebus (y_m m) /\ m_cu b1 = m_cu (y_m m).
  Proof.
    intros [H3 H4 H5 H6 H7 H8] Hco. unfold wu_cycle6. rewrite Hco. unfold bb_get.
    destruct (bb_q (m_wbus (y_m m))) as [|x0 q'] eqn:Eq.
    { exists (y_m m), D. rewrite set_wbus_same. split; [reflexivity|]. split; [destruct m; constructor; assumption|]. repeat split; try reflexivity. exact Eq. }
    set (ma := set_wbus (y_m m) (mk_bb (bb_buf (m_wbus (y_m m))) q' (bb_ql (m_wbus (y_m m))) (bb_bl (m_wbus (y_m m))))).
    assert (Hflat : WB m = x0 :: flat (m_wbus ma)).
    { unfold WB, flat, ma. cbn [set_wbus m_wbus bb_q bb_buf]. rewrite Eq. reflexivity. }
    assert (Hx : WbOK1 d x0) by (rewrite Hflat in H3; inversion H3; assumption).
    destruct Hx as (k & Hkd & HkN & Hkn & Hnr & ->).
    assert (Hw' : Forall (WbOK1 d) (flat (m_wbus ma))) by (rewrite Hflat in H3; inversion H3; assumption).
    cbn [Mvp61RefInv.wbq w_seq]. fold (wbq k).
    assert (Hneg : (sid E =? -1) = false) by (apply Z.eqb_neq; unfold Mvp61RefFront.sid, pcz; lia). rewrite Hneg. cbn [negb andb].
    destruct (Z.ltb_spec (sid E) (sid k)) as [Hlt|Hge].
    - (* younger than the flushing instruction: dropped; it stays in the invariant as a ghost *)
      apply sid_inj_lt in Hlt.
      exists ma, (k :: D). split; [reflexivity|]. split.
      + constructor; change (WB (set_m m ma)) with (flat (m_wbus ma)); change (y_m (set_m m ma)) with ma; auto.
        * eapply bv_perm; [|exact H4]. rewrite Hflat. cbn [map]. rewrite (IA kw1_wbq). perm_nat.
        * intros k0 [<-|Hk0]; [lia | apply H7; exact Hk0].
        * intros k0 Hk0. specialize (H8 k0 Hk0). rewrite Hflat in H8. cbn [map] in H8. rewrite (IA kw1_wbq) in H8.
          rewrite in_app_iff in *. cbn [In] in *. tauto.
      + unfold ma. cbn [set_wbus m_mem m_l1i m_l3 m_pend m_fu m_bu m_dbus m_cbus m_ebus m_wbus m_cu bb_buf bb_q bb_ql bb_bl]. repeat split.
    - (* written back *)
      assert (HkE : (k <= E)%nat) by (destruct (Nat.le_gt_cases k E) as [H|H]; [exact H | apply sid_inj_lt in H; lia]).
      cbn [Mvp61RefInv.wbq w_exe w_reads w_writes].
      destruct ((IE wb_apply1) ma k w ltac:(lia) Hkn Hnr) as (b1 & E1 & R1 & R2 & R3 & R4 & R5 & R6 & R7 & R8 & R9 & R10 & R11 & R12 & R13 & R14 & R15 & R16).
      exists b1, D. split; [exact E1|]. split.
      + constructor; unfold WB; change (y_m (set_m m b1)) with b1; rewrite ?R16, ?R1, ?R4, ?R6; auto.
        * change (m_regs ma) with (m_regs (y_m m)). apply (bv_writeback app labels regs0 base (IA Hlen0)).
          -- eapply bv_perm; [|exact H4]. rewrite Hflat. cbn [map List.app]. rewrite (IA kw1_wbq). apply Permutation_refl.
          -- intros s Hs. eapply (IA eff_writes1); try eassumption. lia.
        * intros k0 Hk0. specialize (H8 k0 Hk0). rewrite Hflat in H8. cbn [map List.app In] in H8. rewrite (IA kw1_wbq) in H8.
          destruct H8 as [<-|H8]; [lia | exact H8].
      + rewrite R4, R5, R6, R7, R8, R11, R12, R13, R14, R15, R16. unfold ma. cbn [set_wbus m_mem m_l1i m_l3 m_pend m_fu m_bu m_dbus m_cbus m_ebus m_wbus m_cu bb_buf bb_q bb_ql bb_bl]. repeat split.
  Qed.

  Lemma bb_clean_new {T} (b : bbus T) : bb_ql b = 2 -> bb_bl b = 2 -> bb_clean b = bb_new 2 2.
  Proof. intros A B. unfold bb_clean, bb_new. rewrite A, B. reflexivity. Qed.

  (* one tick of the write-back loop of the flush branch *)
  Lemma step_flushW ord pord d E t s : GF1 d E t s -> (exists k ie from seq pc, t_mode s = NFlushW k ie from seq pc) ->
    (exists s', step1 app labels ord pord s = TCont s' /\ GF1 d E t s' /\ (exists k ie from seq pc, t_mode s' = NFlushW k ie from seq pc) /\
                qlen (m_wbus (y_m (t_m s'))) < qlen (m_wbus (y_m (t_m s)))) \/
    (exists s' sq', step1 app labels ord pord s = TCont s' /\ Fresh1 app mem0 sq' t (sreg (S E)) s' /\ sq < sq' <= sq + 3 /\
                    t_cycle s' = t_cycle s + Flush).
  Proof.
    intros [(D & GFl) GE Gst Glen GW GWne Gl1 Gbtb GEt Gex Gout Gbw Gpar Gx Gmode] (k0 & ie0 & from0 & seq0 & pc0 & Em).
    rewrite Em in Gmode. destruct Gmode as (-> & -> & -> & -> & Gwb & Gwq).
    unfold step1. rewrite Em.
    destruct (t_wus s) as [|w0 wt] eqn:Ewus; [contradiction|]. cbn [nth_error].
    assert (Hw0 : u_co w0 = WNone) by (inversion GW; assumption).
    destruct (wu_flush_step1 d E (t_m s) D w0 GFl Hw0)
      as (b1 & D' & Ew & F1 & R1 & R2 & R3 & R4 & R5 & R6 & R7 & R8 & R9 & R10 & R11 & R12 & R13 & R14).
    rewrite Ew. cbn [res_of1 fst snd]. rewrite (set_nth6_same (w0 :: wt) 0 w0 eq_refl).
    unfold flush_advance1. cbn [t_wus t_m t_eus t_cycle t_os skipn set_m y_m].
    assert (Hb1 : bb_buf (m_wbus b1) = []) by (rewrite R7; exact Gwb).
    destruct Gpar as (P1 & P2 & P3 & P4 & P5 & P6). destruct Gx as (X1 & X2 & X3 & X4).
    destruct (bb_q (m_wbus b1)) as [|y q1] eqn:Eq1.
    - (* the write bus is empty: m.flush(pc) *)
      right. assert (Hemp : bb_isempty (m_wbus b1) = true) by (unfold bb_isempty; rewrite Eq1, Hb1; reflexivity).
      rewrite Hemp, (flush_next_none _ 0 GW). eexists. exists (x_seq (y_x (t_m s)) + 1). split; [reflexivity|]. split; [|split; [lia | reflexivity]].
      destruct GEt as (HE1 & HE2 & Hdn & HEN). destruct F1 as [W1 W2 W3 W4 W5 W6].
      assert (Hfl : WB (set_m (t_m s) b1) = []) by (unfold WB, flat; cbn [set_m y_m]; rewrite Eq1, Hb1; reflexivity).
      rewrite Hfl in W2, W6. cbn [map List.app] in W2, W6.
      assert (Hregs : m_regs b1 = sreg (S E)).
      { eapply (bv_squash app labels regs0 base (IA Hlen0)); [exact W2 | lia|]. intros k. split.
        - intros Hk. split; [apply W5; exact Hk | apply (bv_lt _ _ _ _ _ _ _ W2 k Hk)].
        - intros Hk. apply W6. exact Hk. }
      destruct Gbw as [B1 B2 _ _].
      assert (Hinc : addS 32 (x_seq (y_x (t_m s))) 1 = x_seq (y_x (t_m s)) + 1).
      { unfold addS. apply wrapS_id; [lia|]. apply int32_bounds. destruct Hsq. lia. }
      cbn [set_m y_m] in W3, W4.
      constructor; cbn [t_m t_eus t_wus t_mode do_flush1 inc_seq set_x y_m y_x xs_seq do_flush6 m_regs m_mem m_pw m_pr m_l3 m_fu m_l1i m_dret m_dpbr m_cu m_bu
                          m_dbus m_cbus m_ebus m_wbus fu_flush6 f_pc f_complete f_co x_seq x_fwd x_cu x_prev x_pcb x_cbus x_ebus x_ch x_nch set_m];
        rewrite ?R1, ?R2, ?R3, ?R6; auto.
      + rewrite <- R1. exact W3.
      + rewrite <- R3. exact W4.
      + apply bb_clean_new; rewrite R11; assumption.
      + apply bb_clean_new; rewrite ?R8, ?R9; assumption.
      + apply bb_clean_new; assumption.
      + apply bb_clean_new; assumption.
      + apply Forall_forall. intros e He. apply in_map_iff in He as (e0 & <- & He0). rewrite Forall_forall in GE. destruct (GE e0 He0) as [A _]. split; [exact A | reflexivity].
      + rewrite map_length. exact Glen.
      + apply Forall_forall. intros e He. apply in_map_iff in He as (e0 & <- & He0). rewrite Forall_forall in Gst. specialize (Gst e0 He0).
        intros r Hr. unfold eu_flush1, eu_sid_set, eu_co_set in Hr. cbn [u_e e_runner] in Hr. specialize (Gst r Hr). lia.
    - (* go on *)
      left. assert (Hemp : bb_isempty (m_wbus b1) = false) by (unfold bb_isempty; rewrite Eq1; reflexivity).
      rewrite Hemp, flush_next_some. eexists. split; [reflexivity|]. split; [|split; [cbn [t_mode]; eauto 6|]].
      + constructor; cbn [t_m t_eus t_wus t_cycle t_mode set_m y_m y_x]; rewrite ?R2, ?R6, ?R11; auto.
        * exists D'. exact F1.
        * destruct Gbw as [B1 B2 B3 B4]. constructor; rewrite ?R7, ?R8, ?R9; auto.
          unfold qlen in *. rewrite Eq1, R10. destruct (bb_q (m_wbus (y_m (t_m s)))); cbn [tl]; rewrite ?zlen_cons in *; lia.
        * repeat split; assumption.
        * repeat split; try assumption. rewrite Eq1. discriminate.
      + cbn [t_m set_m y_m]. unfold qlen. rewrite Eq1, R10. destruct (bb_q (m_wbus (y_m (t_m s)))); [contradiction|]. cbn [tl]. rewrite zlen_cons. lia.
  Qed.
  (* the `for {` of the flush branch: every execute unit is empty; Connect; on to the write units *)
  Lemma step_flushO ord pord d E t s : GF1 d E t s -> (exists from seq pc, t_mode s = NFlushO from seq pc) ->
    exists s', step1 app labels ord pord s = TCont s' /\ GF1 d E t s' /\ (exists k ie from seq pc, t_mode s' = NFlushW k ie from seq pc) /\
               t_cycle s' = t_cycle s + 1.
  Proof.
    intros [(D & GFl) GE Gst Glen GW GWne Gl1 Gbtb GEt Gex Gout Gbw Gpar Gx Gmode] (from0 & seq0 & pc0 & Em).
    rewrite Em in Gmode. destruct Gmode as (-> & -> & Gq & Gb).
    unfold step1. rewrite Em. rewrite (eus_flush_skip ord from0 (t_m s) (mk_euo6 true (sid E) (pcz t) false) (t_eus s) GE).
    cbn [o_from o_pc].
    assert (BW' : BusOK (t_cycle s + 1) (m_wbus (y_m (t_m s)))) by (eapply busok_mono; [|exact Gbw]; lia).
    destruct (connect_allq (t_cycle s + 1) (m_wbus (y_m (t_m s))) BW' Gq ltac:(lia)) as (Q1 & Q2 & Q3 & Q4).
    destruct (connect_spec (t_cycle s + 1) (m_wbus (y_m (t_m s))) BW') as (W1 & W2 & _).
    unfold flush_advance1. cbn [t_wus t_m t_eus t_cycle t_os skipn on_wbus set_m y_m set_wbus m_wbus].
    set (wb7 := bb_connect (m_wbus (y_m (t_m s))) (t_cycle s + 1 + 1)) in *.
    assert (Hq7 : bb_q wb7 <> []).
    { rewrite Q1. intros Hx. apply map_eq_nil in Hx. unfold blen in Gb. rewrite Hx in Gb. cbn in Gb. lia. }
    assert (Hemp : bb_isempty wb7 = false) by (unfold bb_isempty; destruct (bb_q wb7); [contradiction | reflexivity]).
    rewrite Hemp. destruct (t_wus s) as [|w0 wt] eqn:Ewus; [contradiction|]. rewrite flush_next_some.
    eexists. split; [reflexivity|]. split; [|split; [cbn [t_mode]; eauto 6 | reflexivity]].
    destruct GFl as [F1 F2 F3 F4 F5 F6].
    constructor; cbn [t_m t_eus t_wus t_cycle t_mode set_m y_m y_x set_wbus m_wbus m_l1i m_bu m_dbus]; auto.
    - exists D. constructor; unfold WB, on_wbus; cbn [set_m y_m set_wbus m_wbus m_regs m_mem m_l3]; fold wb7; rewrite ?W1; auto.
    - unfold on_wbus. cbn [set_m y_m set_wbus m_wbus]. fold wb7. repeat split; try reflexivity; [exact Q2 | exact Hq7].
  Qed.
  (* ---------------------------------------------------------------- *)
  (* one tick of the main loop                                         *)

  Definition phis1 (s : st1) : Z := phi1 (t_m s).

  Lemma bresp_cases k : bresp k = resp0 \/ (is_ret (ik k) = true /\ bresp k = mk_resp1 false 0 0 true None) \/
    exists a, bresp k = mk_resp1 true (sid k) a false None /\ etarget (eff k) = Some a /\ is_ret (ik k) = false /\
              (is_jump (ik k) = true \/ pcz (S k) <> a).
  Proof.
    unfold Mvp61RefExec2.bresp. destruct (is_ret (ik k)); [right; left; auto|].
    destruct (etarget (eff k)) as [a|]; [|left; reflexivity].
    destruct (is_jump (ik k)) eqn:Ej; cbn [orb].
    - right. right. exists a. auto.
    - destruct (Z.eqb_spec (pcz (S k)) a); cbn [negb]; [left; reflexivity|]. right. right. exists a. auto.
  Qed.

  Lemma merge1_none acc : merge1 acc resp0 = acc.
  Proof. unfold merge1. cbn [resp0 p_flush p_ret andb]. rewrite !orb_false_r. destruct acc; reflexivity. Qed.

  Lemma step_normal2 ord pord d c f x s : GI1 d c f x s ->
    (exists s' d' c' f' x', step1 app labels ord pord s = TCont s' /\ GI1 d' c' f' x' s' /\ phis1 s' < phis1 s) \/
    (exists r os, step1 app labels ord pord s = TDone r os /\ Fin1 r) \/
    (exists s' d', step1 app labels ord pord s = TCont s' /\ GR1 d' s') \/
    (exists s' d' E t, step1 app labels ord pord s = TCont s' /\ GF1 d' E t s' /\ (exists from seq pc, t_mode s' = NFlushO from seq pc)).
  Proof.
    intros HG.
    destruct ((IS normal_ok2) ord pord d c f x s HG)
      as (os0 & m4 & m5 & b6 & eus' & d' & c' & f' & lq & Efront & Ee & Ew & HF6 & B6 & P6 & A1 & A2 & A2' & Hrb6 & Hxj & Hq6 & Hb6 & Hj2 & Hseq & Hrtt &
          Hcyc & Hdn & HdN & Hl1 & Hbtb & HW6 & Hpar & Hsq6 & Hphi).
    cbv zeta in *.
    destruct HG as [GF0 GB GP GT GW GWne GC GM]. pose proof GT as [T1 T2 T3 T3' T4 T5 T6 T8 T9].
    set (j := Nat.min (length (t_eus s)) lq) in *. set (m6 := set_m m5 b6) in *.
    set (out := fold_left merge1 (map bresp (seq x j)) euo_none) in *.
    assert (Hblen6 : blen (m_wbus (y_m m6)) <= Z.of_nat j).
    { unfold blen, zlen. rewrite Hb6, map_length. pose proof (filter_len_le (notret1 app) (seq x j)) as Hx. rewrite seq_length in Hx. lia. }
    assert (Hjw : (j <= length (t_wus s))%nat) by (unfold j; lia).
    unfold step1. rewrite GM, Efront. cbn [res_of1]. rewrite Ee. unfold back1. rewrite Ew. cbn [res_of1]. fold m6.
    (* no ret, no flush: the loop goes on or ends *)
    assert (Hcont : out = euo_none -> (forall k, (x <= k < x + j)%nat -> bresp k = resp0) ->
      (exists s' d' c' f' x', (if is_empty1 m6 eus' (t_wus s) then TDone (finish6 (y_m m6) (t_cycle s + 1)) (t_os s || os0 || false)
                               else TCont (mk_st1 m6 eus' (t_wus s) (t_cycle s + 1) NNormal (t_os s || os0 || false))) = TCont s' /\
                              GI1 d' c' f' x' s' /\ phis1 s' < phis1 s) \/
      (exists r os, (if is_empty1 m6 eus' (t_wus s) then TDone (finish6 (y_m m6) (t_cycle s + 1)) (t_os s || os0 || false)
                     else TCont (mk_st1 m6 eus' (t_wus s) (t_cycle s + 1) NNormal (t_os s || os0 || false))) = TDone r os /\ Fin1 r)).
    { intros Hout Hall.
      assert (Hnf : forall k, (x <= k < x + j)%nat -> p_flush (bresp k) = false) by (intros k Hk; rewrite (Hall k Hk); reflexivity).
      specialize (HF6 Hnf). destruct (Hphi Hnf) as [Hle Hlt].
      assert (Hexec : forall k, (base <= k < x + j)%nat -> bresp k = resp0).
      { intros k Hk. destruct (Nat.lt_ge_cases k x) as [Hkx|Hkx]; [apply T8; lia | apply Hall; lia]. }
      destruct (is_empty1 m6 eus' (t_wus s)) eqn:Eemp.
      - right. eexists _, _. split; [reflexivity|].
        unfold is_empty1, is_empty6 in Eemp. repeat (apply andb_prop in Eemp as [Eemp ?]).
        rewrite (finish_ok (y_m m6) (t_cycle s + 1) (c_l3 _ _ _ _ _ _ _ _ _ B6)). exists (t_cycle s + 1), d'.
        assert (Hfd : flat (m_dbus (y_m m6)) = []) by (apply isempty_flat; assumption).
        assert (Hfc : flat (x_cbus (y_x m6)) = []) by (apply isempty_flat; assumption).
        assert (Hfe : EB m6 = []) by (apply isempty_flat; assumption).
        assert (Hfw : WB m6 = []) by (apply isempty_flat; assumption).
        assert (Hcu : x_cu (y_x m6) = []) by (apply zlen_zero; apply Z.eqb_eq; assumption).
        assert (HFL : FL1 m6 = []) by (unfold Mvp61RefInv.FL1; rewrite Hfe, Hfw; reflexivity).
        destruct (c_sem _ _ _ _ _ _ _ _ _ B6) as (fs & HS & _). rewrite HFL in HS. apply (bf_empty app labels regs0 base) in HS.
        pose proof (f1_dbus _ _ _ _ _ _ _ _ HF6) as Hdb. rewrite Hfd in Hdb. symmetry in Hdb. apply map_eq_nil in Hdb.
        apply (f_equal (@length nat)) in Hdb. rewrite seq_length in Hdb. cbn [length] in Hdb.
        pose proof (f1_cb _ _ _ _ _ _ _ _ HF6) as Hcl. rewrite Hcu, Hfc in Hcl. cbn [length] in Hcl. symmetry in Hcl. apply map_eq_nil in Hcl.
        apply (f_equal (@length nat)) in Hcl. rewrite seq_length in Hcl. cbn [length] in Hcl.
        assert (Ecomp : f_complete (m_fu (y_m m6)) = true) by assumption.
        destruct (fi_c _ _ _ _ (f1_fetch _ _ _ _ _ _ _ _ HF6) Ecomp) as (_ & HfM & _).
        pose proof (f1_cf _ _ _ _ _ _ _ _ HF6). pose proof (f1_dc _ _ _ _ _ _ _ _ HF6) as Hdc. rewrite Hcu in Hdc. cbn [length] in Hdc. pose proof (f1_bd _ _ _ _ _ _ _ _ HF6).
        assert (Hd'n : d' = n) by (fold n in Hcl, Hdc; lia).
        assert (Hxe : (x + j)%nat = d').
        { rewrite Hfe in Hrb6. symmetry in Hrb6. apply map_eq_nil in Hrb6. apply (f_equal (@length nat)) in Hrb6.
          rewrite seq_length in Hrb6. cbn [length] in Hrb6. lia. }
        rewrite HS, (c_mem _ _ _ _ _ _ _ _ _ B6). split; [reflexivity|]. split; [lia|].
        split; [intros k Hk; apply Hexec; lia|]. left. split; [exact Hd'n | lia].
      - left. eexists _, d', c', f', (x + j)%nat. split; [reflexivity|]. split.
        + constructor; cbn [t_m t_eus t_wus t_cycle t_mode]; auto.
          constructor; auto; try lia; try (rewrite A2; exact T4).
        + destruct Hlt as [Hlt|[_ Hx]]; [exact Hlt | congruence]. }
    (* the ret has been executed: drain loop *)
    assert (Hretc : is_ret (ik x) = true -> (0 < j)%nat ->
      (exists s' d', ret_check1 (mk_st1 (on_wbus m6 (fun w => bb_connect w (t_cycle s + 1 + 1))) eus' (t_wus s) (t_cycle s + 1 + 1) NRet (t_os s || os0 || false)) = TCont s' /\ GR1 d' s') \/
      (exists r os, ret_check1 (mk_st1 (on_wbus m6 (fun w => bb_connect w (t_cycle s + 1 + 1))) eus' (t_wus s) (t_cycle s + 1 + 1) NRet (t_os s || os0 || false)) = TDone r os /\ Fin1 r)).
    { intros Hret Hj0. destruct (Hrtt x ltac:(lia) Hret) as (_ & HxN & Hj1 & Hd').
      destruct (Hseq x ltac:(lia)) as (X1 & X2 & X3).
      assert (Hebus : EB m6 = []).
      { apply (f_equal (@length runner)) in Hrb6. rewrite !map_length, seq_length in Hrb6. destruct (EB m6); [reflexivity | cbn [length] in Hrb6; lia]. }
      assert (HNf : (N < n)%nat /\ d' = S N /\ is_ret (ik N) = true).
      { fold N in HxN, Hd'. rewrite <- HxN. split; [exact X3|]. split; [rewrite HxN; exact Hd' | exact Hret]. }
      destruct (ret_tail1 d' (t_cycle s + 1) m6 eus' (t_wus s) (t_os s || os0 || false) B6 A1 GW GWne
                  HNf Hebus ltac:(left; split; [exact Hq6 | lia]) HW6
                  ltac:(intros k Hk; apply T8; lia) Hcyc) as [(E & G2 & _)|(r & E & HFin)].
      - left. eexists _, d'. split; [exact E | exact G2].
      - right. exists r, (t_os s || os0 || false). split; [exact E | exact HFin]. }
    (* a flush is requested by E, the first instruction of the group that asks for one *)
    assert (Hflc : forall E a, (x <= E < x + j)%nat -> bresp E = mk_resp1 true (sid E) a false None -> etarget (eff E) = Some a ->
      is_ret (ik E) = false -> (is_jump (ik E) = true \/ pcz (S E) <> a) ->
      (forall k, (x <= k < E)%nat -> bresp k = resp0) -> (forall k, (x <= k < x + j)%nat -> is_ret (ik k) = false) ->
      exists t, a = pcz t /\
        GF1 d' E t (mk_st1 m6 (map (fun e => eu_sid_set e (sid E)) eus') (t_wus s) (t_cycle s + 1) (NFlushO (t_cycle s + 1) (sid E) a) (t_os s || os0 || false))).
    { intros E a HE Hb Ea Hnr Hwhy Hbefore Hnoret.
      destruct (Hseq E HE) as (X1 & X2 & X3).
      destruct (Hsem E ltac:(lia) X3) as [_ Htgt]. destruct (Htgt a Ea) as (t & -> & Ht). exists t. split; [reflexivity|].
      assert (Hkr6 : map kr1 (EB m6) = seq (x + j) (d' - (x + j))) by (apply (IS kr1_of_rb); exact Hrb6).
      assert (Hxjt : (x + j <= t)%nat).
      { destruct (Nat.le_gt_cases (x + j) (S E)) as [H|H]; [lia|].
        destruct Hwhy as [Hj|Hne].
        - (* a jump is the instruction at which decoding stops: nothing is dispatched behind it *)
          exfalso. assert (E = N).
          { destruct (Nat.eq_dec E N) as [|Hne]; [assumption|]. exfalso.
            pose proof (stop_from_before app dfl base E ltac:(fold N; lia)) as Hs. unfold is_stop in Hs. apply orb_false_iff in Hs as [_ Hs].
            unfold Mvp60RefSem.ik in Hj. congruence. }
          lia.
        - assert (t <> S E) by (intros ->; apply Hne; reflexivity). lia. }
      assert (HWB6 : WB m6 = map (wbq) (filter (notret1 app) (seq x j))).
      { unfold WB, flat. rewrite Hq6, Hb6, map_map. reflexivity. }
      assert (Hkw6 : map kw1 (WB m6) = filter (notret1 app) (seq x j)).
      { rewrite HWB6, map_map. rewrite <- (map_id (filter _ _)) at 2. apply map_ext. intros k. apply (IA kw1_wbq). }
      destruct (c_ch _ _ _ _ _ _ _ _ _ B6) as [C1 C2 C3 C4 C5 C6].
      constructor; cbn [t_m t_eus t_wus t_cycle t_mode]; auto.
      - exists (map kr1 (EB m6)). constructor.
        + exact (c_w _ _ _ _ _ _ _ _ _ B6).
        + destruct (c_sem _ _ _ _ _ _ _ _ _ B6) as (fs & HS & _). eapply bv_perm; [|apply (bf_weak _ _ _ _ _ _ _ _ _ _ HS)].
          unfold Mvp61RefInv.FL1. apply Permutation_app_comm.
        + exact (c_mem _ _ _ _ _ _ _ _ _ B6).
        + exact (c_l3 _ _ _ _ _ _ _ _ _ B6).
        + intros k Hk. rewrite Hkr6 in Hk. apply in_seq in Hk. lia.
        + intros k Hk. rewrite Hkw6, Hkr6. apply in_or_app. destruct (Nat.lt_ge_cases k (x + j)) as [Hlt|Hge].
          * left. apply filter_In. split; [apply in_seq; lia|]. unfold notret1. rewrite (Hnoret k ltac:(lia)). reflexivity.
          * right. apply in_seq. lia.
      - apply Forall_forall. intros e He. apply in_map_iff in He as (e0 & <- & He0). rewrite Forall_forall in A1. exact (A1 e0 He0).
      - apply Forall_forall. intros e He. apply in_map_iff in He as (e0 & <- & He0). rewrite Forall_forall in A2'. specialize (A2' e0 He0).
        intros r Hr. cbn [eu_sid_set u_e] in Hr. specialize (A2' r Hr). unfold Mvp61RefFront.sid, pcz in *. lia.
      - rewrite map_length, A2. exact T4.
      - eapply Forall_impl; [|exact Hbtb]. cbn beta. intros en Hen. unfold pcz in *. lia.
      - intros k Hk. destruct (Nat.lt_ge_cases k x) as [Hkx|Hkx]; [apply T8; lia | apply Hbefore; lia].
      - destruct Hpar as (Pa1 & Pa2 & Pa3 & Pa4 & Pa5 & Pa6 & _). repeat split; assumption.
      - split; [exact (c_fwd _ _ _ _ _ _ _ _ _ B6)|]. split; [exact (nodup_app_r _ _ C2)|]. split.
        + apply Forall_forall. intros c0 Hc0. rewrite Forall_forall in C1. apply C1. apply in_or_app. left. exact Hc0.
        + lia.
      - split; [reflexivity|]. split; [reflexivity|]. split; [exact Hq6|].
        split; [|lia]. unfold blen, zlen. rewrite Hb6, map_length.
        assert (Hin : In E (filter (notret1 app) (seq x j))) by (apply filter_In; split; [apply in_seq; lia | unfold notret1; rewrite Hnr; reflexivity]).
        destruct (filter (notret1 app) (seq x j)); [destruct Hin | cbn [length]; lia]. }
    (* the cases: zero, one or two instructions executed *)
    destruct j as [|[|[|j3]]] eqn:Ej; [| | |lia].
    - (* nothing executed *)
      cbn [seq map fold_left] in out. subst out. cbn [o_ret o_flush euo_none].
      destruct (Hcont eq_refl ltac:(intros k Hk; lia)) as [H|H]; [left; exact H | right; left; exact H].
    - (* one instruction *)
      cbn [seq map fold_left] in out.
      destruct (bresp_cases x) as [H0|[(Hret & Hr)|(a & Hf & Ea & Hnr & Hwhy)]].
      + unfold out. rewrite H0, merge1_none. cbn [o_ret o_flush euo_none].
        destruct (Hcont ltac:(unfold out; rewrite H0, merge1_none; reflexivity) ltac:(intros k Hk; replace k with x by lia; exact H0)) as [H|H]; [left; exact H | right; left; exact H].
      + unfold out. rewrite Hr. unfold merge1; cbn [o_ret o_flush o_from o_pc euo_none p_flush p_ret p_seq p_pc andb orb negb].
        destruct (Hretc Hret ltac:(lia)) as [H|H]; [right; right; left; exact H | right; left; exact H].
      + unfold out. rewrite Hf. unfold merge1; cbn [o_ret o_flush o_from o_pc euo_none p_flush p_ret p_seq p_pc andb orb negb].
        destruct (Hflc x a ltac:(lia) Hf Ea Hnr Hwhy ltac:(intros k Hk; lia) ltac:(intros k Hk; replace k with x by lia; exact Hnr)) as (t & -> & G).
        right. right. right. eexists _, d', x, t. split; [reflexivity|]. split; [exact G | cbn [t_mode]; eauto].
    - (* two instructions: no ret among them *)
      cbn [seq map fold_left] in out.
      assert (Hnr0 : is_ret (ik x) = false).
      { destruct (is_ret (ik x)) eqn:Er; [|reflexivity]. destruct (Hrtt x ltac:(lia) Er) as (_ & _ & Hx & _). discriminate. }
      assert (Hnr1 : is_ret (ik (S x)) = false).
      { destruct (is_ret (ik (S x))) eqn:Er; [|reflexivity]. destruct (Hrtt (S x) ltac:(lia) Er) as (Hx & _). lia. }
      assert (Hnoret : forall k, (x <= k < x + 2)%nat -> is_ret (ik k) = false).
      { intros k Hk. destruct (Nat.eq_dec k x) as [->|]; [exact Hnr0|]. replace k with (S x) by lia. exact Hnr1. }
      destruct (bresp_cases x) as [H0|[(Hret & _)|(a & Hf & Ea & Hnr & Hwhy)]]; [| congruence |].
      + destruct (bresp_cases (S x)) as [H1|[(Hret & _)|(a & Hf & Ea & Hnr & Hwhy)]]; [| congruence |].
        * unfold out. rewrite H0, H1, !merge1_none. cbn [o_ret o_flush euo_none].
          destruct (Hcont ltac:(unfold out; rewrite H0, H1, !merge1_none; reflexivity)
                      ltac:(intros k Hk; destruct (Nat.eq_dec k x) as [->|]; [exact H0 | replace k with (S x) by lia; exact H1])) as [H|H];
            [left; exact H | right; left; exact H].
        * unfold out. rewrite H0, merge1_none, Hf. unfold merge1; cbn [o_ret o_flush o_from o_pc euo_none p_flush p_ret p_seq p_pc andb orb negb].
          destruct (Hflc (S x) a ltac:(lia) Hf Ea Hnr Hwhy ltac:(intros k Hk; replace k with x by lia; exact H0) Hnoret) as (t & -> & G).
          right. right. right. eexists _, d', (S x), t. split; [reflexivity|]. split; [exact G | cbn [t_mode]; eauto].
      + (* the first one asks for the flush; whatever the second one answers, the first one wins *)
        assert (Hout : out = mk_euo6 true (sid x) a false).
        { unfold out. rewrite Hf. unfold merge1; cbn [o_ret o_flush o_from o_pc euo_none p_flush p_ret p_seq p_pc andb orb negb].
          destruct (bresp_cases (S x)) as [H1|[(Hret & _)|(a1 & Hf1 & _)]]; [rewrite H1; reflexivity | congruence|].
          rewrite Hf1. unfold merge1; cbn [o_ret o_flush o_from o_pc euo_none p_flush p_ret p_seq p_pc andb orb negb].
          assert (Hlt : (sid (S x) <? sid x) = false) by (apply Z.ltb_ge; unfold Mvp61RefFront.sid, pcz; lia). rewrite Hlt. reflexivity. }
        rewrite Hout. cbn [o_ret o_flush o_from o_pc].
        destruct (Hflc x a ltac:(lia) Hf Ea Hnr Hwhy ltac:(intros k Hk; lia) Hnoret) as (t & -> & G).
        right. right. right. eexists _, d', x, t. split; [reflexivity|]. split; [exact G | cbn [t_mode]; eauto].
  Qed.
End Step3.
