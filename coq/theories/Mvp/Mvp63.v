(* H: faithful cycle-level model of proc/mvp6-3 = MVP-6.0 (Mvp60.v) plus
     - forwarding between execute units through Go channels (cu.go shouldUseForwarding,
       eu.go Receiver / Forwarder, the per-instruction `forward` field of risc/opcodes.go),
     - the coroutine library common/coroutine (Pre hooks, Checkpoint, Reset),
     - sequence ids (risc/app.go SequenceID = pc + ctx.sequenceID*1000, IncSequenceID in
       fetchUnit.reset / flush),
     - a flush that first completes the instructions older than the mispredicted branch
       (cpu.go, the loop after `if flush`), execute units dropping younger work in their Pre hook,
     - speculative register state in a REGISTER ALIAS TABLE: ctx.committedRAT / ctx.transactionRAT
       (proc/comp/rat.go = Comp/Rat.v), written by the write units, committed / rolled back when a
       conditional branch is executed, read by registerRead; ctx.Registers is only written by
       RATFlush at the very end of Run,
     - a control unit that dispatches through ONE outstanding WAW or WAR hazard ("renaming",
       cu.go shouldUseRenaming).  This is unsound (nothing is renamed); it is modelled as it is.

   cpu.go  Run loop, flush, isEmpty            -> step3 (front3, back3, drain3, flush_iter3), run3_st, mvp63_run
   fu.go   fetch unit                          -> fu_cycle6 of Mvp60.v (the coroutine is the same state machine);
                                                  reset / flush also increment ctx.sequenceID (fu_reset3, do_flush3)
   du.go   decode unit                         -> du_cycle3 (clears the forward field, tags with the sequence id)
   cu.go   control unit                        -> cu_cycle3, handle_runner3, should_forward3
   eu.go   execute units                       -> eu_cycle3, eu_prepare3, eu_run3 (memory waits: eu_fill6 of Mvp60.v)
   wu.go   write units                         -> wu_cycle3
   bu.go   branch unit                         -> bu_assert3, bu_should_flush6, bu_resolved3, RAT commit / rollback
   mmu.go  identical to mvp6-0/mmu.go          -> get_from_l3, push_line_to_l3, fetch_line_at of Mvp60.v
   risc/app.go  InitRAT, TransactionRATWrite, RATCommit, RATRollback, RATFlush, IsDataHazard3
                                               -> init_rat3, rat_commit3, rat_rollback3, rat_flush3,
                                                  Comp/Scoreboard.v hazards3
   risc/opcodes.go registerRead (ctx.rat = true, sequenceID = 0) -> reg_read3

   One Gallina step (step3) per ctx.VerifTick(): fuel = tick budget.

   Pointers.  The execute bus carries *InstructionRunnerPc and the control unit keeps the
   pointers of the runners it pushed in the previous cycle; shouldUseForwarding assigns
   previousRunner.Forwarder THROUGH that pointer, which is seen by an execute unit only if it
   has not yet copied the struct (u.runner = *runner in executeUnit.start).  Every pushed runner
   gets an identity q_id; the assignment updates the element with that identity on the execute
   bus (ebus_mark) and nothing else, which is exactly the aliasing of the Go code.
   A channel is created per forwarding decision, has one sender and one receiver; channels are
   x_chan : channel id -> value sent and not yet received.
   The `forward` field lives in the instruction object app.Instructions[pc/4], which is shared by
   all dynamic instances of that instruction: x_fwd, indexed by pc/4.

   Go map iteration, explicit as the argument `ord` (ord cycle pc keys = order of iteration):
     (a) execution.MemoryChanges of a store in mmu.doesExecutionMemoryChangesExistsInL3, as in
         Mvp60.v (keys = addresses, pc = the store's pc);
     (b) cu.pushedRunnersInPreviousCycle in shouldUseForwarding (keys = identities of the runners
         pushed in the previous cycle, pc = pc of the reading runner): the FIRST runner in map
         order that writes a register read by the reader becomes the forwarding source, so with two
         writers of the same register in one cycle (possible since the second is "renamed") the
         value received depends on the order;
     (c) the maps built by RAT.Values / RAT.FindValues in RATCommit / RATRollback / RATFlush and
         ctx.Registers in InitRAT (pc = -1 / -2): every key is written once and committedRAT is
         only read at its newest slot, so this order is not observable; it is an argument all the same.
   The result of `ord` is used through Comp/Rat.v iter_order for (b) and (c), so any function
   gives a permutation.  Ghost flag (x_os, last component of the results): set when (a) matters as
   in Mvp60.v or when in (b) more than one runner of the map qualifies.

   A register absent from ctx.Registers reads 0 from committedRAT.Read as well as after InitRAT
   wrote 0 for it: the model initialises all 32 registers.

   No proofs in this file. *)
From Coq Require Import ZArith List Bool Lia.
From Maj Require Import Base.Outcome Base.GoInt Base.GoTypes Isa.Spec Isa.Seq.
From Maj Require Import Gen.Latency Gen.RiscTables Gen.Opcodes Comp.Cache Comp.Rat Mvp.Mvp12 Mvp.Mvp3 Mvp.Mvp5 Mvp.Mvp60.
From Maj Require Comp.Scoreboard.
Import ListNotations.
Open Scope Z_scope.

(* ------------------------------------------------------------------ *)
(* state                                                                *)
(* ------------------------------------------------------------------ *)

(* risc.InstructionRunnerPc with its forwarding fields; q_id = identity of the struct once it
   has been pushed on the execute bus (0 before); q_fwder / q_recv = channel ids *)
Record runner3 := mk_r3 { q_r : runner; q_id : Z; q_fwder : option Z; q_recv : option Z; q_freg : Z }.
Definition r3_of (r : runner) : runner3 := mk_r3 r 0 None None 0.
Definition q_instr (r : runner3) : instr := r_instr (q_r r).
Definition q_pc (r : runner3) : Z := r_pc (q_r r).
Definition q_seq (r : runner3) : Z := r_seq (q_r r).

(* executeUnit: coroutine state (as in Mvp60.v), memory, runner, sequenceID *)
Record eu3 := mk_eu3 { g_co : eu_co; g_memory : list Z; g_runner : option runner3; g_seq : Z }.

(* transactionUnit{sequenceID, value}; its zero value *)
Definition tu0 : Z * Z := (0, 0).
Definition ratLength : Z := 10.

(* x_m: the machine of Mvp60.v; its fields m_cu and m_ebus are not used (they cannot hold the
   forwarding fields), x_pend and x_ebus replace them.  m_regs = ctx.Registers. *)
Record mx := mk_mx {
  x_m : mach;
  x_ebus : bbus runner3;           (* executeBus *)
  x_pend : list runner3;           (* controlUnit.pendings *)
  x_prev : list runner3;           (* controlUnit.pushedRunnersInPreviousCycle *)
  x_pcb : bool;                    (* controlUnit.pendingConditionalBranch *)
  x_seq : Z;                       (* ctx.sequenceID *)
  x_crat : @rat Z;                 (* ctx.committedRAT *)
  x_trat : @rat (Z * Z);           (* ctx.transactionRAT *)
  x_fwd : list (Z * Z);            (* forward field (Register, Value) of app.Instructions[k] *)
  x_chan : list (Z * Z);           (* channels holding a value *)
  x_next : Z;                      (* next identity *)
  x_os : bool                      (* ghost *) }.

Definition set_m (x : mx) (m : mach) : mx :=
  mk_mx m (x_ebus x) (x_pend x) (x_prev x) (x_pcb x) (x_seq x) (x_crat x) (x_trat x) (x_fwd x) (x_chan x) (x_next x) (x_os x).
Definition set_ebus3 (x : mx) (b : bbus runner3) : mx :=
  mk_mx (x_m x) b (x_pend x) (x_prev x) (x_pcb x) (x_seq x) (x_crat x) (x_trat x) (x_fwd x) (x_chan x) (x_next x) (x_os x).
Definition set_pend3 (x : mx) (p : list runner3) : mx :=
  mk_mx (x_m x) (x_ebus x) p (x_prev x) (x_pcb x) (x_seq x) (x_crat x) (x_trat x) (x_fwd x) (x_chan x) (x_next x) (x_os x).
Definition set_prev3 (x : mx) (p : list runner3) : mx :=
  mk_mx (x_m x) (x_ebus x) (x_pend x) p (x_pcb x) (x_seq x) (x_crat x) (x_trat x) (x_fwd x) (x_chan x) (x_next x) (x_os x).
Definition set_pcb3 (x : mx) (b : bool) : mx :=
  mk_mx (x_m x) (x_ebus x) (x_pend x) (x_prev x) b (x_seq x) (x_crat x) (x_trat x) (x_fwd x) (x_chan x) (x_next x) (x_os x).
Definition set_seq3 (x : mx) (s : Z) : mx :=
  mk_mx (x_m x) (x_ebus x) (x_pend x) (x_prev x) (x_pcb x) s (x_crat x) (x_trat x) (x_fwd x) (x_chan x) (x_next x) (x_os x).
Definition set_rats3 (x : mx) (c : @rat Z) (t : @rat (Z * Z)) : mx :=
  mk_mx (x_m x) (x_ebus x) (x_pend x) (x_prev x) (x_pcb x) (x_seq x) c t (x_fwd x) (x_chan x) (x_next x) (x_os x).
Definition set_fwd3 (x : mx) (f : list (Z * Z)) : mx :=
  mk_mx (x_m x) (x_ebus x) (x_pend x) (x_prev x) (x_pcb x) (x_seq x) (x_crat x) (x_trat x) f (x_chan x) (x_next x) (x_os x).
Definition set_chan3 (x : mx) (c : list (Z * Z)) : mx :=
  mk_mx (x_m x) (x_ebus x) (x_pend x) (x_prev x) (x_pcb x) (x_seq x) (x_crat x) (x_trat x) (x_fwd x) c (x_next x) (x_os x).
Definition set_next3 (x : mx) (n : Z) : mx :=
  mk_mx (x_m x) (x_ebus x) (x_pend x) (x_prev x) (x_pcb x) (x_seq x) (x_crat x) (x_trat x) (x_fwd x) (x_chan x) n (x_os x).
Definition set_os3 (x : mx) (b : bool) : mx :=
  mk_mx (x_m x) (x_ebus x) (x_pend x) (x_prev x) (x_pcb x) (x_seq x) (x_crat x) (x_trat x) (x_fwd x) (x_chan x) (x_next x) b.

(* ------------------------------------------------------------------ *)
(* risc/app.go, risc/opcodes.go                                         *)
(* ------------------------------------------------------------------ *)

(* ctx.SequenceID(pc) = pc + ctx.sequenceID*1000 (int32) *)
Definition sequence_id (x : mx) (pc : Z) : Z := addS 32 pc (mulS 32 (x_seq x) 1000).
(* ctx.IncSequenceID() *)
Definition inc_seq3 (x : mx) : mx := set_seq3 x (addS 32 (x_seq x) 1).

(* registerRead(ctx, forward, reg, 0) with ctx.rat = true *)
Definition reg_read3 (fw : Z * Z) (crat : @rat Z) (trat : @rat (Z * Z)) (reg : Z) : Z :=
  if reg =? fst fw then snd fw
  else match rat_read tu0 trat reg with
       | Some v => snd v
       | None => match rat_read 0 crat reg with Some v => v | None => 0 end
       end.

(* index of the instruction object of a runner decoded at pc *)
Definition fwd_idx (pc : Z) : nat := Z.to_nat (Z.quot pc 4).
(* the register reader an instruction at pc runs with *)
Definition rr3 (x : mx) (pc : Z) : Z -> Z :=
  reg_read3 (nth (fwd_idx pc) (x_fwd x) (0, 0)) (x_crat x) (x_trat x).
(* runner.Forward(risc.Forward{Value: v, Register: reg}) *)
Definition set_forward3 (x : mx) (pc reg v : Z) : mx := set_fwd3 x (Seq.upd (x_fwd x) (fwd_idx pc) (reg, v)).

(* range over a map with keys `keys` at (cycle, pc) *)
Definition map_order (ord : Z -> Z -> list Z -> list Z) (cycle pc : Z) (keys : list Z) : list Z :=
  iter_order (ord cycle pc keys) keys.

(* for k, v := range vals { committedRAT.Write(k, v.value) } *)
Definition commit_vals (ord : Z -> Z -> list Z -> list Z) (cycle : Z) (crat : @rat Z) (vals : list (Z * (Z * Z))) : @rat Z :=
  fold_left (fun c k => match aget k vals with Some tu => rat_write 0 c k (snd tu) | None => c end)
            (map_order ord cycle (-1) (akeys vals)) crat.

(* ctx.RATCommit() *)
Definition rat_commit3 (ord : Z -> Z -> list Z -> list Z) (cycle : Z) (x : mx) : mx :=
  set_rats3 x (commit_vals ord cycle (x_crat x) (rat_values tu0 (x_trat x))) (rat_new ratLength).

(* ctx.RATRollback(sequenceID) *)
Definition rat_rollback3 (ord : Z -> Z -> list Z -> list Z) (cycle : Z) (x : mx) (sequenceID : Z) : mx :=
  set_rats3 x (commit_vals ord cycle (x_crat x) (rat_findvalues tu0 (x_trat x) (fun u => fst u <? sequenceID)))
            (rat_new ratLength).

(* ctx.RATFlush(): for k, v := range committedRAT.Values() { ctx.Registers[k] = v } *)
Definition rat_flush3 (ord : Z -> Z -> list Z -> list Z) (cycle : Z) (x : mx) : list Z :=
  let vals := rat_values 0 (x_crat x) in
  fold_left (fun rs k => match aget k vals with Some v => Seq.upd rs (Z.to_nat k) v | None => rs end)
            (map_order ord cycle (-1) (akeys vals)) (m_regs (x_m x)).

(* ctx.InitRAT(): for k, v := range ctx.Registers { committedRAT.Write(k, v) } *)
Definition init_rat3 (ord : Z -> Z -> list Z -> list Z) (regs : list Z) : @rat Z :=
  let keys := map Z.of_nat (seq 0 (length regs)) in
  fold_left (fun c k => rat_write 0 c k (nth (Z.to_nat k) regs 0)) (map_order ord 0 (-2) keys) (rat_new ratLength).

(* hazards of ctx.IsDataHazard3(runner): (0 RAW | 1 WAW | 2 WAR, register), Comp/Scoreboard.v *)
Definition hazards_of (x : mx) (i : instr) : list (Z * Z) :=
  Scoreboard.hazards3 (Scoreboard.mk_sb (sb_get (m_pw (x_m x))) (sb_get (m_pr (x_m x))))
                      (instr_ReadRegisters i) (instr_WriteRegisters i).

(* ------------------------------------------------------------------ *)
(* fu.go, du.go                                                         *)
(* ------------------------------------------------------------------ *)

(* fetchUnit.reset(pc, true): ctx.IncSequenceID(); Reset(); complete = false; ... *)
Definition fu_reset3 (x : mx) (pc : Z) : mx :=
  inc_seq3 (set_m x (set_fu (x_m x) (fu_reset6 (m_fu (x_m x)) pc))).

(* the for loop of decodeUnit.cycle (du_loop of Mvp60.v) with runner.Forward(risc.Forward{}) and
   SequenceID: u.ctx.SequenceID(pc) *)
Fixpoint du_loop3 (q : list Z) (app : list instr) (cycle : Z) (ret pbr : bool) (cbus : bbus runner) (x : mx)
  : outcome (bool * bool * list Z * bbus runner * mx) :=
  match q with
  | [] => Ok (ret, pbr, [], cbus, x)
  | pc :: q' =>
      if nlen6 app <=? Z.quot pc 4 then Ok (ret, pbr, q', cbus, x)
      else if Z.quot pc 4 <? 0 then Panic
      else match nth_error app (Z.to_nat (Z.quot pc 4)) with
           | None => Panic
           | Some i =>
               let x := set_forward3 x pc 0 0 in
               let ty := instr_InstructionType i in
               let jump := InstructionType_IsUnconditionalBranch ty in
               let cbus' := bb_add cbus (mk_runner i pc (sequence_id x pc)) cycle in
               if jump then Ok (ret, true, q', cbus', x)
               else if ty =? Ret then Ok (true, pbr, q', cbus', x)
               else du_loop3 q' app cycle ret pbr cbus' x
           end
  end.

(* decodeUnit.cycle *)
Definition du_cycle3 (app : list instr) (cycle : Z) (x : mx) : outcome mx :=
  let m := x_m x in
  if m_dret m then Ok x
  else if m_dpbr m then Ok x
  else
    r <- du_loop3 (bb_q (m_dbus m)) app cycle (m_dret m) (m_dpbr m) (m_cbus m) x ;;
    let '(ret, pbr, q', cbus', x1) := r in
    let d := m_dbus m in
    Ok (set_m x1 (set_cbus (set_dbus (set_du m ret pbr) (mk_bb (bb_buf d) q' (bb_ql d) (bb_bl d))) cbus')).

(* ------------------------------------------------------------------ *)
(* cu.go                                                                *)
(* ------------------------------------------------------------------ *)

Fixpoint first_some {A B} (f : A -> option B) (l : list A) : option B :=
  match l with
  | [] => None
  | a :: t => match f a with Some b => Some b | None => first_some f t end
  end.

(* the two inner loops of shouldUseForwarding for one previousRunner: the first
   (writeRegister, readRegister) pair with readRegister != Zero and equal registers *)
Definition fwd_match (reads : list Z) (p : runner3) : option Z :=
  first_some (fun w => find (fun rd => negb (rd =? 0) && (rd =? w)) reads) (instr_WriteRegisters (q_instr p)).

(* shouldUseForwarding(runner, hazards, hazardTypes): exactly one hazard and it is a RAW *)
Definition should_forward3 (ord : Z -> Z -> list Z -> list Z) (cycle : Z) (x : mx) (r : runner3) (hz : list (Z * Z))
  : option (runner3 * Z) :=
  match hz with
  | [(0, _)] =>
      let ids := map q_id (x_prev x) in
      let reads := instr_ReadRegisters (q_instr r) in
      first_some (fun id => match find (fun p => q_id p =? id) (x_prev x) with
                            | Some p => match fwd_match reads p with Some reg => Some (p, reg) | None => None end
                            | None => None
                            end)
                 (map_order ord cycle (q_pc r) ids)
  | _ => None
  end.
(* ghost: more than one entry of the map qualifies *)
Definition forward_order_matters (x : mx) (r : runner3) : bool :=
  1 <? zlen (filter (fun p => match fwd_match (instr_ReadRegisters (q_instr r)) p with Some _ => true | None => false end)
                    (x_prev x)).

(* shouldUseRenaming(hazards, hazardTypes) *)
Definition should_rename3 (hz : list (Z * Z)) : bool :=
  (zlen hz <=? 1) && negb (existsb (fun h => fst h =? 0) hz).

(* isDataHazardWithSkippedRunners(runner) *)
Definition skipped_hazard3 (skipped : list runner3) (i : instr) : bool :=
  existsb (fun s =>
    let sw := instr_WriteRegisters (q_instr s) in
    let sr := instr_ReadRegisters (q_instr s) in
    existsb (fun rd => negb (rd =? 0) && existsb (Z.eqb rd) sw) (instr_ReadRegisters i) ||
    existsb (fun w => negb (w =? 0) && (existsb (Z.eqb w) sw || existsb (Z.eqb w) sr)) (instr_WriteRegisters i))
  skipped.

(* previousRunner.Forwarder = ch, through the pointer: the struct with identity id on the execute bus *)
Definition mark_fwder (id ch : Z) (r : runner3) : runner3 :=
  if q_id r =? id then mk_r3 (q_r r) (q_id r) (Some ch) (q_recv r) (q_freg r) else r.
Definition ebus_mark (b : bbus runner3) (id ch : Z) : bbus runner3 :=
  mk_bb (map (fun p => (fst p, mark_fwder id ch (snd p))) (bb_buf b)) (map (mark_fwder id ch) (bb_q b)) (bb_ql b) (bb_bl b).

(* pushRunner: the pushed struct gets its identity *)
Definition push_runner3 (x : mx) (cycle : Z) (r : runner3) : option (mx * runner3) :=
  if negb (bb_canadd (x_ebus x)) then None else
  let r' := mk_r3 (q_r r) (x_next x) (q_fwder r) (q_recv r) (q_freg r) in
  let i := q_instr r in
  Some (set_next3 (set_m (set_ebus3 x (bb_add (x_ebus x) r' cycle))
                         (add_pending6 (x_m x) (instr_ReadRegisters i) (instr_WriteRegisters i)))
                  (x_next x + 1), r').

(* pushed := u.pushRunner(...); if !pushed { return false, true }; return true, stop *)
Definition push_or_stop3 (x : mx) (cycle : Z) (r : runner3) (stop : bool) : bool * bool * runner3 * mx :=
  match push_runner3 x cycle r with
  | None => (false, true, r, x)
  | Some (x', r') => (true, stop, r', x')
  end.

(* handleRunner: (push, stop), the runner struct afterwards (its Receiver / ForwardRegister may have
   been assigned even when it was not pushed) and the machine *)
Definition handle_runner3 (ord : Z -> Z -> list Z -> list Z) (cycle : Z) (x : mx) (skipped : list runner3) (pbranch : bool)
           (r : runner3) : bool * bool * runner3 * mx :=
  let i := q_instr r in
  let ty := instr_InstructionType i in
  if InstructionType_IsBranch ty && pbranch then (false, true, r, x)
  else if (ty =? Ret) && (negb (bb_isempty (x_ebus x)) || x_pcb x) then (false, true, r, x)
  else if skipped_hazard3 skipped i then (false, false, r, x)
  else
    let hz := hazards_of x i in
    if zlen hz =? 0 then push_or_stop3 x cycle r false
    else
      match should_forward3 ord cycle x r hz with
      | Some (p, reg) =>
          (* ch := make(chan int32, 1); previousRunner.Forwarder = ch; runner.Receiver = ch;
             runner.ForwardRegister = register *)
          let ch := x_next x in
          let x1 := set_os3 (set_next3 (set_ebus3 x (ebus_mark (x_ebus x) (q_id p) ch)) (ch + 1))
                            (x_os x || forward_order_matters x r) in
          push_or_stop3 x1 cycle (mk_r3 (q_r r) (q_id r) (q_fwder r) (Some ch) reg) true
      | None =>
          if should_rename3 hz then push_or_stop3 x cycle r false
          else (false, true, r, x)
      end.

(* the per-cycle fields: pushedRunnersInCurrentCycle, skippedInCurrentCycle, pushedBranchInCurrentCycle *)
Record culoc := mk_cul { l_cur : list runner3; l_skipped : list runner3; l_pbranch : bool }.

(* what both loops of cycle do after handleRunner returned push = true *)
Definition after_push3 (x : mx) (l : culoc) (r : runner3) : mx * culoc :=
  let ty := instr_InstructionType (q_instr r) in
  (if InstructionType_IsConditionalBranch ty then set_pcb3 x true else x,
   mk_cul (l_cur l ++ [r]) (l_skipped l) (l_pbranch l || InstructionType_IsBranch ty)).

(* for elem := range u.pendings.Iterator() (the snapshot of the queue, as cu_pending of Mvp60.v);
   returns (stopped, queue afterwards, locals, machine) *)
Fixpoint cu_pending3 (ord : Z -> Z -> list Z -> list Z) (cycle : Z) (ps kept : list runner3) (l : culoc) (x : mx)
  : bool * list runner3 * culoc * mx :=
  match ps with
  | [] => (false, rev kept, l, x)
  | r :: t =>
      let '(push, stop, r1, x1) := handle_runner3 ord cycle x (l_skipped l) (l_pbranch l) r in
      let '(x2, l2) := if push then after_push3 x1 l r1
                       else (x1, mk_cul (l_cur l) (l_skipped l ++ [r1]) (l_pbranch l)) in
      let kept' := if push then kept else r :: kept in
      if stop then (true, rev kept' ++ t, l2, x2)
      else cu_pending3 ord cycle t kept' l2 x2
  end.

(* for !u.pendings.IsFull() { runner, exists := u.inBus.Get(); ... } over the queue of the control bus;
   a runner that is not pushed goes to the pendings WITH the fields handleRunner assigned *)
Fixpoint cu_incoming3 (ord : Z -> Z -> list Z -> list Z) (cycle : Z) (q : list runner) (pend : list runner3) (l : culoc) (x : mx)
  : list runner * list runner3 * culoc * mx :=
  if pendingLength <=? zlen pend then (q, pend, l, x) else
  match q with
  | [] => (q, pend, l, x)
  | r0 :: q' =>
      let '(push, stop, r1, x1) := handle_runner3 ord cycle x (l_skipped l) (l_pbranch l) (r3_of r0) in
      let '(x2, l2) := if push then after_push3 x1 l r1
                       else (x1, mk_cul (l_cur l) (l_skipped l ++ [r1]) (l_pbranch l)) in
      let pend' := if push then pend else pend ++ [r1] in
      if stop then (q', pend', l2, x2)
      else cu_incoming3 ord cycle q' pend' l2 x2
  end.

(* controlUnit.cycle; the deferred function sets pushedRunnersInPreviousCycle on every return *)
Definition cu_cycle3 (ord : Z -> Z -> list Z -> list Z) (cycle : Z) (x : mx) : mx :=
  if negb (bb_canadd (x_ebus x)) then set_prev3 x [] else
  let '(stopped, pend1, l1, x1) := cu_pending3 ord cycle (x_pend x) [] (mk_cul [] [] false) x in
  if stopped then set_prev3 (set_pend3 x1 pend1) (l_cur l1) else
  let '(q', pend2, l2, x2) := cu_incoming3 ord cycle (bb_q (m_cbus (x_m x1))) pend1 l1 x1 in
  let c := m_cbus (x_m x2) in
  set_prev3 (set_pend3 (set_m x2 (set_cbus (x_m x2) (mk_bb (bb_buf c) q' (bb_ql c) (bb_bl c)))) pend2) (l_cur l2).

(* ------------------------------------------------------------------ *)
(* bu.go                                                                *)
(* ------------------------------------------------------------------ *)

(* btbBranchUnit.assert (bu_assert6 of Mvp60.v; fu.reset increments the sequence id) *)
Definition bu_assert3 (x : mx) (r : runner) : mx :=
  let ty := instr_InstructionType (r_instr r) in
  let b := m_bu (x_m x) in
  if InstructionType_IsUnconditionalBranch ty then
    match btb_get (b_btb b) (r_pc r) with
    | None => set_m x (set_bu (x_m x) (mk_bu6 true (-1) (b_btb b)))
    | Some nextPc => fu_reset3 (set_m x (set_bu (x_m x) (mk_bu6 false (b_expect b) (b_btb b)))) nextPc
    end
  else if InstructionType_IsConditionalBranch ty then
    set_m x (set_bu (x_m x) (mk_bu6 true (addS 32 (r_pc r) 4) (b_btb b)))
  else set_m x (set_bu (x_m x) (mk_bu6 false (b_expect b) (b_btb b))).

(* notifyUnconditionalJumpAddressResolved(pc, pcTo) *)
Definition bu_resolved3 (x : mx) (pc pcTo : Z) : mx :=
  let m := x_m x in
  let b := m_bu m in
  let x1 := fu_reset3 (set_m x (set_bu m (mk_bu6 (b_check b) (b_expect b) (btb_add (b_btb b) pc pcTo)))) pcTo in
  set_m x1 (set_du (x_m x1) (m_dret (x_m x1)) false).

(* ------------------------------------------------------------------ *)
(* eu.go                                                                *)
(* ------------------------------------------------------------------ *)

(* euResp *)
Record eu_out3 := mk_euo3 { y_flush : bool; y_seq : Z; y_pc : Z; y_ret : bool; y_err : option err_class }.
Definition yo_none : eu_out3 := mk_euo3 false 0 0 false None.

(* first component: ghost flag raised by this call (a store whose map order matters) *)
Definition eu_res3 : Type := bool * outcome (mx * eu3 * eu_out3).
Definition quiet3 (o : outcome (mx * eu3 * eu_out3)) : eu_res3 := (false, o).

(* executeUnit.flush(): Reset(); sequenceID = 0 *)
Definition eu_flush3 (e : eu3) : eu3 := mk_eu3 ENone (g_memory e) (g_runner e) 0.

(* the Pre hook: true = the unit dropped its instruction and Cycle returns the zero response *)
Definition eu_pre3 (e : eu3) : bool :=
  if g_seq e =? 0 then false
  else match g_runner e with
       | None => false
       | Some r => g_seq e <? q_seq r
       end.

(* run, after ExecuteWithReset *)
Definition eu_run3 (labels : Z -> option Z) (ord : Z -> Z -> list Z -> list Z) (cycle : Z) (x : mx) (e : eu3) : eu_res3 :=
  match g_runner e with
  | None => quiet3 Panic
  | Some r =>
      let i := q_instr r in
      let pc := q_pc r in
      let e0 := mk_eu3 ENone (g_memory e) (g_runner e) (g_seq e) in
      let ro := instr_Run i (rr3 x pc) labels pc (g_memory e) 0 in
      (* u.runner.Runner.Forward(risc.Forward{}) *)
      let x := set_forward3 x pc 0 0 in
      match ro with
      | Panic => quiet3 Panic
      | Err er => quiet3 (Ok (x, e0, mk_euo3 false 0 0 false (Some er)))
      | Ok exe =>
          if Return exe then quiet3 (Ok (x, e0, mk_euo3 false 0 0 true None)) else
          let reads := instr_ReadRegisters i in
          let writes := instr_WriteRegisters i in
          let keys := map fst (sort_changes (MemoryChanges exe)) in
          let m := x_m x in
          (MemoryChange exe && store_order_matters (m_l3 m) (m_pend m) keys,                 (* ghost *)
           (* execution.MemoryChange && doesExecutionMemoryChangesExistsInL3 -> writeExecutionMemoryChangesToL3 *)
           st <- (if MemoryChange exe then
                    g <- get_from_l3 (m_l3 m) (m_pend m) (ord cycle pc keys) [] ;;
                    let '(c1, p1, res) := g in
                    match res with
                    | L3Hit _ =>
                        match sort_changes (MemoryChanges exe) with
                        | [] => Panic
                        | (a0, _) :: _ =>
                            c2 <- write c1 a0 (map snd (sort_changes (MemoryChanges exe))) ;;
                            Ok (set_l3 m c2 p1, true)
                        end
                    | _ => Ok (set_l3 m c1 p1, false)
                    end
                  else Ok (m, false)) ;;
           let '(m1, in_l3) := st in
           if in_l3 then Ok (set_m x (del_pending6 m1 reads writes), e0, yo_none) else
           let x1 := set_m x (set_wbus m1 (bb_add (m_wbus m1) (mk_wb6 (q_seq r) exe reads writes) cycle)) in
           let ty := instr_InstructionType i in
           match q_fwder r with
           | None =>
               let x2 := if InstructionType_IsUnconditionalBranch ty then bu_resolved3 x1 pc (NextPc exe) else x1 in
               let x3 := if InstructionType_IsConditionalBranch ty then
                           (* notifyConditionalBranchTaken(SequenceID) / notifyConditionalBranchNotTaken() *)
                           if PcChange exe && negb (NextPc exe =? addS 32 pc 4)
                           then rat_rollback3 ord cycle (set_pcb3 x2 false) (q_seq r)
                           else rat_commit3 ord cycle (set_pcb3 x2 false)
                         else x2 in
               if PcChange exe then
                 let '(b', fl) := bu_should_flush6 (m_bu (x_m x3)) (NextPc exe) in
                 Ok (set_m x3 (set_bu (x_m x3) b'), e0,
                     if fl then mk_euo3 true (q_seq r) (NextPc exe) false None else yo_none)
               else Ok (x3, e0, yo_none)
           | Some ch =>
               (* u.runner.Forwarder <- execution.RegisterValue (capacity 1, a second send would block forever) *)
               match aget ch (x_chan x1) with
               | Some _ => Panic
               | None =>
                   if InstructionType_IsBranch ty then Panic      (* panic("shouldn't be a branch") *)
                   else Ok (set_chan3 x1 (x_chan x1 ++ [(ch, RegisterValue exe)]), e0, yo_none)
               end
           end)
      end
  end.

(* prepareRun *)
Definition eu_prepare3 (labels : Z -> option Z) (ord : Z -> Z -> list Z -> list Z) (cycle : Z) (x : mx) (e : eu3) : eu_res3 :=
  if negb (bb_canadd (m_wbus (x_m x))) then quiet3 (Ok (x, e, yo_none)) else
  match g_runner e with
  | None => quiet3 Panic
  | Some r =>
      (* if u.runner.Receiver != nil { select { case v := <-Receiver: ... default: return } ... } *)
      let rcv := match q_recv r with
                 | None => Some (x, r)
                 | Some ch =>
                     match aget ch (x_chan x) with
                     | None => None
                     | Some v =>
                         Some (set_forward3 (set_chan3 x (filter (fun p => negb (fst p =? ch)) (x_chan x))) (q_pc r) (q_freg r) v,
                               mk_r3 (q_r r) (q_id r) (q_fwder r) None (q_freg r))
                     end
                 end in
      match rcv with
      | None => quiet3 (Ok (x, e, yo_none))
      | Some (x0, r1) =>
          let e := mk_eu3 (g_co e) (g_memory e) (Some r1) (g_seq e) in
          let x1 := bu_assert3 x0 (q_r r1) in
          let addrs := instr_MemoryRead (q_instr r1) (rr3 x1 (q_pc r1)) 0 in
          match addrs with
          | [] => eu_run3 labels ord cycle x1 e
          | _ :: _ =>
              quiet3 (
              let m1 := x_m x1 in
              g <- get_from_l3 (m_l3 m1) (m_pend m1) addrs [] ;;
              let '(c1, p1, res) := g in
              let x2 := set_m x1 (set_l3 m1 c1 p1) in
              match res with
              | L3Pending => Ok (x2, e, yo_none)
              | L3Hit bytes => Ok (x2, mk_eu3 (EWaitL3 (L3Access - 1)) bytes (g_runner e) (g_seq e), yo_none)
              | L3Miss => Ok (x2, mk_eu3 (EWaitMem (MemoryAccess - 1) addrs) (g_memory e) (g_runner e) (g_seq e), yo_none)
              end)
          end
      end
  end.

(* executeUnit.Cycle: Pre hook, then the current function of the coroutine *)
Definition eu_cycle3 (labels : Z -> option Z) (ord : Z -> Z -> list Z -> list Z) (cycle : Z) (x : mx) (e : eu3) : eu_res3 :=
  if eu_pre3 e then quiet3 (Ok (x, eu_flush3 e, yo_none)) else
  match g_co e with
  | ENone =>
      let '(ebus', got) := bb_get (x_ebus x) in
      match got with
      | None => quiet3 (Ok (x, e, yo_none))
      | Some r => eu_prepare3 labels ord cycle (set_ebus3 x ebus') (mk_eu3 EPrepare (g_memory e) (Some r) (g_seq e))
      end
  | EPrepare => eu_prepare3 labels ord cycle x e
  | EWaitL3 rem =>
      if 0 <? rem then quiet3 (Ok (x, mk_eu3 (EWaitL3 (rem - 1)) (g_memory e) (g_runner e) (g_seq e), yo_none))
      else eu_run3 labels ord cycle x e
  | EWaitMem rem addrs =>
      if 0 <? rem then quiet3 (Ok (x, mk_eu3 (EWaitMem (rem - 1) addrs) (g_memory e) (g_runner e) (g_seq e), yo_none))
      else
        (* fetchCacheLine, pushLineToL3, getFromL3: eu_fill6 of Mvp60.v *)
        match eu_fill6 (x_m x) (mk_eu6 (g_co e) (g_memory e) None) addrs with
        | Ok (m1, e1) => eu_run3 labels ord cycle (set_m x m1) (mk_eu3 (g_co e) (e_memory e1) (g_runner e) (g_seq e))
        | Err er => quiet3 (Err er)
        | Panic => quiet3 Panic
        end
  end.

Definition eu_empty3 (e : eu3) : bool := match g_co e with ENone => true | _ => false end.

(* the loop over the execute units in the main loop:
     eu.sequenceID = sequenceID; resp := eu.Cycle(...); if resp.err != nil { return 0, resp.err }
     if resp.flush && (!flush || resp.sequenceID < sequenceID) { sequenceID = resp.sequenceID; pc = resp.pc } ...
   stops at the first error (y_err of the result) *)
Fixpoint eus_main3 (labels : Z -> option Z) (ord : Z -> Z -> list Z -> list Z) (cycle : Z) (x : mx) (eus : list eu3)
         (acc : eu_out3) : bool * outcome (mx * list eu3 * eu_out3) :=
  match eus with
  | [] => (false, Ok (x, [], acc))
  | e :: t =>
      let e := mk_eu3 (g_co e) (g_memory e) (g_runner e) (y_seq acc) in
      let '(os1, r1) := eu_cycle3 labels ord cycle x e in
      match r1 with
      | Ok (x1, e1, o) =>
          match y_err o with
          | Some er => (os1, Ok (x1, e1 :: t, mk_euo3 (y_flush acc) (y_seq acc) (y_pc acc) (y_ret acc) (Some er)))
          | None =>
              let take := y_flush o && (negb (y_flush acc) || (y_seq o <? y_seq acc)) in
              let acc' := mk_euo3 (y_flush acc || y_flush o) (if take then y_seq o else y_seq acc)
                                  (if take then y_pc o else y_pc acc) (y_ret acc || y_ret o) None in
              let '(os2, r) := eus_main3 labels ord cycle x1 t acc' in
              (os1 || os2, z <- r ;; let '(x2, t', acc2) := z in Ok (x2, e1 :: t', acc2))
          end
      | Err er => (os1, Err er)
      | Panic => (os1, Panic)
      end
  end.

(* the loop over the execute units in the drain loop after ret: empty units are skipped, only an
   error of the response is looked at *)
Fixpoint eus_drain3 (labels : Z -> option Z) (ord : Z -> Z -> list Z -> list Z) (cycle : Z) (x : mx) (eus : list eu3)
  : bool * outcome (mx * list eu3 * option err_class) :=
  match eus with
  | [] => (false, Ok (x, [], None))
  | e :: t =>
      if eu_empty3 e then
        let '(os2, r) := eus_drain3 labels ord cycle x t in
        (os2, z <- r ;; let '(x2, t', er) := z in Ok (x2, e :: t', er))
      else
        let '(os1, r1) := eu_cycle3 labels ord cycle x e in
        match r1 with
        | Ok (x1, e1, o) =>
            match y_err o with
            | Some er => (os1, Ok (x1, e1 :: t, Some er))
            | None =>
                let '(os2, r) := eus_drain3 labels ord cycle x1 t in
                (os1 || os2, z <- r ;; let '(x2, t', er) := z in Ok (x2, e1 :: t', er))
            end
        | Err er => (os1, Err er)
        | Panic => (os1, Panic)
        end
  end.

(* (isEmpty, sequenceID, pc) of the flush loop and an error seen *)
Record fl_acc := mk_fla { a_empty : bool; a_seq : Z; a_pc : Z; a_err : option err_class }.

(* the loop over the execute units inside the flush loop:
     if !eu.isEmpty() { isEmpty = false; resp := eu.Cycle(euReq{fromCycle, ...});
                        if resp.err != nil { return 0, resp.err }
                        if resp.flush { sequenceID = resp.sequenceID; pc = resp.pc; ... } } *)
Fixpoint eus_flush3 (labels : Z -> option Z) (ord : Z -> Z -> list Z -> list Z) (fromCycle : Z) (x : mx) (eus : list eu3)
         (acc : fl_acc) : bool * outcome (mx * list eu3 * fl_acc) :=
  match eus with
  | [] => (false, Ok (x, [], acc))
  | e :: t =>
      if eu_empty3 e then
        let '(os2, r) := eus_flush3 labels ord fromCycle x t acc in
        (os2, z <- r ;; let '(x2, t', acc2) := z in Ok (x2, e :: t', acc2))
      else
        let '(os1, r1) := eu_cycle3 labels ord fromCycle x e in
        match r1 with
        | Ok (x1, e1, o) =>
            match y_err o with
            | Some er => (os1, Ok (x1, e1 :: t, mk_fla false (a_seq acc) (a_pc acc) (Some er)))
            | None =>
                let acc' := if y_flush o then mk_fla false (y_seq o) (y_pc o) None
                            else mk_fla false (a_seq acc) (a_pc acc) None in
                let '(os2, r) := eus_flush3 labels ord fromCycle x1 t acc' in
                (os1 || os2, z <- r ;; let '(x2, t', acc2) := z in Ok (x2, e1 :: t', acc2))
            end
        | Err er => (os1, Err er)
        | Panic => (os1, Panic)
        end
  end.

(* ------------------------------------------------------------------ *)
(* wu.go                                                                *)
(* ------------------------------------------------------------------ *)

(* writeUnit.Cycle(wuReq{before}); the pending memory write is that of Mvp60.v *)
Definition wu_cycle3 (x : mx) (w : wu6) (before : Z) : outcome (mx * wu6) :=
  match u_co w with
  | WMem _ => r <- wu_cycle6 (x_m x) w before ;; Ok (set_m x (fst r), snd r)
  | WNone =>
      let m := x_m x in
      let '(wbus', got) := bb_get (m_wbus m) in
      let m := set_wbus m wbus' in
      match got with
      | None => Ok (set_m x m, w)
      | Some c =>
          if negb (before =? -1) && (before <? w_seq c) then Ok (set_m x m, w)      (* dropped *)
          else if RegisterChange (w_exe c) then
            (* ctx.TransactionRATWrite(execution.Execution, execution.SequenceID) *)
            let x1 := set_rats3 x (x_crat x) (rat_write tu0 (x_trat x) (Register (w_exe c)) (w_seq c, RegisterValue (w_exe c))) in
            Ok (set_m x1 (del_pending6 m (w_reads c) (w_writes c)), w)
          else if MemoryChange (w_exe c) then Ok (set_m x m, mk_wu6 (WMem MemoryAccess) (Some c))
          else Ok (set_m x (del_pending6 m (w_reads c) (w_writes c)), w)
      end
  end.

Fixpoint wus_cycle3 (x : mx) (wus : list wu6) (before : Z) : outcome (mx * list wu6) :=
  match wus with
  | [] => Ok (x, [])
  | w :: t =>
      r1 <- wu_cycle3 x w before ;;
      r <- wus_cycle3 (fst r1) t before ;;
      Ok (fst r, snd r1 :: snd r)
  end.

(* ------------------------------------------------------------------ *)
(* cpu.go                                                               *)
(* ------------------------------------------------------------------ *)

(* which loop of Run the next tick belongs to *)
Inductive mode3 :=
| NNormal                                          (* the main for loop *)
| NRet                                             (* the drain loop after a ret *)
| NFlushE (seq pc from : Z)                        (* the `for { ... }` after `if flush` (sequenceID, pc, fromCycle) *)
| NFlushW (k : nat) (seq pc from : Z) (empty : bool).
                                                   (* `for !wu.isEmpty() || !writeBus.IsEmpty()` of write unit k inside it *)

Record st3 := mk_st3 { t_x : mx; t_eus : list eu3; t_wus : list wu6; t_cycle : Z; t_mode : mode3 }.

Inductive step_res3 := TDone (r : mres) (os : bool) | TCont (s : st3).

(* cycle += mmu.flush(); m.ctx.RATCommit(); m.ctx.RATFlush(); return cycle, nil *)
Definition finish3 (ord : Z -> Z -> list Z -> list Z) (x : mx) (cycle : Z) : mres :=
  match flush_lines (lines (m_l3 (x_m x))) (m_mem (x_m x)) 0 with
  | Ok (mem', c) => MDone (cycle + c) (mk_arch (rat_flush3 ord cycle (rat_commit3 ord cycle x)) mem')
  | _ => MPanic
  end.

(* CPU.flush(pc) *)
Definition do_flush3 (x : mx) (pc : Z) : mx :=
  let x1 := inc_seq3 (set_m x (do_flush6 (x_m x) pc)) in
  set_pcb3 (set_prev3 (set_pend3 (set_ebus3 x1 (bb_clean (x_ebus x1))) []) []) false.

(* CPU.isEmpty() *)
Definition is_empty3 (x : mx) (eus : list eu3) (wus : list wu6) : bool :=
  let m := x_m x in
  f_complete (m_fu m) && (zlen (x_pend x) =? 0) && forallb wu_empty wus &&
  bb_isempty (m_dbus m) && bb_isempty (m_cbus m) && bb_isempty (x_ebus x) && bb_isempty (m_wbus m) &&
  forallb eu_empty3 eus.

Definition wbus_connect3 (x : mx) (cycle : Z) : mx := set_m x (set_wbus (x_m x) (bb_connect (m_wbus (x_m x)) cycle)).

(* condition of the drain loop after ret *)
Definition ret_check3 (ord : Z -> Z -> list Z -> list Z) (s : st3) : step_res3 :=
  if forallb eu_empty3 (t_eus s) && forallb wu_empty (t_wus s) && bb_isempty (m_wbus (x_m (t_x s)))
  then TDone (finish3 ord (t_x s) (t_cycle s)) (x_os (t_x s))
  else TCont (mk_st3 (t_x s) (t_eus s) (t_wus s) (t_cycle s) NRet).

(* inside one iteration of the flush loop, after m.writeBus.Connect(cycle + 1): the loops of the write
   units from index k on; when all are over: `if isEmpty { break }` and then
   m.flush(pc); cycle += latency.Flush; continue *)
Definition flush_advance3 (s : st3) (k : nat) (seq pc from : Z) (empty : bool) : step_res3 :=
  match flush_next (skipn k (t_wus s)) k (bb_isempty (m_wbus (x_m (t_x s)))) with
  | Some k' => TCont (mk_st3 (t_x s) (t_eus s) (t_wus s) (t_cycle s) (NFlushW k' seq pc from empty))
  | None =>
      if empty then
        TCont (mk_st3 (do_flush3 (t_x s) pc) (map eu_flush3 (t_eus s)) (t_wus s) (t_cycle s + Flush) NNormal)
      else TCont (mk_st3 (t_x s) (t_eus s) (t_wus s) (t_cycle s) (NFlushE seq pc from))
  end.

Definition res_of3 {A} (os : bool) (o : outcome A) (k : A -> step_res3) : step_res3 :=
  match o with Ok x => k x | Err e => TDone (MErr e) os | Panic => TDone MPanic os end.

Definition or_os (x : mx) (b : bool) : mx := set_os3 x (x_os x || b).

(* the first half of an iteration of the main loop: the four Connect calls, fetchUnit.Cycle,
   decodeUnit.cycle, controlUnit.cycle *)
Definition front3 (app : list instr) (ord : Z -> Z -> list Z -> list Z) (cycle : Z) (x : mx) : outcome mx :=
  let m := x_m x in
  let m := set_wbus (set_cbus (set_dbus m (bb_connect (m_dbus m) cycle)) (bb_connect (m_cbus m) cycle))
                    (bb_connect (m_wbus m) cycle) in
  let x := set_ebus3 (set_m x m) (bb_connect (x_ebus x) cycle) in
  r <- fu_cycle6 app cycle (m_fu m) (m_l1i m) (m_dbus m) ;;
  let '(fu1, l1i1, dbus1) := r in
  x <- du_cycle3 app cycle (set_m x (set_dbus (set_l1i (set_fu m fu1) l1i1) dbus1)) ;;
  Ok (cu_cycle3 ord cycle x).

(* the rest of an iteration of the main loop once the execute units have run *)
Definition back3 (ord : Z -> Z -> list Z -> list Z) (s : st3) (cycle : Z) (z : mx * list eu3 * eu_out3) : step_res3 :=
  let '(x, eus1, o) := z in
  match y_err o with
  | Some er => TDone (MErr er) (x_os x)
  | None =>
      res_of3 (x_os x) (wus_cycle3 x (t_wus s) (if y_flush o then y_seq o else -1)) (fun r =>
      let '(x, wus1) := r in
      if y_ret o then
        let cycle := cycle + 1 in
        ret_check3 ord (mk_st3 (wbus_connect3 x cycle) eus1 wus1 cycle NRet)
      else if y_flush o then
        (* for _, eu := range m.executeUnits { eu.sequenceID = sequenceID }; fromCycle := cycle *)
        TCont (mk_st3 x (map (fun e => mk_eu3 (g_co e) (g_memory e) (g_runner e) (y_seq o)) eus1) wus1 cycle
                      (NFlushE (y_seq o) (y_pc o) cycle))
      else if is_empty3 x eus1 wus1 then TDone (finish3 ord x cycle) (x_os x)
      else TCont (mk_st3 x eus1 wus1 cycle NNormal))
  end.

(* one ctx.VerifTick() of Run *)
Definition step3 (app : list instr) (labels : Z -> option Z) (ord : Z -> Z -> list Z -> list Z) (s : st3) : step_res3 :=
  let x := t_x s in
  let os := x_os x in
  match t_mode s with
  | NNormal =>
      let cycle := t_cycle s + 1 in
      res_of3 os (front3 app ord cycle x) (fun x =>
      let '(os1, re) := eus_main3 labels ord cycle x (t_eus s) yo_none in
      res_of3 (x_os x || os1) re (fun z => let '(x1, eus1, o) := z in back3 ord s cycle (or_os x1 os1, eus1, o)))
  | NRet =>
      let '(os1, re) := eus_drain3 labels ord (t_cycle s) x (t_eus s) in
      res_of3 (os || os1) re (fun z =>
      let '(x1, eus1, er) := z in
      let x1 := or_os x1 os1 in
      match er with
      | Some e => TDone (MErr e) (x_os x1)
      | None =>
          res_of3 (x_os x1) (wus_cycle3 x1 (t_wus s) (-1)) (fun r =>
          let '(x2, wus1) := r in
          let cycle := t_cycle s + 1 in
          ret_check3 ord (mk_st3 (wbus_connect3 x2 cycle) eus1 wus1 cycle NRet))
      end)
  | NFlushE seq pc from =>
      let cycle := t_cycle s + 1 in
      let '(os1, re) := eus_flush3 labels ord from x (t_eus s) (mk_fla true seq pc None) in
      res_of3 (os || os1) re (fun z =>
      let '(x1, eus1, acc) := z in
      let x1 := or_os x1 os1 in
      match a_err acc with
      | Some er => TDone (MErr er) (x_os x1)                  (* return 0, resp.err *)
      | None =>
          flush_advance3 (mk_st3 (wbus_connect3 x1 (cycle + 1)) eus1 (t_wus s) cycle (t_mode s))
                         0 (a_seq acc) (a_pc acc) from (a_empty acc)
      end)
  | NFlushW k seq pc from empty =>
      match nth_error (t_wus s) k with
      | None => TDone MPanic os
      | Some w =>
          res_of3 os (wu_cycle3 x w seq) (fun r =>
          flush_advance3 (mk_st3 (fst r) (t_eus s) (set_nth6 (t_wus s) k (snd r)) (t_cycle s) (t_mode s)) k seq pc from empty)
      end
  end.

(* Run: one step per tick until Run returns; when the tick budget is exhausted the state reached *)
Fixpoint run3_st (fuel : nat) (app : list instr) (labels : Z -> option Z) (ord : Z -> Z -> list Z -> list Z) (s : st3)
  : (mres * bool) + st3 :=
  match fuel with
  | O => inr s
  | S f =>
      match step3 app labels ord s with
      | TDone r os => inl (r, os)
      | TCont s' => run3_st f app labels ord s'
      end
  end.

(* NewCPU(debug, memoryBytes, eu = par, wu = par); m.ctx.InitRAT() at the start of Run *)
Definition init3 (par : nat) (ord : Z -> Z -> list Z -> list Z) (app : list instr) (st : arch) : outcome st3 :=
  match new_cache l1LineSize l1Size, new_cache l3LineSize l3Size with
  | Ok ci, Ok c3 =>
      let busSize := 2 in
      let m := mk_mach (regs st) (mem st) zero_sb zero_sb ci c3 []
                       (mk_fu6 0 false false FNone 0) false false [] (mk_bu6 false 0 [])
                       (bb_new busSize busSize) (bb_new busSize busSize) (bb_new busSize busSize) (bb_new busSize busSize) in
      let x := mk_mx m (bb_new busSize busSize) [] [] false 0 (init_rat3 ord (regs st)) (rat_new ratLength)
                     (repeat (0, 0) (length app)) [] 1 false in
      Ok (mk_st3 x (repeat (mk_eu3 ENone [] None 0) par) (repeat (mk_wu6 WNone None) par) 0 NNormal)
  | _, _ => Panic
  end.

(* NewCPU + Run(app); second component = ghost flag *)
Definition mvp63_run_os (par : nat) (ord : Z -> Z -> list Z -> list Z) (fuel : nat) (app : list instr)
           (labels : Z -> option Z) (st : arch) : mres * bool :=
  match init3 par ord app st with
  | Ok s => match run3_st fuel app labels ord s with
            | inl r => r
            | inr s' => (MOutOfFuel, x_os (t_x s'))
            end
  | _ => (MPanic, false)
  end.

Definition mvp63_run (par : nat) (ord : Z -> Z -> list Z -> list Z) (fuel : nat) (app : list instr)
           (labels : Z -> option Z) (st : arch) : mres :=
  fst (mvp63_run_os par ord fuel app labels st).

(* the same, but a run that exhausts its fuel returns what the Go harness can see of ctx at that moment:
   (cycle, Registers, Memory, PendingWriteRegisters, PendingReadRegisters) - ctx.Registers still holds the
   initial values - and, for debugging, the speculative register file (what registerRead returns) *)
Definition mvp63_run_snap (par : nat) (ord : Z -> Z -> list Z -> list Z) (fuel : nat) (app : list instr)
           (labels : Z -> option Z) (st : arch) : (mres * bool) + (Z * arch * list Z * list Z * bool * list Z) :=
  match init3 par ord app st with
  | Ok s =>
      match run3_st fuel app labels ord s with
      | inl r => inl r
      | inr s' =>
          let x := t_x s' in
          inr (t_cycle s', mk_arch (m_regs (x_m x)) (m_mem (x_m x)), m_pw (x_m x), m_pr (x_m x), x_os x,
               map (fun k => reg_read3 (0, 0) (x_crat x) (x_trat x) (Z.of_nat k)) (seq 0 32))
      end
  | _ => inl (MPanic, false)
  end.
