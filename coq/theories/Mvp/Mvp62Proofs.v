(* Simple facts about the cycle-level model of MVP-6.2 (Mvp62.v).
   1. mvp62_cycles_pos: a run that returns reports at least one cycle (as MVP-6.0).
      mvp62_flush_loop_error_witness: an error of Runner.Run inside the flush loop ends
      Run with that error (`return 0, resp.err` since commit 1ed8ef8; before it the loop
      did `return 0, nil` and the harness printed `ok c=0 r=6:7 m=` for this program).
   2. run62_ord_irrelevant: soundness of the ghost flag with respect to the
      iteration order of the stores' MemoryChanges maps, as for MVP-6.0.
   3. mvp62_one_slot_witness: the one-slot transaction map loses an architectural
      register value (a wrong-path write replaces the pending older value, the
      rollback then drops the slot).
   4. cu62_dispatch_bound: controlUnit.cycle never fills the execute bus beyond its
      buffer length; the number of instructions dispatched per cycle is at most the
      free room of that buffer, at most busSize = 2 whatever the parallelism. *)
From Coq Require Import ZArith List Bool Lia.
From Maj Require Import Base.Outcome Base.GoInt Base.GoTypes Isa.Spec Isa.Seq.
From Maj Require Import Gen.Latency Gen.RiscTables Gen.Opcodes Comp.Cache Mvp.Mvp12 Mvp.Mvp3 Mvp.Mvp5 Mvp.Mvp60 Mvp.Mvp60Proofs Mvp.Mvp62.
From Maj Require Comp.Rat Comp.Tx.
Import ListNotations.
Open Scope Z_scope.

(* ------------------------------------------------------------------ *)
(* 1. cycles                                                            *)
(* ------------------------------------------------------------------ *)

Lemma finish62_ge : forall m cycle c st, finish62 m cycle = MDone c st -> cycle <= c.
Proof.
  intros m cycle c st H. unfold finish62 in H.
  destruct (flush_lines (lines (n_l3 m)) (n_mem m) 0) as [[mem' c']| |] eqn:E; try discriminate.
  inversion H; subst. apply flush_lines_ge in E. lia.
Qed.

Lemma ret_check62_done : forall s c st os, ret_check62 s = TDone (MDone c st) os -> t_cycle s <= c.
Proof.
  intros s c st os H. unfold ret_check62 in H.
  destruct (_ && _) in H; try discriminate. inversion H as [[HF HO]]. now apply finish62_ge in HF.
Qed.

Lemma ret_check62_cont : forall s s', ret_check62 s = TCont s' -> t_cycle s' = t_cycle s.
Proof.
  intros s s' H. unfold ret_check62 in H.
  destruct (_ && _) in H; try discriminate. inversion H; reflexivity.
Qed.

Lemma flush_adv62_res : forall s k sq pc fromc ie,
  exists s', flush_adv62 s k sq pc fromc ie = TCont s' /\ t_cycle s <= t_cycle s'.
Proof.
  intros. unfold flush_adv62.
  destruct (flush_next _ _ _); [|destruct ie]; eexists; split; try reflexivity; simpl; unfold Flush; lia.
Qed.

Lemma res_of62_inv : forall A os (o : outcome A) k r,
  res_of62 os o k = r ->
  (exists x, o = Ok x /\ k x = r) \/ (exists e, o = Err e /\ r = TDone (MErr e) os) \/ (o = Panic /\ r = TDone MPanic os).
Proof. intros A os o k r H. destruct o; simpl in H; eauto. Qed.

Ltac res_step62 H x :=
  apply res_of62_inv in H;
  destruct H as [[x [? H]] | [[? [? H]] | [? H]]]; [ | discriminate H | discriminate H ].

Lemma back62_done : forall s cycle os x c st os',
  back62 s cycle os x = TDone (MDone c st) os' -> cycle <= c.
Proof.
  intros s cycle os [[m eus1] o] c st os' H. unfold back62 in H.
  res_step62 H r. destruct r as [m2 wus1].
  destruct (p_ret o).
  - apply ret_check62_done in H. simpl in H. lia.
  - destruct (p_flush o); try discriminate.
    destruct (is_empty62 m2 eus1 wus1); try discriminate.
    inversion H as [[HF HO]]. now apply finish62_ge in HF.
Qed.

Lemma back62_cont : forall s cycle os x s',
  back62 s cycle os x = TCont s' -> cycle <= t_cycle s'.
Proof.
  intros s cycle os [[m eus1] o] s' H. unfold back62 in H.
  res_step62 H r. destruct r as [m2 wus1].
  destruct (p_ret o).
  - apply ret_check62_cont in H. simpl in H. lia.
  - destruct (p_flush o).
    + inversion H; subst; simpl; lia.
    + destruct (is_empty62 m2 eus1 wus1); try discriminate.
      inversion H; subst; simpl; lia.
Qed.

(* a step either ends with a cycle count above the current one, or continues with a cycle count
   that did not decrease *)
Lemma step62_done : forall app labels ord s c st os,
  step62 app labels ord s = TDone (MDone c st) os -> t_cycle s + 1 <= c.
Proof.
  intros app labels ord s c st os H. unfold step62 in H.
  destruct (t_mode s) eqn:Em.
  - res_step62 H mg. destruct mg as [m1 g].
    destruct (eus_main62 _ _ _ _ _ _) as [os1 re]. res_step62 H x. now apply back62_done in H.
  - destruct (eus_drain62 _ _ _ _ _) as [os1 re]. res_step62 H x. res_step62 H r. destruct r as [m2 wus1].
    apply ret_check62_done in H. simpl in H. lia.
  - destruct (eus_inner62 _ _ _ _ _ _ _) as [os1 re].
    destruct re as [[[[m1 eus1] sq1] pc1]| |].
    + match type of H with flush_adv62 ?a ?b ?c ?d ?e ?f = _ =>
        destruct (flush_adv62_res a b c d e f) as [s' [E _]]; rewrite E in H; discriminate end.
    + discriminate.
    + discriminate.
  - destruct (nth_error (t_wus s) k); try discriminate.
    res_step62 H x.
    match type of H with flush_adv62 ?a ?b ?c ?d ?e ?f = _ =>
      destruct (flush_adv62_res a b c d e f) as [s' [E _]]; rewrite E in H; discriminate end.
Qed.

Lemma step62_cont : forall app labels ord s s',
  step62 app labels ord s = TCont s' -> t_cycle s <= t_cycle s'.
Proof.
  intros app labels ord s s' H. unfold step62 in H.
  destruct (t_mode s) eqn:Em.
  - res_step62 H mg. destruct mg as [m1 g].
    destruct (eus_main62 _ _ _ _ _ _) as [os1 re]. res_step62 H x. apply back62_cont in H. lia.
  - destruct (eus_drain62 _ _ _ _ _) as [os1 re]. res_step62 H x. res_step62 H r. destruct r as [m2 wus1].
    apply ret_check62_cont in H. simpl in H. lia.
  - destruct (eus_inner62 _ _ _ _ _ _ _) as [os1 re].
    destruct re as [[[[m1 eus1] sq1] pc1]| |]; try discriminate.
    match type of H with flush_adv62 ?a ?b ?c ?d ?e ?f = _ =>
      destruct (flush_adv62_res a b c d e f) as [s2 [E L]]; rewrite E in H; inversion H; subst; simpl in L; lia end.
  - destruct (nth_error (t_wus s) k); try discriminate.
    res_step62 H x.
    match type of H with flush_adv62 ?a ?b ?c ?d ?e ?f = _ =>
      destruct (flush_adv62_res a b c d e f) as [s2 [E L]]; rewrite E in H; inversion H; subst; simpl in L; lia end.
Qed.

Lemma run62_st_cycles : forall fuel app labels ord s c st os,
  run62_st fuel app labels ord s = inl (MDone c st, os) -> t_cycle s + 1 <= c.
Proof.
  induction fuel as [|f IH]; intros app labels ord s c st os H; simpl in H; try discriminate.
  destruct (step62 app labels ord s) as [r os'|s'] eqn:E.
  - inversion H; subst. now apply step62_done in E.
  - apply step62_cont in E. apply IH in H. lia.
Qed.

Theorem mvp62_cycles_pos : forall par ord fuel app labels st c st',
  mvp62_run par ord fuel app labels st = MDone c st' -> 1 <= c.
Proof.
  intros par ord fuel app labels st c st' H. unfold mvp62_run in H.
  destruct (mvp62_run_os par ord fuel app labels st) as [r os] eqn:E. simpl in H. subst r.
  unfold mvp62_run_os, init62 in E.
  destruct (new_cache l1LineSize l1Size); try discriminate.
  destruct (new_cache l3LineSize l3Size); try discriminate.
  match type of E with match run62_st ?f ?a ?l ?o ?s with _ => _ end = _ =>
    destruct (run62_st f a l o s) as [r1|s1] eqn:E1; [|discriminate] end.
  subst r1. apply run62_st_cycles in E1. simpl in E1. lia.
Qed.

(* li t1,7; nop x5; lw t0,0(zero); div t2,t1,t0; beq zero,zero,L1; li t3,1; L1: ret
   on a 64-byte zero memory, parallelism 3: the load misses, the division waits for the forwarded
   value of the load, the branch behind them is mispredicted; the division by zero happens INSIDE
   the flush loop, which returns the error *)
Definition zero_prog : list instr :=
  [I_li (mk_li 6 7); I_nop mk_nop; I_nop mk_nop; I_nop mk_nop; I_nop mk_nop; I_nop mk_nop;
   I_lw (mk_lw 5 0 0); I_div (mk_div 7 6 5); I_beq (mk_beq 0 0 1); I_li (mk_li 28 1); I_ret mk_ret].
Definition zero_labels (l : Z) : option Z := if l =? 1 then Some 40 else None.

Theorem mvp62_flush_loop_error_witness :
  mvp62_run 3 (ord_policy 0) 1000 zero_prog zero_labels (mk_arch (repeat 0 32) (repeat 0 64)) = MErr EDivZero
  /\ mvp62_run 3 (ord_policy 0) 627 zero_prog zero_labels (mk_arch (repeat 0 32) (repeat 0 64)) = MOutOfFuel.
Proof. split; vm_compute; reflexivity. Qed.

(* ------------------------------------------------------------------ *)
(* 2. the ghost flag is sound w.r.t. the iteration order of the stores' *)
(*    MemoryChanges maps                                                *)
(* ------------------------------------------------------------------ *)

Lemma eu_run_exe62_ord : forall ord1 ord2 cycle m e r exe,
  ord_ok ord1 -> ord_ok ord2 ->
  negb (Return exe) && MemoryChange exe &&
    store_order_matters (n_l3 m) (n_pend m) (map fst (sort_changes (MemoryChanges exe))) = false ->
  eu_run_exe62 ord1 cycle m e r exe = eu_run_exe62 ord2 cycle m e r exe.
Proof.
  intros ord1 ord2 cycle m e r exe O1 O2 H. unfold eu_run_exe62.
  destruct (Return exe); [reflexivity|].
  destruct (MemoryChange exe); [|reflexivity].
  simpl in H.
  f_equal.
  apply l3_same_bind with (r0 := get_from_l3 (n_l3 m) (n_pend m) (map fst (sort_changes (MemoryChanges exe))) []).
  - apply som_false; auto.
  - apply som_false; auto.
  - intros; reflexivity.
Qed.

(* fw_set changes neither L3 nor the pendings *)
Lemma fw_set_l3 : forall m i f, n_l3 (fw_set m i f) = n_l3 m /\ n_pend (fw_set m i f) = n_pend m.
Proof. intros. split; reflexivity. Qed.

Lemma eu_run62_ord : forall labels ord1 ord2 cycle m e,
  ord_ok ord1 -> ord_ok ord2 -> fst (eu_run62 labels ord1 cycle m e) = false ->
  eu_run62 labels ord1 cycle m e = eu_run62 labels ord2 cycle m e.
Proof.
  intros labels ord1 ord2 cycle m e O1 O2 H. unfold eu_run62 in *.
  destruct (x_runner e); [|reflexivity].
  destruct (instr_Run _ _ _ _ _ _); try reflexivity.
  simpl in H. f_equal. apply eu_run_exe62_ord; auto.
Qed.

Lemma eu_prepare62_ord : forall labels ord1 ord2 cycle m e,
  ord_ok ord1 -> ord_ok ord2 -> fst (eu_prepare62 labels ord1 cycle m e) = false ->
  eu_prepare62 labels ord1 cycle m e = eu_prepare62 labels ord2 cycle m e.
Proof.
  intros labels ord1 ord2 cycle m e O1 O2 H. unfold eu_prepare62 in *.
  destruct (negb (bb_canadd (n_wbus m))); [reflexivity|].
  destruct (x_runner e) as [r|]; [|reflexivity].
  destruct (match q_recv r with None => _ | Some _ => _ end) as [[m0 r0]|]; [|reflexivity].
  destruct (instr_MemoryRead _ _ _); [|reflexivity].
  now apply eu_run62_ord.
Qed.

Lemma eu_cycle62_ord : forall labels ord1 ord2 cycle m e,
  ord_ok ord1 -> ord_ok ord2 -> fst (eu_cycle62 labels ord1 cycle m e) = false ->
  eu_cycle62 labels ord1 cycle m e = eu_cycle62 labels ord2 cycle m e.
Proof.
  intros labels ord1 ord2 cycle m e O1 O2 H. unfold eu_cycle62 in *.
  destruct (pre_flush e); [reflexivity|].
  destruct (x_co e).
  - destruct (bb_get (n_ebus m)) as [ebus' [r|]]; [|reflexivity]. now apply eu_prepare62_ord.
  - now apply eu_prepare62_ord.
  - destruct (0 <? rem); [reflexivity|]. now apply eu_run62_ord.
  - destruct (0 <? rem); [reflexivity|].
    destruct (eu_fill62 m e addrs) as [[m1 e1]| |]; try reflexivity. now apply eu_run62_ord.
Qed.

Lemma eus_main62_ord : forall labels ord1 ord2 cycle eus m acc,
  ord_ok ord1 -> ord_ok ord2 -> fst (eus_main62 labels ord1 cycle m eus acc) = false ->
  eus_main62 labels ord1 cycle m eus acc = eus_main62 labels ord2 cycle m eus acc.
Proof.
  intros labels ord1 ord2 cycle eus. induction eus as [|e t IH]; intros m acc O1 O2 H; [reflexivity|].
  simpl in *.
  destruct (eu_cycle62 labels ord1 cycle m (eu_set_seq (p_seq acc) e)) as [os1 r1] eqn:E1.
  assert (os1 = false) as Hos1.
  { destruct r1 as [[[m1 e1] o]| |]; simpl in H; auto.
    destruct (eus_main62 labels ord1 cycle m1 t _) as [os2 r]. simpl in H.
    apply orb_false_iff in H. tauto. }
  subst os1.
  rewrite <- (eu_cycle62_ord labels ord1 ord2 cycle m _ O1 O2) by (rewrite E1; reflexivity). rewrite E1.
  destruct r1 as [[[m1 e1] o]| |]; try reflexivity.
  match goal with |- context [eus_main62 labels ord1 cycle m1 t ?a] =>
    destruct (eus_main62 labels ord1 cycle m1 t a) as [os2 r] eqn:E2;
    simpl in H; subst os2;
    rewrite <- (IH m1 a O1 O2) by (rewrite E2; reflexivity); rewrite E2 end.
  reflexivity.
Qed.

Lemma eus_drain62_ord : forall labels ord1 ord2 cycle eus m,
  ord_ok ord1 -> ord_ok ord2 -> fst (eus_drain62 labels ord1 cycle m eus) = false ->
  eus_drain62 labels ord1 cycle m eus = eus_drain62 labels ord2 cycle m eus.
Proof.
  intros labels ord1 ord2 cycle eus. induction eus as [|e t IH]; intros m O1 O2 H; [reflexivity|].
  simpl in *. destruct (eu_empty62 e).
  - destruct (eus_drain62 labels ord1 cycle m t) as [os r] eqn:E1.
    simpl in H. subst os.
    rewrite <- (IH m O1 O2) by (rewrite E1; reflexivity). rewrite E1. reflexivity.
  - destruct (eu_cycle62 labels ord1 cycle m e) as [os1 r1] eqn:E1.
    assert (os1 = false) as Hos1.
    { destruct r1 as [[[m1 e1] o]| |]; simpl in H; auto.
      destruct (eus_drain62 labels ord1 cycle m1 t) as [os2 r]. simpl in H.
      apply orb_false_iff in H. tauto. }
    subst os1.
    rewrite <- (eu_cycle62_ord labels ord1 ord2 cycle m e O1 O2) by (rewrite E1; reflexivity). rewrite E1.
    destruct r1 as [[[m1 e1] o]| |]; try reflexivity.
    destruct (eus_drain62 labels ord1 cycle m1 t) as [os2 r] eqn:E2.
    simpl in H. subst os2.
    rewrite <- (IH m1 O1 O2) by (rewrite E2; reflexivity). rewrite E2. reflexivity.
Qed.

Lemma eus_inner62_ord : forall labels ord1 ord2 fromc eus m sq pc,
  ord_ok ord1 -> ord_ok ord2 -> fst (eus_inner62 labels ord1 fromc m eus sq pc) = false ->
  eus_inner62 labels ord1 fromc m eus sq pc = eus_inner62 labels ord2 fromc m eus sq pc.
Proof.
  intros labels ord1 ord2 fromc eus. induction eus as [|e t IH]; intros m sq pc O1 O2 H; [reflexivity|].
  simpl in *. destruct (eu_empty62 e).
  - destruct (eus_inner62 labels ord1 fromc m t sq pc) as [os r] eqn:E1.
    simpl in H. subst os.
    rewrite <- (IH m sq pc O1 O2) by (rewrite E1; reflexivity). rewrite E1. reflexivity.
  - destruct (eu_cycle62 labels ord1 fromc m e) as [os1 r1] eqn:E1.
    assert (os1 = false) as Hos1.
    { destruct r1 as [[[m1 e1] o]| |]; simpl in H; auto.
      destruct (eus_inner62 labels ord1 fromc m1 t _ _) as [os2 r]. simpl in H.
      apply orb_false_iff in H. tauto. }
    subst os1.
    rewrite <- (eu_cycle62_ord labels ord1 ord2 fromc m e O1 O2) by (rewrite E1; reflexivity). rewrite E1.
    destruct r1 as [[[m1 e1] o]| |]; try reflexivity.
    match goal with |- context [eus_inner62 labels ord1 fromc m1 t ?a ?b] =>
      destruct (eus_inner62 labels ord1 fromc m1 t a b) as [os2 r] eqn:E2;
      simpl in H; subst os2;
      rewrite <- (IH m1 a b O1 O2) by (rewrite E2; reflexivity); rewrite E2 end.
    reflexivity.
Qed.

(* the flag a step ends with *)
Definition res_os62 (r : step_res62) : bool := match r with TDone _ os => os | TCont s' => t_os s' end.

Lemma res_of62_os : forall A os (o : outcome A) k,
  (forall x, res_os62 (k x) = os) -> res_os62 (res_of62 os o k) = os.
Proof. intros A os o k H. destruct o; simpl; auto. Qed.

Lemma ret_check62_os : forall s, res_os62 (ret_check62 s) = t_os s.
Proof. intros s. unfold ret_check62. destruct (_ && _); reflexivity. Qed.

Lemma flush_adv62_os : forall s k sq pc fromc ie, res_os62 (flush_adv62 s k sq pc fromc ie) = t_os s.
Proof. intros. unfold flush_adv62. destruct (flush_next _ _ _); [|destruct ie]; reflexivity. Qed.

Lemma back62_os : forall s cycle os x, res_os62 (back62 s cycle os x) = os.
Proof.
  intros s cycle os [[m eus1] o]. unfold back62. apply res_of62_os. intros [m2 wus1].
  destruct (p_ret o); [apply ret_check62_os|].
  destruct (p_flush o); [reflexivity|].
  destruct (is_empty62 m2 eus1 wus1); reflexivity.
Qed.

Lemma step62_ord : forall app labels ord1 ord2 s,
  ord_ok ord1 -> ord_ok ord2 -> res_os62 (step62 app labels ord1 s) = false ->
  step62 app labels ord1 s = step62 app labels ord2 s /\ t_os s = false.
Proof.
  intros app labels ord1 ord2 s O1 O2 H. unfold step62 in *.
  destruct (t_mode s).
  - destruct (front62 app (t_cycle s + 1) (t_m s)) as [[m1 g]| |]; cbn [res_of62] in *; auto.
    destruct (eus_main62 labels ord1 (t_cycle s + 1) m1 (t_eus s) euo62_none) as [os1 re] eqn:E1.
    pose proof (eus_main62_ord labels ord1 ord2 (t_cycle s + 1) (t_eus s) m1 euo62_none O1 O2) as HE.
    rewrite E1 in HE. cbn [fst] in HE.
    rewrite res_of62_os in H by (intros x; apply back62_os).
    apply orb_false_iff in H. destruct H as [Hs Ho]. apply orb_false_iff in Hs. destruct Hs as [Hs Hg]. subst os1.
    rewrite <- HE by reflexivity. auto.
  - destruct (eus_drain62 labels ord1 (t_cycle s) (t_m s) (t_eus s)) as [os1 re] eqn:E1.
    pose proof (eus_drain62_ord labels ord1 ord2 (t_cycle s) (t_eus s) (t_m s) O1 O2) as HE.
    rewrite E1 in HE. cbn [fst] in HE.
    rewrite res_of62_os in H.
    2:{ intros x. apply res_of62_os. intros [m2 wus1]. apply ret_check62_os. }
    apply orb_false_iff in H. destruct H as [Hs Ho]. subst os1.
    rewrite <- HE by reflexivity. auto.
  - destruct (eus_inner62 labels ord1 fromc (t_m s) (t_eus s) sq pc) as [os1 re] eqn:E1.
    pose proof (eus_inner62_ord labels ord1 ord2 fromc (t_eus s) (t_m s) sq pc O1 O2) as HE.
    rewrite E1 in HE. cbn [fst] in HE.
    assert (t_os s || os1 = false) as Hor.
    { destruct re as [[[[m1 eus1] sq1] pc1]| |]; cbn [res_os62] in H; auto.
      rewrite flush_adv62_os in H. exact H. }
    apply orb_false_iff in Hor. destruct Hor as [Hs Ho]. subst os1.
    rewrite <- HE by reflexivity. auto.
  - split; [reflexivity|].
    destruct (nth_error (t_wus s) k); [|exact H].
    rewrite res_of62_os in H; auto. intros x. rewrite flush_adv62_os. reflexivity.
Qed.

(* the flag a run ends with *)
Definition final_os62 (r : (mres * bool) + st62) : bool :=
  match r with inl (_, os) => os | inr s' => t_os s' end.

Theorem run62_st_ord_irrelevant : forall fuel app labels ord1 ord2 s,
  ord_ok ord1 -> ord_ok ord2 -> final_os62 (run62_st fuel app labels ord1 s) = false ->
  run62_st fuel app labels ord1 s = run62_st fuel app labels ord2 s /\ t_os s = false.
Proof.
  induction fuel as [|f IH]; intros app labels ord1 ord2 s O1 O2 H; simpl in *; [auto|].
  destruct (step62 app labels ord1 s) as [r os|s'] eqn:E.
  - simpl in H. subst os.
    destruct (step62_ord app labels ord1 ord2 s O1 O2) as [E2 Hs]; [rewrite E; reflexivity|].
    rewrite <- E2, E. auto.
  - destruct (IH app labels ord1 ord2 s' O1 O2 H) as [R Hs'].
    destruct (step62_ord app labels ord1 ord2 s O1 O2) as [E2 Hs]; [rewrite E; exact Hs'|].
    rewrite <- E2, E. auto.
Qed.

(* a run of MVP-6.2 that ends with the ghost flag clear returns the same result
   whatever the iteration orders of the stores' MemoryChanges maps *)
Theorem run62_ord_irrelevant : forall par fuel app labels st ord1 ord2 r,
  ord_ok ord1 -> ord_ok ord2 ->
  mvp62_run_os par ord1 fuel app labels st = (r, false) ->
  mvp62_run_os par ord2 fuel app labels st = (r, false).
Proof.
  intros par fuel app labels st ord1 ord2 r O1 O2 H. unfold mvp62_run_os in *.
  destruct (init62 par st) as [s| |]; auto.
  destruct (run62_st_ord_irrelevant fuel app labels ord1 ord2 s O1 O2) as [E _].
  - destruct (run62_st fuel app labels ord1 s) as [[r1 os1]|s1]; inversion H; reflexivity.
  - rewrite <- E. exact H.
Qed.

(* ------------------------------------------------------------------ *)
(* 3. the one-slot transaction map loses a register value               *)
(* ------------------------------------------------------------------ *)

(* li a3,1976; slt s2,t0,a3; lw t3,12(a3); ble t3,a1,L4; srai s2,t6,-1; L4:
   sequentially s2 = 1 (0 < 1976) and the srai is jumped over.  At parallelism 3 the srai behind the
   slow branch executes on the wrong path and its result replaces the slot of s2 in the transaction
   map (holding the value 1 of slt, not yet committed); the taken branch rolls the map back and drops
   the slot: s2 ends 0. *)
Definition slot_prog : list instr :=
  [I_li (mk_li 13 1976); I_slt (mk_slt 18 5 13); I_lw (mk_lw 28 12 13); I_ble (mk_ble 28 11 4); I_srai (mk_srai 18 31 (-1))].
Definition slot_labels (l : Z) : option Z := if l =? 4 then Some 20 else None.

Theorem mvp62_one_slot_witness :
  exists c st', mvp62_run 3 (ord_policy 0) 2000 slot_prog slot_labels (mk_arch (repeat 0 32) (repeat 0 2048)) = MDone c st'
              /\ nth 13 (regs st') 0 = 1976 /\ nth 18 (regs st') 0 = 0.
Proof. eexists. eexists. split; [vm_compute; reflexivity|]. split; reflexivity. Qed.

(* ------------------------------------------------------------------ *)
(* 4. dispatch width of the control unit                                *)
(* ------------------------------------------------------------------ *)

(* number of entries in the buffer of the execute bus / its bufferLength *)
Definition ebuf2 (m : mach2) : Z := zlen (bb_buf (n_ebus m)).
Definition ebl2 (m : mach2) : Z := bb_bl (n_ebus m).

Lemma zlen_map : forall A B (f : A -> B) l, zlen (map f l) = zlen l.
Proof. intros. unfold zlen. now rewrite map_length. Qed.

Lemma push_runner62_spec : forall m cycle r m' r',
  push_runner62 m cycle r = Some (m', r') ->
  ebl2 m' = ebl2 m /\ ebuf2 m' = ebuf2 m + 1 /\ ebuf2 m <> ebl2 m.
Proof.
  intros m cycle r m' r' H. unfold push_runner62 in H.
  destruct (negb (bb_canadd (n_ebus m))) eqn:E; [discriminate|].
  inversion H; subst. unfold ebl2, ebuf2. simpl. rewrite zlen_app1.
  apply negb_false_iff in E. unfold bb_canadd in E. apply negb_true_iff in E. apply Z.eqb_neq in E.
  repeat split; auto.
Qed.

(* handleRunner: a push adds exactly one entry to the buffer of the execute bus, and only when it has room *)
Lemma handle_runner62_spec : forall m cycle l r push stop g m' l' r',
  handle_runner62 m cycle l r = (push, stop, g, m', l', r') ->
  ebl2 m' = ebl2 m /\ ebuf2 m' = ebuf2 m + (if push then 1 else 0) /\ (push = true -> ebuf2 m <> ebl2 m).
Proof.
  intros m cycle l r push stop g m' l' r' H. unfold handle_runner62 in H.
  destruct (_ && _) in H; [inversion H; subst; repeat split; try lia; discriminate|].
  destruct (_ && _) in H; [inversion H; subst; repeat split; try lia; discriminate|].
  destruct (skip_hazard _ _) in H; [inversion H; subst; repeat split; try lia; discriminate|].
  destruct (_ =? 0) in H.
  - destruct (push_runner62 m cycle r) as [[m1 r1]|] eqn:E.
    + apply push_runner62_spec in E. inversion H; subst. tauto.
    + inversion H; subst; repeat split; try lia; discriminate.
  - destruct (_ && _) in H; [|inversion H; subst; repeat split; try lia; discriminate].
    destruct (fwd_candidates (n_prev m) r) as [|[p reg] more]; [inversion H; subst; repeat split; try lia; discriminate|].
    match type of H with context [push_runner62 ?a ?b ?c] => destruct (push_runner62 a b c) as [[m1 r1]|] eqn:E end.
    + apply push_runner62_spec in E. unfold ebl2, ebuf2 in E. simpl in E. rewrite zlen_map in E.
      inversion H; subst. unfold ebl2, ebuf2. tauto.
    + inversion H; subst. unfold ebl2, ebuf2. simpl. rewrite zlen_map. repeat split; try lia; discriminate.
Qed.

Lemma cu_after_push_ebus : forall m l r, n_ebus (fst (cu_after_push m l r)) = n_ebus m.
Proof. intros. unfold cu_after_push. simpl. destruct (InstructionType_IsConditionalBranch _); reflexivity. Qed.

Lemma cu_pending62_spec : forall ps kept m cycle l g stopped pend' m' l' g',
  cu_pending62 ps kept m cycle l g = (stopped, pend', m', l', g') ->
  ebuf2 m <= ebl2 m ->
  ebl2 m' = ebl2 m /\ ebuf2 m <= ebuf2 m' <= ebl2 m.
Proof.
  induction ps as [|r t IH]; intros kept m cycle l g stopped pend' m' l' g' H Hb; simpl in H.
  - inversion H; subst. repeat split; lia.
  - destruct (handle_runner62 m cycle l r) as [[[[[push stop] g1] m1] l1] r1] eqn:E.
    apply handle_runner62_spec in E. destruct E as [E1 [E2 E3]].
    assert (ebl2 (fst (if push then cu_after_push m1 l1 r1 else (m1, mk_cul (c_cur l1) (c_skip l1 ++ [r1]) (c_pb l1)))) = ebl2 m /\
            ebuf2 (fst (if push then cu_after_push m1 l1 r1 else (m1, mk_cul (c_cur l1) (c_skip l1 ++ [r1]) (c_pb l1)))) = ebuf2 m1) as [F1 F2].
    { unfold ebl2, ebuf2 in *. destruct push; [rewrite cu_after_push_ebus|]; simpl; auto. }
    destruct (if push then cu_after_push m1 l1 r1 else (m1, mk_cul (c_cur l1) (c_skip l1 ++ [r1]) (c_pb l1))) as [m2 l2].
    simpl in F1, F2.
    assert (ebuf2 m2 <= ebl2 m2 /\ ebuf2 m <= ebuf2 m2) as [G1 G2].
    { destruct push; [specialize (E3 eq_refl)|]; lia. }
    destruct stop.
    + inversion H; subst. repeat split; lia.
    + apply IH in H; auto. destruct H as [H1 H2]. repeat split; lia.
Qed.

Lemma cu_incoming62_spec : forall q pend m cycle l g q' pend' m' l' g',
  cu_incoming62 q pend m cycle l g = (q', pend', m', l', g') ->
  ebuf2 m <= ebl2 m ->
  ebl2 m' = ebl2 m /\ ebuf2 m <= ebuf2 m' <= ebl2 m.
Proof.
  induction q as [|r q IH]; intros pend m cycle l g q' pend' m' l' g' H Hb.
  - simpl in H. destruct (pendingLength <=? zlen pend) in H; inversion H; subst; repeat split; lia.
  - simpl in H. destruct (pendingLength <=? zlen pend) in H; [inversion H; subst; repeat split; lia|].
    destruct (handle_runner62 m cycle l r) as [[[[[push stop] g1] m1] l1] r1] eqn:E.
    apply handle_runner62_spec in E. destruct E as [E1 [E2 E3]].
    assert (ebl2 (fst (if push then cu_after_push m1 l1 r1 else (m1, mk_cul (c_cur l1) (c_skip l1 ++ [r1]) (c_pb l1)))) = ebl2 m /\
            ebuf2 (fst (if push then cu_after_push m1 l1 r1 else (m1, mk_cul (c_cur l1) (c_skip l1 ++ [r1]) (c_pb l1)))) = ebuf2 m1) as [F1 F2].
    { unfold ebl2, ebuf2 in *. destruct push; [rewrite cu_after_push_ebus|]; simpl; auto. }
    destruct (if push then cu_after_push m1 l1 r1 else (m1, mk_cul (c_cur l1) (c_skip l1 ++ [r1]) (c_pb l1))) as [m2 l2].
    simpl in F1, F2.
    assert (ebuf2 m2 <= ebl2 m2 /\ ebuf2 m <= ebuf2 m2) as [G1 G2].
    { destruct push; [specialize (E3 eq_refl)|]; lia. }
    destruct stop.
    + inversion H; subst. repeat split; lia.
    + apply IH in H; auto. destruct H as [H1 H2]. repeat split; lia.
Qed.

(* controlUnit.cycle never fills the execute bus beyond its buffer length: the number of instructions
   dispatched in one cycle (= the growth of the buffer) is at most the free room, itself at most
   bufferLength = busSize = 2 in NewCPU whatever the number of execute units *)
Theorem cu62_dispatch_bound : forall cycle m,
  ebuf2 m <= ebl2 m ->
  ebl2 (fst (cu_cycle62 cycle m)) = ebl2 m /\
  ebuf2 m <= ebuf2 (fst (cu_cycle62 cycle m)) <= ebl2 m.
Proof.
  intros cycle m Hb. unfold cu_cycle62.
  destruct (negb (bb_canadd (n_ebus m))); [simpl; unfold ebl2, ebuf2 in *; simpl; repeat split; lia|].
  destruct (cu_pending62 (n_cu m) [] m cycle (mk_cul [] [] false) false) as [[[[stopped pend1] m1] l1] g1] eqn:E1.
  apply cu_pending62_spec in E1; auto. destruct E1 as [A1 A2].
  destruct stopped.
  - unfold ebl2, ebuf2 in *. simpl. repeat split; lia.
  - destruct (cu_incoming62 (bb_q (n_cbus m1)) pend1 m1 cycle l1 g1) as [[[[q' pend2] m2] l2] g2] eqn:E2.
    apply cu_incoming62_spec in E2; [|lia]. destruct E2 as [B1 B2].
    unfold ebl2, ebuf2 in *. simpl. repeat split; lia.
Qed.

Corollary cu62_dispatch_le_buslen : forall cycle m,
  ebuf2 m <= ebl2 m ->
  ebuf2 (fst (cu_cycle62 cycle m)) - ebuf2 m <= ebl2 m.
Proof.
  intros cycle m Hb. destruct (cu62_dispatch_bound cycle m Hb) as [_ H].
  pose proof (zlen_nonneg _ (bb_buf (n_ebus m))). unfold ebuf2 in *. lia.
Qed.
