(* The MVP-5 model on a program whose stores hit in the L1D is, cycle for cycle, its
   skeleton (Mvp5mSkel.v) plus the values of the sequential machine; the L1D + memory
   of the model are related to the sequential memory by the invariant VInv of
   Mvp3Proofs.v.  The cache lemmas, the sequential runs as event lists (sexecm) and
   exec_cases_m are those of Mvp4mSim.v. *)
From Coq Require Import ZArith List Bool Lia.
From Maj Require Import Base.Outcome Base.GoInt Base.GoTypes Isa.Spec Isa.Embed Isa.Seq Isa.Refine.
From Maj Require Import Gen.Latency Gen.RiscTables Gen.Opcodes Comp.Cache Comp.CacheSpec Comp.CacheProofs.
From Maj Require Import Mvp.Mvp12 Mvp.Mvp12Proofs Mvp.Mvp3 Mvp.Mvp3Proofs Mvp.Mvp4 Mvp.Mvp5
     Mvp.Mvp4Skel Mvp.Mvp4Inv Mvp.Mvp4Units Mvp.Mvp4Front Mvp.Mvp4Sim Mvp.Mvp4mSkel Mvp.Mvp4mInv Mvp.Mvp4mFront Mvp.Mvp4mSim
     Mvp.Mvp5Skel Mvp.Mvp5Inv Mvp.Mvp5Front Mvp.Mvp5Sim Mvp.Mvp5mSkel Mvp.Mvp5mFront.
Import ListNotations.
Open Scope Z_scope.

Ltac simpv := cbn [v_regs v_mem v_pw v_l1d v_eu v_wbus v_bu v_fu v_du] in *.

(* ------------------------------------------------------------------ *)
(* the execute unit against its skeleton                                *)

Lemma eu5_cycle_m_pending labels regs mem pw l1d ce wbus bu fu du ebus dt la e1 ebus2 dt1 act :
  eu_pending_read ce = true ->
  skm_eu (eu_erase ce) ebus pw dt la = (e1, ebus2, dt1, act) ->
  match act with
  | ANone =>
      eu5_cycle labels (mk_env5 regs mem pw l1d ce wbus bu fu du) ebus
      = inl (Ok (mk_env5 regs mem pw l1d (wait_eu ce) wbus bu fu du, ebus, eu_none)) /\
      e1 = eu_erase (wait_eu ce) /\ dt1 = dt /\ ebus2 = ebus
  | AExec i pc =>
      ebus2 = ebus /\
      e1 = eu_done (mk_eu (eu_processing ce) false (eu_addrs ce) None (eu_remaining ce - 1) (eu_runner ce)) /\
      eu5_cycle labels (mk_env5 regs mem pw l1d ce wbus bu fu du) ebus
      = match load_got l1d mem ce with
        | Ok (d', mem', bytes) =>
            eu5_post (eu5_run labels (mk_env5 regs mem' pw d'
                                             (mk_eu (eu_processing ce) false (eu_addrs ce) None (eu_remaining ce - 1) (eu_runner ce))
                                             wbus bu fu du) i pc bytes) ebus
        | Err er => inl (Err er)
        | Panic => inl Panic
        end
  | AStuck => True
  end.
Proof.
  intros Hpr. unfold skm_eu, eu5_cycle, load_got, set_rem, wait_eu, set_eu.
  cbn [eu_erase eu_pending_read eu_remaining eu_runner eu_memory eu_addrs eu_processing v_regs v_mem v_pw v_l1d v_eu v_wbus v_bu v_fu v_du].
  rewrite Hpr.
  destruct (negb (eu_remaining ce - 1 =? 0)).
  - intros H. injection H as <- <- <- <-. repeat split; reflexivity.
  - destruct (eu_runner ce) as [[i pc]|] eqn:Er.
    + intros H. injection H as <- <- <- <-. split; [reflexivity|]. split; [reflexivity|].
      destruct (eu_memory ce) as [m|]; [reflexivity|].
      destruct (eu_addrs ce) as [|a0 t]; reflexivity.
    + intros H. injection H as <- <- <- <-. exact I.
Qed.

(* the execute unit with no load in flight: count down, stall, issue a load, or execute *)
Lemma eu5_cycle_m_idle labels regs mem pw l1d ce wbus tc ex btb fu du ebus dt la d1 bytes e1 ebus2 dt1 act :
  eu_pending_read ce = false -> eu_memory ce = None -> sbus_can_add wbus = true ->
  (forall i pc, hd_error (q_eu ce ++ q_sb ebus) = Some (i, pc) ->
                pw_hazard pw (instr_ReadRegisters i) = false -> instr_MemoryRead i (rget regs) 0 = la) ->
  (la <> [] -> get_all l1d la [] = Ok (d1, if snd (a_get_all dt la) then Some bytes else None)) ->
  skm_eu ce ebus pw dt la = (e1, ebus2, dt1, act) ->
  match act with
  | ANone =>
      exists tc' ex' ce1 l1d',
        eu5_cycle labels (mk_env5 regs mem pw l1d ce wbus (mk_bu5 tc ex btb) fu du) ebus
        = inl (Ok (mk_env5 regs mem pw l1d' ce1 wbus (mk_bu5 tc' ex' btb) (sk5_assert fu btb (issue_m ce ebus)) du, ebus2, eu_none)) /\
        eu_erase ce1 = e1 /\
        ((l1d' = l1d /\ dt1 = dt /\ eu_pending_read ce1 = false /\ eu_memory ce1 = eu_memory ce) \/
         (la <> [] /\ l1d' = d1 /\ dt1 = fst (a_get_all dt la) /\ eu_pending_read ce1 = true /\
          eu_memory ce1 = (if snd (a_get_all dt la) then Some bytes else eu_memory ce)))
  | AExec i pc =>
      la = [] /\ dt1 = dt /\
      exists e2, e1 = eu_done e2 /\ pw_hazard pw (instr_ReadRegisters i) = false /\
        hd_error (q_eu ce ++ q_sb ebus) = Some (i, pc) /\ issue_m ce ebus = Some (i, pc) /\
        eu5_cycle labels (mk_env5 regs mem pw l1d ce wbus (mk_bu5 tc ex btb) fu du) ebus
        = eu5_post (eu5_run labels (bu5_assert (mk_env5 regs mem pw l1d e2 wbus (mk_bu5 tc ex btb) fu du) i pc) i pc []) ebus2
  | AStuck => True
  end.
Proof.
  intros Hpr Hm Hadd Hmr Hga. unfold skm_eu, eu5_cycle, issue_m, eu_issue, eu_intake, set_rem, eu_erase, set_eu.
  cbn [v_regs v_mem v_pw v_l1d v_eu v_wbus v_bu v_fu v_du].
  rewrite Hpr, Hadd, Hm. unfold q_eu in Hmr.
  destruct (eu_processing ce) eqn:Ep.
  - cbn [negb]. destruct (negb (eu_remaining ce - 1 =? 0)).
    + intros H. injection H as <- <- <- <-. do 4 eexists. split; [reflexivity|].
      split; [cbn; rewrite ?Hpr, ?Hm; reflexivity|]. left. auto.
    + destruct (eu_runner ce) as [[i pc]|] eqn:Er; [|intros H; injection H as <- <- <- <-; exact I].
      destruct (pw_hazard pw (instr_ReadRegisters i)) eqn:Ehz.
      * intros H. injection H as <- <- <- <-. rewrite bu5_assert_eq. simpv.
        do 4 eexists. split; [reflexivity|].
        split; [cbn; rewrite ?Hpr, ?Hm; reflexivity|]. left. auto.
      * rewrite (Hmr i pc eq_refl Ehz).
        destruct la as [|a0 la'].
        -- intros H. injection H as <- <- <- <-. split; [reflexivity|]. split; [reflexivity|].
           eexists. split; [reflexivity|]. split; [exact Ehz|]. split; [unfold q_eu; rewrite ?Ep, ?Er; reflexivity|].
           split; reflexivity.
        -- rewrite bu5_assert_eq. simpv. rewrite (Hga ltac:(discriminate)).
           destruct (snd (a_get_all dt (a0 :: la'))); intros H; injection H as <- <- <- <-;
             do 4 eexists; (split; [reflexivity|]); (split; [cbn; rewrite ?Hpr, ?Hm; reflexivity|]);
             right; (split; [discriminate|]); auto.
  - destruct ebus as [ep ec]. unfold sbus_get. cbn [sb_current sb_pending q_sb] in *.
    destruct ec as [[i pc]|].
    + cbn [negb eu_remaining eu_runner eu_processing eu_pending_read eu_addrs eu_memory].
      fold (cyc_of i).
      destruct (negb (cyc_of i - 1 =? 0)).
      * intros H. injection H as <- <- <- <-. do 4 eexists. split; [reflexivity|].
        split; [cbn; rewrite ?Hpr, ?Hm; reflexivity|]. left. auto.
      * destruct (pw_hazard pw (instr_ReadRegisters i)) eqn:Ehz.
        -- intros H. injection H as <- <- <- <-. rewrite bu5_assert_eq. simpv.
           do 4 eexists. split; [reflexivity|].
           split; [cbn; rewrite ?Hpr, ?Hm; reflexivity|]. left. auto.
        -- rewrite (Hmr i pc eq_refl Ehz).
           destruct la as [|a0 la'].
           ++ intros H. injection H as <- <- <- <-. split; [reflexivity|]. split; [reflexivity|].
              eexists. split; [reflexivity|]. split; [exact Ehz|]. split; [unfold q_eu; rewrite ?Ep; reflexivity|].
              split; reflexivity.
           ++ rewrite bu5_assert_eq. simpv. rewrite (Hga ltac:(discriminate)).
              destruct (snd (a_get_all dt (a0 :: la'))); intros H; injection H as <- <- <- <-;
                do 4 eexists; (split; [reflexivity|]); (split; [cbn; rewrite ?Hpr, ?Hm; reflexivity|]);
                right; (split; [discriminate|]); auto.
    + cbn [negb]. intros H. injection H as <- <- <- <-. do 4 eexists. split; [reflexivity|].
      split; [destruct ce; cbn in *; subst; reflexivity|]. left. auto.
Qed.

(* ------------------------------------------------------------------ *)
(* executeUnit.run                                                      *)

Lemma eu5_run_reg_b labels regs mem pw l1d e2 wbus tc ex btb fu du i pc bytes exe :
  instr_Run i (rget regs) labels pc bytes 0 = Ok exe -> Return exe = false -> MemoryChange exe = false ->
  exists tc',
  eu5_run labels (mk_env5 regs mem pw l1d e2 wbus (mk_bu5 tc ex btb) fu du) i pc bytes =
    inl (Ok (mk_env5 regs mem (pw_add pw (instr_WriteRegisters i)) l1d
                     (mk_eu false (eu_pending_read e2) (eu_addrs e2) (eu_memory e2) (eu_remaining e2) (eu_runner e2))
                     (sbus_add wbus (exe, instr_WriteRegisters i))
                     (mk_bu5 tc' ex (if uncond i then btb_add btb pc (NextPc exe) else btb))
                     (if uncond i then fu5_reset fu (NextPc exe) else fu)
                     (if uncond i then false else du),
             if fl5 tc ex exe then mk_euo true (NextPc exe) false else eu_none)).
Proof.
  intros H Hr Hm. unfold eu5_run, fl5, uncond.
  cbn [v_regs v_mem v_pw v_l1d v_eu v_wbus v_bu v_fu v_du]. rewrite H, Hr, Hm. cbn [bind].
  destruct (InstructionType_IsUnconditionalBranch (instr_InstructionType i));
    destruct (PcChange exe); unfold bu5_should_flush; cbn [b5_to_check b5_expectation b5_btb andb];
    destruct tc; cbn [negb andb]; eexists; reflexivity.
Qed.

Lemma eu5_run_store_hit labels regs mem pw l1d e2 wbus bu fu du i pc bs d2 vs a0 v0 t d3 :
  instr_Run i (rget regs) labels pc [] 0 = Ok (embed (EStore bs)) ->
  get_all l1d (map fst bs) [] = Ok (d2, Some vs) ->
  sort_changes bs = (a0, v0) :: t ->
  write d2 a0 (map snd ((a0, v0) :: t)) = Ok d3 ->
  eu5_run labels (mk_env5 regs mem pw l1d e2 wbus bu fu du) i pc [] =
    inl (Ok (mk_env5 regs mem pw d3
                     (mk_eu false (eu_pending_read e2) (eu_addrs e2) (eu_memory e2) (eu_remaining e2) (eu_runner e2))
                     wbus bu fu du, eu_none)).
Proof.
  intros H Hg Hs Hw. unfold eu5_run. cbn [v_regs v_mem v_pw v_l1d v_eu v_wbus v_bu v_fu v_du]. rewrite H.
  cbn [embed Return MemoryChange MemoryChanges]. rewrite Hg. cbn [bind]. rewrite Hs, Hw. reflexivity.
Qed.

(* ------------------------------------------------------------------ *)
(* one iteration of the Run loop, split after the execute unit          *)

Definition m5_tail (f : nat) (app : list instr) (labels : Z -> option Z) (wu : wu_t) (l1i1 : cache)
           (dbus2 : sbus Z) (cycle : Z)
           (r : outcome (eu5_env * sbus (instr * Z) * eu_out) + err_class) : mres :=
  match r with
  | inr e => MErr e
  | inl (Ok (env1, ebus2, o)) =>
      match wu_cycle (v_regs env1) (v_mem env1) (v_pw env1) wu (v_wbus env1) with
      | Ok (regs2, mem2, pw2, wu2, wbus2) =>
          let s2 := mk_m5 regs2 mem2 pw2 l1i1 (v_l1d env1) (v_fu env1) (v_du env1) dbus2 ebus2 (v_eu env1) wbus2 wu2 (v_bu env1) in
          if eo_ret o then
            match m4_drain (S (S (Z.to_nat MemoryAccess * 4)%nat)) regs2 mem2 pw2 wu2 wbus2 cycle false with
            | Ok (regs3, mem3, pw3, wu3, wbus3, cycle3) =>
                m5_finish (mk_m5 regs3 mem3 pw3 l1i1 (v_l1d env1) (v_fu env1) (v_du env1) dbus2 ebus2 (v_eu env1) wbus3 wu3 (v_bu env1)) cycle3
            | _ => MPanic
            end
          else if eo_flush o then
            match m4_drain (S (S (Z.to_nat MemoryAccess * 4)%nat)) regs2 mem2 pw2 wu2 wbus2 cycle true with
            | Ok (regs3, mem3, pw3, wu3, wbus3, cycle3) =>
                let fu3 := mk_fu5 (eo_pc o) (f5_remaining (v_fu env1)) false false (f5_clean (v_fu env1)) in
                let e := v_eu env1 in
                let eu3 := mk_eu false (eu_pending_read e) (eu_addrs e) (eu_memory e) 0 (eu_runner e) in
                m5run f app labels
                      (mk_m5 regs3 mem3 zero_pw l1i1 (v_l1d env1) fu3 false sbus_empty sbus_empty eu3 sbus_empty wu3 (v_bu env1))
                      cycle3
            | _ => MPanic
            end
          else if m5_is_complete s2 then m5_finish s2 cycle
          else m5run f app labels s2 cycle
      | _ => MPanic
      end
  | inl _ => MPanic
  end.

Lemma m5run_S f app labels s cyc :
  m5run (S f) app labels s cyc =
  match fu5_cycle app (t_fu s) (t_l1i s) (t_dbus s) with
  | Ok (fu1, l1i1, dbus1) =>
      match du5_cycle app (t_du s) dbus1 (t_ebus s) with
      | Ok (du1, dbus2, ebus1) =>
          m5_tail f app labels (t_wu s) l1i1 dbus2 (cyc + 1)
                  (eu5_cycle labels (mk_env5 (t_regs s) (t_mem s) (t_pw s) (t_l1d s) (t_eu s) (t_wbus s) (t_bu s) fu1 du1) ebus1)
      | _ => MPanic
      end
  | _ => MPanic
  end.
Proof.
  cbn [m5run]. destruct (fu5_cycle app (t_fu s) (t_l1i s) (t_dbus s)) as [[[fu1 l1i1] dbus1]| |]; reflexivity.
Qed.

Lemma skm5_pre_exec_eq app a path fu1 l1i1 dbus1 du1 dbus2 ebus1 e1 ebus2 dt1 i pc :
  fu5_cycle app (n_fu a) (n_l1i a) (n_dbus a) = Ok (fu1, l1i1, dbus1) ->
  du5_cycle app (n_du a) dbus1 (n_ebus a) = Ok (du1, dbus2, ebus1) ->
  skm_eu (n_eu a) ebus1 (n_pw a) (n_dt a) (hla path) = (e1, ebus2, dt1, AExec i pc) ->
  skm5_pre app a path = skm5_exec a (sk5_assert fu1 (n_btb a) (issue_m (n_eu a) ebus1)) du1 l1i1 dbus2 ebus2 e1 dt1 i pc path.
Proof. intros Ef Ed Ee. unfold skm5_pre. rewrite Ef, Ed, Ee. reflexivity. Qed.

Lemma m5_complete_agree rg m pw pw' l1i l1d fu du dbus ebus ce w bu dt btb :
  m5_is_complete (mk_m5 rg m pw l1i l1d fu du dbus ebus ce (mk_sbus None None) (mk_wu false w) bu)
  = skm5_complete (mk_skm5 fu du l1i dbus ebus (eu_erase ce) pw' None dt btb).
Proof.
  unfold m5_is_complete, skm5_complete.
  cbn [t_fu t_eu t_wu t_dbus t_ebus t_wbus n_fu n_eu n_dbus n_ebus n_wb wu_pending eu_erase eu_processing].
  destruct (f5_complete fu), (eu_processing ce), (sbus_is_empty dbus), (sbus_is_empty ebus); reflexivity.
Qed.

Section SimM5.
  Variables (app : list instr) (labels : Z -> option Z).
  Hypothesis Happ : wf_app app.
  Hypothesis Hlab : wf_labels labels.

  (* the model state [s] is the skeleton [a] plus the values of the sequential state [st];
     [la]: the load addresses of the instruction at the head of the path *)
  Inductive RM5 (la : list Z) : m5state -> skm5 -> arch -> Prop :=
  | RM5_intro a rg m l1d sc w tc ex cur ce st :
      VInv l1d sc m (mem st) -> s_rec sc = n_dt a ->
      Forall int32 rg -> Forall int32 (regs st) -> Forall int8 (mem st) -> (length rg <= 32)%nat ->
      cur_wr cur = n_wb a ->
      (forall x, cur = Some x -> item_ok x /\ wb_rel (fst x) (snd x)) ->
      regs st = cur_regs cur rg ->
      eu_erase ce = n_eu a ->
      (forall bytes, eu_memory ce = Some bytes -> bytes = map (mget (mem st)) la) ->
      (eu_pending_read ce = true -> eu_memory ce = None -> forall x, In x la -> view sc x = None) ->
      RM5 la (mk_m5 rg m (n_pw a) (n_l1i a) l1d (n_fu a) (n_du a) (n_dbus a) (n_ebus a) ce (mk_sbus None cur) (mk_wu false w)
                    (mk_bu5 tc ex (n_btb a))) a st.

  Lemma head_entry5 hev a fu1 l1i1 dbus1 du1 dbus2 ebus1 i pc :
    FM5 app hev a ->
    fu5_cycle app (n_fu a) (n_l1i a) (n_dbus a) = Ok (fu1, l1i1, dbus1) ->
    du5_cycle app (n_du a) dbus1 (n_ebus a) = Ok (du1, dbus2, ebus1) ->
    hd_error (q_eu (n_eu a) ++ q_sb ebus1) = Some (i, pc) ->
    pc = ev_pc hev /\ nth_error app (Z.to_nat (pc / 4)) = Some i.
  Proof.
    intros HF Ef Ed Hhd.
    destruct (decode_flow5 app Happ (ev_pc hev) (rview a) _ _ _ _ _ _ (h_front _ _ _ HF) Ef Ed) as (_ & _ & _ & _ & Hmid).
    cbn [rview k5_eu k5_ebus] in Hmid. rewrite q_eu_view in Hmid.
    destruct (q_eu (n_eu a) ++ q_sb ebus1) as [|x l]; [discriminate|]. cbn [hd_error] in Hhd. injection Hhd as ->.
    destruct (mid_head app _ _ _ _ _ _ Hmid) as [Hpc [_ Hi]]. cbn [fst snd] in Hpc, Hi. subst pc. auto.
  Qed.

  Lemma sim_exec5 f a hev rest st stf fuA du1 l1i1 dbus2 ebus2 cyc w rg m' d' sc' e2 cur tc ex i bytes :
    VInv d' sc' m' (mem st) ->
    Forall int32 rg -> Forall int32 (regs st) -> Forall int8 (mem st) -> (length rg <= 32)%nat ->
    cur_wr cur = n_wb a ->
    (forall x, cur = Some x -> item_ok x /\ wb_rel (fst x) (snd x)) ->
    regs st = cur_regs cur rg ->
    (forall r, In r (instr_ReadRegisters i) -> rget (regs st) r = rget rg r) ->
    0 <= ev_pc hev < 2147483644 -> nth_error app (Z.to_nat (ev_pc hev / 4)) = Some i ->
    bytes = map (mget (mem st)) (ev_la hev) ->
    eu_memory e2 = None -> eu_pending_read e2 = false ->
    (ev_la hev = [] -> exists tc0 ex0, tc = fst (asrt (n_btb a) tc0 ex0 i (ev_pc hev)) /\
                                       ex = snd (asrt (n_btb a) tc0 ex0 i (ev_pc hev))) ->
    sexecm app labels st (hev :: rest) stf ->
    snd (a_get_all (s_rec sc') (ev_sa hev)) = true ->
    match skm5_exec a fuA du1 l1i1 dbus2 ebus2 (eu_done e2) (s_rec sc') i (ev_pc hev) (hev :: rest) with
    | M5Stuck => True
    | M5Fin dc dt =>
        m5_tail f app labels (mk_wu false w) l1i1 dbus2 (cyc + 1)
                (eu5_post (eu5_run labels (mk_env5 rg m' (n_pw a) d' e2 (mk_sbus None cur) (mk_bu5 tc ex (n_btb a)) fuA du1)
                                   i (ev_pc hev) bytes) ebus2)
        = MDone (cyc + dc + MemoryAccess * zlen dt) stf
    | M5Step a' path' dc =>
        exists s' st',
          m5_tail f app labels (mk_wu false w) l1i1 dbus2 (cyc + 1)
                  (eu5_post (eu5_run labels (mk_env5 rg m' (n_pw a) d' e2 (mk_sbus None cur) (mk_bu5 tc ex (n_btb a)) fuA du1)
                                     i (ev_pc hev) bytes) ebus2)
          = (if m5_is_complete s' then m5_finish s' (cyc + dc) else m5run f app labels s' (cyc + dc)) /\
          m5_is_complete s' = skm5_complete a' /\ RM5 (hla path') s' a' st' /\ sexecm app labels st' path' stf
    end.
  Proof.
    intros HV Hri Hsi Hm8 Hlen Hcw Hitem Hregs Hread Hh Hi Hbytes Hem Hepr Hbu HS Hsh.
    assert (Hitem1 : forall x, cur = Some x -> item_ok x) by (intros x Hx; apply Hitem; exact Hx).
    destruct (sexecm_head app labels _ _ _ _ HS) as [Hev _].
    pose proof (ev_of_at app st (ev_pc hev) i Hi) as Hevi. rewrite <- Hev in Hevi.
    assert (Hla : ev_la hev = load_addrs (sinstr_of i) (rget (regs st))) by (rewrite Hevi; reflexivity).
    assert (Hsa : ev_sa hev = store_addrs (sinstr_of i) (rget (regs st))) by (rewrite Hevi; reflexivity).
    pose proof (exec_cases_m app labels Happ Hlab st rg (ev_pc hev) i (mk_bu false 0) Hh Hi Hri Hsi Hm8 Hread) as Hcases.
    cbv zeta in Hcases. rewrite <- Hla, <- Hbytes in Hcases.
    assert (Heud : eu_erase (eu_done e2) = eu_done e2) by (apply eu_erase_id; exact Hem).
    assert (Hflush : flush_lines (lines d') m' 0 = Ok (mem st, MemoryAccess * zlen (s_rec sc'))) by (apply flush_ok; exact HV).
    unfold skm5_exec. rewrite Z.eqb_refl. cbn [negb].
    inversion HS as [? pc0 ? Hs Hp|? pc0 st' pc' rest' ? Hs Hsl1 Hsl2 HS' Hp]; subst.
    - (* the run halts here: ret *)
      cbn [ev_pc ev_of fst] in Hcases. rewrite Hs in Hcases. destruct Hcases as (-> & Hret & Hl0 & Hrun). rewrite Hret.
      rewrite Hl0 in Hrun |- *. cbn [map] in Hrun |- *.
      rewrite eu5_run_ret by exact Hrun.
      cbn [eu5_post set_eu m5_tail v_regs v_mem v_pw v_l1d v_eu v_wbus v_bu v_fu v_du eo_ret eo_flush].
      rewrite (wu_cycle_reg rg m' (n_pw a) w None cur Hitem1).
      rewrite drain_empty. unfold m5_finish. cbn [t_l1d t_mem t_regs]. rewrite Hflush.
      rewrite <- Hregs. destruct st as [r0 m0]; cbn [Seq.regs Seq.mem]. f_equal.
    - (* an instruction with a successor *)
      set (hev := ev_of app st pc0) in *. set (nxt := ev_of app st' pc') in *.
      cbn [ev_pc ev_of fst] in Hcases. fold hev in Hcases.
      change (ev_pc hev) with pc0 in *. rewrite Hs in Hcases.
      destruct Hcases as (Hret & Hin & e & Hrun & Hsi' & Hm8' & Hcase). rewrite Hret.
      assert (Hnext : 0 <= pc') by (destruct (sexecm_head app labels _ _ _ _ HS') as [_ Hx]; exact Hx).
      change (ev_pc nxt) with pc'.
      destruct Hcase as [(Hns & Hsa0 & Hr & Hm & Hit & Hrel & Hregs' & Hmem' & Hfl & Hnpc & Hpcl)
                        | (bs & -> & Hl0 & Hne & Hfst & Hinb & Hregs' & Hmem' & ->)].
      + (* not a store *)
        rewrite Hsa, Hsa0. cbv zeta.
        destruct (eu5_run_reg_b labels rg m' (n_pw a) d' e2 (mk_sbus None cur) tc ex (n_btb a) fuA du1 i pc0 _ (embed e) Hrun Hr Hm)
          as (tc' & Erun).
        rewrite Erun. clear Erun.
        specialize (Hfl Hnext).
        (* the flush decision *)
        assert (Hdec : (uncond i = true -> NextPc (embed e) = pc') /\
                       fl5 tc ex (embed e) = sk5_flush (n_btb a) i pc0 pc' /\
                       (sk5_flush (n_btb a) i pc0 pc' = true -> NextPc (embed e) = pc')).
        { destruct (PcChange (embed e)) eqn:Epc.
          - destruct (Hbu (Hpcl eq_refl)) as (tc0 & ex0 & -> & ->).
            exact (flush5_agree (n_btb a) tc0 ex0 i pc0 pc' (embed e) Hfl Hnpc).
          - (* no pc change: not a jump, the next pc is pc + 4 *)
            assert (Hsf : sk_flush i pc0 pc' = false) by (rewrite <- Hfl; unfold flush_dec; rewrite Epc; reflexivity).
            unfold sk_flush in Hsf. apply orb_false_elim in Hsf as [Hu Hn]. fold (uncond i) in Hu.
            split; [rewrite Hu; discriminate|].
            unfold fl5, sk5_flush. rewrite Epc, Hu, Hn. split; [reflexivity | discriminate]. }
        destruct Hdec as (Hunc & Hfl5 & Hnpc5). rewrite Hfl5.
        assert (Hfu_eq : (if uncond i then fu5_reset fuA (NextPc (embed e)) else fuA)
                         = (if uncond i then fu5_reset fuA pc' else fuA)).
        { destruct (uncond i); [rewrite (Hunc eq_refl)|]; reflexivity. }
        assert (Hbtb_eq : (if uncond i then btb_add (n_btb a) pc0 (NextPc (embed e)) else n_btb a)
                          = (if uncond i then btb_add (n_btb a) pc0 pc' else n_btb a)).
        { destruct (uncond i); [rewrite (Hunc eq_refl)|]; reflexivity. }
        rewrite Hfu_eq, Hbtb_eq.
        cbn [eu5_post set_eu m5_tail v_regs v_mem v_pw v_l1d v_eu v_wbus v_bu v_fu v_du]. rewrite sbus_add_mk.
        rewrite (wu_cycle_reg rg m' _ w _ cur Hitem1).
        destruct (sk5_flush (n_btb a) i pc0 pc') eqn:Esf.
        * cbn [eo_ret eo_flush eo_pc].
          rewrite (drain_one _ _ _ _ w _ _ true Hit). cbn [fst snd]. rewrite (Hnpc5 eq_refl).
          eexists _, st'. split; [|split; [|split; [|exact HS']]].
          -- replace (cyc + 2) with (cyc + 1 + 1) by lia. symmetry. apply if_false_r. reflexivity.
          -- reflexivity.
          -- cbn [hla]. fold nxt.
             apply (RM5_intro (ev_la nxt)
                      (mk_skm5 (mk_fu5 pc' _ false false _) false l1i1 sbus_empty sbus_empty (eu_flushed (eu_done e2)) zero_pw None (s_rec sc') _)
                      (wapply (embed e) (cur_regs cur rg)) m' d' sc' w tc' ex None (eu_flushed (eu_done e2)) st'); auto; try discriminate;
               try solve [intros b Hb; cbn in Hb; rewrite Hem in Hb; discriminate];
               try solve [intros Hp; cbn in Hp; rewrite Hepr in Hp; discriminate].
             ++ rewrite Hmem'. exact HV.
             ++ rewrite <- Hregs, <- Hregs'. exact Hsi'.
             ++ rewrite wapply_length, cur_regs_length. exact Hlen.
             ++ cbn [cur_regs]. rewrite <- Hregs. exact Hregs'.
             ++ apply eu_erase_id. cbn. exact Hem.
        * cbn [eo_ret eo_flush].
          eexists _, st'. split; [reflexivity|]. split; [|split; [|exact HS']].
          -- rewrite complete5_false. unfold skm5_complete. cbn [n_wb]. rewrite andb_false_r. reflexivity.
          -- cbn [hla]. fold nxt. rewrite Hcw.
             apply (RM5_intro (ev_la nxt)
                      (mk_skm5 _ _ l1i1 dbus2 ebus2 (eu_done e2) (wdel (pw_add (n_pw a) (instr_WriteRegisters i)) (n_wb a))
                               (Some (instr_WriteRegisters i)) (s_rec sc') _)
                      (cur_regs cur rg) m' d' sc' w tc' ex (Some (embed e, instr_WriteRegisters i)) (eu_done e2) st'); auto; try discriminate;
               try solve [intros b Hb; cbn in Hb; rewrite Hem in Hb; discriminate];
               try solve [intros Hp; cbn in Hp; rewrite Hepr in Hp; discriminate].
             ++ rewrite Hmem'. exact HV.
             ++ rewrite <- Hregs. exact Hsi.
             ++ rewrite cur_regs_length. exact Hlen.
             ++ intros x Hx. injection Hx as <-. split; assumption.
             ++ cbn [cur_regs]. rewrite <- Hregs. exact Hregs'.
      + (* a store that hits in the L1D *)
        rewrite Hsa in Hsh, Hsl2 |- *. rewrite <- Hfst in Hsh, Hsl2 |- *.
        assert (Hcs : map fst bs = consec (hd 0 (map fst bs)) (length bs)).
        { rewrite <- (map_length fst bs). rewrite Hfst.
          apply (store_addrs_consec _ _ (mem st)); [rewrite <- Hfst; exact Hinb | exact (v_small _ _ _ _ HV)]. }
        destruct (store_hit_m d' sc' m' (mem st) bs _ HV Hne Hcs Hinb Hsl2 Hsh)
          as (c1 & vs & v0 & t & c' & sc3 & Eg & Es & Ew & HV3 & Hr3).
        destruct (map fst bs) as [|s0 sa'] eqn:Emf; [destruct bs; [congruence | discriminate]|].
        rewrite Hsh. destruct (pc_next app Happ pc0 i ltac:(lia) Hi) as [Hpc4 _]. rewrite Hpc4, Z.eqb_refl. cbn [andb].
        assert (Hbytes0 : map (mget (mem st)) (ev_la hev) = []) by (rewrite Hl0; reflexivity).
        rewrite Hbytes0 in Hrun |- *.
        rewrite <- Emf in Eg.
        rewrite (eu5_run_store_hit _ _ _ _ _ _ _ _ _ _ _ _ _ _ _ _ _ _ _ Hrun Eg Es Ew).
        cbn [eu5_post set_eu m5_tail v_regs v_mem v_pw v_l1d v_eu v_wbus v_bu v_fu v_du eu_none eo_ret eo_flush].
        rewrite (wu_cycle_reg rg m' (n_pw a) w None cur Hitem1).
        eexists _, st'. split; [reflexivity|]. split; [|split; [|exact HS']].
        * rewrite (m5_complete_agree _ _ _ (wdel (n_pw a) (n_wb a)) _ _ _ _ _ _ _ _ _ (fst (a_get_all (s_rec sc') (s0 :: sa'))) (n_btb a)).
          unfold skm5_complete, eu_erase, clear_runner, eu_done. cbn [n_fu n_eu n_dbus n_ebus n_wb eu_processing]. reflexivity.
        * cbn [hla]. fold nxt. rewrite Hcw.
          apply (RM5_intro (ev_la nxt)
                   (mk_skm5 fuA du1 l1i1 dbus2 ebus2 (eu_done e2) (wdel (n_pw a) (n_wb a)) None (fst (a_get_all (s_rec sc') (s0 :: sa'))) (n_btb a))
                   (cur_regs cur rg) m' c' sc3 w tc ex None (eu_done e2) st'); auto; try discriminate;
               try solve [intros b Hb; cbn in Hb; rewrite Hem in Hb; discriminate];
               try solve [intros Hp; cbn in Hp; rewrite Hepr in Hp; discriminate].
          -- rewrite Hmem'. exact HV3.
          -- rewrite <- Hregs. exact Hsi.
          -- rewrite cur_regs_length. exact Hlen.
          -- rewrite Hregs'. exact Hregs.
  Qed.

  Lemma sim_pre5 f a hev rest cyc s st stf :
    RM5 (ev_la hev) s a st -> FM5 app hev a -> sh_inv5 a (hev :: rest) -> sexecm app labels st (hev :: rest) stf ->
    match skm5_pre app a (hev :: rest) with
    | M5Stuck => True
    | M5Fin dc dt => m5run (S f) app labels s cyc = MDone (cyc + dc + MemoryAccess * zlen dt) stf
    | M5Step a' path' dc =>
        exists s' st',
          m5run (S f) app labels s cyc
          = (if m5_is_complete s' then m5_finish s' (cyc + dc) else m5run f app labels s' (cyc + dc)) /\
          m5_is_complete s' = skm5_complete a' /\ RM5 (hla path') s' a' st' /\ sexecm app labels st' path' stf
    end.
  Proof.
    intros HR HF Hsh HS.
    destruct HR as [a rg m l1d sc w tc ex cur ce st HV Hdt Hri Hsi Hm8 Hlen Hcw Hitem Hregs Hce Hbytes Hunc].
    pose proof HF as [HF5 (Hproc & Hpp & Hmem) Hpr Hmiss _].
    pose proof (g_head _ _ _ HF5) as Hh. pose proof (g_pw _ _ _ HF5) as Hpw. cbn [rview k5_pw k5_wb] in Hpw.
    assert (Hitem1 : forall x, cur = Some x -> item_ok x) by (intros x Hx; apply Hitem; exact Hx).
    rewrite m5run_S. cbn [t_fu t_du t_l1i t_dbus t_ebus t_regs t_mem t_pw t_l1d t_eu t_wbus t_bu t_wu].
    destruct (fu5_cycle app (n_fu a) (n_l1i a) (n_dbus a)) as [[[fu1 l1i1] dbus1]| |] eqn:Ef;
      [|unfold skm5_pre; rewrite Ef; exact I|unfold skm5_pre; rewrite Ef; exact I].
    destruct (du5_cycle app (n_du a) dbus1 (n_ebus a)) as [[[du1 dbus2] ebus1]| |] eqn:Ed;
      [|unfold skm5_pre; rewrite Ef, Ed; exact I|unfold skm5_pre; rewrite Ef, Ed; exact I].
    destruct (skm_eu (n_eu a) ebus1 (n_pw a) (n_dt a) (ev_la hev)) as [[[e1 ebus2] dt1] act] eqn:Ee.
    destruct (frontm_flow5 app Happ hev a _ _ _ _ _ _ _ _ _ _ HF Ef Ed Ee)
      as (_ & _ & Hns & Hmid & (Heu1 & Hpp1 & Hmem1) & Hmiss1 & Hex & _ & _).
    cbn [sh_inv5] in Hsh. destruct Hsh as [Hsh1 _].
    destruct (eu_pending_read ce) eqn:Epr.
    - (* a load is in flight *)
      assert (Hprs : eu_pending_read (n_eu a) = true) by (rewrite <- Hce; exact Epr).
      pose proof (Hpr Hprs) as Hwb0.
      assert (Hcur : cur = None) by (rewrite Hwb0 in Hcw; destruct cur; [discriminate | reflexivity]).
      assert (Hregs0 : regs st = rg) by (rewrite Hregs, Hcur; reflexivity).
      destruct (Hmiss Hprs) as [Hlane Haddrs].
      destruct (sexecm_loads app labels _ _ _ _ HS Hlane) as [Hin Hsl].
      assert (Hiss : issue_m (n_eu a) ebus1 = None) by (unfold issue_m; rewrite Hprs; reflexivity).
      rewrite <- Hce in Ee.
      pose proof (eu5_cycle_m_pending labels rg m (n_pw a) l1d ce (mk_sbus None cur) (mk_bu5 tc ex (n_btb a)) fu1 du1
                    ebus1 (n_dt a) (ev_la hev) e1 ebus2 dt1 act Epr Ee) as Heu.
      rewrite Hce in Ee.
      destruct act as [|i pc|]; [| |congruence].
      + (* still waiting *)
        destruct Heu as (Eeu & -> & -> & ->). rewrite Eeu.
        rewrite (skm5_pre_none app hev rest a _ _ _ _ _ _ _ _ _ Ef Ed Ee). rewrite Hiss. cbn [sk5_assert].
        cbn [m5_tail v_regs v_mem v_pw v_l1d v_eu v_wbus v_bu v_fu v_du eu_none eo_ret eo_flush].
        rewrite (wu_cycle_reg rg m (n_pw a) w None cur Hitem1). rewrite Hcw.
        eexists _, st. split; [reflexivity|]. split; [|split; [|exact HS]].
        * unfold after_nonem5. apply m5_complete_agree.
        * cbn [hla].
          apply (RM5_intro (ev_la hev) (after_nonem5 a fu1 du1 l1i1 dbus2 ebus1 (eu_erase (wait_eu ce)) (n_dt a))
                           (cur_regs cur rg) m l1d sc w tc ex None (wait_eu ce) st); auto;
            try discriminate; rewrite ?Hcur; cbn [cur_regs]; auto.
      + (* the load completes and the instruction is executed *)
        destruct Heu as (-> & -> & Eeu). rewrite Eeu.
        destruct Hex as (_ & _ & Hdt1).
        cbn [act_q List.app] in Hmid.
        destruct (mid_head app _ _ _ _ _ _ Hmid) as [Hpc [_ Hi]]. cbn [fst snd] in Hpc, Hi. subst pc.
        rewrite (skm5_pre_exec_eq app a (hev :: rest) _ _ _ _ _ _ _ _ _ _ _ Ef Ed Ee). rewrite Hiss. cbn [sk5_assert].
        set (e2 := mk_eu (eu_processing ce) false (eu_addrs ce) None (eu_remaining ce - 1) (eu_runner ce)).
        assert (Hgot : exists d' sc' m', load_got l1d m ce = Ok (d', m', map (mget (mem st)) (ev_la hev)) /\
                         VInv d' sc' m' (mem st) /\ s_rec sc' = dt1).
        { unfold load_got. rewrite Hdt1. unfold dtal. rewrite Hprs.
          assert (Hme : eu_memory (n_eu a) = option_map (fun _ => []) (eu_memory ce)) by (rewrite <- Hce; reflexivity).
          rewrite Hme. destruct (eu_memory ce) as [bytes|] eqn:Em.
          - exists l1d, sc, m. rewrite (Hbytes bytes eq_refl). cbn [option_map]. auto.
          - cbn [option_map].
            assert (Ha : eu_addrs ce = ev_la hev) by (rewrite <- Haddrs; [rewrite <- Hce; reflexivity | rewrite Hme; reflexivity]).
            rewrite Ha. destruct (ev_la hev) as [|a0 t] eqn:Ela; [congruence|].
            destruct (load_complete_ok l1d sc m (mem st) a0 t HV Hin Hsl (Hunc eq_refl eq_refl)) as (c3 & sc3 & m3 & E3 & HV3 & Hr3).
            exists c3, sc3, m3. split; [exact E3|]. split; [exact HV3|]. rewrite Hr3, Hdt. reflexivity. }
        destruct Hgot as (d' & sc' & m' & -> & HV' & Hdt').
        rewrite <- Hdt1 in Hsh1. rewrite <- Hdt' in Hsh1 |- *.
        replace (eu_done (mk_eu (eu_processing (eu_erase ce)) false (eu_addrs (eu_erase ce)) None (eu_remaining (eu_erase ce) - 1) (eu_runner (eu_erase ce))))
          with (eu_done e2) by reflexivity.
        rewrite Hcur. rewrite Hcur in Hcw.
        apply (sim_exec5 f a hev rest st stf fu1 du1 l1i1 dbus2 ebus1 cyc w rg m' d' sc' e2 None tc ex i _ HV' Hri Hsi Hm8 Hlen);
          auto; try discriminate.
        * intros r _. rewrite Hregs0. reflexivity.
        * intros H0. congruence.
    - (* no load in flight *)
      assert (Hprs : eu_pending_read (n_eu a) = false) by (rewrite <- Hce; exact Epr).
      assert (Hmc : eu_memory ce = None) by (apply erase_mem_none; rewrite Hce; apply Hmem; exact Hprs).
      assert (Hcee : n_eu a = ce) by (rewrite <- Hce; apply eu_erase_id; exact Hmc).
      destruct (sexecm_head app labels _ _ _ _ HS) as [Hev _].
      assert (Hmr : forall i pc, hd_error (q_eu ce ++ q_sb ebus1) = Some (i, pc) ->
                pw_hazard (n_pw a) (instr_ReadRegisters i) = false -> instr_MemoryRead i (rget rg) 0 = ev_la hev).
      { intros i pc Hhd Hhz. rewrite <- Hcee in Hhd.
        destruct (head_entry5 hev a _ _ _ _ _ _ i pc HF Ef Ed Hhd) as [-> Hi].
        rewrite memory_read_exact.
        pose proof (reads_agree_g (n_pw a) (n_wb a) rg cur st i Hlen Hcw Hpw Hitem Hregs Hhz) as Hread.
        rewrite read_registers_exact in Hread.
        destruct (spec_reads_sound (sinstr_of i) (rget (regs st)) (rget rg) labels 0 [] Hread) as (_ & Hla & _).
        rewrite <- Hla. rewrite Hev, (ev_of_at app st (ev_pc hev) i Hi). reflexivity. }
      assert (Hga : exists d1 sc1 bytes, ev_la hev <> [] ->
                get_all l1d (ev_la hev) [] = Ok (d1, if snd (a_get_all (n_dt a) (ev_la hev)) then Some bytes else None) /\
                VInv d1 sc1 m (mem st) /\ s_rec sc1 = fst (a_get_all (n_dt a) (ev_la hev)) /\
                bytes = map (mget (mem st)) (ev_la hev) /\
                (snd (a_get_all (n_dt a) (ev_la hev)) = false -> forall x, In x (ev_la hev) -> view sc1 x = None)).
      { destruct (ev_la hev) as [|a0 t] eqn:Ela.
        - exists l1d, sc, []. intros H0. congruence.
        - destruct (sexecm_loads app labels _ _ _ _ HS ltac:(rewrite Ela; discriminate)) as [Hin Hsl]. rewrite Ela in Hin, Hsl.
          destruct (load_issue_ok l1d sc m (mem st) a0 t HV Hin Hsl) as (c1 & sc1 & Eg & HV1 & Hr1 & Hu).
          rewrite Hdt in Eg, Hr1, Hu. exists c1, sc1, (map (mget (mem st)) (a0 :: t)). intros _. auto. }
      destruct Hga as (d1 & sc1 & bytes & Hga).
      rewrite Hcee in Ee.
      pose proof (eu5_cycle_m_idle labels rg m (n_pw a) l1d ce (mk_sbus None cur) tc ex (n_btb a) fu1 du1 ebus1 (n_dt a) (ev_la hev) d1 bytes
                    e1 ebus2 dt1 act Epr Hmc eq_refl Hmr (fun H0 => proj1 (Hga H0)) Ee) as Heu.
      rewrite <- Hcee in Ee.
      destruct act as [|i pc|]; [| |congruence].
      + (* nothing executed *)
        destruct Heu as (tc' & ex' & ce1 & l1d' & Eeu & Her & Hcase). rewrite Eeu.
        rewrite (skm5_pre_none app hev rest a _ _ _ _ _ _ _ _ _ Ef Ed Ee). rewrite Hcee.
        cbn [m5_tail v_regs v_mem v_pw v_l1d v_eu v_wbus v_bu v_fu v_du eu_none eo_ret eo_flush].
        rewrite (wu_cycle_reg rg m (n_pw a) w None cur Hitem1). rewrite Hcw.
        eexists _, st. split; [reflexivity|]. split; [|split; [|exact HS]].
        * unfold after_nonem5. rewrite <- Her. apply m5_complete_agree.
        * cbn [hla]. destruct Hcase as [(-> & -> & Hp1 & Hm1) | (Hlane & -> & -> & Hp1 & Hm1)].
          -- apply (RM5_intro (ev_la hev) (after_nonem5 a _ du1 l1i1 dbus2 ebus2 e1 (n_dt a)) (cur_regs cur rg) m l1d sc w tc' ex' None ce1 st);
               auto; try discriminate.
             ++ rewrite <- Hregs. exact Hsi.
             ++ rewrite cur_regs_length. exact Hlen.
             ++ intros b Hb. rewrite Hm1, Hmc in Hb. discriminate.
             ++ intros Hp. rewrite Hp1 in Hp. discriminate.
          -- destruct (Hga Hlane) as (_ & HV1 & Hr1 & Hb & Hu).
             apply (RM5_intro (ev_la hev) (after_nonem5 a _ du1 l1i1 dbus2 ebus2 e1 (fst (a_get_all (n_dt a) (ev_la hev))))
                      (cur_regs cur rg) m d1 sc1 w tc' ex' None ce1 st); auto; try discriminate.
             ++ rewrite <- Hregs. exact Hsi.
             ++ rewrite cur_regs_length. exact Hlen.
             ++ intros b Hb'. rewrite Hm1 in Hb'. destruct (snd (a_get_all (n_dt a) (ev_la hev)));
                  [injection Hb' as <-; exact Hb | rewrite Hmc in Hb'; discriminate].
             ++ intros _ Hn. apply Hu. rewrite Hm1 in Hn. destruct (snd (a_get_all (n_dt a) (ev_la hev))); [discriminate | reflexivity].
      + (* (i, pc) is executed directly: it does not load *)
        destruct Heu as (Hla0 & -> & e2 & -> & Hhz & Hhd & Hiss & Eeu). rewrite Eeu. rewrite bu5_assert_eq.
        rewrite <- Hcee in Hhd. destruct (head_entry5 hev a _ _ _ _ _ _ i pc HF Ef Ed Hhd) as [-> Hi].
        rewrite (skm5_pre_exec_eq app a (hev :: rest) _ _ _ _ _ _ _ _ _ _ _ Ef Ed Ee). rewrite Hcee, Hiss.
        destruct Hex as (_ & Hpe & _). rewrite <- Hdt. rewrite <- Hdt in Hsh1.
        assert (Hme2 : eu_memory e2 = None) by (apply (Hmem1 Hpe)).
        apply (sim_exec5 f a hev rest st stf _ du1 l1i1 dbus2 ebus2 cyc w rg m l1d sc e2 cur _ _ i []
                 HV Hri Hsi Hm8 Hlen Hcw Hitem Hregs); auto.
        * apply (reads_agree_g (n_pw a) (n_wb a) rg cur st i Hlen Hcw Hpw Hitem Hregs Hhz).
        * rewrite Hla0. reflexivity.
        * intros _. exists tc, ex. split; reflexivity.
        * rewrite <- Hsh1. unfold dtal. rewrite Hprs, Hla0. reflexivity.
  Qed.

  Lemma finish_m5 la s a st hev rest stf cyc :
    RM5 la s a st -> FM5 app hev a -> skm5_complete a = true -> evs_wf app (hev :: rest) ->
    sexecm app labels st (hev :: rest) stf ->
    m5_finish s cyc = MDone (cyc + MemoryAccess * zlen (n_dt a)) stf.
  Proof.
    intros HR HF Hc Hwf HS.
    destruct HR as [a rg m l1d sc w tc ex cur ce st HV Hdt Hri Hsi Hm8 Hlen Hcw Hitem Hregs Hce Hbytes Hunc].
    destruct (completem_exit5 app hev rest a HF Hc Hwf) as [_ Hout].
    destruct (sexecm_out app labels _ _ _ _ HS Hout) as [-> _].
    unfold m5_finish. cbn [t_l1d t_mem t_regs]. rewrite (flush_ok _ _ _ _ HV), Hdt.
    assert (Hcur : cur = None).
    { unfold skm5_complete in Hc. destruct (n_wb a) eqn:Ew; [rewrite andb_false_r in Hc; discriminate|].
      destruct cur; [discriminate | reflexivity]. }
    rewrite Hcur in Hregs. cbn [cur_regs] in Hregs. rewrite <- Hregs. destruct st; reflexivity.
  Qed.

  Lemma sim_step_m5 f a hev rest cyc s st stf :
    RM5 (ev_la hev) s a st -> FM5 app hev a -> evs_wf app (hev :: rest) -> stores_plain app (hev :: rest) ->
    sh_inv5 a (hev :: rest) -> sexecm app labels st (hev :: rest) stf ->
    match skm5_cycle app a (hev :: rest) with
    | M5Stuck => True
    | M5Fin dc dt => m5run (S f) app labels s cyc = MDone (cyc + dc + MemoryAccess * zlen dt) stf
    | M5Step a' path' dc =>
        exists s' st', m5run (S f) app labels s cyc = m5run f app labels s' (cyc + dc) /\
                       RM5 (hla path') s' a' st' /\ sexecm app labels st' path' stf
    end.
  Proof.
    intros HR HF Hwf Hsp Hsh HS. pose proof (sim_pre5 f a hev rest cyc s st stf HR HF Hsh HS) as Hpre.
    unfold skm5_cycle. destruct (skm5_pre app a (hev :: rest)) as [a2 p dc|dc dt|] eqn:Ep; [|exact Hpre|exact I].
    destruct Hpre as (s' & st' & E & Hc & HR' & HS').
    destruct (fm5_step app Happ hev rest a a2 p dc HF Hwf Hsp Hsh Ep) as (hev' & rest' & -> & HF' & Hwf' & _).
    rewrite E, Hc. destruct (skm5_complete a2) eqn:Ec.
    - apply (finish_m5 _ _ _ _ hev' rest' _ _ HR' HF' Ec Hwf' HS').
    - eexists _, st'. split; [reflexivity|]. split; assumption.
  Qed.

  Lemma sim_run_m5 : forall fuel a hev rest cyc s st stf c,
    RM5 (ev_la hev) s a st -> FM5 app hev a -> evs_wf app (hev :: rest) -> stores_plain app (hev :: rest) ->
    sh_inv5 a (hev :: rest) -> sexecm app labels st (hev :: rest) stf ->
    skm5_run fuel app a (hev :: rest) cyc = Some c ->
    m5run fuel app labels s cyc = MDone c stf.
  Proof.
    induction fuel as [|f IH]; intros a hev rest cyc s st stf c HR HF Hwf Hsp Hsh HS H; [discriminate|].
    cbn [skm5_run] in H.
    pose proof (sim_step_m5 f a hev rest cyc s st stf HR HF Hwf Hsp Hsh HS) as Hsim.
    destruct (skm5_cycle app a (hev :: rest)) as [a' path' dc|dc dt|] eqn:Ec; [| |discriminate].
    - destruct Hsim as (s' & st1 & -> & HR' & HS').
      assert (Epre : skm5_pre app a (hev :: rest) = M5Step a' path' dc).
      { unfold skm5_cycle in Ec. destruct (skm5_pre app a (hev :: rest)) as [a2 p d|d t|]; try discriminate.
        destruct (skm5_complete a2); [discriminate | exact Ec]. }
      destruct (fm5_step app Happ hev rest a a' path' dc HF Hwf Hsp Hsh Epre) as (hev' & rest' & -> & HF' & Hwf' & Hsp' & Hsh' & _).
      eapply IH; eassumption.
    - injection H as <-. exact Hsim.
  Qed.
End SimM5.
