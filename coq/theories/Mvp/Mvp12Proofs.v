(* Proofs about the MVP-1 / MVP-2 models (Mvp12.v): both compute the sequential
   architectural result (C01), MVP-1's cycle count is the documented sum of
   latencies (C12), MVP-2 is never slower than MVP-1 (C12), neither panics nor
   diverges on a program the sequential machine runs (C07). *)
From Coq Require Import ZArith List Bool Lia.
From Maj Require Import Base.Outcome Base.GoInt Base.GoTypes Isa.Spec Isa.Embed Isa.Seq.
From Maj Require Import Gen.Latency Gen.RiscTables Gen.BytesGo Gen.Opcodes Bytes.Proofs Isa.Refine Mvp.Mvp12.
Import ListNotations.
Open Scope Z_scope.

(* ------------------------------------------------------------------ *)
(* well-formedness and invariants                                       *)

Definition wf_app (app : list instr) : Prop :=
  Forall (fun i => int32 (imm_of (sinstr_of i))) app /\ 4 * Z.of_nat (length app) < 2147483640.

Definition wf_labels (labels : Z -> option Z) : Prop := forall l a, labels l = Some a -> int32 a.

Definition inv (regs mem : list Z) : Prop := Forall int32 regs /\ Forall int8 mem.

Ltac unf_rng :=
  unfold inS, inU in *;
  change (2^(32-1)) with 2147483648 in *; change (2^(16-1)) with 32768 in *; change (2^(8-1)) with 128 in *.

Lemma int32_0 : int32 0. Proof. apply int32_bounds; lia. Qed.
Lemma int8_0 : int8 0. Proof. apply int8_bounds; lia. Qed.

Lemma nth_Forall {A} (P : A -> Prop) l n d : Forall P l -> P d -> P (nth n l d).
Proof.
  intros H Hd. revert n. induction H; intros [|n]; simpl; auto.
Qed.

Lemma rget_int32 regs r : Forall int32 regs -> int32 (rget regs r).
Proof.
  intros H. unfold rget. destruct (r =? 0); [apply int32_0|].
  apply nth_Forall; [assumption | apply int32_0].
Qed.

Lemma upd_Forall {A} (P : A -> Prop) l n v : Forall P l -> P v -> Forall P (upd l n v).
Proof.
  intros H Hv. revert n. induction H; intros n; simpl; [constructor|].
  destruct n; constructor; auto.
Qed.

Lemma rset_int32 regs r v : Forall int32 regs -> int32 v -> Forall int32 (rset regs r v).
Proof. intros. unfold rset. destruct (r =? 0); [assumption|]. apply upd_Forall; assumption. Qed.

Lemma mset_all_int8 mem bs : Forall int8 mem -> Forall (fun p => int8 (snd p)) bs -> Forall int8 (mset_all mem bs).
Proof.
  intros Hm Hb. revert mem Hm. induction Hb as [|[a v] t Hv _ IH]; intros mem Hm; simpl; [assumption|].
  apply IH. unfold mset. apply upd_Forall; assumption.
Qed.

Lemma mget_int8 mem a : Forall int8 mem -> int8 (mget mem a).
Proof. intros. unfold mget. apply nth_Forall; [assumption | apply int8_0]. Qed.

Lemma rset_reg_pair regs rd v :
  rset regs (fst (reg_pair rd v)) (snd (reg_pair rd v)) = rset regs rd v.
Proof.
  unfold reg_pair. destruct (rd =? 0) eqn:E; simpl; [|reflexivity].
  unfold rset. rewrite E. reflexivity.
Qed.

(* ------------------------------------------------------------------ *)
(* facts about the specified effects                                    *)

Lemma s8_range x : int8 (s8 x).
Proof. rewrite s8_wrap. apply wrapS_range. lia. Qed.
Lemma s16_range x : int32 (s16 x).
Proof.
  rewrite s16_wrap. pose proof (wrapS_range 16 x ltac:(lia)) as H. unf_rng. lia.
Qed.
Lemma s8_range32 x : int32 (s8 x).
Proof. pose proof (s8_range x) as H. unf_rng. lia. Qed.

Lemma sra_range x k : 0 <= k -> int32 (s x / 2 ^ k).
Proof.
  intros Hk. pose proof (s_range x) as H. unf_rng.
  assert (0 < 2 ^ k) by (apply Z.pow_pos_nonneg; lia).
  split.
  - apply Z.div_le_lower_bound; [lia|]. nia.
  - apply Z.div_lt_upper_bound; [lia|]. nia.
Qed.

Lemma bool01_range (b : bool) : int32 (if b then 1 else 0).
Proof. destruct b; unf_rng; lia. Qed.

Lemma exec_ranges si rr labels pc mem e :
  wf_labels labels ->
  exec si rr labels pc mem = Ok e ->
  match e with
  | EReg _ v => int32 v
  | EStore bs => Forall (fun p => int8 (snd p)) bs
  | EGoto a => int32 a
  | ELink _ v a => int32 v /\ int32 a
  | _ => True
  end.
Proof.
  intros Hl H. destruct si; cbn [exec] in H; unfold branch in H;
    repeat match type of H with
           | context [if ?c then _ else _] => destruct c eqn:?
           | context [match labels ?l with Some _ => _ | None => _ end] => destruct (labels l) eqn:?
           end; try discriminate; injection H as <-;
    try exact I; try (unf_rng; lia); try apply s_range; try apply s8_range32; try apply s16_range; try apply bool01_range;
    try (apply sra_range; apply shamt_range);
    try (eapply Hl; eassumption);
    try (split; [apply s_range | first [apply s_range | eapply Hl; eassumption]]);
    try (repeat constructor; apply s8_range).
Qed.

Lemma load_addrs_mem_ok si rr mem :
  Forall int8 mem -> mem_ok si (map (mget mem) (load_addrs si rr)).
Proof.
  intros Hm. split.
  - apply Forall_forall. intros x Hx. apply in_map_iff in Hx as (a & <- & _). apply mget_int8; assumption.
  - destruct si; exact I || reflexivity.
Qed.

Lemma cycles_total i : exists c, InstructionType_Cycles (instr_InstructionType i) = Ok c /\ 0 < c.
Proof. destruct i; eexists; (split; [reflexivity | lia]). Qed.

(* which instructions read memory / what the write-back costs *)
Lemma memory_read_nil i rr :
  (match instr_MemoryRead i rr 0 with [] => 0 | _ => MemoryAccess end)
  = if InstructionType_IsMemoryRead (instr_InstructionType i) then MemoryAccess else 0.
Proof. destruct i; reflexivity. Qed.

Definition wb_cost (e : effect) : Z :=
  match e with
  | EReg _ _ | ELink _ _ _ => RegisterAccess
  | EStore _ => MemoryAccess
  | _ => 0
  end.

Lemma wb_cost_instr i rr labels pc mem e :
  exec (sinstr_of i) rr labels pc mem = Ok e ->
  (e = EReturn <-> is_ret i = true) /\
  wb_cost e = (if is_ret i then 0
               else match instr_WriteRegisters i with
                    | _ :: _ => RegisterAccess
                    | [] => if InstructionType_IsMemoryWrite (instr_InstructionType i) then MemoryAccess else 0
                    end).
Proof.
  intros H. destruct i; cbn [sinstr_of exec] in H; unfold branch in H;
    repeat match type of H with
           | context [if ?c then _ else _] => destruct c eqn:?
           | context [match labels ?l with Some _ => _ | None => _ end] => destruct (labels l) eqn:?
           end; try discriminate; injection H as <-;
    (split; [split; intros; discriminate || reflexivity | reflexivity]).
Qed.

(* ------------------------------------------------------------------ *)
(* one model iteration against one specification step                    *)

Section Refine.
  Variables (app : list instr) (labels : Z -> option Z).
  Hypothesis Happ : wf_app app.
  Hypothesis Hlab : wf_labels labels.
  Let sp := map sinstr_of app.

  Lemma nth_app n si : nth_error sp n = Some si -> exists i, nth_error app n = Some i /\ si = sinstr_of i.
  Proof.
    unfold sp. intros H. rewrite nth_error_map in H. destruct (nth_error app n) eqn:E; [|discriminate].
    injection H as <-. eauto.
  Qed.

  Lemma imm_ok n i : nth_error app n = Some i -> int32 (imm_of (sinstr_of i)).
  Proof.
    intros H. destruct Happ as [Hf _]. rewrite Forall_forall in Hf. apply Hf.
    eapply nth_error_In; eassumption.
  Qed.

  Lemma quot_div pc : 0 <= pc -> Z.quot pc 4 = pc / 4.
  Proof. intros. apply Z.quot_div_nonneg; lia. Qed.

  Lemma pc_next pc i : 0 <= pc -> nth_error app (Z.to_nat (pc / 4)) = Some i -> addS 32 pc 4 = pc + 4 /\ int32 (pc + 4).
  Proof.
    intros Hpc Hn. destruct Happ as [_ Hlen].
    assert (Hlt : (Z.to_nat (pc / 4) < length app)%nat) by (apply nth_error_Some; congruence).
    assert (pc / 4 < Z.of_nat (length app)) by lia.
    assert (pc < 4 * Z.of_nat (length app)) by (pose proof (Z.div_mod pc 4 ltac:(lia)); pose proof (Z.mod_pos_bound pc 4 ltac:(lia)); lia).
    assert (Hr : int32 (pc + 4)) by (unf_rng; lia).
    split; [|assumption]. unfold addS. apply wrapS_id; [lia | assumption].
  Qed.

  (* cycles as a function of the variant, the program and the FORWARD trace of pcs only *)
  Definition rest_cost (pc : Z) : Z :=
    match nth_error app (Z.to_nat (pc / 4)) with Some i => cost1 i - MemoryAccess | None => 0 end.

  Fixpoint tcost (v : variant12) (win : Z * Z) (tr : list Z) : Z :=
    match tr with
    | [] => 0
    | pc :: t => let '(c1, win') := fetch12 v pc win in c1 + rest_cost pc + tcost v win' t
    end.

  (* tr' extends tr by the newly executed pcs (most recent first) and the cycle
     counter advanced by exactly tcost of them *)
  Definition cycle_claim (v : variant12) (win : Z * Z) (cycle c : Z) (tr tr' : list Z) : Prop :=
    exists new, tr' = new ++ tr /\ c = cycle + tcost v win (rev new).

  Lemma fetch12_bounds v pc win : let '(c1, _) := fetch12 v pc win in 0 < c1 <= MemoryAccess /\ (v = V1 -> c1 = MemoryAccess).
  Proof.
    destruct v; simpl.
    - split; [unfold MemoryAccess; lia | reflexivity].
    - destruct win as [from to]. destruct ((from <=? pc) && (pc <=? to)); (split; [unfold L1Access, MemoryAccess; lia | discriminate]).
  Qed.

  Theorem mrun_refines v : forall fuel regs mem cycle win pc tr st' tr',
    inv regs mem -> int32 pc ->
    run fuel sp labels (mk_arch regs mem) pc tr = Done st' tr' ->
    exists c, mrun v fuel app labels regs mem cycle win pc = MDone c st' /\ cycle_claim v win cycle c tr tr'.
  Proof.
    induction fuel as [|f IH]; intros regs mem cycle win pc tr st' tr' [Hr Hm] Hpc Hrun; [discriminate|].
    cbn [run] in Hrun. unfold step in Hrun. cbn [Seq.regs Seq.mem] in Hrun.
    destruct (pc <? 0) eqn:Epc; [discriminate|]. apply Z.ltb_ge in Epc.
    cbn [mrun]. rewrite (quot_div pc Epc).
    destruct (nth_error sp (Z.to_nat (pc / 4))) as [si|] eqn:Enth.
    2:{ (* the pc left the text *)
      unfold fetch in Hrun. rewrite Enth in Hrun.
      replace (pc <? 0) with false in Hrun by (symmetry; apply Z.ltb_ge; lia).
      injection Hrun as <- <-.
      assert (Hge : (length app <= Z.to_nat (pc / 4))%nat).
      { apply nth_error_None in Enth. unfold sp in Enth. rewrite map_length in Enth. exact Enth. }
      replace (pc / 4 <? Z.of_nat (length app)) with false
        by (symmetry; apply Z.ltb_ge; pose proof (Z.div_pos pc 4 Epc ltac:(lia)); lia).
      eexists. split; [reflexivity|]. exists []. split; [reflexivity | simpl; lia]. }
    destruct (nth_app _ _ Enth) as (i & Ei & ->).
    assert (Hlt : pc / 4 < Z.of_nat (length app)).
    { assert ((Z.to_nat (pc / 4) < length app)%nat) by (apply nth_error_Some; congruence).
      pose proof (Z.div_pos pc 4 Epc ltac:(lia)). lia. }
    replace (pc / 4 <? Z.of_nat (length app)) with true by (symmetry; apply Z.ltb_lt; exact Hlt).
    destruct (fetch12 v pc win) as [c1 win'] eqn:Ef.
    replace (pc / 4 <? 0) with false by (symmetry; apply Z.ltb_ge; apply Z.div_pos; lia).
    rewrite Ei.
    rewrite memory_read_exact.
    set (rr := rget regs) in *.
    assert (Hrr : forall r, int32 (rr r)) by (intros r; apply rget_int32; exact Hr).
    destruct (negb (forallb (in_mem mem) (load_addrs (sinstr_of i) rr))) eqn:Eb; [discriminate|].
    rewrite (run_refines_spec rr labels pc _ 0 Hrr i (imm_ok _ _ Ei) (load_addrs_mem_ok _ rr mem Hm)).
    pose proof (memory_read_nil i rr) as Hmr. rewrite memory_read_exact in Hmr.
    destruct (exec (sinstr_of i) rr labels pc (map (mget mem) (load_addrs (sinstr_of i) rr))) as [e|err|] eqn:Eex;
      [|discriminate|discriminate].
    cbn [omap].
    destruct (cycles_total i) as (c3 & Ec3 & Hc3). rewrite Ec3.
    pose proof (exec_ranges _ _ _ _ _ _ Hlab Eex) as Hrange.
    pose proof (wb_cost_instr _ _ _ _ _ _ Eex) as [Hret Hwb].
    destruct (pc_next pc i Epc Ei) as [Hpc4 Hpc4r].
    assert (Hcost : cyclesDecode + (match load_addrs (sinstr_of i) rr with [] => 0 | _ => MemoryAccess end) + c3 + wb_cost e
                    = rest_cost pc).
    { unfold rest_cost. rewrite Ei. unfold cost1. rewrite Ec3, Hmr, Hwb. ring. }
    assert (Hstep : forall cyc1 c new', c = cyc1 + tcost v win' (rev new') ->
              cyc1 = cycle + c1 + rest_cost pc ->
              c = cycle + tcost v win (rev (new' ++ [pc]))).
    { intros cyc1 c new' Hc Hc1. rewrite rev_app_distr. cbn [rev List.app tcost]. rewrite Ef. lia. }
    destruct e as [rd val|bs| |a|rd val a|]; cbn [embed] in *.
    - (* register write *)
      destruct (reg_pair rd val) as [r x] eqn:Erp. cbn [Return PcChange RegisterChange Register RegisterValue].
      rewrite Hpc4.
      assert (Ers : rset regs r x = rset regs rd val).
      { rewrite <- (rset_reg_pair regs rd val), Erp. reflexivity. }
      rewrite Ers.
      edestruct (IH (rset regs rd val) mem (cycle + c1 + cyclesDecode + (match load_addrs (sinstr_of i) rr with [] => 0 | _ => MemoryAccess end) + c3 + RegisterAccess) win' (pc + 4) (pc :: tr) st' tr')
        as (c & Hc & new' & Htr & Hceq); try eassumption.
      { split; [apply rset_int32; assumption | assumption]. }
      exists c. split; [exact Hc|]. exists (new' ++ [pc]). split; [rewrite Htr, <- app_assoc; reflexivity|].
      eapply Hstep; [exact Hceq|]. cbn [wb_cost] in Hcost. lia.
    - (* store *)
      cbn [Return PcChange RegisterChange MemoryChange MemoryChanges]. rewrite Hpc4.
      destruct (negb (forallb (in_mem mem) (map fst bs))) eqn:Eb2; [discriminate|].
      edestruct (IH regs (mset_all mem bs) (cycle + c1 + cyclesDecode + (match load_addrs (sinstr_of i) rr with [] => 0 | _ => MemoryAccess end) + c3 + MemoryAccess) win' (pc + 4) (pc :: tr) st' tr')
        as (c & Hc & new' & Htr & Hceq); try eassumption.
      { split; [assumption | apply mset_all_int8; assumption]. }
      exists c. split; [exact Hc|]. exists (new' ++ [pc]). split; [rewrite Htr, <- app_assoc; reflexivity|].
      eapply Hstep; [exact Hceq|]. cbn [wb_cost] in Hcost. lia.
    - (* fall through *)
      cbn [Return PcChange RegisterChange MemoryChange]. rewrite Hpc4.
      edestruct (IH regs mem (cycle + c1 + cyclesDecode + (match load_addrs (sinstr_of i) rr with [] => 0 | _ => MemoryAccess end) + c3) win' (pc + 4) (pc :: tr) st' tr')
        as (c & Hc & new' & Htr & Hceq); try eassumption.
      { split; assumption. }
      exists c. split; [exact Hc|]. exists (new' ++ [pc]). split; [rewrite Htr, <- app_assoc; reflexivity|].
      eapply Hstep; [exact Hceq|]. cbn [wb_cost] in Hcost. lia.
    - (* taken branch / jump *)
      cbn [Return PcChange RegisterChange MemoryChange NextPc].
      edestruct (IH regs mem (cycle + c1 + cyclesDecode + (match load_addrs (sinstr_of i) rr with [] => 0 | _ => MemoryAccess end) + c3) win' a (pc :: tr) st' tr')
        as (c & Hc & new' & Htr & Hceq); try eassumption.
      { split; assumption. }
      exists c. split; [exact Hc|]. exists (new' ++ [pc]). split; [rewrite Htr, <- app_assoc; reflexivity|].
      eapply Hstep; [exact Hceq|]. cbn [wb_cost] in Hcost. lia.
    - (* jump and link *)
      destruct (reg_pair rd val) as [r x] eqn:Erp. cbn [Return PcChange RegisterChange Register RegisterValue NextPc].
      assert (Ers : rset regs r x = rset regs rd val).
      { rewrite <- (rset_reg_pair regs rd val), Erp. reflexivity. }
      rewrite Ers. destruct Hrange as [Hv1 Ha].
      edestruct (IH (rset regs rd val) mem (cycle + c1 + cyclesDecode + (match load_addrs (sinstr_of i) rr with [] => 0 | _ => MemoryAccess end) + c3 + RegisterAccess) win' a (pc :: tr) st' tr')
        as (c & Hc & new' & Htr & Hceq); try eassumption.
      { split; [apply rset_int32; assumption | assumption]. }
      exists c. split; [exact Hc|]. exists (new' ++ [pc]). split; [rewrite Htr, <- app_assoc; reflexivity|].
      eapply Hstep; [exact Hceq|]. cbn [wb_cost] in Hcost. lia.
    - (* ret *)
      cbn [Return]. unfold fetch in Hrun. rewrite Enth in Hrun.
      replace (pc <? 0) with false in Hrun by (symmetry; apply Z.ltb_ge; lia).
      injection Hrun as <- <-.
      eexists. split; [reflexivity|]. exists [pc]. split; [reflexivity|].
      cbn [rev List.app tcost]. rewrite Ef. cbn [tcost wb_cost] in *. lia.
  Qed.

  (* errors of the sequential machine that the ISA defines (division by zero,
     undefined label) are returned as error values, never as a panic or a hang *)
  Theorem mrun_errors v : forall fuel regs mem cycle win pc tr e tr',
    inv regs mem -> int32 pc ->
    run fuel sp labels (mk_arch regs mem) pc tr = Failed e tr' ->
    e = EDivZero \/ e = ELabel ->
    mrun v fuel app labels regs mem cycle win pc = MErr e.
  Proof.
    induction fuel as [|f IH]; intros regs mem cycle win pc tr e0 tr' [Hr Hm] Hpc Hrun He; [discriminate|].
    cbn [run] in Hrun. unfold step in Hrun. cbn [Seq.regs Seq.mem] in Hrun.
    destruct (pc <? 0) eqn:Epc.
    { injection Hrun as <- _. destruct He; discriminate. }
    apply Z.ltb_ge in Epc.
    cbn [mrun]. rewrite (quot_div pc Epc).
    destruct (nth_error sp (Z.to_nat (pc / 4))) as [si|] eqn:Enth.
    2:{ unfold fetch in Hrun. rewrite Enth in Hrun. destruct (pc <? 0); discriminate. }
    destruct (nth_app _ _ Enth) as (i & Ei & ->).
    assert (Hlt : pc / 4 < Z.of_nat (length app)).
    { assert ((Z.to_nat (pc / 4) < length app)%nat) by (apply nth_error_Some; congruence).
      pose proof (Z.div_pos pc 4 Epc ltac:(lia)). lia. }
    replace (pc / 4 <? Z.of_nat (length app)) with true by (symmetry; apply Z.ltb_lt; exact Hlt).
    destruct (fetch12 v pc win) as [c1 win'] eqn:Ef.
    replace (pc / 4 <? 0) with false by (symmetry; apply Z.ltb_ge; apply Z.div_pos; lia).
    rewrite Ei. rewrite memory_read_exact.
    set (rr := rget regs) in *.
    assert (Hrr : forall r, int32 (rr r)) by (intros r; apply rget_int32; exact Hr).
    destruct (negb (forallb (in_mem mem) (load_addrs (sinstr_of i) rr))) eqn:Eb.
    { injection Hrun as <- _. destruct He; discriminate. }
    rewrite (run_refines_spec rr labels pc _ 0 Hrr i (imm_ok _ _ Ei) (load_addrs_mem_ok _ rr mem Hm)).
    destruct (exec (sinstr_of i) rr labels pc (map (mget mem) (load_addrs (sinstr_of i) rr))) as [e|err|] eqn:Eex.
    2:{ injection Hrun as <- _. reflexivity. }
    2:{ injection Hrun as <- _. destruct He; discriminate. }
    cbn [omap].
    destruct (cycles_total i) as (c3 & Ec3 & Hc3). rewrite Ec3.
    pose proof (exec_ranges _ _ _ _ _ _ Hlab Eex) as Hrange.
    destruct (pc_next pc i Epc Ei) as [Hpc4 Hpc4r].
    destruct e as [rd val|bs| |a|rd val a|]; cbn [embed] in *.
    - destruct (reg_pair rd val) as [r x] eqn:Erp. cbn [Return PcChange RegisterChange Register RegisterValue].
      rewrite Hpc4.
      assert (Ers : rset regs r x = rset regs rd val).
      { rewrite <- (rset_reg_pair regs rd val), Erp. reflexivity. }
      rewrite Ers. eapply IH; try eassumption. split; [apply rset_int32; assumption | assumption].
    - cbn [Return PcChange RegisterChange MemoryChange MemoryChanges]. rewrite Hpc4.
      destruct (negb (forallb (in_mem mem) (map fst bs))) eqn:Eb2.
      { injection Hrun as <- _. destruct He; discriminate. }
      eapply IH; try eassumption. split; [assumption | apply mset_all_int8; assumption].
    - cbn [Return PcChange RegisterChange MemoryChange]. rewrite Hpc4.
      eapply IH; try eassumption. split; assumption.
    - cbn [Return PcChange RegisterChange MemoryChange NextPc].
      eapply IH; try eassumption. split; assumption.
    - destruct (reg_pair rd val) as [r x] eqn:Erp. cbn [Return PcChange RegisterChange Register RegisterValue NextPc].
      assert (Ers : rset regs r x = rset regs rd val).
      { rewrite <- (rset_reg_pair regs rd val), Erp. reflexivity. }
      rewrite Ers. destruct Hrange as [Hv1 Ha].
      eapply IH; try eassumption. split; [apply rset_int32; assumption | assumption].
    - unfold fetch in Hrun. rewrite Enth in Hrun. destruct (pc <? 0); discriminate.
  Qed.

  (* ---- facts about tcost ---- *)
  Lemma rest_cost_nonneg pc : 0 <= rest_cost pc.
  Proof.
    unfold rest_cost. destruct (nth_error app (Z.to_nat (pc / 4))) as [i|]; [|lia].
    unfold cost1. destruct (cycles_total i) as (c & -> & Hc).
    unfold MemoryAccess, cyclesDecode, RegisterAccess.
    destruct (InstructionType_IsMemoryRead (instr_InstructionType i)); destruct (is_ret i);
      destruct (instr_WriteRegisters i); destruct (InstructionType_IsMemoryWrite (instr_InstructionType i)); lia.
  Qed.

  Lemma tcost_lower v win tr : Z.of_nat (length tr) <= tcost v win tr.
  Proof.
    revert win. induction tr as [|pc t IH]; intros win; cbn [tcost length]; [lia|].
    pose proof (fetch12_bounds v pc win) as Hf. destruct (fetch12 v pc win) as [c1 win'].
    specialize (IH win'). pose proof (rest_cost_nonneg pc). lia.
  Qed.

  (* every instruction costs at most fetch + decode + memory read + the slowest
     execute (a load: 50) + the slowest write-back (a store: MemoryAccess) *)
  Lemma rest_cost_upper pc : rest_cost pc <= 1 + MemoryAccess + 50 + MemoryAccess.
  Proof.
    unfold rest_cost. destruct (nth_error app (Z.to_nat (pc / 4))) as [i|]; [|unfold MemoryAccess; lia].
    unfold cost1, MemoryAccess, cyclesDecode, RegisterAccess. destruct i; cbn; lia.
  Qed.

  Lemma tcost_upper v win tr : tcost v win tr <= (2 + 3 * MemoryAccess + 50) * Z.of_nat (length tr).
  Proof.
    revert win. induction tr as [|pc t IH]; intros win; cbn [tcost length]; [lia|].
    pose proof (fetch12_bounds v pc win) as Hf. destruct (fetch12 v pc win) as [c1 win'].
    specialize (IH win'). pose proof (rest_cost_upper pc). unfold MemoryAccess in *. lia.
  Qed.

  Lemma tcost_V2_le_V1 win1 win2 tr : tcost V2 win2 tr <= tcost V1 win1 tr.
  Proof.
    revert win1 win2. induction tr as [|pc t IH]; intros win1 win2; cbn [tcost]; [lia|].
    pose proof (fetch12_bounds V2 pc win2) as Hf2. destruct (fetch12 V2 pc win2) as [c2 win2'].
    cbn [fetch12]. specialize (IH win1 win2'). lia.
  Qed.

  Lemma tcost_V1_sum win tr :
    tcost V1 win tr = fold_right (fun pc acc => MemoryAccess + rest_cost pc + acc) 0 tr.
  Proof. induction tr as [|pc t IH]; cbn [tcost fetch12 fold_right]; [reflexivity|]. rewrite IH. reflexivity. Qed.

  (* ---- the property-level statements ---- *)

  (* C01 (MVP-1, MVP-2): the run returns, without error, the registers and
     memory of the sequential machine; C12: and a cycle count that is a
     function of the program and the executed path only *)
  Theorem mvp12_refines_seq v fuel st st' tr :
    inv (regs st) (mem st) ->
    seq_run fuel sp labels st = Done st' tr ->
    mvp12_run v fuel app labels st = MDone (tcost v init_win (rev tr)) st'.
  Proof.
    intros Hinv Hrun. unfold seq_run in Hrun. destruct st as [rg mm].
    destruct (mrun_refines v fuel rg mm 0 init_win 0 [] st' tr Hinv ltac:(unf_rng; lia) Hrun)
      as (c & Hc & new & Htr & Hceq).
    unfold mvp12_run. cbn [regs mem]. rewrite Hc. rewrite app_nil_r in Htr. subst new. f_equal. lia.
  Qed.

  Theorem mvp12_errors_are_values v fuel st e tr :
    inv (regs st) (mem st) ->
    seq_run fuel sp labels st = Failed e tr -> e = EDivZero \/ e = ELabel ->
    mvp12_run v fuel app labels st = MErr e.
  Proof.
    intros Hinv Hrun He. destruct st as [rg mm]. unfold mvp12_run.
    eapply mrun_errors; try eassumption. unf_rng; lia.
  Qed.

  (* C07 (MVP-1, MVP-2): the run terminates without panic within the fuel the
     sequential machine needs, and the cycle count is bounded by a fixed multiple
     of the number of executed instructions times the memory latency *)
  Theorem mvp12_terminates v fuel st st' tr :
    inv (regs st) (mem st) ->
    seq_run fuel sp labels st = Done st' tr ->
    exists c, mvp12_run v fuel app labels st = MDone c st' /\
              c <= (2 + 3 * MemoryAccess + 50) * Z.of_nat (length tr).
  Proof.
    intros Hinv Hrun. eexists. split; [apply mvp12_refines_seq; eassumption|].
    rewrite <- rev_length. apply tcost_upper.
  Qed.

  (* C12: MVP-1's count is the sum over the executed instructions of
     fetch + decode + optional memory read + execute + write-back *)
  Theorem mvp1_cycles_exact fuel st st' tr :
    inv (regs st) (mem st) ->
    seq_run fuel sp labels st = Done st' tr ->
    exists c, mvp12_run V1 fuel app labels st = MDone c st' /\
              c = fold_right (fun pc acc => MemoryAccess + rest_cost pc + acc) 0 (rev tr) /\
              Z.of_nat (length tr) <= c.
  Proof.
    intros Hinv Hrun. eexists. split; [apply mvp12_refines_seq; eassumption|]. split.
    - apply tcost_V1_sum.
    - rewrite <- rev_length. apply tcost_lower.
  Qed.

  (* C12: MVP-2 is never slower than MVP-1 on the same run *)
  Theorem mvp2_never_slower fuel st st' tr :
    inv (regs st) (mem st) ->
    seq_run fuel sp labels st = Done st' tr ->
    exists c1 c2, mvp12_run V1 fuel app labels st = MDone c1 st' /\
                  mvp12_run V2 fuel app labels st = MDone c2 st' /\ c2 <= c1 /\ Z.of_nat (length tr) <= c2.
  Proof.
    intros Hinv Hrun. do 2 eexists. split; [apply mvp12_refines_seq; eassumption|].
    split; [apply mvp12_refines_seq; eassumption|]. split.
    - apply tcost_V2_le_V1.
    - rewrite <- rev_length. apply tcost_lower.
  Qed.

  (* C12: the count does not depend on operand values when the executed path is the same *)
  Theorem mvp12_value_independent v fuel st1 st2 st1' st2' tr :
    inv (regs st1) (mem st1) -> inv (regs st2) (mem st2) ->
    seq_run fuel sp labels st1 = Done st1' tr ->
    seq_run fuel sp labels st2 = Done st2' tr ->
    exists c, mvp12_run v fuel app labels st1 = MDone c st1' /\ mvp12_run v fuel app labels st2 = MDone c st2'.
  Proof.
    intros H1 H2 R1 R2. eexists. split; apply mvp12_refines_seq; eassumption.
  Qed.
End Refine.
