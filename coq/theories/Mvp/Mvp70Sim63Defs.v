(* Lock-step simulation MVP-7.0 (Mvp70.v, hooks70) / MVP-6.3 (Mvp63.v) on programs without loads and stores -
   part 1: the projection, the invariant of a run of MVP-7.0, the per-unit lemmas.

   MVP-7.0 is the pipeline of MVP-6.3 (front3, the branch unit, the RAT functions are literally shared) in front of
   per-core L1Ds behind cache controllers and an MSI directory.  On a program whose TEXT contains no load and no
   store (Mvp4Skel.reg_only) the memory system of MVP-7.0 is never used:
     - the directory stays msi_new (no command, no state, no semaphore),
     - every cache controller stays as NewCPU built it (CC: read / write coroutines at their start, empty snoop
       list, no lock recorded), so cc.flush and cc.snoop.Cycle are the identity and export finds no modified line,
     - no execute unit enters the closures around cc.read / cc.write (h_co is HNone or HPrepare),
     - no write unit sees a memory change (MVP-7.0 would panic, MVP-6.3 would start a pending memory write).
   The machine state of type mx is then THE SAME in the two variants tick by tick; an execute unit of MVP-7.0 is
   projected to the unit of MVP-6.3 with the same coroutine state, memory, runner and sequence id (eu_of).

   Invariant (PX on mx, INV on w7, EU on eu7, WU on wu6): every runner on the control bus / in the pendings / on
   the execute bus / held by a unit carries an instruction that is neither a load nor a store; every entry of the
   write bus has MemoryChange = false; the L3 of MVP-6.3 holds no line.
   For the END of Run (Mvp70Sim63Proofs.v) the invariant also carries, under the section proposition NN ("the
   program writes no register with a negative number"), that the two alias tables are well formed and hold only
   non-negative keys: RATFlush writes ctx.Registers[k] through Seq.upd (Z.to_nat k), which sends every negative k
   to slot 0, so that with a negative key the result of RATCommit; RATFlush depends on Go's map order.

   Per-unit lemmas are EQUATIONS  f3 .. (w_x w) (eu_of e) = (false, lift7 (f7 hooks70 .. w e))  (eu_run_sim,
   eu_prepare_sim, eu_cycle_sim) plus invariance lemmas (eu_run7_inv, eu_prepare7_inv, eu_cycle7_inv). *)
From Coq Require Import ZArith List Bool Lia.
From Maj Require Import Base.Outcome Base.GoInt Base.GoTypes Isa.Spec Isa.Seq.
From Maj Require Import Gen.Latency Gen.RiscTables Gen.Opcodes Comp.Cache Comp.Rat Comp.RatProofs Mvp.Mvp12 Mvp.Mvp3 Mvp.Mvp5 Mvp.Mvp60 Mvp.Mvp63 Mvp.Mvp70.
From Maj Require Import Mvp.Mvp60Proofs Mvp.Mvp63Proofs Mvp.Mvp70Proofs.
From Maj Require Mvp.Mvp4Skel Mvp.Mvp4Inv Mvp.Mvp62RefRel.
Import ListNotations.
Open Scope Z_scope.

(* ------------------------------------------------------------------ *)
(* 1. the class of programs, facts about the ISA tables                 *)
(* ------------------------------------------------------------------ *)

Notation nomem := Mvp4Skel.nomem.
Notation reg_only := Mvp4Skel.reg_only.

(* no instruction of the text writes a register with a negative number (the parser only produces x0 .. x31) *)
Definition wregs_nonneg (app : list instr) : bool :=
  forallb (fun i => forallb (fun r => 0 <=? r) (instr_WriteRegisters i)) app.

Lemma reg_only_nth : forall app n i, reg_only app = true -> nth_error app n = Some i -> nomem i = true.
Proof.
  intros app n i H HN. unfold Mvp4Skel.reg_only in H. rewrite forallb_forall in H.
  apply H. eapply nth_error_In; eassumption.
Qed.

Lemma wregs_nonneg_nth : forall app n i r, wregs_nonneg app = true -> nth_error app n = Some i ->
  In r (instr_WriteRegisters i) -> 0 <= r.
Proof.
  intros app n i r H HN HR. unfold wregs_nonneg in H. rewrite forallb_forall in H.
  specialize (H i (nth_error_In _ _ HN)). rewrite forallb_forall in H. apply Z.leb_le. apply H. exact HR.
Qed.

Lemma nomem_no_read : forall i rr seq, nomem i = true -> instr_MemoryRead i rr seq = [].
Proof. intros i rr seq H. apply Mvp4Inv.nomem_no_read. exact H. Qed.

Lemma nomem_no_change : forall i rr labels pc memory seq exe,
  nomem i = true -> instr_Run i rr labels pc memory seq = Ok exe -> MemoryChange exe = false.
Proof. intros i rr labels pc memory seq exe H E. eapply Mvp62RefRel.nomem_nochange; [exact H | exact E]. Qed.

(* the register of an execution record is x0 or the destination register of the instruction *)
Lemma run_register_written : forall i rr labels pc mem sq exe,
  nomem i = true -> instr_Run i rr labels pc mem sq = Ok exe -> RegisterChange exe = true ->
  Register exe = 0 \/ In (Register exe) (instr_WriteRegisters i).
Proof.
  intros i rr labels pc mem sq exe Hn E. destruct i; try discriminate Hn;
    cbv beta iota zeta delta [instr_Run] in E; autounfold with opcodes in E; cbv beta zeta in E;
    unfold IsRegisterChange in E;
    repeat match type of E with
           | context [if ?c then _ else _] => destruct c eqn:?
           | context [match ?x with _ => _ end] => destruct x eqn:?
           end; try discriminate E; inversion E; subst; cbn; intros HH; try discriminate HH; auto.
Qed.

(* ------------------------------------------------------------------ *)
(* 2. runners and buses                                                 *)
(* ------------------------------------------------------------------ *)

Definition bus_ok {T} (P : T -> Prop) (b : bbus T) : Prop :=
  Forall (fun p => P (snd p)) (bb_buf b) /\ Forall P (bb_q b).

Lemma bus_ok_new : forall {T} (P : T -> Prop) a b, bus_ok P (bb_new a b).
Proof. intros. split; constructor. Qed.

Lemma bus_ok_clean : forall {T} (P : T -> Prop) b, bus_ok P (bb_clean b).
Proof. intros. split; constructor. Qed.

Lemma bus_ok_add : forall {T} (P : T -> Prop) b t cycle, bus_ok P b -> P t -> bus_ok P (bb_add b t cycle).
Proof.
  intros T P b t cycle [H1 H2] HP. split; cbn [bb_add bb_buf bb_q]; [|exact H2].
  apply Forall_app. split; [exact H1|]. constructor; [exact HP|constructor].
Qed.

Lemma bus_ok_setq : forall {T} (P : T -> Prop) b q,
  bus_ok P b -> Forall P q -> bus_ok P (mk_bb (bb_buf b) q (bb_ql b) (bb_bl b)).
Proof. intros T P b q [H1 _] HQ. split; assumption. Qed.

Lemma connect_loop_ok : forall {T} (P : T -> Prop) ql c buf q q' buf',
  bb_connect_loop ql c q buf = (q', buf') ->
  Forall (fun p => P (snd p)) buf -> Forall P q -> Forall (fun p => P (snd p)) buf' /\ Forall P q'.
Proof.
  intros T P ql c. induction buf as [|[a t] buf IH]; intros q q' buf' H HB HQ; cbn [bb_connect_loop] in H.
  - inversion H; subst. split; [constructor|exact HQ].
  - destruct (zlen q =? ql); [inversion H; subst; split; assumption|].
    destruct (a >? c); [inversion H; subst; split; assumption|].
    inversion HB as [|? ? HP HB']; subst. eapply IH; [exact H|exact HB'|].
    apply Forall_app. split; [exact HQ|]. constructor; [exact HP|constructor].
Qed.

Lemma bus_ok_connect : forall {T} (P : T -> Prop) b c, bus_ok P b -> bus_ok P (bb_connect b c).
Proof.
  intros T P b c [H1 H2]. unfold bb_connect.
  destruct (zlen (bb_q b) =? bb_ql b); [split; assumption|].
  destruct (bb_connect_loop (bb_ql b) c (bb_q b) (bb_buf b)) as [q buf] eqn:E.
  destruct (connect_loop_ok P _ _ _ _ _ _ E H1 H2) as [A B]. split; assumption.
Qed.

Ltac split6 := split; [|split; [|split; [|split; [|split]]]].
Ltac dif H := match type of H with (if ?c then _ else _) = _ => destruct c end.

(* ------------------------------------------------------------------ *)
(* 3. the invariant on the machine shared by the two variants           *)
(* ------------------------------------------------------------------ *)

(* what the invariant depends on *)
Definition core_of (x : mx) :=
  (m_l3 (x_m x), m_cbus (x_m x), x_ebus x, x_pend x, m_wbus (x_m x), x_crat x, x_trat x).

Section Inv.
  (* NN: "the program writes no register with a negative number" (True or False in the two uses) *)
  Variable NN : Prop.
  Variable app : list instr.
  Hypothesis Happ : reg_only app = true.
  Hypothesis Hnn : NN -> wregs_nonneg app = true.

  (* a runner carries an instruction of the class *)
  Definition GI (i : instr) : Prop :=
    nomem i = true /\ (NN -> forall r, In r (instr_WriteRegisters i) -> 0 <= r).
  Definition NM (r : runner3) : Prop := GI (q_instr r).
  Definition NMr (r : runner) : Prop := GI (r_instr r).
  (* an entry of the write bus *)
  Definition WOK (c : wb6) : Prop :=
    MemoryChange (w_exe c) = false /\ (NN -> RegisterChange (w_exe c) = true -> 0 <= Register (w_exe c)).
  (* the alias tables *)
  Definition RK (x : mx) : Prop :=
    NN -> rat_ok (x_crat x) /\ rat_ok (x_trat x) /\
          (forall k v, rat_read 0 (x_crat x) k = Some v -> 0 <= k) /\
          (forall k v, rat_read tu0 (x_trat x) k = Some v -> 0 <= k).

  Definition PX (x : mx) : Prop :=
    lines (m_l3 (x_m x)) = [] /\ bus_ok NMr (m_cbus (x_m x)) /\ bus_ok NM (x_ebus x) /\ Forall NM (x_pend x) /\
    bus_ok WOK (m_wbus (x_m x)) /\ RK x.

  Lemma app_nth_GI : forall n i, nth_error app n = Some i -> GI i.
  Proof.
    intros n i H. split; [eapply reg_only_nth; eassumption|].
    intros HN r HR. eapply wregs_nonneg_nth; [exact (Hnn HN)|exact H|exact HR].
  Qed.

  Lemma PX_ext : forall x x', core_of x' = core_of x -> PX x -> PX x'.
  Proof.
    intros x x' E H. unfold core_of in E. inversion E as [[E1 E2 E3 E4 E5 E6 E7]].
    unfold PX, RK. rewrite E1, E2, E3, E4, E5, E6, E7. exact H.
  Qed.

  (* --- frame lemmas --- *)

  Lemma core_set_forward3 : forall x pc reg v, core_of (set_forward3 x pc reg v) = core_of x.
  Proof. reflexivity. Qed.

  Lemma core_bu_assert3 : forall x r, core_of (bu_assert3 x r) = core_of x.
  Proof.
    intros x r. unfold bu_assert3. cbv zeta.
    destruct (InstructionType_IsUnconditionalBranch _).
    - destruct (btb_get _ _); reflexivity.
    - destruct (InstructionType_IsConditionalBranch _); reflexivity.
  Qed.

  Lemma core_bu_resolved3 : forall x pc pcTo, core_of (bu_resolved3 x pc pcTo) = core_of x.
  Proof. reflexivity. Qed.

  Lemma core_wbus_connect3 : forall x cycle, core_of (wbus_connect3 x cycle) =
    (m_l3 (x_m x), m_cbus (x_m x), x_ebus x, x_pend x, bb_connect (m_wbus (x_m x)) cycle, x_crat x, x_trat x).
  Proof. reflexivity. Qed.

  Lemma wbus_connect3_px : forall x cycle, PX x -> PX (wbus_connect3 x cycle).
  Proof.
    intros x cycle (P1 & P2 & P3 & P4 & P5 & P6). unfold PX, RK.
    cbn [wbus_connect3 set_m set_wbus x_m x_ebus x_pend x_crat x_trat m_l3 m_cbus m_wbus].
    split6; try assumption. apply bus_ok_connect. exact P5.
  Qed.

  (* --- du.go --- *)

  Lemma du_loop3_px : forall q cycle ret pbr cbus x ret' pbr' q' cbus' x',
    du_loop3 q app cycle ret pbr cbus x = Ok (ret', pbr', q', cbus', x') ->
    bus_ok NMr cbus -> bus_ok NMr cbus' /\ core_of x' = core_of x.
  Proof.
    induction q as [|pc q IH]; intros cycle ret pbr cbus x ret' pbr' q' cbus' x' H HB; cbn [du_loop3] in H.
    - inversion H; subst. split; [exact HB|reflexivity].
    - destruct (nlen6 app <=? Z.quot pc 4); [inversion H; subst; split; [exact HB|reflexivity]|].
      destruct (Z.quot pc 4 <? 0); [discriminate|].
      destruct (nth_error app (Z.to_nat (Z.quot pc 4))) as [i|] eqn:EN; [|discriminate].
      cbv zeta in H.
      assert (HA : bus_ok NMr (bb_add cbus (mk_runner i pc (sequence_id (set_forward3 x pc 0 0) pc)) cycle)).
      { apply bus_ok_add; [exact HB|]. unfold NMr. cbn [r_instr]. eapply app_nth_GI; eassumption. }
      destruct (InstructionType_IsUnconditionalBranch (instr_InstructionType i));
        [inversion H; subst; split; [exact HA|reflexivity]|].
      destruct (instr_InstructionType i =? Ret); [inversion H; subst; split; [exact HA|reflexivity]|].
      apply IH in H; [|exact HA]. destruct H as [A B]. split; [exact A|]. rewrite B. reflexivity.
  Qed.

  Lemma du_cycle3_px : forall cycle x x', du_cycle3 app cycle x = Ok x' -> PX x -> PX x'.
  Proof.
    intros cycle x x' H HP. unfold du_cycle3 in H. cbv zeta in H.
    destruct (m_dret (x_m x)); [inversion H; subst; exact HP|].
    destruct (m_dpbr (x_m x)); [inversion H; subst; exact HP|].
    apply bind_ok in H as ([[[[ret pbr] q'] cbus'] x1] & E & H). inversion H; subst.
    destruct HP as (P1 & P2 & P3 & P4 & P5 & P6).
    apply du_loop3_px in E; [|exact P2]. destruct E as [A B].
    unfold core_of in B. inversion B as [[B1 B2 B3 B4 B5 B6 B7]].
    unfold PX, RK. cbn [x_m set_m set_cbus set_dbus set_du m_l3 m_cbus m_wbus x_ebus x_pend x_crat x_trat].
    rewrite B3, B4, B6, B7. split6; assumption.
  Qed.

  (* --- cu.go --- *)

  Lemma mark_fwder_nm : forall id ch r, NM r -> NM (mark_fwder id ch r).
  Proof. intros id ch r H. unfold mark_fwder. destruct (q_id r =? id); exact H. Qed.

  Lemma ebus_mark_ok : forall b id ch, bus_ok NM b -> bus_ok NM (ebus_mark b id ch).
  Proof.
    intros b id ch [H1 H2]. split; cbn [ebus_mark bb_buf bb_q].
    - apply Forall_map. cbn [snd]. eapply Forall_impl; [|exact H1]. intros a HA. apply mark_fwder_nm. exact HA.
    - apply Forall_map. eapply Forall_impl; [|exact H2]. intros a HA. apply mark_fwder_nm. exact HA.
  Qed.

  Lemma push_runner3_px : forall x cycle r x' r',
    push_runner3 x cycle r = Some (x', r') -> PX x -> NM r -> PX x' /\ NM r'.
  Proof.
    intros x cycle r x' r' H (P1 & P2 & P3 & P4 & P5 & P6) HR. unfold push_runner3 in H.
    destruct (negb _); [discriminate|]. cbv zeta in H. inversion H; subst.
    split; [|exact HR].
    unfold PX, RK. cbn [set_next3 set_m set_ebus3 x_m x_ebus x_pend x_crat x_trat add_pending6 set_sb m_l3 m_cbus m_wbus].
    split6; try assumption. apply bus_ok_add; [exact P3|exact HR].
  Qed.

  Lemma push_or_stop3_px : forall x cycle r stop push st r1 x1,
    push_or_stop3 x cycle r stop = (push, st, r1, x1) -> PX x -> NM r -> PX x1 /\ NM r1.
  Proof.
    intros x cycle r stop push st r1 x1 H HP HR. unfold push_or_stop3 in H.
    destruct (push_runner3 x cycle r) as [[x' r']|] eqn:E.
    - inversion H; subst. eapply push_runner3_px; eassumption.
    - inversion H; subst. split; assumption.
  Qed.

  Lemma handle_runner3_px : forall ord cycle x skipped pb r push stop r1 x1,
    handle_runner3 ord cycle x skipped pb r = (push, stop, r1, x1) -> PX x -> NM r -> PX x1 /\ NM r1.
  Proof.
    intros ord cycle x skipped pb r push stop r1 x1 H HP HR. unfold handle_runner3 in H. cbv zeta in H.
    dif H; [inversion H; subst; split; assumption|].
    dif H; [inversion H; subst; split; assumption|].
    dif H; [inversion H; subst; split; assumption|].
    dif H; [eapply push_or_stop3_px; eassumption|].
    destruct (should_forward3 _ _ _ _ _) as [[p reg]|].
    - eapply push_or_stop3_px; [exact H| |exact HR].
      destruct HP as (P1 & P2 & P3 & P4 & P5 & P6). unfold PX, RK.
      cbn [set_os3 set_next3 set_ebus3 x_m x_ebus x_pend x_crat x_trat].
      split6; try assumption. apply ebus_mark_ok. exact P3.
    - dif H; [eapply push_or_stop3_px; eassumption|].
      inversion H; subst; split; assumption.
  Qed.

  Lemma after_push3_core : forall x l r, core_of (fst (after_push3 x l r)) = core_of x.
  Proof.
    intros x l r. unfold after_push3. cbv zeta. cbn [fst].
    destruct (InstructionType_IsConditionalBranch _); reflexivity.
  Qed.

  Lemma cu_pending3_px : forall ord cycle ps kept l x st pend' l' x',
    cu_pending3 ord cycle ps kept l x = (st, pend', l', x') ->
    PX x -> Forall NM ps -> Forall NM kept -> PX x' /\ Forall NM pend'.
  Proof.
    intros ord cycle. induction ps as [|r t IH]; intros kept l x st pend' l' x' H HP HPS HK; cbn [cu_pending3] in H.
    - inversion H; subst. split; [exact HP|]. apply Forall_rev. exact HK.
    - inversion HPS as [|? ? HR HT]; subst.
      destruct (handle_runner3 ord cycle x (l_skipped l) (l_pbranch l) r) as [[[push stop] r1] x1] eqn:E.
      apply handle_runner3_px in E; [|exact HP|exact HR]. destruct E as [HP1 HR1].
      destruct push.
      + pose proof (PX_ext _ _ (after_push3_core x1 l r1) HP1) as HP2.
        destruct (after_push3 x1 l r1) as [x2 l2] eqn:EA. cbn [fst] in HP2. cbv beta iota zeta in H.
        destruct stop.
        * inversion H; subst. split; [exact HP2|]. apply Forall_app. split; [apply Forall_rev; exact HK|exact HT].
        * eapply IH; [exact H|exact HP2|exact HT|exact HK].
      + cbv beta iota zeta in H. destruct stop.
        * inversion H; subst. split; [exact HP1|]. apply Forall_app.
          split; [apply Forall_app; split; [apply Forall_rev; exact HK|constructor; [exact HR|constructor]]|exact HT].
        * eapply IH; [exact H|exact HP1|exact HT|constructor; assumption].
  Qed.

  Lemma cu_incoming3_px : forall ord cycle q pend l x q' pend' l' x',
    cu_incoming3 ord cycle q pend l x = (q', pend', l', x') ->
    PX x -> Forall NMr q -> Forall NM pend -> PX x' /\ Forall NMr q' /\ Forall NM pend'.
  Proof.
    intros ord cycle. induction q as [|r0 t IH]; intros pend l x q' pend' l' x' H HP HQ HPD; cbn [cu_incoming3] in H.
    - destruct (pendingLength <=? zlen pend); inversion H; subst; auto.
    - destruct (pendingLength <=? zlen pend); [inversion H; subst; auto|].
      inversion HQ as [|? ? HR HT]; subst.
      destruct (handle_runner3 ord cycle x (l_skipped l) (l_pbranch l) (r3_of r0)) as [[[push stop] r1] x1] eqn:E.
      apply handle_runner3_px in E; [|exact HP|exact HR]. destruct E as [HP1 HR1].
      destruct push.
      + pose proof (PX_ext _ _ (after_push3_core x1 l r1) HP1) as HP2.
        destruct (after_push3 x1 l r1) as [x2 l2] eqn:EA. cbn [fst] in HP2. cbv beta iota zeta in H.
        destruct stop.
        * inversion H; subst. auto.
        * eapply IH; [exact H|exact HP2|exact HT|exact HPD].
      + cbv beta iota zeta in H.
        assert (HPD' : Forall NM (pend ++ [r1])).
        { apply Forall_app. split; [exact HPD|constructor; [exact HR1|constructor]]. }
        destruct stop.
        * inversion H; subst. auto.
        * eapply IH; [exact H|exact HP1|exact HT|exact HPD'].
  Qed.

  Lemma cu_cycle3_px : forall ord cycle x, PX x -> PX (cu_cycle3 ord cycle x).
  Proof.
    intros ord cycle x HP. unfold cu_cycle3.
    destruct (negb _); [eapply PX_ext; [|exact HP]; reflexivity|].
    destruct (cu_pending3 ord cycle (x_pend x) [] (mk_cul [] [] false) x) as [[[stopped pend1] l1] x1] eqn:E1.
    apply cu_pending3_px in E1; [|exact HP|destruct HP as (_ & _ & _ & P4 & _); exact P4|constructor].
    destruct E1 as [(P1 & P2 & P3 & P4 & P5 & P6) HPD1].
    destruct stopped.
    - unfold PX, RK. cbn [set_prev3 set_pend3 x_m x_ebus x_pend x_crat x_trat]. split6; assumption.
    - destruct (cu_incoming3 ord cycle (bb_q (m_cbus (x_m x1))) pend1 l1 x1) as [[[q' pend2] l2] x2] eqn:E2.
      apply cu_incoming3_px in E2; [|split6; assumption|destruct P2 as [_ P2]; exact P2|exact HPD1].
      destruct E2 as [(Q1 & Q2 & Q3 & Q4 & Q5 & Q6) [HQ' HPD2]].
      unfold PX, RK. cbn [set_prev3 set_pend3 set_m set_cbus x_m x_ebus x_pend x_crat x_trat m_l3 m_cbus m_wbus].
      split6; try assumption. apply bus_ok_setq; assumption.
  Qed.

  (* --- the first half of a tick --- *)

  Lemma front3_px : forall ord cycle x x', front3 app ord cycle x = Ok x' -> PX x -> PX x'.
  Proof.
    intros ord cycle x x' H HP. unfold front3 in H. cbv zeta in H.
    apply bind_ok in H as ([[fu1 l1i1] dbus1] & _ & H).
    apply bind_ok in H as (x1 & ED & H). inversion H; subst.
    apply cu_cycle3_px. eapply du_cycle3_px; [exact ED|].
    destruct HP as (P1 & P2 & P3 & P4 & P5 & P6). unfold PX, RK.
    cbn [set_m set_ebus3 set_dbus set_l1i set_fu set_wbus set_cbus x_m x_ebus x_pend x_crat x_trat m_l3 m_cbus m_wbus].
    split6; try assumption; apply bus_ok_connect; assumption.
  Qed.

  (* --- cpu.go: flush --- *)

  Lemma do_flush3_px : forall x pc, PX x -> PX (do_flush3 x pc).
  Proof.
    intros x pc (P1 & P2 & P3 & P4 & P5 & P6). unfold PX, RK.
    cbn [do_flush3 do_flush6 inc_seq3 set_seq3 set_m set_pcb3 set_prev3 set_pend3 set_ebus3 x_m x_ebus x_pend x_crat x_trat
         m_l3 m_cbus m_wbus].
    split6; try assumption; try apply bus_ok_clean. constructor.
  Qed.

  (* --- the alias tables --- *)

  Lemma rat_new_read : forall (V : Type) (z : V) len k, rat_read z (rat_new len) k = None.
  Proof. reflexivity. Qed.

  Lemma ratLength_ok : forall V, @rat_ok V (rat_new ratLength).
  Proof. intros V. apply rat_new_ok. unfold ratLength. lia. Qed.

  (* for k, v := range vals { committedRAT.Write(k, v.value) } keeps the table well formed; its keys afterwards are
     keys of vals or keys it had *)
  Lemma commit_vals_rk : forall ord cycle crat vals,
    rat_ok crat -> (forall k v, rat_read 0 crat k = Some v -> 0 <= k) -> (forall k v, aget k vals = Some v -> 0 <= k) ->
    rat_ok (commit_vals ord cycle crat vals) /\ forall k v, rat_read 0 (commit_vals ord cycle crat vals) k = Some v -> 0 <= k.
  Proof.
    intros ord cycle crat vals HO HK HV.
    change (commit_vals ord cycle crat vals)
      with (wfold 0 (fun tu : Z * Z => snd tu) vals (map_order ord cycle (-1) (akeys vals)) crat).
    destruct (fold_rat_write_read 0 (fun tu : Z * Z => snd tu) vals (map_order ord cycle (-1) (akeys vals)) crat HO) as [A B].
    split; [exact A|]. intros k v H. rewrite B in H.
    destruct (memZ k (map_order ord cycle (-1) (akeys vals))); [|eapply HK; exact H].
    destruct (aget k vals) as [a|] eqn:EA; [eapply HV; exact EA|eapply HK; exact H].
  Qed.

  Lemma rat_commit3_px : forall ord cycle x, PX x -> PX (rat_commit3 ord cycle x).
  Proof.
    intros ord cycle x (P1 & P2 & P3 & P4 & P5 & P6). unfold PX.
    cbn [rat_commit3 set_rats3 x_m x_ebus x_pend]. split6; try assumption.
    intros HN. destruct (P6 HN) as (R1 & R2 & R3 & R4). cbn [rat_commit3 set_rats3 x_crat x_trat].
    destruct (commit_vals_rk ord cycle (x_crat x) (rat_values tu0 (x_trat x)) R1 R3) as [A B].
    { intros k v H. rewrite aget_rat_values in H. eapply R4. exact H. }
    split; [exact A|]. split; [apply ratLength_ok|]. split; [exact B|].
    intros k v H. rewrite rat_new_read in H. discriminate.
  Qed.

  Lemma rat_rollback3_px : forall ord cycle x s, PX x -> PX (rat_rollback3 ord cycle x s).
  Proof.
    intros ord cycle x s (P1 & P2 & P3 & P4 & P5 & P6). unfold PX.
    cbn [rat_rollback3 set_rats3 x_m x_ebus x_pend]. split6; try assumption.
    intros HN. destruct (P6 HN) as (R1 & R2 & R3 & R4). cbn [rat_rollback3 set_rats3 x_crat x_trat].
    destruct (commit_vals_rk ord cycle (x_crat x) (rat_findvalues tu0 (x_trat x) (fun u => fst u <? s)) R1 R3) as [A B].
    { intros k v H. rewrite (aget_rat_findvalues tu0 (x_trat x) _ k R2) in H.
      unfold rat_find in H. destruct (aget k (r_tab (x_trat x))) as [e|] eqn:EA; [|discriminate].
      apply (R4 k (slot tu0 e (e_idx e))). unfold rat_read. rewrite EA. reflexivity. }
    split; [exact A|]. split; [apply ratLength_ok|]. split; [exact B|].
    intros k v H. rewrite rat_new_read in H. discriminate.
  Qed.

  Lemma rat_read_write_gen : forall (V : Type) (z : V) (t : @rat V) k v q, rat_ok t ->
    rat_read z (rat_write z t k v) q = if q =? k then Some v else rat_read z t q.
  Proof.
    intros V z t k v q Hok. rewrite !rat_read_view by (try apply rat_write_ok; exact Hok). rewrite rat_view_write by exact Hok.
    destruct (q =? k); [|reflexivity]. destruct Hok as [Hn _]. destruct (nlen t); [lia | reflexivity].
  Qed.

  (* --- wu.go --- *)

  Definition WU (w : wu6) : Prop := u_co w = WNone.

  Lemma wu_cycle7_px : forall x w before x' w',
    wu_cycle7 x w before = Ok (x', w') -> PX x -> PX x' /\ w' = w.
  Proof.
    intros x w before x' w' H (P1 & P2 & P3 & P4 & P5 & P6). unfold wu_cycle7 in H. cbv zeta in H.
    unfold bb_get in H. destruct (bb_q (m_wbus (x_m x))) as [|c t] eqn:EQ.
    - inversion H; subst. split; [|reflexivity].
      unfold PX, RK. cbn [set_m set_wbus x_m x_ebus x_pend x_crat x_trat m_l3 m_cbus m_wbus]. split6; assumption.
    - assert (HC : WOK c /\ bus_ok WOK (mk_bb (bb_buf (m_wbus (x_m x))) t (bb_ql (m_wbus (x_m x))) (bb_bl (m_wbus (x_m x))))).
      { destruct P5 as [B1 B2]. rewrite EQ in B2. inversion B2; subst. split; [assumption|split; assumption]. }
      destruct HC as [[HC1 HC2] HB].
      destruct (negb (before =? -1) && (before <? w_seq c)).
      { inversion H; subst. split; [|reflexivity].
        unfold PX, RK. cbn [set_m set_wbus x_m x_ebus x_pend x_crat x_trat m_l3 m_cbus m_wbus]. split6; assumption. }
      destruct (RegisterChange (w_exe c)) eqn:ER.
      { inversion H; subst. split; [|reflexivity].
        unfold PX. cbn [set_m set_rats3 set_wbus del_pending6 set_sb x_m x_ebus x_pend m_l3 m_cbus m_wbus]. split6; try assumption.
        intros HN. destruct (P6 HN) as (R1 & R2 & R3 & R4).
        cbn [set_m set_rats3 x_crat x_trat]. split; [exact R1|]. split; [apply rat_write_ok; exact R2|]. split; [exact R3|].
        intros k v HK. rewrite rat_read_write_gen in HK by exact R2.
        destruct (Z.eqb_spec k (Register (w_exe c))) as [->|]; [apply HC2; [exact HN|reflexivity]|eapply R4; exact HK]. }
      rewrite HC1 in H. inversion H; subst. split; [|reflexivity].
      unfold PX, RK. cbn [set_m set_wbus del_pending6 set_sb x_m x_ebus x_pend x_crat x_trat m_l3 m_cbus m_wbus]. split6; assumption.
  Qed.

  (* on such a write bus the write unit of MVP-6.3 is the write unit of MVP-7.0 *)
  Lemma wu_cycle_sim : forall x w before, PX x -> WU w -> wu_cycle3 x w before = wu_cycle7 x w before.
  Proof.
    intros x w before (P1 & P2 & P3 & P4 & P5 & P6) HW. unfold wu_cycle3, wu_cycle7. rewrite HW. cbv zeta.
    unfold bb_get. destruct (bb_q (m_wbus (x_m x))) as [|c t] eqn:EQ; [reflexivity|].
    assert (HC : WOK c). { destruct P5 as [_ B2]. rewrite EQ in B2. inversion B2; assumption. }
    destruct (negb (before =? -1) && (before <? w_seq c)); [reflexivity|].
    destruct (RegisterChange (w_exe c)); [reflexivity|].
    destruct HC as [HC _]. rewrite HC. reflexivity.
  Qed.

  Lemma wus_cycle_sim : forall wus x before, PX x -> Forall WU wus -> wus_cycle3 x wus before = wus_cycle7 x wus before.
  Proof.
    induction wus as [|w t IH]; intros x before HP HW; cbn [wus_cycle3 wus_cycle7]; [reflexivity|].
    inversion HW as [|? ? HW1 HWT]; subst.
    rewrite (wu_cycle_sim x w before HP HW1).
    destruct (wu_cycle7 x w before) as [[x1 w1]| |] eqn:E1; [|reflexivity|reflexivity].
    cbn [bind fst snd]. apply wu_cycle7_px in E1; [|exact HP]. destruct E1 as [HP1 _].
    rewrite (IH x1 before HP1 HWT). reflexivity.
  Qed.

  Lemma wus_cycle7_px : forall wus x before x' wus',
    wus_cycle7 x wus before = Ok (x', wus') -> PX x -> PX x' /\ wus' = wus.
  Proof.
    induction wus as [|w t IH]; intros x before x' wus' H HP; cbn [wus_cycle7] in H.
    - inversion H; subst. split; [exact HP|reflexivity].
    - apply bind_ok in H as ([x1 w1] & E1 & H). apply bind_ok in H as ([x2 t2] & E2 & H).
      cbn [fst snd] in *. inversion H; subst.
      apply wu_cycle7_px in E1; [|exact HP]. destruct E1 as [A B].
      apply IH in E2; [|exact A]. destruct E2 as [C D]. split; [exact C|]. rewrite B, D. reflexivity.
  Qed.

  (* ------------------------------------------------------------------ *)
  (* 4. the memory system of MVP-7.0 stays idle                           *)
  (* ------------------------------------------------------------------ *)

  (* a controller as NewCPU leaves it (whatever its L1D) *)
  Definition CC (c : cc7) : Prop :=
    c_rd c = RStart /\ c_wr c = WStart /\ c_snoop c = [] /\ c_rsems c = [] /\ c_wsems c = [].

  Definition RNM (e : eu7) : Prop := forall r, h_runner e = Some r -> NM r.
  Definition EU (e : eu7) : Prop := (h_co e = HNone \/ h_co e = HPrepare) /\ RNM e /\ CC (h_cc e).
  Definition INV (w : w7) : Prop := w_i w = msi_new /\ PX (w_x w).

  Lemma INV_set_wx : forall w x', INV w -> PX x' -> INV (set_wx w x').
  Proof. intros w x' [I1 _] HP. split; [exact I1|exact HP]. Qed.

  Lemma INV_set_wx_core : forall w x', INV w -> core_of x' = core_of (w_x w) -> INV (set_wx w x').
  Proof. intros w x' HI E. apply INV_set_wx; [exact HI|]. eapply PX_ext; [exact E|]. exact (proj2 HI). Qed.

  (* cc.flush of a controller without recorded locks is the identity *)
  Lemma cc_flush_idle : forall i c, CC c -> cc_flush i c = Ok (i, c).
  Proof.
    intros i [l1 rd wr sn rs ws po] (A & B & C & D & E). cbn [c_rd c_wr c_snoop c_rsems c_wsems] in A, B, C, D, E.
    subst. reflexivity.
  Qed.

  Definition flushed7 (e : eu7) : eu7 := mk_eu7 HNone (h_memory e) (h_runner e) 0 (h_cc e).

  Lemma eu_flush7_idle : forall i e, CC (h_cc e) -> eu_flush7 i e = Ok (i, flushed7 e).
  Proof. intros i e HC. unfold eu_flush7. rewrite (cc_flush_idle i (h_cc e) HC). reflexivity. Qed.

  Lemma eus_flush_all7_idle : forall eus i, Forall EU eus -> eus_flush_all7 i eus = Ok (i, map flushed7 eus).
  Proof.
    induction eus as [|e t IH]; intros i HE; cbn [eus_flush_all7 map]; [reflexivity|].
    inversion HE as [|? ? H1 HT]; subst. destruct H1 as (_ & _ & HC).
    rewrite (eu_flush7_idle i e HC). cbn [bind fst snd]. rewrite (IH i HT). reflexivity.
  Qed.

  (* coSnoop with no command in the directory creates no closure *)
  Lemma cc_snoop_idle : forall kev mem i id c, i_cmds i = [] -> CC c -> cc_snoop_cycle kev mem i id c = Ok (mem, i, c).
  Proof.
    intros kev mem i id [l1 rd wr sn rs ws po] HK (A & B & C & D & E). cbn [c_rd c_wr c_snoop c_rsems c_wsems] in A, B, C, D, E.
    subst. unfold cc_snoop_cycle. cbn [c_snoop c_l1d snoop_items bind]. unfold co_snoop. rewrite HK. reflexivity.
  Qed.

  Lemma set_wmem_same : forall w, set_wmem (set_wi w (w_i w)) (w_mem w) = w.
  Proof. intros [[m eb pe pr pcb sq cr tr fw ch nx os] i cp pf]. destruct m. reflexivity. Qed.

  Lemma set_hcc_same : forall e, set_hcc e (h_cc e) = e.
  Proof. intros []. reflexivity. Qed.

  (* for _, cc := range m.cacheControllers { cc.snoop.Cycle(struct{}{}) } does nothing *)
  Lemma snoops7_idle : forall hk eus id w, w_i w = msi_new -> Forall EU eus -> snoops7 hk id w eus = Ok (w, eus).
  Proof.
    intros hk. induction eus as [|e t IH]; intros id w HI HE; cbn [snoops7]; [reflexivity|].
    inversion HE as [|? ? H1 HT]; subst. destruct H1 as (_ & _ & HC).
    rewrite (cc_snoop_idle (k_evict hk) (w_mem w) (w_i w) id (h_cc e)); [|rewrite HI; reflexivity|exact HC].
    cbn [bind]. cbv beta iota. rewrite set_wmem_same, (IH (id + 1) w HI HT). cbn [bind fst snd].
    rewrite set_hcc_same. reflexivity.
  Qed.

  (* export with a directory that holds no state writes nothing and costs nothing *)
  Lemma cc_export_idle : forall i id ls mem c, i_states i = [] -> cc_export i id ls mem c = Ok (mem, c).
  Proof.
    intros i id ls mem c HS. induction ls as [|l t IH]; cbn [cc_export]; [reflexivity|].
    unfold state_get. rewrite HS. cbn [find]. exact IH.
  Qed.

  Lemma export7_idle : forall i eus id mem c, i_states i = [] -> export7 i id eus mem c = Ok (mem, c).
  Proof.
    intros i. induction eus as [|e t IH]; intros id mem c HS; cbn [export7]; [reflexivity|].
    rewrite (cc_export_idle i id _ mem c HS). cbn [bind fst snd]. apply IH. exact HS.
  Qed.

  (* ------------------------------------------------------------------ *)
  (* 5. projection and the execute units                                  *)
  (* ------------------------------------------------------------------ *)

  Definition co_of (c : eu_co7) : eu_co := match c with HPrepare => EPrepare | _ => ENone end.
  Definition eu_of (e : eu7) : eu3 := mk_eu3 (co_of (h_co e)) (h_memory e) (h_runner e) (h_seq e).

  Definition lift7 (o : eu_res7) : outcome (mx * eu3 * eu_out3) :=
    match o with Ok (w', e', out) => Ok (w_x w', eu_of e', out) | Err er => Err er | Panic => Panic end.

  Lemma eu_pre3_of : forall e, eu_pre3 (eu_of e) = eu_pre7 e.
  Proof. reflexivity. Qed.

  Lemma eu_empty3_of : forall e, EU e -> eu_empty3 (eu_of e) = eu_empty7 e.
  Proof. intros e [[H|H] _]; unfold eu_empty3, eu_empty7; cbn [eu_of g_co]; rewrite H; reflexivity. Qed.

  (* run never looks at the coroutine state of the unit *)
  Lemma eu_run3_co : forall labels ord cycle x c c' m r s,
    eu_run3 labels ord cycle x (mk_eu3 c m r s) = eu_run3 labels ord cycle x (mk_eu3 c' m r s).
  Proof. reflexivity. Qed.

  (* --- run --- *)

  Lemma eu_run_sim : forall labels ord cycle id w e, RNM e ->
    eu_run3 labels ord cycle (w_x w) (eu_of e) = (false, lift7 (eu_run7 hooks70 labels ord cycle id w e)).
  Proof.
    intros labels ord cycle id w [co mm run sq cc] H. unfold eu_run3, eu_run7.
    cbn [eu_of g_runner g_memory g_seq g_co h_runner h_memory h_seq h_co h_cc hooks70 k_rr].
    unfold RNM in H. cbn [h_runner] in H. destruct run as [r|]; [|reflexivity].
    destruct (H r eq_refl) as [HN _]. cbv zeta. cbv beta iota.
    destruct (instr_Run (q_instr r) (rr3 (w_x w) (q_pc r)) labels (q_pc r) mm 0) as [exe|er|] eqn:EX;
      [|reflexivity|reflexivity].
    rewrite (nomem_no_change _ _ _ _ _ _ _ HN EX).
    destruct (Return exe); [reflexivity|].
    cbn [andb bind]. cbv beta iota.
    destruct (q_fwder r) as [ch|].
    - destruct (aget ch _); [reflexivity|]. destruct (InstructionType_IsBranch _); reflexivity.
    - destruct (PcChange exe); [|reflexivity].
      destruct (bu_should_flush6 _ _) as [b' fl]. reflexivity.
  Qed.

  Lemma eu_run7_inv : forall labels ord cycle id w e w' e' o,
    eu_run7 hooks70 labels ord cycle id w e = Ok (w', e', o) -> INV w -> RNM e -> CC (h_cc e) -> INV w' /\ EU e'.
  Proof.
    intros labels ord cycle id w e w' e' o H HI HR HC. unfold eu_run7 in H. cbn [hooks70 k_rr] in H. cbv zeta in H. cbv beta iota in H.
    unfold RNM in HR. destruct (h_runner e) as [r|] eqn:ER; [|discriminate].
    assert (HN : NM r) by (apply HR; reflexivity).
    assert (HE0 : EU (set_hco e HNone)).
    { split; [left; reflexivity|]. split; [|exact HC]. intros r' Hr'. cbn [set_hco h_runner] in Hr'. rewrite ER in Hr'.
      inversion Hr'; subst. exact HN. }
    destruct (instr_Run _ _ _ _ _ _) as [exe|er|] eqn:EX; [| |discriminate].
    2: { inversion H; subst. split; [apply INV_set_wx_core; [exact HI|reflexivity]|exact HE0]. }
    rewrite (nomem_no_change _ _ _ _ _ _ _ (proj1 HN) EX) in H.
    destruct (Return exe); [inversion H; subst; split; [apply INV_set_wx_core; [exact HI|reflexivity]|exact HE0]|].
    (* the machine once the result is on the write bus *)
    set (x0 := set_forward3 (w_x w) (q_pc r) 0 0) in *.
    set (x1 := set_m x0 (set_wbus (x_m x0) (bb_add (m_wbus (x_m x0))
                 (mk_wb6 (q_seq r) exe (instr_ReadRegisters (q_instr r)) (instr_WriteRegisters (q_instr r))) cycle))) in *.
    assert (HP1 : PX x1).
    { destruct HI as [_ (P1 & P2 & P3 & P4 & P5 & P6)]. unfold PX, RK, x1, x0.
      cbn [set_forward3 set_fwd3 set_m set_wbus x_m x_ebus x_pend x_crat x_trat m_l3 m_cbus m_wbus].
      split6; try assumption. apply bus_ok_add; [exact P5|]. split; cbn [w_exe].
      - exact (nomem_no_change _ _ _ _ _ _ _ (proj1 HN) EX).
      - intros HNN HRC. destruct (run_register_written _ _ _ _ _ _ _ (proj1 HN) EX HRC) as [E0|HIn]; [lia|].
        exact (proj2 HN HNN _ HIn). }
    destruct (q_fwder r) as [ch|].
    - destruct (aget ch (x_chan x1)); [discriminate|]. destruct (InstructionType_IsBranch _); [discriminate|].
      inversion H; subst. split; [|exact HE0]. apply INV_set_wx; [exact HI|]. eapply PX_ext; [|exact HP1]. reflexivity.
    - set (x2 := if InstructionType_IsUnconditionalBranch (instr_InstructionType (q_instr r))
                 then bu_resolved3 x1 (q_pc r) (NextPc exe) else x1) in *.
      assert (HP2 : PX x2).
      { unfold x2. destruct (InstructionType_IsUnconditionalBranch _); [|exact HP1].
        eapply PX_ext; [apply core_bu_resolved3|exact HP1]. }
      set (x3 := if InstructionType_IsConditionalBranch (instr_InstructionType (q_instr r))
                 then if PcChange exe && negb (NextPc exe =? addS 32 (q_pc r) 4)
                      then rat_rollback3 ord cycle (set_pcb3 x2 false) (q_seq r)
                      else rat_commit3 ord cycle (set_pcb3 x2 false)
                 else x2) in *.
      assert (HP3 : PX x3).
      { unfold x3. destruct (InstructionType_IsConditionalBranch _); [|exact HP2].
        assert (HPB : PX (set_pcb3 x2 false)) by (eapply PX_ext; [|exact HP2]; reflexivity).
        destruct (PcChange exe && negb (NextPc exe =? addS 32 (q_pc r) 4)); [apply rat_rollback3_px|apply rat_commit3_px]; exact HPB. }
      destruct (PcChange exe).
      + destruct (bu_should_flush6 (m_bu (x_m x3)) (NextPc exe)) as [b' fl]. inversion H; subst.
        split; [|exact HE0]. apply INV_set_wx; [exact HI|]. eapply PX_ext; [|exact HP3]. reflexivity.
      + inversion H; subst. split; [|exact HE0]. apply INV_set_wx; [exact HI|exact HP3].
  Qed.

  (* --- prepareRun --- *)

  Lemma eu_prepare_sim : forall labels ord cycle id w e, RNM e ->
    eu_prepare3 labels ord cycle (w_x w) (eu_of e) = (false, lift7 (eu_prepare7 hooks70 labels ord cycle id w e)).
  Proof.
    intros labels ord cycle id w e H. unfold eu_prepare3, eu_prepare7. cbv zeta.
    destruct (negb (bb_canadd (m_wbus (x_m (w_x w))))); [reflexivity|].
    cbn [eu_of g_runner g_memory g_seq g_co hooks70 k_rr].
    unfold RNM in H. destruct (h_runner e) as [r|] eqn:ER; [|reflexivity].
    pose proof (H r eq_refl) as HN.
    set (rcv := match q_recv r with
                | None => Some (w_x w, r)
                | Some ch => match aget ch (x_chan (w_x w)) with
                             | None => None
                             | Some v => Some (set_forward3 (set_chan3 (w_x w) (filter (fun p => negb (fst p =? ch)) (x_chan (w_x w)))) (q_pc r) (q_freg r) v,
                                               mk_r3 (q_r r) (q_id r) (q_fwder r) None (q_freg r))
                             end
                end).
    assert (HR1 : forall x0 r1, rcv = Some (x0, r1) -> NM r1).
    { intros x0 r1 EV. unfold rcv in EV. destruct (q_recv r) as [ch|].
      - destruct (aget ch _); [|discriminate]. inversion EV; subst. exact HN.
      - inversion EV; subst. exact HN. }
    destruct rcv as [[x0 r1]|]; [|reflexivity].
    specialize (HR1 x0 r1 eq_refl). cbv beta iota.
    rewrite !nomem_no_read by exact (proj1 HR1).
    rewrite (eu_run3_co labels ord cycle (bu_assert3 x0 (q_r r1)) (co_of (h_co e)) ENone).
    exact (eu_run_sim labels ord cycle id (set_wx w (bu_assert3 x0 (q_r r1)))
             (set_hco (mk_eu7 (h_co e) (h_memory e) (Some r1) (h_seq e) (h_cc e)) HNone)
             (fun r' Hr' => match Hr' in _ = o return match o with Some r'' => NM r'' | None => True end
                            with eq_refl => HR1 end)).
  Qed.

  Lemma eu_prepare7_inv : forall labels ord cycle id w e w' e' o,
    eu_prepare7 hooks70 labels ord cycle id w e = Ok (w', e', o) -> INV w -> EU e -> INV w' /\ EU e'.
  Proof.
    intros labels ord cycle id w e w' e' o H HI HE. unfold eu_prepare7 in H. cbv zeta in H.
    destruct (negb _); [inversion H; subst; split; assumption|].
    pose proof HE as (_ & HR & HC). unfold RNM in HR.
    destruct (h_runner e) as [r|] eqn:ER; [|discriminate].
    assert (HN : NM r) by (apply HR; reflexivity).
    cbn [hooks70 k_rr] in H.
    destruct (q_recv r) as [ch|].
    - destruct (aget ch (x_chan (w_x w))) as [v|]; [|inversion H; subst; split; assumption].
      cbv beta iota zeta in H. rewrite nomem_no_read in H by exact (proj1 HN).
      eapply eu_run7_inv; [exact H| | |exact HC].
      + apply INV_set_wx_core; [exact HI|]. rewrite core_bu_assert3. reflexivity.
      + intros r' Hr'. cbn [set_hco h_runner] in Hr'. inversion Hr'; subst. exact HN.
    - cbv beta iota zeta in H. rewrite nomem_no_read in H by exact (proj1 HN).
      eapply eu_run7_inv; [exact H| | |exact HC].
      + apply INV_set_wx_core; [exact HI|]. rewrite core_bu_assert3. reflexivity.
      + intros r' Hr'. cbn [set_hco h_runner] in Hr'. inversion Hr'; subst. exact HN.
  Qed.

  (* --- executeUnit.Cycle --- *)

  Lemma eu_cycle_sim : forall labels ord cycle id w e, INV w -> EU e ->
    eu_cycle3 labels ord cycle (w_x w) (eu_of e) = (false, lift7 (eu_cycle7 hooks70 labels ord cycle id w e)).
  Proof.
    intros labels ord cycle id w e HI (HC & HR & HCC). unfold eu_cycle3, eu_cycle7. rewrite eu_pre3_of.
    destruct (eu_pre7 e).
    - cbn [hooks70 k_pending]. rewrite (eu_flush7_idle (w_i w) e HCC). reflexivity.
    - change (g_co (eu_of e)) with (co_of (h_co e)).
      destruct HC as [HC|HC]; rewrite HC; cbn [co_of].
      + cbn [hooks70 k_take]. unfold bb_get.
        destruct (bb_q (x_ebus (w_x w))) as [|r q'] eqn:EQ; [reflexivity|].
        assert (HN : NM r). { destruct HI as [_ (_ & _ & [_ P3] & _)]. rewrite EQ in P3. inversion P3; assumption. }
        exact (eu_prepare_sim labels ord cycle id
                 (set_wx w (set_ebus3 (w_x w) (mk_bb (bb_buf (x_ebus (w_x w))) q' (bb_ql (x_ebus (w_x w))) (bb_bl (x_ebus (w_x w))))))
                 (mk_eu7 HPrepare (h_memory e) (Some r) (h_seq e) (h_cc e))
                 (fun r' Hr' => match Hr' in _ = o return match o with Some r'' => NM r'' | None => True end
                                with eq_refl => HN end)).
      + assert (EE : mk_eu3 EPrepare (h_memory e) (h_runner e) (h_seq e) = eu_of e)
          by (unfold eu_of; rewrite HC; reflexivity).
        change (eu_of e) with (mk_eu3 (co_of (h_co e)) (h_memory e) (h_runner e) (h_seq e)). rewrite HC. cbn [co_of].
        rewrite EE. apply eu_prepare_sim. exact HR.
  Qed.

  Lemma eu_cycle7_inv : forall labels ord cycle id w e w' e' o,
    eu_cycle7 hooks70 labels ord cycle id w e = Ok (w', e', o) -> INV w -> EU e -> INV w' /\ EU e'.
  Proof.
    intros labels ord cycle id w e w' e' o H HI HE. unfold eu_cycle7 in H.
    pose proof HE as (HC & HR & HCC).
    destruct (eu_pre7 e).
    - cbn [hooks70 k_pending] in H. rewrite (eu_flush7_idle (w_i w) e HCC) in H. cbn [bind fst snd] in H.
      inversion H; subst. split.
      + destruct HI as [I1 I2]. split; [exact I1|exact I2].
      + split; [left; reflexivity|]. split; [exact HR|exact HCC].
    - destruct HC as [HC|HC]; rewrite HC in H.
      + cbn [hooks70 k_take] in H. unfold bb_get in H.
        destruct (bb_q (x_ebus (w_x w))) as [|r q'] eqn:EQ; [inversion H; subst; split; assumption|].
        pose proof HI as [I1 (P1 & P2 & P3 & P4 & P5 & P6)].
        assert (HN : NM r /\ Forall NM q'). { destruct P3 as [_ P3]. rewrite EQ in P3. inversion P3; split; assumption. }
        eapply eu_prepare7_inv; [exact H| |].
        * apply INV_set_wx; [exact HI|]. unfold PX, RK. cbn [set_ebus3 x_m x_ebus x_pend x_crat x_trat].
          split6; try assumption. apply bus_ok_setq; [exact P3|exact (proj2 HN)].
        * split; [right; reflexivity|]. split; [|exact HCC].
          intros r' Hr'. cbn [h_runner] in Hr'. inversion Hr'; subst. exact (proj1 HN).
      + eapply eu_prepare7_inv; eassumption.
  Qed.
End Inv.

Print Assumptions front3_px.
Print Assumptions wus_cycle_sim.
Print Assumptions snoops7_idle.
Print Assumptions eu_cycle_sim.
Print Assumptions eu_cycle7_inv.
