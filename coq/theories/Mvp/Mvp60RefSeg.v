(* Refinement of MVP-6.0 to the sequential machine - part 6a: one straight-line segment
   of a run.  From a state of the main loop, of the drain loop after ret or of the
   write-back loop before a flush, the machine either ends the run with the registers of
   the fall-through run, or reaches - after a flush requested by a jump or a taken branch
   E with target t - a fresh state at t whose registers are those after E.  The sequential
   machine does the same. *)
From Coq Require Import ZArith List Bool Lia Permutation.
From Maj Require Import Base.Outcome Base.GoInt Base.GoTypes Isa.Spec Isa.Embed Isa.Seq Isa.Refine.
From Maj Require Import Gen.Latency Gen.RiscTables Gen.Opcodes Comp.Cache.
From Maj Require Import Mvp.Mvp12 Mvp.Mvp12Proofs Mvp.Mvp3 Mvp.Mvp3Proofs Mvp.Mvp4Skel Mvp.Mvp4Inv Mvp.Mvp4Sim Mvp.Mvp5 Mvp.Mvp60
     Mvp.Mvp60RefSem Mvp.Mvp60RefDefs Mvp.Mvp60RefFront Mvp.Mvp60RefBack Mvp.Mvp60RefStep Mvp.Mvp60RefStep2.
Import ListNotations.
Open Scope Z_scope.

Lemma run6_S app labels ord s s' fuel : step6 app labels ord s = SCont s' ->
  run6_st (S fuel) app labels ord s = run6_st fuel app labels ord s'.
Proof. intros H. cbn [run6_st]. rewrite H. reflexivity. Qed.

Lemma run6_done app labels ord s r os fuel : step6 app labels ord s = SDone r os ->
  run6_st (S fuel) app labels ord s = inl (r, os).
Proof. intros H. cbn [run6_st]. rewrite H. reflexivity. Qed.

Section Seg.
  Variables (app : list instr) (labels : Z -> option Z) (regs0 mem0 : list Z) (base : nat) (off : Z).
  Hypothesis Happ : wf_app app.
  Hypothesis Hreg : reg_only app = true.
  Hypothesis Hlen0 : (length regs0 <= 32)%nat.
  Hypothesis Hbase : (base <= length app)%nat.
  Let n := length app.
  Let N := stop_from app base.
  Let sp := map sinstr_of app.

  Notation sreg := (sreg app labels regs0 base).
  Notation eff := (eff app labels regs0 base).
  Notation ik := (ik app).
  Notation kout := (kout app labels regs0 base).
  Notation GI := (GI app labels regs0 mem0 base off).
  Notation GR := (GR app labels regs0 mem0 base off).
  Notation GF := (GF app labels regs0 mem0 base).
  Notation Fin := (Fin app labels regs0 mem0 base off).

  Hypothesis Hsem : forall k, (base <= k <= N)%nat -> (k < n)%nat ->
    exec (sinstr_of (ik k)) (rget (sreg k)) labels (pcz k) [] = Ok (eff k) /\
    (forall a, etarget (eff k) = Some a -> exists t, a = pcz t /\ (k < t <= n)%nat).

  (* the state is in one of the three loops of Run *)
  Inductive SInv (s : st6) : Prop :=
  | SI_n d c f x : GI d c f x s -> SInv s
  | SI_r d : GR d s -> SInv s
  | SI_f d E t : GF d E t s -> SInv s.

  Definition mu (s : st6) : Z :=
    match s_mode s with
    | MNormal => phis app s + 3
    | _ => qlen (m_wbus (s_m s))
    end.

  (* how a segment ends *)
  Definition SegEnd (ord : Z -> Z -> list Z -> list Z) (s : st6) (bound : nat) : Prop :=
    (exists k r os, (1 <= k <= bound)%nat /\ (forall extra, run6_st (k + extra) app labels ord s = inl (r, os)) /\ Fin r) \/
    (exists k s' E t, (1 <= k <= bound)%nat /\ (forall extra, run6_st (k + extra) app labels ord s = run6_st extra app labels ord s') /\
       Fresh app mem0 t (sreg (S E)) s' /\ (base <= E <= N)%nat /\ (E < t <= n)%nat /\
       (forall k', (base <= k' < E)%nat -> kout k' = euo_none) /\ kout E = mk_euo6 true (pcz E) (pcz t) false).

  Lemma phis_nn d c f x s : GI d c f x s -> 0 <= phis app s.
  Proof.
    intros HG. unfold phis, phi, phiR.
    pose proof (fr_fetch _ _ _ _ _ _ _ (gi_front _ _ _ _ _ _ _ _ _ _ _ HG)) as HFt.
    pose proof (phiF_nonneg app base _ _ _ HFt).
    pose proof (zlen_ge0 (eul (s_eus s))). unfold phiM.
    pose proof (blen_ge0 (m_dbus (s_m s))). pose proof (qlen_ge0 (m_dbus (s_m s))). pose proof (blen_ge0 (m_cbus (s_m s))).
    pose proof (qlen_ge0 (m_cbus (s_m s))). pose proof (zlen_ge0 (m_cu (s_m s))). pose proof (blen_ge0 (m_ebus (s_m s))).
    pose proof (qlen_ge0 (m_ebus (s_m s))). pose proof (blen_ge0 (m_wbus (s_m s))). pose proof (qlen_ge0 (m_wbus (s_m s))). lia.
  Qed.

  Lemma mu_nonneg s : SInv s -> 0 <= mu s.
  Proof.
    intros [d c f x HG|d HG|d E t HG]; unfold mu.
    - rewrite (gi_mode _ _ _ _ _ _ _ _ _ _ _ HG). pose proof (phis_nn _ _ _ _ _ HG). lia.
    - rewrite (gr_mode _ _ _ _ _ _ _ _ HG). apply qlen_ge0.
    - rewrite (gf_mode _ _ _ _ _ _ _ _ _ HG). apply qlen_ge0.
  Qed.

  Lemma seg_run ord : forall (b : nat) s, SInv s -> mu s < Z.of_nat b -> SegEnd ord s b.
  Proof.
    induction b as [|b IH]; intros s HS Hmu.
    - pose proof (mu_nonneg s HS). lia.
    - assert (Hnext : forall s', step6 app labels ord s = SCont s' -> SInv s' -> mu s' < mu s -> SegEnd ord s (S b)).
      { intros s' Es HS' Hlt. destruct (IH s' HS' ltac:(lia)) as [(k & r & os & Hk & Hr & HF)|(k & s'' & E & t & Hk & Hr & Hrest)].
        - left. exists (S k), r, os. split; [lia|]. split; [|exact HF]. intros extra. cbn [Nat.add]. rewrite (run6_S _ _ _ _ _ _ Es). apply Hr.
        - right. exists (S k), s'', E, t. split; [lia|]. split; [|exact Hrest]. intros extra. cbn [Nat.add]. rewrite (run6_S _ _ _ _ _ _ Es). apply Hr. }
      assert (Hdone : forall r os, step6 app labels ord s = SDone r os -> Fin r -> SegEnd ord s (S b)).
      { intros r os Es HF. left. exists 1%nat, r, os. split; [lia|]. split; [|exact HF]. intros extra. apply run6_done. exact Es. }
      destruct HS as [d c f x HG|d HG|d E t HG].
      + destruct (step_normal app labels regs0 mem0 base off Happ Hreg Hlen0 Hbase Hsem ord d c f x s HG)
          as [(s' & d' & c' & f' & x' & Es & HG' & Hlt)|[(r & os & Es & HF)|[(s' & d' & Es & HG')|(s' & d' & E & t & Es & HG')]]].
        * apply (Hnext s' Es (SI_n s' d' c' f' x' HG')). unfold mu. rewrite (gi_mode _ _ _ _ _ _ _ _ _ _ _ HG), (gi_mode _ _ _ _ _ _ _ _ _ _ _ HG'). lia.
        * apply (Hdone r os Es HF).
        * apply (Hnext s' Es (SI_r s' d' HG')). pose proof (phis_nn _ _ _ _ _ HG) as H0.
          unfold mu in *. rewrite (gi_mode _ _ _ _ _ _ _ _ _ _ _ HG) in *. rewrite (gr_mode _ _ _ _ _ _ _ _ HG').
          pose proof (bus_q _ _ (gr_bw _ _ _ _ _ _ _ _ HG')). lia.
        * apply (Hnext s' Es (SI_f s' d' E t HG')). pose proof (phis_nn _ _ _ _ _ HG) as H0.
          unfold mu in *. rewrite (gi_mode _ _ _ _ _ _ _ _ _ _ _ HG) in *. rewrite (gf_mode _ _ _ _ _ _ _ _ _ HG').
          pose proof (bus_q _ _ (gf_bw _ _ _ _ _ _ _ _ _ HG')). lia.
      + destruct (step_ret app labels regs0 mem0 base off Hreg Hlen0 Hbase Hsem ord d s HG) as [(s' & Es & HG' & Hlt)|(r & os & Es & HF)].
        * apply (Hnext s' Es (SI_r s' d HG')). unfold mu. rewrite (gr_mode _ _ _ _ _ _ _ _ HG), (gr_mode _ _ _ _ _ _ _ _ HG'). exact Hlt.
        * apply (Hdone r os Es HF).
      + destruct (step_flush app labels regs0 mem0 base 0 Hreg Hlen0 Hbase Hsem ord d E t s HG) as [(s' & Es & HG' & Hlt)|(s' & Es & HFr & Hcyc)].
        * apply (Hnext s' Es (SI_f s' d E t HG')). unfold mu. rewrite (gf_mode _ _ _ _ _ _ _ _ _ HG), (gf_mode _ _ _ _ _ _ _ _ _ HG'). exact Hlt.
        * right. exists 1%nat, s', E, t. split; [lia|]. split; [intros extra; apply run6_S; exact Es|].
          split; [exact HFr|]. destruct (gf_E _ _ _ _ _ _ _ _ _ HG) as (A1 & A2 & A3 & A4).
          split; [fold N in A4; lia|]. split; [fold n; lia|]. split; [exact (gf_exec _ _ _ _ _ _ _ _ _ HG) | exact (gf_out _ _ _ _ _ _ _ _ _ HG)].
  Qed.

  (* ---------------------------------------------------------------- *)
  (* the sequential machine on the segment                             *)

  Lemma seq_step_k k : (base <= k <= N)%nat -> (k < n)%nat ->
    Seq.step sp labels (mk_arch (sreg k) mem0) (pcz k) =
      match eff k with
      | EReturn => Halt (mk_arch (sreg k) mem0)
      | EGoto a | ELink _ _ a => Next (mk_arch (sreg (S k)) mem0) a
      | _ => Next (mk_arch (sreg (S k)) mem0) (pcz (S k))
      end.
  Proof.
    intros H1 H2.
    assert (Hi : nth_error app (Z.to_nat (pcz k / 4)) = Some (ik k)).
    { rewrite pcz_div, Nat2Z.id. apply ik_nth. exact H2. }
    unfold sp. rewrite (step_nomem app labels Hreg _ (pcz k) (ik k) (pcz_nonneg k) Hi). cbn [regs Seq.mem].
    destruct (Hsem k H1 H2) as [He _]. rewrite He.
    pose proof (eff_nostore app labels regs0 base Hreg Hsem k) as Hns.
    rewrite (sreg_S app labels regs0 base) by lia. rewrite pcz_S.
    destruct (eff k) as [rd v|bs| |a|rd v a|]; cbn [apply_eff]; try reflexivity.
    exfalso. exact (Hns bs H1 H2 eq_refl).
  Qed.

  Lemma kout_none_step k : (base <= k <= N)%nat -> (k < n)%nat -> kout k = euo_none ->
    Seq.step sp labels (mk_arch (sreg k) mem0) (pcz k) = Next (mk_arch (sreg (S k)) mem0) (pcz (S k)).
  Proof.
    intros H1 H2 Hk. rewrite (seq_step_k k H1 H2). unfold Mvp60RefBack.kout in Hk.
    pose proof (eff_ret app labels regs0 base Hsem k H1 H2) as Hr.
    destruct (is_ret (ik k)) eqn:Er; [discriminate|].
    destruct (eff k) as [rd v|bs| |a|rd v a|]; cbn [etarget] in Hk; try reflexivity.
    - destruct (is_jump (ik k) || negb (pcz (S k) =? a)) eqn:Ec; [discriminate|]. apply orb_false_iff in Ec as [_ Ec].
      apply negb_false_iff, Z.eqb_eq in Ec. rewrite Ec. reflexivity.
    - destruct (is_jump (ik k) || negb (pcz (S k) =? a)) eqn:Ec; [discriminate|]. apply orb_false_iff in Ec as [_ Ec].
      apply negb_false_iff, Z.eqb_eq in Ec. rewrite Ec. reflexivity.
    - discriminate (proj1 Hr eq_refl).
  Qed.

  Lemma kout_flush_step E t : (base <= E <= N)%nat -> (E < n)%nat -> kout E = mk_euo6 true (pcz E) (pcz t) false ->
    Seq.step sp labels (mk_arch (sreg E) mem0) (pcz E) = Next (mk_arch (sreg (S E)) mem0) (pcz t).
  Proof.
    intros H1 H2 Hk. rewrite (seq_step_k E H1 H2). unfold Mvp60RefBack.kout in Hk.
    destruct (is_ret (ik E)); [discriminate|].
    destruct (eff E) as [rd v|bs| |a|rd v a|]; cbn [etarget] in Hk; try discriminate;
      destruct (is_jump (ik E) || negb (pcz (S E) =? a)); try discriminate; injection Hk as ->; reflexivity.
  Qed.

  (* the instructions in front of xe neither stop nor redirect the run: none of them is the
     stopping instruction N *)
  Lemma none_below_N xe : (base <= xe <= n)%nat -> (forall k, (base <= k < xe)%nat -> kout k = euo_none) -> (xe <= N)%nat.
  Proof.
    intros Hx Hall. destruct (Nat.le_gt_cases xe N) as [H|H]; [exact H|]. exfalso.
    pose proof (stop_from_ge app base) as HbN. fold N in HbN.
    assert (HNn : (N < n)%nat) by lia.
    pose proof (stop_from_at app dfl base HNn) as Hs. fold N in Hs. unfold is_stop in Hs.
    specialize (Hall N ltac:(lia)).
    apply orb_prop in Hs as [Hs|Hs].
    - rewrite (kout_ret app labels regs0 base N Hs) in Hall. discriminate.
    - pose proof (kout_jump app labels regs0 base Hreg Hsem N ltac:(lia) HNn Hs) as Hf. rewrite Hall in Hf. discriminate.
  Qed.

  Lemma seq_straight_seg xe : (xe <= N)%nat -> (xe <= n)%nat -> forall m k fuel tr0 st' tr, (k + m)%nat = xe -> (base <= k)%nat ->
    (forall k', (k <= k' < xe)%nat -> kout k' = euo_none) ->
    Seq.run fuel sp labels (mk_arch (sreg k) mem0) (pcz k) tr0 = Done st' tr ->
    exists fuel' tr1, Seq.run fuel' sp labels (mk_arch (sreg xe) mem0) (pcz xe) tr1 = Done st' tr /\
                      length tr1 = (length tr0 + m)%nat.
  Proof.
    intros HxN Hxn. induction m as [|m IH]; intros k fuel tr0 st' tr Hk Hb Hall Hrun.
    - assert (k = xe) by lia. subst k. exists fuel, tr0. split; [exact Hrun | lia].
    - destruct fuel as [|fuel]; [discriminate|]. cbn [Seq.run] in Hrun.
      rewrite (kout_none_step k ltac:(lia) ltac:(lia) (Hall k ltac:(lia))) in Hrun.
      destruct (IH (S k) fuel (pcz k :: tr0) st' tr ltac:(lia) ltac:(lia) ltac:(intros k' Hk'; apply Hall; lia) Hrun) as (fuel' & tr1 & E & Hl).
      exists fuel', tr1. split; [exact E|]. cbn [length] in Hl. lia.
  Qed.

  (* the segment ends the run *)
  Lemma seg_seq_fin r fuel tr0 st' tr : Fin r ->
    Seq.run fuel sp labels (mk_arch regs0 mem0) (pcz base) tr0 = Done st' tr ->
    exists cf, r = MDone cf st' /\ Z.of_nat (length tr - length tr0 + base) <= 2 * cf + off.
  Proof.
    intros (cf & xe & -> & Hx & Hall & Hend) Hrun.
    pose proof (none_below_N xe Hx Hall) as HxN.
    assert (Hsb : sreg base = regs0) by (apply sreg_base; auto). rewrite <- Hsb in Hrun.
    destruct (seq_straight_seg xe HxN ltac:(lia) (xe - base) base fuel tr0 st' tr ltac:(lia) (le_n _) Hall Hrun) as (fuel' & tr1 & E & Hl).
    exists cf. destruct fuel' as [|fuel']; [discriminate|]. cbn [Seq.run] in E.
    destruct Hend as [[Hxe Hc]|(Hxe & Hret & Hc)].
    - rewrite (step_out app labels _ (pcz xe) (pcz_nonneg xe)) in E.
      2:{ rewrite pcz_div. unfold Mvp4.nlen. fold n. lia. }
      unfold fetch in E. destruct (Z.ltb_spec (pcz xe) 0); [pose proof (pcz_nonneg xe); lia|].
      assert (Hnone : nth_error sp (Z.to_nat (pcz xe / 4)) = None).
      { apply nth_error_None. unfold sp. rewrite map_length, pcz_div, Nat2Z.id. fold n. lia. }
      rewrite Hnone in E. injection E as <- <-. split; [reflexivity | lia].
    - rewrite (seq_step_k xe ltac:(lia) Hxe) in E.
      rewrite (proj2 (eff_ret app labels regs0 base Hsem xe ltac:(lia) Hxe) Hret) in E.
      unfold fetch in E. destruct (Z.ltb_spec (pcz xe) 0); [pose proof (pcz_nonneg xe); lia|].
      assert (Hsome : nth_error sp (Z.to_nat (pcz xe / 4)) = Some (sinstr_of (ik xe))).
      { unfold sp. rewrite pcz_div, Nat2Z.id, nth_error_map, (ik_nth app xe Hxe). reflexivity. }
      rewrite Hsome in E. injection E as <- <-. split; [reflexivity|]. cbn [length]. lia.
  Qed.

  (* the segment ends with a transfer of control *)
  Lemma seg_seq_flush E t fuel tr0 st' tr : (base <= E <= N)%nat -> (E < t <= n)%nat ->
    (forall k', (base <= k' < E)%nat -> kout k' = euo_none) -> kout E = mk_euo6 true (pcz E) (pcz t) false ->
    Seq.run fuel sp labels (mk_arch regs0 mem0) (pcz base) tr0 = Done st' tr ->
    exists fuel' tr1, Seq.run fuel' sp labels (mk_arch (sreg (S E)) mem0) (pcz t) tr1 = Done st' tr.
  Proof.
    intros HE Ht Hall Hout Hrun.
    assert (Hsb : sreg base = regs0) by (apply sreg_base; auto). rewrite <- Hsb in Hrun.
    destruct (seq_straight_seg E ltac:(lia) ltac:(lia) (E - base) base fuel tr0 st' tr ltac:(lia) (le_n _) Hall Hrun) as (fuel' & tr1 & Er & _).
    destruct fuel' as [|fuel']; [discriminate|]. cbn [Seq.run] in Er.
    rewrite (kout_flush_step E t HE ltac:(lia) Hout) in Er. eauto.
  Qed.
End Seg.
