(* Refinement of MVP-6.1 to the sequential machine on register-only programs - part 2:
   the program class (registers in range), sequence ids, the runners / write-back records
   that stand for instruction k, the decode unit of MVP-6.1 (du_loop1: as MVP-6.0 plus the
   sequence id and the clearing of the decoded instruction's Forward).  The fetch unit is
   the one of MVP-6.0 (Mvp60RefFront.fu_ok). *)
From Coq Require Import ZArith List Bool Lia Permutation.
From Maj Require Import Base.Outcome Base.GoInt Base.GoTypes Isa.Spec Isa.Embed Isa.Seq Isa.Refine.
From Maj Require Import Gen.Latency Gen.RiscTables Gen.Opcodes Comp.Cache.
From Maj Require Import Mvp.Mvp12 Mvp.Mvp12Proofs Mvp.Mvp3 Mvp.Mvp3Proofs Mvp.Mvp4Skel Mvp.Mvp5 Mvp.Mvp60 Mvp.Mvp61
     Mvp.Mvp60RefSem Mvp.Mvp60RefDefs Mvp.Mvp60RefFront.
Import ListNotations.
Open Scope Z_scope.

(* ------------------------------------------------------------------ *)
(* registers 0..31 only (the Go type RegisterType has these 32 values; the model and the
   sequential machine accept any integer) *)

Definition reg_ok (r : Z) : bool := (0 <=? r) && (r <? 32).
Definition regs_ok (i : instr) : bool := forallb reg_ok (instr_ReadRegisters i) && forallb reg_ok (instr_WriteRegisters i).
Definition regs_in_range (app : list instr) : bool := forallb regs_ok app.

Lemma reg_ok_inj r r' : reg_ok r = true -> reg_ok r' = true -> Z.to_nat r = Z.to_nat r' -> r = r'.
Proof. unfold reg_ok. intros H H' E. apply andb_prop in H as [A B], H' as [A' B']. apply Z.leb_le in A, A'. lia. Qed.

Lemma reg_ok_slot r : reg_ok r = true -> (Z.to_nat r < 32)%nat.
Proof. unfold reg_ok. intros H. apply andb_prop in H as [A B]. apply Z.leb_le in A. apply Z.ltb_lt in B. lia. Qed.

(* ------------------------------------------------------------------ *)
(* lists                                                                *)

Lemma upd_repeat {A} (a : A) n i : Seq.upd (repeat a n) i a = repeat a n.
Proof.
  revert i. induction n as [|n IH]; intros i; cbn [repeat Seq.upd]; [destruct i; reflexivity|].
  destruct i as [|i]; [reflexivity|]. rewrite IH. reflexivity.
Qed.

Lemma upd_upd {A} (l : list A) i a b : Seq.upd (Seq.upd l i a) i b = Seq.upd l i b.
Proof.
  revert i. induction l as [|h t IH]; intros i; cbn [Seq.upd]; [destruct i; reflexivity|].
  destruct i as [|i]; cbn [Seq.upd]; [reflexivity|]. rewrite IH. reflexivity.
Qed.

Section Front1.
  (* [base]: start of the current straight-line segment; [sq]: ctx.sequenceID during it *)
  Variables (app : list instr) (base : nat) (sq : Z).
  Hypothesis Happ : wf_app app.
  Let n := length app.
  Let N := stop_from app base.
  Hypothesis Hsq : 0 <= sq /\ 1000 * sq + 4 * Z.of_nat n < 2147483648.

  (* SequenceID of instruction k *)
  Definition sid (k : nat) : Z := pcz k + 1000 * sq.
  Definition rnq (k : nat) : runner := mk_runner (ik app k) (pcz k) (sid k).
  (* the object the decode unit puts on the control bus *)
  Definition r1q (k : nat) : runner1 := mk_r1 (rnq k) 0 None None Zero.

  Lemma seq_id_sid x k : x_seq x = sq -> (k < n)%nat -> seq_id x (pcz k) = sid k.
  Proof.
    intros Hx Hk. unfold seq_id, sid, addS, mulS. rewrite Hx.
    rewrite (wrapS_id 32 (sq * 1000)); [|lia | apply int32_bounds; lia].
    rewrite Z.mul_comm. apply wrapS_id; [lia|]. apply int32_bounds. unfold pcz. lia.
  Qed.

  Lemma iidx_pcz k : iidx (pcz k) = k.
  Proof. unfold iidx. rewrite pcz_quot. apply Nat2Z.id. Qed.

  Lemma du_loop1_ok cycle x : x_seq x = sq -> forall len c cbus l, (base <= c)%nat -> (Nat.min c n <= N)%nat ->
    exists j ret' pbr',
      du_loop1 (map pcz (seq c len)) app cycle false false x (repeat no_fwd n) (bus_push cbus (cycle + 1) l)
      = Ok (ret', pbr', map pcz (seq (c + j) (len - j)), repeat no_fwd n,
            bus_push cbus (cycle + 1) (l ++ map r1q (seq (Nat.min c n) (Nat.min (c + j) n - Nat.min c n)))) /\
      (j <= len)%nat /\ ((0 < len)%nat -> (0 < j)%nat) /\
      (ret' = true -> (N < n)%nat /\ (c + j)%nat = S N /\ is_ret (ik app N) = true) /\
      (pbr' = true -> (N < n)%nat /\ (c + j)%nat = S N /\ is_jump (ik app N) = true) /\
      (ret' = false -> pbr' = false -> (Nat.min (c + j) n <= N)%nat).
  Proof.
    intros Hx. induction len as [|len IH]; intros c cbus l Hbc Hc.
    - exists O, false, false. cbn [seq map du_loop1]. replace (Nat.min (c + 0) n - Nat.min c n)%nat with O by (rewrite Nat.add_0_r; lia).
      cbn [seq map]. rewrite app_nil_r.
      split; [reflexivity|]. split; [lia|]. split; [lia|]. split; [discriminate|]. split; [discriminate|]. intros _ _. rewrite Nat.add_0_r. exact Hc.
    - cbn [seq map du_loop1]. rewrite pcz_quot. unfold nlen6. fold n.
      destruct (Z.leb_spec (Z.of_nat n) (Z.of_nat c)) as [Hout|Hin].
      + exists 1%nat, false, false. replace (S len - 1)%nat with len by lia. replace (c + 1)%nat with (S c) by lia.
        replace (Nat.min (S c) n - Nat.min c n)%nat with O by lia. cbn [seq map]. rewrite app_nil_r.
        split; [reflexivity|]. split; [lia|]. split; [lia|]. split; [discriminate|]. split; [discriminate|]. intros _ _. lia.
      + assert (Hcn : (c < n)%nat) by lia.
        destruct (Z.ltb_spec (Z.of_nat c) 0); [lia|]. rewrite iidx_pcz, (ik_nth app c Hcn).
        fold (is_jump (ik app c)). rewrite is_ret_type. rewrite (seq_id_sid x c Hx Hcn), upd_repeat.
        change (mk_r1 (mk_runner (ik app c) (pcz c) (sid c)) 0 None None Zero) with (r1q c). rewrite bus_push_add.
        assert (HcN : (c <= N)%nat) by lia.
        assert (HatN : is_ret (ik app c) = true \/ is_jump (ik app c) = true -> c = N).
        { intros Hy. destruct (Nat.eq_dec c N) as [|Hne]; [assumption|]. exfalso.
          destruct (ik_not_stop app base c ltac:(fold N; lia)) as [A B]. destruct Hy; congruence. }
        destruct (is_jump (ik app c)) eqn:Ejmp.
        * assert (c = N) by (apply HatN; right; reflexivity). subst c.
          exists 1%nat, false, true. replace (S len - 1)%nat with len by lia. replace (N + 1)%nat with (S N) by lia.
          replace (Nat.min (S N) n - Nat.min N n)%nat with 1%nat by lia. replace (Nat.min N n) with N by lia.
          cbn [seq map]. split; [reflexivity|]. split; [lia|]. split; [lia|]. split; [discriminate|].
          split; [intros _; auto | discriminate].
        * destruct (is_ret (ik app c)) eqn:Eret.
          -- assert (c = N) by (apply HatN; left; reflexivity). subst c.
             exists 1%nat, true, false. replace (S len - 1)%nat with len by lia. replace (N + 1)%nat with (S N) by lia.
             replace (Nat.min (S N) n - Nat.min N n)%nat with 1%nat by lia. replace (Nat.min N n) with N by lia.
             cbn [seq map]. split; [reflexivity|]. split; [lia|]. split; [lia|]. split; [intros _; auto|].
             split; discriminate.
          -- assert (Hne : c <> N).
             { intros ->. pose proof (ik_stop app base Hcn) as Hy. unfold is_stop in Hy. fold N in Hy. rewrite Eret, Ejmp in Hy. discriminate. }
             destruct (IH (S c) cbus (l ++ [r1q c]) ltac:(lia) ltac:(lia)) as (j & ret' & pbr' & E & Hj & Hj0 & Hrt & Hpt & Hrf).
             exists (S j), ret', pbr'. rewrite E. replace (c + S j)%nat with (S c + j)%nat by lia. cbn [Nat.sub].
             replace (Nat.min c n) with c by lia. replace (Nat.min (S c) n) with (S c) in * by lia.
             rewrite (seq_cons_min c (Nat.min (S c + j) n)) by lia. cbn [map]. rewrite <- app_assoc. cbn [List.app].
             split; [reflexivity|]. split; [lia|]. split; [lia|]. split; [assumption|]. split; assumption.
  Qed.

  (* decodeUnit.cycle when it is active *)
  Lemma du1_ok cyc m c len : bb_q (m_dbus (y_m m)) = map pcz (seq c len) -> (base <= c)%nat -> (Nat.min c n <= N)%nat ->
    m_dret (y_m m) = false -> m_dpbr (y_m m) = false -> x_seq (y_x m) = sq -> x_fwd (y_x m) = repeat no_fwd n ->
    exists j ret' pbr',
      du_cycle1 app (cyc + 1) m
      = Ok (mk_m1 (set_dbus (set_du (y_m m) ret' pbr')
                            (mk_bb (bb_buf (m_dbus (y_m m))) (map pcz (seq (c + j) (len - j))) (bb_ql (m_dbus (y_m m))) (bb_bl (m_dbus (y_m m)))))
                  (xs_cbus (y_x m)
                     (bus_push (x_cbus (y_x m)) (cyc + 2) (map r1q (seq (Nat.min c n) (Nat.min (c + j) n - Nat.min c n)))))) /\
      (j <= len)%nat /\ ((0 < len)%nat -> (0 < j)%nat) /\
      (ret' = true -> (N < n)%nat /\ (c + j)%nat = S N /\ is_ret (ik app N) = true) /\
      (pbr' = true -> (N < n)%nat /\ (c + j)%nat = S N /\ is_jump (ik app N) = true) /\
      (ret' = false -> pbr' = false -> (Nat.min (c + j) n <= N)%nat).
  Proof.
    intros Hq Hbc Hc Hr Hp Hs Hf. unfold du_cycle1. rewrite Hr, Hp, Hq, Hf.
    destruct (du_loop1_ok (cyc + 1) (y_x m) Hs len c (x_cbus (y_x m)) [] Hbc Hc) as (j & ret' & pbr' & E & Hrest).
    rewrite bus_push_nil in E. rewrite E. cbn [bind List.app]. exists j, ret', pbr'.
    replace (cyc + 1 + 1) with (cyc + 2) by lia. split; [|exact Hrest].
    f_equal. f_equal. destruct (y_x m); cbn in *. subst. reflexivity.
  Qed.

  Lemma du1_idle cyc m : m_dret (y_m m) = true \/ m_dpbr (y_m m) = true -> du_cycle1 app (cyc + 1) m = Ok m.
  Proof. intros [H|H]; unfold du_cycle1; rewrite H; [|destruct (m_dret (y_m m))]; reflexivity. Qed.
End Front1.
