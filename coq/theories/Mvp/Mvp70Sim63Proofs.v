(* Lock-step simulation MVP-7.0 / MVP-6.3 on programs without loads and stores - part 3: the end of Run, whole runs,
   the theorems.

   RESULT.  On a program whose text contains no load and no store, at every number of cores, for every initial
   state and every fuel, MVP-7.0 (Mvp70.v) returns what MVP-6.3 (Mvp63.v) returns - registers, memory, ghost flag,
   the same error or panic - ONE CYCLE AND ONE TICK LATER: the loop that mvp7-0/cpu.go runs after the main loop
   (snoops, busy units) runs exactly once and finds nothing to do; the memory system is never used.
     mvp70_regonly_sim_mvp63            for every order function, if the program writes no register with a negative
                                        number (wregs_nonneg; implied by regs_ok of Mvp63RefDefs.v; every parsed
                                        program satisfies it)
     mvp70_regonly_sim_mvp63_stable     for every program without loads / stores, if the order function does not
                                        depend on the cycle on the alias-table maps (ord_stable)
     mvp70_regonly_sim_mvp63_refuted    without either hypothesis the statement is FALSE OF THE MODEL: RATFlush
                                        (rat_flush3) writes ctx.Registers[k] as Seq.upd regs (Z.to_nat k), which sends a
                                        negative register number to slot 0; MVP-7.0 ranges over the committed table one
                                        cycle later than MVP-6.3, so an order function that changes with the cycle
                                        orders the keys -1 and 0 differently.  Witness: `li x(-1), 5` (one
                                        instruction), registers [7; 8], the order "ascending in even cycles,
                                        descending in odd cycles": x0 = 5 on MVP-6.3, x0 = 7 on MVP-7.0.  (An artefact
                                        of the list model of the Go map ctx.Registers; unreachable from parsed text.)
     mvp70_regonly_outoffuel            a run of MVP-6.3 that exhausts its fuel: so does MVP-7.0 with the same fuel,
                                        same ghost flag
     mvp70_regonly_memsys_idle          in every state MVP-7.0 reaches the directory is msi_new, every controller is
                                        idle, no unit is in the closures around cc.read / cc.write
   The order-independence of RATCommit ; RATFlush (fin_indep) needs well-formed tables with non-negative keys
   (RK of Mvp70Sim63Defs.v), an invariant of the run.

   TRANSPORT of the MVP-6.3 refinement theorem (Mvp63RefProofs.v) to MVP-7.0:
     mvp70_run_ssa_straight, mvp70_refines_seq_ssa_straight, mvp70_ghost_clear_ssa_straight,
     mvp70_terminates_ssa_straight, mvp70_no_panic_ssa_straight, mvp70_ssa_example_any. *)
From Coq Require Import ZArith List Bool Lia.
From Maj Require Import Base.Outcome Base.GoInt Base.GoTypes Isa.Spec Isa.Seq Isa.Refine.
From Maj Require Import Gen.Latency Gen.RiscTables Gen.Opcodes Comp.Cache Comp.Rat Comp.RatProofs Mvp.Mvp12 Mvp.Mvp12Proofs Mvp.Mvp3 Mvp.Mvp5 Mvp.Mvp60 Mvp.Mvp63 Mvp.Mvp70.
From Maj Require Import Mvp.Mvp60Proofs Mvp.Mvp63Proofs Mvp.Mvp70Proofs Mvp.Mvp70Sim63Defs Mvp.Mvp70Sim63Loops.
From Maj Require Import Mvp.Mvp4Skel Mvp.Mvp60RefDefs Mvp.Mvp63RefDefs Mvp.Mvp63RefRat Mvp.Mvp63RefProofs.
Import ListNotations.
Open Scope Z_scope.

(* the result of MVP-7.0 that corresponds to a result of MVP-6.3: one more cycle *)
Definition plus_one_cycle (r : mres) : mres :=
  match r with MDone c s => MDone (c + 1) s | other => other end.

(* the order function does not depend on the cycle on the alias-table maps (pc = -1) *)
Definition ord_stable (ord : Z -> Z -> list Z -> list Z) : Prop :=
  forall c keys, ord (c + 1) (-1) keys = ord c (-1) keys.

(* ------------------------------------------------------------------ *)
(* 1. RATCommit ; RATFlush does not depend on Go's map order            *)
(* ------------------------------------------------------------------ *)

Lemma fin_indep : forall ord1 c1 ord2 c2 x,
  rat_ok (x_crat x) ->
  (forall k v, rat_read 0 (x_crat x) k = Some v -> 0 <= k) ->
  (forall k v, rat_read tu0 (x_trat x) k = Some v -> 0 <= k) ->
  rat_flush3 ord1 c1 (rat_commit3 ord1 c1 x) = rat_flush3 ord2 c2 (rat_commit3 ord2 c2 x).
Proof.
  intros ord1 c1 ord2 c2 x HO HK HT. unfold rat_flush3, rat_commit3. cbn [x_crat x_m set_rats3].
  set (tvals := rat_values tu0 (x_trat x)).
  assert (HTV : forall k v, aget k tvals = Some v -> 0 <= k).
  { intros k v H. unfold tvals in H. rewrite aget_rat_values in H. eapply HT. exact H. }
  assert (E : forall ord c, commit_vals ord c (x_crat x) tvals
                            = wfold 0 (fun tu : Z * Z => snd tu) tvals (map_order ord c (-1) (akeys tvals)) (x_crat x)) by reflexivity.
  rewrite !E.
  destruct (fold_rat_write_read 0 (fun tu : Z * Z => snd tu) tvals (map_order ord1 c1 (-1) (akeys tvals)) (x_crat x) HO) as [_ R1].
  destruct (fold_rat_write_read 0 (fun tu : Z * Z => snd tu) tvals (map_order ord2 c2 (-1) (akeys tvals)) (x_crat x) HO) as [_ R2].
  set (cr1 := wfold 0 (fun tu : Z * Z => snd tu) tvals (map_order ord1 c1 (-1) (akeys tvals)) (x_crat x)) in *.
  set (cr2 := wfold 0 (fun tu : Z * Z => snd tu) tvals (map_order ord2 c2 (-1) (akeys tvals)) (x_crat x)) in *.
  assert (RR : forall r, rat_read 0 cr1 r = rat_read 0 cr2 r).
  { intros r. rewrite R1, R2. unfold map_order. rewrite !memZ_iter_order. reflexivity. }
  assert (NN1 : forall k v, rat_read 0 cr1 k = Some v -> 0 <= k).
  { intros k v H. rewrite R1 in H. destruct (memZ k _); [|eapply HK; exact H].
    destruct (aget k tvals) eqn:EA; [eapply HTV; exact EA|eapply HK; exact H]. }
  set (v1 := rat_values 0 cr1). set (v2 := rat_values 0 cr2).
  assert (A12 : forall k, aget k v1 = aget k v2).
  { intros k. unfold v1, v2. rewrite !aget_rat_values. apply RR. }
  assert (N1 : forall k v, aget k v1 = Some v -> 0 <= k).
  { intros k v H. unfold v1 in H. rewrite aget_rat_values in H. eapply NN1. exact H. }
  assert (N2 : forall k v, aget k v2 = Some v -> 0 <= k).
  { intros k v H. rewrite <- A12 in H. eapply N1. exact H. }
  apply (nth_ext _ _ 0 0).
  - rewrite !flush_fold_length. reflexivity.
  - intros s Hs. rewrite flush_fold_length in Hs.
    rewrite (flush_fold v1 N1 _ _ s Hs), (flush_fold v2 N2 _ _ s Hs).
    unfold map_order. rewrite !memZ_iter_order, !memZ_akeys, A12. reflexivity.
Qed.

(* ------------------------------------------------------------------ *)
(* 2. the end of Run                                                    *)
(* ------------------------------------------------------------------ *)

(* RATCommit ; RATFlush gives the same registers one cycle later *)
Definition FA (ord : Z -> Z -> list Z -> list Z) (x : mx) : Prop :=
  forall c, rat_flush3 ord (c + 1) (rat_commit3 ord (c + 1) x) = rat_flush3 ord c (rat_commit3 ord c x).

Lemma FA_stable : forall ord x, ord_stable ord -> FA ord x.
Proof.
  intros ord x H c. unfold rat_flush3, rat_commit3, commit_vals, map_order. cbn [x_crat x_m set_rats3].
  rewrite !(H c). reflexivity.
Qed.

Lemma FA_nonneg : forall ord x, PX True x -> FA ord x.
Proof.
  intros ord x (_ & _ & _ & _ & _ & HR) c. destruct (HR I) as (R1 & R2 & R3 & R4).
  apply fin_indep; assumption.
Qed.

Lemma finish_sim : forall NN ord w eus c, INV NN w -> FA ord (w_x w) ->
  finish7 ord w eus (c + 1) = plus_one_cycle (finish3 ord (w_x w) c).
Proof.
  intros NN ord w eus c [I1 (P1 & _)] HF. unfold finish7, finish3.
  rewrite (export7_idle (w_i w) eus 0 (w_mem w) 0) by (rewrite I1; reflexivity).
  rewrite P1. cbn [flush_lines plus_one_cycle]. rewrite (HF c). unfold w_mem. f_equal. lia.
Qed.

(* ------------------------------------------------------------------ *)
(* 3. whole runs                                                        *)
(* ------------------------------------------------------------------ *)

Lemma step7_done_final : forall hk app labels ord s c st os,
  step7 hk app labels ord s = UDone (MDone c st) os -> v_mode s = QFinal.
Proof.
  intros hk app labels ord s c st os H. unfold step7 in H.
  destruct (v_mode s) as [| | seq pc from | k seq pc from empty |]; [exfalso|exfalso|exfalso|exfalso|reflexivity].
  - res_step7 H w1. res_step7 H r. res_step7 H z. apply back7_done in H. contradiction.
  - res_step7 H r. res_step7 H z. destruct z as [[w1 eus1] er].
    destruct er; try discriminate.
    res_step7 H r2. destruct r2 as [x2 wus1].
    match type of H with ret_check7 ?a = _ => destruct (ret_check7_res a) as [s' [E _]]; rewrite E in H; discriminate end.
  - res_step7 H r. res_step7 H z. destruct z as [[w1 eus1] acc].
    destruct (a_err acc); try discriminate.
    apply flush_advance7_done in H. contradiction.
  - destruct (nth_error (v_wus s) k); try discriminate.
    res_step7 H r. apply flush_advance7_done in H. contradiction.
Qed.

(* a tick never reports MOutOfFuel: only run7_st / run3_st do *)
Lemma back7_oof : forall s cycle z os, back7 s cycle z = UDone MOutOfFuel os -> False.
Proof.
  intros s cycle [[w eus1] o] os H. unfold back7 in H.
  destruct (y_err o); try discriminate.
  res_step7 H r. destruct r as [x2 wus1].
  destruct (y_ret o).
  - match type of H with ret_check7 ?a = _ => destruct (ret_check7_res a) as [s' [E _]]; rewrite E in H; discriminate end.
  - destruct (y_flush o); try discriminate. destruct (is_empty7 _ _ _); discriminate.
Qed.

Lemma flush_advance7_oof : forall s k seq pc from empty os,
  flush_advance7 s k seq pc from empty = UDone MOutOfFuel os -> False.
Proof.
  intros s k seq pc from empty os H. unfold flush_advance7 in H.
  destruct (flush_next _ _ _); [discriminate|]. destruct empty; [|discriminate].
  res_step7 H r. discriminate.
Qed.

Lemma step7_oof : forall hk app labels ord s os, step7 hk app labels ord s = UDone MOutOfFuel os -> False.
Proof.
  intros hk app labels ord s os H. unfold step7 in H.
  destruct (v_mode s) as [| | seq pc from | k seq pc from empty |].
  - res_step7 H w1. res_step7 H r. res_step7 H z. apply back7_oof in H. contradiction.
  - res_step7 H r. res_step7 H z. destruct z as [[w1 eus1] er].
    destruct er; try discriminate.
    res_step7 H r2. destruct r2 as [x2 wus1].
    match type of H with ret_check7 ?a = _ => destruct (ret_check7_res a) as [s' [E _]]; rewrite E in H; discriminate end.
  - res_step7 H r. res_step7 H z. destruct z as [[w1 eus1] acc].
    destruct (a_err acc); try discriminate.
    apply flush_advance7_oof in H. contradiction.
  - destruct (nth_error (v_wus s) k); try discriminate.
    res_step7 H r. apply flush_advance7_oof in H. contradiction.
  - res_step7 H r. res_step7 H z. destruct z as [[w1 eus1] skipped].
    destruct (_ && _); try discriminate.
    inversion H as [[HF HO]]. unfold finish7 in HF. destruct (export7 _ _ _ _ _) as [[m c]| |]; discriminate.
Qed.

Lemma run7_st_oof : forall hk fuel app labels ord s os, run7_st hk fuel app labels ord s = inl (MOutOfFuel, os) -> False.
Proof.
  intros hk. induction fuel as [|f IH]; intros app labels ord s os H; cbn [run7_st] in H; [discriminate|].
  destruct (step7 hk app labels ord s) as [r os1|s1] eqn:E.
  - inversion H; subst. eapply step7_oof. exact E.
  - eapply IH. exact H.
Qed.

Section Runs.
  Variable NN : Prop.
  Variable app : list instr.
  Hypothesis Happ : reg_only app = true.
  Hypothesis Hnn : NN -> wregs_nonneg app = true.
  Variable ord : Z -> Z -> list Z -> list Z.
  Hypothesis Hfa : forall x, PX NN x -> FA ord x.

  Notation SI := (SI NN).

  Lemma run_sim : forall labels fuel s, SI s -> v_mode s <> QFinal ->
    match run3_st fuel app labels ord (st3_of s) with
    | inl (r, os) => run7_st hooks70 (S fuel) app labels ord s = inl (plus_one_cycle r, os)
    | inr s3 => exists s', run7_st hooks70 fuel app labels ord s = inr s' /\ s3 = st3_of s' /\ SI s' /\ v_mode s' <> QFinal
    end.
  Proof.
    intros labels. induction fuel as [|f IH]; intros s HS HM.
    - cbn [run3_st run7_st]. exists s. split; [reflexivity|split; [reflexivity|split; assumption]].
    - cbn [run3_st]. destruct (step_sim NN app Happ Hnn labels ord s HS HM) as [E3 HR]. rewrite E3.
      change (run7_st hooks70 (S (S f)) app labels ord s)
        with (match step7 hooks70 app labels ord s with
              | UDone r os => inl (r, os)
              | UCont s' => run7_st hooks70 (S f) app labels ord s'
              end).
      change (run7_st hooks70 (S f) app labels ord s)
        with (match step7 hooks70 app labels ord s with
              | UDone r os => inl (r, os)
              | UCont s' => run7_st hooks70 f app labels ord s'
              end).
      destruct (step7 hooks70 app labels ord s) as [r os|s1] eqn:E7; cbn [proj_res].
      + (* an error or a panic in the same tick *)
        destruct r as [c st| | |]; try reflexivity.
        exfalso. apply HM. eapply step7_done_final. exact E7.
      + cbn [res_SI] in HR. destruct (v_mode s1) eqn:EM1.
        * specialize (IH s1 HR ltac:(rewrite EM1; discriminate)).
          destruct (run3_st f app labels ord (st3_of s1)) as [[r os]|s3]; exact IH.
        * specialize (IH s1 HR ltac:(rewrite EM1; discriminate)).
          destruct (run3_st f app labels ord (st3_of s1)) as [[r os]|s3]; exact IH.
        * specialize (IH s1 HR ltac:(rewrite EM1; discriminate)).
          destruct (run3_st f app labels ord (st3_of s1)) as [[r os]|s3]; exact IH.
        * specialize (IH s1 HR ltac:(rewrite EM1; discriminate)).
          destruct (run3_st f app labels ord (st3_of s1)) as [[r os]|s3]; exact IH.
        * (* MVP-6.3 returns; MVP-7.0 runs its final loop once *)
          cbn [run7_st]. rewrite (step_final NN app labels ord s1 HR EM1).
          pose proof HR as (HI & _).
          rewrite (finish_sim NN ord (v_w s1) (v_eus s1) (v_cycle s1) HI (Hfa _ (proj2 HI))). reflexivity.
  Qed.
End Runs.

(* --- NewCPU establishes the invariant --- *)

Lemma map_repeat7 : forall {A B} (f : A -> B) a n, map f (repeat a n) = repeat (f a) n.
Proof. intros A B f a n. induction n as [|n IH]; cbn [repeat map]; [reflexivity|]. rewrite IH. reflexivity. Qed.

Lemma init_sim : forall NN par ord app st s7,
  init7 par ord app st = Ok s7 ->
  init3 par ord app st = Ok (st3_of s7) /\ SI NN s7 /\ v_mode s7 <> QFinal.
Proof.
  intros NN par ord app st s7 H. unfold init7 in H.
  destruct (init3 par ord app st) as [s3| |] eqn:E3; try discriminate.
  destruct (new_cache l1LineSize l1Size) as [l1d| |] eqn:EC; try discriminate.
  inversion H; subst. clear H.
  unfold init3 in E3. rewrite EC in E3.
  destruct (new_cache l3LineSize l3Size) as [c3| |] eqn:EL; try discriminate.
  cbv zeta in E3. inversion E3; subst. clear E3.
  assert (H3 : lines c3 = []) by (vm_compute in EL; inversion EL; reflexivity).
  split; [|split].
  - unfold st3_of. cbn [v_w v_eus v_wus v_cycle v_mode w_x t_x t_wus mode_of]. rewrite map_repeat7. reflexivity.
  - split; [|split; [|split]].
    + cbn [v_w t_x]. split; [reflexivity|]. cbn [w_x]. unfold PX.
      cbn [x_m x_ebus x_pend m_l3 m_cbus m_wbus].
      split; [exact H3|]. split; [apply bus_ok_new|]. split; [apply bus_ok_new|]. split; [constructor|].
      split; [apply bus_ok_new|].
      intros _. cbn [x_crat x_trat]. destruct (init_rat_read ord (regs st)) as [A B].
      split; [exact A|]. split; [apply rat_new_ok; unfold ratLength; lia|]. split.
      * intros k v HK. rewrite B in HK. destruct (0 <=? k) eqn:E0; [apply Z.leb_le; exact E0|discriminate].
      * intros k v HK. discriminate HK.
    + cbn [v_eus]. apply Forall_forall. intros e HE. apply repeat_spec in HE. subst.
      split; [left; reflexivity|]. split; [intros r Hr; discriminate Hr|]. repeat split.
    + cbn [v_wus t_wus]. apply Forall_forall. intros w HW. apply repeat_spec in HW. subst. reflexivity.
    + intros HM. discriminate HM.
  - discriminate.
Qed.

Lemma init7_of_init3 : forall par ord app st s3, init3 par ord app st = Ok s3 -> exists s7, init7 par ord app st = Ok s7.
Proof.
  intros par ord app st s3 H. unfold init7. rewrite H.
  destruct (new_cache l1LineSize l1Size) as [l1d| |] eqn:EC; [eexists; reflexivity| |]; vm_compute in EC; discriminate.
Qed.

(* ------------------------------------------------------------------ *)
(* 4. the theorems                                                      *)
(* ------------------------------------------------------------------ *)

Section Main.
  Variable NN : Prop.
  Variable app : list instr.
  Hypothesis Happ : reg_only app = true.
  Hypothesis Hnn : NN -> wregs_nonneg app = true.
  Variable ord : Z -> Z -> list Z -> list Z.
  Hypothesis Hfa : forall x, PX NN x -> FA ord x.

  Lemma regonly_sim_gen : forall par fuel labels st r os,
    r <> MOutOfFuel ->
    mvp63_run_os par ord fuel app labels st = (r, os) ->
    mvp70_run_os par ord (S fuel) app labels st = (plus_one_cycle r, os).
  Proof.
    intros par fuel labels st r os HR H. unfold mvp63_run_os in H. unfold mvp70_run_os.
    destruct (init3 par ord app st) as [s3| |] eqn:E3.
    - destruct (init7_of_init3 _ _ _ _ _ E3) as [s7 E7]. rewrite E7.
      destruct (init_sim NN _ _ _ _ _ E7) as (E3' & HS & HM). rewrite E3 in E3'. inversion E3'; subst s3.
      pose proof (run_sim NN app Happ Hnn ord Hfa labels fuel s7 HS HM) as RS.
      destruct (run3_st fuel app labels ord (st3_of s7)) as [[r' os']|s3'].
      + inversion H; subst. rewrite RS. reflexivity.
      + inversion H; subst. contradiction HR; reflexivity.
    - inversion H; subst. unfold init7. rewrite E3. reflexivity.
    - inversion H; subst. unfold init7. rewrite E3. reflexivity.
  Qed.

  Lemma regonly_outoffuel_gen : forall par fuel labels st os,
    mvp63_run_os par ord fuel app labels st = (MOutOfFuel, os) ->
    mvp70_run_os par ord fuel app labels st = (MOutOfFuel, os).
  Proof.
    intros par fuel labels st os H. unfold mvp63_run_os in H. unfold mvp70_run_os.
    destruct (init3 par ord app st) as [s3| |] eqn:E3; try discriminate.
    destruct (init7_of_init3 _ _ _ _ _ E3) as [s7 E7]. rewrite E7.
    destruct (init_sim NN _ _ _ _ _ E7) as (E3' & HS & HM). rewrite E3 in E3'. inversion E3'; subst s3.
    pose proof (run_sim NN app Happ Hnn ord Hfa labels fuel s7 HS HM) as RS.
    destruct (run3_st fuel app labels ord (st3_of s7)) as [[r' os']|s3'].
    - inversion H; subst.
      (* MVP-6.3 itself reports MOutOfFuel only through the fuel: a step never returns it *)
      exfalso. eapply run7_st_oof. exact RS.
    - destruct RS as (s' & E & -> & _ & _). rewrite E. inversion H; subst. reflexivity.
  Qed.

  Lemma run7_SI : forall labels fuel s s', SI NN s -> run7_st hooks70 fuel app labels ord s = inr s' -> SI NN s'.
  Proof.
    intros labels. induction fuel as [|f IH]; intros s s' HS H; cbn [run7_st] in H.
    - inversion H; subst. exact HS.
    - destruct (v_mode s) eqn:EM.
      5: { rewrite (step_final NN app labels ord s HS EM) in H. discriminate. }
      all: destruct (step_sim NN app Happ Hnn labels ord s HS ltac:(rewrite EM; discriminate)) as [_ HR];
           destruct (step7 hooks70 app labels ord s) as [r os|s1]; [discriminate|]; exact (IH s1 s' HR H).
  Qed.

  (* the memory system is idle in every state reached *)
  Lemma regonly_memsys_idle_gen : forall par fuel labels st s s',
    init7 par ord app st = Ok s -> run7_st hooks70 fuel app labels ord s = inr s' ->
    w_i (v_w s') = msi_new /\ Forall (fun e => CC (h_cc e) /\ (h_co e = HNone \/ h_co e = HPrepare)) (v_eus s') /\
    Forall (fun u => u_co u = WNone) (v_wus s').
  Proof.
    intros par fuel labels st s s' E7 ER.
    destruct (init_sim NN _ _ _ _ _ E7) as (_ & HS & _).
    destruct (run7_SI labels fuel s s' HS ER) as ((I1 & _) & HE & HW & _). split; [exact I1|]. split; [|exact HW].
    eapply Forall_impl; [|exact HE]. intros e (A & _ & C). split; assumption.
  Qed.
End Main.

(* --- for every order function, when no register number written by the program is negative --- *)

Lemma regs_ok_wregs_nonneg : forall app, regs_ok app = true -> wregs_nonneg app = true.
Proof.
  intros app H. unfold regs_ok in H. unfold wregs_nonneg. rewrite forallb_forall in *. intros i Hi.
  specialize (H i Hi). unfold reg_rng in H. rewrite forallb_forall in *. intros r Hr.
  specialize (H r ltac:(apply in_or_app; right; exact Hr)). apply andb_true_iff in H as [H _]. exact H.
Qed.

Theorem mvp70_regonly_sim_mvp63 : forall app, reg_only app = true -> wregs_nonneg app = true ->
  forall par ord fuel labels st r os,
  r <> MOutOfFuel ->
  mvp63_run_os par ord fuel app labels st = (r, os) ->
  mvp70_run_os par ord (S fuel) app labels st = (plus_one_cycle r, os).
Proof.
  intros app HA HW par ord. exact (regonly_sim_gen True app HA (fun _ => HW) ord (fun x HP => FA_nonneg ord x HP) par).
Qed.

Theorem mvp70_regonly_outoffuel : forall app, reg_only app = true -> wregs_nonneg app = true ->
  forall par ord fuel labels st os,
  mvp63_run_os par ord fuel app labels st = (MOutOfFuel, os) ->
  mvp70_run_os par ord fuel app labels st = (MOutOfFuel, os).
Proof.
  intros app HA HW par ord. exact (regonly_outoffuel_gen True app HA (fun _ => HW) ord (fun x HP => FA_nonneg ord x HP) par).
Qed.

(* the architectural result alone: registers and memory of a run that returns *)
Corollary mvp70_regonly_same_state : forall app, reg_only app = true -> wregs_nonneg app = true ->
  forall par ord fuel labels st c st',
  mvp63_run par ord fuel app labels st = MDone c st' ->
  mvp70_run par ord (S fuel) app labels st = MDone (c + 1) st'.
Proof.
  intros app HA HW par ord fuel labels st c st' H. unfold mvp63_run in H. unfold mvp70_run.
  destruct (mvp63_run_os par ord fuel app labels st) as [r os] eqn:E. cbn [fst] in H. subst r.
  rewrite (mvp70_regonly_sim_mvp63 app HA HW par ord fuel labels st (MDone c st') os ltac:(discriminate) E). reflexivity.
Qed.

(* --- for every program without loads / stores, when the order function ignores the cycle on the RAT maps --- *)

Theorem mvp70_regonly_sim_mvp63_stable : forall app, reg_only app = true ->
  forall par ord fuel labels st r os,
  ord_stable ord ->
  r <> MOutOfFuel ->
  mvp63_run_os par ord fuel app labels st = (r, os) ->
  mvp70_run_os par ord (S fuel) app labels st = (plus_one_cycle r, os).
Proof.
  intros app HA par ord fuel labels st r os HS.
  exact (regonly_sim_gen False app HA (fun F => match F with end) ord (fun x _ => FA_stable ord x HS) par fuel labels st r os).
Qed.

Theorem mvp70_regonly_outoffuel_stable : forall app, reg_only app = true ->
  forall par ord fuel labels st os,
  ord_stable ord ->
  mvp63_run_os par ord fuel app labels st = (MOutOfFuel, os) ->
  mvp70_run_os par ord fuel app labels st = (MOutOfFuel, os).
Proof.
  intros app HA par ord fuel labels st os HS.
  exact (regonly_outoffuel_gen False app HA (fun F => match F with end) ord (fun x _ => FA_stable ord x HS) par fuel labels st os).
Qed.

(* --- the memory system of MVP-7.0 is never used (every program without loads / stores, every order) --- *)

Theorem mvp70_regonly_memsys_idle : forall app, reg_only app = true ->
  forall par ord fuel labels st s s',
  init7 par ord app st = Ok s -> run7_st hooks70 fuel app labels ord s = inr s' ->
  w_i (v_w s') = msi_new /\
  Forall (fun e => CC (h_cc e) /\ (h_co e = HNone \/ h_co e = HPrepare)) (v_eus s') /\
  Forall (fun u => u_co u = WNone) (v_wus s').
Proof.
  intros app HA par ord fuel labels st s s'.
  exact (regonly_memsys_idle_gen False app HA (fun F => match F with end) ord par fuel labels st s s').
Qed.

(* --- without either hypothesis the statement is false of the model --- *)

Definition alt_ord : Z -> Z -> list Z -> list Z := fun c _ l => if Z.even c then l else rev l.
Definition neg_prog : list instr := [I_li (mk_li (-1) 5)].
Definition neg_st : arch := mk_arch [7; 8] [].

Lemma neg_runs :
  reg_only neg_prog = true /\ wregs_nonneg neg_prog = false /\
  mvp63_run_os 1 alt_ord 400 neg_prog no_labels neg_st = (MDone 314 (mk_arch [5; 8] []), false) /\
  mvp70_run_os 1 alt_ord 401 neg_prog no_labels neg_st = (MDone 315 (mk_arch [7; 8] []), false) /\
  mvp70_run_os 1 ord_asc 401 neg_prog no_labels neg_st = (MDone 315 (mk_arch [5; 8] []), false) /\
  mvp70_run_os 1 ord_desc 401 neg_prog no_labels neg_st = (MDone 315 (mk_arch [7; 8] []), false).
Proof. vm_compute. repeat split. Qed.

Theorem mvp70_regonly_sim_mvp63_refuted :
  ~ (forall app, reg_only app = true ->
     forall par ord fuel labels st r os,
     r <> MOutOfFuel ->
     mvp63_run_os par ord fuel app labels st = (r, os) ->
     mvp70_run_os par ord (S fuel) app labels st = (plus_one_cycle r, os)).
Proof.
  intros H. destruct neg_runs as (HA & _ & E3 & E7 & _).
  assert (NF : MDone 314 (mk_arch [5; 8] []) <> MOutOfFuel) by discriminate.
  pose proof (H neg_prog HA 1%nat alt_ord 400%nat no_labels neg_st (MDone 314 (mk_arch [5; 8] [])) false NF E3) as H1.
  rewrite E7 in H1. cbn [plus_one_cycle] in H1. discriminate H1.
Qed.

(* ------------------------------------------------------------------ *)
(* 5. transport of the refinement theorem of MVP-6.3                    *)
(* ------------------------------------------------------------------ *)

Definition fuel_bound70 (n : nat) : nat := S (fuel_bound63 n).

Section Straight70.
  Variables (app : list instr) (labels : Z -> option Z).
  Hypothesis Happ : wf_app app.
  Hypothesis Hstr : straight app = true.
  Hypothesis Hreg : reg_only app = true.
  Hypothesis Hssa : ssa app = true.
  Hypothesis Hrng : regs_ok app = true.

  Variables (par : nat) (fuel : nat) (st st' : arch) (tr : list Z).
  Hypothesis Hpar : (1 <= par)%nat.
  Hypothesis Hr32 : Forall int32 (regs st).
  Hypothesis Hlen : length (regs st) = 32%nat.
  Hypothesis Hx0 : nth 0 (regs st) 0 = 0.
  Hypothesis Hrun : seq_run fuel (map sinstr_of app) labels st = Done st' tr.

  (* MVP-7.0 computes the sequential registers and memory on single-assignment register-only straight-line
     programs: every number of cores, every iteration order of Go's maps, all fuels from fuel_bound70 (length app)
     on; the ghost flag stays clear; one cycle more than MVP-6.3 *)
  Theorem mvp70_run_ssa_straight ord :
    exists c, (forall fuel', (fuel_bound70 (length app) <= fuel')%nat -> mvp70_run_os par ord fuel' app labels st = (MDone c st', false)) /\
              Z.of_nat (length tr) + 2 <= 2 * c /\
              (forall fuel', (fuel_bound63 (length app) <= fuel')%nat -> mvp63_run_os par ord fuel' app labels st = (MDone (c - 1) st', false)).
  Proof.
    destruct (mvp63_run_ssa_straight app labels Happ Hstr Hreg Hssa Hrng par fuel st st' tr Hpar Hr32 Hlen Hx0 Hrun ord) as (c & H & Hb).
    exists (c + 1). split; [|split; [lia|]].
    - intros fuel' Hf. unfold fuel_bound70 in Hf. destruct fuel' as [|f]; [lia|].
      apply (mvp70_regonly_sim_mvp63 app Hreg (regs_ok_wregs_nonneg app Hrng) par ord f labels st (MDone c st') false); [discriminate|].
      apply H. lia.
    - intros fuel' Hf. replace (c + 1 - 1) with c by lia. apply H. exact Hf.
  Qed.

  Theorem mvp70_refines_seq_ssa_straight ord :
    exists c, forall fuel', (fuel_bound70 (length app) <= fuel')%nat -> mvp70_run par ord fuel' app labels st = MDone c st'.
  Proof. destruct (mvp70_run_ssa_straight ord) as (c & H & _). exists c. intros fuel' Hf. unfold mvp70_run. rewrite (H fuel' Hf). reflexivity. Qed.

  Theorem mvp70_ghost_clear_ssa_straight ord fuel' : (fuel_bound70 (length app) <= fuel')%nat ->
    snd (mvp70_run_os par ord fuel' app labels st) = false.
  Proof. intros Hf. destruct (mvp70_run_ssa_straight ord) as (c & H & _). rewrite (H fuel' Hf). reflexivity. Qed.

  Theorem mvp70_terminates_ssa_straight ord :
    exists c, mvp70_run par ord (fuel_bound70 (length app)) app labels st = MDone c st' /\ (Z.of_nat (length tr) + 1) / 2 + 1 <= c.
  Proof.
    destruct (mvp70_run_ssa_straight ord) as (c & H1 & H2 & _). exists c. unfold mvp70_run. rewrite (H1 _ (le_n _)). split; [reflexivity|].
    clear - H2. lia.
  Qed.

  Corollary mvp70_no_panic_ssa_straight ord fuel' : (fuel_bound70 (length app) <= fuel')%nat ->
    mvp70_run par ord fuel' app labels st <> MPanic /\ mvp70_run par ord fuel' app labels st <> MOutOfFuel /\
    (forall e, mvp70_run par ord fuel' app labels st <> MErr e).
  Proof.
    intros Hf. destruct (mvp70_refines_seq_ssa_straight ord) as (c & Hc). rewrite (Hc fuel' Hf). repeat split; try discriminate.
  Qed.
End Straight70.

(* the 14-instruction example of Mvp63RefProofs.v: at every number of cores and for EVERY order function *)
Corollary mvp70_ssa_example_any par ord : (1 <= par)%nat ->
  exists c st', seq_run 100 (map sinstr_of (map instr_of ex63_prog)) no_labels zero32 = Done st' (rev (map (fun k => 4 * Z.of_nat k) (seq 0 14))) /\
    (forall fuel, (fuel_bound70 14 <= fuel)%nat -> mvp70_run_os par ord fuel (map instr_of ex63_prog) no_labels zero32 = (MDone c st', false)) /\
    rget (regs st') 18 = 251 /\ 8 <= c.
Proof.
  intros Hpar. destruct (mvp63_ssa_example_any par ord Hpar) as (c & st' & Hs & Hc & R18 & Hb).
  exists (c + 1), st'. split; [exact Hs|]. split; [|split; [exact R18|lia]].
  intros fuel Hf. unfold fuel_bound70 in Hf. destruct fuel as [|f]; [lia|].
  apply (mvp70_regonly_sim_mvp63 (map instr_of ex63_prog) ltac:(vm_compute; reflexivity) ltac:(vm_compute; reflexivity)
           par ord f no_labels zero32 (MDone c st') false); [discriminate|].
  apply Hc. lia.
Qed.

(* the same example by computation: three cores, both orders; the hypotheses of the theorem hold *)
Example mvp70_ssa_example :
  let app := map instr_of ex63_prog in
  straight app = true /\ reg_only app = true /\ ssa app = true /\ regs_ok app = true /\ wregs_nonneg app = true /\
  exists st' tr,
    seq_run 100 (map sinstr_of app) no_labels zero32 = Done st' tr /\ length tr = 14%nat /\
    mvp63_run_os 3 ord_asc 3000 app no_labels zero32 = (MDone 332 st', false) /\
    mvp70_run_os 1 ord_asc 3001 app no_labels zero32 = (MDone 334 st', false) /\
    mvp70_run_os 3 ord_asc 3001 app no_labels zero32 = (MDone 333 st', false) /\
    mvp70_run_os 3 ord_desc 3001 app no_labels zero32 = (MDone 333 st', false) /\
    mvp70_run_os 3 alt_ord 3001 app no_labels zero32 = (MDone 333 st', false) /\
    rget (regs st') 9 = 63 /\ rget (regs st') 13 = 57 /\ rget (regs st') 18 = 251.
Proof.
  cbv zeta. repeat (split; [vm_compute; reflexivity|]).
  eexists. eexists. split; [vm_compute; reflexivity|]. repeat split; vm_compute; reflexivity.
Qed.

(* a program outside the class of the refinement theorem (a taken branch, a flush, a wrong-path instruction, a
   forwarding chain with a write-after-read): the lock-step theorem applies all the same *)
Definition ro70_prog : list instr :=
  [I_li (mk_li 5 11); I_beq (mk_beq 0 0 1); I_add (mk_add 6 5 5); I_li (mk_li 10 9);
   I_mul (mk_mul 6 10 5); I_add (mk_add 7 6 5); I_li (mk_li 5 77); I_ret mk_ret].
Example mvp70_regonly_example :
  reg_only ro70_prog = true /\ wregs_nonneg ro70_prog = true /\
  forall par, In par [1; 2; 3; 4]%nat ->
    fst (mvp63_run_os par ord_asc 3000 ro70_prog (one_label 12) (st_of [] [(0, 5); (70, 3)])) <> MOutOfFuel /\
    mvp70_run_os par ord_asc 3001 ro70_prog (one_label 12) (st_of [] [(0, 5); (70, 3)]) =
      (plus_one_cycle (fst (mvp63_run_os par ord_asc 3000 ro70_prog (one_label 12) (st_of [] [(0, 5); (70, 3)]))),
       snd (mvp63_run_os par ord_asc 3000 ro70_prog (one_label 12) (st_of [] [(0, 5); (70, 3)]))).
Proof.
  split; [reflexivity|]. split; [reflexivity|].
  intros par [<-|[<-|[<-|[<-|[]]]]]; (split; [vm_compute; discriminate|vm_compute; reflexivity]).
Qed.

Print Assumptions fin_indep.
Print Assumptions mvp70_regonly_sim_mvp63.
Print Assumptions mvp70_regonly_outoffuel.
Print Assumptions mvp70_regonly_sim_mvp63_stable.
Print Assumptions mvp70_regonly_memsys_idle.
Print Assumptions mvp70_regonly_sim_mvp63_refuted.
Print Assumptions mvp70_run_ssa_straight.
Print Assumptions mvp70_terminates_ssa_straight.
Print Assumptions mvp70_ssa_example_any.
Print Assumptions mvp70_ssa_example.
Print Assumptions mvp70_regonly_example.
