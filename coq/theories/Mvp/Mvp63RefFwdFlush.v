(* Refinement of MVP-6.3 to the sequential machine on single-assignment register-only programs with FORWARD
   control flow - the two flush loops of Run.

   Instruction E of the segment (a jump or a taken conditional branch, target: instruction t) reported a flush.
   The main loop handed over to the mode  NFlushE (sid E) (pcz t) from  and the invariant GF3 of
   Mvp63RefFwdDefs.v holds.  From there:

     step_E   one tick in mode NFlushE: every execute unit is idle and is skipped, writeBus.Connect moves the
              whole buffer (at most two entries) to the queue; when the write bus is empty CPU.flush runs at
              once (Fresh3), otherwise mode NFlushW 0 with 1..2 entries in the queue;
     step_W   one tick in mode NFlushW k: write unit k takes the oldest entry of the queue.  An entry wbq w with
              w <= E is written back (TabOK advances by tab_write / tab_nowrite of Mvp63RefFwdRat.v), an entry of
              the wrong path (tag above sid E) is dropped; when the queue is empty afterwards CPU.flush runs
              (Fresh3 by tab_rebase), otherwise the mode stays NFlushW k with one entry less;
     flush_W  induction on the number of entries left on the write bus;
     flush_run_tight   GF3 -> Fresh3 after k ticks, 1 <= k <= 3 (one tick NFlushE, at most two entries: the queue
              is empty in mode NFlushE and the buffer holds at most 2, the buffer is empty in mode NFlushW
              and the queue holds at most bb_ql = 2; the tick that empties the queue also does CPU.flush);
     flush_run         the same with the bound 8 asked for by the callers.

   EXTRA PREMISE (not a field of GF3):   sqx < 2147483647.
   CPU.flush increments ctx.sequenceID with int32 arithmetic (inc_seq3 = addS 32 (x_seq x) 1); Fresh3 asks for
   x_seq = sqx + 1, which is only true when sqx + 1 does not wrap.  GF3 bounds sqx from below only
   (0 <= sq <= sqx <= sq + 1).  The premise is carried by every lemma from fresh_of on.

   Nothing else is missing from GF3: bb_ql / bb_bl of the write bus come from f3_bw (BusOK). *)
From Coq Require Import ZArith List Bool Lia Permutation.
From Maj Require Import Base.Outcome Base.GoInt Base.GoTypes Isa.Spec Isa.Embed Isa.Seq Isa.Refine.
From Maj Require Import Gen.Latency Gen.RiscTables Gen.Opcodes Comp.Cache Comp.Rat Comp.RatProofs.
From Maj Require Import Mvp.Mvp12 Mvp.Mvp12Proofs Mvp.Mvp3 Mvp.Mvp3Proofs Mvp.Mvp4Skel Mvp.Mvp4Inv Mvp.Mvp5 Mvp.Mvp60
     Mvp.Mvp60RefSem Mvp.Mvp60RefDefs Mvp.Mvp60RefFront Mvp.Mvp60RefBack Mvp.Mvp60RefStep Mvp.Mvp60RefStep2
     Mvp.Mvp63 Mvp.Mvp63Proofs Mvp.Mvp63RefDefs Mvp.Mvp63RefInv Mvp.Mvp63RefExec Mvp.Mvp63RefRat Mvp.Mvp63RefStep
     Mvp.Mvp63RefFwdDefs Mvp.Mvp63RefFwdRat.
Import ListNotations.
Open Scope Z_scope.

(* ------------------------------------------------------------------ *)
(* generic facts                                                        *)

Lemma Forall_skipn3 {A} (P : A -> Prop) k : forall l, Forall P l -> Forall P (skipn k l).
Proof.
  induction k as [|k IH]; intros l H; [exact H|]. destruct l as [|a l]; [constructor|].
  cbn [skipn]. apply IH. inversion H; assumption.
Qed.

Lemma skipn_cons3 {A} k (l : list A) : (k < length l)%nat -> exists a r, skipn k l = a :: r.
Proof.
  intros H. destruct (skipn k l) as [|a r] eqn:E; [|eauto].
  apply (f_equal (@length A)) in E. rewrite skipn_length in E. cbn [length] in E. lia.
Qed.

Lemma clean_new3 {T} (b : bbus T) : bb_ql b = 2 -> bb_bl b = 2 -> bb_clean b = bb_new 2 2.
Proof. intros A B. unfold bb_clean, bb_new. rewrite A, B. reflexivity. Qed.

(* the mode is that of the loop of a write unit *)
Definition isW (s : st3) : Prop := match t_mode s with NFlushW _ _ _ _ _ => True | _ => False end.
(* entries on the write bus *)
Definition wlen (s : st3) : nat := length (flat (m_wbus (x_m (t_x s)))).

(* the write bus without the head of its queue *)
Definition wb_tl (x : mx) (q' : list wb6) : mach :=
  set_wbus (x_m x) (mk_bb (bb_buf (m_wbus (x_m x))) q' (bb_ql (m_wbus (x_m x))) (bb_bl (m_wbus (x_m x)))).

(* ------------------------------------------------------------------ *)
(* writeUnit.Cycle on an idle write unit                                *)

Lemma wu3_none x wu before : u_co wu = WNone -> bb_q (m_wbus (x_m x)) = [] -> wu_cycle3 x wu before = Ok (x, wu).
Proof.
  intros H Hq. unfold wu_cycle3, bb_get. rewrite H, Hq.
  destruct x as [m eb pe pv pcb sq' cr tr fw ch nx os]. destruct m. reflexivity.
Qed.

Lemma wu3_drop x wu before c q' : u_co wu = WNone -> bb_q (m_wbus (x_m x)) = c :: q' ->
  before <> -1 -> before < w_seq c -> wu_cycle3 x wu before = Ok (set_m x (wb_tl x q'), wu).
Proof.
  intros H Hq H1 H2. unfold wu_cycle3, bb_get. rewrite H, Hq.
  assert (E1 : (before =? -1) = false) by (apply Z.eqb_neq; exact H1).
  assert (E2 : (before <? w_seq c) = true) by (apply Z.ltb_lt; exact H2).
  rewrite E1, E2. reflexivity.
Qed.

Lemma wu3_keep_reg x wu before c q' : u_co wu = WNone -> bb_q (m_wbus (x_m x)) = c :: q' ->
  w_seq c <= before -> RegisterChange (w_exe c) = true ->
  wu_cycle3 x wu before =
    Ok (set_m (set_rats3 x (x_crat x) (rat_write tu0 (x_trat x) (Register (w_exe c)) (w_seq c, RegisterValue (w_exe c))))
              (del_pending6 (wb_tl x q') (w_reads c) (w_writes c)), wu).
Proof.
  intros H Hq H2 Hr. unfold wu_cycle3, bb_get. rewrite H, Hq.
  assert (E2 : (before <? w_seq c) = false) by (apply Z.ltb_ge; exact H2).
  rewrite E2, andb_false_r, Hr. reflexivity.
Qed.

Lemma wu3_keep_none x wu before c q' : u_co wu = WNone -> bb_q (m_wbus (x_m x)) = c :: q' ->
  w_seq c <= before -> RegisterChange (w_exe c) = false -> MemoryChange (w_exe c) = false ->
  wu_cycle3 x wu before = Ok (set_m x (del_pending6 (wb_tl x q') (w_reads c) (w_writes c)), wu).
Proof.
  intros H Hq H2 Hr Hm. unfold wu_cycle3, bb_get. rewrite H, Hq.
  assert (E2 : (before <? w_seq c) = false) by (apply Z.ltb_ge; exact H2).
  rewrite E2, andb_false_r, Hr, Hm. reflexivity.
Qed.

Section Flush.
  Variables (app : list instr) (labels : Z -> option Z) (regs0 mem0 : list Z) (base : nat) (sq : Z)
            (ord : Z -> Z -> list Z -> list Z).
  Hypothesis Happ : wf_app app.
  Hypothesis Hreg : reg_only app = true.
  Hypothesis Hrng : regs_ok app = true.
  Hypothesis Hlen0 : length regs0 = 32%nat.
  Hypothesis Hx0 : nth 0 regs0 0 = 0.
  Hypothesis Hbase : (base <= length app)%nat.
  Hypothesis Hsq : 0 <= sq.
  Let n := length app.
  Let N := stop_from app base.
  Hypothesis Hsem : forall k, (base <= k <= N)%nat -> (k < n)%nat ->
    exec (sinstr_of (ik app k)) (rget (sreg app labels regs0 base k)) labels (pcz k) [] = Ok (eff app labels regs0 base k) /\
    (forall a, etarget (eff app labels regs0 base k) = Some a -> exists t, a = pcz t /\ (k < t <= n)%nat).

  Notation sreg := (sreg app labels regs0 base).
  Notation TabOK := (TabOK app labels regs0 base sq).
  Notation exeb := (exeb app labels regs0 base).
  Notation wbq := (wbq app labels regs0 base sq).
  Notation sid := (sid sq).
  Notation GF3 := (GF3 app labels regs0 mem0 base sq).
  Notation Fresh3 := (Fresh3 app labels mem0).
  Notation step3 := (step3 app labels ord).

  (* the three lemmas of Mvp63RefFwdRat.v at the parameters of this section *)
  Lemma tabW w crat trat : TabOK w crat trat -> (base <= w)%nat -> RegisterChange (exeb w) = true ->
    TabOK (S w) crat (rat_write tu0 trat (Register (exeb w)) (sid w, RegisterValue (exeb w))).
  Proof. apply (tab_write app labels regs0 base Hrng Hlen0 Hx0 sq). Qed.
  Lemma tabN w crat trat : TabOK w crat trat -> (base <= w)%nat -> RegisterChange (exeb w) = false -> TabOK (S w) crat trat.
  Proof. apply (tab_nowrite app labels regs0 base Hlen0 sq). Qed.
  Lemma tabR w crat trat t sq' : TabOK w crat trat -> (base <= w)%nat -> sid w <= sid3 sq' t ->
    Mvp63RefFwdDefs.TabOK app labels (sreg w) t sq' t crat trat.
  Proof. apply (tab_rebase app labels regs0 base Hlen0 sq). Qed.

  Lemma run_S s s' fuel : step3 s = TCont s' -> run3_st (S fuel) app labels ord s = run3_st fuel app labels ord s'.
  Proof. intros H. cbn [run3_st]. rewrite H. reflexivity. Qed.

  (* ---------------------------------------------------------------- *)
  (* idle execute units inside the flush loop                          *)

  Lemma eus_flush_idle from x acc : forall eus, Forall EuIdle eus ->
    eus_flush3 labels ord from x eus acc = (false, Ok (x, eus, acc)).
  Proof.
    induction 1 as [|e t [He _] _ IH]; [reflexivity|]. cbn [eus_flush3]. unfold eu_empty3. rewrite He, IH. reflexivity.
  Qed.

  (* ---------------------------------------------------------------- *)
  (* GF3 is carried to a state that differs in the write bus, the tables, the scoreboard, the cycle, the mode *)

  Lemma GF3_frame w w' E t sqx s s' : GF3 w E t sqx s ->
    (base <= w' <= S E)%nat ->
    (exists junk, flat (m_wbus (x_m (t_x s'))) = map wbq (seq w' (S E - w')) ++ junk /\
                  Forall (fun c => sid E < w_seq c) junk) ->
    BusOK (t_cycle s') (m_wbus (x_m (t_x s'))) ->
    TabOK w' (x_crat (t_x s')) (x_trat (t_x s')) ->
    ((exists from, t_mode s' = NFlushE (sid E) (pcz t) from /\
                   bb_q (m_wbus (x_m (t_x s'))) = [] /\ blen (m_wbus (x_m (t_x s'))) <= 2) \/
     (exists k from, t_mode s' = NFlushW k (sid E) (pcz t) from true /\ (k < length (t_wus s'))%nat /\
                     bb_buf (m_wbus (x_m (t_x s'))) = [])) ->
    x_fwd (t_x s') = x_fwd (t_x s) -> x_seq (t_x s') = x_seq (t_x s) ->
    x_chan (t_x s') = x_chan (t_x s) -> x_next (t_x s') = x_next (t_x s) ->
    m_regs (x_m (t_x s')) = m_regs (x_m (t_x s)) -> m_mem (x_m (t_x s')) = m_mem (x_m (t_x s)) ->
    m_l3 (x_m (t_x s')) = m_l3 (x_m (t_x s)) -> x_os (t_x s') = x_os (t_x s) ->
    m_l1i (x_m (t_x s')) = m_l1i (x_m (t_x s)) -> m_bu (x_m (t_x s')) = m_bu (x_m (t_x s)) ->
    x_ebus (t_x s') = x_ebus (t_x s) -> m_dbus (x_m (t_x s')) = m_dbus (x_m (t_x s)) ->
    m_cbus (x_m (t_x s')) = m_cbus (x_m (t_x s)) -> m_ebus (x_m (t_x s')) = m_ebus (x_m (t_x s)) ->
    t_eus s' = t_eus s -> t_wus s' = t_wus s ->
    GF3 w' E t sqx s'.
  Proof.
    intros G Hw Hbus Hbw Htab Hmode E1 E2 E3 E4 E5 E6 E7 E8 E9 E10 E11 E12 E13 E14 E15 E16.
    destruct G as [GE Gex Gout _ _ _ Gfwd Gseq Gchan Gregs Gmem Gl3 Gos Gl1 Gbtb Gebl Gmb Geus Gst Gwus Gwne Glen _].
    constructor; rewrite ?E1, ?E2, ?E3, ?E4, ?E5, ?E6, ?E7, ?E8, ?E9, ?E10, ?E11, ?E12, ?E13, ?E14, ?E15, ?E16; try assumption.
    - destruct GE as (_ & G2). split; [exact Hw | exact G2].
    - rewrite E16 in Hmode. exact Hmode.
  Qed.

  (* ---------------------------------------------------------------- *)
  (* CPU.flush once everything up to E has been written back            *)

  Lemma sid_nonneg k : 0 <= sid k.
  Proof. unfold Mvp63RefFwdDefs.sid, sid3, pcz. lia. Qed.

  Lemma sid_le a b : (a <= b)%nat -> sid a <= sid b.
  Proof. intros H. unfold Mvp63RefFwdDefs.sid, sid3, pcz. lia. Qed.

  Lemma fresh_of E t sqx s : sqx < 2147483647 -> GF3 (S E) E t sqx s ->
    Fresh3 t (sqx + 1) (sreg (S E))
      (mk_st3 (do_flush3 (t_x s) (pcz t)) (map eu_flush3 (t_eus s)) (t_wus s) (t_cycle s + Flush) NNormal).
  Proof.
    intros Hsqx [GE Gex Gout Gwb Gbw Gtab Gfwd [Gseq Gsq] Gchan Gregs Gmem Gl3 Gos Gl1 Gbtb [Ge1 Ge2] Gmb Geus Gst Gwus Gwne Glen _].
    destruct Gmb as (P1 & P2 & P3 & P4 & P5 & P6). destruct Gbw as [B1 B2 _ _].
    destruct GE as (Hw & HEN & HEn & HEt).
    assert (Hinc : addS 32 sqx 1 = sqx + 1).
    { unfold addS. apply wrapS_id; [lia|]. unfold inS. change (2 ^ (32 - 1)) with 2147483648. clear - Hsq Gsq Hsqx. lia. }
    constructor;
      cbn [t_x t_eus t_wus t_cycle t_mode do_flush3 inc_seq3 set_pcb3 set_prev3 set_pend3 set_ebus3 set_seq3 set_m
           x_m x_ebus x_pend x_prev x_pcb x_seq x_crat x_trat x_fwd x_chan x_next x_os
           do_flush6 m_regs m_mem m_pw m_pr m_l3 m_fu m_l1i m_dret m_dpbr m_cu m_bu m_dbus m_cbus m_ebus m_wbus
           fu_flush6 f_pc f_complete f_co]; try assumption; try reflexivity.
    - apply clean_new3; assumption.
    - apply clean_new3; assumption.
    - apply clean_new3; assumption.
    - apply clean_new3; assumption.
    - apply clean_new3; assumption.
    - rewrite Gseq. exact Hinc.
    - apply (tabR (S E)); [exact Gtab | lia|]. unfold Mvp63RefFwdDefs.sid, sid3, pcz. clear - Gsq HEt. lia.
    - apply Forall_forall. intros e He. apply in_map_iff in He as (e0 & <- & He0).
      rewrite Forall_forall in Geus. destruct (Geus e0 He0) as [_ A]. split; [reflexivity | exact A].
    - apply Forall_forall. intros e He. apply in_map_iff in He as (e0 & <- & He0).
      rewrite Forall_forall in Gst. intros r Hr. cbn [eu_flush3 g_runner] in Hr. pose proof (Gst e0 He0 r Hr) as Hlt.
      unfold Mvp63RefFwdDefs.sid, sid3, pcz in *. clear - Hlt Gsq HEt. lia.
    - rewrite map_length. exact Glen.
  Qed.

  (* ---------------------------------------------------------------- *)
  (* after a call of write unit k: the loop condition of the write units, `if isEmpty { break }`, m.flush *)

  Lemma advance_W w E t sqx x eus wus cy md0 k from : sqx < 2147483647 ->
    GF3 w E t sqx (mk_st3 x eus wus cy (NFlushW k (sid E) (pcz t) from true)) ->
    exists s', flush_advance3 (mk_st3 x eus wus cy md0) k (sid E) (pcz t) from true = TCont s' /\
      ((s' = mk_st3 x eus wus cy (NFlushW k (sid E) (pcz t) from true) /\ flat (m_wbus (x_m x)) <> []) \/
       Fresh3 t (sqx + 1) (sreg (S E)) s').
  Proof.
    intros Hsqx G. pose proof (f3_mode _ _ _ _ _ _ _ _ _ _ _ G) as Hm. cbn [t_mode t_x t_wus] in Hm.
    destruct Hm as [(fr & Hm & _)|(k0 & fr & Hm & Hk & Hbuf)]; [discriminate|]. injection Hm as <- <-.
    pose proof (f3_wus _ _ _ _ _ _ _ _ _ _ _ G) as GW. cbn [t_wus] in GW.
    unfold flush_advance3. cbn [t_x t_eus t_wus t_cycle].
    destruct (bb_q (m_wbus (x_m x))) as [|c q'] eqn:Eq.
    - assert (Hemp : bb_isempty (m_wbus (x_m x)) = true) by (unfold bb_isempty; rewrite Eq, Hbuf; reflexivity).
      rewrite Hemp, (flush_next_none _ k (Forall_skipn3 _ k _ GW)). eexists. split; [reflexivity|]. right.
      destruct (f3_wbus _ _ _ _ _ _ _ _ _ _ _ G) as (junk & Hfl & _). cbn [t_x] in Hfl.
      unfold flat in Hfl. rewrite Eq, Hbuf in Hfl. cbn [map List.app] in Hfl. symmetry in Hfl.
      apply app_eq_nil in Hfl as [Hfl _]. apply map_eq_nil in Hfl. apply (f_equal (@length nat)) in Hfl.
      rewrite seq_length in Hfl. cbn [length] in Hfl.
      pose proof (f3_E _ _ _ _ _ _ _ _ _ _ _ G) as (Hw & _).
      assert (HwE : w = S E) by lia. subst w.
      exact (fresh_of E t sqx _ Hsqx G).
    - assert (Hemp : bb_isempty (m_wbus (x_m x)) = false) by (unfold bb_isempty; rewrite Eq; reflexivity).
      rewrite Hemp. destruct (skipn_cons3 k wus Hk) as (a & r & Esk). rewrite Esk, flush_next_some.
      eexists. split; [reflexivity|]. left. split; [reflexivity|]. unfold flat. rewrite Eq. discriminate.
  Qed.

  (* ---------------------------------------------------------------- *)
  (* one tick in mode NFlushE                                          *)

  Lemma step_E w E t sqx s from : sqx < 2147483647 -> GF3 w E t sqx s -> t_mode s = NFlushE (sid E) (pcz t) from ->
    exists s', step3 s = TCont s' /\
      (Fresh3 t (sqx + 1) (sreg (S E)) s' \/ (GF3 w E t sqx s' /\ isW s' /\ (1 <= wlen s' <= 2)%nat)).
  Proof.
    intros Hsqx G Hmode. destruct s as [x eus wus cy md]. cbn [t_mode] in Hmode. subst md.
    pose proof (f3_mode _ _ _ _ _ _ _ _ _ _ _ G) as Hm. cbn [t_mode t_x t_wus] in Hm.
    destruct Hm as [(fr & _ & Hq & Hbl)|(k0 & fr & Hm & _)]; [|discriminate].
    pose proof (f3_eus _ _ _ _ _ _ _ _ _ _ _ G) as GE. cbn [t_eus] in GE.
    pose proof (f3_bw _ _ _ _ _ _ _ _ _ _ _ G) as GB. cbn [t_cycle t_x] in GB.
    pose proof (f3_wne _ _ _ _ _ _ _ _ _ _ _ G) as GWne. cbn [t_wus] in GWne.
    assert (GB1 : BusOK (cy + 1) (m_wbus (x_m x))) by (eapply busok_mono; [|exact GB]; lia).
    destruct (connect_allq (cy + 1) (m_wbus (x_m x)) GB1 Hq Hbl) as (Q1 & Q2 & Q3 & Q4).
    destruct (connect_spec (cy + 1) (m_wbus (x_m x)) GB1) as (W1 & W2 & _).
    unfold Mvp63.step3. cbn [t_mode t_x t_eus t_wus t_cycle]. rewrite (eus_flush_idle from x _ eus GE).
    cbv beta iota zeta. cbn [orb res_of3 a_err a_seq a_pc a_empty]. rewrite or_os_false.
    set (x1 := wbus_connect3 x (cy + 1 + 1)).
    assert (G1 : GF3 w E t sqx (mk_st3 x1 eus wus (cy + 1) (NFlushW 0 (sid E) (pcz t) from true))).
    { eapply (GF3_frame w w E t sqx _ _ G); cbn [t_x t_eus t_wus t_cycle t_mode]; try reflexivity.
      - apply (f3_E _ _ _ _ _ _ _ _ _ _ _ G).
      - unfold x1. cbn [wbus_connect3 set_m x_m set_wbus m_wbus]. rewrite W1. exact (f3_wbus _ _ _ _ _ _ _ _ _ _ _ G).
      - unfold x1. cbn [wbus_connect3 set_m x_m set_wbus m_wbus]. exact W2.
      - unfold x1. cbn [wbus_connect3 set_m x_crat x_trat]. exact (f3_tab _ _ _ _ _ _ _ _ _ _ _ G).
      - right. exists O, from. split; [reflexivity|]. split.
        + destruct wus; [contradiction | cbn [length]; lia].
        + unfold x1. cbn [wbus_connect3 set_m x_m set_wbus m_wbus]. exact Q2. }
    destruct (advance_W w E t sqx x1 eus wus (cy + 1) (NFlushE (sid E) (pcz t) from) 0 from Hsqx G1) as (s' & Eadv & Hs').
    exists s'. split; [exact Eadv|]. destruct Hs' as [[-> Hne]|HF]; [right | left; exact HF].
    split; [exact G1|]. split; [exact I|]. unfold wlen. cbn [t_x].
    unfold x1 in *. cbn [wbus_connect3 set_m x_m set_wbus m_wbus] in *.
    assert (Hl : (length (flat (bb_connect (m_wbus (x_m x)) (cy + 1 + 1))) <= 2)%nat).
    { rewrite W1. unfold flat. rewrite Hq. cbn [List.app]. rewrite map_length. unfold blen, zlen in Hbl. lia. }
    destruct (flat (bb_connect (m_wbus (x_m x)) (cy + 1 + 1))); [contradiction | cbn [length] in *; lia].
  Qed.

  (* ---------------------------------------------------------------- *)
  (* one tick in mode NFlushW                                          *)

  Lemma step_W w E t sqx s : sqx < 2147483647 -> GF3 w E t sqx s -> isW s ->
    exists s', step3 s = TCont s' /\
      (Fresh3 t (sqx + 1) (sreg (S E)) s' \/
       exists w', GF3 w' E t sqx s' /\ isW s' /\ (1 <= wlen s' < wlen s)%nat).
  Proof.
    intros Hsqx G HW. destruct s as [x eus wus cy md]. unfold isW in HW. cbn [t_mode] in HW.
    pose proof (f3_mode _ _ _ _ _ _ _ _ _ _ _ G) as Hm. cbn [t_mode t_x t_wus] in Hm.
    destruct Hm as [(fr & Hm & _)|(k & from & Hm & Hk & Hbuf)]; [rewrite Hm in HW; destruct HW|]. subst md. clear HW.
    pose proof (f3_wus _ _ _ _ _ _ _ _ _ _ _ G) as GW. cbn [t_wus] in GW.
    pose proof (f3_bw _ _ _ _ _ _ _ _ _ _ _ G) as GB. cbn [t_cycle t_x] in GB.
    pose proof (f3_E _ _ _ _ _ _ _ _ _ _ _ G) as (Hw & HEN & HEn & HEt).
    pose proof (f3_tab _ _ _ _ _ _ _ _ _ _ _ G) as GT. cbn [t_x] in GT.
    destruct (nth_error wus k) as [wu|] eqn:Enth; [|apply nth_error_None in Enth; lia].
    assert (Hco : u_co wu = WNone) by (rewrite Forall_forall in GW; apply GW; eapply nth_error_In; exact Enth).
    unfold Mvp63.step3. cbn [t_mode t_x t_eus t_wus t_cycle]. rewrite Enth.
    (* what is common to the three cases: the state after the call, its invariant, flush_advance3 *)
    assert (Hfin : forall x' w', wu_cycle3 x wu (sid E) = Ok (x', wu) ->
              GF3 w' E t sqx (mk_st3 x' eus wus cy (NFlushW k (sid E) (pcz t) from true)) ->
              (length (flat (m_wbus (x_m x'))) < length (flat (m_wbus (x_m x))) \/ flat (m_wbus (x_m x')) = [])%nat ->
              exists s', res_of3 (x_os x) (wu_cycle3 x wu (sid E)) (fun r =>
                           flush_advance3 (mk_st3 (fst r) eus (set_nth6 wus k (snd r)) cy (NFlushW k (sid E) (pcz t) from true))
                                          k (sid E) (pcz t) from true) = TCont s' /\
                (Fresh3 t (sqx + 1) (sreg (S E)) s' \/
                 exists w', GF3 w' E t sqx s' /\ isW s' /\
                   (1 <= wlen s' < wlen (mk_st3 x eus wus cy (NFlushW k (sid E) (pcz t) from true)))%nat)).
    { intros x' w' Ew G' Hlen. rewrite Ew. cbn [res_of3 fst snd]. rewrite (set_nth6_same wus k wu Enth).
      destruct (advance_W w' E t sqx x' eus wus cy (NFlushW k (sid E) (pcz t) from true) k from Hsqx G') as (s' & Eadv & Hs').
      exists s'. split; [exact Eadv|]. destruct Hs' as [[-> Hne]|HF]; [right | left; exact HF].
      exists w'. split; [exact G'|]. split; [exact I|]. unfold wlen. cbn [t_x].
      destruct Hlen as [Hlen|Hlen]; [|contradiction].
      destruct (flat (m_wbus (x_m x'))); [contradiction | cbn [length] in *; lia]. }
    destruct (bb_q (m_wbus (x_m x))) as [|c q'] eqn:Eq.
    - (* nothing on the bus *)
      apply (Hfin x w (wu3_none x wu (sid E) Hco Eq) G). right. unfold flat. rewrite Eq, Hbuf. reflexivity.
    - destruct (f3_wbus _ _ _ _ _ _ _ _ _ _ _ G) as (junk & Hfl & Hj). cbn [t_x] in Hfl.
      assert (Hfl0 : flat (m_wbus (x_m x)) = c :: q') by (unfold flat; rewrite Eq, Hbuf; cbn [map]; apply app_nil_r).
      rewrite Hfl0 in Hfl.
      assert (Hflat' : forall m', m_wbus m' = m_wbus (wb_tl x q') -> flat (m_wbus m') = q').
      { intros m' ->. unfold wb_tl, flat. cbn [set_wbus m_wbus bb_q bb_buf]. rewrite Hbuf. cbn [map]. apply app_nil_r. }
      assert (Hbus' : forall m', m_wbus m' = m_wbus (wb_tl x q') -> BusOK cy (m_wbus m')).
      { intros m' ->. unfold wb_tl. cbn [set_wbus m_wbus].
        eapply BusOK_frame; [| | | |exact GB]; cbn [bb_buf bb_ql bb_bl]; try reflexivity.
        unfold qlen. cbn [bb_q]. rewrite Eq, zlen_cons. lia. }
      assert (Hmode' : forall m', m_wbus m' = m_wbus (wb_tl x q') ->
                (exists fr, NFlushW k (sid E) (pcz t) from true = NFlushE (sid E) (pcz t) fr /\
                            bb_q (m_wbus m') = [] /\ blen (m_wbus m') <= 2) \/
                (exists k0 fr, NFlushW k (sid E) (pcz t) from true = NFlushW k0 (sid E) (pcz t) fr true /\
                               (k0 < length wus)%nat /\ bb_buf (m_wbus m') = [])).
      { intros m' ->. right. exists k, from. split; [reflexivity|]. split; [exact Hk|].
        unfold wb_tl. cbn [set_wbus m_wbus bb_buf]. exact Hbuf. }
      destruct (S E - w)%nat as [|m] eqn:Em.
      + (* an entry of the wrong path: dropped *)
        cbn [seq map List.app] in Hfl. subst junk. assert (HwE : w = S E) by lia. subst w.
        assert (Hc : sid E < w_seq c) by (inversion Hj; assumption).
        pose proof (sid_nonneg E) as Hnn.
        assert (Ew : wu_cycle3 x wu (sid E) = Ok (set_m x (wb_tl x q'), wu)).
        { apply (wu3_drop x wu (sid E) c q' Hco Eq); [lia | exact Hc]. }
        apply (Hfin _ (S E) Ew).
        * eapply (GF3_frame (S E) (S E) E t sqx _ _ G); cbn [t_x t_eus t_wus t_cycle t_mode set_m x_m x_crat x_trat]; try reflexivity.
          -- lia.
          -- exists q'. split; [|inversion Hj; assumption]. rewrite Hflat' by reflexivity.
             replace (S E - S E)%nat with O by lia. reflexivity.
          -- apply Hbus'. reflexivity.
          -- exact GT.
          -- apply Hmode'. reflexivity.
        * left. cbn [set_m x_m]. rewrite Hflat' by reflexivity. rewrite Hfl0. cbn [length]. lia.
      + (* the result of instruction w <= E: written back *)
        cbn [seq map List.app] in Hfl. injection Hfl as Hc Hq'.
        assert (HwE : (w <= E)%nat) by lia.
        destruct (embed_flags app labels regs0 base Hreg Hsem w ltac:(fold N; lia) ltac:(fold n; lia)) as (_ & Hmc & _).
        assert (Hseq : w_seq c <= sid E) by (rewrite Hc; cbn [Mvp63RefFwdDefs.wbq w_seq]; apply sid_le; exact HwE).
        assert (Hjunk' : exists junk0, q' = map wbq (seq (S w) (S E - S w)) ++ junk0 /\ Forall (fun c0 => sid E < w_seq c0) junk0).
        { exists junk. split; [|exact Hj]. rewrite Hq'. f_equal. f_equal. f_equal. lia. }
        destruct (RegisterChange (exeb w)) eqn:Erc.
        * assert (Ew := wu3_keep_reg x wu (sid E) c q' Hco Eq Hseq ltac:(rewrite Hc; exact Erc)).
          apply (Hfin _ (S w) Ew).
          -- eapply (GF3_frame w (S w) E t sqx _ _ G);
               cbn [t_x t_eus t_wus t_cycle t_mode set_m set_rats3 x_m x_crat x_trat x_fwd x_seq x_chan x_next x_os x_ebus
                    del_pending6 set_sb m_regs m_mem m_l3 m_l1i m_bu m_dbus m_cbus m_ebus]; try reflexivity.
             ++ lia.
             ++ rewrite Hflat' by reflexivity. exact Hjunk'.
             ++ apply Hbus'. reflexivity.
             ++ rewrite Hc. cbn [Mvp63RefFwdDefs.wbq w_seq w_exe]. apply tabW; [exact GT | lia | exact Erc].
             ++ apply Hmode'. reflexivity.
          -- left. cbn [set_m x_m]. rewrite Hflat' by reflexivity. rewrite Hfl0. cbn [length]. lia.
        * assert (Ew := wu3_keep_none x wu (sid E) c q' Hco Eq Hseq ltac:(rewrite Hc; exact Erc) ltac:(rewrite Hc; exact Hmc)).
          apply (Hfin _ (S w) Ew).
          -- eapply (GF3_frame w (S w) E t sqx _ _ G);
               cbn [t_x t_eus t_wus t_cycle t_mode set_m set_rats3 x_m x_crat x_trat x_fwd x_seq x_chan x_next x_os x_ebus
                    del_pending6 set_sb m_regs m_mem m_l3 m_l1i m_bu m_dbus m_cbus m_ebus]; try reflexivity.
             ++ lia.
             ++ rewrite Hflat' by reflexivity. exact Hjunk'.
             ++ apply Hbus'. reflexivity.
             ++ apply tabN; [exact GT | lia | exact Erc].
             ++ apply Hmode'. reflexivity.
          -- left. cbn [set_m x_m]. rewrite Hflat' by reflexivity. rewrite Hfl0. cbn [length]. lia.
  Qed.

  (* ---------------------------------------------------------------- *)
  (* the loops of the write units, by induction on the entries left     *)

  Lemma flush_W : forall (m w E t : nat) sqx s, sqx < 2147483647 -> GF3 w E t sqx s -> isW s -> (wlen s <= m)%nat ->
    exists k s', (1 <= k <= Nat.max 1 m)%nat /\
      (forall extra, run3_st (k + extra) app labels ord s = run3_st extra app labels ord s') /\
      Fresh3 t (sqx + 1) (sreg (S E)) s'.
  Proof.
    induction m as [|m IH]; intros w E t sqx s Hsqx G HW Hl.
    - destruct (step_W w E t sqx s Hsqx G HW) as (s' & Es & [HF|(w' & _ & _ & Hlen)]); [|lia].
      exists 1%nat, s'. split; [lia|]. split; [|exact HF]. intros extra. apply run_S. exact Es.
    - destruct (step_W w E t sqx s Hsqx G HW) as (s' & Es & [HF|(w' & G' & HW' & Hlen)]).
      + exists 1%nat, s'. split; [lia|]. split; [|exact HF]. intros extra. apply run_S. exact Es.
      + destruct (IH w' E t sqx s' Hsqx G' HW' ltac:(lia)) as (k & s'' & Hk & Hrun & HF).
        exists (S k), s''. split; [lia|]. split; [|exact HF]. intros extra.
        change (S k + extra)%nat with (S (k + extra)). rewrite (run_S s s' _ Es). apply Hrun.
  Qed.

  Lemma wlen_W w E t sqx s : GF3 w E t sqx s -> isW s -> (wlen s <= 2)%nat.
  Proof.
    intros G HW. pose proof (f3_mode _ _ _ _ _ _ _ _ _ _ _ G) as Hm. unfold isW in HW.
    destruct Hm as [(fr & Hm & _)|(k & from & _ & _ & Hbuf)]; [rewrite Hm in HW; destruct HW|].
    destruct (f3_bw _ _ _ _ _ _ _ _ _ _ _ G) as [_ _ Hq _]. unfold wlen, flat. rewrite Hbuf. cbn [map].
    rewrite app_nil_r. unfold qlen, zlen in Hq. lia.
  Qed.

  (* ---------------------------------------------------------------- *)
  (* from the request of the flush to the state right after CPU.flush   *)

  Theorem flush_run_tight w E t sqx s : sqx < 2147483647 -> GF3 w E t sqx s ->
    exists k s', (1 <= k <= 3)%nat /\
      (forall extra, run3_st (k + extra) app labels ord s = run3_st extra app labels ord s') /\
      Fresh3 t (sqx + 1) (sreg (S E)) s'.
  Proof.
    intros Hsqx G. destruct (f3_mode _ _ _ _ _ _ _ _ _ _ _ G) as [(from & Hm & _)|(k & from & Hm & _)].
    - destruct (step_E w E t sqx s from Hsqx G Hm) as (s1 & Es & [HF|(G1 & HW1 & Hl1)]).
      + exists 1%nat, s1. split; [lia|]. split; [|exact HF]. intros extra. apply run_S. exact Es.
      + destruct (flush_W 2 w E t sqx s1 Hsqx G1 HW1 ltac:(lia)) as (k & s2 & Hk & Hrun & HF).
        exists (S k), s2. split; [lia|]. split; [|exact HF]. intros extra.
        change (S k + extra)%nat with (S (k + extra)). rewrite (run_S s s1 _ Es). apply Hrun.
    - assert (HW : isW s) by (unfold isW; rewrite Hm; exact I).
      destruct (flush_W 2 w E t sqx s Hsqx G HW (wlen_W w E t sqx s G HW)) as (k' & s2 & Hk & Hrun & HF).
      exists k', s2. split; [lia|]. split; [exact Hrun | exact HF].
  Qed.

  Theorem flush_run w E t sqx s : sqx < 2147483647 -> GF3 w E t sqx s ->
    exists k s', (1 <= k <= 8)%nat /\
      (forall extra, run3_st (k + extra) app labels ord s = run3_st extra app labels ord s') /\
      Fresh3 t (sqx + 1) (sreg (S E)) s'.
  Proof.
    intros Hsqx G. destruct (flush_run_tight w E t sqx s Hsqx G) as (k & s' & Hk & Hrun & HF).
    exists k, s'. split; [lia|]. split; [exact Hrun | exact HF].
  Qed.
End Flush.

Print Assumptions flush_run.
