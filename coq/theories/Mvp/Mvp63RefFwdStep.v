(* Refinement of MVP-6.3 to the sequential machine on single-assignment register-only programs with FORWARD
   control flow - one tick of Run in the main loop and in the drain loop after ret (the port of Mvp63RefStep.v
   from G3 on to the invariants G3q / GR3q of Mvp63RefFwdDefs.v).

     step_ret3q      one tick of the drain loop after ret: the loop goes on with a shorter write-bus queue, or Run
                     returns the sequential result;
     step_normal3q   one tick of the main loop: the loop goes on and the potential phi3q decreases, or Run returns,
                     or the ret has been executed (drain loop), or an instruction E has asked for a flush (GF3: the
                     invariant of the flush loops). *)
From Coq Require Import ZArith List Bool Lia Permutation.
From Maj Require Import Base.Outcome Base.GoInt Base.GoTypes Isa.Spec Isa.Embed Isa.Seq Isa.Refine.
From Maj Require Import Gen.Latency Gen.RiscTables Gen.Opcodes Comp.Cache Comp.Rat Comp.RatProofs.
From Maj Require Import Mvp.Mvp12 Mvp.Mvp12Proofs Mvp.Mvp3 Mvp.Mvp3Proofs Mvp.Mvp4Skel Mvp.Mvp4Inv Mvp.Mvp5 Mvp.Mvp60
     Mvp.Mvp60RefSem Mvp.Mvp60RefDefs Mvp.Mvp60RefFront Mvp.Mvp60RefBack Mvp.Mvp60RefStep Mvp.Mvp60RefStep2
     Mvp.Mvp63 Mvp.Mvp63Proofs Mvp.Mvp63RefDefs Mvp.Mvp63RefInv Mvp.Mvp63RefExec Mvp.Mvp63RefRat Mvp.Mvp63RefStep
     Mvp.Mvp63RefFwdDefs Mvp.Mvp63RefFwdRat Mvp.Mvp63RefFwdFront Mvp.Mvp63RefFwdInv Mvp.Mvp63RefFwdExec.
From Maj Require Mvp.Mvp60RefProofs.
Import ListNotations.
Open Scope Z_scope.

Lemma idle_setseq s eus : Forall EuIdle eus -> Forall EuIdle (map (fun e => mk_eu3 (g_co e) (g_memory e) (g_runner e) s) eus).
Proof. intros H. apply Forall_forall. intros e He. apply in_map_iff in He as (e0 & <- & H0). rewrite Forall_forall in H. exact (H e0 H0). Qed.

Lemma stale_setseq b s eus : Forall (StaleOK b) eus -> Forall (StaleOK b) (map (fun e => mk_eu3 (g_co e) (g_memory e) (g_runner e) s) eus).
Proof. intros H. apply Forall_forall. intros e He. apply in_map_iff in He as (e0 & <- & H0). rewrite Forall_forall in H. apply StaleOK_seq. exact (H e0 H0). Qed.

Section FwdStep.
  Variables (app : list instr) (labels : Z -> option Z) (regs0 mem0 : list Z) (base : nat) (sq : Z) (ord : Z -> Z -> list Z -> list Z).
  Hypothesis Happ : wf_app app.
  Hypothesis Hreg : reg_only app = true.
  Hypothesis Hssa : ssa app = true.
  Hypothesis Hrng : regs_ok app = true.
  Hypothesis Hlen0 : length regs0 = 32%nat.
  Hypothesis Hr32 : Forall int32 regs0.
  Hypothesis Hx0 : nth 0 regs0 0 = 0.
  Hypothesis Hbase : (base <= length app)%nat.
  Hypothesis Hsq : 0 <= sq /\ 1000 * sq + 4 * Z.of_nat (length app) + 4 < 2147483648.
  Let n := length app.
  Let N := stop_from app base.

  Notation sreg := (sreg app labels regs0 base).
  Notation eff := (eff app labels regs0 base).
  Notation ik := (ik app).
  Notation kout := (kout app labels regs0 base).
  Notation sid := (sid sq).
  Notation rnq := (rnq app sq).
  Notation wbq := (wbq app labels regs0 base sq).
  Notation TabOK := (TabOK app labels regs0 base sq).
  Notation BIq := (BIq app labels regs0 mem0 base sq).
  Notation FIq := (FIq app labels regs0 mem0 base sq).
  Notation FrontI := (FrontI app base).
  Notation phiF := (phiF app).
  Notation G3q := (G3q app labels regs0 mem0 base sq).
  Notation GR3q := (GR3q app labels regs0 mem0 base sq).
  Notation GF3 := (GF3 app labels regs0 mem0 base sq).
  Notation Fin3q := (Fin3q app labels regs0 mem0 base).

  Hypothesis Hsem : forall k, (base <= k <= N)%nat -> (k < n)%nat ->
    exec (sinstr_of (ik k)) (rget (sreg k)) labels (pcz k) [] = Ok (eff k) /\
    (forall a, etarget (eff k) = Some a -> exists t, a = pcz t /\ (k < t <= n)%nat).
  Hypothesis Htot : forall k rr, (k < n)%nat -> exists e, exec (sinstr_of (ik k)) rr labels (pcz k) [] = Ok e.

  Set Default Proof Using "All".
  Notation "'IE' L" := (L app labels regs0 mem0 base sq ord Happ Hreg Hssa Hrng Hlen0 Hr32 Hx0 Hbase Hsq Hsem Htot) (at level 10, L at level 9, only parsing).

  Lemma Hlen0leq : (length regs0 <= 32)%nat. Proof. lia. Qed.

  Definition phi3q (s : st3) : Z := Mvp63RefStep.phiX app (t_x s).

  (* ---------------------------------------------------------------- *)
  (* Run returns                                                        *)

  Lemma finish3_okq dp d xe w pl pv x cy : BIq dp d xe w pl pv x ->
    finish3 ord x cy = MDone cy (mk_arch (sreg w) mem0).
  Proof.
    intros HB. unfold finish3. rewrite (bq_l3 _ _ _ _ _ _ _ _ _ _ _ _ _ HB). cbn [flush_lines]. rewrite Z.add_0_r.
    rewrite (tab_finish app labels regs0 base Hlen0 sq ord w x cy (bq_tab _ _ _ _ _ _ _ _ _ _ _ _ _ HB) (bq_regs _ _ _ _ _ _ _ _ _ _ _ _ _ HB)).
    rewrite (bq_mem _ _ _ _ _ _ _ _ _ _ _ _ _ HB). reflexivity.
  Qed.

  (* the run ends at the end of the text: everything has been written back *)
  Lemma fin_endq dp pl pv x cy : BIq dp n n n pl pv x -> Fin3q (finish3 ord x cy).
  Proof.
    intros HB. rewrite (finish3_okq _ _ _ _ _ _ _ cy HB).
    pose proof (bq_ord _ _ _ _ _ _ _ _ _ _ _ _ _ HB) as [Ho _].
    exists (Z.of_nat n - 2 * cy), cy, n. split; [reflexivity|]. split; [fold n; lia|].
    split; [exact (bq_exec _ _ _ _ _ _ _ _ _ _ _ _ _ HB)|]. left. split; [reflexivity | lia].
  Qed.

  (* ... or behind the ret *)
  Lemma fin_retq dp x cy : BIq dp N N N [] [] x -> (N < n)%nat -> is_ret (ik N) = true -> Fin3q (finish3 ord x cy).
  Proof.
    intros HB HNn Hret. rewrite (finish3_okq _ _ _ _ _ _ _ cy HB).
    pose proof (bq_ord _ _ _ _ _ _ _ _ _ _ _ _ _ HB) as [Ho _]. fold N in Ho.
    exists (Z.of_nat (S N) - 2 * cy), cy, N. split; [reflexivity|]. split; [fold n; lia|].
    split; [exact (bq_exec _ _ _ _ _ _ _ _ _ _ _ _ _ HB)|]. right. split; [exact HNn|]. split; [exact Hret | lia].
  Qed.

  (* ---------------------------------------------------------------- *)
  (* the drain loop after ret                                           *)

  Lemma wbus_nil_wq dp d xe w pl pv x : BIq dp d xe w pl pv x -> flat (m_wbus (x_m x)) = [] -> w = xe.
  Proof.
    intros HB Hfl. pose proof (bq_wbus _ _ _ _ _ _ _ _ _ _ _ _ _ HB) as Hw. rewrite Hfl in Hw. symmetry in Hw. apply map_eq_nil in Hw.
    apply (f_equal (@length nat)) in Hw. rewrite seq_length in Hw. cbn [length] in Hw.
    pose proof (bq_ord _ _ _ _ _ _ _ _ _ _ _ _ _ HB). lia.
  Qed.

  (* the drain loop is entered / continued: connect the write bus, then its condition *)
  Lemma ret_tail3q dp w cyc x6 eus wus : BIq dp N N w [] [] x6 -> Forall EuIdle eus ->
    Forall (fun u => u_co u = WNone) wus -> wus <> [] -> (N < n)%nat /\ is_ret (ik N) = true ->
    (bb_q (m_wbus (x_m x6)) = [] /\ blen (m_wbus (x_m x6)) <= 2) \/ bb_buf (m_wbus (x_m x6)) = [] -> BusOK cyc (m_wbus (x_m x6)) ->
    let x7 := wbus_connect3 x6 (cyc + 1) in
    let s2 := mk_st3 x7 eus wus (cyc + 1) NRet in
    (ret_check3 ord s2 = TCont s2 /\ GR3q w s2 /\ qlen (m_wbus (x_m x7)) = qlen (m_wbus (x_m x6)) + blen (m_wbus (x_m x6))) \/
    (exists r, ret_check3 ord s2 = TDone r false /\ Fin3q r).
  Proof.
    intros HB He Hw Hwne HN Hqb HW. cbv zeta.
    set (x7 := wbus_connect3 x6 (cyc + 1)).
    assert (Q2 : bb_buf (bb_connect (m_wbus (x_m x6)) (cyc + 1)) = []).
    { destruct Hqb as [[Hq Hb2]|Hb]; [apply (connect_allq cyc (m_wbus (x_m x6)) HW Hq Hb2) | apply (connect_nobuf cyc (m_wbus (x_m x6)) HW Hb)]. }
    destruct (connect_spec cyc (m_wbus (x_m x6)) HW) as (W1 & W2 & W3 & W4 & W5).
    assert (B7 : BIq dp N N w [] [] x7).
    { eapply (IE BIq_ext); [| | | | | | | | | | | | | | |exact HB]; try reflexivity. exact W1. }
    unfold ret_check3. cbn [t_eus t_wus t_x t_cycle]. rewrite (eus_empty3q _ He), (wus_empty3q _ Hw). cbn [andb].
    rewrite (bq_os _ _ _ _ _ _ _ _ _ _ _ _ _ B7).
    destruct (bb_isempty (m_wbus (x_m x7))) eqn:Edone.
    - right. eexists. split; [reflexivity|]. destruct HN as (HNn & Hret).
      assert (HwN : w = N) by (eapply wbus_nil_wq; [exact B7 | apply isempty_flat; exact Edone]). subst w.
      apply (fin_retq dp x7 (cyc + 1) B7 HNn Hret).
    - left. split; [reflexivity|]. split.
      + constructor; cbn [t_x t_eus t_wus t_cycle t_mode]; auto.
        * exists dp. exact B7.
        * intros Hx. unfold bb_isempty in Edone. unfold x7, wbus_connect3 in Edone, Hx. cbn [x_m set_m set_wbus m_wbus] in Edone, Hx.
          rewrite Hx, Q2 in Edone. discriminate.
        * unfold x7, wbus_connect3. cbn [x_m set_m set_wbus m_wbus]. eapply busok_mono; [|exact W2]. lia.
      + unfold x7, wbus_connect3. cbn [x_m set_m set_wbus m_wbus].
        assert (blen (bb_connect (m_wbus (x_m x6)) (cyc + 1)) = 0) by (unfold blen; rewrite Q2; reflexivity). lia.
  Qed.

  Lemma step_ret3q w s : GR3q w s ->
    (exists s' w', step3 app labels ord s = TCont s' /\ GR3q w' s' /\ qlen (m_wbus (x_m (t_x s'))) < qlen (m_wbus (x_m (t_x s)))) \/
    (exists r, step3 app labels ord s = TDone r false /\ Fin3q r).
  Proof.
    intros [(dp & GB) GN GE GW GWne Gwb Gwq Gbw Gmode].
    unfold step3. rewrite Gmode. rewrite (eus_drain_idleq labels ord (t_cycle s) (t_x s) _ GE). cbn [orb res_of3].
    rewrite or_os_false.
    destruct (IE wus_ok3q dp N N [] [] (t_wus s) (t_x s) w GW GB) as (x2 & Ew & B2 & F2 & Q2).
    rewrite Ew. cbn [res_of3].
    set (w' := (w + Nat.min (length (t_wus s)) (length (bb_q (m_wbus (x_m (t_x s))))))%nat) in *.
    assert (Hq6 : qlen (m_wbus (x_m x2)) < qlen (m_wbus (x_m (t_x s)))).
    { unfold qlen, zlen. rewrite Q2, skipn_length. destruct (bb_q (m_wbus (x_m (t_x s)))); [contradiction|].
      destruct (t_wus s); [contradiction|]. cbn [length]. lia. }
    assert (HW2 : BusOK (t_cycle s) (m_wbus (x_m x2))).
    { destruct F2. eapply BusOK_frame; [eassumption | eassumption | eassumption | | exact Gbw]. lia. }
    destruct (ret_tail3q dp w' (t_cycle s) x2 (t_eus s) (t_wus s) B2 GE GW GWne GN
                ltac:(right; rewrite (w3_wbuf _ _ F2); exact Gwb) HW2) as [(E & G2 & P2)|(r & E & HF)].
    - left. eexists _, w'. split; [exact E|]. split; [exact G2|]. cbn [t_x].
      assert (blen (m_wbus (x_m x2)) = 0) by (unfold blen; rewrite (w3_wbuf _ _ F2), Gwb; reflexivity). lia.
    - right. exists r. split; [exact E | exact HF].
  Qed.
  (* ---------------------------------------------------------------- *)
  (* one tick of the main loop                                          *)

  Notation acc_of b := (mk_euo3 false 0 0 b None).

  Lemma BIq_flat_len dp d xe w pl pv x : BIq dp d xe w pl pv x -> qlen (x_ebus x) + blen (x_ebus x) = Z.of_nat (d - xe).
  Proof.
    intros HB. rewrite <- flat_len. pose proof (bq_ebus _ _ _ _ _ _ _ _ _ _ _ _ _ HB) as H. apply (f_equal (@length _)) in H.
    rewrite !map_length, seq_length in H. unfold zlen. rewrite H. reflexivity.
  Qed.

  Lemma BIq_wflat_len dp d xe w pl pv x : BIq dp d xe w pl pv x -> qlen (m_wbus (x_m x)) + blen (m_wbus (x_m x)) = Z.of_nat (xe - w).
  Proof.
    intros HB. rewrite <- flat_len. pose proof (bq_wbus _ _ _ _ _ _ _ _ _ _ _ _ _ HB) as H. apply (f_equal (@length _)) in H.
    rewrite !map_length, seq_length in H. unfold zlen. rewrite H. reflexivity.
  Qed.

  Lemma front3_okq x c x3 fu1 l1i1 dbus1 :
    fu_cycle6 app c (m_fu (x_m (connected3 x c))) (m_l1i (x_m (connected3 x c))) (m_dbus (x_m (connected3 x c))) = Ok (fu1, l1i1, dbus1) ->
    du_cycle3 app c (set_m (connected3 x c) (set_dbus (set_l1i (set_fu (x_m (connected3 x c)) fu1) l1i1) dbus1)) = Ok x3 ->
    front3 app ord c x = Ok (cu_cycle3 ord c x3).
  Proof. intros H1 H2. rewrite front3_eq, H1, H2. reflexivity. Qed.

  Lemma step_normal3q dp d c f xe w s : G3q dp d c f xe w s ->
    (exists s' dp' d' c' f' xe' w', step3 app labels ord s = TCont s' /\ G3q dp' d' c' f' xe' w' s' /\ phi3q s' < phi3q s) \/
    (exists r, step3 app labels ord s = TDone r false /\ Fin3q r) \/
    (exists s' w', step3 app labels ord s = TCont s' /\ GR3q w' s') \/
    (exists s' w' E t sqx, step3 app labels ord s = TCont s' /\ GF3 w' E t sqx s').
  Proof.
    intros [GF GT Gcu GB Gbe Geb Ge Gst Gw Gwne Glen Gwq Gwb Gwb2 Gmode].
    set (x0 := t_x s) in *. set (cyc := t_cycle s) in *. set (eus := t_eus s) in *. set (wus := t_wus s) in *.
    set (D := (d + length (x_pend x0))%nat) in *.
    assert (GEne : eus <> []) by (intros E; apply Gwne; destruct wus; [reflexivity | rewrite E in Glen; discriminate]).
    (* 1. the four Connect calls *)
    destruct (conn3_okq app base sq D c f cyc x0 GF GT Gbe) as (C1 & CT & CE & C3 & C4 & C5 & C6 & C6' & C7 & D1 & D2 & Cc1 & Cc2 & E1 & E2 & K1 & K2 & K3).
    set (x1 := connected3 x0 (cyc + 1)) in *.
    pose proof (fr_bw _ _ _ _ _ _ _ GF) as HW0. cbn [untag_m set_cbus m_wbus] in HW0.
    destruct (connect_allq cyc (m_wbus (x_m x0)) HW0 Gwq Gwb2) as (Wq1 & Wb1 & Wql & Wbl).
    assert (HB1 : BIq dp d xe w (x_pend x0) (x_prev x0) x1).
    { eapply (IE BIq_ext); [| | | | | | | | | | | | | | |exact GB]; try reflexivity; assumption. }
    (* 2. fetch + decode *)
    destruct (fd_ok3q app labels regs0 base sq Happ Hlen0leq Hbase Hsq Hsem D c f cyc x1 C1 CT
                (bq_seq _ _ _ _ _ _ _ _ _ _ _ _ _ HB1) (bq_fwd _ _ _ _ _ _ _ _ _ _ _ _ _ HB1))
      as (fu1 & l1i1 & dbus1 & m3 & c' & f' & Efu & Efd & F3 & T3 & R1 & R2 & R3 & R4 & R5 & R6 & R7 & R8 & R9 & Pfd & Sfd).
    set (x3 := set_m x1 m3) in *.
    assert (HB3 : BIq dp d xe w (x_pend x3) (x_prev x3) x3).
    { eapply (IE BIq_ext); [| | | | | | | | | | | | | | |exact HB1]; try reflexivity; cbn [x3 x_m set_m]; congruence. }
    (* 3. control unit *)
    assert (Hcu3 : m_cu (x_m x3) = []) by (cbn [x3 x_m set_m]; rewrite R8, C7; exact Gcu).
    assert (HE3 : BusOK (cyc + 1) (x_ebus x3)) by (eapply busok_mono; [|exact CE]; lia).
    destruct (cu_cycle_okq app labels regs0 mem0 base sq ord Hssa Hrng Hlen0 Hbase Hsem (cyc + 1) dp d xe w c' f' x3 HB3 F3 T3 Hcu3 HE3)
      as (lp & HB4 & F4 & T4 & Hcu4 & HE4 & Q1 & Q2 & Q3 & Q4 & Q5 & Q6 & Hprog & Hlp0).
    set (x4 := cu_cycle3 ord (cyc + 1) x3) in *.
    assert (Efront : front3 app ord (cyc + 1) x0 = Ok x4) by exact (front3_okq x0 (cyc + 1) x3 fu1 l1i1 dbus1 Efu Efd).
    (* the execute bus and the write bus after the front end *)
    pose proof (BIq_flat_len _ _ _ _ _ _ _ GB) as L0. pose proof (BIq_flat_len _ _ _ _ _ _ _ HB3) as L3. pose proof (BIq_flat_len _ _ _ _ _ _ _ HB4) as L4.
    pose proof (BIq_wflat_len _ _ _ _ _ _ _ GB) as LW0.
    pose proof (bq_ord _ _ _ _ _ _ _ _ _ _ _ _ _ GB) as [Hord0 Hord0'].
    assert (Hex31 : x_ebus x3 = x_ebus x1) by reflexivity. rewrite Hex31 in L3, Q1.
    pose proof (blen_ge0 (x_ebus x1)) as Gbe1. pose proof (qlen_ge0 (x_ebus x0)) as Gqe0.
    assert (Hbe1 : blen (x_ebus x1) <= 2) by lia.
    assert (Hbe4 : blen (x_ebus x4) <= 2).
    { apply (mvp63_dispatch_width ord (cyc + 1) x3); [apply (bus_bl _ _ HE3)|]. unfold ebus_ok. rewrite (bus_bl _ _ HE3), Hex31. exact Hbe1. }
    assert (Hlp2 : (lp <= 2)%nat) by lia.
    assert (Hw41 : m_wbus (x_m x4) = bb_connect (m_wbus (x_m x0)) (cyc + 1)) by (rewrite Q2; cbn [x3 x_m set_m]; rewrite R7; reflexivity).
    pose proof (fr_bw _ _ _ _ _ _ _ F4) as HW4. cbn [untag_m set_cbus m_wbus] in HW4.
    assert (Hwb4 : blen (m_wbus (x_m x4)) = 0) by (unfold blen; rewrite Hw41, Wb1; reflexivity).
    assert (Hwq4 : bb_q (m_wbus (x_m x4)) = map snd (bb_buf (m_wbus (x_m x0)))) by (rewrite Hw41; exact Wq1).
    set (nw := length (bb_buf (m_wbus (x_m x0)))).
    assert (Hnw : blen (m_wbus (x_m x0)) = Z.of_nat nw) by reflexivity.
    set (lq := length (bb_q (x_ebus x4))).
    assert (Hlq : Z.of_nat lq = qlen (x_ebus x1)) by (rewrite <- Q1; reflexivity).
    assert (Hlq2 : (lq <= 2)%nat) by (pose proof (bus_q _ _ HE4) as Hx; unfold qlen, zlen in Hx; fold lq in Hx; lia).
    assert (Hlqd : (xe + lq <= d)%nat) by lia.
    assert (HdN4 : (d + lp + length (x_pend x4) <= S N)%nat /\ (d + lp + length (x_pend x4) <= n)%nat).
    { exact (front_dN app labels regs0 base Hlen0leq Hbase Hsem _ _ _ _ _ F4). }
    pose proof (fr_btb _ _ _ _ _ _ _ F4) as Hbtb4. cbn [untag_m set_cbus m_bu] in Hbtb4.
    assert (Hnwle : (nw <= length wus)%nat) by lia.
    (* 4. the execute units *)
    destruct (IE eus_main_q (cyc + 1) d (d + lp)%nat w (x_pend x4) (x_prev x4) eus x4 xe Ge Gst HB4 ltac:(fold lq; exact Hlqd)
                 (proj1 HdN4) Hbtb4 HW4 HE4 ltac:(fold lq; rewrite Hwb4; lia))
      as (x5 & eus' & o & Ee & A1 & A2 & Hout).
    fold lq in Hout.
    assert (Hstep : step3 app labels ord s =
              back3 ord s (cyc + 1) (x5, eus', o)).
    { unfold step3. rewrite Gmode. fold x0 cyc eus wus. rewrite Efront. cbn [res_of3]. change yo_none with (acc_of false). rewrite Ee.
      cbn [res_of3 orb]. rewrite or_os_false. reflexivity. }
    rewrite Hstep. clear Hstep.
    destruct Hout as [(Ho & [P1 HB5 EF5 Hq5 HW5 Hbuf5])|[(Ho & j & R1' & R2' & R3' & R4' & R5' & HB5 & EF5 & Hq5 & HW5 & Hbuf5 & Hjlt)|
                      (j & t & sqx & Ho & HF5 & FF5 & Hst5 & HW5 & Hbl5)]]; subst o.
    - (* j instructions were executed, nothing reported *)
      set (j := Nat.min (length eus) lq) in *.
      assert (Hjq : (j <= lq)%nat) by apply Nat.le_min_r. assert (Hje : (j <= length eus)%nat) by apply Nat.le_min_l.
      assert (Hj0 : j = O -> lq = O) by (intros Hz; unfold j in Hz; destruct eus; [contradiction | destruct lq; [reflexivity | cbn in Hz; lia]]).
      assert (Hb5 : blen (m_wbus (x_m x5)) = Z.of_nat j).
      { unfold blen. rewrite Hbuf5, zlen_app. fold (blen (m_wbus (x_m x4))). rewrite Hwb4. unfold zlen. rewrite map_length, seq_length. lia. }
      unfold back3. cbn [y_err y_flush y_ret].
      destruct (IE wus_ok3q d (d + lp)%nat (xe + j)%nat (x_pend x4) (x_prev x4) wus x5 w Gw HB5) as (x6 & Ew & HB6 & WF6 & Hq6).
      fold wus. rewrite Ew. cbn [res_of3].
      (* the write units take everything *)
      assert (Hq5w : bb_q (m_wbus (x_m x5)) = map snd (bb_buf (m_wbus (x_m x0)))) by (rewrite (e3_wq _ _ EF5); exact Hwq4).
      assert (Hlq5 : length (bb_q (m_wbus (x_m x5))) = nw) by (rewrite Hq5w, map_length; reflexivity).
      rewrite Hlq5 in HB6. replace (Nat.min (length wus) nw) with nw in HB6 by lia.
      assert (Hq6' : bb_q (m_wbus (x_m x6)) = []) by (rewrite Hq6; apply skipn_all2; lia).
      assert (Ypend : x_pend x6 = x_pend x4) by (rewrite (w3_pend _ _ WF6), (e3_pend _ _ EF5); reflexivity).
      assert (Yprev : x_prev x6 = x_prev x4) by (rewrite (w3_prev _ _ WF6), (e3_prev _ _ EF5); reflexivity).
      assert (HW6 : BusOK (cyc + 1) (m_wbus (x_m x6))).
      { eapply BusOK_frame; [exact (w3_wbuf _ _ WF6) | exact (w3_wql _ _ WF6) | exact (w3_wbl _ _ WF6) | | exact HW5].
        unfold qlen. rewrite Hq6'. apply zlen_ge0. }
      assert (HF6 : FrontI (d + lp + length (x_pend x6)) c' f' (cyc + 1) (untag_m (x_m x6))).
      { rewrite Ypend. apply (FrontI_frameq app base _ _ _ _ (x_m x4) (x_m x6) F4).
        - rewrite (w3_fu _ _ WF6), (e3_fu _ _ EF5); reflexivity.
        - rewrite (w3_l1i _ _ WF6), (e3_l1i _ _ EF5); reflexivity.
        - rewrite (w3_dret _ _ WF6), (e3_dret _ _ EF5); reflexivity.
        - rewrite (w3_dpbr _ _ WF6), (e3_dpbr _ _ EF5); reflexivity.
        - rewrite (w3_cu _ _ WF6), (e3_cu _ _ EF5); reflexivity.
        - rewrite (w3_dbus _ _ WF6), (e3_dbus _ _ EF5); reflexivity.
        - rewrite (w3_cbus _ _ WF6), (e3_cbus _ _ EF5); reflexivity.
        - rewrite (w3_mebus _ _ WF6), (e3_mebus _ _ EF5); reflexivity.
        - rewrite (w3_bu _ _ WF6), (e3_btb _ _ EF5); reflexivity.
        - exact HW6. }
      assert (Y3 : m_cbus (x_m x6) = m_cbus (x_m x4)) by (rewrite (w3_cbus _ _ WF6), (e3_cbus _ _ EF5); reflexivity).
      assert (HT6 : TagOK sq (m_cbus (x_m x6))) by (rewrite Y3; exact T4).
      assert (HB6' : BIq d (d + lp) (xe + j) (w + nw) (x_pend x6) (x_prev x6) x6) by (rewrite Ypend, Yprev; exact HB6).
      assert (Hcu6 : m_cu (x_m x6) = []) by (rewrite (w3_cu _ _ WF6), (e3_cu _ _ EF5); exact Hcu4).
      assert (Heb65 : x_ebus x6 = x_ebus x5) by exact (w3_ebus _ _ WF6).
      assert (HE6 : BusOK (cyc + 1) (x_ebus x6)).
      { rewrite Heb65. eapply BusOK_frame; [exact (e3_ebuf _ _ EF5) | exact (e3_eql _ _ EF5) | exact (e3_ebl _ _ EF5) | | exact HE4].
        unfold qlen, zlen. rewrite Hq5, skipn_length. lia. }
      (* lengths for the potential *)
      assert (Y1 : m_fu (x_m x6) = m_fu m3) by (rewrite (w3_fu _ _ WF6), (e3_fu _ _ EF5), Q4; reflexivity).
      assert (Y2 : m_dbus (x_m x6) = m_dbus m3) by (rewrite (w3_dbus _ _ WF6), (e3_dbus _ _ EF5), Q5; reflexivity).
      assert (Y3b : blen (m_cbus (x_m x4)) = blen (m_cbus m3)) by (unfold blen, x4; rewrite cu_cycle3_cbuf; reflexivity).
      assert (Y5 : blen (x_ebus x6) = blen (x_ebus x4)) by (rewrite Heb65; unfold blen; rewrite (e3_ebuf _ _ EF5); reflexivity).
      assert (Y6 : qlen (x_ebus x6) = Z.of_nat (lq - j)) by (rewrite Heb65; unfold qlen, zlen; rewrite Hq5, skipn_length; reflexivity).
      assert (Y7 : blen (m_wbus (x_m x6)) = Z.of_nat j) by (unfold blen; rewrite (w3_wbuf _ _ WF6); exact Hb5).
      assert (Y8 : qlen (m_wbus (x_m x6)) = 0) by (unfold qlen; rewrite Hq6'; reflexivity).
      destruct (front_cl_lenq app base _ _ _ _ _ F3 Hcu3) as [N3 N3'].
      destruct (front_cl_lenq app base _ _ _ _ _ F4 Hcu4) as [N4 N4'].
      assert (Y9 : qlen (m_cbus m3) = qlen (m_cbus (x_m x1))) by (unfold qlen; rewrite R9; reflexivity).
      assert (Y10 : phiF (m_fu (x_m x1)) = phiF (m_fu (x_m x0))) by (rewrite C5; reflexivity).
      assert (Yp4 : zlen (x_pend x4) = Z.of_nat (length (x_pend x4))) by reflexivity.
      assert (Yp0 : zlen (x_pend x0) = Z.of_nat (length (x_pend x0))) by reflexivity.
      assert (Gwq0 : qlen (m_wbus (x_m x0)) = 0) by (unfold qlen; rewrite Gwq; reflexivity).
      pose proof (blen_ge0 (m_dbus (x_m x1))) as P1'. pose proof (qlen_ge0 (m_dbus (x_m x1))) as P2. pose proof (blen_ge0 (m_cbus (x_m x1))) as P3.
      pose proof (qlen_ge0 (m_cbus (x_m x1))) as P4. pose proof (blen_ge0 (m_dbus m3)) as P5. pose proof (qlen_ge0 (m_dbus m3)) as P6.
      pose proof (blen_ge0 (m_cbus m3)) as P7. pose proof (qlen_ge0 (m_cbus (x_m x4))) as P8. pose proof (blen_ge0 (x_ebus x4)) as P9.
      pose proof (blen_ge0 (m_wbus (x_m x0))) as P10. pose proof (blen_ge0 (m_dbus (x_m x0))) as P11. pose proof (qlen_ge0 (m_dbus (x_m x0))) as P12.
      pose proof (blen_ge0 (m_cbus (x_m x0))) as P13. pose proof (qlen_ge0 (m_cbus (x_m x0))) as P14. pose proof (blen_ge0 (x_ebus x0)) as P15.
      cbn [x3 x_m set_m] in N3, N3'. change (x_pend x3) with (x_pend x0) in *.
      assert (Hle : phiX app x6 <= phiX app x0).
      { unfold phiX. rewrite Y1, Y2, Y3, Y3b, Y5, Y6, Y7, Y8, Ypend, Yp4, Yp0, Gwq0. fold D in N3, N3'. lia. }
      assert (Hlt : phiX app x6 < phiX app x0 \/ is_empty3 x6 eus' wus = true).
      { destruct (Z.eq_dec (blen (m_wbus (x_m x0))) 0) as [Wz|Wnz].
        2:{ left. unfold phiX. rewrite Y1, Y2, Y3, Y3b, Y5, Y6, Y7, Y8, Ypend, Yp4, Yp0, Gwq0. fold D in N3, N3'. lia. }
        destruct (Nat.eq_dec j 0) as [Hjz|Hjz].
        2:{ left. unfold phiX. rewrite Y1, Y2, Y3, Y3b, Y5, Y6, Y7, Y8, Ypend, Yp4, Yp0, Gwq0. fold D in N3, N3'. lia. }
        destruct (Nat.eq_dec lp 0) as [Hlpz|Hlpz].
        2:{ left. unfold phiX. rewrite Y1, Y2, Y3, Y3b, Y5, Y6, Y7, Y8, Ypend, Yp4, Yp0, Gwq0. fold D in N3, N3'. lia. }
        destruct Sfd as [Hs|[Hfu Hdu]].
        { left. unfold phiX. rewrite Y1, Y2, Y3, Y3b, Y5, Y6, Y7, Y8, Ypend, Yp4, Yp0, Gwq0. fold D in N3, N3'. lia. }
        right. specialize (Hj0 Hjz).
        assert (Eq0 : qlen (x_ebus x1) = 0) by lia.
        assert (Eb0 : blen (x_ebus x1) = 0) by lia.
        assert (Hxd : xe = d) by lia.
        assert (Hwd : w = d) by lia.
        assert (Hfl3 : flat (x_ebus x3) = []) by (rewrite Hex31; apply flat_nil; assumption).
        assert (Hpq : x_pend x0 = [] /\ bb_q (m_cbus (x_m x3)) = []).
        { destruct (x_pend x0) as [|p0 pt] eqn:Ep; [destruct (bb_q (m_cbus (x_m x3))) as [|c0 ct] eqn:Ec; [auto|]|]; exfalso.
          - specialize (Hprog Hfl3 Hwd ltac:(right; discriminate)). lia.
          - specialize (Hprog Hfl3 Hwd ltac:(left; discriminate)). lia. }
        destruct Hpq as [Hp0 Hcq0]. cbn [x3 x_m set_m] in Hcq0.
        assert (Cq0 : qlen (m_cbus (x_m x1)) = 0) by (rewrite <- Y9; unfold qlen; rewrite Hcq0; reflexivity).
        assert (Cb0 : blen (m_cbus (x_m x1)) = 0) by lia.
        destruct (front_cl_lenq app base _ _ _ _ _ C1 ltac:(rewrite C7; exact Gcu)) as [N1 N1'].
        assert (Hdc : d = Nat.min c n) by (unfold D in *; rewrite Hp0 in *; cbn [length] in *; fold n in N1, N1'; lia).
        pose proof (bq_xeN _ _ _ _ _ _ _ _ _ _ _ _ _ GB) as HxN. fold N in HxN.
        assert (Hdq : bb_q (m_dbus (x_m x1)) = []).
        { destruct Hdu as [Hdr|[Hdp|Hdq]]; [| |exact Hdq]; exfalso.
          - destruct (fr_dret_t _ _ _ _ _ _ _ C1 Hdr) as (HNn & Hc & Hret). fold n N in HNn, Hc. lia.
          - destruct (fr_dpbr_t _ _ _ _ _ _ _ C1 Hdp) as (HNn & Hc & Hjmp). fold n N in HNn, Hc. lia. }
        assert (Dq0 : qlen (m_dbus (x_m x1)) = 0) by (unfold qlen; rewrite Hdq; reflexivity).
        assert (Db0 : blen (m_dbus (x_m x1)) = 0) by lia.
        destruct Hfu as [(Hco & Hfu & Hcomp)|[_ Hnadd]].
        2:{ exfalso. unfold bb_canadd in Hnadd. fold (blen (m_dbus (x_m x1))) in Hnadd.
            pose proof (fr_bsd _ _ _ _ _ _ _ C1) as Hbsd. cbn [untag_m set_cbus m_dbus] in Hbsd. rewrite Db0, (bus_bl _ _ Hbsd) in Hnadd. discriminate. }
        assert (Hcomp6 : f_complete (m_fu (x_m x6)) = true).
        { rewrite Y1, Hcomp, C5. destruct (f_complete (m_fu (x_m x0))) eqn:Ec; [reflexivity|].
          pose proof (fr_fetch _ _ _ _ _ _ _ GF) as Hft. cbn [untag_m set_cbus m_fu m_l1i] in Hft.
          destruct (fi_nc _ _ _ _ Hft Ec) as [_ Hx]. rewrite C5 in Hco. contradiction. }
        assert (Z0 : blen (m_dbus (x_m x0)) = 0 /\ qlen (m_dbus (x_m x0)) = 0 /\ blen (m_cbus (x_m x0)) = 0 /\ qlen (m_cbus (x_m x0)) = 0 /\
                     blen (x_ebus x0) = 0 /\ qlen (x_ebus x0) = 0).
        { clear - D1 D2 Cc1 Cc2 E1 E2 Db0 Dq0 Cb0 Cq0 Eb0 Eq0 P11 P12 P13 P14 P15 Gqe0. lia. }
        assert (Yp00 : zlen (x_pend x0) = 0) by (rewrite Hp0; reflexivity).
        unfold phiX in Hle. rewrite Y1, Y2, Y3, Y5, Y6, Y7, Y8, Ypend, Gwq0, Hfu, Y10, Yp00 in Hle.
        pose proof (zlen_ge0 (x_pend x4)) as Hzp.
        assert (Hz : blen (m_dbus m3) = 0 /\ qlen (m_dbus m3) = 0 /\ blen (m_cbus (x_m x4)) = 0 /\ qlen (m_cbus (x_m x4)) = 0 /\
                     zlen (x_pend x4) = 0 /\ blen (x_ebus x4) = 0 /\ Z.of_nat (lq - j) = 0 /\ Z.of_nat j = 0).
        { clear - Hle Z0 Wz P5 P6 P7 Y3b P8 P9 Hzp. lia. }
        destruct Hz as (Z1 & Z2 & Z3 & Z4 & Z5 & Z6 & Z7 & Z8).
        unfold is_empty3. rewrite Hcomp6, Ypend, Z5. cbn [andb Z.eqb].
        rewrite (wus_empty3q _ Gw), (eus_empty3q _ A1).
        rewrite (isempty_intro (m_dbus (x_m x6))), (isempty_intro (m_cbus (x_m x6))), (isempty_intro (x_ebus x6)), (isempty_intro (m_wbus (x_m x6)));
          [reflexivity | | | | | | | |]; rewrite ?Y2, ?Y3, ?Y5, ?Y6, ?Y7, ?Y8; assumption || reflexivity. }
      destruct (is_empty3 x6 eus' wus) eqn:Eemp.
      + (* Run returns *)
        right. left. rewrite (bq_os _ _ _ _ _ _ _ _ _ _ _ _ _ HB6'). eexists. split; [reflexivity|].
        unfold is_empty3 in Eemp. repeat (apply andb_prop in Eemp as [Eemp ?]).
        assert (Hfd : flat (m_dbus (x_m x6)) = []) by (apply isempty_flat; assumption).
        assert (Hfc : flat (m_cbus (x_m x6)) = []) by (apply isempty_flat; assumption).
        assert (Hfe : flat (x_ebus x6) = []) by (apply isempty_flat; assumption).
        assert (Hfw : flat (m_wbus (x_m x6)) = []) by (apply isempty_flat; assumption).
        assert (Hpe : x_pend x6 = []) by (apply zlen_zero; apply Z.eqb_eq; assumption).
        pose proof (fr_dbus _ _ _ _ _ _ _ HF6) as Hdb. cbn [untag_m set_cbus m_dbus] in Hdb. rewrite Hfd in Hdb. symmetry in Hdb. apply map_eq_nil in Hdb.
        apply (f_equal (@length nat)) in Hdb. rewrite seq_length in Hdb. cbn [length] in Hdb.
        destruct (front_cl_lenq app base _ _ _ _ _ HF6 Hcu6) as [Hcl Hdc6].
        rewrite <- flat_len, Hfc in Hcl. change (zlen (@nil runner)) with 0 in Hcl.
        pose proof (fr_fetch _ _ _ _ _ _ _ HF6) as Hft6. cbn [untag_m set_cbus m_fu m_l1i] in Hft6.
        destruct (fi_c _ _ _ _ Hft6 Eemp) as (_ & HfM & _).
        pose proof (fr_cf _ _ _ _ _ _ _ HF6) as Hcf6.
        rewrite Hpe in Hcl, Hdc6, HB6'. cbn [length] in Hcl, Hdc6. fold n in Hcl, Hdc6.
        assert (Hd'n : (d + lp)%nat = n) by (clear - Hcl Hdc6 Hdb Hcf6 HfM; fold n in HfM; lia).
        pose proof (BIq_flat_len _ _ _ _ _ _ _ HB6') as L6.
        assert (Hxe : (xe + j)%nat = (d + lp)%nat).
        { pose proof (qlen_ge0 (x_ebus x6)) as Hg1. pose proof (blen_ge0 (x_ebus x6)) as Hg2.
          assert (Hz : zlen (flat (x_ebus x6)) = 0) by (rewrite Hfe; reflexivity). rewrite flat_len in Hz.
          pose proof (bq_ord _ _ _ _ _ _ _ _ _ _ _ _ _ HB6') as [_ Ho6]. clear - Hz L6 Ho6 Hg1 Hg2. lia. }
        assert (Hw6 : (w + nw)%nat = (xe + j)%nat) by (eapply wbus_nil_wq; [exact HB6' | exact Hfw]).
        rewrite Hw6, Hxe, Hd'n in HB6'.
        apply (fin_endq d [] (x_prev x6) x6 (cyc + 1) HB6').
      + (* the loop goes on *)
        left. eexists _, d, (d + lp)%nat, c', f', (xe + j)%nat, (w + nw)%nat. split; [reflexivity|]. split.
        * constructor; cbn [t_x t_eus t_wus t_cycle t_mode].
          -- exact HF6.
          -- exact HT6.
          -- exact Hcu6.
          -- exact HB6'.
          -- exact HE6.
          -- rewrite Y5. exact Hbe4.
          -- exact A1.
          -- exact P1.
          -- exact Gw.
          -- exact Gwne.
          -- congruence.
          -- exact Hq6'.
          -- rewrite Y7. clear - Hje Glen. lia.
          -- rewrite Y7. clear - Hjq Hlq2. lia.
          -- reflexivity.
        * unfold phi3q. cbn [t_x]. fold x0. destruct Hlt as [Hlt|Hx]; [exact Hlt | congruence].
    - (* the ret has been executed: the drain loop is entered *)
      unfold back3. cbn [y_err y_flush y_ret].
      rewrite R5' in *.
      destruct (IE wus_ok3q d N N [] [] wus x5 w Gw HB5) as (x6 & Ew & HB6 & WF6 & Hq6).
      fold wus. rewrite Ew. cbn [res_of3].
      assert (Hq5w : bb_q (m_wbus (x_m x5)) = map snd (bb_buf (m_wbus (x_m x0)))) by (rewrite (e3_wq _ _ EF5); exact Hwq4).
      assert (Hq6' : bb_q (m_wbus (x_m x6)) = []) by (rewrite Hq6; apply skipn_all2; rewrite Hq5w, map_length; fold nw; exact Hnwle).
      assert (Hb6 : blen (m_wbus (x_m x6)) <= 2).
      { unfold blen. rewrite (w3_wbuf _ _ WF6), Hbuf5, zlen_app. fold (blen (m_wbus (x_m x4))). rewrite Hwb4. unfold zlen. rewrite map_length, seq_length.
        clear - Hjlt Hlq2. lia. }
      assert (HW6 : BusOK (cyc + 1) (m_wbus (x_m x6))).
      { eapply BusOK_frame; [exact (w3_wbuf _ _ WF6) | exact (w3_wql _ _ WF6) | exact (w3_wbl _ _ WF6) | | exact HW5].
        unfold qlen. rewrite Hq6'. apply zlen_ge0. }
      destruct (ret_tail3q d _ (cyc + 1) x6 eus' wus HB6 A1 Gw Gwne (conj R3' R4') ltac:(left; split; [exact Hq6' | exact Hb6]) HW6)
        as [(E & G2 & _)|(r0 & E & HFin)].
      + right. right. left. eexists _, _. split; [exact E | exact G2].
      + right. left. exists r0. split; [exact E | exact HFin].
    - (* instruction E = xe + j has asked for a flush *)
      set (E := (xe + j)%nat) in *.
      unfold back3. cbn [y_err y_flush y_ret y_seq y_pc].
      destruct (IE wus_okf E t sqx wus x5 w Gw HF5) as (x6 & Ew & HF6 & WF6 & Hq6).
      fold wus. rewrite Ew. cbn [res_of3].
      assert (Hq5w : bb_q (m_wbus (x_m x5)) = map snd (bb_buf (m_wbus (x_m x0)))) by (rewrite (ff_wq _ _ FF5); exact Hwq4).
      assert (Hq6' : bb_q (m_wbus (x_m x6)) = []) by (rewrite Hq6; apply skipn_all2; rewrite Hq5w, map_length; fold nw; exact Hnwle).
      assert (Hb6 : blen (m_wbus (x_m x6)) <= 2).
      { unfold blen. rewrite (w3_wbuf _ _ WF6). fold (blen (m_wbus (x_m x5))). rewrite Hwb4 in Hbl5.
        pose proof (Nat.le_min_r (length eus) lq). clear - Hbl5 Hlq2 H. lia. }
      assert (HW6 : BusOK (cyc + 1) (m_wbus (x_m x6))).
      { eapply BusOK_frame; [exact (w3_wbuf _ _ WF6) | exact (w3_wql _ _ WF6) | exact (w3_wbl _ _ WF6) | | exact HW5].
        unfold qlen. rewrite Hq6'. apply zlen_ge0. }
      set (w' := (w + Nat.min (length wus) (length (bb_q (m_wbus (x_m x5)))))%nat) in *.
      right. right. right. eexists _, w', E, t, sqx. split; [reflexivity|].
      destruct HF6 as [G1 G2 G3 (j0 & junk & Gj & Gq & Gb & Gjk) G5 G6 G7 G8 G9 G10 G11 G12 G13].
      pose proof (fr_fetch _ _ _ _ _ _ _ F4) as Hft4. cbn [untag_m set_cbus m_fu m_l1i] in Hft4.
      pose proof (fr_bsd _ _ _ _ _ _ _ F4) as Hbsd4. cbn [untag_m set_cbus m_dbus] in Hbsd4.
      pose proof (fr_bc _ _ _ _ _ _ _ F4) as Hbc4. cbn [untag_m set_cbus m_cbus] in Hbc4.
      pose proof (fr_be _ _ _ _ _ _ _ F4) as Hbe4'. cbn [untag_m set_cbus m_ebus] in Hbe4'.
      constructor; cbn [t_x t_eus t_wus t_cycle t_mode]; try assumption.
      + exists junk. split; [|exact Gjk]. unfold flat. rewrite Gq, Gb, app_assoc. f_equal.
        rewrite seq_join. f_equal. f_equal. clear - Gj. lia.
      + rewrite (w3_l1i _ _ WF6), (ff_l1i _ _ FF5). exact (fi_l1 _ _ _ _ Hft4).
      + rewrite (w3_ebus _ _ WF6), (ff_eql _ _ FF5), (ff_ebl _ _ FF5). split; [apply (bus_ql _ _ HE4) | apply (bus_bl _ _ HE4)].
      + rewrite (w3_dbus _ _ WF6), (w3_cbus _ _ WF6), (w3_mebus _ _ WF6), (ff_dbus _ _ FF5), (ff_cbus _ _ FF5), (ff_mebus _ _ FF5).
        split; [apply (bus_ql _ _ Hbsd4)|]. split; [apply (bus_bl _ _ Hbsd4)|].
        split; [apply (bus_ql _ _ Hbc4)|]. split; [apply (bus_bl _ _ Hbc4)|].
        split; [apply (bus_ql _ _ Hbe4') | apply (bus_bl _ _ Hbe4')].
      + apply idle_setseq. exact A1.
      + apply stale_setseq. exact Hst5.
      + rewrite map_length. congruence.
      + left. exists (cyc + 1). split; [reflexivity|]. split; [exact Hq6' | exact Hb6].
  Qed.
End FwdStep.

(* ------------------------------------------------------------------ *)
(* the two lemmas for every segment of a program with forward control flow (Mvp60RefProofs.fwd_ok): the shape of
   Mvp63RefFwdProofs.StepN3 / StepR3 (SegHyp unfolded) *)

Theorem stepN3_fwd app labels : wf_app app -> reg_only app = true -> ssa app = true -> regs_ok app = true ->
  Mvp60RefProofs.fwd_ok app labels = true ->
  forall regs0 mem0 base sq ord,
    (length regs0 = 32%nat /\ Forall int32 regs0 /\ nth 0 regs0 0 = 0 /\ (base <= length app)%nat /\
     (0 <= sq /\ 1000 * sq + 4 * Z.of_nat (length app) + 4 < 2147483648)) ->
  forall dp d c f xe w s, G3q app labels regs0 mem0 base sq dp d c f xe w s ->
    (exists s' dp' d' c' f' xe' w', step3 app labels ord s = TCont s' /\ G3q app labels regs0 mem0 base sq dp' d' c' f' xe' w' s' /\
                                    phiX app (t_x s') < phiX app (t_x s)) \/
    (exists r, step3 app labels ord s = TDone r false /\ Fin3q app labels regs0 mem0 base r) \/
    (exists s' w', step3 app labels ord s = TCont s' /\ GR3q app labels regs0 mem0 base sq w' s') \/
    (exists s' w' E t sqx, step3 app labels ord s = TCont s' /\ GF3 app labels regs0 mem0 base sq w' E t sqx s').
Proof.
  intros Happ Hreg Hssa Hrng Hfwd regs0 mem0 base sq ord (Hlen0 & Hr32 & Hx0 & Hbase & Hsq) dp d c f xe w s HG.
  apply (step_normal3q app labels regs0 mem0 base sq ord Happ Hreg Hssa Hrng Hlen0 Hr32 Hx0 Hbase Hsq
           (Mvp60RefProofs.hsem_all app labels Hfwd regs0 base)
           (fun k rr Hk => match Mvp60RefProofs.fwd_total app labels k rr Hfwd Hk with ex_intro _ e (conj He _) => ex_intro _ e He end)
           dp d c f xe w s HG).
Qed.

Theorem stepR3_fwd app labels : wf_app app -> reg_only app = true -> ssa app = true -> regs_ok app = true ->
  Mvp60RefProofs.fwd_ok app labels = true ->
  forall regs0 mem0 base sq ord,
    (length regs0 = 32%nat /\ Forall int32 regs0 /\ nth 0 regs0 0 = 0 /\ (base <= length app)%nat /\
     (0 <= sq /\ 1000 * sq + 4 * Z.of_nat (length app) + 4 < 2147483648)) ->
  forall w s, GR3q app labels regs0 mem0 base sq w s ->
    (exists s' w', step3 app labels ord s = TCont s' /\ GR3q app labels regs0 mem0 base sq w' s' /\
                   qlen (m_wbus (x_m (t_x s'))) < qlen (m_wbus (x_m (t_x s)))) \/
    (exists r, step3 app labels ord s = TDone r false /\ Fin3q app labels regs0 mem0 base r).
Proof.
  intros Happ Hreg Hssa Hrng Hfwd regs0 mem0 base sq ord (Hlen0 & Hr32 & Hx0 & Hbase & Hsq) w s HG.
  apply (step_ret3q app labels regs0 mem0 base sq ord Happ Hreg Hssa Hrng Hlen0 Hr32 Hx0 Hbase Hsq
           (Mvp60RefProofs.hsem_all app labels Hfwd regs0 base)
           (fun k rr Hk => match Mvp60RefProofs.fwd_total app labels k rr Hfwd Hk with ex_intro _ e (conj He _) => ex_intro _ e He end)
           w s HG).
Qed.

Print Assumptions step_ret3q.
Print Assumptions step_normal3q.
Print Assumptions stepN3_fwd.
Print Assumptions stepR3_fwd.
