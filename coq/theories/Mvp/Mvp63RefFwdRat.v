(* Refinement of MVP-6.3 to the sequential machine on single-assignment register-only programs with FORWARD
   control flow - the register alias tables (generalises Mvp63RefRat.v to a segment base and a sequence id).

   The invariant TabOK w crat trat of Mvp63RefFwdDefs.v (the two tables show the sequential register file
   sreg w of the segment; every tag of transactionRAT is below sid w) is

     tab_init        established by ctx.InitRAT();
     tab_write /     preserved by the write-back of instruction w of the segment (the write unit writes
     tab_nowrite     (sid w, value) into transactionRAT iff exe.RegisterChange);
     tab_commit      preserved by ctx.RATCommit(), whatever the order of the map iteration;
     tab_rollback    preserved by ctx.RATRollback(T) for every T at or above sid w: every slot of
                     transactionRAT that Read returns is then older than T, so FindValues returns what Values does;
     tab_finish      RATCommit ; RATFlush writes sreg w into ctx.Registers;
     tab_rebase      re-read as the invariant of the next segment (registers sreg w, base t, sequence id sq').

   All statements are as requested; none had to be changed.  (In tab_rebase the hypothesis base <= w is not
   used; it is kept for uniformity.  exeb_val_int32 needs no hypothesis on regs0.)  After the sections close
   every lemma takes app labels regs0 base, then those of Hrng Hlen0 Hx0 (Hr32) it uses, then sq (Section Tab)
   and ord (Section Ord) where they occur: check with About. *)
From Coq Require Import ZArith List Bool Lia Permutation.
From Maj Require Import Base.Outcome Base.GoInt Base.GoTypes Isa.Spec Isa.Embed Isa.Seq Isa.Refine.
From Maj Require Import Gen.Latency Gen.RiscTables Gen.Opcodes Comp.Cache Comp.Rat Comp.RatProofs.
From Maj Require Import Mvp.Mvp12 Mvp.Mvp12Proofs Mvp.Mvp3 Mvp.Mvp3Proofs Mvp.Mvp4Skel Mvp.Mvp4Inv Mvp.Mvp5 Mvp.Mvp60
     Mvp.Mvp60RefSem Mvp.Mvp60RefDefs Mvp.Mvp60RefFront Mvp.Mvp60RefBack Mvp.Mvp60RefStep Mvp.Mvp63 Mvp.Mvp63RefDefs Mvp.Mvp63RefInv
     Mvp.Mvp63RefRat Mvp.Mvp63RefFwdDefs.
Import ListNotations.
Open Scope Z_scope.

(* ------------------------------------------------------------------ *)
(* registerRead and the two tables                                      *)

Lemma reg_read3_tview fw crat trat r : reg_read3 fw crat trat r = if r =? fst fw then snd fw else tview crat trat r.
Proof. reflexivity. Qed.

(* Mvp63RefInv.rat_read_write without its section hypotheses, for any value type *)
Lemma rat_read_write_gen {V} (zero : V) (t : @rat V) k v q : rat_ok t ->
  rat_read zero (rat_write zero t k v) q = if q =? k then Some v else rat_read zero t q.
Proof.
  intros Hok. rewrite !rat_read_view by (try apply rat_write_ok; exact Hok). rewrite rat_view_write by exact Hok.
  destruct (q =? k); [|reflexivity]. destruct Hok as [Hn _]. destruct (nlen t); [lia | reflexivity].
Qed.

Lemma tview_new crat r : tview crat (rat_new ratLength) r = match rat_read 0 crat r with Some v => v | None => 0 end.
Proof. reflexivity. Qed.

Lemma sid3_S sq k : sid3 sq (S k) = sid3 sq k + 4.
Proof. unfold sid3, pcz. lia. Qed.

Lemma in_rng_true r : 0 <= r < 32 -> (0 <=? r) && (r <? 32) = true.
Proof. intros H. destruct (Z.leb_spec 0 r), (Z.ltb_spec r 32); try reflexivity; lia. Qed.

Lemma in_rng_false r : ~ 0 <= r < 32 -> (0 <=? r) && (r <? 32) = false.
Proof. intros H. destruct (Z.leb_spec 0 r), (Z.ltb_spec r 32); try reflexivity; lia. Qed.

Section FwdRat.
  Variables (app : list instr) (labels : Z -> option Z) (regs0 : list Z) (base : nat).
  Hypothesis Hrng : regs_ok app = true.
  Hypothesis Hlen0 : length regs0 = 32%nat.
  Hypothesis Hx0 : nth 0 regs0 0 = 0.

  Notation sreg := (sreg app labels regs0 base).
  Notation eff := (eff app labels regs0 base).
  Notation ik := (ik app).
  Notation exeb := (exeb app labels regs0 base).
  Notation vw := (vw app labels regs0 base).

  Lemma Hl32 : (length regs0 <= 32)%nat.
  Proof. rewrite Hlen0. apply le_n. Qed.

  (* ---------------------------------------------------------------- *)
  (* the sequential register file of the segment                       *)

  Lemma sreg_len32 k : length (sreg k) = 32%nat.
  Proof. rewrite sreg_length. exact Hlen0. Qed.

  (* slot 0 is never written *)
  Lemma sreg_x0 k : nth 0 (sreg k) 0 = 0.
  Proof.
    transitivity (nth 0 (sreg 0) 0); [|exact Hx0]. apply sreg_stable; [exact Hl32 | lia|].
    intros j _ Hin. unfold Mvp60RefSem.wsl in Hin. apply slots_in in Hin as (r & Hr & Hnz & Hz).
    pose proof (wrs_rng app Hrng j r Hr). lia.
  Qed.

  (* ---------------------------------------------------------------- *)
  (* the execution record of instruction k and the register file       *)

  Lemma effb_wrs k rd : (match eff k with EReg r _ | ELink r _ _ => r = rd | _ => False end) -> wrs app k = [rd].
  Proof.
    unfold Mvp60RefSem.eff, eff_at. destruct (exec (sinstr_of (ik k)) (rget (sreg k)) labels (pcz k) []) as [e| |] eqn:E; try contradiction.
    intros H. apply spec_writes_sound in E. unfold wrs. rewrite write_registers_exact.
    destruct e; try contradiction; subst; exact E.
  Qed.

  Lemma exeb_change k : RegisterChange (exeb k) = true ->
    0 <= Register (exeb k) < 32 /\ (Register (exeb k) = 0 -> RegisterValue (exeb k) = 0) /\
    forall rg, apply_eff (eff k) rg = rset rg (Register (exeb k)) (RegisterValue (exeb k)).
  Proof.
    pose proof (effb_wrs k) as Hw. unfold Mvp63RefFwdDefs.exeb.
    destruct (eff k) as [rd v|bs| |a|rd v a|]; cbn [embed]; try discriminate;
      unfold reg_pair; destruct (Z.eqb_spec rd 0) as [->|Hnz]; cbn; intros _.
    - split; [lia|]. split; [reflexivity|]. intros rg. reflexivity.
    - split; [|split; [intros; contradiction | reflexivity]].
      apply (wrs_rng app Hrng k). rewrite (Hw rd eq_refl). left. reflexivity.
    - split; [lia|]. split; [reflexivity|]. intros rg. reflexivity.
    - split; [|split; [intros; contradiction | reflexivity]].
      apply (wrs_rng app Hrng k). rewrite (Hw rd eq_refl). left. reflexivity.
  Qed.

  Lemma exeb_nochange k : RegisterChange (exeb k) = false -> forall rg, apply_eff (eff k) rg = rg.
  Proof.
    unfold Mvp63RefFwdDefs.exeb. destruct (eff k) as [rd v|bs| |a|rd v a|]; cbn [embed]; try reflexivity;
      unfold reg_pair; destruct (rd =? 0); cbn; discriminate.
  Qed.

  Lemma vw_in w r : 0 <= r < 32 -> vw w r = nth (Z.to_nat r) (sreg w) 0.
  Proof. intros H. unfold Mvp63RefFwdDefs.vw. rewrite in_rng_true by exact H. reflexivity. Qed.

  Lemma vw_out w r : ~ 0 <= r < 32 -> vw w r = 0.
  Proof. intros H. unfold Mvp63RefFwdDefs.vw. rewrite in_rng_false by exact H. reflexivity. Qed.

  Lemma vw_zero w : vw w 0 = 0.
  Proof. rewrite vw_in by lia. apply sreg_x0. Qed.

  Lemma vw_S_write w : (base <= w)%nat -> RegisterChange (exeb w) = true ->
    0 <= Register (exeb w) < 32 /\
    forall r, vw (S w) r = if r =? Register (exeb w) then RegisterValue (exeb w) else vw w r.
  Proof.
    intros Hb Hc. destruct (exeb_change w Hc) as (Hr & Hz & Ha). split; [exact Hr|]. intros r.
    set (R := Register (exeb w)) in *. set (V := RegisterValue (exeb w)) in *.
    destruct (Z.eqb_spec r R) as [->|Hne].
    - rewrite vw_in by exact Hr. rewrite (sreg_S app labels regs0 base Hl32 w Hb), Ha, nth_rset, sreg_len32.
      destruct (Z.eqb_spec R 0) as [E0|Hnz]; cbn [negb andb].
      + rewrite (Hz E0), E0. apply sreg_x0.
      + rewrite Nat.eqb_refl. cbn [andb]. destruct (Nat.ltb_spec (Z.to_nat R) 32); [reflexivity | lia].
    - destruct (Z_le_dec 0 r) as [H0|H0]; [destruct (Z_lt_dec r 32) as [H1|H1]|].
      + rewrite !vw_in by lia. rewrite (sreg_S app labels regs0 base Hl32 w Hb), Ha, nth_rset.
        destruct (Nat.eqb_spec (Z.to_nat R) (Z.to_nat r)) as [En|_]; [lia|]. rewrite andb_false_r. reflexivity.
      + rewrite !vw_out by lia. reflexivity.
      + rewrite !vw_out by lia. reflexivity.
  Qed.

  Lemma vw_S_nowrite w : (base <= w)%nat -> RegisterChange (exeb w) = false -> forall r, vw (S w) r = vw w r.
  Proof.
    intros Hb Hc r. unfold Mvp63RefFwdDefs.vw. rewrite (sreg_S app labels regs0 base Hl32 w Hb), (exeb_nochange w Hc). reflexivity.
  Qed.

  (* a register nobody in [w, k) writes *)
  Lemma vw_stable w k q : (base <= w <= k)%nat -> 0 < q < 32 -> (forall j, (w <= j < k)%nat -> ~ In q (wrs app j)) ->
    vw w q = rget (sreg k) q.
  Proof.
    intros Hwk Hq Hno. rewrite vw_in by lia. rewrite rget_nth. destruct (Z.eqb_spec q 0); [lia|].
    symmetry. apply sreg_stable; [exact Hl32 | lia|]. intros j Hj Hin.
    apply (wsl_in app Hrng j q ltac:(lia)) in Hin. exact (Hno j Hj Hin).
  Qed.

  (* the value a later reader of register r gets from the writer p of r *)
  Lemma fwd_valueq p k r : ssa app = true -> (base <= p < k)%nat -> (k <= length app)%nat -> In r (wrs app p) -> 0 < r ->
    (exists e, exec (sinstr_of (ik p)) (rget (sreg p)) labels (pcz p) [] = Ok e) ->
    rget (sreg k) r = RegisterValue (exeb p).
  Proof.
    intros Hssa Hpk Hkn Hw Hr (e & He).
    pose proof (wrs_rng app Hrng p r Hw) as Hrr.
    assert (Hst : nth (Z.to_nat r) (sreg k) 0 = nth (Z.to_nat r) (sreg (S p)) 0).
    { apply sreg_stable; [exact Hl32 | lia|]. intros j Hj Hin. apply (wsl_in app Hrng j r Hr) in Hin.
      exact (ssa_waw app Hssa p j r ltac:(lia) Hw ltac:(lia) Hin). }
    rewrite rget_nth. destruct (Z.eqb_spec r 0); [lia|]. rewrite Hst, (sreg_S app labels regs0 base Hl32 p) by lia.
    pose proof (spec_writes_sound _ _ _ _ _ _ He) as Hws. unfold wrs in Hw. rewrite write_registers_exact in Hw.
    unfold Mvp63RefFwdDefs.exeb, Mvp60RefSem.eff, eff_at. rewrite He.
    assert (Hfin : forall v, nth (Z.to_nat r) (rset (sreg p) r v) 0 = v).
    { intros v. rewrite nth_rset. destruct (Z.eqb_spec r 0); [lia|]. rewrite Nat.eqb_refl. cbn [negb andb].
      rewrite sreg_len32. destruct (Nat.ltb_spec (Z.to_nat r) 32); [reflexivity | lia]. }
    destruct e as [rd v|bs| |a|rd v a|]; rewrite Hws in Hw; cbn [In] in Hw; try contradiction.
    - destruct Hw as [<-|[]]. cbn [apply_eff embed]. unfold reg_pair. destruct (Z.eqb_spec rd 0); [lia|]. cbn [RegisterValue]. apply Hfin.
    - destruct Hw as [<-|[]]. cbn [apply_eff embed]. unfold reg_pair. destruct (Z.eqb_spec rd 0); [lia|]. cbn [RegisterValue]. apply Hfin.
  Qed.

  (* ---------------------------------------------------------------- *)
  (* ranges                                                            *)

  Section R32.
    Hypothesis Hr32 : Forall int32 regs0.

    Lemma sreg_r32 k : Forall int32 (sreg k).
    Proof. apply sreg_int32. exact Hr32. Qed.

    Lemma vw_int32 w r : int32 (vw w r).
    Proof.
      unfold Mvp63RefFwdDefs.vw. destruct ((0 <=? r) && (r <? 32)); [|apply int32_0].
      apply nth_Forall; [apply sreg_r32 | apply int32_0].
    Qed.

    Lemma exeb_val_int32 k : int32 (RegisterValue (exeb k)).
    Proof.
      unfold Mvp63RefFwdDefs.exeb, Mvp60RefSem.eff, eff_at.
      destruct (exec (sinstr_of (ik k)) (rget (sreg k)) labels (pcz k) []) as [e| |] eqn:E; try apply int32_0.
      destruct e as [rd v|bs| |a|rd v a|]; cbn [embed]; try apply int32_0; unfold reg_pair; destruct (rd =? 0); cbn; try apply int32_0.
      - eapply exec_reg_range; exact E.
      - eapply exec_link_range; exact E.
    Qed.
  End R32.
  (* ---------------------------------------------------------------- *)
  (* the invariant of the two tables; sq: ctx.sequenceID of the segment *)
  Section Tab.
  Variable sq : Z.
  Notation sid := (sid sq).
  Notation TabOK := (TabOK app labels regs0 base sq).

  Lemma sid_S k : sid (S k) = sid k + 4.
  Proof. apply sid3_S. Qed.

  (* ---------------------------------------------------------------- *)
  (* write-back                                                        *)

  Lemma tab_write w crat trat : TabOK w crat trat -> (base <= w)%nat -> RegisterChange (exeb w) = true ->
    TabOK (S w) crat (rat_write tu0 trat (Register (exeb w)) (sid w, RegisterValue (exeb w))).
  Proof.
    intros [Hco Hto Hck Htk Hvw Htt] Hb Hc. destruct (vw_S_write w Hb Hc) as [Hr Hv].
    set (R := Register (exeb w)) in *. set (V := RegisterValue (exeb w)) in *.
    pose proof (fun q => rat_read_write_gen tu0 trat R (sid w, V) q Hto) as Hrw.
    constructor.
    - exact Hco.
    - apply rat_write_ok. exact Hto.
    - exact Hck.
    - intros r. rewrite Hrw. destruct (Z.eqb_spec r R) as [->|_]; [intros _; exact Hr | apply Htk].
    - intros r. rewrite Hv. unfold tview. rewrite Hrw. destruct (r =? R); [reflexivity|]. apply Hvw.
    - intros r v. rewrite Hrw, sid_S. destruct (r =? R).
      + intros [= <-]. cbn [fst]. lia.
      + intros H. apply Htt in H. lia.
  Qed.

  Lemma tab_nowrite w crat trat : TabOK w crat trat -> (base <= w)%nat -> RegisterChange (exeb w) = false ->
    TabOK (S w) crat trat.
  Proof.
    intros [Hco Hto Hck Htk Hvw Htt] Hb Hc. constructor; try assumption.
    - intros r. rewrite (vw_S_nowrite w Hb Hc). apply Hvw.
    - intros r v H. apply Htt in H. rewrite sid_S. lia.
  Qed.

  (* ---------------------------------------------------------------- *)
  (* the next segment                                                  *)

  Lemma tab_rebase w crat trat t sq' : TabOK w crat trat -> (base <= w)%nat -> sid w <= sid3 sq' t ->
    Mvp63RefFwdDefs.TabOK app labels (sreg w) t sq' t crat trat.
  Proof.
    intros [Hco Hto Hck Htk Hvw Htt] _ Hs. constructor; try assumption.
    - intros r. rewrite Hvw. unfold Mvp63RefFwdDefs.vw.
      rewrite (sreg_base app labels (sreg w) t ltac:(rewrite sreg_len32; apply le_n) t (le_n t)). reflexivity.
    - intros r v H. apply Htt in H. unfold Mvp63RefFwdDefs.sid. lia.
  Qed.

  (* every slot Read returns is older than T: FindValues finds it first *)
  Lemma findvalues_read w crat trat T : TabOK w crat trat -> sid w <= T ->
    forall r, aget r (rat_findvalues tu0 trat (fun u => fst u <? T)) = rat_read tu0 trat r.
  Proof.
    intros H HT r. pose proof (tb_tok _ _ _ _ _ _ _ _ H) as Hto. pose proof (tb_ttag _ _ _ _ _ _ _ _ H r) as Htt.
    rewrite aget_rat_findvalues, rat_find_view by exact Hto. rewrite rat_read_view in * by exact Hto.
    destruct (rat_view trat r) as [|v t]; cbn [find hd_error] in *; [reflexivity|].
    specialize (Htt v eq_refl). destruct (Z.ltb_spec (fst v) T); [reflexivity | lia].
  Qed.

  (* ord: the order of the Go map iterations *)
  Section Ord.
  Variable ord : Z -> Z -> list Z -> list Z.

  (* ---------------------------------------------------------------- *)
  (* RATCommit / RATRollback                                           *)

  (* for k, v := range vals { committedRAT.Write(k, v.value) } ; transactionRAT = NewRAT, when vals is what
     transactionRAT.Read returns *)
  Lemma tab_commit_gen w crat trat cy vals : TabOK w crat trat -> (forall r, aget r vals = rat_read tu0 trat r) ->
    TabOK w (commit_vals ord cy crat vals) (rat_new ratLength).
  Proof.
    intros [Hco Hto Hck Htk Hvw Htt] Hvals.
    assert (Ecv : commit_vals ord cy crat vals = wfold 0 (fun tu : Z * Z => snd tu) vals (map_order ord cy (-1) (akeys vals)) crat) by reflexivity.
    rewrite Ecv. destruct (fold_rat_write_read 0 (fun tu : Z * Z => snd tu) vals (map_order ord cy (-1) (akeys vals)) crat Hco) as [Hok' Hrd'].
    set (crat' := wfold 0 (fun tu : Z * Z => snd tu) vals (map_order ord cy (-1) (akeys vals)) crat) in *.
    assert (Hread : forall r, rat_read 0 crat' r = match rat_read tu0 trat r with Some a => Some (snd a) | None => rat_read 0 crat r end).
    { intros r. rewrite Hrd'. unfold map_order. rewrite memZ_iter_order, memZ_akeys, Hvals. destruct (rat_read tu0 trat r); reflexivity. }
    constructor.
    - exact Hok'.
    - apply rat_new_ok. unfold ratLength. lia.
    - intros r. rewrite Hread. destruct (rat_read tu0 trat r) as [a|] eqn:E; [|apply Hck].
      split; [intros _; apply Htk; rewrite E; discriminate | intros _; discriminate].
    - intros r H. exfalso. apply H. reflexivity.
    - intros r. rewrite tview_new, Hread, <- Hvw. unfold tview. destruct (rat_read tu0 trat r); reflexivity.
    - intros r v H. discriminate H.
  Qed.

  Lemma tab_commit w crat trat cy : TabOK w crat trat ->
    TabOK w (commit_vals ord cy crat (rat_values tu0 trat)) (rat_new ratLength).
  Proof. intros H. apply tab_commit_gen with (trat := trat); [exact H|]. intros r. apply aget_rat_values. Qed.

  Lemma tab_rollback w crat trat cy T : TabOK w crat trat -> sid w <= T ->
    TabOK w (commit_vals ord cy crat (rat_findvalues tu0 trat (fun u => fst u <? T))) (rat_new ratLength).
  Proof. intros H HT. apply tab_commit_gen with (trat := trat); [exact H|]. apply (findvalues_read w crat trat T H HT). Qed.

  (* ---------------------------------------------------------------- *)
  (* RATFlush                                                          *)

  Lemma tab_flush w x cy : TabOK w (x_crat x) (x_trat x) -> (forall r, rat_read tu0 (x_trat x) r = None) ->
    length (m_regs (x_m x)) = 32%nat -> rat_flush3 ord cy x = sreg w.
  Proof.
    intros [Hco Hto Hck Htk Hvw Htt] Hemp Hregs. unfold rat_flush3.
    assert (Hread : forall r, rat_read 0 (x_crat x) r = if (0 <=? r) && (r <? 32) then Some (vw w r) else None).
    { intros r. specialize (Hvw r). unfold tview in Hvw. rewrite Hemp in Hvw. specialize (Hck r).
      destruct (Z_le_dec 0 r) as [H0|H0]; [destruct (Z_lt_dec r 32) as [H1|H1]|].
      - rewrite in_rng_true by lia. destruct (rat_read 0 (x_crat x) r) as [v|]; [rewrite Hvw; reflexivity|].
        exfalso. apply (proj2 Hck); [lia | reflexivity].
      - rewrite in_rng_false by lia. destruct (rat_read 0 (x_crat x) r) as [v|]; [|reflexivity].
        exfalso. assert (0 <= r < 32) by (apply Hck; discriminate). lia.
      - rewrite in_rng_false by lia. destruct (rat_read 0 (x_crat x) r) as [v|]; [|reflexivity].
        exfalso. assert (0 <= r < 32) by (apply Hck; discriminate). lia. }
    set (cvals := rat_values 0 (x_crat x)).
    assert (Haget : forall k, aget k cvals = if (0 <=? k) && (k <? 32) then Some (vw w k) else None).
    { intros k. unfold cvals. rewrite aget_rat_values. apply Hread. }
    apply (nth_ext _ _ 0 0).
    - rewrite flush_fold_length, Hregs, sreg_len32. reflexivity.
    - intros s Hs. rewrite flush_fold_length, Hregs in Hs.
      rewrite flush_fold.
      + unfold map_order. rewrite memZ_iter_order, memZ_akeys, Haget.
        rewrite in_rng_true by lia. rewrite vw_in by lia. rewrite Nat2Z.id. reflexivity.
      + intros k v Hk. rewrite Haget in Hk. destruct (Z.leb_spec 0 k); [assumption | discriminate].
      + rewrite Hregs. exact Hs.
  Qed.

  (* RATCommit ; RATFlush *)
  Lemma tab_finish w x cy : TabOK w (x_crat x) (x_trat x) -> length (m_regs (x_m x)) = 32%nat ->
    rat_flush3 ord cy (rat_commit3 ord cy x) = sreg w.
  Proof.
    intros H Hregs. apply tab_flush.
    - unfold rat_commit3. cbn [x_crat x_trat set_rats3]. apply tab_commit. exact H.
    - intros r. reflexivity.
    - exact Hregs.
  Qed.

  End Ord.
  End Tab.
End FwdRat.

(* ctx.InitRAT() *)
Lemma tab_init app labels ord regs : length regs = 32%nat -> nth 0 regs 0 = 0 ->
  TabOK app labels regs 0 0 0 (init_rat3 ord regs) (rat_new ratLength).
Proof.
  intros Hl _. destruct (init_rat_read ord regs) as [Hok Hrd]. rewrite Hl in Hrd. change (Z.of_nat 32) with 32 in Hrd.
  constructor.
  - exact Hok.
  - apply rat_new_ok. unfold ratLength. lia.
  - intros r. rewrite Hrd. destruct (Z_le_dec 0 r) as [H0|H0]; [destruct (Z_lt_dec r 32) as [H1|H1]|].
    + rewrite in_rng_true by lia. split; [intros _; lia | intros _; discriminate].
    + rewrite in_rng_false by lia. split; [intros H; exfalso; apply H; reflexivity | lia].
    + rewrite in_rng_false by lia. split; [intros H; exfalso; apply H; reflexivity | lia].
  - intros r H. exfalso. apply H. reflexivity.
  - intros r. rewrite tview_new, Hrd. unfold vw. cbn [sreg]. destruct ((0 <=? r) && (r <? 32)); reflexivity.
  - intros r v H. discriminate H.
Qed.

Print Assumptions reg_read3_tview.
Print Assumptions vw_zero.
Print Assumptions vw_int32.
Print Assumptions exeb_val_int32.
Print Assumptions vw_S_write.
Print Assumptions vw_S_nowrite.
Print Assumptions vw_stable.
Print Assumptions fwd_valueq.
Print Assumptions tab_write.
Print Assumptions tab_nowrite.
Print Assumptions tab_commit.
Print Assumptions tab_rollback.
Print Assumptions tab_finish.
Print Assumptions tab_init.
Print Assumptions tab_rebase.
Print Assumptions sreg_len32.
Print Assumptions sreg_x0.
Print Assumptions sreg_r32.
