(* Soundness of the ghost flag of the cycle-level model of MVP-8.0 (Mvp80.v), final part.

   mvp80_ord_irrelevant_snoop: a run that ends with the ghost flag clear returns the same result (and the flag clear)
   under every other order function that agrees with the first one on the RAT value maps ONLY (ords_rat of
   Mvp80OrdProofs.v): no condition on the iteration orders of controlUnit.pushedRunnersInPreviousCycle (map (b))
   and of the request maps of coSnoop (map (d)).  mvp80_ord_irrelevant of Mvp80OrdProofs.v (hypothesis ords_ok3) is a
   special case.

   Proof.  The two runs are not equal state by state: after a coSnoop call with several requests the snoop lists of
   a controller are permutations of each other, and later the lists k_done (a set), k_l3lock, k_l3write (maps) of the
   directory differ by their order.  The runs are related by st_rel (Mvp80OrdStep.v):
     - every function of the model is a congruence for msi_equiv (Mvp80OrdCong.v) and, outside the snoop phase, for
       cc_perm (Mvp80OrdPerm.v);
     - the snoop phase: coSnoop creates the same closures in a permuted order (Mvp80OrdSnoop.v); a snoop list can be
       run in any order (sn_run_perm, Mvp80OrdComm.v) because two closures of one list commute (Mvp80OrdSwapA-D.v:
       the 10 pairs of kinds) - they are pairwise conflict-free because the ghost flag was clear when the list was
       created, and the caches and the directory are well-formed (invariants my_inv, Mvp80OrdInvDefs.v, preserved by
       every tick whose flag stays clear, Mvp80OrdInv.v);
     - the control unit: cu_cycle3_ord of Mvp63Proofs.v (map (b)). *)
From Coq Require Import ZArith List Bool Lia Permutation.
From Maj Require Import Base.Outcome Base.GoInt Base.GoTypes Isa.Spec Isa.Seq.
From Maj Require Import Gen.Latency Gen.RiscTables Gen.Opcodes Comp.Cache Comp.Rat Mvp.Mvp12 Mvp.Mvp3 Mvp.Mvp5 Mvp.Mvp60 Mvp.Mvp63 Mvp.Mvp80.
From Maj Require Import Mvp.Mvp60Proofs Mvp.Mvp63Proofs Mvp.Mvp80Proofs Mvp.Mvp80OrdIds Mvp.Mvp80OrdProofs.
From Maj Require Import Mvp.Mvp80OrdSnoop Mvp.Mvp80OrdCache Mvp.Mvp80OrdInvDefs Mvp.Mvp80OrdCommDefs Mvp.Mvp80OrdCong Mvp.Mvp80OrdComm Mvp.Mvp80OrdStep.
From Maj Require Mvp.Mvp80OrdSwapA Mvp.Mvp80OrdSwapB Mvp.Mvp80OrdSwapC Mvp.Mvp80OrdSwapD Mvp.Mvp80OrdInv Mvp.Mvp80OrdPerm.
Import ListNotations.
Open Scope Z_scope.

Module SA := Mvp.Mvp80OrdSwapA.
Module SB := Mvp.Mvp80OrdSwapB.
Module SC := Mvp.Mvp80OrdSwapC.
Module SD := Mvp.Mvp80OrdSwapD.
Module IV := Mvp.Mvp80OrdInv.
Module PM := Mvp.Mvp80OrdPerm.

(* two compatible closures of one snoop list commute: the 16 ordered pairs of kinds *)
Theorem swap_all : forall x y, sn_swap_stmt x y.
Proof.
  intros [k1 c1|k1 c1|k1 c1 a b d|k1 c1 n] [k2 c2|k2 c2|k2 c2 a' b' d'|k2 c2 n'].
  - apply SA.swap_E1_E1.
  - apply SA.swap_E1_E3.
  - apply SA.swap_E1_W1.
  - apply SA.swap_E1_W3.
  - apply SA.sn_swap_sym, SA.swap_E1_E3.
  - apply SB.swap_E3_E3.
  - apply SA.sn_swap_sym, SC.swap_W1_E3.
  - apply SB.swap_E3_W3.
  - apply SA.sn_swap_sym, SA.swap_E1_W1.
  - apply SC.swap_W1_E3.
  - apply SD.swap_W1_W1.
  - apply SC.swap_W1_W3.
  - apply SA.sn_swap_sym, SA.swap_E1_W3.
  - apply SA.sn_swap_sym, SB.swap_E3_W3.
  - apply SA.sn_swap_sym, SC.swap_W1_W3.
  - apply SB.swap_W3_W3.
Qed.

(* the snoop phase of a tick under two order functions *)
Theorem snoops8_any_order : forall ord1 ord2 cycle y1 y2, my_rel y1 y2 -> my_inv y1 ->
  orel my_rel (snoops8 ord1 cycle y1) (snoops8 ord2 cycle y2).
Proof.
  exact (snoops8_rel swap_all IV.sn_step_inv IV.sn_list_ok_keys_le IV.cc_snoop_cycle_inv_weak).
Qed.

(* a run of MVP-8.0 that ends with the ghost flag clear returns the same result whatever the iteration orders of the
   control unit's map of the runners pushed in the previous cycle and of the request maps of coSnoop *)
Theorem mvp80_ord_irrelevant_snoop : forall par fuel app labels st ord1 ord2 r,
  ords_rat ord1 ord2 ->
  mvp80_run_os par ord1 fuel app labels st = (r, false) ->
  mvp80_run_os par ord2 fuel app labels st = (r, false).
Proof.
  intros par fuel app labels st ord1 ord2 r O H. unfold mvp80_run_os in *.
  rewrite <- (init8_ord par ord1 ord2 app st O).
  destruct (init8 par ord1 app st) as [s| |] eqn:EI; auto.
  assert (F : final_os8 (run8_st fuel app labels ord1 s) = false).
  { destruct (run8_st fuel app labels ord1 s) as [[r1 os1]|s1]; inversion H; reflexivity. }
  pose proof (run8_rel ord1 ord2 O (snoops8_any_order ord1 ord2) PM.front8_perm PM.after_snoops8_perm PM.flushw_perm
                       IV.snoop_arg8_inv IV.step8_inv fuel app labels s s (st_rel_refl s) (IV.init8_inv _ _ _ _ _ EI) F) as R.
  destruct (run8_st fuel app labels ord1 s) as [[r1 os1]|s1], (run8_st fuel app labels ord2 s) as [[r2 os2]|s2];
    try contradiction.
  - rewrite <- R. exact H.
  - destruct R as (Ry & _). rewrite <- (my_rel_os _ _ Ry). exact H.
Qed.

(* the statement announced in Mvp80OrdSnoop.v *)
Theorem mvp80_snoop_statement_holds : mvp80_ord_irrelevant_snoop_statement.
Proof. unfold mvp80_ord_irrelevant_snoop_statement. intros. eapply mvp80_ord_irrelevant_snoop; eauto. Qed.

(* with the hypothesis of mvp63_ord_irrelevant / mvp70_ord_irrelevant (a special case: ords_ok3 also fixes the order
   of the snoop request maps) *)
Corollary mvp80_ord_irrelevant_ok3 : forall par fuel app labels st ord1 ord2 r,
  ords_ok3 ord1 ord2 ->
  mvp80_run_os par ord1 fuel app labels st = (r, false) ->
  mvp80_run_os par ord2 fuel app labels st = (r, false).
Proof. intros. eapply mvp80_ord_irrelevant_snoop; eauto. apply ords_ok3_rat. assumption. Qed.

(* the order function that reverses the maps (b) and (d) satisfies the hypothesis against the ascending order *)
Example ords_rat_example : ords_rat ord_asc ord_bd_desc.
Proof. exact ords_rat_asc_bd_desc. Qed.

(* the theorem is not vacuous beyond mvp80_ord_irrelevant_both_flags: three loads of three lines on one core, then
   three stores to these lines that fire in the same cycle on three cores (their data comes from one mul): the
   coSnoop call of the loading core sees several l1Evict requests (second ghost flag SET), the ghost flag of the
   model stays clear, and reversing the orders of the maps (b) and (d) gives the same run *)
Definition fire_ld (ln : Z) : list instr :=
  [I_li (mk_li 10 ln); I_add (mk_add 10 10 9); I_lw (mk_lw 5 0 10); I_sub (mk_sub 9 5 5)].
Definition fire_prog : list instr :=
  flat_map fire_ld [0; 64; 256] ++
  [I_addi (mk_addi 0 11 9); I_addi (mk_addi 64 12 9); I_addi (mk_addi 256 13 9); I_addi (mk_addi 1024 15 9);
   I_mul (mk_mul 7 6 6); I_sw (mk_sw 7 4 11); I_sw (mk_sw 7 4 12); I_sw (mk_sw 7 4 13); I_ret mk_ret].
Definition fire_st : arch := mk_arch (Seq.upd (repeat 0 32) 6 77) (repeat 0 512).

Example multi_request_flag_clear_example :
  mvp80_snoop_multi 3 ord_asc 4000 fire_prog no_labels fire_st = true /\
  snd (mvp80_run_os 3 ord_asc 4000 fire_prog no_labels fire_st) = false /\
  mvp80_run_os 3 ord_bd_desc 4000 fire_prog no_labels fire_st = mvp80_run_os 3 ord_asc 4000 fire_prog no_labels fire_st.
Proof.
  assert (F : snd (mvp80_run_os 3 ord_asc 4000 fire_prog no_labels fire_st) = false) by (vm_compute; reflexivity).
  split; [vm_compute; reflexivity|]. split; [exact F|].
  destruct (mvp80_run_os 3 ord_asc 4000 fire_prog no_labels fire_st) as [r os] eqn:E. cbn [snd] in F. subst os.
  apply (mvp80_ord_irrelevant_snoop 3 4000 fire_prog no_labels fire_st ord_asc ord_bd_desc r ords_rat_asc_bd_desc E).
Qed.

Print Assumptions swap_all.
Print Assumptions snoops8_any_order.
Print Assumptions mvp80_ord_irrelevant_snoop.
Print Assumptions mvp80_snoop_statement_holds.
Print Assumptions mvp80_ord_irrelevant_ok3.
Print Assumptions multi_request_flag_clear_example.
